(* C11 - proofs about Schema/Skeleton.v:
   shaped_conforms_skeleton   a tree `shaped` by a schema, read as a JSON value, CONFORMS (Validate.conforms) to
                              the schema's skeleton in the skeletonised environment;
   shaped_validates_skeleton  the same with the executable validator: `validate` answers Some true for every
                              fuel above a bound;
   conforms_skeleton          monotonicity: a value that conforms to the full schema conforms to its skeleton;
   env_of_files_skeleton      the environment of skeletonised files is the skeletonised environment. *)
From Coq Require Import String.
From Coq Require Import List ZArith Strings.Byte Bool Lia.
From Verif Require Import Base.Wire Num.Codec Num.CodecProofs Schema.Regex Schema.RegexProofs Schema.Schema
  Schema.Validate Schema.ValidateProofs Marshal.Typed Schema.Shape Schema.Skeleton.
Import ListNotations.
Open Scope Z_scope.

Scheme shaped_mind := Minimality for shaped Sort Prop
  with shaped_kw_mind := Minimality for shaped_kw Sort Prop.
Combined Scheme shaped_mutind from shaped_mind, shaped_kw_mind.

(* ------------------------------------------------------------------------------------------ *)
(* written trees as JSON values                                                                *)
(* ------------------------------------------------------------------------------------------ *)
Lemma all_some_In {A} (l : list (option A)) l' y : all_some l = Some l' -> In y l' -> In (Some y) l.
Proof.
  revert l'. induction l as [|[x|] r IH]; intros l' H Hin; cbn [all_some] in H.
  - inversion H; subst. contradiction.
  - destruct (all_some r) as [r'|]; [|discriminate]. inversion H; subst.
    destruct Hin as [->|Hin]; [left; reflexivity | right; eauto].
  - discriminate.
Qed.

Lemma to_json_arr l j : to_json (TArr l) = Some j ->
  exists l', j = JArr l' /\ forall y, In y l' -> exists x, In x l /\ to_json x = Some y.
Proof.
  cbn [to_json]. destruct (all_some (map to_json l)) as [l'|] eqn:E; [|discriminate].
  intros H. inversion H; subst. exists l'. split; auto. intros y Hy.
  apply (all_some_In _ _ _ E) in Hy. apply in_map_iff in Hy. destruct Hy as (x & Hx & Hin). eauto.
Qed.

Lemma to_json_obj m j : to_json (TObj m) = Some j ->
  exists o, j = JObj o /\ forall k y, In (k, y) o -> exists x, In (k, x) m /\ to_json x = Some y.
Proof.
  cbn [to_json].
  destruct (all_some (map (fun kv => match to_json (snd kv) with
                                     | Some j => Some (fst kv, j) | None => None end) m)) as [o|] eqn:E;
    [|discriminate].
  intros H. inversion H; subst. exists o. split; auto. intros k y Hy.
  apply (all_some_In _ _ _ E) in Hy. apply in_map_iff in Hy. destruct Hy as ([k' x] & Hx & Hin).
  cbn [fst snd] in Hx. destruct (to_json x) as [y'|] eqn:Ex; [|discriminate]. inversion Hx; subst. eauto.
Qed.

(* the value of a tree that reads as an object / an array *)
Lemma to_json_is_obj v o : to_json v = Some (JObj o) ->
  exists m, v = TObj m /\ forall k y, In (k, y) o -> exists x, In (k, x) m /\ to_json x = Some y.
Proof.
  intros H. destruct v as [| |raw| |l|m].
  - discriminate. - discriminate.
  - cbn [to_json] in H. destruct (num_of_text raw) as [[? ?]|]; discriminate.
  - discriminate.
  - apply to_json_arr in H. destruct H as (? & ? & _). discriminate.
  - exists m. split; auto. apply to_json_obj in H. destruct H as (o' & E & H). inversion E; subst. exact H.
Qed.

Lemma to_json_is_arr v l' : to_json v = Some (JArr l') ->
  exists l, v = TArr l /\ forall y, In y l' -> exists x, In x l /\ to_json x = Some y.
Proof.
  intros H. destruct v as [| |raw| |l|m].
  - discriminate. - discriminate.
  - cbn [to_json] in H. destruct (num_of_text raw) as [[? ?]|]; discriminate.
  - discriminate.
  - exists l. split; auto. apply to_json_arr in H. destruct H as (o' & E & H). inversion E; subst. exact H.
  - apply to_json_obj in H. destruct H as (? & ? & _). discriminate.
Qed.

(* an integer literal reads as a number with exponent 0 *)
Lemma num_of_text_int raw : json_int_text raw = true -> exists m, num_of_text raw = Some (m, 0).
Proof.
  unfold json_int_text, num_of_text. destruct (trim_minus raw) as [|d r] eqn:T; [discriminate|].
  intros H. apply andb_true_iff in H. destruct H as [D Z0].
  pose proof (span_digits_app (d :: r) [] D I) as S. rewrite app_nil_r in S. rewrite S.
  replace (negb (Codec.is_nil r) && Byte.eqb d b_zero) with false.
  2:{ symmetry. destruct r; [reflexivity|]. cbn in Z0 |- *. destruct (Byte.eqb d b_zero); [discriminate | reflexivity]. }
  cbn [exp_of_text length Z.of_nat]. eexists. reflexivity.
Qed.

Lemma tv_has_type_to_json v t j : tv_has_type v t = true -> to_json v = Some j -> has_type j t = true.
Proof.
  intros H J. destruct t, v; try discriminate H; cbn [to_json] in J;
    try (inversion J; subst; reflexivity).
  - apply to_json_obj in J. destruct J as (o & -> & _). reflexivity.
  - apply to_json_arr in J. destruct J as (o & -> & _). reflexivity.
  - destruct (num_of_text raw) as [[m e]|]; inversion J; subst. reflexivity.
  - cbn [tv_has_type] in H. destruct (num_of_text_int raw H) as (m & E). rewrite E in J.
    inversion J; subst. reflexivity.
Qed.

(* ------------------------------------------------------------------------------------------ *)
(* what the skeleton keeps                                                                     *)
(* ------------------------------------------------------------------------------------------ *)
Lemma lookup_map_snd {A B} (f : A -> B) k (ps : list (bytes * A)) :
  lookup k (map (fun p => (fst p, f (snd p))) ps) = option_map f (lookup k ps).
Proof.
  induction ps as [|[k' a] r IH]; [reflexivity|]. cbn [map lookup fst snd].
  destruct (eqb_bytes k' k); [reflexivity | exact IH].
Qed.

Lemma has_key_map_snd {A B} (f : A -> B) k (ps : list (bytes * A)) :
  has_key k (map (fun p => (fst p, f (snd p))) ps) = has_key k ps.
Proof. unfold has_key. rewrite lookup_map_snd. destruct (lookup k ps); reflexivity. Qed.

Lemma covered_skeleton ctx k : covered (flat_map skeleton_kw ctx) k = covered ctx k.
Proof.
  induction ctx as [|kw r IH]; [reflexivity|]. cbn [flat_map].
  destruct kw; cbn [skeleton_kw app covered]; try exact IH.
  - rewrite has_key_map_snd, IH. reflexivity.
  - rewrite IH. f_equal. induction ps as [|[p s] ps IHp]; [reflexivity|].
    cbn [map existsb fst snd]. rewrite IHp. reflexivity.
Qed.

Lemma lookup_ref_skeleton e t : lookup_ref (skeleton_env e) t = option_map skeleton (lookup_ref e t).
Proof.
  induction e as [|[[d f] s] r IH]; [reflexivity|]. cbn [skeleton_env map lookup_ref fst snd].
  destruct (eqb_bytes f (snd t) && eqb_bytes d (fst t)); [reflexivity | exact IH].
Qed.

Lemma in_map_snd {A B C} (f : B -> C) (a : A) c (ps : list (A * B)) :
  In (a, c) (map (fun p => (fst p, f (snd p))) ps) -> exists b, In (a, b) ps /\ c = f b.
Proof.
  rewrite in_map_iff. intros ([a' b] & E & Hin). cbn [fst snd] in E. inversion E; subst. eauto.
Qed.

(* ------------------------------------------------------------------------------------------ *)
(* shaped  ==>  the validator's specification accepts, for the skeleton                         *)
(* ------------------------------------------------------------------------------------------ *)
Section Link.
  Variable e : Schema.env.

  Lemma shaped_conforms_skeleton_all :
    (forall base s v, shaped e base s v ->
       forall j, to_json v = Some j -> conforms (skeleton_env e) base (skeleton s) j) /\
    (forall base ctx kw v, shaped_kw e base ctx kw v ->
       forall j k', to_json v = Some j -> In k' (skeleton_kw kw) ->
                    conforms_kw (skeleton_env e) base (flat_map skeleton_kw ctx) k' j).
  Proof.
    apply shaped_mutind.
    - (* true *) intros base v j _. constructor.
    - (* keywords *)
      intros base ks v _ _ IH j J. cbn [skeleton]. apply C_kws. intros k' Hk'.
      apply in_flat_map in Hk'. destruct Hk' as (kw & Hkw & Hk'). eapply IH; eauto.
    - (* type *)
      intros base ctx ts v H j k' J [<-|[]]. apply existsb_exists in H. destruct H as (t & Hin & Ht).
      eapply C_type; [exact Hin|]. eapply tv_has_type_to_json; eauto.
    - (* $ref *)
      intros base ctx r v s L _ IH j k' J [<-|[]]. eapply C_ref.
      + rewrite lookup_ref_skeleton, L. reflexivity.
      + apply IH; auto.
    - (* properties *)
      intros base ctx ps v _ IH j k' J [<-|[]]. apply C_properties. intros o k y s' -> Hin L.
      rewrite lookup_map_snd in L. destruct (lookup k ps) as [s|] eqn:Ls; [|discriminate].
      inversion L; subst. destruct (to_json_is_obj _ _ J) as (m & -> & M).
      destruct (M _ _ Hin) as (x & Hx & Jx). eapply IH; eauto.
    - (* patternProperties *)
      intros base ctx pps v _ IH j k' J [<-|[]]. apply C_patternProperties. intros o k y p s' -> Hin Hp Hl.
      apply in_map_snd in Hp. destruct Hp as (s & Hp & ->).
      destruct (to_json_is_obj _ _ J) as (m & -> & M). destruct (M _ _ Hin) as (x & Hx & Jx).
      eapply IH; eauto. apply pattern_matches_correct. exact Hl.
    - (* additionalProperties *)
      intros base ctx s v _ IH j k' J [<-|[]]. apply C_additionalProperties. intros o k y -> Hin Hc.
      rewrite covered_skeleton in Hc.
      destruct (to_json_is_obj _ _ J) as (m & -> & M). destruct (M _ _ Hin) as (x & Hx & Jx).
      eapply IH; eauto.
    - (* items *)
      intros base ctx s v _ IH j k' J [<-|[]]. apply C_items. intros l y -> Hin.
      destruct (to_json_is_arr _ _ J) as (l0 & -> & M). destruct (M _ Hin) as (x & Hx & Jx).
      eapply IH; eauto.
    - (* allOf *)
      intros base ctx l v _ IH j k' J [<-|[]]. apply C_allOf. intros s' Hin.
      apply in_map_iff in Hin. destruct Hin as (s & <- & Hin). apply IH; auto.
    - (* the keywords without structural meaning: removed, or kept without an assertion *)
      intros base ctx kw v Ig j k' J Hk'. destruct kw; try discriminate Ig; cbn [skeleton_kw] in Hk';
        try contradiction; destruct Hk' as [<-|[]]; constructor.
  Qed.

  Theorem shaped_conforms_skeleton base s v j :
    shaped e base s v -> to_json v = Some j -> conforms (skeleton_env e) base (skeleton s) j.
  Proof. intros H J. exact (proj1 shaped_conforms_skeleton_all base s v H j J). Qed.

  (* the executable validator accepts, for every fuel above a bound *)
  Theorem shaped_validates_skeleton base s v j :
    shaped e base s v -> to_json v = Some j ->
    exists n, forall m, (n <= m)%nat -> validate (skeleton_env e) m base (skeleton s) j = Some true.
  Proof.
    intros H J. apply (proj1 (validate_complete (skeleton_env e) base (skeleton s) j)).
    eapply shaped_conforms_skeleton; eauto.
  Qed.

  Theorem shaped_id_conforms_skeleton id v j :
    shaped_id e id v -> to_json v = Some j -> conforms_id (skeleton_env e) id j.
  Proof.
    intros (s & L & H) J. exists (skeleton s). split.
    - rewrite lookup_ref_skeleton, L. reflexivity.
    - eapply shaped_conforms_skeleton; eauto.
  Qed.

  Theorem shaped_id_validates_skeleton id v j :
    shaped_id e id v -> to_json v = Some j ->
    exists n, forall m, (n <= m)%nat -> validate_id (skeleton_env e) m id j = Some true.
  Proof.
    intros (s & L & H) J. destruct (shaped_validates_skeleton id s v j H J) as (n & Hn).
    exists n. intros m Hm. unfold validate_id. rewrite lookup_ref_skeleton, L. cbn [option_map]. auto.
  Qed.

  (* ---------------------------------------------------------------------------------------- *)
  (* monotonicity: the skeleton accepts whatever the full schema accepts                      *)
  (* ---------------------------------------------------------------------------------------- *)
  Lemma conforms_skeleton_all :
    (forall base s j, conforms e base s j -> conforms (skeleton_env e) base (skeleton s) j) /\
    (forall base s j, violates e base s j -> True) /\
    (forall base ctx k j, conforms_kw e base ctx k j ->
       forall k', In k' (skeleton_kw k) -> conforms_kw (skeleton_env e) base (flat_map skeleton_kw ctx) k' j) /\
    (forall base ctx k j, violates_kw e base ctx k j -> True).
  Proof.
    apply verdict_mutind; try (intros; exact I).
    - intros base j. constructor.
    - intros base ks j _ IH. cbn [skeleton]. apply C_kws. intros k' Hk'.
      apply in_flat_map in Hk'. destruct Hk' as (kw & Hkw & Hk'). eapply IH; eauto.
    - intros base ctx ts j t Hin Ht k' [<-|[]]. eapply C_type; eauto.
    - intros base ctx r j s L _ IH k' [<-|[]]. eapply C_ref; [|exact IH].
      rewrite lookup_ref_skeleton, L. reflexivity.
    - intros base ctx ps j _ IH k' [<-|[]]. apply C_properties. intros o k y s' -> Hin L.
      rewrite lookup_map_snd in L. destruct (lookup k ps) as [s|] eqn:Ls; [|discriminate].
      inversion L; subst. eapply IH; eauto.
    - intros base ctx pps j _ IH k' [<-|[]]. apply C_patternProperties. intros o k y p s' -> Hin Hp Hl.
      apply in_map_snd in Hp. destruct Hp as (s & Hp & ->). eapply IH; eauto.
    - intros base ctx s j _ IH k' [<-|[]]. apply C_additionalProperties. intros o k y -> Hin Hc.
      rewrite covered_skeleton in Hc. eapply IH; eauto.
    - intros base ctx names j _ k' [].
    - intros base ctx s j _ IH k' [<-|[]]. apply C_items. intros l y -> Hin. eapply IH; eauto.
    - intros base ctx l1 s l2 j _ _ _ _ k' [].
    - intros base ctx l s j _ _ _ k' [].
    - intros base ctx l j _ IH k' [<-|[]]. apply C_allOf. intros s' Hin.
      apply in_map_iff in Hin. destruct Hin as (s & <- & Hin). apply IH; auto.
    - intros base ctx c j _ k' [].
    - intros base ctx l c j _ _ k' [].
    - intros base ctx p j _ k' [].
    - intros base ctx f j _ k' [].
    - intros base ctx n j _ k' [].
    - intros base ctx n j _ k' [].
    - intros base ctx i j k' [<-|[]]. constructor.
    - intros base ctx ds j k' [<-|[]]. constructor.
    - intros base ctx n j k' [<-|[]]. constructor.
  Qed.

  Theorem conforms_skeleton base s j :
    conforms e base s j -> conforms (skeleton_env e) base (skeleton s) j.
  Proof. exact (proj1 conforms_skeleton_all base s j). Qed.

  Theorem conforms_id_skeleton id j : conforms_id e id j -> conforms_id (skeleton_env e) id j.
  Proof.
    intros (s & L & H). exists (skeleton s). split.
    - rewrite lookup_ref_skeleton, L. reflexivity.
    - now apply conforms_skeleton.
  Qed.
End Link.

(* ------------------------------------------------------------------------------------------ *)
(* the skeletonised environment is the environment of the skeletonised files                  *)
(* ------------------------------------------------------------------------------------------ *)
Lemma kw_id_skeleton ks : kw_id (flat_map skeleton_kw ks) = kw_id ks.
Proof.
  induction ks as [|kw r IH]; [reflexivity|]. cbn [flat_map].
  destruct kw; cbn [skeleton_kw app kw_id]; auto.
Qed.

Lemma kw_defs_skeleton ks :
  kw_defs (flat_map skeleton_kw ks) = map (fun p => (fst p, skeleton (snd p))) (kw_defs ks).
Proof.
  induction ks as [|kw r IH]; [reflexivity|]. cbn [flat_map].
  destruct kw; cbn [skeleton_kw app kw_defs]; auto. rewrite map_app, IH. reflexivity.
Qed.

Lemma env_of_file_skeleton s : env_of_file (skeleton s) = skeleton_env (env_of_file s).
Proof.
  destruct s as [b|ks]; [reflexivity|]. cbn [skeleton env_of_file]. rewrite kw_id_skeleton.
  destruct (kw_id ks) as [i|]; [|reflexivity]. unfold skeleton_env. cbn [map fst snd skeleton].
  f_equal. rewrite kw_defs_skeleton, !map_map. apply map_ext. intros [n d]. reflexivity.
Qed.

Theorem env_of_files_skeleton files :
  env_of_files (map (fun f => (fst f, skeleton (snd f))) files) = skeleton_env (env_of_files files).
Proof.
  unfold env_of_files. induction files as [|[p s] r IH]; [reflexivity|].
  cbn [map flat_map fst snd]. rewrite IH, env_of_file_skeleton. unfold skeleton_env. rewrite map_app. reflexivity.
Qed.

(* ------------------------------------------------------------------------------------------ *)
(* the skeleton has no value-level keyword left, and a schema without them is its own skeleton *)
(* ------------------------------------------------------------------------------------------ *)
Lemma forallb_app' {A} (f : A -> bool) a b : forallb f a = true -> forallb f b = true -> forallb f (a ++ b) = true.
Proof. intros Ha Hb. rewrite forallb_app, Ha, Hb. reflexivity. Qed.

Fixpoint skeleton_structural (s : schema) : structural (skeleton s) = true
with skeleton_kw_structural (k : keyword) : forallb structural_kw (skeleton_kw k) = true.
Proof.
  - destruct s as [b|ks]; [reflexivity|]. cbn [skeleton structural].
    induction ks as [|k r IH]; [reflexivity|]. cbn [flat_map]. apply forallb_app'; [|exact IH].
    apply skeleton_kw_structural.
  - destruct k; cbn [skeleton_kw forallb structural_kw erased negb andb]; try reflexivity.
    + rewrite andb_true_r. induction ps as [|[n s] r IH]; [reflexivity|].
      cbn [map forallb fst snd]. rewrite (skeleton_structural s). exact IH.
    + rewrite andb_true_r. induction ps as [|[n s] r IH]; [reflexivity|].
      cbn [map forallb fst snd]. rewrite (skeleton_structural s). exact IH.
    + rewrite (skeleton_structural s). reflexivity.
    + rewrite (skeleton_structural s). reflexivity.
    + rewrite andb_true_r. induction l as [|s r IH]; [reflexivity|].
      cbn [map forallb]. rewrite (skeleton_structural s). exact IH.
    + rewrite andb_true_r. induction ds as [|[n s] r IH]; [reflexivity|].
      cbn [map forallb fst snd]. rewrite (skeleton_structural s). exact IH.
Qed.

Fixpoint structural_skeleton (s : schema) : structural s = true -> skeleton s = s
with structural_kw_skeleton (k : keyword) : structural_kw k = true -> skeleton_kw k = [k].
Proof.
  - destruct s as [b|ks]; [reflexivity|]. cbn [skeleton structural]. intros H. f_equal.
    induction ks as [|k r IH]; [reflexivity|]. cbn [forallb] in H. apply andb_true_iff in H.
    destruct H as [Hk Hr]. cbn [flat_map]. rewrite (structural_kw_skeleton k Hk), (IH Hr). reflexivity.
  - destruct k; cbn [skeleton_kw structural_kw erased negb andb]; try reflexivity; try discriminate; intros H.
    + do 2 f_equal. induction ps as [|[n s] r IH]; [reflexivity|].
      cbn [forallb snd] in H. apply andb_true_iff in H. destruct H as [Hs Hr].
      cbn [map fst snd]. rewrite (structural_skeleton s Hs), (IH Hr). reflexivity.
    + do 2 f_equal. induction ps as [|[n s] r IH]; [reflexivity|].
      cbn [forallb snd] in H. apply andb_true_iff in H. destruct H as [Hs Hr].
      cbn [map fst snd]. rewrite (structural_skeleton s Hs), (IH Hr). reflexivity.
    + rewrite (structural_skeleton s H). reflexivity.
    + rewrite (structural_skeleton s H). reflexivity.
    + do 2 f_equal. induction l as [|s r IH]; [reflexivity|].
      cbn [forallb] in H. apply andb_true_iff in H. destruct H as [Hs Hr].
      cbn [map]. rewrite (structural_skeleton s Hs), (IH Hr). reflexivity.
    + do 2 f_equal. induction ds as [|[n s] r IH]; [reflexivity|].
      cbn [forallb snd] in H. apply andb_true_iff in H. destruct H as [Hs Hr].
      cbn [map fst snd]. rewrite (structural_skeleton s Hs), (IH Hr). reflexivity.
Qed.

Theorem skeleton_idempotent s : skeleton (skeleton s) = skeleton s.
Proof. apply structural_skeleton, skeleton_structural. Qed.
