(* Well-formedness of a schema document given as raw JSON (model file: definitions only).
   Every keyword of the modelled subset must carry a value of the JSON type that the draft
   2020-12 meta-schema requires, at every schema position of the document (the document itself,
   members of properties / patternProperties / $defs, items, additionalProperties, elements of
   oneOf / anyOf / allOf).

   malformed j   lists the keywords (by name, one entry per occurrence) whose value is ill-typed
   wf_schema ex  is the specification; ex marks keywords excused by a recorded finding. *)
From Coq Require Import List ZArith Strings.Byte String Bool.
From Verif Require Import Base.Wire Schema.Regex Schema.Schema.
Import ListNotations.
Open Scope Z_scope.

(* what the meta-schema demands of a keyword's value *)
Inductive kwclass :=
| CString        (* a string *)
| CType          (* a type name, or a non-empty array of distinct type names *)
| CArray         (* any array *)
| CStrArray      (* an array of distinct strings *)
| CNonNeg        (* a non-negative integer *)
| CBool          (* a boolean *)
| CAny           (* any value *)
| CSchema        (* a schema *)
| CSchemaObj     (* an object whose member values are schemas *)
| CSchemaArr.    (* a non-empty array of schemas *)

Definition kw_table : list (bytes * kwclass) :=
  map (fun p => (bs (fst p), snd p))
  [ ("$schema", CString); ("$id", CString); ("$ref", CString); ("$comment", CString);
    ("$defs", CSchemaObj);
    ("type", CType); ("enum", CArray); ("const", CAny);
    ("properties", CSchemaObj); ("patternProperties", CSchemaObj); ("additionalProperties", CSchema);
    ("required", CStrArray); ("items", CSchema);
    ("oneOf", CSchemaArr); ("anyOf", CSchemaArr); ("allOf", CSchemaArr);
    ("pattern", CString); ("format", CString); ("minLength", CNonNeg); ("maxLength", CNonNeg);
    ("title", CString); ("description", CString); ("examples", CArray); ("default", CAny);
    ("deprecated", CBool); ("readOnly", CBool); ("writeOnly", CBool);
    ("contentEncoding", CString); ("contentMediaType", CString);
    (* GOBL's own annotations: no constraint *)
    ("calculated", CAny); ("recommended", CAny) ]%string.

Definition type_names : list bytes :=
  map bs ["null"; "boolean"; "object"; "array"; "number"; "integer"; "string"]%string.

Definition mem_bytes (s : bytes) (l : list bytes) : bool := existsb (eqb_bytes s) l.

(* an array of pairwise distinct strings, each satisfying p *)
Fixpoint distinct_strings (p : bytes -> bool) (seen : list bytes) (l : list json) : bool :=
  match l with
  | [] => true
  | JStr s :: r => p s && negb (mem_bytes s seen) && distinct_strings p (s :: seen) r
  | _ :: _ => false
  end.

(* the classes that do not contain schemas *)
Definition flat_ok (c : kwclass) (v : json) : bool :=
  match c, v with
  | CString, JStr _ => true
  | CType, JStr s => mem_bytes s type_names
  | CType, JArr (x :: l) => distinct_strings (fun s => mem_bytes s type_names) [] (x :: l)
  | CArray, JArr _ => true
  | CStrArray, JArr l => distinct_strings (fun _ => true) [] l
  | CNonNeg, JNum m e => is_int_num m e && (0 <=? m)
  | CBool, JBool _ => true
  | CAny, _ => true
  | _, _ => false
  end.

Definition is_schema_class (c : kwclass) : bool :=
  match c with CSchema | CSchemaObj | CSchemaArr => true | _ => false end.

Definition malformed_marker : bytes := bs "<not a schema>"%string.

(* keywords with an ill-typed value (or outside the table), at every schema position *)
Fixpoint malformed (j : json) : list bytes :=
  match j with
  | JBool _ => []
  | JObj ms =>
      flat_map (fun kv =>
        let k := fst kv in
        let sub := fun v : json => match v with
                                   | JBool _ => []
                                   | JObj _ => malformed v
                                   | _ => [k]
                                   end in
        match lookup k kw_table with
        | None => [k]
        | Some CSchema => sub (snd kv)
        | Some CSchemaObj => match snd kv with
                             | JObj ps => flat_map (fun p => sub (snd p)) ps
                             | _ => [k]
                             end
        | Some CSchemaArr => match snd kv with
                             | JArr (x :: l) => flat_map sub (x :: l)
                             | _ => [k]
                             end
        | Some c => if flat_ok c (snd kv) then [] else [k]
        end) ms
  | _ => [malformed_marker]
  end.

Section Spec.
  Variable ex : bytes -> bool.      (* keywords excused by a recorded finding *)

  Inductive wf_schema : json -> Prop :=
  | WF_bool b : wf_schema (JBool b)
  | WF_obj ms :
      (forall k v, In (k, v) ms -> wf_member k v) -> wf_schema (JObj ms)
  with wf_member : bytes -> json -> Prop :=
  | WM_excused k v : ex k = true -> wf_member k v
  | WM_flat k c v :
      lookup k kw_table = Some c -> is_schema_class c = false -> flat_ok c v = true -> wf_member k v
  | WM_schema k v :
      lookup k kw_table = Some CSchema -> wf_schema v -> wf_member k v
  | WM_schema_obj k ps :
      lookup k kw_table = Some CSchemaObj -> (forall n s, In (n, s) ps -> wf_schema s) ->
      wf_member k (JObj ps)
  | WM_schema_arr k x l :
      lookup k kw_table = Some CSchemaArr -> (forall s, In s (x :: l) -> wf_schema s) ->
      wf_member k (JArr (x :: l)).
End Spec.

(* the path/keyword pairs excused for a file *)
Definition excused (known : list (bytes * bytes)) (path : bytes) (k : bytes) : bool :=
  existsb (fun p => eqb_bytes (fst p) path && eqb_bytes (snd p) k) known.

(* boolean checker used by the generated-data theorem *)
Definition wf_file_except (known : list (bytes * bytes)) (f : bytes * json) : bool :=
  forallb (excused known (fst f)) (malformed (snd f)).

Definition wf_files_except (known : list (bytes * bytes)) (files : list (bytes * json)) : bool :=
  forallb (wf_file_except known) files.

(* every excused pair is really malformed (no stale entries) *)
Definition known_are_real (known : list (bytes * bytes)) (files : list (bytes * json)) : bool :=
  forallb (fun p => match lookup (fst p) files with
                    | Some j => mem_bytes (snd p) (malformed j)
                    | None => false
                    end) known.

(* ---- references ---- *)
Definition unresolved_refs (e : env) (s : schema) : list bytes :=
  match s with
  | SKw ks => match kw_id ks with
              | Some base => filter (fun r => match lookup_ref e (resolve base r) with
                                              | Some _ => false | None => true end) (refs_of s)
              | None => refs_of s
              end
  | SBool _ => []
  end.

Definition has_id (s : schema) : bool :=
  match s with SKw ks => match kw_id ks with Some _ => true | None => false end | _ => false end.

Definition refs_resolve_in (files : list (bytes * schema)) : bool :=
  let e := env_of_files files in
  forallb (fun f => has_id (snd f) && match unresolved_refs e (snd f) with [] => true | _ => false end) files.

(* the per-file report the check prints: ( ( x<path> ( x<keyword> ... ) ) ... ) in wire form *)
Definition malformed_report (files : list (bytes * json)) : bytes :=
  print_vs [VL (map (fun f => VL [VS (fst f); VL (map VS (malformed (snd f)))]) files)].

(* ---- what the raw JSON says, for comparison with the translated schema ---- *)
Definition is_kw (k : bytes) (name : string) : bool := eqb_bytes k (bs name).

(* texts of every "pattern" value and every patternProperties member name, in document order *)
Fixpoint raw_patterns (j : json) : list bytes :=
  match j with
  | JObj ms =>
      flat_map (fun kv =>
        let k := fst kv in
        let sub := fun v : json => match v with JObj _ => raw_patterns v | _ => [] end in
        match lookup k kw_table with
        | Some CSchema => sub (snd kv)
        | Some CSchemaObj =>
            match snd kv with
            | JObj ps => flat_map (fun p => (if is_kw k "patternProperties" then [fst p] else []) ++ sub (snd p)) ps
            | _ => []
            end
        | Some CSchemaArr => match snd kv with JArr l => flat_map sub l | _ => [] end
        | _ => if is_kw k "pattern" then match snd kv with JStr s => [s] | _ => [] end else []
        end) ms
  | _ => []
  end.

(* texts of every "$ref" value, in document order *)
Fixpoint raw_refs (j : json) : list bytes :=
  match j with
  | JObj ms =>
      flat_map (fun kv =>
        let k := fst kv in
        let sub := fun v : json => match v with JObj _ => raw_refs v | _ => [] end in
        match lookup k kw_table with
        | Some CSchema => sub (snd kv)
        | Some CSchemaObj => match snd kv with JObj ps => flat_map (fun p => sub (snd p)) ps | _ => [] end
        | Some CSchemaArr => match snd kv with JArr l => flat_map sub l | _ => [] end
        | _ => if is_kw k "$ref" then match snd kv with JStr s => [s] | _ => [] end else []
        end) ms
  | _ => []
  end.

Fixpoint list_bytes_eqb (a b : list bytes) : bool :=
  match a, b with
  | [], [] => true
  | x :: a', y :: b' => eqb_bytes x y && list_bytes_eqb a' b'
  | _, _ => false
  end.

(* the translated schemas carry exactly the patterns and references of the raw files *)
Definition file_faithful (r : bytes * json) (f : bytes * schema) : bool :=
  eqb_bytes (fst r) (fst f) &&
  list_bytes_eqb (raw_patterns (snd r)) (map p_src (patterns_of (snd f))) &&
  list_bytes_eqb (raw_refs (snd r)) (refs_of (snd f)).

Fixpoint translation_faithful (raw : list (bytes * json)) (files : list (bytes * schema)) : bool :=
  match raw, files with
  | [], [] => true
  | r :: raw', f :: files' => file_faithful r f && translation_faithful raw' files'
  | _, _ => false
  end.

(* ---- the supported regular-expression subset, checked on the pattern TEXT ----
   (independent of the translator's parser): ^ only first, $ only last, no '.', escapes only \d or
   backslash + ASCII punctuation, groups only ( and (?:, no lazy / possessive / stacked
   quantifiers, classes closed, no nested '[', ASCII except single code points outside ranges *)
Definition is_punct (c : Z) : bool :=
  (33 <=? c) && (c <=? 126) &&
  negb (((48 <=? c) && (c <=? 57)) || ((65 <=? c) && (c <=? 90)) || ((97 <=? c) && (c <=? 122))).

Definition is_quant (c : Z) : bool := (c =? 42) || (c =? 43) || (c =? 63) || (c =? 123).  (* * + ? { *)

(* scan s; first = at position 0; cls = inside [...]; q = previous token was a quantifier *)
Fixpoint re_scan (s : bytes) (first cls q : bool) : bool :=
  match s with
  | [] => negb cls
  | b :: r =>
    let c := bZ b in
    if c =? 92 (* \ *) then
      match r with
      | [] => false
      | d :: r' => ((bZ d =? 100) || is_punct (bZ d)) && re_scan r' false cls false
      end
    else if cls then
      if c =? 93 (* ] *) then re_scan r false false false
      else if c =? 91 (* [ *) then false
      else if (c <? 32) || (c =? 127) then false
      else re_scan r false true false
    else if c =? 94 (* ^ *) then first && re_scan r false false true
    else if c =? 36 (* $ *) then match r with [] => true | _ => false end
    else if c =? 46 (* . *) then false
    else if c =? 91 (* [ *) then
      match r with
      | x :: r' => if bZ x =? 94 then re_scan r' false true false else re_scan r false true false
      | [] => false
      end
    else if c =? 40 (* ( *) then
      match r with
      | x :: y :: r' => if bZ x =? 63 (* ? *) then (bZ y =? 58) && re_scan r' false false true
                        else re_scan r false false true
      | _ => re_scan r false false true
      end
    else if c =? 123 (* { *) then negb q && negb first &&
      (fix count (t : bytes) : bool :=
         match t with
         | x :: t' => if bZ x =? 125 then re_scan t' false false true else
                      if is_digit x || (bZ x =? 44) then count t' else false
         | [] => false
         end) r
    else if is_quant c then negb q && negb first && re_scan r false false true
    else if (c <? 32) || (c =? 127) || (c =? 93) || (c =? 125) then false
    else re_scan r false false ((c =? 124) (* | *))
  end.
