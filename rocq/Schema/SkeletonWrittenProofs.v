(* C11 - what the typed-marshalling model writes READS as a JSON value (Schema/Skeleton.v `to_json`) whenever what
   it was given does: every number text `reenc` writes is either one it was given (a float in the library's own
   spelling is written back as given) or the decimal text of an integer.
   The hypothesis on the input cannot be dropped: Typed.canonical_float accepts the text "--1" (it removes one
   minus and Typed.json_int_text removes another), which is outside the JSON grammar; no JSON parser produces it. *)
From Coq Require Import String.
From Coq Require Import List ZArith Strings.Byte Bool Lia Permutation.
From Verif Require Import Base.Wire Json.JsonProofs Num.Codec Schema.Schema Schema.Validate
  Marshal.Typed Marshal.Wf Marshal.TypedLeafProofs Marshal.TypedProofs Schema.Shape Schema.ShapeProofs
  Schema.Skeleton Schema.SkeletonProofs.
Import ListNotations.
Open Scope Z_scope.

Definition RD (v : tv) : Prop := readable v = true.

Lemma RD_to_json v : RD v <-> exists d, to_json v = Some d.
Proof.
  unfold RD, readable. destruct (to_json v) as [d|]; split; intros H; eauto; try discriminate.
  destruct H as (? & H). discriminate.
Qed.

Lemma all_some_total {A} (l : list (option A)) : (forall x, In x l -> x <> None) -> exists l', all_some l = Some l'.
Proof.
  induction l as [|[x|] r IH]; intros H; cbn [all_some].
  - eauto.
  - destruct IH as (r' & ->); [intros y Hy; apply H; right; exact Hy|]. eauto.
  - exfalso. apply (H None); [left|]; reflexivity.
Qed.

Lemma all_some_none {A} (l : list (option A)) l' x : all_some l = Some l' -> In x l -> x <> None.
Proof.
  revert l'. induction l as [|[y|] r IH]; intros l' H Hin; cbn [all_some] in H; try discriminate.
  - contradiction.
  - destruct (all_some r) as [r'|]; [|discriminate]. destruct Hin as [<-|Hin]; [discriminate | eauto].
Qed.

Lemma RD_arr l : RD (TArr l) <-> forall x, In x l -> RD x.
Proof.
  split.
  - intros H x Hx. apply RD_to_json in H. destruct H as (d & H). cbn [to_json] in H.
    destruct (all_some (map to_json l)) as [l'|] eqn:E; [|discriminate].
    pose proof (all_some_none _ _ (to_json x) E (in_map _ _ _ Hx)) as N.
    unfold RD, readable. destruct (to_json x); [reflexivity | congruence].
  - intros H. apply RD_to_json. cbn [to_json].
    destruct (all_some_total (map to_json l)) as (l' & ->); [|cbn; eauto].
    intros y Hy. apply in_map_iff in Hy. destruct Hy as (x & <- & Hx).
    specialize (H x Hx). apply RD_to_json in H. destruct H as (d & ->). discriminate.
Qed.

Lemma RD_obj m : RD (TObj m) <-> forall kv, In kv m -> RD (snd kv).
Proof.
  set (g := fun kv : bytes * tv => match to_json (snd kv) with Some j => Some (fst kv, j) | None => None end).
  split.
  - intros H kv Hx. apply RD_to_json in H. destruct H as (d & H). cbn [to_json] in H. fold g in H.
    destruct (all_some (map g m)) as [l'|] eqn:E; [|discriminate].
    pose proof (all_some_none _ _ (g kv) E (in_map _ _ _ Hx)) as N.
    unfold RD, readable. unfold g in N. destruct (to_json (snd kv)); [reflexivity | congruence].
  - intros H. apply RD_to_json. cbn [to_json]. fold g.
    destruct (all_some_total (map g m)) as (l' & ->); [|cbn; eauto].
    intros y Hy. apply in_map_iff in Hy. destruct Hy as (kv & <- & Hx).
    specialize (H kv Hx). apply RD_to_json in H. destruct H as (d & E). unfold g. rewrite E. discriminate.
Qed.

Lemma RD_int raw : json_int_text raw = true -> RD (TNum raw).
Proof.
  intros H. destruct (num_of_text_int raw H) as (m & E). unfold RD, readable. cbn [to_json]. rewrite E. reflexivity.
Qed.

Lemma reenc_leaf_RD l j j' : reenc_leaf l j = Ok j' -> RD j -> RD j'.
Proof.
  intros H Hj. destruct l; destruct j; cbn [reenc_leaf] in H; try discriminate H;
    try (unfold reenc_int in H; split_result H; inversion H; subst; apply RD_int, print_int_text);
    split_result H; inversion H; subst; auto; reflexivity.
Qed.

Lemma zero_leaf_RD l v : zero_leaf l = Ok v -> RD v.
Proof. destruct l; cbn; intros H; inversion H; reflexivity. Qed.

Lemma RD_emit fv : Forall (fun p => RD (snd p)) fv -> RD (TObj (emit fv)).
Proof.
  intros H. apply RD_obj. intros kv Hin. apply emit_In in Hin. destruct Hin as (p & Hp & ->).
  rewrite Forall_forall in H. apply (H p Hp).
Qed.

Lemma set_RD n s fv : Forall (fun p => RD (snd p)) fv -> Forall (fun p => RD (snd p)) (set_field n (TStr s) fv).
Proof.
  induction 1 as [|[f x] fv H HF IH]; [constructor|]. cbn [set_field].
  destruct (eqb_bytes (f_name f) n); constructor; auto. reflexivity.
Qed.

Section Readable.
  Variable E : env.

  Lemma zero_RD f : forall t z, zero_enc E f t = Ok z -> RD z.
  Proof.
    induction f as [|f IH]; intros t z H; [discriminate|]. rewrite zero_enc_eq in H.
    destruct t as [l| | | |h fs|n| |]; try (inversion H; reflexivity); try discriminate.
    - eapply zero_leaf_RD; eauto.
    - destruct h; try discriminate. apply rbind_ok in H. destruct H as (fv & Hfv & H). inversion H; subst.
      apply RD_emit. apply rmap_ok in Hfv. clear H. induction Hfv; constructor; auto.
      apply rbind_ok in H. destruct H as (v & Hv & Hy). inversion Hy; subst. cbn. eapply IH; eauto.
    - destruct (assoc n (e_types E)); [|discriminate]. eapply IH; eauto.
  Qed.

  Theorem reenc_RD f : forall t j j', reenc E f t j = Ok j' -> RD j -> RD j'.
  Proof.
    induction f as [|f IH]; intros t j j' H Hj; [discriminate|]. rewrite reenc_eq in H.
    destruct t as [l|t'|t'|t'|h fs|n| |].
    - eapply reenc_leaf_RD; eauto.
    - destruct j; try (eapply IH; eauto; fail). inversion H. reflexivity.
    - destruct j; try discriminate; [inversion H; reflexivity|].
      apply rbind_ok in H. destruct H as (l' & Hl & H). inversion H; subst. apply rmap_ok in Hl.
      rewrite RD_arr in Hj. apply RD_arr.
      intros y Hy. destruct (Forall2_In_r _ _ _ _ Hl Hy) as (x & Hxin & Hr). eapply IH; eauto.
    - destruct j; try discriminate; [inversion H; reflexivity|].
      apply rbind_ok in H. destruct H as (m' & Hm & H). inversion H; subst. apply rmap_ok in Hm.
      rewrite RD_obj in Hj. apply RD_obj. intros kv Hkv.
      apply (Permutation_in _ (sort_kv_perm m')) in Hkv.
      destruct (Forall2_In_r _ _ _ _ Hm Hkv) as (kv0 & Hin0 & Hr).
      apply rbind_ok in Hr. destruct Hr as (v & Hv & Hr). inversion Hr; subst. cbn [snd].
      eapply IH; eauto. apply Hj. now apply dedup_last_In.
    - destruct j; try discriminate.
      + destruct h; try discriminate. eapply zero_RD; eauto.
      + unfold struct_step in H. destruct (negb _); [discriminate|].
        apply rbind_ok in H. destruct H as (fv & Hfv & H).
        apply rbind_ok in H. destruct H as (fv' & Hh & H). inversion H; subst.
        apply RD_emit. eapply hook_pres; [exact Hh| |].
        { intros n s fv0 _. apply set_RD. }
        rewrite RD_obj in Hj. apply rmap_ok in Hfv. clear H Hh.
        induction Hfv as [|fd p fs0 fv0 Hp _ IHf]; constructor; auto.
        destruct (assoc (f_name fd) m) as [x|] eqn:A.
        * apply rbind_ok in Hp. destruct Hp as (v & Hv & Hp). inversion Hp; subst. cbn [snd].
          eapply IH; eauto. apply assoc_In in A. apply (Hj _ A).
        * apply rbind_ok in Hp. destruct Hp as (v & Hv & Hp). inversion Hp; subst. cbn [snd].
          eapply zero_RD; eauto.
    - destruct (assoc n (e_types E)); [|discriminate]. eauto.
    - discriminate.
    - destruct j; try discriminate. unfold object_step in H.
      destruct (negb _); [discriminate|].
      destruct (assoc schema_key m) as [[| | |s| |]|]; try discriminate.
      destruct s; [discriminate|].
      destruct (assoc (b :: s) (e_schemas E)) as [t'|]; [|discriminate].
      assert (G : (if negb (payload_ok E t') then Dom
                   else if has_null_element (depth (TObj m)) (TObj m) then Bad
                   else rbind (reenc E f t' (TObj m))
                     (fun v => match v with
                               | TObj [] => Dom
                               | TObj ms => Ok (TObj ((schema_key, TStr (b :: s)) :: ms))
                               | _ => Dom
                               end)) = Ok j' -> RD j').
      { destruct (negb (payload_ok E t')); [discriminate|].
        destruct (has_null_element _ _); [discriminate|]. intros G.
        apply rbind_ok in G. destruct G as (v & Hv & G).
        destruct v as [| | | | |[|kv ms]]; try discriminate. inversion G; subst.
        apply IH in Hv; auto. rewrite RD_obj in Hv. apply RD_obj.
        intros kv' [<-|Hin]; [reflexivity | auto]. }
      destruct t'; try (exact (G H)). discriminate.
  Qed.

  Theorem reenc_readable f t j v : readable j = true -> reenc E f t j = Ok v -> exists d, to_json v = Some d.
  Proof. intros Hj H. apply RD_to_json. eapply reenc_RD; eauto. Qed.
End Readable.
