(* The fuelled validator of Schema/Validate.v decides the relational specification:
     validate e n base s j = Some true   ->  conforms e base s j
     validate e n base s j = Some false  ->  violates e base s j
   and conversely every derivation is found with enough fuel, for every larger fuel. *)
From Coq Require Import List ZArith Strings.Byte Bool Lia PeanoNat.
From Verif Require Import Base.Wire Schema.Regex Schema.RegexProofs Schema.Schema Schema.Validate.
Import ListNotations.
Open Scope Z_scope.

(* ---- three-valued connectives ---- *)
Lemma all3_true l : all3 l = Some true <-> (forall x, In x l -> x = Some true).
Proof.
  induction l as [|x l IH]; simpl.
  - split; [intros _ x [] | auto].
  - split.
    + intros H y [<- | Hy].
      * destruct x as [[|]|]; auto; destruct (all3 l) as [[|]|]; discriminate.
      * apply IH; auto. destruct x as [[|]|]; destruct (all3 l) as [[|]|]; auto; discriminate.
    + intro H. rewrite (H x (or_introl eq_refl)).
      assert (E : all3 l = Some true) by (apply IH; intros; apply H; auto).
      now rewrite E.
Qed.

Lemma all3_false l : all3 l = Some false <-> In (Some false) l.
Proof.
  induction l as [|x l IH]; simpl.
  - split; [discriminate | intros []].
  - split.
    + intro H. destruct x as [[|]|]; auto; right; apply IH;
        destruct (all3 l) as [[|]|]; auto; discriminate.
    + intros [-> | H]; auto.
      apply IH in H. rewrite H. destruct x as [[|]|]; auto.
Qed.

Lemma any3_true l : any3 l = Some true <-> In (Some true) l.
Proof.
  induction l as [|x l IH]; simpl.
  - split; [discriminate | intros []].
  - split.
    + intro H. destruct x as [[|]|]; auto; right; apply IH;
        destruct (any3 l) as [[|]|]; auto; discriminate.
    + intros [-> | H]; auto.
      apply IH in H. rewrite H. destruct x as [[|]|]; auto.
Qed.

Lemma any3_false l : any3 l = Some false <-> (forall x, In x l -> x = Some false).
Proof.
  induction l as [|x l IH]; simpl.
  - split; [intros _ x [] | auto].
  - split.
    + intros H y [<- | Hy].
      * destruct x as [[|]|]; auto; destruct (any3 l) as [[|]|]; discriminate.
      * apply IH; auto. destruct x as [[|]|]; destruct (any3 l) as [[|]|]; auto; discriminate.
    + intro H. rewrite (H x (or_introl eq_refl)).
      assert (E : any3 l = Some false) by (apply IH; intros; apply H; auto).
      now rewrite E.
Qed.

Lemma count3_zero l :
  count3 l = (O, false) <-> (forall x, In x l -> x = Some false).
Proof.
  induction l as [|x l IH]; simpl.
  - split; [intros _ x [] | auto].
  - destruct (count3 l) as [t u]. split.
    + intros H y [<- | Hy].
      * destruct x as [[|]|]; auto; inversion H.
      * apply IH; auto. destruct x as [[|]|]; inversion H; auto.
    + intro H. rewrite (H x (or_introl eq_refl)).
      assert (E : (t, u) = (O, false)) by (apply IH; intros; apply H; auto).
      exact E.
Qed.

Lemma count3_one l :
  count3 l = (1%nat, false) <->
  exists l1 l2, l = l1 ++ Some true :: l2 /\ (forall x, In x (l1 ++ l2) -> x = Some false).
Proof.
  induction l as [|x l IH]; simpl.
  - split; [discriminate | intros ([|? ?] & l2 & E & _); discriminate].
  - destruct (count3 l) as [t u] eqn:Ec. split.
    + intro H. destruct x as [[|]|].
      * inversion H; subst. exists [], l. split; auto. simpl. now apply count3_zero.
      * inversion H; subst. destruct IH as [IH _]. destruct (IH eq_refl) as (l1 & l2 & -> & Hall).
        exists (Some false :: l1), l2. split; auto. intros y [<- | Hy]; auto.
      * inversion H.
    + intros (l1 & l2 & E & Hall). destruct l1 as [|y l1]; simpl in E; injection E as -> ->.
      * simpl in Hall. apply count3_zero in Hall. rewrite Ec in Hall. inversion Hall. reflexivity.
      * rewrite (Hall y (or_introl eq_refl)).
        destruct IH as [_ IH]. apply IH. exists l1, l2. split; auto. intros z Hz. apply Hall. now right.
Qed.

Lemma count3_ge1 l :
  (1 <= fst (count3 l))%nat <-> exists l1 l2, l = l1 ++ Some true :: l2.
Proof.
  induction l as [|x l IH]; simpl.
  - split; [lia | intros ([|? ?] & l2 & E); discriminate].
  - destruct (count3 l) as [t u]. simpl in IH. split.
    + intro H. destruct x as [[|]|]; simpl in H.
      * exists [], l. auto.
      * apply IH in H as (l1 & l2 & ->). exists (Some false :: l1), l2. auto.
      * apply IH in H as (l1 & l2 & ->). exists (None :: l1), l2. auto.
    + intros (l1 & l2 & E). destruct l1 as [|y l1]; simpl in E; injection E as -> ->.
      * simpl. lia.
      * assert (1 <= t)%nat by (apply IH; eauto). destruct y as [[|]|]; simpl; lia.
Qed.

Lemma count3_ge2 l :
  (2 <= fst (count3 l))%nat <-> exists l1 l2 l3, l = l1 ++ Some true :: l2 ++ Some true :: l3.
Proof.
  induction l as [|x l IH]; simpl.
  - split; [lia | intros ([|? ?] & l2 & l3 & E); discriminate].
  - pose proof (count3_ge1 l) as G1. destruct (count3 l) as [t u]. simpl in IH, G1. split.
    + intro H. destruct x as [[|]|]; simpl in H.
      * assert (1 <= t)%nat as Ht by lia. apply G1 in Ht as (l2 & l3 & ->). exists [], l2, l3. auto.
      * apply IH in H as (l1 & l2 & l3 & ->). exists (Some false :: l1), l2, l3. auto.
      * apply IH in H as (l1 & l2 & l3 & ->). exists (None :: l1), l2, l3. auto.
    + intros (l1 & l2 & l3 & E). destruct l1 as [|y l1]; simpl in E; injection E as -> ->.
      * assert (1 <= t)%nat by (apply G1; eauto). simpl. lia.
      * assert (2 <= t)%nat by (apply IH; eauto). destruct y as [[|]|]; simpl; lia.
Qed.

Lemma one3_true l :
  one3 l = Some true <->
  exists l1 l2, l = l1 ++ Some true :: l2 /\ (forall x, In x (l1 ++ l2) -> x = Some false).
Proof.
  rewrite <- count3_one. unfold one3. destruct (count3 l) as [t u].
  destruct t as [|[|t]]; simpl; destruct u; split; intro H; try discriminate; auto; inversion H.
Qed.

Lemma one3_false l :
  one3 l = Some false <->
  (forall x, In x l -> x = Some false) \/
  exists l1 l2 l3, l = l1 ++ Some true :: l2 ++ Some true :: l3.
Proof.
  rewrite <- count3_zero, <- count3_ge2. unfold one3. destruct (count3 l) as [t u].
  destruct t as [|[|t]]; simpl; destruct u; split; intro H; try discriminate; auto;
    try (destruct H as [H | H]; [inversion H | lia]); try (right; lia).
Qed.

(* ---- maps ---- *)
Lemma in_map_eq {A B} (f : A -> B) l y : In y (map f l) <-> exists x, In x l /\ f x = y.
Proof. rewrite in_map_iff. split; intros (x & H1 & H2); eauto. Qed.

Lemma map_split {A B} (f : A -> B) l l1 b l2 :
  map f l = l1 ++ b :: l2 ->
  exists k1 a k2, l = k1 ++ a :: k2 /\ map f k1 = l1 /\ f a = b /\ map f k2 = l2.
Proof.
  revert l1. induction l as [|x l IH]; intros [|y l1] E; simpl in E; try discriminate.
  - injection E as E1 E2. exists [], x, l. auto.
  - injection E as E1 E2. destruct (IH _ E2) as (k1 & a & k2 & -> & H1 & H2 & H3).
    exists (x :: k1), a, k2. simpl. rewrite H1, E1. auto.
Qed.

Lemma has_key_lookup {A} k (l : list (bytes * A)) : has_key k l = true <-> exists v, lookup k l = Some v.
Proof. unfold has_key. destruct (lookup k l); split; eauto; try discriminate. intros [? ?]. discriminate. Qed.

(* a uniform fuel bound over a finite list *)
Lemma bound_list {A} (P : nat -> A -> Prop) (l : list A) :
  (forall x, In x l -> exists n, forall m, (n <= m)%nat -> P m x) ->
  exists n, forall m, (n <= m)%nat -> forall x, In x l -> P m x.
Proof.
  induction l as [|a l IH]; intro H.
  - exists O. intros _ _ x [].
  - destruct (H a (or_introl eq_refl)) as [n1 H1].
    destruct IH as [n2 H2]; [intros; apply H; now right|].
    exists (Nat.max n1 n2). intros m Hm x [<- | Hx].
    + apply H1. lia.
    + apply H2; auto. lia.
Qed.

Lemma existsb_false {A} (f : A -> bool) l : existsb f l = false <-> (forall x, In x l -> f x = false).
Proof.
  induction l as [|a l IH]; simpl.
  - split; [intros _ x [] | auto].
  - rewrite orb_false_iff, IH. split.
    + intros [H1 H2] x [<- | Hx]; auto.
    + intro H. split; [apply H; auto | intros; apply H; auto].
Qed.

Lemma forallb_false {A} (f : A -> bool) l : forallb f l = false <-> (exists x, In x l /\ f x = false).
Proof.
  induction l as [|a l IH]; simpl.
  - split; [discriminate | intros (x & [] & _)].
  - rewrite andb_false_iff, IH. split.
    + intros [H | (x & Hx & H)]; eauto.
    + intros (x & [<- | Hx] & H); eauto.
Qed.

Lemma pattern_matches_false p s : pattern_matches p s = false <-> ~ pattern_lang p s.
Proof.
  rewrite <- pattern_matches_correct. destruct (pattern_matches p s); split; intro H; auto; try discriminate.
  exfalso. now apply H.
Qed.

(* ---- soundness ---- *)
Section Sound.
  Variable e : env.
  Variable rec : bytes -> schema -> json -> option bool.
  Hypothesis Hrec : forall base s j,
      (rec base s j = Some true -> conforms e base s j) /\
      (rec base s j = Some false -> violates e base s j).

  Let rec_t base s j (H : rec base s j = Some true) := proj1 (Hrec base s j) H.
  Let rec_f base s j (H : rec base s j = Some false) := proj2 (Hrec base s j) H.

  Lemma eval_kw_sound base ctx k j :
    (eval_kw e rec base ctx k j = Some true -> conforms_kw e base ctx k j) /\
    (eval_kw e rec base ctx k j = Some false -> violates_kw e base ctx k j).
  Proof.
    destruct k; simpl.
    - (* type *)
      split; intro H; injection H as H.
      + apply existsb_exists in H as (t & Ht & H). eapply C_type; eauto.
      + apply X_type. now apply existsb_false.
    - (* $ref *)
      destruct (lookup_ref e (resolve base r)) as [s|] eqn:El; [|split; discriminate].
      split; intro H.
      + eapply C_ref; eauto.
      + eapply X_ref; eauto.
    - (* properties *)
      destruct j; try (split; [intros _; apply C_properties; intros; discriminate | discriminate]).
      split; intro H.
      + apply C_properties. intros o k v s E Hin Hl. injection E as <-.
        rewrite all3_true in H. apply rec_t.
        specialize (H _ (in_map _ _ _ Hin)). simpl in H. now rewrite Hl in H.
      + apply all3_false in H. apply in_map_eq in H as ([k v] & Hin & H). simpl in H.
        destruct (lookup k ps) as [s|] eqn:Hl; [|discriminate].
        eapply X_properties; eauto.
    - (* patternProperties *)
      destruct j; try (split; [intros _; apply C_patternProperties; intros; discriminate | discriminate]).
      split; intro H.
      + apply C_patternProperties. intros o k v p s E Hin Hp Hm. injection E as <-.
        rewrite all3_true in H. specialize (H _ (in_map _ _ _ Hin)). simpl in H.
        rewrite all3_true in H. specialize (H _ (in_map _ _ _ Hp)). simpl in H.
        apply pattern_matches_correct in Hm. rewrite Hm in H. now apply rec_t.
      + apply all3_false in H. apply in_map_eq in H as ([k v] & Hin & H). simpl in H.
        apply all3_false in H. apply in_map_eq in H as ([p s] & Hp & H). simpl in H.
        destruct (pattern_matches p k) eqn:Hm; [|discriminate].
        eapply X_patternProperties; eauto. now apply pattern_matches_correct.
    - (* additionalProperties *)
      destruct j; try (split; [intros _; apply C_additionalProperties; intros; discriminate | discriminate]).
      split; intro H.
      + apply C_additionalProperties. intros o k v E Hin Hc. injection E as <-.
        rewrite all3_true in H. specialize (H _ (in_map _ _ _ Hin)). simpl in H.
        rewrite Hc in H. now apply rec_t.
      + apply all3_false in H. apply in_map_eq in H as ([k v] & Hin & H). simpl in H.
        destruct (covered ctx k) eqn:Hc; [discriminate|].
        eapply X_additionalProperties; eauto.
    - (* required *)
      destruct j; try (split; [intros _; apply C_required; intros; discriminate | discriminate]).
      split; intro H; injection H as H.
      + apply C_required. intros o n E Hn. injection E as <-.
        rewrite forallb_forall in H. auto.
      + apply forallb_false in H as (n & Hn & H). eapply X_required; eauto.
    - (* items *)
      destruct j; try (split; [intros _; apply C_items; intros; discriminate | discriminate]).
      split; intro H.
      + apply C_items. intros l' x E Hx. injection E as <-.
        rewrite all3_true in H. apply rec_t. apply H. now apply in_map.
      + apply all3_false in H. apply in_map_eq in H as (x & Hx & H).
        eapply X_items; eauto.
    - (* oneOf *)
      split; intro H.
      + apply one3_true in H as (l1 & l2 & E & Hall).
        apply map_split in E as (k1 & a & k2 & -> & E1 & Ea & E2).
        apply C_oneOf; auto. intros s' Hs'. apply rec_f. apply Hall.
        rewrite <- E1, <- E2, <- map_app. now apply (in_map (fun s => rec base s j)).
      + apply one3_false in H as [H | (l1 & l2 & l3 & E)].
        * apply X_oneOf_none. intros s Hs. apply rec_f. apply H. now apply (in_map (fun s => rec base s j)).
        * apply map_split in E as (k1 & a & k2 & -> & E1 & Ea & E2).
          apply map_split in E2 as (k3 & b & k4 & -> & E3 & Eb & E4).
          apply X_oneOf_two; auto.
    - (* anyOf *)
      split; intro H.
      + apply any3_true in H. apply in_map_eq in H as (s & Hs & H). eapply C_anyOf; eauto.
      + apply X_anyOf. intros s Hs. apply rec_f. rewrite any3_false in H. apply H.
        now apply (in_map (fun s => rec base s j)).
    - (* allOf *)
      split; intro H.
      + apply C_allOf. intros s Hs. apply rec_t. rewrite all3_true in H. apply H.
        now apply (in_map (fun s => rec base s j)).
      + apply all3_false in H. apply in_map_eq in H as (s & Hs & H). eapply X_allOf; eauto.
    - (* const *)
      split; intro H; injection H as H; [now apply C_const | now apply X_const].
    - (* enum *)
      split; intro H; injection H as H.
      + apply existsb_exists in H as (c' & Hc & H). eapply C_enum; eauto.
      + apply X_enum. now apply existsb_false.
    - (* pattern *)
      destruct j; try (split; [intros _; apply C_pattern; intros; discriminate | discriminate]).
      split; intro H; injection H as H.
      + apply C_pattern. intros s' E. injection E as <-. now apply pattern_matches_correct.
      + apply X_pattern. now apply pattern_matches_false.
    - (* format *)
      destruct j; try (split; [intros _; apply C_format; intros; discriminate | discriminate]).
      split; intro H; injection H as H.
      + apply C_format. intros s' E. now injection E as <-.
      + now apply X_format.
    - (* minLength *)
      destruct j; try (split; [intros _; apply C_minLength; intros; discriminate | discriminate]).
      split; intro H; injection H as H.
      + apply C_minLength. intros s' E. injection E as <-. now apply Z.leb_le.
      + apply X_minLength. now apply Z.leb_gt.
    - (* maxLength *)
      destruct j; try (split; [intros _; apply C_maxLength; intros; discriminate | discriminate]).
      split; intro H; injection H as H.
      + apply C_maxLength. intros s' E. injection E as <-. now apply Z.leb_le.
      + apply X_maxLength. now apply Z.leb_gt.
    - split; [intros _; apply C_id | discriminate].
    - split; [intros _; apply C_defs | discriminate].
    - split; [intros _; apply C_annot | discriminate].
    - split; discriminate.
  Qed.
End Sound.

Theorem validate_sound e n : forall base s j,
  (validate e n base s j = Some true -> conforms e base s j) /\
  (validate e n base s j = Some false -> violates e base s j).
Proof.
  induction n as [|n IH]; intros base s j; simpl.
  - split; discriminate.
  - destruct s as [b | ks].
    + split; intro H; injection H as ->; constructor.
    + split; intro H.
      * apply C_kws. intros k Hk. rewrite all3_true in H.
        apply (eval_kw_sound e (validate e n) IH base ks k j).
        apply H. now apply (in_map (fun k => eval_kw e (validate e n) base ks k j)).
      * apply all3_false in H. apply in_map_eq in H as (k & Hk & H).
        eapply X_kws; eauto. now apply (eval_kw_sound e (validate e n) IH base ks k j).
Qed.

(* ---- completeness ---- *)
Definition decided (e : env) (b : bool) base s j : Prop :=
  exists n, forall m, (n <= m)%nat -> validate e m base s j = Some b.
Definition decided_kw (e : env) (b : bool) base ctx k j : Prop :=
  exists n, forall m, (n <= m)%nat -> eval_kw e (validate e m) base ctx k j = Some b.

Lemma decided_const e b base ctx k j :
  (forall rec, eval_kw e rec base ctx k j = Some b) -> decided_kw e b base ctx k j.
Proof. intro H. exists O. intros m _. apply H. Qed.

Lemma validate_complete_all e :
  (forall base s j, conforms e base s j -> decided e true base s j) /\
  (forall base s j, violates e base s j -> decided e false base s j) /\
  (forall base ctx k j, conforms_kw e base ctx k j -> decided_kw e true base ctx k j) /\
  (forall base ctx k j, violates_kw e base ctx k j -> decided_kw e false base ctx k j).
Proof.
  apply verdict_mutind.
  - (* C_true *) intros base j. exists 1%nat. intros [|m] Hm; [lia | reflexivity].
  - (* C_kws *) intros base ks j _ IH.
    destruct (bound_list (fun m k => eval_kw e (validate e m) base ks k j = Some true) ks IH) as [n Hn].
    exists (S n). intros [|m] Hm; [lia|]. simpl. apply all3_true. intros x Hx.
    apply in_map_eq in Hx as (k & Hk & <-). apply Hn; auto. lia.
  - (* X_false *) intros base j. exists 1%nat. intros [|m] Hm; [lia | reflexivity].
  - (* X_kws *) intros base ks k j Hk _ [n Hn].
    exists (S n). intros [|m] Hm; [lia|]. simpl. apply all3_false.
    apply in_map_eq. exists k. split; auto. apply Hn. lia.
  - (* C_type *) intros base ctx ts j t Ht H. apply decided_const. intro rec. simpl. f_equal.
    apply existsb_exists. eauto.
  - (* C_ref *) intros base ctx r j s Hl _ [n Hn]. exists n. intros m Hm. simpl. rewrite Hl. auto.
  - (* C_properties *) intros base ctx ps j _ IH.
    destruct j; try (apply decided_const; reflexivity).
    destruct (bound_list (fun m (kv : bytes * json) =>
                match lookup (fst kv) ps with
                | Some s => validate e m base s (snd kv) = Some true
                | None => True end) l) as [n Hn].
    { intros [k v] Hin. simpl. destruct (lookup k ps) as [s|] eqn:El; [|exists O; auto].
      exact (IH l k v s eq_refl Hin El). }
    exists n. intros m Hm. simpl. apply all3_true. intros x Hx.
    apply in_map_eq in Hx as ([k v] & Hin & <-). simpl.
    specialize (Hn m Hm _ Hin). simpl in Hn. destruct (lookup k ps); auto.
  - (* C_patternProperties *) intros base ctx pps j _ IH.
    destruct j; try (apply decided_const; reflexivity).
    destruct (bound_list (fun m (kv : bytes * json) =>
                forall ps, In ps pps -> pattern_matches (fst ps) (fst kv) = true ->
                           validate e m base (snd ps) (snd kv) = Some true) l) as [n Hn].
    { intros [k v] Hin. simpl.
      destruct (bound_list (fun m (ps : pattern * schema) =>
                  pattern_matches (fst ps) k = true -> validate e m base (snd ps) v = Some true) pps) as [n Hn].
      { intros [p s] Hp. simpl. destruct (pattern_matches p k) eqn:Em; [|exists O; discriminate].
        apply pattern_matches_correct in Em.
        destruct (IH l k v p s eq_refl Hin Hp Em) as [n Hn]. exists n. auto. }
      exists n. intros m Hm ps Hps. now apply Hn. }
    exists n. intros m Hm. simpl. apply all3_true. intros x Hx.
    apply in_map_eq in Hx as ([k v] & Hin & <-). simpl.
    apply all3_true. intros y Hy. apply in_map_eq in Hy as ([p s] & Hp & <-). simpl.
    destruct (pattern_matches p k) eqn:Em; auto.
    exact (Hn m Hm _ Hin (p, s) Hp Em).
  - (* C_additionalProperties *) intros base ctx s j _ IH.
    destruct j; try (apply decided_const; reflexivity).
    destruct (bound_list (fun m (kv : bytes * json) =>
                covered ctx (fst kv) = false -> validate e m base s (snd kv) = Some true) l) as [n Hn].
    { intros [k v] Hin. simpl. destruct (covered ctx k) eqn:Ec; [exists O; discriminate|].
      destruct (IH l k v eq_refl Hin Ec) as [n Hn]. exists n. auto. }
    exists n. intros m Hm. simpl. apply all3_true. intros x Hx.
    apply in_map_eq in Hx as ([k v] & Hin & <-). simpl.
    destruct (covered ctx k) eqn:Ec; auto. exact (Hn m Hm _ Hin Ec).
  - (* C_required *) intros base ctx names j H.
    destruct j; try (apply decided_const; reflexivity).
    apply decided_const. intro rec. simpl. f_equal. apply forallb_forall. intros n Hn. eapply H; eauto.
  - (* C_items *) intros base ctx s j _ IH.
    destruct j; try (apply decided_const; reflexivity).
    destruct (bound_list (fun m x => validate e m base s x = Some true) l) as [n Hn].
    { intros x Hx. exact (IH l x eq_refl Hx). }
    exists n. intros m Hm. simpl. apply all3_true. intros y Hy.
    apply in_map_eq in Hy as (x & Hx & <-). now apply Hn.
  - (* C_oneOf *) intros base ctx l1 s l2 j _ [n1 H1] _ IH.
    destruct (bound_list (fun m s' => validate e m base s' j = Some false) (l1 ++ l2) IH) as [n2 H2].
    exists (Nat.max n1 n2). intros m Hm. simpl. apply one3_true.
    exists (map (fun s => validate e m base s j) l1), (map (fun s => validate e m base s j) l2).
    split.
    + rewrite map_app. simpl. rewrite H1 by lia. reflexivity.
    + intros x Hx. rewrite <- map_app in Hx. apply in_map_eq in Hx as (s' & Hs' & <-).
      apply H2; auto. lia.
  - (* C_anyOf *) intros base ctx l s j Hs _ [n Hn]. exists n. intros m Hm. simpl.
    apply any3_true. apply in_map_eq. exists s. split; auto.
  - (* C_allOf *) intros base ctx l j _ IH.
    destruct (bound_list (fun m s => validate e m base s j = Some true) l IH) as [n Hn].
    exists n. intros m Hm. simpl. apply all3_true. intros y Hy.
    apply in_map_eq in Hy as (x & Hx & <-). now apply Hn.
  - (* C_const *) intros base ctx c j H. apply decided_const. intro rec. simpl. now rewrite H.
  - (* C_enum *) intros base ctx l c j Hc H. apply decided_const. intro rec. simpl. f_equal.
    apply existsb_exists. eauto.
  - (* C_pattern *) intros base ctx p j H.
    destruct j; try (apply decided_const; reflexivity).
    apply decided_const. intro rec. simpl. f_equal. apply pattern_matches_correct. now apply H.
  - (* C_format *) intros base ctx f j H.
    destruct j; try (apply decided_const; reflexivity).
    apply decided_const. intro rec. simpl. f_equal. now apply H.
  - (* C_minLength *) intros base ctx n j H.
    destruct j; try (apply decided_const; reflexivity).
    apply decided_const. intro rec. simpl. f_equal. apply Z.leb_le. now apply H.
  - (* C_maxLength *) intros base ctx n j H.
    destruct j; try (apply decided_const; reflexivity).
    apply decided_const. intro rec. simpl. f_equal. apply Z.leb_le. now apply H.
  - intros. apply decided_const. reflexivity.
  - intros. apply decided_const. reflexivity.
  - intros. apply decided_const. reflexivity.
  - (* X_type *) intros base ctx ts j H. apply decided_const. intro rec. simpl. f_equal.
    now apply existsb_false.
  - (* X_ref *) intros base ctx r j s Hl _ [n Hn]. exists n. intros m Hm. simpl. rewrite Hl. auto.
  - (* X_properties *) intros base ctx ps o k v s Hin Hl _ [n Hn]. exists n. intros m Hm. simpl.
    apply all3_false. apply in_map_eq. exists (k, v). split; auto. simpl. rewrite Hl. auto.
  - (* X_patternProperties *) intros base ctx pps o k v p s Hin Hp Hm _ [n Hn].
    exists n. intros m Hle. simpl.
    apply all3_false. apply in_map_eq. exists (k, v). split; auto. simpl.
    apply all3_false. apply in_map_eq. exists (p, s). split; auto. simpl.
    apply pattern_matches_correct in Hm. rewrite Hm. auto.
  - (* X_additionalProperties *) intros base ctx s o k v Hin Hc _ [n Hn]. exists n. intros m Hm. simpl.
    apply all3_false. apply in_map_eq. exists (k, v). split; auto. simpl. rewrite Hc. auto.
  - (* X_required *) intros base ctx names o n Hn H. apply decided_const. intro rec. simpl. f_equal.
    apply forallb_false. eauto.
  - (* X_items *) intros base ctx s l x Hx _ [n Hn]. exists n. intros m Hm. simpl.
    apply all3_false. apply in_map_eq. exists x. split; auto.
  - (* X_oneOf_none *) intros base ctx l j _ IH.
    destruct (bound_list (fun m s => validate e m base s j = Some false) l IH) as [n Hn].
    exists n. intros m Hm. simpl. apply one3_false. left. intros y Hy.
    apply in_map_eq in Hy as (x & Hx & <-). now apply Hn.
  - (* X_oneOf_two *) intros base ctx l1 s1 l2 s2 l3 j _ [n1 H1] _ [n2 H2].
    exists (Nat.max n1 n2). intros m Hm. simpl. apply one3_false. right.
    exists (map (fun s => validate e m base s j) l1), (map (fun s => validate e m base s j) l2),
           (map (fun s => validate e m base s j) l3).
    rewrite map_app. simpl. rewrite map_app. simpl. rewrite H1, H2 by lia. reflexivity.
  - (* X_anyOf *) intros base ctx l j _ IH.
    destruct (bound_list (fun m s => validate e m base s j = Some false) l IH) as [n Hn].
    exists n. intros m Hm. simpl. apply any3_false. intros y Hy.
    apply in_map_eq in Hy as (x & Hx & <-). now apply Hn.
  - (* X_allOf *) intros base ctx l s j Hs _ [n Hn]. exists n. intros m Hm. simpl.
    apply all3_false. apply in_map_eq. exists s. split; auto.
  - (* X_const *) intros base ctx c j H. apply decided_const. intro rec. simpl. now rewrite H.
  - (* X_enum *) intros base ctx l j H. apply decided_const. intro rec. simpl. f_equal.
    now apply existsb_false.
  - (* X_pattern *) intros base ctx p s H. apply decided_const. intro rec. simpl. f_equal.
    now apply pattern_matches_false.
  - (* X_format *) intros base ctx f s H. apply decided_const. intro rec. simpl. now rewrite H.
  - (* X_minLength *) intros base ctx n s H. apply decided_const. intro rec. simpl. f_equal.
    now apply Z.leb_gt.
  - (* X_maxLength *) intros base ctx n s H. apply decided_const. intro rec. simpl. f_equal.
    now apply Z.leb_gt.
Qed.

Theorem validate_complete e base s j :
  (conforms e base s j -> exists n, forall m, (n <= m)%nat -> validate e m base s j = Some true) /\
  (violates e base s j -> exists n, forall m, (n <= m)%nat -> validate e m base s j = Some false).
Proof.
  destruct (validate_complete_all e) as (H1 & H2 & _). split; intro H; [now apply H1 | now apply H2].
Qed.

(* (b) the validator decides the specification, with enough fuel *)
Theorem validate_sound_complete e base s j :
  ((exists n, validate e n base s j = Some true) <-> conforms e base s j) /\
  ((exists n, validate e n base s j = Some false) <-> violates e base s j).
Proof.
  split; split.
  - intros [n H]. now apply (validate_sound e n base s j).
  - intro H. apply validate_complete in H as [n Hn]. exists n. now apply Hn.
  - intros [n H]. now apply (validate_sound e n base s j).
  - intro H. apply validate_complete in H as [n Hn]. exists n. now apply Hn.
Qed.

(* determined verdicts agree whatever the fuel, and the two relations exclude each other *)
Theorem validate_verdict_unique e n m base s j b b' :
  validate e n base s j = Some b -> validate e m base s j = Some b' -> b = b'.
Proof.
  intros H H'.
  assert (D : decided e b base s j).
  { destruct b; [apply (proj1 (validate_complete e base s j)) | apply (proj2 (validate_complete e base s j))];
      now apply (validate_sound e n base s j). }
  assert (D' : decided e b' base s j).
  { destruct b'; [apply (proj1 (validate_complete e base s j)) | apply (proj2 (validate_complete e base s j))];
      now apply (validate_sound e m base s j). }
  destruct D as [k Hk]. destruct D' as [k' Hk'].
  pose proof (Hk (Nat.max k k') (Nat.le_max_l _ _)) as E1.
  pose proof (Hk' (Nat.max k k') (Nat.le_max_r _ _)) as E2.
  congruence.
Qed.

Theorem conforms_violates_exclusive e base s j : conforms e base s j -> violates e base s j -> False.
Proof.
  intros Hc Hv.
  apply validate_complete in Hc as [k Hk]. apply validate_complete in Hv as [k' Hk'].
  pose proof (Hk (Nat.max k k') (Nat.le_max_l _ _)) as E1.
  pose proof (Hk' (Nat.max k k') (Nat.le_max_r _ _)) as E2.
  congruence.
Qed.

(* the entry point used by the runner *)
Theorem validate_id_sound e n id j :
  validate_id e n id j = Some true -> conforms_id e id j.
Proof.
  unfold validate_id, conforms_id. destruct (lookup_ref e (id, [])) as [s|]; [|discriminate].
  intro H. exists s. split; auto. now apply (validate_sound e n id s j).
Qed.
