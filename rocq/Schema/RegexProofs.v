(* Correctness of the derivative matcher of Schema/Regex.v with respect to the denotation [lang]
   (the standard Brzozowski argument, with the ACI-style smart constructors), and the meaning of
   the derived forms the pattern parser emits. *)
From Coq Require Import List ZArith NArith Strings.Byte Bool Lia.
From Verif Require Import Base.Wire Schema.Regex.
Import ListNotations.
Open Scope N_scope.

Lemma ranges_eqb_eq a : forall b, ranges_eqb a b = true -> a = b.
Proof.
  induction a as [|[l1 h1] a IH]; intros [|[l2 h2] b] H; simpl in H; try discriminate; auto.
  apply andb_true_iff in H as [H H3]. apply andb_true_iff in H as [H1 H2].
  apply N.eqb_eq in H1. apply N.eqb_eq in H2. subst. f_equal. auto.
Qed.

Lemma regex_eqb_eq a : forall b, regex_eqb a b = true -> a = b.
Proof.
  induction a; intros [] H; simpl in H; try discriminate; auto.
  - apply andb_true_iff in H as [H1 H2]. apply Bool.eqb_prop in H1. apply ranges_eqb_eq in H2. now subst.
  - apply andb_true_iff in H as [H1 H2]. f_equal; auto.
  - apply andb_true_iff in H as [H1 H2]. f_equal; auto.
  - f_equal; auto.
Qed.

Lemma lang_none s : ~ lang RNone s.
Proof. intro H; inversion H. Qed.

Lemma lang_eps s : lang REps s <-> s = [].
Proof. split; [intro H; now inversion H | intros ->; constructor]. Qed.

Lemma lang_cat a b s : lang (RCat a b) s <-> exists s1 s2, s = s1 ++ s2 /\ lang a s1 /\ lang b s2.
Proof.
  split.
  - intro H; inversion H; subst; eauto.
  - intros (s1 & s2 & -> & H1 & H2). now constructor.
Qed.

Lemma lang_alt a b s : lang (RAlt a b) s <-> lang a s \/ lang b s.
Proof.
  split.
  - intro H; inversion H; subst; auto.
  - intros [H | H]; [now apply L_alt_l | now apply L_alt_r].
Qed.

Lemma nullable_spec r : nullable r = true <-> lang r [].
Proof.
  induction r; simpl.
  - split; [discriminate | intro H; inversion H].
  - split; [constructor | auto].
  - split; [discriminate | intro H; inversion H].
  - rewrite andb_true_iff, IHr1, IHr2. split.
    + intros [H1 H2]. change (@nil byte) with (@nil byte ++ []). now constructor.
    + intro H. apply lang_cat in H as (s1 & s2 & E & H1 & H2). symmetry in E.
      apply app_eq_nil in E as [-> ->]. auto.
  - rewrite orb_true_iff, IHr1, IHr2. split.
    + intros [H | H]; [now apply L_alt_l | now apply L_alt_r].
    + intro H. inversion H; subst; auto.
  - split; [constructor | auto].
Qed.

Lemma mkcat_spec a b s : lang (mkcat a b) s <-> lang (RCat a b) s.
Proof.
  rewrite lang_cat. unfold mkcat.
  assert (G : lang (match b with RNone => RNone | REps => a | _ => RCat a b end) s <->
              exists s1 s2, s = s1 ++ s2 /\ lang a s1 /\ lang b s2).
  { destruct b; try (rewrite lang_cat; reflexivity).
    - split; [intro H; now apply lang_none in H | intros (? & ? & _ & _ & H); now apply lang_none in H].
    - split.
      + intro H. exists s, []. rewrite app_nil_r. repeat split; auto. constructor.
      + intros (s1 & s2 & -> & H1 & H2). apply lang_eps in H2. subst. now rewrite app_nil_r. }
  destruct a; try exact G.
  - split; [intro H; now apply lang_none in H | intros (? & ? & _ & H & _); now apply lang_none in H].
  - split.
    + intro H. exists [], s. repeat split; auto. constructor.
    + intros (s1 & s2 & -> & H1 & H2). apply lang_eps in H1. now subst.
Qed.

Lemma alt_mem_sound a b : alt_mem a b = true -> forall s, lang a s -> lang b s.
Proof.
  induction b; simpl; intros H s Ha; try (apply regex_eqb_eq in H; now subst).
  apply orb_true_iff in H as [H | H].
  - apply regex_eqb_eq in H. subst. now apply L_alt_l.
  - apply L_alt_r. auto.
Qed.

Lemma alt1_spec a b s : lang (alt1 a b) s <-> lang a s \/ lang b s.
Proof.
  unfold alt1.
  assert (G : lang (match b with RNone => a | _ => if alt_mem a b then b else RAlt a b end) s <->
              lang a s \/ lang b s).
  { destruct b; try (destruct (alt_mem a _) eqn:E;
      [ split; [auto | intros [H | H]; [eapply alt_mem_sound; eauto | auto]] | apply lang_alt ]).
    split; [auto | intros [H | H]; [auto | now apply lang_none in H]]. }
  destruct a; try exact G.
  split; [auto | intros [H | H]; [now apply lang_none in H | auto]].
Qed.

Lemma mkalt_spec a : forall b s, lang (mkalt a b) s <-> lang a s \/ lang b s.
Proof.
  induction a; intros b s; try apply alt1_spec.
  simpl. rewrite IHa1, IHa2, lang_alt. tauto.
Qed.

Lemma star_cons a c s :
  lang (RStar a) (c :: s) -> exists s1 s2, s = s1 ++ s2 /\ lang a (c :: s1) /\ lang (RStar a) s2.
Proof.
  intro H. remember (RStar a) as r eqn:Er. remember (c :: s) as w eqn:Ew.
  induction H; try discriminate.
  injection Er as ->.
  destruct s0 as [|c' s0].
  - simpl in Ew. apply IHlang2; auto.
  - simpl in Ew. injection Ew as E1 E2. subst. eauto.
Qed.

Lemma deriv_spec c r : forall s, lang (deriv c r) s <-> lang r (c :: s).
Proof.
  induction r; intro s; simpl.
  - split; intro H; inversion H.
  - split; intro H; inversion H.
  - destruct (set_mem neg rs c) eqn:E.
    + rewrite lang_eps. split; [intros ->; now constructor | intro H; now inversion H].
    + split; [intro H; inversion H | intro H; inversion H; subst; congruence].
  - rewrite mkalt_spec, mkcat_spec, lang_cat. split.
    + intros [(s1 & s2 & -> & H1 & H2) | H].
      * apply IHr1 in H1. change (c :: s1 ++ s2) with ((c :: s1) ++ s2). now constructor.
      * destruct (nullable r1) eqn:N; [| now apply lang_none in H].
        apply nullable_spec in N. apply IHr2 in H. change (c :: s) with ([] ++ c :: s). now constructor.
    + intro H. apply lang_cat in H as (s1 & s2 & E & H1 & H2).
      destruct s1 as [|c' s1]; simpl in E.
      * right. apply nullable_spec in H1. rewrite H1. apply IHr2. now subst.
      * injection E as <- ->. left. exists s1, s2. repeat split; auto. now apply IHr1.
  - rewrite mkalt_spec, IHr1, IHr2, lang_alt. tauto.
  - rewrite mkcat_spec, lang_cat. split.
    + intros (s1 & s2 & -> & H1 & H2). apply IHr in H1.
      change (c :: s1 ++ s2) with ((c :: s1) ++ s2). now constructor.
    + intro H. apply star_cons in H as (s1 & s2 & -> & H1 & H2).
      exists s1, s2. repeat split; auto. now apply IHr.
Qed.

Lemma derivs_spec s : forall r t, lang (derivs s r) t <-> lang r (s ++ t).
Proof.
  induction s as [|c s IH]; intros r t; simpl; [tauto|].
  rewrite IH. apply deriv_spec.
Qed.

(* (a) the derivative matcher decides membership in the denoted language *)
Theorem regex_match_correct r s : matches r s = true <-> lang r s.
Proof.
  unfold matches. rewrite nullable_spec, derivs_spec, app_nil_r. tauto.
Qed.

(* ---- derived forms ---- *)
Lemma lang_star_any s : lang (RStar rany) s.
Proof.
  induction s as [|c s IH]; [constructor|].
  change (c :: s) with ([c] ++ s). constructor; auto. constructor. reflexivity.
Qed.

Lemma lang_set neg rs s : lang (RSet neg rs) s <-> exists c, s = [c] /\ set_mem neg rs c = true.
Proof.
  split.
  - intro H. inversion H; subst. eauto.
  - intros (c & -> & H). now constructor.
Qed.

Lemma lang_rbyte c s : lang (rbyte c) s <-> exists b, s = [b] /\ bN b = c.
Proof.
  unfold rbyte. split.
  - intro H. apply lang_set in H as (c0 & -> & H2). exists c0. split; auto.
    unfold set_mem in H2. simpl in H2. rewrite orb_false_r in H2.
    destruct (c <=? bN c0) eqn:H1; [| discriminate]. destruct (bN c0 <=? c) eqn:H3; [| discriminate].
    apply N.leb_le in H1, H3. lia.
  - intros (b & -> & <-). constructor. unfold set_mem. simpl. rewrite N.leb_refl. reflexivity.
Qed.

Lemma bN_inj a b : bN a = bN b -> a = b.
Proof.
  unfold bN. intro H. apply (f_equal Byte.of_N) in H. rewrite !Byte.of_to_N in H. now injection H.
Qed.

Lemma lang_rlit t : forall s, lang (rlit t) s <-> s = t.
Proof.
  induction t as [|c t IH]; intro s; simpl.
  - apply lang_eps.
  - rewrite lang_cat. split.
    + intros (s1 & s2 & -> & H1 & H2). apply lang_rbyte in H1 as (b & -> & E).
      apply bN_inj in E. apply IH in H2. now subst.
    + intros ->. exists [c], t. repeat split; auto.
      * apply lang_rbyte. eauto.
      * now apply IH.
Qed.

Lemma lang_ropt r s : lang (ropt r) s <-> s = [] \/ lang r s.
Proof. unfold ropt. rewrite lang_alt, lang_eps. tauto. Qed.

(* r^k as a language *)
Lemma lang_star_pow r s : lang (RStar r) s <-> exists k, lang (rpow r k) s.
Proof.
  split.
  - intro H. remember (RStar r) as q eqn:E. induction H; try discriminate.
    + exists O. constructor.
    + injection E as ->. destruct (IHlang2 eq_refl) as [k Hk]. exists (S k). simpl. now constructor.
  - intros [k Hk]. revert s Hk. induction k; simpl; intros s Hk.
    + apply lang_eps in Hk. subst. constructor.
    + apply lang_cat in Hk as (s1 & s2 & -> & H1 & H2). constructor; auto.
Qed.

Lemma lang_rplus r s : lang (rplus r) s <-> exists k, lang (rpow r (S k)) s.
Proof.
  unfold rplus. simpl. rewrite lang_cat. split.
  - intros (s1 & s2 & -> & H1 & H2). apply lang_star_pow in H2 as [k Hk]. exists k. now constructor.
  - intros (k & H). apply lang_cat in H as (s1 & s2 & -> & H1 & H2).
    exists s1, s2. repeat split; auto. apply lang_star_pow. eauto.
Qed.

Lemma rpow_add r m : forall k s, lang (rpow r (m + k)) s <-> lang (RCat (rpow r m) (rpow r k)) s.
Proof.
  induction m; intros k s; simpl.
  - rewrite lang_cat. split.
    + intro H. exists [], s. repeat split; auto. constructor.
    + intros (s1 & s2 & -> & H1 & H2). apply lang_eps in H1. now subst.
  - rewrite !lang_cat. split.
    + intros (s1 & s2 & -> & H1 & H2). apply IHm in H2. apply lang_cat in H2 as (s3 & s4 & -> & H3 & H4).
      exists (s1 ++ s3), s4. rewrite app_assoc. repeat split; auto. now constructor.
    + intros (s1 & s2 & -> & H1 & H2). apply lang_cat in H1 as (s3 & s4 & -> & H3 & H4).
      exists s3, (s4 ++ s2). rewrite app_assoc. repeat split; auto. apply IHm. now constructor.
Qed.

Lemma lang_ropts r n : forall s, lang (ropts r n) s <-> exists k, (k <= n)%nat /\ lang (rpow r k) s.
Proof.
  induction n; intro s; simpl.
  - rewrite lang_eps. split.
    + intros ->. exists O. split; auto. constructor.
    + intros (k & Hk & H). assert (k = O) by lia. subst. now apply lang_eps in H.
  - rewrite lang_ropt, lang_cat. split.
    + intros [-> | (s1 & s2 & -> & H1 & H2)].
      * exists O. split; [lia | constructor].
      * apply IHn in H2 as (k & Hk & H2). exists (S k). split; [lia|]. simpl. now constructor.
    + intros ([|k] & Hk & H); simpl in H.
      * left. now apply lang_eps in H.
      * right. apply lang_cat in H as (s1 & s2 & -> & H1 & H2).
        exists s1, s2. repeat split; auto. apply IHn. exists k. split; [lia | auto].
Qed.

(* r{m,n}: between m and n copies (n = None: at least m) *)
Lemma lang_rrep r m n s :
  match n with Some k => (m <= k)%nat | None => True end ->
  (lang (rrep r m n) s <->
   exists k, (m <= k)%nat /\ match n with Some q => (k <= q)%nat | None => True end /\ lang (rpow r k) s).
Proof.
  intro Hmn. unfold rrep. destruct n as [q|].
  - rewrite lang_cat. split.
    + intros (s1 & s2 & -> & H1 & H2). apply lang_ropts in H2 as (k & Hk & H2).
      exists (m + k)%nat. repeat split; try lia. apply rpow_add. now constructor.
    + intros (k & H1 & H2 & H). replace k with (m + (k - m))%nat in H by lia.
      apply rpow_add in H. apply lang_cat in H as (s1 & s2 & -> & H3 & H4).
      exists s1, s2. repeat split; auto. apply lang_ropts. exists (k - m)%nat. split; [lia | auto].
  - rewrite lang_cat. split.
    + intros (s1 & s2 & -> & H1 & H2). apply lang_star_pow in H2 as (k & H2).
      exists (m + k)%nat. repeat split; try lia. apply rpow_add. now constructor.
    + intros (k & H1 & _ & H). replace k with (m + (k - m))%nat in H by lia.
      apply rpow_add in H. apply lang_cat in H as (s1 & s2 & -> & H3 & H4).
      exists s1, s2. repeat split; auto. apply lang_star_pow. eauto.
Qed.

(* the keyword-level matcher is a search with the anchors the pattern text has *)
Theorem pattern_matches_correct p s : pattern_matches p s = true <-> pattern_lang p s.
Proof.
  unfold pattern_matches, pattern_lang, mk_search. rewrite regex_match_correct.
  destruct (p_start p), (p_end p).
  - split.
    + intro H. exists [], s, []. rewrite app_nil_r. repeat split; auto.
    + intros (pre & mid & post & -> & H & Hs & He). rewrite (Hs eq_refl), (He eq_refl), app_nil_r. auto.
  - rewrite lang_cat. split.
    + intros (s1 & s2 & -> & H1 & H2). exists [], s1, s2. repeat split; auto. discriminate.
    + intros (pre & mid & post & -> & H & Hs & He). rewrite (Hs eq_refl). simpl.
      exists mid, post. repeat split; auto. apply lang_star_any.
  - rewrite lang_cat. split.
    + intros (s1 & s2 & -> & H1 & H2). exists s1, s2, []. rewrite app_nil_r. repeat split; auto. discriminate.
    + intros (pre & mid & post & -> & H & Hs & He). rewrite (He eq_refl), app_nil_r.
      exists pre, mid. repeat split; auto. apply lang_star_any.
  - rewrite lang_cat. split.
    + intros (s12 & s3 & -> & H12 & H3). apply lang_cat in H12 as (s1 & s2 & -> & H1 & H2).
      exists s1, s2, s3. rewrite app_assoc. repeat split; auto; discriminate.
    + intros (pre & mid & post & -> & H & Hs & He).
      exists (pre ++ mid), post. rewrite app_assoc. repeat split; [| apply lang_star_any].
      constructor; auto. apply lang_star_any.
Qed.
