(* C11 - proofs about Schema/Shape.v:
   shape_ok_sound        the boolean shape check implies the relation `shaped`;
   reenc_writes          every tree `reenc` produces at a well-formed type is a tree the type `writes`;
   shape_conforms_sound  the checker's meaning: if it answers true for (t, s), every tree t writes (without
                         null array elements; without null members when strict = false) is shaped by s;
   reenc_shaped          the two combined. *)
From Coq Require Import String.
From Coq Require Import List ZArith Strings.Byte Bool Lia Permutation.
From Verif Require Import Base.Wire Json.JsonProofs Schema.Regex Schema.Schema Schema.Validate Schema.ShippedProofs
  Marshal.Typed Marshal.Wf Marshal.TypedLeafProofs Marshal.TypedProofs Schema.Shape.
Import ListNotations.
Open Scope Z_scope.

(* ------------------------------------------------------------------------------------------ *)
(* the boolean shape check                                                                     *)
(* ------------------------------------------------------------------------------------------ *)
Lemma not_structural_ignored k :
  match k with
  | KType _ | KRef _ | KProperties _ | KPatternProperties _ | KAdditionalProperties _ | KItems _
  | KAllOf _ | KMalformed _ => True
  | _ => ignored k = true
  end.
Proof. destruct k; cbn; auto. Qed.

Lemma shape_ok_sound e f : forall base s v, shape_ok e f base s v = true -> shaped e base s v.
Proof.
  induction f as [|f IH]; intros base s v H; [discriminate|]. cbn [shape_ok] in H.
  destruct s as [b|ks]; [subst; constructor|].
  apply andb_true_iff in H. destruct H as [H1 H2]. apply Sh_kws.
  - intros m k x -> Hin. rewrite forallb_forall in H1. apply (H1 (k, x) Hin).
  - intros kw Hkw. rewrite forallb_forall in H2. specialize (H2 kw Hkw).
    destruct kw; cbn [ok_kw] in H2; try discriminate; try (apply ShK_ignored; reflexivity).
    + constructor; auto.
    + destruct (lookup_ref e (resolve base r)) eqn:L; [|discriminate]. econstructor; eauto.
    + constructor. intros m k x s0 -> Hin L. rewrite forallb_forall in H2.
      specialize (H2 (k, x) Hin). cbn [fst snd] in H2. rewrite L in H2. auto.
    + constructor. intros m k x p s0 -> Hin Hp Hm. rewrite forallb_forall in H2.
      specialize (H2 (k, x) Hin). cbn [fst snd] in H2. rewrite forallb_forall in H2.
      specialize (H2 (p, s0) Hp). cbn [fst snd] in H2. rewrite Hm in H2. auto.
    + constructor. intros m k x -> Hin Hc. rewrite forallb_forall in H2.
      specialize (H2 (k, x) Hin). cbn [fst snd] in H2. rewrite Hc in H2. auto.
    + constructor. intros l x -> Hin. rewrite forallb_forall in H2. auto.
    + constructor. intros s0 Hin. rewrite forallb_forall in H2. auto.
Qed.

Lemma shape_ok_id_sound e f id v : shape_ok_id e f id v = true -> shaped_id e id v.
Proof.
  unfold shape_ok_id, shaped_id. destruct (lookup_ref e (id, [])) as [s|]; [|discriminate].
  intros H. exists s. split; auto. eapply shape_ok_sound; eauto.
Qed.

(* ------------------------------------------------------------------------------------------ *)
(* what reenc produces is what the type writes                                                 *)
(* ------------------------------------------------------------------------------------------ *)
Lemma reenc_leaf_writes l j v : reenc_leaf l j = Ok v -> leaf_writes l v = true.
Proof.
  intros H. destruct l; destruct j; cbn [reenc_leaf] in H; try discriminate H;
    try (unfold reenc_int in H; split_result H; inversion H; subst;
         cbn [leaf_writes]; apply print_int_text);
    split_result H; inversion H; subst; reflexivity.
Qed.

Lemma zero_leaf_writes l v : zero_leaf l = Ok v -> leaf_writes l v = true.
Proof. destruct l; cbn; intros H; inversion H; reflexivity. Qed.

Lemma emit_In_emitted fv k x : In (k, x) (emit fv) ->
  exists fd, In (fd, x) fv /\ k = f_name fd /\ emitted (fd, x) = true.
Proof.
  unfold emit. rewrite in_map_iff. intros ([fd y] & E & Hin). apply filter_In in Hin.
  cbn [fst snd] in E. inversion E; subst. exists fd. unfold emitted. tauto.
Qed.

Lemma emitted_nonnull fd x : emitted (fd, x) = true -> f_omit fd && nilable (f_ty fd) = true ->
  x <> Typed.TNull.
Proof.
  unfold emitted. cbn [fst snd]. intros H N ->. apply andb_true_iff in N. destruct N as [O N].
  rewrite O in H. cbn [andb] in H. destruct (f_ty fd) as [[]| | | | | | |]; cbn in N, H; discriminate.
Qed.

(* the invariant of the field list of a struct step *)
Definition field_ok (types : list (bytes * ty)) (fs : list field) (p : field * tv) : Prop :=
  In (fst p) fs /\ writes types (f_ty (fst p)) (snd p).

Lemma set_field_ok types h fs n s fv : struct_wfb h fs = true -> In n (hook_targets h) ->
  Forall (field_ok types fs) fv -> Forall (field_ok types fs) (set_field n (TStr s) fv).
Proof.
  intros W Hn. destruct (struct_wfb_spec _ _ W) as (_ & _ & T).
  induction 1 as [|[f x] fv [Hf Hx] HF IH]; [constructor|]. cbn [set_field].
  destruct (eqb_bytes (f_name f) n) eqn:E; constructor; auto; [|split; auto].
  split; auto. cbn [fst snd] in *. apply eqb_bytes_eq in E. rewrite (T n f Hn Hf E).
  apply W_leaf. reflexivity.
Qed.

Section Written.
  Variable E : env.
  Hypothesis WF : env_wfb E = true.
  Let types := e_types E.

  Lemma hook_pres (Q : field * tv -> Prop) h m fv fv' : apply_hook E h m fv = Ok fv' ->
    (forall n s fv0, In n (hook_targets h) -> Forall Q fv0 -> Forall Q (set_field n (TStr s) fv0)) ->
    Forall Q fv -> Forall Q fv'.
  Proof.
    assert (MS : forall l t m fv fv', move_string l t m fv = Ok fv' ->
                 (forall s fv0, Forall Q fv0 -> Forall Q (set_field t (TStr s) fv0)) ->
                 Forall Q fv -> Forall Q fv').
    { intros l t m0 fv0 fv0' H S. unfold move_string in H.
      destruct (assoc l m0) as [[| | |s| |]|]; try discriminate; try (inversion H; subst; auto; fail).
      destruct s; inversion H; subst; auto. }
    intros H S. destruct h; cbn [apply_hook] in H.
    - inversion H; subst; auto.
    - destruct (get_field (bs "$regime") fv) as [[| | |s| |]|]; try (inversion H; subst; auto; fail).
      destruct s; [|inversion H; subst; auto].
      destruct (e_regime E (supplier_country fv)); inversion H; subst; auto.
      intros. apply S; cbn; auto.
    - destruct (assoc (bs "tags") m) as [[| | | |l|]|]; try discriminate; try (inversion H; subst; auto; fail).
      destruct l; [inversion H; subst; auto | discriminate].
    - intros Hq. eapply MS; [exact H| |exact Hq]. intros. apply S; cbn; auto.
    - apply rbind_ok in H. destruct H as (fv1 & H1 & H2). intros Hq.
      eapply MS; [exact H2| |]. { intros. apply S; cbn; auto. }
      eapply MS; [exact H1| |exact Hq]. intros. apply S; cbn; auto.
    - destruct (assoc (bs "tags") m) as [[| | | |l|]|]; try discriminate; try (inversion H; subst; auto; fail).
      destruct l as [|[| | |k| |] r]; try discriminate; try (inversion H; subst; auto; fail).
      destruct (negb (all_strings r)); [discriminate|].
      destruct (get_field (bs "rate") fv) as [[| | |s| |]|]; try (inversion H; subst; auto; fail).
      destruct s; inversion H; subst; auto. intros. apply S; cbn; auto.
  Qed.

  Lemma struct_writes h fs fv : Forall (field_ok types fs) fv -> writes types (TyStruct h fs) (TObj (emit fv)).
  Proof.
    intros HF. apply W_struct. intros k x Hin.
    apply emit_In_emitted in Hin. destruct Hin as (fd & Hin & -> & Em).
    rewrite Forall_forall in HF. destruct (HF _ Hin) as [Hfd Hw]. cbn [fst snd] in *.
    exists fd. repeat split; auto. now apply emitted_nonnull.
  Qed.

  Lemma zero_writes f : forall t v, ty_wfb t = true -> zero_enc E f t = Ok v -> writes types t v.
  Proof.
    induction f as [|f IH]; intros t v Wt H; [discriminate|]. rewrite zero_enc_eq in H.
    destruct t as [l|t'|t'|t'|h fs|n| |]; try discriminate; try (inversion H; constructor; fail).
    - apply W_leaf. now apply zero_leaf_writes.
    - destruct h; try discriminate. apply rbind_ok in H. destruct H as (fv & Hfv & H). inversion H; subst.
      apply struct_writes. destruct (ty_wfb_struct _ _ Wt) as [_ Wf].
      apply rmap_ok in Hfv. clear H. apply Forall_forall. intros p Hp.
      destruct (Forall2_In_r _ _ _ _ Hfv Hp) as (fd & Hfd & Hr).
      apply rbind_ok in Hr. destruct Hr as (v & Hv & Hr). inversion Hr; subst.
      split; cbn [fst snd]; auto; eapply IH; eauto.
    - destruct (assoc n (e_types E)) as [t'|] eqn:A; [|discriminate].
      econstructor; [exact A|]. eapply IH; eauto. eapply env_wfb_types; eauto.
  Qed.

  Lemma reenc_writes f : forall t j v, ty_wfb t = true -> reenc E f t j = Ok v -> writes types t v.
  Proof.
    induction f as [|f IH]; intros t j v Wt H; [discriminate|]. rewrite reenc_eq in H.
    destruct t as [l|t'|t'|t'|h fs|n| |].
    - apply W_leaf. eapply reenc_leaf_writes; eauto.
    - cbn [ty_wfb] in Wt. destruct j; try (apply W_ptr; eapply IH; eauto; fail). inversion H. constructor.
    - cbn [ty_wfb] in Wt. destruct j; try discriminate; [inversion H; constructor|].
      apply rbind_ok in H. destruct H as (l' & Hl & H). inversion H; subst. apply rmap_ok in Hl.
      apply W_slice. intros y Hy. destruct (Forall2_In_r _ _ _ _ Hl Hy) as (x & _ & Hr). eapply IH; eauto.
    - cbn [ty_wfb] in Wt. destruct j; try discriminate; [inversion H; constructor|].
      apply rbind_ok in H. destruct H as (m' & Hm & H). inversion H; subst. apply rmap_ok in Hm.
      apply W_map. intros k x Hkv.
      apply (Permutation_in _ (sort_kv_perm m')) in Hkv.
      destruct (Forall2_In_r _ _ _ _ Hm Hkv) as (kv0 & _ & Hr).
      apply rbind_ok in Hr. destruct Hr as (v & Hv & Hr). inversion Hr; subst. eapply IH; eauto.
    - destruct j; try discriminate.
      + destruct h; try discriminate. eapply zero_writes; eauto.
      + unfold struct_step in H. destruct (negb _); [discriminate|].
        apply rbind_ok in H. destruct H as (fv & Hfv & H).
        apply rbind_ok in H. destruct H as (fv' & Hh & H). inversion H; subst.
        apply struct_writes. destruct (ty_wfb_struct _ _ Wt) as [Ws Wf].
        eapply hook_pres; [exact Hh| |].
        * intros n s fv0 Hn. eapply set_field_ok; eauto.
        * apply rmap_ok in Hfv. apply Forall_forall. intros p Hp.
          destruct (Forall2_In_r _ _ _ _ Hfv Hp) as (fd & Hfd & Hr).
          destruct (assoc (f_name fd) m) as [x|].
          -- apply rbind_ok in Hr. destruct Hr as (v & Hv & Hr). inversion Hr; subst.
             split; cbn [fst snd]; auto; eapply IH; eauto.
          -- apply rbind_ok in Hr. destruct Hr as (v & Hv & Hr). inversion Hr; subst.
             split; cbn [fst snd]; auto; eapply zero_writes; eauto.
    - destruct (assoc n (e_types E)) as [t'|] eqn:A; [|discriminate].
      econstructor; [exact A|]. eapply IH; eauto. eapply env_wfb_types; eauto.
    - discriminate.
    - destruct j; try discriminate. unfold object_step in H.
      destruct (negb _); [discriminate|].
      destruct (assoc schema_key m) as [[| | |s| |]|]; try discriminate.
      destruct s; [discriminate|].
      destruct (assoc (b :: s) (e_schemas E)) as [t'|]; [|discriminate].
      assert (G : (if negb (payload_ok E t') then Dom
                   else if has_null_element (depth (TObj m)) (TObj m) then Bad
                   else rbind (reenc E f t' (TObj m))
                     (fun v => match v with
                               | TObj [] => Dom
                               | TObj ms => Ok (TObj ((schema_key, TStr (b :: s)) :: ms))
                               | _ => Dom
                               end)) = Ok v -> writes types TyObject v).
      { destruct (negb (payload_ok E t')); [discriminate|].
        destruct (has_null_element _ _); [discriminate|]. intros G.
        apply rbind_ok in G. destruct G as (v0 & Hv & G).
        destruct v0 as [| | | | |[|kv ms]]; try discriminate. inversion G; subst. constructor. }
      destruct t'; try (exact (G H)). discriminate.
  Qed.
End Written.

(* ------------------------------------------------------------------------------------------ *)
(* the checker                                                                                 *)
(* ------------------------------------------------------------------------------------------ *)
Lemma allows_spec ts t : allows ts t = true -> In t ts.
Proof.
  unfold allows. rewrite existsb_exists. intros (x & Hin & E).
  destruct t, x; try discriminate; exact Hin.
Qed.

Lemma has_type_in v ts t : In t ts -> tv_has_type v t = true -> existsb (tv_has_type v) ts = true.
Proof. intros Hin H. apply existsb_exists. eauto. Qed.

Section Sound.
  Variable strict : bool.
  Variable types : list (bytes * ty).
  Variable e : Schema.env.

  (* the type is one the checker treats keyword by keyword *)
  Definition plain (t : ty) : Prop := match t with TyRef _ | TyPtr _ | TyAny => False | _ => True end.

  Lemma writes_null_nilable t : plain t -> writes types t Typed.TNull -> nilable t = true.
  Proof.
    intros P W. destruct t; cbn in P; try contradiction; try reflexivity; inversion W; subst.
    destruct l; try discriminate; reflexivity.
  Qed.

  Lemma type_allows_has_type t ts v : plain t -> writes types t v -> v <> Typed.TNull ->
    type_allows t ts = true -> existsb (tv_has_type v) ts = true.
  Proof.
    intros P W N A. destruct t; cbn in P; try contradiction; cbn [type_allows] in A; inversion W; subst;
      try congruence.
    - (* leaf *)
      destruct l; destruct v; try discriminate; try congruence; cbn [leaf_allows] in A;
        try (apply allows_spec in A; eapply has_type_in; [exact A | reflexivity]).
      + apply orb_true_iff in A. destruct A as [A|A]; apply allows_spec in A;
          (eapply has_type_in; [exact A|]); cbn; auto.
    - apply allows_spec in A; eapply has_type_in; [exact A | reflexivity].
    - apply allows_spec in A; eapply has_type_in; [exact A | reflexivity].
    - apply allows_spec in A; eapply has_type_in; [exact A | reflexivity].
    - apply allows_spec in A; eapply has_type_in; [exact A | reflexivity].
  Qed.

  (* the members of a written object *)
  Lemma members_of t m k x : plain t -> writes types t (TObj m) -> In (k, x) m ->
    (exists t', t = TyMap t' /\ writes types t' x) \/
    (exists h fs fd, t = TyStruct h fs /\ In fd fs /\ f_name fd = k /\ writes types (f_ty fd) x /\
                     (f_omit fd && nilable (f_ty fd) = true -> x <> Typed.TNull)) \/
    t = TyObject.
  Proof.
    intros P W Hin. destruct t; cbn in P; try contradiction; inversion W; subst.
    - destruct l; discriminate.
    - left. eauto.
    - right. left.
      match goal with HS : forall k x, In (k, x) m -> exists _, _ |- _ =>
        destruct (HS k x Hin) as (fd & A & B & C & D) end.
      exists h, fs, fd. auto.
    - right. right. reflexivity.
  Qed.

  Lemma member_clean m k x : null_clean strict (TObj m) = true -> In (k, x) m ->
    (strict = true \/ x <> Typed.TNull) /\ null_clean strict x = true.
  Proof.
    cbn [null_clean]. rewrite forallb_forall. intros H Hin. specialize (H (k, x) Hin). cbn [snd] in H.
    apply andb_true_iff in H. destruct H as [H1 H2]. split; auto.
    destruct strict; auto. right. intros ->. discriminate.
  Qed.

  Lemma element_clean l x : null_clean strict (TArr l) = true -> In x l ->
    x <> Typed.TNull /\ null_clean strict x = true.
  Proof.
    cbn [null_clean]. rewrite forallb_forall. intros H Hin. specialize (H x Hin).
    apply andb_true_iff in H. destruct H as [H1 H2]. split; auto. intros ->. discriminate.
  Qed.

  Lemma field_nl_ok fd x : (strict = true \/ x <> Typed.TNull) ->
    (f_omit fd && nilable (f_ty fd) = true -> x <> Typed.TNull) ->
    field_nl strict fd = true \/ x <> Typed.TNull.
  Proof.
    intros [S|N] H; auto. unfold field_nl. rewrite S.
    destruct (f_omit fd && nilable (f_ty fd)); auto.
  Qed.

  Lemma in_props_spec ks k : in_props ks k = true -> declared ks k = true.
  Proof. unfold declared. intros ->. apply orb_true_r. Qed.

  Theorem shape_conforms_sound F : forall nl t base s v,
    shape_conforms strict types e F nl t base s = true ->
    writes types t v -> (nl = true \/ v <> Typed.TNull) -> null_clean strict v = true ->
    shaped e base s v.
  Proof.
    induction F as [|F IH]; intros nl t base s v H W N C; [discriminate|].
    assert (NULL : forall b, (negb b || shape_ok e F base s Typed.TNull) = true -> b = true ->
                             shaped e base s Typed.TNull).
    { intros b Hb ->. cbn in Hb. eapply shape_ok_sound; eauto. }
    destruct (is_tnull v) eqn:Ev.
    { (* the tree is null *)
      destruct v; try discriminate. destruct N as [->|N]; [|congruence].
      clear C Ev. revert H. cbn [shape_conforms].
      destruct t as [l|t'|t'|t'|h fs|n| |].
      - intros H. apply andb_true_iff in H. destruct H as [H _]. apply (NULL _ H).
        cbn [andb]. apply writes_null_nilable; cbn; auto.
      - intros H. apply andb_true_iff in H. destruct H as [H _]. apply (NULL _ H). reflexivity.
      - intros H. apply andb_true_iff in H. destruct H as [H _]. apply (NULL _ H). reflexivity.
      - intros H. apply andb_true_iff in H. destruct H as [H _]. apply (NULL _ H). reflexivity.
      - inversion W.
      - inversion W; subst.
      match goal with A : assoc n types = Some _ |- _ => rewrite A end. intros H. eapply IH; eauto.
      - intros H. apply (NULL _ H). reflexivity.
      - inversion W. }
    assert (Nv : v <> Typed.TNull) by (intros ->; discriminate).
    clear N Ev.
    assert (PLAIN : plain t ->
              (match s with
               | SBool b => b
               | SKw ks => decl_ok t ks && forallb (conf_kw strict e (shape_conforms strict types e F) t base ks) ks
               end) = true -> shaped e base s v).
    { intros P H0. destruct s as [b|ks]; [subst; constructor|].
      apply andb_true_iff in H0. destruct H0 as [D K]. apply Sh_kws.
      - (* every member is declared *)
        intros m k x -> Hin. destruct (members_of _ _ _ _ P W Hin) as [(t' & -> & _)|[(h & fs & fd & -> & Hfd & Hk & _)| ->]];
          cbn [decl_ok] in D.
        + unfold declared. rewrite D. reflexivity.
        + apply orb_true_iff in D. destruct D as [D|D]; [unfold declared; rewrite D; reflexivity|].
          rewrite forallb_forall in D. apply in_props_spec. rewrite <- Hk. auto.
        + unfold declared. rewrite D. reflexivity.
      - intros kw Hkw. rewrite forallb_forall in K. specialize (K kw Hkw).
        pose proof (not_structural_ignored kw) as IG.
        destruct kw; try (apply ShK_ignored; exact IG); cbn [conf_kw] in K; try discriminate.
        + (* type *) constructor. eapply type_allows_has_type; eauto.
        + (* $ref *)
          destruct (lookup_ref e (resolve base r)) eqn:L; [|discriminate]. econstructor; eauto.
        + (* properties *)
          constructor. intros m k x s0 -> Hin L.
          destruct (member_clean _ _ _ C Hin) as [Nx Cx].
          destruct (members_of _ _ _ _ P W Hin) as [(t' & -> & Wx)|[(h & fs & fd & -> & Hfd & Hk & Wx & Ox)| ->]].
          * rewrite forallb_forall in K. apply lookup_in in L. specialize (K _ L). cbn [snd] in K.
            eapply IH; eauto.
          * rewrite forallb_forall in K. specialize (K fd Hfd). rewrite Hk, L in K.
            eapply IH; eauto. now apply field_nl_ok.
          * destruct ps; [discriminate L | discriminate K].
        + (* patternProperties *)
          constructor. intros m k x p s0 -> Hin Hp Hm.
          destruct (member_clean _ _ _ C Hin) as [Nx Cx].
          destruct (members_of _ _ _ _ P W Hin) as [(t' & -> & Wx)|[(h & fs & fd & -> & Hfd & Hk & Wx & Ox)| ->]].
          * rewrite forallb_forall in K. specialize (K _ Hp). cbn [snd] in K. eapply IH; eauto.
          * rewrite forallb_forall in K. specialize (K fd Hfd). rewrite forallb_forall in K.
            specialize (K _ Hp). cbn [fst snd] in K. rewrite Hk, Hm in K.
            eapply IH; eauto. now apply field_nl_ok.
          * destruct ps; [contradiction Hp | discriminate K].
        + (* additionalProperties *)
          constructor. intros m k x -> Hin Hc.
          destruct (member_clean _ _ _ C Hin) as [Nx Cx].
          destruct (members_of _ _ _ _ P W Hin) as [(t' & -> & Wx)|[(h & fs & fd & -> & Hfd & Hk & Wx & Ox)| ->]].
          * eapply IH; eauto.
          * rewrite forallb_forall in K. specialize (K fd Hfd). rewrite Hk, Hc in K.
            eapply IH; eauto. now apply field_nl_ok.
          * discriminate K.
        + (* items *)
          constructor. intros l x -> Hin. destruct (element_clean _ _ C Hin) as [Nx Cx].
          destruct t; cbn in P; try contradiction; inversion W; subst.
          * destruct l0; discriminate.
          * eapply IH; eauto.
        + (* allOf *)
          constructor. intros s0 Hin. rewrite forallb_forall in K. eapply IH; eauto. }
    revert H. cbn [shape_conforms].
    destruct t as [l|t'|t'|t'|h fs|n| |].
    - intros H. apply andb_true_iff in H. destruct H as [_ H]. apply PLAIN; cbn; auto.
    - intros H. apply andb_true_iff in H. destruct H as [_ H]. inversion W; subst; [congruence|].
      eapply IH; eauto.
    - intros H. apply andb_true_iff in H. destruct H as [_ H]. apply PLAIN; cbn; auto.
    - intros H. apply andb_true_iff in H. destruct H as [_ H]. apply PLAIN; cbn; auto.
    - intros H. apply andb_true_iff in H. destruct H as [_ H]. apply PLAIN; cbn; auto.
    - inversion W; subst.
      match goal with A : assoc n types = Some _ |- _ => rewrite A end. intros H. eapply IH; eauto.
    - inversion W; subst. congruence.
    - intros H. apply andb_true_iff in H. destruct H as [_ H]. apply PLAIN; cbn; auto.
  Qed.
End Sound.

(* ------------------------------------------------------------------------------------------ *)
(* combined: what the library writes for a registered type is shaped by the type's schema     *)
(* ------------------------------------------------------------------------------------------ *)
Theorem reenc_shaped strict E e F id t f j v :
  env_wfb E = true -> ty_wfb t = true ->
  shape_conforms_id strict (e_types E) e F id t = true ->
  reenc E f t j = Ok v -> v <> Typed.TNull -> null_clean strict v = true ->
  shaped_id e id v.
Proof.
  intros WF Wt H R N C. unfold shape_conforms_id in H. unfold shaped_id.
  destruct (lookup_ref e (id, [])) as [s|]; [|discriminate]. exists s. split; auto.
  eapply shape_conforms_sound; eauto. eapply reenc_writes; eauto.
Qed.
