(* C11 - the link of Schema/SkeletonProofs.v instantiated with the regenerated tables: what the typed-marshalling
   model writes at a registered Go type is ACCEPTED by the validator, for the published schema of that type with
   the value-level keywords erased (Schema/Skeleton.v `skeleton`). *)
From Coq Require Import String.
From Coq Require Import List ZArith Strings.Byte Bool.
From Verif Require Import Base.Wire Schema.Regex Schema.Schema Schema.Validate Schema.ValidateProofs
  Marshal.Typed Marshal.Env Schema.Shape Schema.ShapeProofs Schema.ShapeShipped Schema.ShapeShippedProofs
  Schema.Skeleton Schema.SkeletonProofs Schema.SkeletonWrittenProofs Gen.GoTypes Gen.Schemas.
Import ListNotations.

(* the skeletonised environment is what publishing the skeletonised files would give *)
Lemma shipped_skeleton_env :
  skeleton_env shipped_env = env_of_files (map (fun f => (fst f, skeleton (snd f))) shipped_schemas).
Proof. symmetry. apply env_of_files_skeleton. Qed.

(* it has no value-level keyword left, the published one has *)
Lemma shipped_skeleton_structural :
  forallb (fun t => structural (snd t)) (skeleton_env shipped_env) = true /\
  forallb (fun t => structural (snd t)) shipped_env = false.
Proof. split; vm_compute; reflexivity. Qed.

Lemma written_documents_conform_to_skeleton_partial id j v d :
  ~ In id shape_unchecked ->
  reenc_schema id j = Ok v -> v <> Typed.TNull -> null_clean false v = true -> to_json v = Some d ->
  conforms_id (skeleton_env shipped_env) id d.
Proof.
  intros N R Nv C J. eapply shaped_id_conforms_skeleton; [|exact J].
  eapply written_documents_shaped_partial; eauto.
Qed.

Lemma written_documents_validated_by_skeleton_partial id j v d :
  ~ In id shape_unchecked ->
  reenc_schema id j = Ok v -> v <> Typed.TNull -> null_clean false v = true -> to_json v = Some d ->
  exists n, forall m, (n <= m)%nat -> validate_id (skeleton_env shipped_env) m id d = Some true.
Proof.
  intros N R Nv C J. eapply shaped_id_validates_skeleton; [|exact J].
  eapply written_documents_shaped_partial; eauto.
Qed.

Lemma written_documents_validated_by_skeleton_strict_partial id j v d :
  ~ In id (shape_unchecked ++ shape_null_members) ->
  reenc_schema id j = Ok v -> v <> Typed.TNull -> null_clean true v = true -> to_json v = Some d ->
  exists n, forall m, (n <= m)%nat -> validate_id (skeleton_env shipped_env) m id d = Some true.
Proof.
  intros N R Nv C J. eapply shaped_id_validates_skeleton; [|exact J].
  eapply written_documents_shaped_strict_partial; eauto.
Qed.

(* the same without assuming that the written tree reads as a JSON value: it does whenever the tree that was
   given does (SkeletonWrittenProofs.reenc_readable) *)
Lemma written_documents_read_and_validated_by_skeleton_partial id j v :
  ~ In id shape_unchecked -> readable j = true ->
  reenc_schema id j = Ok v -> v <> Typed.TNull -> null_clean false v = true ->
  exists d, to_json v = Some d /\
            exists n, forall m, (n <= m)%nat -> validate_id (skeleton_env shipped_env) m id d = Some true.
Proof.
  intros N Rj R Nv C. assert (R' := R). unfold reenc_schema in R'.
  destruct (assoc id go_schemas) as [t|]; [|discriminate].
  destruct (reenc_readable _ _ _ _ _ Rj R') as (d & J). exists d. split; auto.
  eapply written_documents_validated_by_skeleton_partial; eauto.
Qed.

Lemma written_documents_read_and_validated_by_skeleton_strict_partial id j v :
  ~ In id (shape_unchecked ++ shape_null_members) -> readable j = true ->
  reenc_schema id j = Ok v -> v <> Typed.TNull -> null_clean true v = true ->
  exists d, to_json v = Some d /\
            exists n, forall m, (n <= m)%nat -> validate_id (skeleton_env shipped_env) m id d = Some true.
Proof.
  intros N Rj R Nv C. assert (R' := R). unfold reenc_schema in R'.
  destruct (assoc id go_schemas) as [t|]; [|discriminate].
  destruct (reenc_readable _ _ _ _ _ Rj R') as (d & J). exists d. split; auto.
  eapply written_documents_validated_by_skeleton_strict_partial; eauto.
Qed.

(* non-vacuity, on note.Message (ShapeShipped.msg_in / msg_out):
   the written tree reads as a JSON value, the skeleton accepts it and so does the published schema;
   the skeleton is WEAKER than the published schema: a message without the required `content` passes it;
   the skeleton is WEAKER than `shaped`: the validator reads schema objects as open, so the undeclared member
   that `shaped` refuses (typed_shape_example) passes; an ill-typed member does not *)
Lemma msg_skeleton_example :
  let d := JObj [(bs "title", JStr (bs "T")); (bs "content", JStr (bs "hello"));
                 (bs "meta", JObj [(bs "a", JStr (bs "1")); (bs "b", JStr (bs "2"))])] in
  let no_content := JObj [(bs "title", JStr (bs "T"))] in
  reenc_schema msg_id msg_in = Ok msg_out /\ readable msg_in = true /\ to_json msg_out = Some d /\
  validate_id (skeleton_env shipped_env) 20 msg_id d = Some true /\
  validate_id shipped_env 20 msg_id d = Some true /\
  validate_id (skeleton_env shipped_env) 20 msg_id no_content = Some true /\
  validate_id shipped_env 20 msg_id no_content = Some false /\
  option_map (validate_id (skeleton_env shipped_env) 20 msg_id) (to_json msg_undeclared) = Some (Some true) /\
  option_map (validate_id (skeleton_env shipped_env) 20 msg_id) (to_json msg_illtyped) = Some (Some false).
Proof. cbv zeta. repeat split; vm_compute; reflexivity. Qed.

(* number texts: the JSON grammar and nothing else *)
Lemma num_of_text_examples :
  map num_of_text [bs "0"; bs "-0"; bs "12.50"; bs "-1.5e-3"; bs "1E+2"] =
    [Some (0, 0); Some (0, 0); Some (1250, -2); Some (-15, -4); Some (1, 2)]%Z /\
  map num_of_text [bs "01"; bs "1."; bs ".5"; bs "1e"; bs "--1"; bs ""; bs "-"; bs "1x"; bs "+1"; bs "1e5x"] =
    [None; None; None; None; None; None; None; None; None; None].
Proof. split; vm_compute; reflexivity. Qed.
