(* What the key pattern of the published schema means, as a plain statement about bytes:
   the regular expression the translator produced for
       ^(?:[a-z]|[a-z0-9][a-z0-9-+]*[a-z0-9])$
   denotes exactly the strings "one lower-case letter" or "alphanumeric, then any number of
   alphanumerics, '-' or '+', then alphanumeric" (lower case only). *)
From Coq Require Import List ZArith NArith Strings.Byte Bool Lia.
From Verif Require Import Base.Wire Schema.Regex Schema.RegexProofs.
Import ListNotations.
Open Scope N_scope.

Definition is_lower (c : byte) : Prop := 97 <= bN c <= 122.
Definition is_lower_alnum (c : byte) : Prop := 97 <= bN c <= 122 \/ 48 <= bN c <= 57.
Definition is_key_char (c : byte) : Prop := is_lower_alnum c \/ bN c = 45 \/ bN c = 43.

Definition key_spec (s : bytes) : Prop :=
  (exists c, s = [c] /\ is_lower c) \/
  (exists c1 mid c2, s = c1 :: mid ++ [c2] /\ is_lower_alnum c1 /\ Forall is_key_char mid /\ is_lower_alnum c2).

(* the regex the translator emits for that text (Gen.Schemas.pat_* is compared with it by
   reflexivity in Props/C11.v) *)
Definition key_regex : regex :=
  RAlt (RSet false [(97, 122)])
       (RCat (RSet false [(97, 122); (48, 57)])
             (RCat (RStar (RSet false [(97, 122); (48, 57); (45, 45); (43, 43)]))
                   (RSet false [(97, 122); (48, 57)]))).

Lemma lang_star_set neg rs s :
  lang (RStar (RSet neg rs)) s <-> Forall (fun c => set_mem neg rs c = true) s.
Proof.
  split.
  - intro H. remember (RStar (RSet neg rs)) as r eqn:E. induction H; try discriminate.
    + constructor.
    + injection E as ->. apply lang_set in H as (c & -> & Hc). simpl. constructor; auto.
  - induction 1 as [|c s Hc _ IH]; [constructor|].
    change (c :: s) with ([c] ++ s). constructor; auto. now constructor.
Qed.

Lemma mem_lower c : set_mem false [(97, 122)] c = true <-> is_lower c.
Proof.
  unfold set_mem, is_lower. rewrite xorb_false_l. cbn [in_ranges]. rewrite orb_false_r, andb_true_iff, !N.leb_le. tauto.
Qed.

Lemma mem_alnum c : set_mem false [(97, 122); (48, 57)] c = true <-> is_lower_alnum c.
Proof.
  unfold set_mem, is_lower_alnum. rewrite xorb_false_l. cbn [in_ranges]. rewrite orb_false_r, orb_true_iff, !andb_true_iff, !N.leb_le. tauto.
Qed.

Lemma mem_keychar c : set_mem false [(97, 122); (48, 57); (45, 45); (43, 43)] c = true <-> is_key_char c.
Proof.
  unfold set_mem, is_key_char, is_lower_alnum. rewrite xorb_false_l. cbn [in_ranges].
  rewrite orb_false_r, !orb_true_iff, !andb_true_iff, !N.leb_le. lia.
Qed.

Theorem key_regex_meaning s : lang key_regex s <-> key_spec s.
Proof.
  unfold key_regex, key_spec. rewrite lang_alt, lang_set. split.
  - intros [(c & -> & Hc) | H].
    + left. exists c. split; auto. now apply mem_lower.
    + right. apply lang_cat in H as (s1 & s2 & -> & H1 & H2).
      apply lang_set in H1 as (c1 & -> & Hc1).
      apply lang_cat in H2 as (mid & s3 & -> & Hm & H3).
      apply lang_set in H3 as (c2 & -> & Hc2).
      exists c1, mid, c2. repeat split; auto.
      * now apply mem_alnum.
      * apply lang_star_set in Hm. eapply Forall_impl; [|exact Hm]. intros a Ha. now apply mem_keychar.
      * now apply mem_alnum.
  - intros [(c & -> & Hc) | (c1 & mid & c2 & -> & H1 & Hm & H2)].
    + left. exists c. split; auto. now apply mem_lower.
    + right. change (c1 :: mid ++ [c2]) with ([c1] ++ mid ++ [c2]).
      constructor; [constructor; now apply mem_alnum|].
      constructor; [|constructor; now apply mem_alnum].
      apply lang_star_set. eapply Forall_impl; [|exact Hm]. intros a Ha. now apply mem_keychar.
Qed.

(* as the "pattern" keyword applies it: anchored at both ends *)
Theorem key_pattern_meaning src s :
  pattern_matches (mkPattern src true true key_regex) s = true <-> key_spec s.
Proof.
  rewrite pattern_matches_correct, <- key_regex_meaning. unfold pattern_lang. simpl. split.
  - intros (pre & mid & post & -> & H & Hs & He). rewrite (Hs eq_refl), (He eq_refl), app_nil_r. exact H.
  - intro H. exists [], s, []. rewrite app_nil_r. repeat split; auto.
Qed.
