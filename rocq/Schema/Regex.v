(* Regular expressions over bytes for the "pattern" / "patternProperties" keywords of the shipped
   JSON Schemas (model file: definitions only, proofs are in RegexProofs.v).

   Patterns are ECMA-262 regular expressions applied to the UTF-8 bytes of a string.  The subset
   modelled: anchors ^ $ (at the two ends of the whole pattern only), literals, escapes of
   punctuation, \d, classes with ranges (ASCII members only) and negation, ? * + {m} {m,} {m,n},
   groups ( ) and (?: ), alternation.  The parser (text -> regex) lives in the translator
   (harness/gen_schemas.go) and fails loudly on anything else; this file gives the AST, the derived
   forms the parser emits, the denotation [lang] and the Brzozowski-derivative matcher.

   "pattern" is a search, not a full match: a missing ^ / $ anchor is modelled by an
   any-bytes prefix / suffix (mk_search).  $ is end of text (ECMA/Go without the m flag),
   NOT "end or before a final newline" as in python's re. *)
From Coq Require Import List ZArith NArith Strings.Byte Bool.
From Verif Require Import Base.Wire.
Import ListNotations.
Open Scope N_scope.

Definition ranges := list (N * N).

Fixpoint in_ranges (c : N) (rs : ranges) : bool :=
  match rs with
  | [] => false
  | (lo, hi) :: r => ((lo <=? c) && (c <=? hi)) || in_ranges c r
  end.

Inductive regex :=
| RNone                                   (* matches nothing *)
| REps                                    (* the empty string *)
| RSet (neg : bool) (rs : ranges)         (* one byte b with  in_ranges b rs <> neg *)
| RCat (a b : regex)
| RAlt (a b : regex)
| RStar (a : regex).

Definition set_mem (neg : bool) (rs : ranges) (c : byte) : bool := xorb neg (in_ranges (bN c) rs).

(* ---- denotation ---- *)
Inductive lang : regex -> bytes -> Prop :=
| L_eps : lang REps []
| L_set neg rs c : set_mem neg rs c = true -> lang (RSet neg rs) [c]
| L_cat a b s t : lang a s -> lang b t -> lang (RCat a b) (s ++ t)
| L_alt_l a b s : lang a s -> lang (RAlt a b) s
| L_alt_r a b s : lang b s -> lang (RAlt a b) s
| L_star_nil a : lang (RStar a) []
| L_star_app a s t : lang a s -> lang (RStar a) t -> lang (RStar a) (s ++ t).

(* ---- derived forms emitted by the pattern parser ---- *)
Definition rbyte (c : N) : regex := RSet false [(c, c)].
Fixpoint rlit (s : bytes) : regex :=
  match s with [] => REps | c :: r => RCat (rbyte (bN c)) (rlit r) end.
Definition rany : regex := RSet true [].                 (* any single byte *)
Definition ropt (r : regex) : regex := RAlt REps r.
Definition rplus (r : regex) : regex := RCat r (RStar r).
Fixpoint rpow (r : regex) (n : nat) : regex :=
  match n with O => REps | S k => RCat r (rpow r k) end.
Fixpoint ropts (r : regex) (n : nat) : regex :=          (* between 0 and n copies *)
  match n with O => REps | S k => ropt (RCat r (ropts r k)) end.
(* r{m,n} (n = None: unbounded) *)
Definition rrep (r : regex) (m : nat) (n : option nat) : regex :=
  match n with
  | None => RCat (rpow r m) (RStar r)
  | Some k => RCat (rpow r m) (ropts r (k - m))
  end.
(* continuation byte, and one multi-byte UTF-8 encoded code point *)
Definition rcont : regex := RSet false [(128, 191)].
Definition rutf8_multi : regex :=
  RAlt (RCat (RSet false [(194, 223)]) rcont)
 (RAlt (RCat (RSet false [(224, 239)]) (RCat rcont rcont))
       (RCat (RSet false [(240, 244)]) (RCat rcont (RCat rcont rcont)))).
(* [^...] with ASCII members: one code point not in the class = an ASCII byte outside it or any
   multi-byte code point *)
Definition rnegclass (rs : ranges) : regex := RAlt (RSet true (rs ++ [(128, 255)])) rutf8_multi.

(* ---- matcher ---- *)
Fixpoint nullable (r : regex) : bool :=
  match r with
  | RNone => false
  | REps => true
  | RSet _ _ => false
  | RCat a b => nullable a && nullable b
  | RAlt a b => nullable a || nullable b
  | RStar _ => true
  end.

Fixpoint ranges_eqb (a b : ranges) : bool :=
  match a, b with
  | [], [] => true
  | (l1, h1) :: a', (l2, h2) :: b' => (l1 =? l2) && (h1 =? h2) && ranges_eqb a' b'
  | _, _ => false
  end.

Fixpoint regex_eqb (a b : regex) : bool :=
  match a, b with
  | RNone, RNone => true
  | REps, REps => true
  | RSet n1 r1, RSet n2 r2 => Bool.eqb n1 n2 && ranges_eqb r1 r2
  | RCat a1 a2, RCat b1 b2 => regex_eqb a1 b1 && regex_eqb a2 b2
  | RAlt a1 a2, RAlt b1 b2 => regex_eqb a1 b1 && regex_eqb a2 b2
  | RStar a1, RStar b1 => regex_eqb a1 b1
  | _, _ => false
  end.

(* smart constructors: drop RNone / REps units and repeated alternatives so that iterated
   derivatives stay small *)
Definition mkcat (a b : regex) : regex :=
  match a with
  | RNone => RNone
  | REps => b
  | _ => match b with RNone => RNone | REps => a | _ => RCat a b end
  end.

Fixpoint alt_mem (a b : regex) : bool :=
  match b with
  | RAlt x y => regex_eqb a x || alt_mem a y
  | _ => regex_eqb a b
  end.

Definition alt1 (a b : regex) : regex :=
  match a with
  | RNone => b
  | _ => match b with RNone => a | _ => if alt_mem a b then b else RAlt a b end
  end.

Fixpoint mkalt (a b : regex) : regex :=
  match a with
  | RAlt x y => mkalt x (mkalt y b)
  | _ => alt1 a b
  end.

Fixpoint deriv (c : byte) (r : regex) : regex :=
  match r with
  | RNone => RNone
  | REps => RNone
  | RSet neg rs => if set_mem neg rs c then REps else RNone
  | RCat a b => mkalt (mkcat (deriv c a) b) (if nullable a then deriv c b else RNone)
  | RAlt a b => mkalt (deriv c a) (deriv c b)
  | RStar a => mkcat (deriv c a) (RStar a)
  end.

Fixpoint derivs (s : bytes) (r : regex) : regex :=
  match s with [] => r | c :: t => derivs t (deriv c r) end.

Definition matches (r : regex) (s : bytes) : bool := nullable (derivs s r).

(* ---- a "pattern" as the schema keyword uses it ---- *)
Record pattern := mkPattern {
  p_src : bytes;          (* the pattern text as published *)
  p_start : bool;         (* text begins with ^ *)
  p_end : bool;           (* text ends with an unescaped $ *)
  p_body : regex          (* what stands between the anchors *)
}.

Definition mk_search (p : pattern) : regex :=
  let r1 := if p_start p then p_body p else RCat (RStar rany) (p_body p) in
  if p_end p then r1 else RCat r1 (RStar rany).

Definition pattern_matches (p : pattern) (s : bytes) : bool := matches (mk_search p) s.

(* s contains a substring (anchored as the pattern says) in the language of the body *)
Definition pattern_lang (p : pattern) (s : bytes) : Prop :=
  exists pre mid post, s = pre ++ mid ++ post /\ lang (p_body p) mid /\
    (p_start p = true -> pre = []) /\ (p_end p = true -> post = []).
