(* C11 - the data theorems of the structural checker over the regenerated tables: the Go types by reflection
   (Gen/GoTypes.v) against the shipped schemas (Gen/Schemas.v), evaluated by the kernel's virtual machine on
   every run (about a minute each: the checker unfolds every named type at every use). *)
From Coq Require Import String.
From Coq Require Import List ZArith Strings.Byte Bool.
From Verif Require Import Base.Wire Schema.Regex Schema.Schema Schema.Validate
  Marshal.Typed Marshal.Env Schema.Shape Schema.ShapeShipped Gen.GoTypes Gen.Schemas.
Import ListNotations.

(* lax reading (trees without null members): every registered type but the four unchecked ones *)
Lemma go_shapes_conform_partial : go_shape_conforms false shape_unchecked = true.
Proof. vm_cast_no_check (@eq_refl bool true). Qed.

(* strict reading (a nil member without omitempty is written as null): the types without such a member *)
Lemma go_shapes_conform_strict_partial :
  go_shape_conforms true (shape_unchecked ++ shape_null_members) = true.
Proof. vm_cast_no_check (@eq_refl bool true). Qed.

(* the exceptions of the strict reading are exceptions indeed: each of them fails *)
Lemma go_null_members_fail :
  forallb (fun id => match assoc id go_schemas with
                     | Some t => negb (shape_conforms_id true go_types shipped_env shape_fuel id t)
                     | None => false
                     end) shape_null_members = true.
Proof. vm_cast_no_check (@eq_refl bool true). Qed.

