(* C11 - the structural checker of Schema/Shape.v instantiated with the REGENERATED tables: the Go types
   (Gen/GoTypes.v, by reflection) against the shipped schemas (Gen/Schemas.v, translated from
   data/schemas).  Model file: definitions only; the data theorems are in Schema/ShapeShippedProofs.v. *)
From Coq Require Import String.
From Coq Require Import List ZArith Strings.Byte Bool.
From Verif Require Import Base.Wire Schema.Regex Schema.Schema Schema.Validate Marshal.Typed Marshal.Env
  Schema.Shape Gen.GoTypes Gen.Schemas.
Import ListNotations.
Open Scope string_scope.

(* every shipped file and every definition in it, by (document id, fragment) *)
Definition shipped_env : Schema.env := env_of_files shipped_schemas.

(* one unit per unfolding of a named type, per pointer and per descent into a sub-schema or through a $ref *)
Definition shape_fuel : nat := 100.

Definition excepted (l : list bytes) (id : bytes) : bool := existsb (eqb_bytes id) l.

(* every registered (schema id, Go type) outside the exceptions conforms to the published schema of its id;
   a type whose schema file is missing does not conform *)
Definition go_shape_conforms (strict : bool) (except : list bytes) : bool :=
  forallb (fun p => excepted except (fst p)
                    || shape_conforms_id strict go_types shipped_env shape_fuel (fst p) (snd p)) go_schemas.

(* LIMIT OF THE CHECKER: cbc.Definition contains itself (`values`), so unfolding it never ends within any
   fuel; it and the three registry types that contain it (not documents: definitions of regimes, addons and
   catalogues) are not covered *)
Definition shape_unchecked : list bytes :=
  [bs "https://gobl.org/draft-0/cbc/definition";
   bs "https://gobl.org/draft-0/tax/addon-def";
   bs "https://gobl.org/draft-0/tax/catalogue-def";
   bs "https://gobl.org/draft-0/tax/regime-def"].

(* FINDING (strict reading): the registered types that contain, directly or below, a nilable member without
   omitempty; encoding/json writes such a member as null when it is nil, and no shipped schema allows null
   anywhere.  The members (Go type, JSON name):
     org.Person name; tax.CategoryTotal rates; bill.SubLine item; bill.Line item; bill.Delivery supplier;
     pay.DueDate date; bill.Invoice supplier, totals; bill.Order supplier; bill.Payment supplier, lines;
     head.Header dig; gobl.Envelope head, doc; mx.FoodVouchers lines; mx.FuelAccountLine item, taxes;
     mx.FuelAccountBalance lines  (and, in the unchecked registry types: cbc.Definition name;
     tax.TagSet list; tax.ScenarioSet list; tax.AddonDef name, extensions, scenarios, corrections;
     tax.CatalogueDef name, extensions; tax.RateDef name; tax.CategoryDef name; tax.RegimeDef name, categories).
   The library's validation rules require these members, so a document that validated does not have them
   nil; that is value level and stays with the sweep. *)
Definition shape_null_members : list bytes :=
  [bs "https://gobl.org/draft-0/bill/delivery";
   bs "https://gobl.org/draft-0/bill/delivery-details";
   bs "https://gobl.org/draft-0/bill/invoice";
   bs "https://gobl.org/draft-0/bill/line";
   bs "https://gobl.org/draft-0/bill/order";
   bs "https://gobl.org/draft-0/bill/ordering";
   bs "https://gobl.org/draft-0/bill/payment";
   bs "https://gobl.org/draft-0/bill/payment-details";
   bs "https://gobl.org/draft-0/bill/totals";
   bs "https://gobl.org/draft-0/envelope";
   bs "https://gobl.org/draft-0/head/header";
   bs "https://gobl.org/draft-0/org/document-ref";
   bs "https://gobl.org/draft-0/org/party";
   bs "https://gobl.org/draft-0/org/person";
   bs "https://gobl.org/draft-0/pay/terms";
   bs "https://gobl.org/draft-0/regimes/mx/food-vouchers";
   bs "https://gobl.org/draft-0/regimes/mx/fuel-account-balance";
   bs "https://gobl.org/draft-0/tax/total"].

(* non-vacuity: a note.Message as read, with a member the type does not know *)
Definition msg_id : bytes := bs "https://gobl.org/draft-0/note/message".
Definition msg_in : tv :=
  TObj [(bs "content", TStr (bs "hello")); (bs "title", TStr (bs "T"));
        (bs "meta", TObj [(bs "b", TStr (bs "2")); (bs "a", TStr (bs "1"))]); (bs "unknown", TNum (bs "1"))].
Definition msg_out : tv :=
  TObj [(bs "title", TStr (bs "T")); (bs "content", TStr (bs "hello"));
        (bs "meta", TObj [(bs "a", TStr (bs "1")); (bs "b", TStr (bs "2"))])].
(* trees the schema's shape does not allow: an undeclared member; a member of the wrong JSON type *)
Definition msg_undeclared : tv := TObj [(bs "content", TStr (bs "hello")); (bs "unknown", TNum (bs "1"))].
Definition msg_illtyped : tv := TObj [(bs "content", TNum (bs "1"))].
