(* C11 - the SHAPE of what a Go type writes against the shape a published schema allows
   (model file: definitions only; proofs in Schema/ShapeProofs.v).

   Three notions:
   * `writes types t v` - the JSON trees encoding/json can write for a value of the Go type described by
     t (Marshal/Typed.v descriptors): which members a struct writes, what kind of value a leaf writes,
     where null can appear.  Every result of `reenc` is such a tree (ShapeProofs.reenc_writes).
   * `shaped e base s v` - the tree v has the shape the schema s allows, STRUCTURALLY: the `type` keyword
     holds at every place, every member of an object is DECLARED (a closed reading: where a schema object
     lists `properties` and has neither patternProperties nor additionalProperties, a member that is not
     listed is a violation - what `additionalProperties: false` would enforce), recursively through $ref,
     allOf, properties, patternProperties, additionalProperties and items.  The value-level keywords
     (pattern, format, enum, const, required, minLength, maxLength, oneOf, anyOf) are ignored.
     `shape_ok e fuel base s v` is its boolean form.
   * `shape_conforms strict types e fuel nl t base s` - the checker: walks a type descriptor and a schema
     together and answers whether EVERY tree the type writes is shaped by the schema.
     nl = "null may stand at this place".  strict = true: a nilable member (pointer, slice, map, []byte)
     without omitempty can be written as null, so the schema must allow null there; strict = false: trees
     without null members only (a document that validated has its required members set; that is value
     level).  A null directly inside an array is excluded in both modes (`null_clean`). *)
From Coq Require Import List ZArith Strings.Byte String Bool.
From Verif Require Import Base.Wire Schema.Regex Schema.Schema Schema.Validate Marshal.Typed.
Import ListNotations.
Open Scope Z_scope.

(* ---- JSON types of written trees ---- *)
Definition tv_has_type (v : tv) (t : jtype) : bool :=
  match t, v with
  | Schema.TNull, Typed.TNull => true
  | TBoolean, TBool _ => true
  | TObject, TObj _ => true
  | TArray, TArr _ => true
  | TNumber, TNum _ => true
  | TInteger, TNum raw => json_int_text raw      (* an integer literal: no fraction, no exponent *)
  | TString, TStr _ => true
  | _, _ => false
  end.

Definition jtype_eqb (a b : jtype) : bool :=
  match a, b with
  | Schema.TNull, Schema.TNull | TBoolean, TBoolean | TObject, TObject | TArray, TArray
  | TNumber, TNumber | TInteger, TInteger | TString, TString => true
  | _, _ => false
  end.
Definition allows (ts : list jtype) (t : jtype) : bool := existsb (jtype_eqb t) ts.

(* ---- the keywords that are not structural ---- *)
Definition ignored (k : keyword) : bool :=
  match k with
  | KRequired _ | KOneOf _ | KAnyOf _ | KConst _ | KEnum _ | KPattern _ | KFormat _
  | KMinLength _ | KMaxLength _ | KId _ | KDefs _ | KAnnot _ => true
  | _ => false
  end.

(* ---- declared members (closed reading) ---- *)
Fixpoint in_props (ks : list keyword) (k : bytes) : bool :=
  match ks with
  | [] => false
  | KProperties ps :: r => has_key k ps || in_props r k
  | _ :: r => in_props r k
  end.
Definition is_props (k : keyword) : bool := match k with KProperties _ => true | _ => false end.
Definition is_open_kw (k : keyword) : bool :=
  match k with KPatternProperties _ | KAdditionalProperties _ => true | _ => false end.
(* the schema object lists its members and nothing opens it *)
Definition closed (ks : list keyword) : bool := existsb is_props ks && negb (existsb is_open_kw ks).
Definition declared (ks : list keyword) (k : bytes) : bool := negb (closed ks) || in_props ks k.

(* ---- the shape a schema allows (relation) ---- *)
Section Shaped.
  Variable e : Schema.env.

  Inductive shaped : bytes -> schema -> tv -> Prop :=
  | Sh_true base v : shaped base (SBool true) v
  | Sh_kws base ks v :
      (forall m k x, v = TObj m -> In (k, x) m -> declared ks k = true) ->
      (forall kw, In kw ks -> shaped_kw base ks kw v) ->
      shaped base (SKw ks) v

  with shaped_kw : bytes -> list keyword -> keyword -> tv -> Prop :=
  | ShK_type base ctx ts v :
      existsb (tv_has_type v) ts = true -> shaped_kw base ctx (KType ts) v
  | ShK_ref base ctx r v s :
      lookup_ref e (resolve base r) = Some s -> shaped (fst (resolve base r)) s v ->
      shaped_kw base ctx (KRef r) v
  | ShK_properties base ctx ps v :
      (forall m k x s, v = TObj m -> In (k, x) m -> lookup k ps = Some s -> shaped base s x) ->
      shaped_kw base ctx (KProperties ps) v
  | ShK_patternProperties base ctx pps v :
      (forall m k x p s, v = TObj m -> In (k, x) m -> In (p, s) pps -> pattern_matches p k = true ->
                         shaped base s x) ->
      shaped_kw base ctx (KPatternProperties pps) v
  | ShK_additionalProperties base ctx s v :
      (forall m k x, v = TObj m -> In (k, x) m -> covered ctx k = false -> shaped base s x) ->
      shaped_kw base ctx (KAdditionalProperties s) v
  | ShK_items base ctx s v :
      (forall l x, v = TArr l -> In x l -> shaped base s x) ->
      shaped_kw base ctx (KItems s) v
  | ShK_allOf base ctx l v :
      (forall s, In s l -> shaped base s v) -> shaped_kw base ctx (KAllOf l) v
  | ShK_ignored base ctx kw v :
      ignored kw = true -> shaped_kw base ctx kw v.

  (* a tree is shaped by the published schema with the given id *)
  Definition shaped_id (id : bytes) (v : tv) : Prop :=
    exists s, lookup_ref e (id, []) = Some s /\ shaped id s v.

  (* ---- the same as a boolean, with fuel for the nesting of schema evaluation ---- *)
  Section OkKw.
    Variable rec : bytes -> schema -> tv -> bool.
    Definition ok_kw (base : bytes) (ctx : list keyword) (k : keyword) (v : tv) : bool :=
      match k with
      | KType ts => existsb (tv_has_type v) ts
      | KRef r =>
          match lookup_ref e (resolve base r) with
          | Some s => rec (fst (resolve base r)) s v
          | None => false
          end
      | KProperties ps =>
          match v with
          | TObj m => forallb (fun kv => match lookup (fst kv) ps with
                                         | Some s => rec base s (snd kv)
                                         | None => true
                                         end) m
          | _ => true
          end
      | KPatternProperties pps =>
          match v with
          | TObj m => forallb (fun kv => forallb (fun p => if pattern_matches (fst p) (fst kv)
                                                          then rec base (snd p) (snd kv) else true) pps) m
          | _ => true
          end
      | KAdditionalProperties s =>
          match v with
          | TObj m => forallb (fun kv => if covered ctx (fst kv) then true else rec base s (snd kv)) m
          | _ => true
          end
      | KItems s => match v with TArr l => forallb (rec base s) l | _ => true end
      | KAllOf l => forallb (fun s => rec base s v) l
      | KMalformed _ => false
      | _ => true
      end.
  End OkKw.

  Fixpoint shape_ok (fuel : nat) (base : bytes) (s : schema) (v : tv) : bool :=
    match fuel with
    | O => false
    | S f =>
        match s with
        | SBool b => b
        | SKw ks =>
            match v with TObj m => forallb (fun kv => declared ks (fst kv)) m | _ => true end
            && forallb (fun k => ok_kw (shape_ok f) base ks k v) ks
        end
    end.

  Definition shape_ok_id (fuel : nat) (id : bytes) (v : tv) : bool :=
    match lookup_ref e (id, []) with Some s => shape_ok fuel id s v | None => false end.
End Shaped.

(* ---- what a Go type writes ---- *)
Definition leaf_writes (l : leaf) (v : tv) : bool :=
  match l, v with
  | (LStr | LUUID | LDate | LDateTime | LAmount | LPercentage | LSig | LBytes), TStr _ => true
  | LBytes, Typed.TNull => true                 (* a nil []byte *)
  | LBool, TBool _ => true
  | LInt _ _, TNum raw => json_int_text raw
  | LFloat, TNum _ => true
  | _, _ => false
  end.

(* the reflect.Kind is nilable: omitempty drops the member when the value is nil *)
Definition nilable (t : ty) : bool :=
  match t with TyPtr _ | TySlice _ | TyMap _ | TyAny | TyLeaf LBytes => true | _ => false end.

Section Writes.
  Variable types : list (bytes * ty).

  Inductive writes : ty -> tv -> Prop :=
  | W_leaf l v : leaf_writes l v = true -> writes (TyLeaf l) v
  | W_ptr_nil t : writes (TyPtr t) Typed.TNull
  | W_ptr t v : writes t v -> writes (TyPtr t) v
  | W_slice_nil t : writes (TySlice t) Typed.TNull
  | W_slice t l : (forall x, In x l -> writes t x) -> writes (TySlice t) (TArr l)
  | W_map_nil t : writes (TyMap t) Typed.TNull
  | W_map t m : (forall k x, In (k, x) m -> writes t x) -> writes (TyMap t) (TObj m)
  | W_struct h fs m :
      (* every member is a declared field, written at the field's type; an omitempty nilable field is
         never written as null *)
      (forall k x, In (k, x) m ->
         exists fd, In fd fs /\ f_name fd = k /\ writes (f_ty fd) x /\
                    (f_omit fd && nilable (f_ty fd) = true -> x <> Typed.TNull)) ->
      writes (TyStruct h fs) (TObj m)
  | W_ref n t v : assoc n types = Some t -> writes t v -> writes (TyRef n) v
  | W_any : writes TyAny Typed.TNull            (* the model reads no other value of an interface type *)
  | W_object m : writes TyObject (TObj m).      (* schema.Object: `$schema` and the payload's members *)
End Writes.

(* no null directly inside an array; with strict = false no null member either *)
Fixpoint null_clean (strict : bool) (v : tv) : bool :=
  match v with
  | TArr l => forallb (fun x => negb (is_tnull x) && null_clean strict x) l
  | TObj m => forallb (fun kv => (strict || negb (is_tnull (snd kv))) && null_clean strict (snd kv)) m
  | _ => true
  end.

(* ---- the checker ---- *)
Definition leaf_allows (l : leaf) (ts : list jtype) : bool :=
  match l with
  | LStr | LUUID | LDate | LDateTime | LAmount | LPercentage | LSig | LBytes => allows ts TString
  | LBool => allows ts TBoolean
  | LInt _ _ => allows ts TInteger || allows ts TNumber
  | LFloat => allows ts TNumber
  | LOpaque _ => false
  end.

(* the `type` keyword admits what the type writes (null apart) *)
Definition type_allows (t : ty) (ts : list jtype) : bool :=
  match t with
  | TyLeaf l => leaf_allows l ts
  | TySlice _ => allows ts TArray
  | TyMap _ | TyStruct _ _ | TyObject => allows ts TObject
  | TyPtr _ | TyRef _ | TyAny => false
  end.

Definition is_empty {A} (l : list A) : bool := match l with [] => true | _ => false end.

(* every member the type writes is declared *)
Definition decl_ok (t : ty) (ks : list keyword) : bool :=
  match t with
  | TyStruct _ fs => negb (closed ks) || forallb (fun fd => in_props ks (f_name fd)) fs
  | TyMap _ | TyObject => negb (closed ks)
  | _ => true
  end.

Section Conf.
  Variable strict : bool.
  Variable types : list (bytes * ty).
  Variable e : Schema.env.

  (* may this field's member be null *)
  Definition field_nl (fd : field) : bool := strict && negb (f_omit fd && nilable (f_ty fd)).

  Section ConfKw.
    Variable rec : bool -> ty -> bytes -> schema -> bool.
    Definition conf_kw (t : ty) (base : bytes) (ctx : list keyword) (k : keyword) : bool :=
      match k with
      | KType ts => type_allows t ts
      | KRef r =>
          match lookup_ref e (resolve base r) with
          | Some s => rec false t (fst (resolve base r)) s
          | None => false
          end
      | KAllOf l => forallb (rec false t base) l
      | KItems s => match t with TySlice t' => rec false t' base s | _ => true end
      | KProperties ps =>
          match t with
          | TyStruct _ fs =>
              forallb (fun fd => match lookup (f_name fd) ps with
                                 | Some s => rec (field_nl fd) (f_ty fd) base s
                                 | None => true
                                 end) fs
          | TyMap t' => forallb (fun p => rec strict t' base (snd p)) ps
          | TyObject => is_empty ps
          | _ => true
          end
      | KPatternProperties pps =>
          match t with
          | TyStruct _ fs =>
              forallb (fun fd => forallb (fun p => if pattern_matches (fst p) (f_name fd)
                                                   then rec (field_nl fd) (f_ty fd) base (snd p)
                                                   else true) pps) fs
          | TyMap t' => forallb (fun p => rec strict t' base (snd p)) pps
          | TyObject => is_empty pps
          | _ => true
          end
      | KAdditionalProperties s =>
          match t with
          | TyStruct _ fs =>
              forallb (fun fd => if covered ctx (f_name fd) then true
                                 else rec (field_nl fd) (f_ty fd) base s) fs
          | TyMap t' => rec strict t' base s
          | TyObject => false
          | _ => true
          end
      | KMalformed _ => false
      | _ => true
      end.
  End ConfKw.

  Fixpoint shape_conforms (fuel : nat) (nl : bool) (t : ty) (base : bytes) (s : schema) : bool :=
    match fuel with
    | O => false
    | S f =>
        match t with
        | TyRef n =>
            match assoc n types with Some t' => shape_conforms f nl t' base s | None => false end
        | TyPtr t' =>
            (negb nl || shape_ok e f base s Typed.TNull) && shape_conforms f false t' base s
        | TyAny => negb nl || shape_ok e f base s Typed.TNull
        | _ =>
            (negb (nl && nilable t) || shape_ok e f base s Typed.TNull) &&
            match s with
            | SBool b => b
            | SKw ks => decl_ok t ks && forallb (conf_kw (shape_conforms f) t base ks) ks
            end
        end
    end.

  (* a registered type against the published schema of its id (the document itself is not null) *)
  Definition shape_conforms_id (fuel : nat) (id : bytes) (t : ty) : bool :=
    match lookup_ref e (id, []) with
    | Some s => shape_conforms fuel false t id s
    | None => false
    end.
End Conf.
