(* C11 - the link between the structural shape relation of Schema/Shape.v (`shaped`, over the trees `tv` the
   typed-marshalling model writes) and the JSON-Schema validator of Schema/Validate.v (`validate` / `conforms`,
   over `Schema.json`).  Model file: definitions only; proofs in Schema/SkeletonProofs.v.

     num_of_text t   the number a JSON number literal denotes, as mantissa * 10^exponent (exact): the JSON
                     grammar: an optional minus; 0, or a non-zero digit and more digits; optionally a dot and one or
                     more digits; optionally e or E, an optional sign and one or more digits.  None for any other text
     to_json v       the written tree as a JSON value of Schema.json: strings, booleans, null, arrays and
                     objects structurally (members in the written order), a number by num_of_text; None when a
                     number text anywhere in the tree is outside the grammar
     skeleton s      the schema s with exactly the keywords `shaped` ignores for their VALUE-LEVEL meaning
                     removed, at every depth: required, oneOf, anyOf, const, enum, pattern, format, minLength,
                     maxLength.  $id, $defs (its definitions skeletonised as well) and annotations are kept:
                     they carry no assertion, and the environment of a skeletonised file is the skeletonised
                     environment of the file (SkeletonProofs.env_of_files_skeleton).  Everything structural is
                     kept: type, $ref, properties, patternProperties, additionalProperties, items, allOf, and an
                     ill-typed keyword (KMalformed) stays ill-typed.
     skeleton_env e  every schema of a reference environment skeletonised, under the same (id, fragment). *)
From Coq Require Import List ZArith Strings.Byte Bool.
From Verif Require Import Base.Wire Num.Codec Schema.Regex Schema.Schema Schema.Validate Marshal.Typed.
Import ListNotations.
Open Scope Z_scope.

(* ---- number texts ---- *)
(* the exponent part: nothing, or e / E, an optional sign, one or more digits *)
Definition exp_of_text (r : bytes) : option Z :=
  match r with
  | [] => Some 0
  | c :: r1 =>
      if (bZ c =? 101) || (bZ c =? 69) then
        let '(neg, ds) := match r1 with
                          | s :: r2 => if bZ s =? 45 then (true, r2) else if bZ s =? 43 then (false, r2)
                                       else (false, r1)
                          | [] => (false, [])
                          end in
        if negb (is_nil ds) && all_digits ds
        then Some (if neg then - value_of_digits ds else value_of_digits ds) else None
      else None
  end.

Definition num_of_text (s : bytes) : option (Z * Z) :=
  let '(ip, r1) := span_digits (trim_minus s) in
  match ip with
  | [] => None
  | d :: ds =>
      if negb (is_nil ds) && Byte.eqb d b_zero then None      (* a leading zero *)
      else
        let '(fp, r2, ok) :=
          match r1 with
          | c :: r' => if Byte.eqb c b_dot
                       then let '(f, r'') := span_digits r' in (f, r'', negb (is_nil f))
                       else ([], r1, true)
          | [] => ([], [], true)
          end in
        if ok then
          match exp_of_text r2 with
          | Some x => Some ((if has_minus s then -1 else 1) * value_of_digits (ip ++ fp),
                            x - Z.of_nat (length fp))
          | None => None
          end
        else None
  end.

(* ---- written trees as JSON values ---- *)
Fixpoint all_some {A} (l : list (option A)) : option (list A) :=
  match l with
  | [] => Some []
  | None :: _ => None
  | Some x :: r => match all_some r with Some r' => Some (x :: r') | None => None end
  end.

Fixpoint to_json (v : tv) : option json :=
  match v with
  | Typed.TNull => Some JNull
  | TBool b => Some (JBool b)
  | TNum raw => match num_of_text raw with Some (m, e) => Some (JNum m e) | None => None end
  | TStr s => Some (JStr s)
  | TArr l => option_map JArr (all_some (map to_json l))
  | TObj m => option_map JObj
                (all_some (map (fun kv => match to_json (snd kv) with
                                          | Some j => Some (fst kv, j)
                                          | None => None
                                          end) m))
  end.

(* every number text of the tree is in the JSON grammar: the tree reads as a JSON value (any tree a JSON parser
   builds is readable) *)
Definition readable (v : tv) : bool := match to_json v with Some _ => true | None => false end.

(* ---- the structural part of a schema ---- *)
Fixpoint skeleton (s : schema) : schema :=
  match s with
  | SBool b => SBool b
  | SKw ks => SKw (flat_map skeleton_kw ks)
  end
with skeleton_kw (k : keyword) : list keyword :=
  match k with
  | KType ts => [KType ts]
  | KRef r => [KRef r]
  | KProperties ps => [KProperties (map (fun p => (fst p, skeleton (snd p))) ps)]
  | KPatternProperties ps => [KPatternProperties (map (fun p => (fst p, skeleton (snd p))) ps)]
  | KAdditionalProperties s => [KAdditionalProperties (skeleton s)]
  | KItems s => [KItems (skeleton s)]
  | KAllOf l => [KAllOf (map skeleton l)]
  | KRequired _ | KOneOf _ | KAnyOf _ | KConst _ | KEnum _ | KPattern _ | KFormat _
  | KMinLength _ | KMaxLength _ => []
  | KId i => [KId i]
  | KDefs ds => [KDefs (map (fun p => (fst p, skeleton (snd p))) ds)]
  | KAnnot n => [KAnnot n]
  | KMalformed n => [KMalformed n]
  end.

Definition skeleton_env (e : Schema.env) : Schema.env :=
  map (fun t => (fst t, skeleton (snd t))) e.

(* the keywords the skeleton removes *)
Definition erased (k : keyword) : bool :=
  match k with
  | KRequired _ | KOneOf _ | KAnyOf _ | KConst _ | KEnum _ | KPattern _ | KFormat _
  | KMinLength _ | KMaxLength _ => true
  | _ => false
  end.

(* no erased keyword is left anywhere in a schema *)
Fixpoint structural (s : schema) : bool :=
  match s with
  | SBool _ => true
  | SKw ks => forallb structural_kw ks
  end
with structural_kw (k : keyword) : bool :=
  negb (erased k) &&
  match k with
  | KProperties ps => forallb (fun p => structural (snd p)) ps
  | KPatternProperties ps => forallb (fun p => structural (snd p)) ps
  | KAdditionalProperties s => structural s
  | KItems s => structural s
  | KAllOf l => forallb structural l
  | KDefs ds => forallb (fun p => structural (snd p)) ds
  | _ => true
  end.
