(* The validator for the keyword subset of Schema/Schema.v (draft 2020-12 semantics) and its
   relational specification (model file: definitions only; proofs in ValidateProofs.v).

   validate env fuel base s j : option bool
     Some true  = the instance j is valid against schema s
     Some false = invalid
     None       = undetermined: fuel exhausted, a reference that does not resolve, or an
                  ill-typed keyword (KMalformed) was needed for the verdict
   fuel bounds the nesting depth of schema evaluation (every descent into a sub-schema or through
   a $ref costs one); it is not a bound on the instance size.  Results are combined with Kleene's
   strong three-valued connectives, so a determined verdict never depends on an undetermined
   part (all3 / any3 / one3).

   conforms / violates are the specification: one rule per keyword, written from the draft's text,
   with regular expressions by their denotation (Regex.pattern_lang), independent of fuel. *)
From Coq Require Import List ZArith Strings.Byte Bool.
From Verif Require Import Base.Wire Schema.Regex Schema.Schema.
Import ListNotations.
Open Scope Z_scope.

(* ---- three-valued connectives over lists ---- *)
Fixpoint all3 (l : list (option bool)) : option bool :=
  match l with
  | [] => Some true
  | x :: r => match x, all3 r with
              | Some false, _ => Some false
              | _, Some false => Some false
              | Some true, Some true => Some true
              | _, _ => None
              end
  end.

Fixpoint any3 (l : list (option bool)) : option bool :=
  match l with
  | [] => Some false
  | x :: r => match x, any3 r with
              | Some true, _ => Some true
              | _, Some true => Some true
              | Some false, Some false => Some false
              | _, _ => None
              end
  end.

(* number of Some true, and whether some element is undetermined *)
Fixpoint count3 (l : list (option bool)) : nat * bool :=
  match l with
  | [] => (O, false)
  | x :: r => let (t, u) := count3 r in
              match x with
              | Some true => (S t, u)
              | Some false => (t, u)
              | None => (t, true)
              end
  end.

(* exactly one *)
Definition one3 (l : list (option bool)) : option bool :=
  let (t, u) := count3 l in
  if Nat.leb 2 t then Some false else if u then None else Some (Nat.eqb t 1).

(* member names handled by properties / patternProperties of the same schema object
   (what additionalProperties does not apply to) *)
Fixpoint covered (ctx : list keyword) (k : bytes) : bool :=
  match ctx with
  | [] => false
  | KProperties ps :: r => has_key k ps || covered r k
  | KPatternProperties pps :: r => existsb (fun p => pattern_matches (fst p) k) pps || covered r k
  | _ :: r => covered r k
  end.

Section Eval.
  Variable e : env.
  (* verdict of a sub-schema: (base id, schema, instance) *)
  Variable rec : bytes -> schema -> json -> option bool.

  Definition eval_kw (base : bytes) (ctx : list keyword) (k : keyword) (j : json) : option bool :=
    match k with
    | KType ts => Some (existsb (has_type j) ts)
    | KRef r =>
        match lookup_ref e (resolve base r) with
        | Some s => rec (fst (resolve base r)) s j
        | None => None
        end
    | KProperties ps =>
        match j with
        | JObj o => all3 (map (fun kv => match lookup (fst kv) ps with
                                         | Some s => rec base s (snd kv)
                                         | None => Some true
                                         end) o)
        | _ => Some true
        end
    | KPatternProperties pps =>
        match j with
        | JObj o => all3 (map (fun kv =>
                       all3 (map (fun ps => if pattern_matches (fst ps) (fst kv)
                                            then rec base (snd ps) (snd kv) else Some true) pps)) o)
        | _ => Some true
        end
    | KAdditionalProperties s =>
        match j with
        | JObj o => all3 (map (fun kv => if covered ctx (fst kv) then Some true
                                         else rec base s (snd kv)) o)
        | _ => Some true
        end
    | KRequired names =>
        match j with
        | JObj o => Some (forallb (fun n => has_key n o) names)
        | _ => Some true
        end
    | KItems s =>
        match j with
        | JArr l => all3 (map (rec base s) l)
        | _ => Some true
        end
    | KOneOf l => one3 (map (fun s => rec base s j) l)
    | KAnyOf l => any3 (map (fun s => rec base s j) l)
    | KAllOf l => all3 (map (fun s => rec base s j) l)
    | KConst c => Some (json_eqb c j)
    | KEnum l => Some (existsb (fun c => json_eqb c j) l)
    | KPattern p => match j with JStr s => Some (pattern_matches p s) | _ => Some true end
    | KFormat f => match j with JStr s => Some (format_ok f s) | _ => Some true end
    | KMinLength n => match j with JStr s => Some (n <=? cp_len s) | _ => Some true end
    | KMaxLength n => match j with JStr s => Some (cp_len s <=? n) | _ => Some true end
    | KId _ => Some true
    | KDefs _ => Some true
    | KAnnot _ => Some true
    | KMalformed _ => None
    end.
End Eval.

Fixpoint validate (e : env) (fuel : nat) (base : bytes) (s : schema) (j : json) : option bool :=
  match fuel with
  | O => None
  | S f =>
      match s with
      | SBool b => Some b
      | SKw ks => all3 (map (fun k => eval_kw e (validate e f) base ks k j) ks)
      end
  end.

(* validation of a document against a published schema id *)
Definition validate_id (e : env) (fuel : nat) (id : bytes) (j : json) : option bool :=
  match lookup_ref e (id, []) with
  | Some s => validate e fuel id s j
  | None => None
  end.

(* ---- specification ---- *)
Section Spec.
  Variable e : env.

  Inductive conforms : bytes -> schema -> json -> Prop :=
  | C_true base j : conforms base (SBool true) j
  | C_kws base ks j :
      (forall k, In k ks -> conforms_kw base ks k j) -> conforms base (SKw ks) j

  with violates : bytes -> schema -> json -> Prop :=
  | X_false base j : violates base (SBool false) j
  | X_kws base ks k j :
      In k ks -> violates_kw base ks k j -> violates base (SKw ks) j

  with conforms_kw : bytes -> list keyword -> keyword -> json -> Prop :=
  | C_type base ctx ts j t :
      In t ts -> has_type j t = true -> conforms_kw base ctx (KType ts) j
  | C_ref base ctx r j s :
      lookup_ref e (resolve base r) = Some s -> conforms (fst (resolve base r)) s j ->
      conforms_kw base ctx (KRef r) j
  | C_properties base ctx ps j :
      (forall o k v s, j = JObj o -> In (k, v) o -> lookup k ps = Some s -> conforms base s v) ->
      conforms_kw base ctx (KProperties ps) j
  | C_patternProperties base ctx pps j :
      (forall o k v p s, j = JObj o -> In (k, v) o -> In (p, s) pps -> pattern_lang p k ->
                         conforms base s v) ->
      conforms_kw base ctx (KPatternProperties pps) j
  | C_additionalProperties base ctx s j :
      (forall o k v, j = JObj o -> In (k, v) o -> covered ctx k = false -> conforms base s v) ->
      conforms_kw base ctx (KAdditionalProperties s) j
  | C_required base ctx names j :
      (forall o n, j = JObj o -> In n names -> has_key n o = true) ->
      conforms_kw base ctx (KRequired names) j
  | C_items base ctx s j :
      (forall l x, j = JArr l -> In x l -> conforms base s x) ->
      conforms_kw base ctx (KItems s) j
  | C_oneOf base ctx l1 s l2 j :
      conforms base s j -> (forall s', In s' (l1 ++ l2) -> violates base s' j) ->
      conforms_kw base ctx (KOneOf (l1 ++ s :: l2)) j
  | C_anyOf base ctx l s j :
      In s l -> conforms base s j -> conforms_kw base ctx (KAnyOf l) j
  | C_allOf base ctx l j :
      (forall s, In s l -> conforms base s j) -> conforms_kw base ctx (KAllOf l) j
  | C_const base ctx c j :
      json_eqb c j = true -> conforms_kw base ctx (KConst c) j
  | C_enum base ctx l c j :
      In c l -> json_eqb c j = true -> conforms_kw base ctx (KEnum l) j
  | C_pattern base ctx p j :
      (forall s, j = JStr s -> pattern_lang p s) -> conforms_kw base ctx (KPattern p) j
  | C_format base ctx f j :
      (forall s, j = JStr s -> format_ok f s = true) -> conforms_kw base ctx (KFormat f) j
  | C_minLength base ctx n j :
      (forall s, j = JStr s -> n <= cp_len s) -> conforms_kw base ctx (KMinLength n) j
  | C_maxLength base ctx n j :
      (forall s, j = JStr s -> cp_len s <= n) -> conforms_kw base ctx (KMaxLength n) j
  | C_id base ctx i j : conforms_kw base ctx (KId i) j
  | C_defs base ctx ds j : conforms_kw base ctx (KDefs ds) j
  | C_annot base ctx n j : conforms_kw base ctx (KAnnot n) j

  with violates_kw : bytes -> list keyword -> keyword -> json -> Prop :=
  | X_type base ctx ts j :
      (forall t, In t ts -> has_type j t = false) -> violates_kw base ctx (KType ts) j
  | X_ref base ctx r j s :
      lookup_ref e (resolve base r) = Some s -> violates (fst (resolve base r)) s j ->
      violates_kw base ctx (KRef r) j
  | X_properties base ctx ps o k v s :
      In (k, v) o -> lookup k ps = Some s -> violates base s v ->
      violates_kw base ctx (KProperties ps) (JObj o)
  | X_patternProperties base ctx pps o k v p s :
      In (k, v) o -> In (p, s) pps -> pattern_lang p k -> violates base s v ->
      violates_kw base ctx (KPatternProperties pps) (JObj o)
  | X_additionalProperties base ctx s o k v :
      In (k, v) o -> covered ctx k = false -> violates base s v ->
      violates_kw base ctx (KAdditionalProperties s) (JObj o)
  | X_required base ctx names o n :
      In n names -> has_key n o = false -> violates_kw base ctx (KRequired names) (JObj o)
  | X_items base ctx s l x :
      In x l -> violates base s x -> violates_kw base ctx (KItems s) (JArr l)
  | X_oneOf_none base ctx l j :
      (forall s, In s l -> violates base s j) -> violates_kw base ctx (KOneOf l) j
  | X_oneOf_two base ctx l1 s1 l2 s2 l3 j :
      conforms base s1 j -> conforms base s2 j ->
      violates_kw base ctx (KOneOf (l1 ++ s1 :: l2 ++ s2 :: l3)) j
  | X_anyOf base ctx l j :
      (forall s, In s l -> violates base s j) -> violates_kw base ctx (KAnyOf l) j
  | X_allOf base ctx l s j :
      In s l -> violates base s j -> violates_kw base ctx (KAllOf l) j
  | X_const base ctx c j :
      json_eqb c j = false -> violates_kw base ctx (KConst c) j
  | X_enum base ctx l j :
      (forall c, In c l -> json_eqb c j = false) -> violates_kw base ctx (KEnum l) j
  | X_pattern base ctx p s :
      ~ pattern_lang p s -> violates_kw base ctx (KPattern p) (JStr s)
  | X_format base ctx f s :
      format_ok f s = false -> violates_kw base ctx (KFormat f) (JStr s)
  | X_minLength base ctx n s :
      cp_len s < n -> violates_kw base ctx (KMinLength n) (JStr s)
  | X_maxLength base ctx n s :
      n < cp_len s -> violates_kw base ctx (KMaxLength n) (JStr s).
End Spec.

Scheme conforms_mind := Minimality for conforms Sort Prop
  with violates_mind := Minimality for violates Sort Prop
  with conforms_kw_mind := Minimality for conforms_kw Sort Prop
  with violates_kw_mind := Minimality for violates_kw Sort Prop.
Combined Scheme verdict_mutind from conforms_mind, violates_mind, conforms_kw_mind, violates_kw_mind.

(* a document conforms to the published schema with the given id *)
Definition conforms_id (e : env) (id : bytes) (j : json) : Prop :=
  exists s, lookup_ref e (id, []) = Some s /\ conforms e id s j.
