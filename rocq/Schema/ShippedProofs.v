(* Lifting of the boolean checkers that Props/C11.v evaluates on the generated data
   (Gen/Schemas.v, Gen/SchemasJson.v) to the propositions they decide. *)
From Coq Require Import List ZArith Strings.Byte String Bool Lia.
From Verif Require Import Base.Wire Schema.Regex Schema.Schema Schema.Validate Schema.WellFormed
  Schema.WellFormedProofs.
Import ListNotations.
Open Scope Z_scope.

Lemma eqb_bytes_eq a : forall b, eqb_bytes a b = true -> a = b.
Proof.
  induction a as [|x a IH]; intros [|y b] H; simpl in H; try discriminate; auto.
  apply andb_true_iff in H as [H1 H2]. apply Byte.byte_dec_bl in H1. f_equal; auto.
Qed.

Lemma mem_bytes_in s l : mem_bytes s l = true -> In s l.
Proof.
  unfold mem_bytes. intro H. apply existsb_exists in H as (x & Hx & E).
  apply eqb_bytes_eq in E. now subst.
Qed.

Lemma lookup_in {A} k (l : list (bytes * A)) v : lookup k l = Some v -> In (k, v) l.
Proof.
  induction l as [|[k' v'] l IH]; simpl; [discriminate|].
  destruct (eqb_bytes k' k) eqn:E.
  - intro H. injection H as ->. apply eqb_bytes_eq in E. subst. now left.
  - intro H. right. auto.
Qed.

(* ---- well-formedness of a set of files, up to recorded exceptions ---- *)
Definition no_marker (known : list (bytes * bytes)) : bool :=
  forallb (fun p => negb (eqb_bytes (snd p) malformed_marker)) known.

Definition files_wellformed_except (known : list (bytes * bytes)) (files : list (bytes * json)) : Prop :=
  forall path j, In (path, j) files -> wf_schema (excused known path) j.

Lemma excused_marker known path : no_marker known = true -> excused known path malformed_marker = false.
Proof.
  unfold no_marker, excused. intro H. apply not_true_is_false. intro E.
  apply existsb_exists in E as (p & Hp & E). rewrite forallb_forall in H. specialize (H p Hp).
  apply andb_true_iff in E as [_ E]. rewrite E in H. discriminate.
Qed.

Lemma wf_files_except_sound known files :
  no_marker known = true -> wf_files_except known files = true -> files_wellformed_except known files.
Proof.
  intros Hn H path j Hin. unfold wf_files_except in H. rewrite forallb_forall in H.
  specialize (H _ Hin). unfold wf_file_except in H. simpl in H. rewrite forallb_forall in H.
  apply malformed_sound; auto. now apply excused_marker.
Qed.

(* every recorded exception is a real defect of the named file *)
Definition exceptions_are_real (known : list (bytes * bytes)) (files : list (bytes * json)) : Prop :=
  forall path k, In (path, k) known ->
    exists j, In (path, j) files /\ In k (malformed j) /\ ~ wf_schema no_excuse j.

Lemma known_are_real_sound known files :
  known_are_real known files = true -> exceptions_are_real known files.
Proof.
  unfold known_are_real. intros H path k Hin. rewrite forallb_forall in H.
  specialize (H _ Hin). simpl in H. destruct (lookup path files) as [j|] eqn:El; [|discriminate].
  exists j. apply lookup_in in El. apply mem_bytes_in in H. repeat split; auto.
  intro Hw. exact (malformed_complete j k Hw H).
Qed.

(* ---- references ---- *)
Definition refs_resolve (files : list (bytes * schema)) : Prop :=
  forall path s, In (path, s) files ->
    exists ks base, s = SKw ks /\ kw_id ks = Some base /\
      forall r, In r (refs_of s) -> exists t, lookup_ref (env_of_files files) (resolve base r) = Some t.

Lemma filter_nil {A} (f : A -> bool) l : filter f l = [] -> forall x, In x l -> f x = false.
Proof.
  induction l as [|a l IH]; simpl; intros H x []; subst.
  - destruct (f x); [discriminate | reflexivity].
  - destruct (f a); [discriminate | auto].
Qed.

Lemma refs_resolve_in_sound files : refs_resolve_in files = true -> refs_resolve files.
Proof.
  unfold refs_resolve_in. intros H path s Hin. rewrite forallb_forall in H. specialize (H _ Hin).
  simpl in H. apply andb_true_iff in H as [H1 H2].
  unfold has_id in H1. destruct s as [b | ks]; [discriminate|].
  unfold unresolved_refs in H2. destruct (kw_id ks) as [base|] eqn:Ei; [|discriminate].
  exists ks, base. repeat split; auto. intros r Hr.
  destruct (filter _ (refs_of (SKw ks))) eqn:Ef; [|discriminate].
  pose proof (filter_nil _ _ Ef r Hr) as G. simpl in G.
  destruct (lookup_ref (env_of_files files) (resolve base r)) as [t|]; [eauto | discriminate].
Qed.

(* ---- ids ---- *)
Definition gobl_base : bytes := bs "https://gobl.org/draft-0/".
Definition json_suffix : bytes := bs ".json".

Definition id_matches_path (f : bytes * schema) : bool :=
  match snd f with
  | SKw ks => match kw_id ks with
              | Some i => eqb_bytes (i ++ json_suffix) (gobl_base ++ fst f)
              | None => false
              end
  | SBool _ => false
  end.

Definition ids_match_paths (files : list (bytes * schema)) : Prop :=
  forall path s, In (path, s) files ->
    exists ks i, s = SKw ks /\ kw_id ks = Some i /\ i ++ json_suffix = gobl_base ++ path.

Lemma ids_match_paths_sound files : forallb id_matches_path files = true -> ids_match_paths files.
Proof.
  intros H path s Hin. rewrite forallb_forall in H. specialize (H _ Hin).
  unfold id_matches_path in H. simpl in H. destruct s as [b | ks]; [discriminate|].
  destruct (kw_id ks) as [i|] eqn:Ei; [|discriminate].
  exists ks, i. repeat split; auto. now apply eqb_bytes_eq.
Qed.

(* ---- patterns ---- *)
Definition patterns_supported (files : list (bytes * schema)) : Prop :=
  forall path s p, In (path, s) files -> In p (patterns_of s) -> re_scan (p_src p) true false true = true.

Definition patterns_supported_b (files : list (bytes * schema)) : bool :=
  forallb (fun f => forallb (fun p => re_scan (p_src p) true false true) (patterns_of (snd f))) files.

Lemma patterns_supported_sound files : patterns_supported_b files = true -> patterns_supported files.
Proof.
  unfold patterns_supported_b. intros H path s p Hin Hp. rewrite forallb_forall in H.
  specialize (H _ Hin). simpl in H. rewrite forallb_forall in H. auto.
Qed.

(* ---- the translated schemas against the raw files ---- *)
Definition translation_agrees (raw : list (bytes * json)) (files : list (bytes * schema)) : Prop :=
  Forall2 (fun r f => fst r = fst f /\
                      raw_patterns (snd r) = map p_src (patterns_of (snd f)) /\
                      raw_refs (snd r) = refs_of (snd f)) raw files.

Lemma list_bytes_eqb_eq a : forall b, list_bytes_eqb a b = true -> a = b.
Proof.
  induction a as [|x a IH]; intros [|y b] H; simpl in H; try discriminate; auto.
  apply andb_true_iff in H as [H1 H2]. apply eqb_bytes_eq in H1. f_equal; auto.
Qed.

Lemma translation_faithful_sound raw : forall files,
  translation_faithful raw files = true -> translation_agrees raw files.
Proof.
  induction raw as [|r raw IH]; intros [|f files] H; simpl in H; try discriminate; constructor.
  - apply andb_true_iff in H as [H _]. unfold file_faithful in H.
    apply andb_true_iff in H as [H H3]. apply andb_true_iff in H as [H1 H2].
    repeat split; [now apply eqb_bytes_eq | now apply list_bytes_eqb_eq | now apply list_bytes_eqb_eq].
  - apply andb_true_iff in H as [_ H]. now apply IH.
Qed.

(* ---- leaf rules: what a named definition of a shipped file says ---- *)
Definition def_of (files : list (bytes * schema)) (path name : bytes) : option schema :=
  match lookup path files with
  | Some (SKw ks) => lookup name (kw_defs ks)
  | _ => None
  end.

Fixpoint kws_pattern (ks : list keyword) : option pattern :=
  match ks with [] => None | KPattern p :: _ => Some p | _ :: r => kws_pattern r end.
Fixpoint kws_min_length (ks : list keyword) : option Z :=
  match ks with [] => None | KMinLength n :: _ => Some n | _ :: r => kws_min_length r end.
Fixpoint kws_max_length (ks : list keyword) : option Z :=
  match ks with [] => None | KMaxLength n :: _ => Some n | _ :: r => kws_max_length r end.

(* (pattern text, minLength, maxLength) of a string definition *)
Definition string_rule (files : list (bytes * schema)) (path name : bytes) : option (bytes * option Z * option Z) :=
  match def_of files path name with
  | Some (SKw ks) => match kws_pattern ks with
                     | Some p => Some (p_src p, kws_min_length ks, kws_max_length ks)
                     | None => None
                     end
  | _ => None
  end.

(* the pattern of a string definition *)
Definition def_pattern (files : list (bytes * schema)) (path name : bytes) : option pattern :=
  match def_of files path name with
  | Some (SKw ks) => kws_pattern ks
  | _ => None
  end.
