(* JSON values and the JSON Schema (draft 2020-12) keyword subset that the schema files shipped in
   data/schemas use (model file: definitions only).

   Keyword survey of data/schemas/**/*.json (68 files; occurrences): title 1679, const 1013,
   description 834, $ref 550 (107 local "#/$defs/X", 443 absolute ids, none with a fragment),
   type 403 (always a single name: string 165, array 127, object 89, integer 10, boolean 10,
   number 2), items 127, properties 84, $schema 68, $id 68, $defs 68, required 64, calculated 36,
   format 33 (uuid 27, uri 5, date 1), oneOf 19, pattern 14 (7 distinct texts),
   recommended 7, anyOf 6, examples 5, patternProperties 4 (2 distinct texts), contentEncoding 2,
   maxLength 2, minLength 2, enum 1 (ill-typed: the recorded finding).  No additionalProperties,
   allOf, not, if/then/else, minimum, ... and no boolean schemas occur.
   The translator harness/gen_schemas.go repeats this survey on every run and FAILS on any
   keyword, format or regular-expression construct outside the following:
     applicators / assertions modelled:  $ref, type, properties, patternProperties, required, items,
       oneOf, anyOf, const, enum, pattern, format (date, uuid checked; uri annotation), minLength,
       maxLength;  additionalProperties, allOf and boolean schemas are modelled although no
       shipped file uses them
     structure:   $id (document root only), $defs (document root only)
     annotations (no effect on validation): $schema, title, description, examples, default,
       $comment, contentEncoding, contentMediaType, deprecated, readOnly, writeOnly, and GOBL's
       own "calculated", "recommended"
     a modelled keyword whose value has the wrong JSON type becomes KMalformed: it has no defined
       meaning, the validator's verdict is undetermined wherever it would be needed
   Numbers are decimal numerals mantissa * 10^exponent (exact; no floats). *)
From Coq Require Import List ZArith Strings.Byte String Bool.
From Verif Require Import Base.Wire Schema.Regex.
Import ListNotations.
Open Scope Z_scope.

Inductive json :=
| JNull
| JBool (b : bool)
| JNum (m e : Z)                      (* m * 10^e *)
| JStr (s : bytes)                    (* UTF-8 *)
| JArr (l : list json)
| JObj (l : list (bytes * json)).     (* members in document order *)

Inductive jtype := TNull | TBoolean | TObject | TArray | TNumber | TInteger | TString.

Inductive format :=
| FDate                  (* RFC 3339 full-date, calendar-valid *)
| FUuid                  (* RFC 4122 8-4-4-4-12 hex *)
| FAnnot (name : bytes). (* formats that are annotations only: uri *)

Inductive schema :=
| SBool (b : bool)
| SKw (ks : list keyword)             (* a schema object: the keywords in file order *)
with keyword :=
| KType (ts : list jtype)
| KRef (r : bytes)                    (* reference text as published: "#/$defs/X" or an absolute id *)
| KProperties (ps : list (bytes * schema))
| KPatternProperties (ps : list (pattern * schema))
| KAdditionalProperties (s : schema)
| KRequired (names : list bytes)
| KItems (s : schema)
| KOneOf (l : list schema)
| KAnyOf (l : list schema)
| KAllOf (l : list schema)
| KConst (c : json)
| KEnum (l : list json)
| KPattern (p : pattern)
| KFormat (f : format)
| KMinLength (n : Z)
| KMaxLength (n : Z)
| KId (id : bytes)
| KDefs (ds : list (bytes * schema))
| KAnnot (name : bytes)
| KMalformed (name : bytes).         (* a modelled keyword whose value has the wrong JSON type: no defined meaning *)

(* ---- generic helpers on association lists ---- *)
Fixpoint lookup {A} (k : bytes) (l : list (bytes * A)) : option A :=
  match l with
  | [] => None
  | (k', v) :: r => if eqb_bytes k' k then Some v else lookup k r
  end.

Definition has_key {A} (k : bytes) (l : list (bytes * A)) : bool :=
  match lookup k l with Some _ => true | None => false end.

(* ---- JSON equality (draft 2020-12 section 4.2.2): numbers by value, objects as unordered maps ---- *)
Definition num_eqb (m1 e1 m2 e2 : Z) : bool :=
  let e := Z.min e1 e2 in (m1 * 10 ^ (e1 - e) =? m2 * 10 ^ (e2 - e)).

Fixpoint json_eqb (a b : json) {struct a} : bool :=
  match a, b with
  | JNull, JNull => true
  | JBool x, JBool y => Bool.eqb x y
  | JNum m1 e1, JNum m2 e2 => num_eqb m1 e1 m2 e2
  | JStr s, JStr t => eqb_bytes s t
  | JArr la, JArr lb =>
      (fix go (la lb : list json) : bool :=
         match la, lb with
         | [], [] => true
         | x :: xs, y :: ys => json_eqb x y && go xs ys
         | _, _ => false
         end) la lb
  | JObj la, JObj lb =>
      (Nat.eqb (List.length la) (List.length lb)) &&
      (fix go (la : list (bytes * json)) : bool :=
         match la with
         | [] => true
         | (k, v) :: r => match lookup k lb with
                          | Some w => json_eqb v w && go r
                          | None => false
                          end
         end) la
  | _, _ => false
  end.

(* ---- instance types ---- *)
Definition is_int_num (m e : Z) : bool :=
  if 0 <=? e then true else (m mod 10 ^ (- e) =? 0).

Definition has_type (j : json) (t : jtype) : bool :=
  match t, j with
  | TNull, JNull => true
  | TBoolean, JBool _ => true
  | TObject, JObj _ => true
  | TArray, JArr _ => true
  | TNumber, JNum _ _ => true
  | TInteger, JNum m e => is_int_num m e
  | TString, JStr _ => true
  | _, _ => false
  end.

(* ---- strings ---- *)
(* length in code points: bytes that are not UTF-8 continuation bytes *)
Fixpoint cp_len (s : bytes) : Z :=
  match s with
  | [] => 0
  | b :: r => (if (128 <=? bZ b) && (bZ b <=? 191) then 0 else 1) + cp_len r
  end.

Definition dash (b : byte) : bool := bZ b =? 45.
Definition dval (b : byte) : Z := bZ b - 48.

Definition is_leap (y : Z) : bool :=
  ((y mod 4 =? 0) && negb (y mod 100 =? 0)) || (y mod 400 =? 0).
Definition days_in_month (y m : Z) : Z :=
  if m =? 2 then (if is_leap y then 29 else 28)
  else if (m =? 4) || (m =? 6) || (m =? 9) || (m =? 11) then 30 else 31.

(* "date": RFC 3339 full-date - exactly YYYY-MM-DD with ASCII digits and a real (proleptic
   Gregorian) calendar day.  Year 0000 is allowed by RFC 3339; python's datetime cannot represent
   it, so python jsonschema rejects it - the only divergence from the independent reading. *)
Definition format_date (s : bytes) : bool :=
  match s with
  | [y1; y2; y3; y4; s1; m1; m2; s2; d1; d2] =>
      forallb is_digit [y1; y2; y3; y4; m1; m2; d1; d2] && dash s1 && dash s2 &&
      (let y := dval y1 * 1000 + dval y2 * 100 + dval y3 * 10 + dval y4 in
       let m := dval m1 * 10 + dval m2 in
       let d := dval d1 * 10 + dval d2 in
       (1 <=? m) && (m <=? 12) && (1 <=? d) && (d <=? days_in_month y m))
  | _ => false
  end.

Definition is_hex (b : byte) : bool := match hexval b with Some _ => true | None => false end.

Fixpoint uuid_from (i : Z) (s : bytes) : bool :=
  match s with
  | [] => i =? 36
  | b :: r => (if (i =? 8) || (i =? 13) || (i =? 18) || (i =? 23) then dash b else is_hex b)
              && uuid_from (i + 1) r
  end.
(* "uuid": 8-4-4-4-12 hexadecimal digits *)
Definition format_uuid (s : bytes) : bool := uuid_from 0 s.

Definition format_ok (f : format) (s : bytes) : bool :=
  match f with
  | FDate => format_date s
  | FUuid => format_uuid s
  | FAnnot _ => true
  end.

(* ---- references ----
   A reference is resolved against the id of the document it occurs in: "#frag" stays in the
   document, anything else names another document (with an optional fragment).  Only document
   roots carry $id (the translator refuses $id elsewhere), so the base changes exactly when a
   reference leaves the document. *)
Fixpoint split_hash (r : bytes) : bytes * bytes :=
  match r with
  | [] => ([], [])
  | c :: t => if bZ c =? 35 then ([], t) else let (a, b) := split_hash t in (c :: a, b)
  end.

Definition resolve (base r : bytes) : bytes * bytes :=
  let (d, f) := split_hash r in (match d with [] => base | _ => d end, f).

(* environment: (document id, fragment, schema); fragment "" is the document root,
   "/$defs/Name" a definition *)
Definition env := list (bytes * bytes * schema).

Fixpoint lookup_ref (e : env) (t : bytes * bytes) : option schema :=
  match e with
  | [] => None
  | (d, f, s) :: r => if eqb_bytes f (snd t) && eqb_bytes d (fst t) then Some s else lookup_ref r t
  end.

Fixpoint kw_id (ks : list keyword) : option bytes :=
  match ks with [] => None | KId i :: _ => Some i | _ :: r => kw_id r end.
Fixpoint kw_defs (ks : list keyword) : list (bytes * schema) :=
  match ks with [] => [] | KDefs d :: r => d ++ kw_defs r | _ :: r => kw_defs r end.

Definition defs_prefix : bytes := bs "/$defs/"%string.

Definition env_of_file (s : schema) : env :=
  match s with
  | SKw ks => match kw_id ks with
              | Some i => (i, [], s) :: map (fun d => (i, defs_prefix ++ fst d, snd d)) (kw_defs ks)
              | None => []
              end
  | SBool _ => []
  end.

Definition env_of_files (files : list (bytes * schema)) : env :=
  flat_map (fun f => env_of_file (snd f)) files.

(* all reference texts occurring in a schema, with nesting *)
Fixpoint refs_of (s : schema) : list bytes :=
  match s with
  | SBool _ => []
  | SKw ks => flat_map refs_of_kw ks
  end
with refs_of_kw (k : keyword) : list bytes :=
  match k with
  | KRef r => [r]
  | KProperties ps => flat_map (fun p => refs_of (snd p)) ps
  | KPatternProperties ps => flat_map (fun p => refs_of (snd p)) ps
  | KAdditionalProperties s => refs_of s
  | KItems s => refs_of s
  | KOneOf l => flat_map refs_of l
  | KAnyOf l => flat_map refs_of l
  | KAllOf l => flat_map refs_of l
  | KDefs ds => flat_map (fun p => refs_of (snd p)) ds
  | _ => []
  end.

(* all patterns occurring in a schema *)
Fixpoint patterns_of (s : schema) : list pattern :=
  match s with
  | SBool _ => []
  | SKw ks => flat_map patterns_of_kw ks
  end
with patterns_of_kw (k : keyword) : list pattern :=
  match k with
  | KPattern p => [p]
  | KProperties ps => flat_map (fun p => patterns_of (snd p)) ps
  | KPatternProperties ps => flat_map (fun p => fst p :: patterns_of (snd p)) ps
  | KAdditionalProperties s => patterns_of s
  | KItems s => patterns_of s
  | KOneOf l => flat_map patterns_of l
  | KAnyOf l => flat_map patterns_of l
  | KAllOf l => flat_map patterns_of l
  | KDefs ds => flat_map (fun p => patterns_of (snd p)) ds
  | _ => []
  end.
