(* C11 - what the data theorems of the structural checker (Schema/ShapeShippedDataProofs.v) mean for the trees
   the typed-marshalling model writes. *)
From Coq Require Import String.
From Coq Require Import List ZArith Strings.Byte Bool.
From Verif Require Import Base.Wire Json.JsonProofs Schema.Regex Schema.Schema Schema.Validate
  Marshal.Typed Marshal.Wf Marshal.Env Marshal.TypedProofs Marshal.EnvProofs
  Schema.Shape Schema.ShapeProofs Schema.ShapeShipped Schema.ShapeShippedDataProofs Gen.GoTypes Gen.Schemas.
Import ListNotations.

Lemma excepted_In l id : excepted l id = true -> In id l.
Proof.
  unfold excepted. rewrite existsb_exists. intros (x & Hin & E). apply eqb_bytes_eq in E. now subst.
Qed.

Lemma In_excepted l id : In id l -> excepted l id = true.
Proof.
  intros H. unfold excepted. apply existsb_exists. exists id. split; auto. now apply eqb_bytes_eq.
Qed.

Lemma go_shape_conforms_spec strict except id t :
  go_shape_conforms strict except = true -> assoc id go_schemas = Some t -> ~ In id except ->
  shape_conforms_id strict go_types shipped_env shape_fuel id t = true.
Proof.
  unfold go_shape_conforms. rewrite forallb_forall. intros H A N. apply assoc_In in A.
  specialize (H _ A). cbn [fst snd] in H. apply orb_true_iff in H. destruct H as [H|H]; auto.
  apply excepted_In in H. contradiction.
Qed.

Lemma written_shape strict except id j v :
  go_shape_conforms strict except = true -> ~ In id except ->
  reenc_schema id j = Ok v -> v <> Typed.TNull -> null_clean strict v = true ->
  shaped_id shipped_env id v.
Proof.
  intros G N R Nv C. unfold reenc_schema in R.
  destruct (assoc id go_schemas) as [t|] eqn:A; [|discriminate].
  assert (Wt : ty_wfb t = true) by (eapply (env_wfb_schemas go_env); [exact go_env_wf | exact A]).
  exact (reenc_shaped strict go_env shipped_env shape_fuel id t (fuel_for j) j v go_env_wf Wt
           (go_shape_conforms_spec _ _ _ _ G A N) R Nv C).
Qed.

Lemma written_documents_shaped_partial id j v :
  ~ In id shape_unchecked ->
  reenc_schema id j = Ok v -> v <> Typed.TNull -> null_clean false v = true ->
  shaped_id shipped_env id v.
Proof. apply written_shape. exact go_shapes_conform_partial. Qed.

Lemma written_documents_shaped_strict_partial id j v :
  ~ In id (shape_unchecked ++ shape_null_members) ->
  reenc_schema id j = Ok v -> v <> Typed.TNull -> null_clean true v = true ->
  shaped_id shipped_env id v.
Proof. apply written_shape. exact go_shapes_conform_strict_partial. Qed.

(* non-vacuity *)
Lemma msg_example :
  reenc_schema msg_id msg_in = Ok msg_out /\ ~ In msg_id shape_unchecked /\
  msg_out <> Typed.TNull /\ null_clean false msg_out = true /\
  shape_ok_id shipped_env 20 msg_id msg_out = true /\
  shape_ok_id shipped_env 20 msg_id msg_undeclared = false /\
  shape_ok_id shipped_env 20 msg_id msg_illtyped = false.
Proof.
  split; [vm_compute; reflexivity|]. split.
  { intros H. apply In_excepted in H. vm_compute in H. discriminate H. }
  split; [discriminate|]. repeat split; vm_compute; reflexivity.
Qed.
