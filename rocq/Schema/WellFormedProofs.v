(* The boolean well-formedness report of Schema/WellFormed.v is exact:
     wf_schema ex j  <->  every keyword listed by (malformed j) is excused by ex
   and its lifting to the lists of shipped files used by Props/C11.v. *)
From Coq Require Import List ZArith Strings.Byte String Bool Lia PeanoNat.
From Verif Require Import Base.Wire Schema.Regex Schema.Schema Schema.WellFormed.
Import ListNotations.
Open Scope nat_scope.

Fixpoint json_size (j : json) : nat :=
  match j with
  | JArr l => S (list_sum (map json_size l))
  | JObj ms => S (list_sum (map (fun p => json_size (snd p)) ms))
  | _ => 1
  end.

Lemma list_sum_in {A} (f : A -> nat) l x : In x l -> f x <= list_sum (map f l).
Proof.
  induction l as [|a l IH]; intros []; simpl.
  - subst. lia.
  - specialize (IH H). lia.
Qed.

Lemma size_arr l x : In x l -> json_size x < json_size (JArr l).
Proof. intro H. simpl. pose proof (list_sum_in json_size l x H). lia. Qed.

Lemma size_obj ms k v : In (k, v) ms -> json_size v < json_size (JObj ms).
Proof.
  intro H. simpl. pose proof (list_sum_in (fun p : bytes * json => json_size (snd p)) ms (k, v) H).
  simpl in H0. lia.
Qed.

Lemma in_flat_map_intro {A B} (f : A -> list B) l x y : In x l -> In y (f x) -> In y (flat_map f l).
Proof. intros. apply in_flat_map. eauto. Qed.

Section WF.
  Variable ex : bytes -> bool.

  (* the report for one sub-schema position below keyword k *)
  Definition sub_report (k : bytes) (v : json) : list bytes :=
    match v with JBool _ => [] | JObj _ => malformed v | _ => [k] end.

  Definition member_report (kv : bytes * json) : list bytes :=
    let k := fst kv in
    match lookup k kw_table with
    | None => [k]
    | Some CSchema => sub_report k (snd kv)
    | Some CSchemaObj => match snd kv with
                         | JObj ps => flat_map (fun p => sub_report k (snd p)) ps
                         | _ => [k]
                         end
    | Some CSchemaArr => match snd kv with
                         | JArr (x :: l) => flat_map (sub_report k) (x :: l)
                         | _ => [k]
                         end
    | Some c => if flat_ok c (snd kv) then [] else [k]
    end.

  Lemma malformed_obj ms : malformed (JObj ms) = flat_map member_report ms.
  Proof. reflexivity. Qed.

  Lemma sub_sound n k v :
    (forall j, json_size j <= n -> (forall k, In k (malformed j) -> ex k = true) ->
               match j with JBool _ | JObj _ => wf_schema ex j | _ => True end) ->
    json_size v <= n ->
    (forall k', In k' (sub_report k v) -> ex k' = true) ->
    ex k = true \/ wf_schema ex v.
  Proof.
    intros IH Hs H. destruct v; simpl in H; try (left; apply H; now left).
    - right. constructor.
    - right. apply (IH (JObj l)); auto.
  Qed.

  Lemma malformed_sound_n n : forall j,
    json_size j <= n -> (forall k, In k (malformed j) -> ex k = true) ->
    match j with JBool _ | JObj _ => wf_schema ex j | _ => True end.
  Proof.
    induction n as [|n IH]; intros j Hs H.
    - destruct j; simpl in Hs; lia.
    - destruct j; auto; [constructor|].
      apply WF_obj. intros k v Hin.
      assert (Hv : json_size v <= n) by (pose proof (size_obj _ _ _ Hin); lia).
      assert (Hm : forall k', In k' (member_report (k, v)) -> ex k' = true).
      { intros k' Hk'. apply H. rewrite malformed_obj. eapply in_flat_map_intro; eauto. }
      unfold member_report in Hm. cbn [fst snd] in Hm.
      destruct (lookup k kw_table) as [c|] eqn:El.
      2:{ apply WM_excused. apply Hm. now left. }
      destruct c;
        try (destruct (flat_ok _ v) eqn:Ef;
             [eapply WM_flat; eauto | apply WM_excused; apply Hm; now left]).
      + (* CSchema *)
        destruct (sub_sound n k v IH Hv Hm) as [He | Hw]; [now apply WM_excused | now apply WM_schema].
      + (* CSchemaObj *)
        destruct v; try (apply WM_excused; apply Hm; now left).
        destruct (ex k) eqn:Ek; [now apply WM_excused|].
        apply WM_schema_obj; auto. intros nm s Hs'.
        assert (Hsz : json_size s <= n) by (pose proof (size_obj _ _ _ Hs'); lia).
        destruct (sub_sound n k s IH Hsz) as [He | Hw]; auto; [|congruence].
        intros k' Hk'. apply Hm. eapply in_flat_map_intro; eauto.
      + (* CSchemaArr *)
        destruct v; try (apply WM_excused; apply Hm; now left).
        destruct l0 as [|x l0]; [apply WM_excused; apply Hm; now left|].
        destruct (ex k) eqn:Ek; [now apply WM_excused|].
        apply WM_schema_arr; auto. intros s Hs'.
        assert (Hsz : json_size s <= n) by (pose proof (size_arr _ _ Hs'); lia).
        destruct (sub_sound n k s IH Hsz) as [He | Hw]; auto; [|congruence].
        intros k' Hk'. apply Hm. eapply in_flat_map_intro; eauto.
  Qed.

  Theorem malformed_sound j :
    ex malformed_marker = false ->
    (forall k, In k (malformed j) -> ex k = true) -> wf_schema ex j.
  Proof.
    intros Hm H. pose proof (malformed_sound_n (json_size j) j (le_n _) H) as G.
    destruct j; auto; specialize (H malformed_marker (or_introl eq_refl)); congruence.
  Qed.

End WF.

(* without excuses the report is also complete: a well-formed schema has an empty report *)
Definition no_excuse : bytes -> bool := fun _ => false.

Lemma sub_complete n k v :
  (forall j, json_size j <= n -> wf_schema no_excuse j -> forall k, In k (malformed j) -> False) ->
  json_size v <= n -> wf_schema no_excuse v ->
  forall k', In k' (sub_report k v) -> False.
Proof.
  intros IH Hs Hw k' Hk'. destruct v; simpl in Hk'; try (inversion Hw; fail).
  - destruct Hk'.
  - eapply IH; eauto.
Qed.

Lemma malformed_complete_n n : forall j,
  json_size j <= n -> wf_schema no_excuse j -> forall k, In k (malformed j) -> False.
Proof.
  induction n as [|n IH]; intros j Hs Hw k' Hk'.
  - destruct j; simpl in Hs; lia.
  - inversion Hw as [b | ms Hmem]; subst; [destruct Hk'|].
    rewrite malformed_obj in Hk'. apply in_flat_map in Hk' as ([k v] & Hin & Hk').
    assert (Hv : json_size v <= n) by (pose proof (size_obj _ _ _ Hin); lia).
    specialize (Hmem k v Hin). unfold member_report in Hk'. cbn [fst snd] in Hk'.
    inversion Hmem as [k0 v0 He | k0 c v0 Hl Hc Hf | k0 v0 Hl Hwv | k0 ps Hl Hall | k0 x l Hl Hall]; subst.
    + discriminate He.
    + rewrite Hl in Hk'. destruct c; simpl in Hc; try discriminate; rewrite Hf in Hk'; destruct Hk'.
    + rewrite Hl in Hk'. eapply sub_complete; eauto.
    + rewrite Hl in Hk'. apply in_flat_map in Hk' as ([nm s] & Hs' & Hk'). simpl in Hk'.
      assert (Hsz : json_size s <= n) by (pose proof (size_obj _ _ _ Hs'); lia).
      eapply sub_complete; eauto.
    + rewrite Hl in Hk'. apply in_flat_map in Hk' as (s & Hs' & Hk').
      assert (Hsz : json_size s <= n) by (pose proof (size_arr _ _ Hs'); lia).
      eapply sub_complete; eauto.
Qed.

Theorem malformed_complete j k : wf_schema no_excuse j -> In k (malformed j) -> False.
Proof. intros Hw. exact (malformed_complete_n (json_size j) j (le_n _) Hw k). Qed.

Theorem wf_schema_iff j : wf_schema no_excuse j <-> malformed j = [].
Proof.
  split.
  - intro H. destruct (malformed j) as [|k l] eqn:E; auto.
    exfalso. apply (malformed_complete j k H). rewrite E. now left.
  - intro E. apply malformed_sound; auto. rewrite E. intros k [].
Qed.
