(* Extraction of the executable models. Only ExtrOcamlBasic's directives are used (bool,
   option, list, prod, unit, sumbool mapped to OCaml's); Z, N, positive, nat and byte stay the
   extracted Coq datatypes. *)
From Coq Require Import Extraction ExtrOcamlBasic.
From Coq Require Import Strings.Byte NArith.
From Verif Require Import Run.Dispatch.
Extraction Language OCaml.
Extraction "oracle_gen.ml" run_line Byte.of_N Byte.to_N.
