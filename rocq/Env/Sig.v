(* Symbolic model of dsig.Signature / dsig.PrivateKey.Sign / Signature.VerifyPayload /
   Signature.UnsafePayload (dsig/signature.go, dsig/key.go).  No proofs in this file.

   MODELLING ASSUMPTION (symbolic_crypto): a JSON Web Signature is the term [Sig k h] - "the
   holder of private key k signed the JSON text of header h".  The only way to obtain
   [Sig k h] is [sign_header k h] (dsig.NewSignature with the private key), and
   [verify_payload k' (Sig k h)] succeeds exactly when k' = k, returning h.  This is ES256
   unforgeability plus the correctness of go-jose and of encoding/json on headers (a header
   survives Marshal/Unmarshal unchanged as far as Contains looks at it); it is not proved,
   it is the shape of the datatype, and it is listed in the trusted base of C09/C10.

   An entry of Envelope.Signatures can also be a *Signature without a JWS ([NoJws]:
   Signature.UnmarshalJSON returns nil for the empty string and leaves jws nil) or a nil pointer
   ([NilSig]: "sigs":[null]). *)
From Coq Require Import ZArith List Bool.
From Verif Require Import Base.Wire Env.Header.
Import ListNotations.
Open Scope Z_scope.

Definition keyid := Z.

Inductive sigent :=
  | Sig (k : keyid) (h : header)
  | NoJws
  | NilSig.

Definition sign_header (k : keyid) (h : header) : sigent := Sig k h.

Definition is_real (s : sigent) : bool := match s with Sig _ _ => true | _ => false end.
Definition is_nojws (s : sigent) : bool := match s with NoJws => true | _ => false end.
Definition is_nilsig (s : sigent) : bool := match s with NilSig => true | _ => false end.

(* outcome of extracting the payload: the header, or a failure *)
Inductive payload := PHeader (h : header) | PFail.

(* Signature.VerifyPayload(key, new(head.Header)): ErrKeyMismatch when the JWS was not made with
   the key - or when s or s.jws is nil (nil guard of commit 3e1b1c1; before it: nil dereference) *)
Definition verify_payload (k : keyid) (s : sigent) : payload :=
  match s with
  | Sig k' h => if k' =? k then PHeader h else PFail
  | _ => PFail
  end.

(* Signature.UnsafePayload(new(head.Header)): no key involved.  Unsafe returns nil data for a
   missing JWS, json.Unmarshal fails on it -> "invalid signature payload" *)
Definition unsafe_payload (s : sigent) : payload :=
  match s with
  | Sig _ h => PHeader h
  | _ => PFail
  end.
