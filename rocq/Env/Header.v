(* Model of head.Header (head/header.go, head/stamps.go, head/link.go) and dsig.Digest
   (dsig/digest.go).  No proofs in this file.

   Strings are byte lists.  A Go pointer that may be nil is an [option].  Since commit 3e1b1c1
   ("nil guards in header, signature and envelope verification") every function of this file
   skips nil entries and treats a nil receiver / nil digest as "not contained"; before it
   Contains, detectDuplicateLinks, Stamp.In, AddStamp and AppendLink dereferenced nil (defect 11
   of DESIGN.md section 8, now under "fixed" in findings/C10.json, its witnesses still run).

   Outside the model (domain of the correspondence): the per-element validation of stamps
   and links (non-empty provider/value/key, key pattern, URL syntax), uuid version checks, the
   title/description/mime members of a link (never compared by Contains). *)
From Coq Require Import ZArith List Bool Strings.Byte String.
From Verif Require Import Base.Wire.
Import ListNotations.
Open Scope Z_scope.

Definition str := bytes.
Definition seqb (a b : str) : bool := eqb_bytes a b.
Definition is_empty (a : str) : bool := match a with [] => true | _ => false end.

(* ---- error keys and results ---- *)
Inductive errkey :=
  | EValidation | EDigest | ECalculation | ENoDocument | EInternal | ESignature
  | EOther        (* an error that is not a *gobl.Error, e.g. "no signatures to verify" *)
  | EUnmarshal    (* the JSON text did not parse into an envelope *)
  | EMarshal      (* the envelope could not be serialised *)
  | ESkip.        (* harness-level operation not applicable in this state *)

Inductive result (A : Type) := Ok (a : A) | Err (e : errkey) | Panic.
Arguments Ok {A} a.
Arguments Err {A} e.
Arguments Panic {A}.

(* ---- data ---- *)
Record stamp := mkStamp { prv : str; sval : str }.
Record link := mkLink { lkey : str; lurl : str }.
Record digest := mkDig { alg : str; dval : str }.

Record header := mkH {
  uuid : str;                       (* "" = zero uuid *)
  dig : option digest;              (* *dsig.Digest *)
  stamps : list (option stamp);     (* []*Stamp, entries may be nil after parsing "stamps":[null] *)
  links : list (option link);       (* []*Link *)
  tags : list str;
  meta : list (str * str);          (* cbc.Meta: map, keys unique *)
  notes : str
}.

(* Digest.String(): alg;val *)
Definition dig_string (d : digest) : str := alg d ++ bs ";" ++ dval d.

Definition stamp_eq (a b : stamp) : bool := seqb (prv a) (prv b) && seqb (sval a) (sval b).
Definition link_eq (a b : link) : bool := seqb (lkey a) (lkey b) && seqb (lurl a) (lurl b).

Fixpoint lookup (k : str) (m : list (str * str)) : option str :=
  match m with
  | [] => None
  | (k', v) :: r => if seqb k' k then Some v else lookup k r
  end.

(* ------------------------------------------------------------------------------------------
   Header.Contains: nil receiver or nil digest in the receiver = not contained; nil entries
   are skipped.  One conjunct per compared member, in the order of the Go code. *)
Definition stamp_in (hs : list (option stamp)) (s2 : stamp) : bool :=
  existsb (fun s => match s with Some a => stamp_eq a s2 | None => false end) hs.
Definition link_in (hl : list (option link)) (l2 : link) : bool :=
  existsb (fun l => match l with Some a => link_eq a l2 | None => false end) hl.
Definition tag_in (ht : list str) (t2 : str) : bool := existsb (fun t => seqb t t2) ht.

Definition c_uuid (h h2 : header) : bool := seqb (uuid h) (uuid h2).
Definition c_dig (h h2 : header) : bool :=
  match dig h2 with
  | None => true
  | Some d2 => match dig h with
               | None => false
               | Some d => seqb (dig_string d) (dig_string d2)
               end
  end.
Definition c_stamps (h h2 : header) : bool :=
  forallb (fun s2 => match s2 with None => true | Some b => stamp_in (stamps h) b end) (stamps h2).
Definition c_links (h h2 : header) : bool :=
  forallb (fun l2 => match l2 with None => true | Some b => link_in (links h) b end) (links h2).
Definition c_tags (h h2 : header) : bool := forallb (tag_in (tags h)) (tags h2).
Definition c_meta (h h2 : header) : bool :=
  forallb (fun kv => match lookup (fst kv) (meta h) with
                     | Some v => seqb v (snd kv)
                     | None => false
                     end) (meta h2).
Definition c_notes (h h2 : header) : bool := is_empty (notes h2) || seqb (notes h2) (notes h).

Definition contains (h h2 : header) : bool :=
  c_uuid h h2 && c_dig h h2 && c_stamps h h2 && c_links h h2 && c_tags h h2 && c_meta h h2
  && c_notes h h2.

(* (h *Header).Contains(h2) with a possibly nil receiver *)
Definition contains_opt (h : option header) (h2 : header) : bool :=
  match h with None => false | Some h => contains h h2 end.

(* ------------------------------------------------------------------------------------------
   head.AddStamp / head.AppendLink: replace the entry with the same provider / key in place,
   otherwise append; nil entries are stepped over. *)
Fixpoint add_stamp (l : list (option stamp)) (s : stamp) : list (option stamp) :=
  match l with
  | [] => [Some s]
  | None :: r => None :: add_stamp r s
  | Some v :: r => if seqb (prv v) (prv s) then Some s :: r else Some v :: add_stamp r s
  end.
Fixpoint append_link (l : list (option link)) (n : link) : list (option link) :=
  match l with
  | [] => [Some n]
  | None :: r => None :: append_link r n
  | Some v :: r => if seqb (lkey v) (lkey n) then Some n :: r else Some v :: append_link r n
  end.

Fixpoint set_meta (m : list (str * str)) (k v : str) : list (str * str) :=
  match m with
  | [] => [(k, v)]
  | (k', v') :: r => if seqb k' k then (k, v) :: r else (k', v') :: set_meta r k v
  end.
Definition rm_meta (m : list (str * str)) (k : str) : list (str * str) :=
  filter (fun kv => negb (seqb (fst kv) k)) m.

(* ------------------------------------------------------------------------------------------
   Header.ValidateWithContext.  The validation library evaluates every field (errors are
   collected), inside a field the rules in order up to the first error. *)
Inductive v3 := VOk | VErr.
Definition v3_and (a b : v3) : v3 :=
  match a with
  | VErr => VErr
  | VOk => b
  end.

(* detectDuplicateStamps: nil entries are skipped; v.In(set) compares v.Provider with every
   non-nil r.Provider of the set built so far *)
Definition stamp_in_set (a : stamp) (set : list stamp) : bool :=
  existsb (fun b => seqb (prv a) (prv b)) set.
Fixpoint detect_dup_stamps (set : list stamp) (vs : list (option stamp)) : v3 :=
  match vs with
  | [] => VOk
  | None :: r => detect_dup_stamps set r
  | Some v :: r => if stamp_in_set v set then VErr else detect_dup_stamps (set ++ [v]) r
  end.
(* detectDuplicateLinks: nil entries are skipped; LinkByKey(set, v.Key) *)
Definition link_by_key (set : list link) (k : str) : bool :=
  existsb (fun l => seqb (lkey l) k) set.
Fixpoint detect_dup_links (set : list link) (vs : list (option link)) : v3 :=
  match vs with
  | [] => VOk
  | None :: r => detect_dup_links set r
  | Some v :: r => if link_by_key set (lkey v) then VErr else detect_dup_links (set ++ [v]) r
  end.

Definition has_none {A} (l : list (option A)) : bool :=
  existsb (fun x => match x with None => true | Some _ => false end) l.

Definition v_uuid (h : header) : v3 := if is_empty (uuid h) then VErr else VOk.
Definition v_dig (h : header) : v3 :=
  match dig h with
  | None => VErr
  | Some d => if is_empty (alg d) || is_empty (dval d) then VErr else VOk
  end.
(* validation.When(!signed, validation.Empty): a list holding only a nil entry is not empty *)
Definition v_stamps (signed : bool) (h : header) : v3 :=
  if negb signed && negb (match stamps h with [] => true | _ => false end) then VErr
  else detect_dup_stamps [] (stamps h).
Definition v_links (h : header) : v3 := detect_dup_links [] (links h).

Definition validate_header (signed : bool) (h : header) : v3 :=
  v3_and (v_uuid h) (v3_and (v_dig h) (v3_and (v_stamps signed h) (v_links h))).
