(* Model of head.Header (head/header.go, head/stamps.go, head/link.go) and dsig.Digest
   (dsig/digest.go).  No proofs in this file.

   Strings are byte lists.  A Go pointer that may be nil is an [option]; a function whose Go
   original can dereference nil returns [result] with an explicit [Panic].

   Two readings of the nil-sensitive functions are kept side by side:
     *_shipped   the code of the repository as it stands (nil dereferences = Panic);
     (no suffix) the code after the proposed repair fixes/C10-11-nil-guards.diff (total).
   [Lifecycle.v] selects between them with the [fixes] record.

   Outside the model (domain of the correspondence): the per-element validation of stamps
   and links (non-empty provider/value/key, key pattern, URL syntax), uuid version checks, the
   title/description/mime members of a link (never compared by Contains). *)
From Coq Require Import ZArith List Bool Strings.Byte String.
From Verif Require Import Base.Wire.
Import ListNotations.
Open Scope Z_scope.

Definition str := bytes.
Definition seqb (a b : str) : bool := eqb_bytes a b.
Definition is_empty (a : str) : bool := match a with [] => true | _ => false end.

(* ---- error keys and results ---- *)
Inductive errkey :=
  | EValidation | EDigest | ECalculation | ENoDocument | EInternal | ESignature
  | EOther        (* an error that is not a *gobl.Error, e.g. "no signatures to verify" *)
  | EUnmarshal    (* the JSON text did not parse into an envelope *)
  | EMarshal      (* the envelope could not be serialised *)
  | ESkip.        (* harness-level operation not applicable in this state *)

Inductive result (A : Type) := Ok (a : A) | Err (e : errkey) | Panic.
Arguments Ok {A} a.
Arguments Err {A} e.
Arguments Panic {A}.

(* ---- data ---- *)
Record stamp := mkStamp { prv : str; sval : str }.
Record link := mkLink { lkey : str; lurl : str }.
Record digest := mkDig { alg : str; dval : str }.

Record header := mkH {
  uuid : str;                       (* "" = zero uuid *)
  dig : option digest;              (* *dsig.Digest *)
  stamps : list (option stamp);     (* []*Stamp, entries may be nil after parsing "stamps":[null] *)
  links : list (option link);       (* []*Link *)
  tags : list str;
  meta : list (str * str);          (* cbc.Meta: map, keys unique *)
  notes : str
}.

(* Digest.String(): alg;val *)
Definition dig_string (d : digest) : str := alg d ++ bs ";" ++ dval d.

Definition stamp_eq (a b : stamp) : bool := seqb (prv a) (prv b) && seqb (sval a) (sval b).
Definition link_eq (a b : link) : bool := seqb (lkey a) (lkey b) && seqb (lurl a) (lurl b).

Fixpoint lookup (k : str) (m : list (str * str)) : option str :=
  match m with
  | [] => None
  | (k', v) :: r => if seqb k' k then Some v else lookup k r
  end.

(* ------------------------------------------------------------------------------------------
   Header.Contains, repaired reading: nil receiver or nil digest in the receiver = not
   contained; nil entries are skipped.  One conjunct per compared member, in the order of
   the Go code. *)
Definition stamp_in (hs : list (option stamp)) (s2 : stamp) : bool :=
  existsb (fun s => match s with Some a => stamp_eq a s2 | None => false end) hs.
Definition link_in (hl : list (option link)) (l2 : link) : bool :=
  existsb (fun l => match l with Some a => link_eq a l2 | None => false end) hl.
Definition tag_in (ht : list str) (t2 : str) : bool := existsb (fun t => seqb t t2) ht.

Definition c_uuid (h h2 : header) : bool := seqb (uuid h) (uuid h2).
Definition c_dig (h h2 : header) : bool :=
  match dig h2 with
  | None => true
  | Some d2 => match dig h with
               | None => false
               | Some d => seqb (dig_string d) (dig_string d2)
               end
  end.
Definition c_stamps (h h2 : header) : bool :=
  forallb (fun s2 => match s2 with None => true | Some b => stamp_in (stamps h) b end) (stamps h2).
Definition c_links (h h2 : header) : bool :=
  forallb (fun l2 => match l2 with None => true | Some b => link_in (links h) b end) (links h2).
Definition c_tags (h h2 : header) : bool := forallb (tag_in (tags h)) (tags h2).
Definition c_meta (h h2 : header) : bool :=
  forallb (fun kv => match lookup (fst kv) (meta h) with
                     | Some v => seqb v (snd kv)
                     | None => false
                     end) (meta h2).
Definition c_notes (h h2 : header) : bool := is_empty (notes h2) || seqb (notes h2) (notes h).

Definition contains (h h2 : header) : bool :=
  c_uuid h h2 && c_dig h h2 && c_stamps h h2 && c_links h h2 && c_tags h h2 && c_meta h h2
  && c_notes h h2.

(* (h *Header).Contains(h2) with a possibly nil receiver *)
Definition contains_opt (h : option header) (h2 : header) : bool :=
  match h with None => false | Some h => contains h h2 end.

(* ------------------------------------------------------------------------------------------
   Header.Contains as shipped: h.UUID on a nil receiver, h.Digest.String() on a nil digest,
   s.Provider / s2.Provider / l.Key / l2.Key on nil entries panic.  The loops stop at the first
   failed comparison, so a panic behind it is not reached. *)
Fixpoint stamp_in_shipped (hs : list (option stamp)) (s2 : option stamp) : result bool :=
  match hs with
  | [] => Ok false
  | s :: r => match s, s2 with
              | Some a, Some b => if stamp_eq a b then Ok true else stamp_in_shipped r s2
              | _, _ => Panic
              end
  end.
Fixpoint c_stamps_shipped (hs : list (option stamp)) (h2s : list (option stamp)) : result bool :=
  match h2s with
  | [] => Ok true
  | s2 :: r => match stamp_in_shipped hs s2 with
               | Ok true => c_stamps_shipped hs r
               | x => x
               end
  end.
Fixpoint link_in_shipped (hl : list (option link)) (l2 : option link) : result bool :=
  match hl with
  | [] => Ok false
  | l :: r => match l, l2 with
              | Some a, Some b => if link_eq a b then Ok true else link_in_shipped r l2
              | _, _ => Panic
              end
  end.
Fixpoint c_links_shipped (hl : list (option link)) (h2l : list (option link)) : result bool :=
  match h2l with
  | [] => Ok true
  | l2 :: r => match link_in_shipped hl l2 with
               | Ok true => c_links_shipped hl r
               | x => x
               end
  end.

Definition contains_shipped (ho : option header) (h2 : header) : result bool :=
  match ho with
  | None => Panic
  | Some h =>
    if negb (c_uuid h h2) then Ok false else
    match dig h2, dig h with
    | Some _, None => Panic
    | _, _ =>
      if negb (c_dig h h2) then Ok false else
      match c_stamps_shipped (stamps h) (stamps h2) with
      | Ok true =>
        match c_links_shipped (links h) (links h2) with
        | Ok true => Ok (c_tags h h2 && c_meta h h2 && c_notes h h2)
        | x => x
        end
      | x => x
      end
    end
  end.

(* ------------------------------------------------------------------------------------------
   head.AddStamp / head.AppendLink: replace the entry with the same provider / key in place,
   otherwise append.  v.Provider on a nil entry panics (unchanged by the repair). *)
Fixpoint add_stamp (l : list (option stamp)) (s : stamp) : result (list (option stamp)) :=
  match l with
  | [] => Ok [Some s]
  | None :: _ => Panic
  | Some v :: r => if seqb (prv v) (prv s) then Ok (Some s :: r)
                   else match add_stamp r s with
                        | Ok r' => Ok (Some v :: r')
                        | x => x
                        end
  end.
Fixpoint append_link (l : list (option link)) (n : link) : result (list (option link)) :=
  match l with
  | [] => Ok [Some n]
  | None :: _ => Panic
  | Some v :: r => if seqb (lkey v) (lkey n) then Ok (Some n :: r)
                   else match append_link r n with
                        | Ok r' => Ok (Some v :: r')
                        | x => x
                        end
  end.

Fixpoint set_meta (m : list (str * str)) (k v : str) : list (str * str) :=
  match m with
  | [] => [(k, v)]
  | (k', v') :: r => if seqb k' k then (k, v) :: r else (k', v') :: set_meta r k v
  end.
Definition rm_meta (m : list (str * str)) (k : str) : list (str * str) :=
  filter (fun kv => negb (seqb (fst kv) k)) m.

(* ------------------------------------------------------------------------------------------
   Header.ValidateWithContext.  The validation library evaluates every field (errors are
   collected), inside a field the rules in order up to the first error.  Three-valued
   verdict; a panic in a later field happens whatever the earlier fields said. *)
Inductive v3 := VOk | VErr | VPanic.
Definition v3_and (a b : v3) : v3 :=
  match a with
  | VPanic => VPanic
  | VErr => match b with VPanic => VPanic | _ => VErr end
  | VOk => b
  end.

(* detectDuplicateStamps: v.In(set) compares v.Provider with every r.Provider of the set *)
Fixpoint stamp_in_set (v : option stamp) (set : list (option stamp)) : result bool :=
  match set with
  | [] => Ok false
  | r :: t => match v, r with
              | Some a, Some b => if seqb (prv a) (prv b) then Ok true else stamp_in_set v t
              | _, _ => Panic
              end
  end.
Fixpoint detect_dup_stamps (set vs : list (option stamp)) : v3 :=
  match vs with
  | [] => VOk
  | v :: r => match stamp_in_set v set with
              | Panic => VPanic
              | Ok true => VErr
              | _ => detect_dup_stamps (set ++ [v]) r
              end
  end.
(* detectDuplicateLinks: LinkByKey(set, v.Key) - v.Key is evaluated first *)
Fixpoint link_by_key (set : list (option link)) (k : str) : result bool :=
  match set with
  | [] => Ok false
  | None :: _ => Panic
  | Some l :: t => if seqb (lkey l) k then Ok true else link_by_key t k
  end.
Fixpoint detect_dup_links (set vs : list (option link)) : v3 :=
  match vs with
  | [] => VOk
  | None :: _ => VPanic
  | Some v :: r => match link_by_key set (lkey v) with
                   | Panic => VPanic
                   | Ok true => VErr
                   | _ => detect_dup_links (set ++ [Some v]) r
                   end
  end.

Definition has_none {A} (l : list (option A)) : bool :=
  existsb (fun x => match x with None => true | Some _ => false end) l.

Definition v_uuid (h : header) : v3 := if is_empty (uuid h) then VErr else VOk.
Definition v_dig (h : header) : v3 :=
  match dig h with
  | None => VErr
  | Some d => if is_empty (alg d) || is_empty (dval d) then VErr else VOk
  end.
(* fix11 = the repair adds validation.Each(validation.Required) in front of the duplicate rules *)
Definition v_stamps (fix11 signed : bool) (h : header) : v3 :=
  if negb signed && negb (match stamps h with [] => true | _ => false end) then VErr
  else if fix11 && has_none (stamps h) then VErr
  else detect_dup_stamps [] (stamps h).
Definition v_links (fix11 : bool) (h : header) : v3 :=
  if fix11 && has_none (links h) then VErr
  else detect_dup_links [] (links h).

Definition validate_header (fix11 signed : bool) (h : header) : v3 :=
  v3_and (v_uuid h) (v3_and (v_dig h) (v3_and (v_stamps fix11 signed h) (v_links fix11 h))).
