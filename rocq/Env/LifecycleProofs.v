(* Proofs about Env/Lifecycle.v for property C10 (and lemmas reused by C09). *)
From Coq Require Import ZArith List Bool Lia String.
From Verif Require Import Base.Wire Env.Header Env.HeaderProofs Env.Sig Env.Lifecycle Env.Abs.
Import ListNotations.
Open Scope Z_scope.

(* ---- verdicts ---- *)
Lemma v3_and_ok a b : v3_and a b = VOk <-> a = VOk /\ b = VOk.
Proof. destruct a, b; simpl; split; intro H; try discriminate; try (destruct H; discriminate); auto. Qed.

Definition b2v (b : bool) : v3 := if b then VOk else VErr.
Lemma v3_and_b2v a b : v3_and (b2v a) (b2v b) = b2v (a && b).
Proof. destruct a, b; reflexivity. Qed.

Section Proofs.
Variable hash : content -> str.

Notation validate := (validate hash).
Notation step := (step hash).
Notation run := (run hash).
Notation cli_verify := (cli_verify hash).

(* ==========================================================================================
   read-only operations *)
Lemma readonly_validate fx e : fst (step fx e Validate) = e.
Proof. reflexivity. Qed.
Lemma readonly_verify fx e ks : fst (step fx e (Verify ks)) = e.
Proof. reflexivity. Qed.

(* ==========================================================================================
   what a successful Validate tells, for any variant of the code *)
Lemma validate_ok_facts fx e :
  validate fx e = OK ->
  exists c h d, doc e = Some c /\ head e = Some h /\ dig h = Some d /\
    alg d = sha256 /\ dval d = hash c /\ vok c = true /\
    (signed e = true -> code c = true) /\
    (signed e = false -> stamps h = []).
Proof.
  unfold validate. destruct (v3_and _ _) eqn:V; try discriminate.
  apply v3_and_ok in V as [Vh V]. apply v3_and_ok in V as [Vd _].
  unfold v_head in Vh. destruct (head e) as [h|] eqn:Eh; [|discriminate].
  unfold v_doc in Vd. destruct (doc e) as [c|] eqn:Ed; [|discriminate].
  unfold verify_digest. rewrite Ed, Eh. destruct (dig h) as [d|] eqn:Edg; [|discriminate].
  destruct (negb (seqb (alg d) sha256)) eqn:A; [discriminate|].
  destruct (negb (seqb (dval d) (hash c))) eqn:B; [discriminate|]. intros _.
  apply negb_false_iff in A, B. apply seqb_eq in A, B.
  destruct (vok c && (negb (signed e) || code c)) eqn:VC; [|discriminate].
  apply andb_true_iff in VC as [VC1 VC2].
  exists c, h, d. repeat split; auto.
  - intro S. rewrite S in VC2. exact VC2.
  - intro S. unfold validate_header in Vh. apply v3_and_ok in Vh as [_ Vh]. apply v3_and_ok in Vh as [_ Vh].
    apply v3_and_ok in Vh as [Vs _]. unfold v_stamps in Vs. rewrite S in Vs. simpl in Vs.
    destruct (stamps h); [reflexivity | discriminate].
Qed.

Lemma stamps_only_when_signed fx e h :
  validate fx e = OK -> head e = Some h -> stamps h <> [] -> signed e = true.
Proof.
  intros V Eh NS. destruct (validate_ok_facts fx e V) as (c & h' & d & _ & Eh' & _ & _ & _ & _ & _ & St).
  rewrite Eh in Eh'. inversion Eh'; subst h'. destruct (signed e); [reflexivity|]. exfalso. apply NS. apply St. reflexivity.
Qed.

(* ==========================================================================================
   Sign *)
Lemma sign_unfold fx e k :
  step fx e (Sign k) =
  match head e with
  | None => (e, ERR EValidation)
  | Some h =>
    let e1 := set_sigs e (sigs e ++ [Sig k h]) in
    match validate fx e1 with
    | OK => (e1, OK)
    | ERR r => (set_sigs e [], ERR r)
    | PANIC => (e1, PANIC)
    end
  end.
Proof. reflexivity. Qed.

Lemma failed_sign_leaves_unsigned fx e k r :
  head e <> None -> snd (step fx e (Sign k)) = ERR r -> sigs (fst (step fx e (Sign k))) = [].
Proof.
  rewrite sign_unfold. destruct (head e) as [h|]; [|congruence]. intros _. cbv zeta.
  destruct (validate fx _); simpl; intro H; try discriminate. reflexivity.
Qed.

Lemma sign_ok_state fx e k :
  snd (step fx e (Sign k)) = OK ->
  exists h, head e = Some h /\ fst (step fx e (Sign k)) = set_sigs e (sigs e ++ [Sig k h]) /\
            validate fx (set_sigs e (sigs e ++ [Sig k h])) = OK.
Proof.
  rewrite sign_unfold. destruct (head e) as [h|]; [|discriminate]. cbv zeta.
  destruct (validate fx _) eqn:V; simpl; intro H; try discriminate. exists h. auto.
Qed.

Lemma signed_app_sig e k h : signed (set_sigs e (sigs e ++ [Sig k h])) = true.
Proof. unfold signed. simpl. destruct (sigs e); reflexivity. Qed.

(* only a valid envelope with a matching digest can be signed *)
Lemma sign_requires_valid_and_digest fx e k :
  snd (step fx e (Sign k)) = OK ->
  digest_matches hash e = true /\
  exists c, doc e = Some c /\ vok c = true /\ code c = true.
Proof.
  intro S. destruct (sign_ok_state fx e k S) as (h & Eh & _ & V).
  destruct (validate_ok_facts fx _ V) as (c & h' & d & Ed & Eh' & Edg & A & B & Vk & Cd & _).
  simpl in Ed, Eh'. rewrite Eh in Eh'. inversion Eh'; subst h'. split.
  - unfold digest_matches. rewrite Ed, Eh, Edg, A, B, !seqb_refl. reflexivity.
  - exists c. repeat split; auto. apply Cd. apply signed_app_sig.
Qed.

(* ==========================================================================================
   Validate, Verify, Sign and the command-line entry point never dereference nil (any variant:
   the nil guards of commit 3e1b1c1 are part of the shipped code) *)
Lemma validate_nopanic fx e : validate fx e <> PANIC.
Proof.
  unfold validate. destruct (v3_and _ _) eqn:V; try discriminate.
  apply v3_and_ok in V as [Vh V]. apply v3_and_ok in V as [Vd _].
  unfold v_doc in Vd. destruct (doc e) as [c|] eqn:Ed; [|discriminate].
  unfold v_head in Vh. destruct (head e) as [h|] eqn:Eh; [|discriminate].
  unfold validate_header in Vh. apply v3_and_ok in Vh as [_ Vh]. apply v3_and_ok in Vh as [Vg _].
  unfold v_dig in Vg. destruct (dig h) as [d|] eqn:Edg; [|discriminate].
  unfold verify_digest. rewrite Ed, Eh, Edg.
  destruct (negb (seqb (alg d) sha256)); [discriminate|]. destruct (negb (seqb (dval d) (hash c))); discriminate.
Qed.
Lemma verify_nopanic e ks : verify e ks <> PANIC.
Proof. unfold verify. destruct (sigs e); [discriminate|]. destruct (verify_all _ _ _); discriminate. Qed.
Lemma sign_nopanic fx e k : snd (step fx e (Sign k)) <> PANIC.
Proof.
  rewrite sign_unfold. destruct (head e) as [h|]; [|discriminate]. cbv zeta.
  pose proof (validate_nopanic fx (set_sigs e (sigs e ++ [Sig k h]))) as NP.
  destruct (validate fx _); simpl; congruence.
Qed.
Lemma cli_verify_nopanic fx e key : cli_verify fx e key <> PANIC.
Proof.
  unfold cli_verify. destruct (parse_env _ _) as [e'|]; [|discriminate]. unfold cli_verify_parsed.
  pose proof (validate_nopanic fx e') as NP. destruct (validate fx e'); try congruence.
  destruct key as [k|]; [|discriminate]. destruct (sigs e') as [|s0 l] eqn:Es; [discriminate|].
  destruct (verify_payload k s0); [|discriminate]. destruct (fix9 fx); [apply verify_nopanic | discriminate].
Qed.

(* ==========================================================================================
   Envelope.calculate *)
Lemma calculate_outcome e :
  snd (calculate hash e) =
  match doc e with None => ERR ENoDocument | Some c => if cok c then OK else ERR ECalculation end.
Proof.
  unfold calculate. destruct (doc e) as [c|]; [|reflexivity]. destruct (cok c); [|reflexivity].
  destruct (head e) as [h|]; [destruct (is_empty (uuid h))|]; reflexivity.
Qed.
Lemma calculate_sigs e : sigs (fst (calculate hash e)) = sigs e.
Proof.
  unfold calculate. destruct (doc e) as [c|]; [|reflexivity]. destruct (cok c); [|reflexivity].
  destruct (head e) as [h|]; [destruct (is_empty (uuid h))|]; reflexivity.
Qed.
Lemma calculate_head e h :
  head e = Some h ->
  exists h', head (fst (calculate hash e)) = Some h' /\ stamps h' = stamps h /\ links h' = links h /\
             tags h' = tags h /\ meta h' = meta h /\ notes h' = notes h.
Proof.
  intro Eh. unfold calculate. destruct (doc e) as [c|]; [|exists h; auto 10]. destruct (cok c); [|exists h; auto 10].
  rewrite Eh. destruct (is_empty (uuid h)); eexists; (split; [reflexivity | simpl; auto 10]).
Qed.
Lemma set_doc_head e d : head (set_doc e d) = head e. Proof. reflexivity. Qed.
Lemma set_doc_sigs e d : sigs (set_doc e d) = sigs e. Proof. reflexivity. Qed.
Lemma step_insert fx e d :
  step fx e (Insert d) = match head e with None => (e, ERR EInternal) | Some _ => calculate hash (set_doc e (Some d)) end.
Proof. reflexivity. Qed.
Lemma step_calculate fx e : step fx e Calculate = calculate hash e.
Proof. reflexivity. Qed.

(* ==========================================================================================
   well-formed envelopes and the decision table *)
Lemma wf_no_nilsig e : forallb is_real (sigs e) = true -> existsb is_nilsig (sigs e) = false.
Proof. induction (sigs e) as [|s l IH]; simpl; [reflexivity|]. destruct s; simpl; try discriminate. exact IH. Qed.
Lemma wf_no_nojws e : forallb is_real (sigs e) = true -> existsb is_nojws (sigs e) = false.
Proof. induction (sigs e) as [|s l IH]; simpl; [reflexivity|]. destruct s; simpl; try discriminate. exact IH. Qed.

Lemma validate_header_sound signed h :
  validate_header signed h =
  b2v (head_sound h && (signed || match stamps h with [] => true | _ => false end)).
Proof.
  unfold validate_header, head_sound, v_uuid, v_dig, v_stamps, v_links.
  set (ds := detect_dup_stamps [] (stamps h)). set (dl := detect_dup_links [] (links h)). clearbody ds dl.
  destruct (is_empty (uuid h)); destruct (dig h) as [d|]; try destruct (is_empty (alg d) || is_empty (dval d));
  destruct signed; destruct (stamps h) as [|s0 st]; destruct ds; destruct dl; reflexivity.
Qed.

Lemma head_sound_dig h : head_sound h = true -> exists d, dig h = Some d.
Proof.
  unfold head_sound. destruct (dig h) as [d|]; [intros _; exists d; reflexivity|].
  rewrite andb_false_r. discriminate.
Qed.

Lemma validate_wf fx e h :
  head e = Some h -> forallb is_real (sigs e) = true ->
  validate fx e =
  if (if signed e then valid_for_signing e else valid_unsigned e)
  then (if digest_matches hash e then OK else ERR EDigest) else ERR EValidation.
Proof.
  intros Eh R. unfold validate, v_head, v_doc, v_sigs, valid_for_signing, valid_unsigned, digest_matches, verify_digest.
  rewrite Eh, (wf_no_nilsig e R), andb_false_r, validate_header_sound.
  set (emp := match stamps h with [] => true | _ => false end).
  destruct (doc e) as [c|]; [|destruct (head_sound h && _), (signed e); reflexivity].
  destruct (head_sound h) eqn:HS.
  - destruct (head_sound_dig h HS) as [d Ed]. rewrite Ed.
    destruct (signed e), (vok c), (code c), emp, (seqb (alg d) sha256), (seqb (dval d) (hash c)); reflexivity.
  - destruct (signed e), (vok c), (code c), emp; reflexivity.
Qed.

(* Verify on real signatures *)
Lemma verify_sig_keys_real e k h2 ks :
  verify_sig_keys e (Sig k h2) ks = b2v (existsb (Z.eqb k) ks && contains_opt (head e) h2).
Proof.
  induction ks as [|k0 r IH]; simpl; [reflexivity|].
  destruct (k =? k0) eqn:E; simpl.
  - unfold head_contains. destruct (contains_opt _ _); reflexivity.
  - exact IH.
Qed.
Lemma verify_signature_real e k h2 ks :
  verify_signature e (Sig k h2) ks = b2v (sig_verdict ks (sig_fact e (Sig k h2))).
Proof.
  unfold verify_signature, sig_verdict. destruct ks as [|k0 r].
  - simpl. unfold head_contains. destruct (contains_opt _ _); reflexivity.
  - rewrite verify_sig_keys_real. reflexivity.
Qed.
Lemma verify_all_real e l ks :
  forallb is_real l = true ->
  verify_all e l ks = b2v (forallb (sig_verdict ks) (map (sig_fact e) l)).
Proof.
  induction l as [|s l IH]; simpl; intro R; [reflexivity|].
  apply andb_true_iff in R as [R1 R2]. destruct s as [k h2| |]; try discriminate.
  rewrite verify_signature_real. rewrite IH by exact R2. apply v3_and_b2v.
Qed.
Lemma verify_tbl_sig a ks :
  verify_tbl a ks = match a_contains a with [] => ERR ESignature | l => if forallb (sig_verdict ks) l then OK else ERR EValidation end.
Proof. reflexivity. Qed.
Lemma verify_wf e ks :
  forallb is_real (sigs e) = true -> verify e ks = verify_tbl (abs hash e) ks.
Proof.
  intros R. unfold verify, verify_tbl. cbn [abs a_contains]. destruct (sigs e) as [|s l] eqn:Es; [reflexivity|].
  cbv beta iota. rewrite (verify_all_real e (s :: l) ks R). cbn [map]. cbv beta iota. unfold b2v.
  destruct (forallb (sig_verdict ks) _); reflexivity.
Qed.

Lemma abs_set_sigs_facts e l :
  valid_for_signing (set_sigs e l) = valid_for_signing e /\
  valid_unsigned (set_sigs e l) = valid_unsigned e /\
  digest_matches hash (set_sigs e l) = digest_matches hash e.
Proof. repeat split. Qed.

Theorem outcome_follows_table fx e o :
  wf e -> api_op o -> snd (step fx e o) = outcome_table (abs hash e) o.
Proof.
  intros [[h Eh] R] A. destruct o; simpl in A; try contradiction; clear A.
  - (* Insert *) rewrite step_insert, Eh, calculate_outcome. reflexivity.
  - (* Calculate *) rewrite step_calculate, calculate_outcome. simpl. destruct (doc e); reflexivity.
  - (* EditDoc *) simpl. destruct (doc e); reflexivity.
  - (* ToggleCode *) simpl. destruct (doc e); reflexivity.
  - (* Sign *) rewrite sign_unfold, Eh. cbv zeta.
    assert (V : validate fx (set_sigs e (sigs e ++ [Sig k h])) = validate_tbl true (abs hash e)).
    { assert (R1 : forallb is_real (sigs (set_sigs e (sigs e ++ [Sig k h]))) = true)
        by (simpl; rewrite forallb_app, R; reflexivity).
      rewrite (validate_wf fx (set_sigs e (sigs e ++ [Sig k h])) h Eh R1), signed_app_sig. reflexivity. }
    rewrite V. change (outcome_table (abs hash e) (Sign k)) with (validate_tbl true (abs hash e)).
    destruct (validate_tbl true (abs hash e)); reflexivity.
  - (* Unsign *) reflexivity.
  - (* AddStamp *) simpl. unfold with_head. rewrite Eh. reflexivity.
  - (* AddLink *) simpl. unfold with_head. rewrite Eh. reflexivity.
  - simpl. unfold with_head. rewrite Eh. reflexivity.
  - simpl. unfold with_head. rewrite Eh. reflexivity.
  - simpl. unfold with_head. rewrite Eh. reflexivity.
  - (* Validate *) simpl. rewrite (validate_wf fx e h Eh R). reflexivity.
  - (* Verify *) simpl. apply verify_wf; assumption.
  - (* Reparse *) simpl. unfold reparse_with, parse_env. destruct (doc e); [|reflexivity].
    rewrite (wf_no_nojws e R), andb_false_r. reflexivity.
Qed.

Theorem outcome_determined_by_abs fx e1 e2 o :
  wf e1 -> wf e2 -> api_op o -> abs hash e1 = abs hash e2 ->
  snd (step fx e1 o) = snd (step fx e2 o).
Proof.
  intros W1 W2 A E. rewrite !outcome_follows_table by assumption. rewrite E. reflexivity.
Qed.

(* the statement's own four-fact reading of the three outcomes it names *)
Corollary sign_outcome_four_facts fx e k :
  wf e ->
  (snd (step fx e (Sign k)) = OK <-> valid_for_signing e = true /\ digest_matches hash e = true).
Proof.
  intros W. rewrite (outcome_follows_table fx e (Sign k) W I). simpl. unfold validate_tbl. simpl.
  destruct (valid_for_signing e), (digest_matches hash e); simpl; split; intro H; try discriminate; auto;
    destruct H; discriminate.
Qed.

Lemma verify_tbl_ok a ks :
  verify_tbl a ks = OK <-> a_contains a <> [] /\ forallb (sig_verdict ks) (a_contains a) = true.
Proof.
  unfold verify_tbl. destruct (a_contains a) as [|f l].
  - split; [discriminate | intros [H _]; congruence].
  - destruct (forallb (sig_verdict ks) (f :: l)); split; intro H; try discriminate; auto.
    + split; [discriminate | reflexivity].
    + destruct H; discriminate.
Qed.

Corollary verify_outcome_four_facts fx e k :
  wf e ->
  (snd (step fx e (Verify [k])) = OK <->
   signed e = true /\ forall s, In s (sigs e) -> exists h2, s = Sig k h2 /\ contains_opt (head e) h2 = true).
Proof.
  intros W. rewrite (outcome_follows_table fx e (Verify [k]) W I). destruct W as [_ R].
  change (outcome_table (abs hash e) (Verify [k])) with (verify_tbl (abs hash e) [k]).
  rewrite verify_tbl_ok. cbn [abs a_contains]. rewrite forallb_forall. split.
  - intros [NE FA]. split; [unfold signed; destruct (sigs e); [exfalso; apply NE; reflexivity | reflexivity]|].
    intros s Hin. specialize (FA (sig_fact e s) (in_map _ _ _ Hin)).
    rewrite forallb_forall in R. specialize (R s Hin). destruct s as [k' h2| |]; try discriminate.
    simpl in FA. rewrite orb_false_r in FA. apply andb_true_iff in FA as [K C]. apply Z.eqb_eq in K. subst k'.
    exists h2. auto.
  - intros [S H]. split; [unfold signed in S; destruct (sigs e); [discriminate | simpl; discriminate]|].
    intros f Hf. apply in_map_iff in Hf as [s [Ef Hin]]. destruct (H s Hin) as [h2 [Es C]]. subst s f.
    simpl. rewrite Z.eqb_refl, C. reflexivity.
Qed.

(* ==========================================================================================
   well-formedness is kept by every API operation, so the table applies along every history *)
Lemma wf_step fx e o : wf e -> api_op o -> wf (fst (step fx e o)).
Proof.
  intros [[h Eh] R] A. destruct o; simpl in A; try contradiction; clear A.
  - (* Insert *) rewrite step_insert, Eh.
    destruct (calculate_head (set_doc e (Some d)) h Eh) as (h' & Eh' & _).
    split; [exists h'; exact Eh' | rewrite calculate_sigs; exact R].
  - (* Calculate *) rewrite step_calculate.
    destruct (calculate_head e h Eh) as (h' & Eh' & _).
    split; [exists h'; exact Eh' | rewrite calculate_sigs; exact R].
  - simpl. destruct (doc e); simpl; (split; [exists h; auto | exact R]).
  - simpl. destruct (doc e); simpl; (split; [exists h; auto | exact R]).
  - (* Sign *) rewrite sign_unfold, Eh. cbv zeta.
    destruct (validate fx _); cbn [fst]; (split; [exists h; auto|]); cbn [sigs set_sigs];
      [rewrite forallb_app, R; reflexivity | reflexivity | rewrite forallb_app, R; reflexivity].
  - simpl. split; [exists h; auto | reflexivity].
  - simpl. unfold with_head. rewrite Eh. simpl. split; [eexists; reflexivity | exact R].
  - simpl. unfold with_head. rewrite Eh. simpl. split; [eexists; reflexivity | exact R].
  - simpl. unfold with_head. rewrite Eh. simpl. split; [eexists; reflexivity | exact R].
  - simpl. unfold with_head. rewrite Eh. simpl. split; [eexists; reflexivity | exact R].
  - simpl. unfold with_head. rewrite Eh. simpl. split; [eexists; reflexivity | exact R].
  - simpl. split; [exists h; auto | exact R].
  - simpl. split; [exists h; auto | exact R].
  - simpl. unfold reparse_with, parse_env. destruct (doc e); simpl; [|split; [exists h; auto | exact R]].
    rewrite (wf_no_nojws e R), andb_false_r. simpl. split; [exists h; auto | exact R].
Qed.

Lemma wf_new : wf new_envelope.
Proof. split; [eexists; reflexivity | reflexivity]. Qed.

Lemma wf_run fx e ops : wf e -> Forall api_op ops -> wf (run fx e ops).
Proof.
  revert e. induction ops as [|o r IH]; simpl; intros e W A; [exact W|].
  inversion A; subst. apply IH; [apply wf_step; assumption | assumption].
Qed.

Theorem reachable_wf fx ops : Forall api_op ops -> wf (run fx new_envelope ops).
Proof. intro A. apply wf_run; [apply wf_new | exact A]. Qed.

(* ==========================================================================================
   invariants over histories *)

(* (1) every signature was made over a header whose digest is that of a document valid for
   signing: "signed => at signing time valid with matching digest" *)
Definition sig_good (s : sigent) : Prop :=
  exists k h c, s = Sig k h /\ dig h = Some (doc_digest hash c) /\ vok c = true /\ code c = true.

Lemma sigs_good_step fx e o :
  api_op o -> Forall sig_good (sigs e) -> Forall sig_good (sigs (fst (step fx e o))).
Proof.
  intros A G. destruct o; simpl in A; try contradiction; clear A.
  - rewrite step_insert. destruct (head e); [rewrite calculate_sigs|]; exact G.
  - rewrite step_calculate, calculate_sigs. exact G.
  - simpl. destruct (doc e); exact G.
  - simpl. destruct (doc e); exact G.
  - rewrite sign_unfold. destruct (head e) as [h|] eqn:Eh; [|exact G]. cbv zeta.
    destruct (validate fx _) eqn:V; simpl.
    + apply Forall_app. split; [exact G|]. constructor; [|constructor].
      destruct (validate_ok_facts fx _ V) as (c & h' & d & Ed & Eh' & Edg & Al & Dv & Vk & Cd & _).
      simpl in Ed, Eh'. rewrite Eh in Eh'. inversion Eh'; subst h'.
      exists k, h, c. repeat split; auto.
      * rewrite Edg. destruct d as [a v]. simpl in Al, Dv. subst. reflexivity.
      * apply Cd. apply signed_app_sig.
    + constructor.
    + exfalso. exact (validate_nopanic fx _ V).
  - simpl. constructor.
  - simpl. unfold with_head. destruct (head e) as [h|]; exact G.
  - simpl. unfold with_head. destruct (head e) as [h|]; exact G.
  - simpl. unfold with_head. destruct (head e) as [h|]; exact G.
  - simpl. unfold with_head. destruct (head e) as [h|]; exact G.
  - simpl. unfold with_head. destruct (head e) as [h|]; exact G.
  - exact G.
  - exact G.
  - simpl. unfold reparse_with. destruct (doc e); [|exact G]. destruct (parse_env fx e) as [e2|] eqn:P; [|exact G].
    unfold parse_env in P. destruct (_ && _); inversion P; subst. exact G.
Qed.

Theorem signatures_cover_valid_content fx ops :
  Forall api_op ops ->
  Forall sig_good (sigs (run fx new_envelope ops)).
Proof.
  assert (G0 : Forall sig_good (sigs new_envelope)) by constructor.
  revert G0. generalize new_envelope. induction ops as [|o r IH]; simpl; intros e G A; [exact G|].
  inversion A; subst. apply IH; [apply sigs_good_step; assumption | assumption].
Qed.

(* (2) every entry of the signature list is a real signature *)
Definition sig_safe_op (fx : fixes) (o : op) : Prop :=
  o <> ReparseWithNullSig /\ (fix10 fx = true \/ o <> ReparseWithEmptySig).

Lemma forallb_real_rev l : forallb is_real l = true -> forallb is_real (rev l) = true.
Proof.
  intro H. apply forallb_forall. intros x Hin. apply in_rev in Hin. rewrite forallb_forall in H. apply H. exact Hin.
Qed.

Lemma existsb_nojws_rev l : existsb is_nojws l = false -> existsb is_nojws (rev l) = false.
Proof.
  intro H. destruct (existsb is_nojws (rev l)) eqn:E; [|reflexivity].
  apply existsb_exists in E as [x [Hin Hx]]. apply in_rev in Hin.
  assert (existsb is_nojws l = true) by (apply existsb_exists; exists x; auto). congruence.
Qed.

Lemma reparse_with_sigs fx e f :
  (forall e1, f e = Some e1 -> parse_env fx e1 <> None -> forallb is_real (sigs e1) = true) ->
  forallb is_real (sigs e) = true ->
  forallb is_real (sigs (fst (reparse_with fx e f))) = true.
Proof.
  intros Hf R. unfold reparse_with. destruct (doc e); [|exact R]. destruct (f e) as [e1|] eqn:E1; [|exact R].
  destruct (parse_env fx e1) as [e2|] eqn:P; [|exact R]. simpl.
  assert (e2 = e1) by (unfold parse_env in P; destruct (_ && _); inversion P; reflexivity). subst e2.
  apply Hf; [reflexivity | congruence].
Qed.

Lemma sigs_real_step fx e o :
  sig_safe_op fx o -> forallb is_real (sigs e) = true -> forallb is_real (sigs (fst (step fx e o))) = true.
Proof.
  intros [NN NE] R. destruct o; try congruence.
  - rewrite step_insert. destruct (head e); [rewrite calculate_sigs|]; exact R.
  - rewrite step_calculate, calculate_sigs. exact R.
  - simpl. destruct (doc e); exact R.
  - simpl. destruct (doc e); exact R.
  - rewrite sign_unfold. destruct (head e) as [h|]; [|exact R]. cbv zeta.
    destruct (validate fx _); simpl; try reflexivity; rewrite forallb_app, R; reflexivity.
  - reflexivity.
  - simpl. unfold with_head. destruct (head e) as [h|]; exact R.
  - simpl. unfold with_head. destruct (head e) as [h|]; exact R.
  - simpl. unfold with_head. destruct (head e); exact R.
  - simpl. unfold with_head. destruct (head e); exact R.
  - simpl. unfold with_head. destruct (head e); exact R.
  - exact R.
  - exact R.
  - simpl. apply reparse_with_sigs; [|exact R]. intros e1 E _. inversion E; subst. exact R.
  - (* ReparseWithEmptySig: with fix10 the text does not parse *)
    simpl. apply reparse_with_sigs; [|exact R]. intros e1 E P. inversion E; subst. exfalso. apply P.
    destruct NE as [F|NE]; [|congruence]. unfold parse_env. rewrite F. simpl. rewrite existsb_app. simpl.
    rewrite orb_true_r. reflexivity.
  - simpl. apply reparse_with_sigs; [|exact R]. intros e1 E _. inversion E; subst. exact R.
  - simpl. apply reparse_with_sigs; [|exact R]. intros e1 E _. unfold edit_head in E.
    destruct (head e); inversion E; subst. exact R.
  - simpl. apply reparse_with_sigs; [|exact R]. intros e1 E _. unfold edit_head in E.
    destruct (head e); inversion E; subst. exact R.
  - simpl. apply reparse_with_sigs; [|exact R]. intros e1 E _. unfold edit_head in E.
    destruct (head e); inversion E; subst. exact R.
  - simpl. unfold with_head. destruct (head e); exact R.
  - simpl. unfold with_head. destruct (head e); exact R.
  - simpl. unfold with_head. destruct (head e); exact R.
  - simpl. unfold with_head. destruct (head e); exact R.
  - simpl. unfold with_head. destruct (head e); exact R.
  - simpl. unfold with_head. destruct (head e); exact R.
  - simpl. unfold with_head. destruct (head e); exact R.
  - simpl. unfold with_head. destruct (head e); exact R.
  - simpl. destruct (head e); [|exact R]. simpl. rewrite forallb_app, R. reflexivity.
  - simpl. apply forallb_real_rev. exact R.
  - simpl. destruct (sigs e) as [|s l] eqn:Es; cbn [fst sigs set_sigs]; [rewrite Es; reflexivity|]. rewrite forallb_app, R.
    simpl in R. apply andb_true_iff in R as [R1 _]. simpl. rewrite R1. reflexivity.
  - simpl. destruct (sigs e) as [|s l] eqn:Es; simpl; [rewrite Es; reflexivity|]. simpl in R. apply andb_true_iff in R as [_ R2]. exact R2.
Qed.

Theorem every_signature_is_real fx ops :
  Forall (sig_safe_op fx) ops -> forallb is_real (sigs (run fx new_envelope ops)) = true.
Proof.
  assert (R0 : forallb is_real (sigs new_envelope) = true) by reflexivity.
  revert R0. generalize new_envelope. induction ops as [|o r IH]; simpl; intros e R A; [exact R|].
  inversion A; subst. apply IH; [apply sigs_real_step; assumption | assumption].
Qed.

(* with the repair, a signature without JWS never enters the list, by any operation at all *)
Lemma no_nojws_step e o :
  existsb is_nojws (sigs e) = false -> existsb is_nojws (sigs (fst (step repaired e o))) = false.
Proof.
  intro R.
  assert (RP : forall f, (forall e1, f e = Some e1 -> existsb is_nojws (sigs e1) = false \/ parse_env repaired e1 = None) ->
               existsb is_nojws (sigs (fst (reparse_with repaired e f))) = false).
  { intros f Hf. unfold reparse_with. destruct (doc e); [|exact R]. destruct (f e) as [e1|] eqn:E1; [|exact R].
    destruct (parse_env repaired e1) as [e2|] eqn:P; [|exact R]. simpl.
    assert (e2 = e1) by (unfold parse_env in P; destruct (_ && _); inversion P; reflexivity). subst e2.
    destruct (Hf e1 eq_refl) as [H|H]; [exact H | congruence]. }
  destruct o.
  - rewrite step_insert. destruct (head e); [rewrite calculate_sigs|]; exact R.
  - rewrite step_calculate, calculate_sigs. exact R.
  - simpl. destruct (doc e); exact R.
  - simpl. destruct (doc e); exact R.
  - rewrite sign_unfold. destruct (head e) as [h|]; [|exact R]. cbv zeta.
    destruct (validate repaired _); simpl; try reflexivity; rewrite existsb_app, R; reflexivity.
  - reflexivity.
  - simpl. unfold with_head. destruct (head e) as [h|]; exact R.
  - simpl. unfold with_head. destruct (head e) as [h|]; exact R.
  - simpl. unfold with_head. destruct (head e); exact R.
  - simpl. unfold with_head. destruct (head e); exact R.
  - simpl. unfold with_head. destruct (head e); exact R.
  - exact R.
  - exact R.
  - simpl. apply RP. intros e1 E. inversion E; subst. left. exact R.
  - simpl. apply RP. intros e1 E. inversion E; subst. right. unfold parse_env. simpl. rewrite existsb_app. simpl.
    rewrite orb_true_r. reflexivity.
  - simpl. apply RP. intros e1 E. inversion E; subst. left. simpl. rewrite existsb_app, R. reflexivity.
  - simpl. apply RP. intros e1 E. inversion E; subst. left. exact R.
  - simpl. apply RP. intros e1 E. left. unfold edit_head in E. destruct (head e); inversion E; subst. exact R.
  - simpl. apply RP. intros e1 E. left. unfold edit_head in E. destruct (head e); inversion E; subst. exact R.
  - simpl. apply RP. intros e1 E. left. unfold edit_head in E. destruct (head e); inversion E; subst. exact R.
  - simpl. unfold with_head. destruct (head e); exact R.
  - simpl. unfold with_head. destruct (head e); exact R.
  - simpl. unfold with_head. destruct (head e); exact R.
  - simpl. unfold with_head. destruct (head e); exact R.
  - simpl. unfold with_head. destruct (head e); exact R.
  - simpl. unfold with_head. destruct (head e); exact R.
  - simpl. unfold with_head. destruct (head e); exact R.
  - simpl. unfold with_head. destruct (head e); exact R.
  - simpl. destruct (head e); [|exact R]. simpl. rewrite existsb_app, R. reflexivity.
  - simpl. apply existsb_nojws_rev. exact R.
  - simpl. destruct (sigs e) as [|s l] eqn:Es; cbn [fst sigs set_sigs]; [rewrite Es; reflexivity|]. rewrite existsb_app, R.
    simpl in R. apply orb_false_iff in R as [R1 _]. simpl. rewrite R1. reflexivity.
  - simpl. destruct (sigs e) as [|s l] eqn:Es; simpl; [rewrite Es; reflexivity|]. simpl in R. apply orb_false_iff in R as [_ R2]. exact R2.
Qed.

Lemma no_nojws_run e ops :
  existsb is_nojws (sigs e) = false -> existsb is_nojws (sigs (run repaired e ops)) = false.
Proof.
  revert e. induction ops as [|o r IH]; simpl; intros e R; [exact R|]. apply IH. apply no_nojws_step. exact R.
Qed.

Theorem validated_signatures_are_real ops :
  let e := run repaired new_envelope ops in
  validate repaired e = OK -> forallb is_real (sigs e) = true.
Proof.
  intros e V. pose proof (no_nojws_run new_envelope ops eq_refl) as NJ. fold e in NJ.
  unfold Lifecycle.validate in V. destruct (v3_and _ _) eqn:W; try discriminate.
  apply v3_and_ok in W as [_ W]. apply v3_and_ok in W as [_ Vs]. unfold v_sigs in Vs. simpl in Vs.
  destruct (existsb is_nilsig (sigs e)) eqn:NS; [discriminate|].
  clear -NJ NS. induction (sigs e) as [|s l IH]; [reflexivity|]. simpl in *.
  destruct s; simpl in *; try discriminate. apply IH; assumption.
Qed.

End Proofs.

(* ==========================================================================================
   refutations on the code as shipped (witnesses by computation; any hash will do) *)
Definition h0 : content -> str := fun c => int_bytes (ver c).
Definition base0 : content := mkC 0 0 true false true true.

(* defect 10 (what commit 3e1b1c1 left open): "sigs":[""] parses to an entry without JWS; the
   envelope counts as signed and validates although nobody signed it - with stamps, which are
   accepted only on signed envelopes.  (Verify now fails instead of dereferencing nil.) *)
Lemma every_signature_is_real_shipped_refuted :
  exists ops, let e := run h0 shipped new_envelope ops in
    forallb is_real (sigs e) = false /\ signed e = true /\ validate h0 shipped e = OK /\
    (exists h, head e = Some h /\ stamps h <> []) /\
    verify e [] = ERR EValidation /\ verify e [0] = ERR EValidation.
Proof.
  exists [Insert base0; ReparseWithEmptySig; AddStamp (bs "p1") (bs "v1")]. vm_compute.
  repeat split; try reflexivity. eexists. split; [reflexivity | discriminate].
Qed.

(* outside the statement's operations: Sign on an envelope without header returns before it
   touches the signatures, so "a failed signing leaves the envelope unsigned" needs a header *)
Lemma failed_sign_without_header_keeps_signatures :
  exists ops fx, let e := run h0 fx new_envelope ops in
    snd (step h0 fx e (Sign 0)) = ERR EValidation /\ signed (fst (step h0 fx e (Sign 0))) = true.
Proof. exists [Insert base0; Sign 0; ReparseNilHead], repaired. vm_compute. split; reflexivity. Qed.

(* the witnesses of defect 11 (fixed in the repository by commit 3e1b1c1) no longer panic *)
Example former_nil_dereferences_return :
  verify (run h0 shipped new_envelope [Insert base0; Sign 0; ReparseNilHead]) [0] = ERR EValidation /\
  verify (run h0 shipped new_envelope [Insert base0; Sign 0; ReparseNilDig]) [0] = ERR EValidation /\
  validate h0 shipped (run h0 shipped new_envelope [Insert base0; ReparseNullLink]) = OK /\
  validate h0 shipped (run h0 shipped new_envelope [Insert base0; Sign 0; ReparseNullStamp; ReparseNullStamp]) = OK.
Proof. vm_compute. repeat split. Qed.

(* non-vacuity: a history on which all four facts hold and Sign succeeds; one where it is refused *)
Example sign_succeeds_example :
  snd (step h0 repaired (run h0 repaired new_envelope [Insert base0]) (Sign 0)) = OK.
Proof. vm_compute. reflexivity. Qed.
Example sign_refused_example :
  snd (step h0 repaired (run h0 repaired new_envelope [Insert base0; EditDoc]) (Sign 0)) = ERR EDigest.
Proof. vm_compute. reflexivity. Qed.
