(* Model of gobl.Envelope (envelope.go) as a state machine over the operations of the envelope
   API, the verification entry point of the command line / bulk / HTTP paths
   (internal/cli/verify.go), and the JSON-level surgery used to reach the nil states.
   No proofs in this file.

   The document is abstract: what the envelope code reads of it is
     - whether Calculate succeeds                         [cok]
     - whether it validates outside a signing context      [vok]
     - whether the invoice code is present                 [code] (bill/invoice.go: "required to
       sign invoice" when internal.IsSigned(ctx))
     - the digest of its canonical JSON                    [hash c]
   [hash] is a Section variable: nothing is assumed about it (no injectivity).  A content
   is identified by the base document [cid], the number of edits [ver], the code flag and
   whether it was edited since the last calculation [dirty].

   [fixes] selects, per open defect, the shipped code (false) or the proposed repair (true):
     fix9   internal/cli/verify.go compares the signed header (fixes/C09-9-*.diff)
     fix10  dsig.Signature: "" does not parse; Envelope validation requires every signature
            entry (fixes/C10-10-*.diff)
   "shipped" is the repository at commit b9cd510, i.e. with the nil guards of 3e1b1c1 in place. *)
From Coq Require Import ZArith List Bool String.
From Verif Require Import Base.Wire Env.Header Env.Sig.
Import ListNotations.
Open Scope Z_scope.

Record fixes := mkFx { fix9 : bool; fix10 : bool }.
Definition shipped : fixes := mkFx false false.
Definition repaired : fixes := mkFx true true.

Record content := mkC {
  cid : Z; ver : Z; code : bool; dirty : bool; cok : bool; vok : bool
}.

Record env := mkE {
  doc : option content;     (* None = the empty schema.Object of NewEnvelope *)
  head : option header;     (* *head.Header *)
  sigs : list sigent;       (* []*dsig.Signature *)
  ctr : Z                   (* source of fresh uuids (uuid.V7()) *)
}.

Inductive outcome := OK | ERR (k : errkey) | PANIC.

Inductive op :=
  (* the envelope API *)
  | Insert (d : content)
  | Calculate
  | EditDoc                       (* caller edits the extracted document, no recalculation *)
  | ToggleCode                    (* caller sets / clears the invoice code *)
  | Sign (k : keyid)
  | Unsign
  | AddStamp (p v : str)          (* Head.AddStamp: adds, or alters the stamp of provider p *)
  | AddLink (k u : str)           (* Head.AddLink: adds, or alters the link with key k *)
  | AddTag (t : str)
  | AddMeta (k v : str)
  | SetNotes (s : str)
  | Validate
  | Verify (ks : list keyid)      (* Verify(keys...); [] = contents only *)
  | Reparse                       (* json.Marshal then json.Unmarshal *)
  (* JSON-level surgery: serialise, edit the text, parse again *)
  | ReparseWithEmptySig           (* "sigs": [..., ""] *)
  | ReparseWithNullSig            (* "sigs": [..., null] *)
  | ReparseNilHead                (* "head": null *)
  | ReparseNilDig                 (* "dig": null *)
  | ReparseNullLink               (* "links": [..., null] *)
  | ReparseNullStamp              (* "stamps": [..., null] *)
  (* direct edits of the Go structures (what any holder of the envelope can do) *)
  | SetUuid (u : str)
  | SetDig (a v : str)
  | RmStamp (p : str)
  | RawStamp (p v : str)          (* append without looking for the provider *)
  | RmLink (k : str)
  | RawLink (k u : str)
  | RmTag (t : str)
  | RmMeta (k : str)
  | RawSign (k : keyid)           (* key holder k signs the current header; no validation *)
  | SwapSigs
  | DupSig
  | DropSig.

Definition AlterStamp := AddStamp.
Definition AlterLink := AddLink.
Definition VerifyNoKeys : op := Verify [].

Definition sha256 : str := bs "sha256"%string.
Definition fresh_uuid (n : Z) : str := bs "f"%string ++ int_bytes n.

Definition new_header (n : Z) : header := mkH (fresh_uuid n) None [] [] [] [] [].

(* gobl.NewEnvelope(), the harness then names the uuid "u0" *)
Definition new_envelope : env :=
  mkE None (Some (mkH (bs "u0"%string) None [] [] [] [] [])) [] 0.

Definition signed (e : env) : bool := match sigs e with [] => false | _ => true end.

Definition set_head (e : env) (h : option header) : env := mkE (doc e) h (sigs e) (ctr e).
Definition set_sigs (e : env) (l : list sigent) : env := mkE (doc e) (head e) l (ctr e).
Definition set_doc (e : env) (d : option content) : env := mkE d (head e) (sigs e) (ctr e).

Definition h_set_uuid (h : header) (u : str) : header :=
  mkH u (dig h) (stamps h) (links h) (tags h) (meta h) (notes h).
Definition h_set_dig (h : header) (d : option digest) : header :=
  mkH (uuid h) d (stamps h) (links h) (tags h) (meta h) (notes h).
Definition h_set_stamps (h : header) (l : list (option stamp)) : header :=
  mkH (uuid h) (dig h) l (links h) (tags h) (meta h) (notes h).
Definition h_set_links (h : header) (l : list (option link)) : header :=
  mkH (uuid h) (dig h) (stamps h) l (tags h) (meta h) (notes h).
Definition h_set_tags (h : header) (l : list str) : header :=
  mkH (uuid h) (dig h) (stamps h) (links h) l (meta h) (notes h).
Definition h_set_meta (h : header) (m : list (str * str)) : header :=
  mkH (uuid h) (dig h) (stamps h) (links h) (tags h) m (notes h).
Definition h_set_notes (h : header) (s : str) : header :=
  mkH (uuid h) (dig h) (stamps h) (links h) (tags h) (meta h) s.

Section WithHash.
Variable hash : content -> str.

Definition doc_digest (c : content) : digest := mkDig sha256 (hash c).

(* ---------------------------------------------------------------------------------------
   Envelope.ValidateWithContext + verifyDigest *)
Definition v_head (e : env) : v3 :=
  match head e with
  | None => VErr                                   (* validation.Required *)
  | Some h => validate_header (signed e) h
  end.
Definition v_doc (e : env) : v3 :=
  match doc e with
  | None => VErr                                   (* $schema of the empty object is blank *)
  | Some c => if vok c && (negb (signed e) || code c) then VOk else VErr
  end.
(* shipped: the elements of Signatures are not validated.
   fix10: validation.Each(validation.Required) rejects a nil entry (a non-nil *Signature
   is never "empty" for the validation library, whatever it holds) *)
Definition v_sigs (fx : fixes) (e : env) : v3 :=
  if fix10 fx && existsb is_nilsig (sigs e) then VErr else VOk.

Definition verify_digest (e : env) : outcome :=
  match doc e with
  | None => ERR EMarshal
  | Some c =>
    match head e with
    | None => PANIC
    | Some h =>
      match dig h with
      | None => PANIC                              (* d1.Equals on a nil receiver *)
      | Some d1 =>
        if negb (seqb (alg d1) sha256) then ERR EDigest        (* "algorithm mismatch" *)
        else if negb (seqb (dval d1) (hash c)) then ERR EDigest (* "mismatch" *)
        else OK
      end
    end
  end.

Definition validate (fx : fixes) (e : env) : outcome :=
  match v3_and (v_head e) (v3_and (v_doc e) (v_sigs fx e)) with
  | VErr => ERR EValidation
  | VOk => verify_digest e
  end.

(* ---------------------------------------------------------------------------------------
   Envelope.verifySignature / Envelope.Verify *)
Definition head_contains (e : env) (h2 : header) : bool := contains_opt (head e) h2.

(* the loop over the keys: a key that does not verify is skipped, the first that does decides *)
Fixpoint verify_sig_keys (e : env) (s : sigent) (ks : list keyid) : v3 :=
  match ks with
  | [] => VErr                                     (* "no key match found" *)
  | k :: r =>
    match verify_payload k s with
    | PFail => verify_sig_keys e s r
    | PHeader h => if head_contains e h then VOk else VErr    (* "header mismatch" *)
    end
  end.

Definition verify_signature (e : env) (s : sigent) (ks : list keyid) : v3 :=
  match ks with
  | [] =>
    match unsafe_payload s with
    | PFail => VErr                                (* "invalid signature payload" *)
    | PHeader h => if head_contains e h then VOk else VErr
    end
  | _ => verify_sig_keys e s ks
  end.

(* every signature is looked at, the errors are collected *)
Fixpoint verify_all (e : env) (l : list sigent) (ks : list keyid) : v3 :=
  match l with
  | [] => VOk
  | s :: r => v3_and (verify_signature e s ks) (verify_all e r ks)
  end.

Definition verify (e : env) (ks : list keyid) : outcome :=
  match sigs e with
  | [] => ERR ESignature                           (* ErrSignature "no signatures to verify" *)
  | l => match verify_all e l ks with
         | VOk => OK
         | VErr => ERR EValidation
         end
  end.

(* ---------------------------------------------------------------------------------------
   Parsing an envelope from its JSON text: Signature.UnmarshalJSON.
   shipped: "" gives a Signature without JWS; fix10: "" is an error. *)
Definition parse_env (fx : fixes) (e : env) : option env :=
  if fix10 fx && existsb is_nojws (sigs e) then None else Some e.

(* ---------------------------------------------------------------------------------------
   internal/cli.Verify on an envelope already parsed: validate, key, signed, signature.
   shipped: Signatures[0].VerifyPayload(key, env) - the payload is unmarshalled into the
            envelope (no member matches: nothing happens) and never compared;
   fix9:    Signatures[0].VerifyPayload(key, new(head.Header)) then env.Verify(key). *)
Definition cli_verify_parsed (fx : fixes) (e : env) (key : option keyid) : outcome :=
  match validate fx e with
  | OK =>
    match key with
    | None => ERR EOther                           (* 400 "public key required" *)
    | Some k =>
      match sigs e with
      | [] => ERR EOther                           (* 422 "envelope is not signed" *)
      | s0 :: _ =>
        match verify_payload k s0 with
        | PFail => ERR EOther                      (* 422 "key mismatch" *)
        | PHeader _ => if fix9 fx then verify e [k] else OK
        end
      end
    end
  | r => r
  end.

(* the whole entry point: the envelope is presented as JSON text *)
Definition cli_verify (fx : fixes) (e : env) (key : option keyid) : outcome :=
  match parse_env fx e with
  | None => ERR EUnmarshal
  | Some e' => cli_verify_parsed fx e' key
  end.

(* ---------------------------------------------------------------------------------------
   Envelope.calculate (after the callers' checks) *)
Definition calculate (e : env) : env * outcome :=
  match doc e with
  | None => (e, ERR ENoDocument)
  | Some c =>
    if negb (cok c) then (e, ERR ECalculation)
    else
      let c' := mkC (cid c) (ver c) (code c) false (cok c) (vok c) in
      let '(h, n) := match head e with
                     | None => (new_header (ctr e), ctr e + 1)       (* head.NewHeader() *)
                     | Some h => if is_empty (uuid h)
                                 then (h_set_uuid h (fresh_uuid (ctr e)), ctr e + 1)
                                 else (h, ctr e)
                     end in
      (mkE (Some c') (Some (h_set_dig h (Some (doc_digest c')))) (sigs e) n, OK)
  end.

(* serialise, edit, parse *)
Definition reparse_with (fx : fixes) (e : env) (edit : env -> option env) : env * outcome :=
  match doc e with
  | None => (e, ERR EMarshal)                      (* the empty object does not marshal *)
  | Some _ =>
    match edit e with
    | None => (e, ERR ESkip)
    | Some e1 => match parse_env fx e1 with
                 | None => (e, ERR EUnmarshal)
                 | Some e2 => (e2, OK)
                 end
    end
  end.

Definition with_head (e : env) (f : header -> result header) : env * outcome :=
  match head e with
  | None => (e, PANIC)                             (* e.Head.X on a nil head *)
  | Some h => match f h with
              | Ok h' => (set_head e (Some h'), OK)
              | Err k => (e, ERR k)
              | Panic => (e, PANIC)
              end
  end.
Definition edit_head (e : env) (f : header -> option header) : option env :=
  match head e with
  | None => None
  | Some h => match f h with Some h' => Some (set_head e (Some h')) | None => None end
  end.

Definition is_prv (p : str) (s : option stamp) : bool :=
  match s with Some a => seqb (prv a) p | None => false end.
Definition is_lkey (k : str) (l : option link) : bool :=
  match l with Some a => seqb (lkey a) k | None => false end.

Definition step (fx : fixes) (e : env) (o : op) : env * outcome :=
  match o with
  | Insert d =>
    match head e with
    | None => (e, ERR EInternal)                   (* "missing head" *)
    | Some _ => let e1 := set_doc e (Some d) in
                calculate e1
    end
  | Calculate => calculate e
  | EditDoc =>
    match doc e with
    | None => (e, ERR ESkip)
    | Some c => (set_doc e (Some (mkC (cid c) (ver c + 1) (code c) true (cok c) (vok c))), OK)
    end
  | ToggleCode =>
    match doc e with
    | None => (e, ERR ESkip)
    | Some c => (set_doc e (Some (mkC (cid c) (ver c) (negb (code c)) (dirty c) (cok c) (vok c))), OK)
    end
  | Sign k =>
    match head e with
    | None => (e, ERR EValidation)                 (* "header required" *)
    | Some h =>
      let e1 := set_sigs e (sigs e ++ [sign_header k h]) in
      match validate fx e1 with
      | OK => (e1, OK)
      | ERR r => (set_sigs e [], ERR r)            (* "invalid envelopes cannot be signed" *)
      | PANIC => (e1, PANIC)                       (* a panic would skip the clean-up (cannot happen: proved) *)
      end
    end
  | Unsign => (set_sigs e [], OK)
  | AddStamp p v => with_head e (fun h => Ok (h_set_stamps h (add_stamp (stamps h) (mkStamp p v))))
  | AddLink k u => with_head e (fun h => Ok (h_set_links h (append_link (links h) (mkLink k u))))
  | AddTag t => with_head e (fun h => Ok (h_set_tags h (tags h ++ [t])))
  | AddMeta k v => with_head e (fun h => Ok (h_set_meta h (set_meta (meta h) k v)))
  | SetNotes s => with_head e (fun h => Ok (h_set_notes h s))
  | Validate => (e, validate fx e)
  | Verify ks => (e, verify e ks)
  | Reparse => reparse_with fx e (fun e => Some e)
  | ReparseWithEmptySig => reparse_with fx e (fun e => Some (set_sigs e (sigs e ++ [NoJws])))
  | ReparseWithNullSig => reparse_with fx e (fun e => Some (set_sigs e (sigs e ++ [NilSig])))
  | ReparseNilHead => reparse_with fx e (fun e => Some (set_head e None))
  | ReparseNilDig => reparse_with fx e (fun e => edit_head e (fun h => Some (h_set_dig h None)))
  | ReparseNullLink =>
    reparse_with fx e (fun e => edit_head e (fun h => Some (h_set_links h (links h ++ [None]))))
  | ReparseNullStamp =>
    reparse_with fx e (fun e => edit_head e (fun h => Some (h_set_stamps h (stamps h ++ [None]))))
  | SetUuid u => with_head e (fun h => Ok (h_set_uuid h u))
  | SetDig a v => with_head e (fun h => Ok (h_set_dig h (Some (mkDig a v))))
  | RmStamp p => with_head e (fun h => Ok (h_set_stamps h (filter (fun s => negb (is_prv p s)) (stamps h))))
  | RawStamp p v => with_head e (fun h => Ok (h_set_stamps h (stamps h ++ [Some (mkStamp p v)])))
  | RmLink k => with_head e (fun h => Ok (h_set_links h (filter (fun l => negb (is_lkey k l)) (links h))))
  | RawLink k u => with_head e (fun h => Ok (h_set_links h (links h ++ [Some (mkLink k u)])))
  | RmTag t => with_head e (fun h => Ok (h_set_tags h (filter (fun x => negb (seqb x t)) (tags h))))
  | RmMeta k => with_head e (fun h => Ok (h_set_meta h (rm_meta (meta h) k)))
  | RawSign k =>
    match head e with
    | None => (e, ERR ESkip)
    | Some h => (set_sigs e (sigs e ++ [sign_header k h]), OK)
    end
  | SwapSigs => (set_sigs e (rev (sigs e)), OK)
  | DupSig => match sigs e with
              | [] => (e, ERR ESkip)
              | s :: _ => (set_sigs e (sigs e ++ [s]), OK)
              end
  | DropSig => match sigs e with
               | [] => (e, ERR ESkip)
               | _ :: r => (set_sigs e r, OK)
               end
  end.

(* a history: the states and the outcomes, step by step *)
Definition run (fx : fixes) (e : env) (ops : list op) : env :=
  fold_left (fun s o => fst (step fx s o)) ops e.

Fixpoint trace (fx : fixes) (e : env) (ops : list op) : list (outcome * env) :=
  match ops with
  | [] => []
  | o :: r => let '(e', x) := step fx e o in (x, e') :: trace fx e' r
  end.

End WithHash.
