(* The abstract state of an envelope (property C10) and the decision table of the outcomes.
   Definitions only, no proofs.

   The four facts of the property statement:
     a_digest      the header digest is the sha256 digest of the document
     a_valid_sign  the envelope is valid for signing (document present and valid, invoice
                   code present, header structurally sound; stamps are allowed)
     a_signed      signatures are present
     a_contains    for every signature, in order: who signed and whether the header still
                   contains the header that was signed
   refined by what the code reads besides them:
     a_valid_unsigned  validity OUTSIDE a signing context.  Needed because fact 2 is not what an
                   unsigned Validate checks: unsigned, the invoice code is optional (bill/invoice.go)
                   and stamps must be absent (head/header.go) - two documents with the same four
                   facts can differ in the outcome of Validate (valid without code: Validate ok,
                   Sign refused; with a stamp: Validate refused, Sign ok).
     a_doc, a_calc     whether a document is present and calculates (outcome of Calculate, EditDoc,
                   ToggleCode, Reparse); they say nothing about signing and are not among the four.
   The signer of each signature is kept in a_contains because Verify(k) asks for it.

   Domain: well-formed envelopes ([wf]): a header is present and every signature entry is a
   real one - what the API operations keep true from NewEnvelope on. *)
From Coq Require Import ZArith List Bool.
From Verif Require Import Base.Wire Env.Header Env.Sig Env.Lifecycle.
Import ListNotations.
Open Scope Z_scope.

Record absst := mkAbs {
  a_doc : bool;
  a_calc : bool;
  a_digest : bool;
  a_valid_sign : bool;
  a_valid_unsigned : bool;
  a_signed : bool;
  a_contains : list (keyid * bool)
}.

(* structural soundness of the header, the part of header validation that does not depend on the
   signing context: uuid present, digest present with algorithm and value, no duplicate stamp
   provider, no duplicate link key *)
Definition head_sound (h : header) : bool :=
  negb (is_empty (uuid h))
  && match dig h with Some d => negb (is_empty (alg d) || is_empty (dval d)) | None => false end
  && match detect_dup_stamps [] (stamps h) with VOk => true | _ => false end
  && match detect_dup_links [] (links h) with VOk => true | _ => false end.

Section WithHash.
Variable hash : content -> str.

Definition digest_matches (e : env) : bool :=
  match doc e, head e with
  | Some c, Some h => match dig h with
                      | Some d => seqb (alg d) sha256 && seqb (dval d) (hash c)
                      | None => false
                      end
  | _, _ => false
  end.

Definition valid_for_signing (e : env) : bool :=
  match doc e, head e with
  | Some c, Some h => vok c && code c && head_sound h
  | _, _ => false
  end.

Definition valid_unsigned (e : env) : bool :=
  match doc e, head e with
  | Some c, Some h => vok c && head_sound h && match stamps h with [] => true | _ => false end
  | _, _ => false
  end.

Definition sig_fact (e : env) (s : sigent) : keyid * bool :=
  match s with
  | Sig k h2 => (k, contains_opt (head e) h2)
  | _ => (-1, false)
  end.

Definition abs (e : env) : absst :=
  mkAbs (match doc e with Some _ => true | None => false end)
        (match doc e with Some c => cok c | None => false end)
        (digest_matches e)
        (valid_for_signing e)
        (valid_unsigned e)
        (signed e)
        (map (sig_fact e) (sigs e)).

End WithHash.

Definition wf (e : env) : Prop :=
  (exists h, head e = Some h) /\ forallb is_real (sigs e) = true.

Definition api_op (o : op) : Prop :=
  match o with
  | Insert _ | Calculate | EditDoc | ToggleCode | Sign _ | Unsign | AddStamp _ _ | AddLink _ _
  | AddTag _ | AddMeta _ _ | SetNotes _ | Validate | Verify _ | Reparse => True
  | _ => False
  end.

(* ---- the decision table ---- *)
Definition validate_tbl (signed_ctx : bool) (a : absst) : outcome :=
  if (if signed_ctx then a_valid_sign a else a_valid_unsigned a)
  then (if a_digest a then OK else ERR EDigest)
  else ERR EValidation.

Definition sig_verdict (ks : list keyid) (f : keyid * bool) : bool :=
  match ks with
  | [] => snd f
  | _ => existsb (Z.eqb (fst f)) ks && snd f
  end.

Definition verify_tbl (a : absst) (ks : list keyid) : outcome :=
  match a_contains a with
  | [] => ERR ESignature
  | l => if forallb (sig_verdict ks) l then OK else ERR EValidation
  end.

Definition outcome_table (a : absst) (o : op) : outcome :=
  match o with
  | Insert d => if cok d then OK else ERR ECalculation
  | Calculate => if a_doc a then (if a_calc a then OK else ERR ECalculation) else ERR ENoDocument
  | EditDoc | ToggleCode => if a_doc a then OK else ERR ESkip
  | Sign _ => validate_tbl true a
  | Validate => validate_tbl (a_signed a) a
  | Verify ks => verify_tbl a ks
  | Reparse => if a_doc a then OK else ERR EMarshal
  | _ => OK
  end.
