(* The proposed repairs change nothing on the states the API operations reach: on every history
   of API operations from NewEnvelope the code as shipped and the repaired code go through the
   same states with the same outcomes.  (They differ only where a signature entry is not a real
   signature, which takes a hand-written "sigs":[""] or [null], and on the command-line
   verification path, which is not an envelope operation.) *)
From Coq Require Import ZArith List Bool Lia String.
From Verif Require Import Base.Wire Env.Header Env.HeaderProofs Env.Sig Env.Lifecycle Env.Abs Env.LifecycleProofs.
Import ListNotations.
Open Scope Z_scope.

Section Same.
Variable hash : content -> str.
Notation validate := (validate hash).
Notation step := (step hash).
Notation run := (run hash).

Lemma validate_same e : wf e -> validate shipped e = validate repaired e.
Proof.
  intros [[h Eh] R]. rewrite (validate_wf hash shipped e h Eh R), (validate_wf hash repaired e h Eh R). reflexivity.
Qed.

Lemma step_same e o : wf e -> api_op o -> step shipped e o = step repaired e o.
Proof.
  intros W A. destruct o; simpl in A; try contradiction; try reflexivity.
  - (* Sign *) rewrite !sign_unfold. destruct W as [[h Eh] R]. rewrite Eh. cbv zeta.
    rewrite validate_same; [reflexivity|]. split; [exists h; auto|]. simpl. rewrite forallb_app, R. reflexivity.
  - (* Validate *) simpl. rewrite validate_same by exact W. reflexivity.
  - (* Reparse *) simpl. unfold reparse_with, parse_env. destruct W as [_ R]. rewrite (wf_no_nojws e R). simpl.
    reflexivity.
Qed.

Theorem repairs_invisible_on_api_histories ops :
  Forall api_op ops ->
  run shipped new_envelope ops = run repaired new_envelope ops /\
  trace hash shipped new_envelope ops = trace hash repaired new_envelope ops.
Proof.
  assert (G : forall e, wf e -> Forall api_op ops ->
              run shipped e ops = run repaired e ops /\ trace hash shipped e ops = trace hash repaired e ops).
  { induction ops as [|o r IH]; intros e S A; [split; reflexivity|]. inversion A; subst.
    unfold Lifecycle.run in *. simpl. rewrite (step_same e o S H1).
    destruct (Lifecycle.step hash repaired e o) as [e' x] eqn:St.
    assert (S' : wf e') by (pose proof (wf_step hash repaired e o S H1) as Q; rewrite St in Q; exact Q).
    destruct (IH e' S' H2) as [I1 I2]. simpl. rewrite I1, I2. split; reflexivity. }
  intro A. apply G; [apply wf_new | exact A].
Qed.

End Same.
