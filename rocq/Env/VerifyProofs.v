(* Proofs about signature verification (property C09) over Env/Lifecycle.v. *)
From Coq Require Import ZArith List Bool Lia String.
From Verif Require Import Base.Wire Env.Header Env.HeaderProofs Env.Sig Env.Lifecycle Env.Abs Env.LifecycleProofs.
Import ListNotations.
Open Scope Z_scope.

(* ---- Verify, signature by signature (repaired Contains / nil-safe payloads) ---- *)
Lemma verify_all_app e l1 l2 ks :
  verify_all e (l1 ++ l2) ks = v3_and (verify_all e l1 ks) (verify_all e l2 ks).
Proof.
  induction l1 as [|s l IH]; simpl.
  - destruct (verify_all e l2 ks); reflexivity.
  - rewrite IH. destruct (verify_signature e s ks), (verify_all e l ks), (verify_all e l2 ks); reflexivity.
Qed.

Lemma verify_all_ok e l ks :
  verify_all e l ks = VOk <-> forall s, In s l -> verify_signature e s ks = VOk.
Proof.
  induction l as [|s l IH]; simpl.
  - split; [intros _ s [] | reflexivity].
  - rewrite v3_and_ok, IH. split.
    + intros [H1 H2] x [E|Hin]; [subst; exact H1 | apply H2; exact Hin].
    + intro H. split; [apply H; left; reflexivity | intros x Hin; apply H; right; exact Hin].
Qed.

Lemma verify_ok_iff e ks :
  verify e ks = OK <-> sigs e <> [] /\ forall s, In s (sigs e) -> verify_signature e s ks = VOk.
Proof.
  unfold verify. destruct (sigs e) as [|s0 l] eqn:Es.
  - split; [discriminate | intros [H _]; congruence].
  - rewrite <- verify_all_ok. destruct (verify_all e (s0 :: l) ks); split; intro H; try discriminate; auto.
    + split; [discriminate | reflexivity].
    + destruct H; discriminate.
Qed.

Lemma verify_signature_unreal e s ks : s = NoJws \/ s = NilSig -> verify_signature e s ks = VErr.
Proof.
  intros S. assert (K : forall l, verify_sig_keys e s l = VErr).
  { induction l as [|k l IH]; simpl; [reflexivity|]. destruct S; subst; simpl; exact IH. }
  unfold verify_signature. destruct ks as [|k0 r]; [destruct S; subst; reflexivity | apply K].
Qed.

(* one signature verifies iff it is a real signature by one of the keys (any
   signer when no key is given) over a header the envelope's header still contains *)
Lemma verify_signature_ok e s ks :
  verify_signature e s ks = VOk <->
  exists k h2, s = Sig k h2 /\ (ks = [] \/ In k ks) /\ contains_opt (head e) h2 = true.
Proof.
  destruct s as [k h2| |].
  - rewrite (verify_signature_real e k h2 ks). unfold sig_verdict, sig_fact, b2v.
    destruct ks as [|k0 r]; cbn [fst snd].
    + destruct (contains_opt (head e) h2) eqn:C; split; intro H; try discriminate; try reflexivity.
      * exists k, h2. split; [reflexivity|]. split; [left; reflexivity | exact C].
      * destruct H as (k' & h' & E & _ & C'). inversion E; subst. congruence.
    + destruct (existsb (Z.eqb k) (k0 :: r)) eqn:X; destruct (contains_opt (head e) h2) eqn:C; simpl;
        split; intro H; try discriminate; try reflexivity.
      * exists k, h2. split; [reflexivity|]. split; [|exact C]. right.
        apply existsb_exists in X as [x [Hin Hx]]. apply Z.eqb_eq in Hx. subst. exact Hin.
      * destruct H as (k' & h' & E & _ & C'). inversion E; subst. congruence.
      * destruct H as (k' & h' & E & [K|K] & _); [discriminate|]. inversion E; subst.
        assert (existsb (Z.eqb k') (k0 :: r) = true) by (apply existsb_exists; exists k'; split; [exact K | apply Z.eqb_refl]).
        congruence.
      * destruct H as (k' & h' & E & _ & C'). inversion E; subst. congruence.
  - rewrite verify_signature_unreal by (left; reflexivity). split; [discriminate | intros (k & h & E & _); discriminate].
  - rewrite verify_signature_unreal by (right; reflexivity). split; [discriminate | intros (k & h & E & _); discriminate].
Qed.

(* ---- verify_sound: what a successful Verify establishes, member by member ---- *)
Theorem verify_sound e ks :
  verify e ks = OK ->
  sigs e <> [] /\
  exists hd, head e = Some hd /\
  forall s, In s (sigs e) ->
    exists k h, s = Sig k h /\ (ks = [] \/ In k ks) /\
      covers_uuid hd h /\ covers_dig hd h /\ covers_stamps hd h /\ covers_links hd h /\
      covers_tags hd h /\ covers_meta hd h /\ covers_notes hd h.
Proof.
  intro V. apply verify_ok_iff in V as [NE V]. split; [exact NE|].
  destruct (sigs e) as [|s0 l] eqn:Es; [congruence|].
  destruct (proj1 (verify_signature_ok e s0 ks) (V s0 (or_introl eq_refl))) as (k0 & h0 & _ & _ & C0).
  destruct (head e) as [hd|] eqn:Eh; [|discriminate]. exists hd. split; [reflexivity|].
  intros s Hin. destruct (proj1 (verify_signature_ok e s ks) (V s Hin)) as (k & h & E & K & C).
  exists k, h. split; [exact E|]. split; [exact K|]. rewrite Eh in C. simpl in C. apply contains_iff in C. exact C.
Qed.

(* and conversely: Verify accepts exactly that *)
Theorem verify_complete e ks hd :
  sigs e <> [] -> head e = Some hd ->
  (forall s, In s (sigs e) -> exists k h, s = Sig k h /\ (ks = [] \/ In k ks) /\ covers hd h) ->
  verify e ks = OK.
Proof.
  intros NE Eh H. apply verify_ok_iff. split; [exact NE|]. intros s Hin. apply verify_signature_ok.
  destruct (H s Hin) as (k & h & E & K & C). exists k, h. split; [exact E|]. split; [exact K|].
  rewrite Eh. simpl. apply contains_iff. exact C.
Qed.

(* ---- wrong key ---- *)
Theorem verify_wrong_key_fails e k ks :
  sigs e <> [] -> (exists h, In (Sig k h) (sigs e)) -> ks <> [] -> ~ In k ks ->
  verify e ks = ERR EValidation.
Proof.
  intros NE [h Hin] NK NI.
  assert (N : verify e ks <> OK).
  { intro V. apply verify_ok_iff in V as [_ V]. specialize (V _ Hin). apply verify_signature_ok in V.
    destruct V as (k' & h' & E & [K|K] & _); [contradiction|]. inversion E; subst. contradiction. }
  unfold verify in *. destruct (sigs e); [congruence|]. destruct (verify_all _ _ _); congruence.
Qed.

Section WithHash.
Variable hash : content -> str.
Notation validate := (validate hash).
Notation step := (step hash).
Notation run := (run hash).
Notation cli_verify := (cli_verify hash).

(* ---- sign then verify ---- *)
Lemma verify_signature_head_ext e e' s ks :
  head e' = head e -> verify_signature e' s ks = verify_signature e s ks.
Proof.
  intro H. unfold verify_signature.
  assert (HC : forall h2, head_contains e' h2 = head_contains e h2) by (intro; unfold head_contains; rewrite H; reflexivity).
  destruct ks as [|k0 r].
  - destruct (unsafe_payload s); try reflexivity. rewrite HC. reflexivity.
  - generalize (k0 :: r). intro l. induction l as [|k l IH]; simpl; [reflexivity|].
    destruct (verify_payload k s); [rewrite HC; reflexivity | exact IH].
Qed.

Theorem sign_then_verify e k ks h :
  head e = Some h -> wf_meta h ->
  (sigs e = [] \/ verify e ks = OK) -> (ks = [] \/ In k ks) ->
  snd (step repaired e (Sign k)) = OK ->
  verify (fst (step repaired e (Sign k))) ks = OK.
Proof.
  intros Eh WM Prior K S. destruct (sign_ok_state hash repaired e k S) as (h' & Eh' & Est & _).
  rewrite Eh in Eh'. inversion Eh'; subst h'. rewrite Est. apply verify_ok_iff. simpl. split.
  - destruct (sigs e); discriminate.
  - intros s Hin. apply in_app_or in Hin as [Hin|[E|[]]].
    + destruct Prior as [P|P]; [rewrite P in Hin; contradiction|].
      apply verify_ok_iff in P as [_ P]. rewrite verify_signature_head_ext with (e := e); [apply P; exact Hin | reflexivity].
    + subst s. apply verify_signature_ok. exists k, h. split; [reflexivity|]. split; [exact K|].
      simpl. rewrite Eh. simpl. apply contains_refl. exact WM.
Qed.

(* ---- additions that do not overwrite a covered entry keep Verify succeeding ---- *)
Definition safe_add (e : env) (o : op) : Prop :=
  match o, head e with
  | AddStamp p _, Some h => existsb (is_prv p) (stamps h) = false
  | AddLink k _, Some h => existsb (is_lkey k) (links h) = false
  | AddTag _, _ => True
  | AddMeta k _, Some h => lookup k (meta h) = None
  | _, _ => False
  end.

Fixpoint safe_adds (e : env) (ops : list op) : Prop :=
  match ops with
  | [] => True
  | o :: r => safe_add e o /\ safe_adds (fst (step repaired e o)) r
  end.

Definition head_grows (e e' : env) : Prop :=
  sigs e' = sigs e /\
  match head e, head e' with
  | Some h, Some h' => grows h h'
  | None, None => True
  | _, _ => False
  end.

Lemma is_prv_ext p l :
  existsb (is_prv p) l = existsb (fun x => match x with Some a => seqb (prv a) p | None => false end) l.
Proof. reflexivity. Qed.

Lemma safe_add_grows e o : safe_add e o -> head_grows e (fst (step repaired e o)).
Proof.
  unfold safe_add, head_grows. destruct o; try contradiction; destruct (head e) as [h|] eqn:Eh; try contradiction; intro S.
  - (* AddStamp *) simpl. unfold with_head. rewrite Eh. simpl. split; [reflexivity|].
    unfold grows. simpl. repeat split; auto. intros s Hin.
    apply (add_stamp_fresh_keeps (stamps h) (mkStamp p v)); [exact S | exact Hin].
  - (* AddLink *) simpl. unfold with_head. rewrite Eh. simpl. split; [reflexivity|].
    unfold grows. simpl. repeat split; auto. intros s Hin.
    apply (append_link_fresh_keeps (links h) (mkLink k u)); [exact S | exact Hin].
  - (* AddTag *) simpl. unfold with_head. rewrite Eh. simpl. split; [reflexivity|]. unfold grows. simpl. repeat split; auto.
    intros t' Hin. apply in_or_app. left. exact Hin.
  - simpl. unfold with_head. rewrite Eh. simpl. rewrite Eh. auto.
  - (* AddMeta *) simpl. unfold with_head. rewrite Eh. simpl. split; [reflexivity|]. unfold grows. simpl. repeat split; auto.
    intros k' v' L. apply set_meta_fresh_keeps; assumption.
Qed.

Lemma head_grows_verify e e' ks :
  head_grows e e' -> verify e ks = OK -> verify e' ks = OK.
Proof.
  intros [Es G] V. apply verify_ok_iff in V as [NE V]. apply verify_ok_iff. rewrite Es. split; [exact NE|].
  intros s Hin. apply verify_signature_ok. destruct (proj1 (verify_signature_ok e s ks) (V s Hin)) as (k & h2 & E & K & C).
  exists k, h2. split; [exact E|]. split; [exact K|].
  destruct (head e) as [h|]; destruct (head e') as [h'|]; try contradiction; try discriminate.
  simpl in *. apply (contains_grows h h' h2 G C).
Qed.

Theorem verify_stable_under_additions ops : forall e ks,
  safe_adds e ops -> verify e ks = OK -> verify (run repaired e ops) ks = OK.
Proof.
  induction ops as [|o r IH]; simpl; intros e ks S V; [exact V|].
  destruct S as [S1 S2]. apply IH; [exact S2|]. apply (head_grows_verify e); [apply safe_add_grows; exact S1 | exact V].
Qed.

(* ---- a changed digest breaks every signature that covers the old one ---- *)
Lemma dig_string_inj_val a v1 v2 : dig_string (mkDig a v1) = dig_string (mkDig a v2) -> v1 = v2.
Proof.
  unfold dig_string. simpl. intro H. apply app_inv_head in H. inversion H. reflexivity.
Qed.

Lemma verify_digest_covered e ks k h2 c c' hd :
  In (Sig k h2) (sigs e) -> dig h2 = Some (doc_digest hash c) ->
  head e = Some hd -> dig hd = Some (doc_digest hash c') ->
  verify e ks = OK -> hash c' = hash c.
Proof.
  intros Hin D2 Eh D V. destruct (verify_sound e ks V) as (_ & hd' & Eh' & H). rewrite Eh in Eh'. inversion Eh'; subst hd'.
  destruct (H _ Hin) as (k' & h' & E & _ & _ & CD & _). inversion E; subst.
  destruct (CD _ D2) as (d & Ed & Estr). rewrite D in Ed. inversion Ed; subst d.
  apply dig_string_inj_val in Estr. exact Estr.
Qed.

(* the concrete history of the statement: sign, modify the document, recalculate *)
Theorem verify_after_recalc_fails e k ks c :
  doc e = Some c -> cok c = true ->
  snd (step repaired e (Sign k)) = OK ->
  let e1 := fst (step repaired e (Sign k)) in
  let e3 := run repaired e1 [EditDoc; Calculate] in
  let c3 := mkC (cid c) (ver c + 1) (code c) false (cok c) (vok c) in
  verify e3 ks <> OK \/ hash c3 = hash c.
Proof.
  intros Ed Ck S e1 e3 c3.
  destruct (sign_ok_state hash repaired e k S) as (h & Eh & Est & V).
  destruct (validate_ok_facts hash repaired _ V) as (c0 & h0 & d & Ed0 & Eh0 & Edg & Al & Dv & _).
  simpl in Ed0, Eh0. rewrite Ed in Ed0. inversion Ed0; subst c0. rewrite Eh in Eh0. inversion Eh0; subst h0.
  destruct (verify e3 ks) eqn:VV; try (left; discriminate). right.
  assert (D2 : dig h = Some (doc_digest hash c)) by (rewrite Edg; destruct d as [a v]; simpl in Al, Dv; subst; reflexivity).
  assert (NE : is_empty (uuid h) = false).
  { unfold Lifecycle.validate in V. destruct (v3_and _ _) eqn:W; try discriminate. apply v3_and_ok in W as [Vh _].
    unfold v_head in Vh. simpl in Vh. rewrite Eh in Vh. unfold validate_header in Vh. apply v3_and_ok in Vh as [Vu _].
    unfold v_uuid in Vu. destruct (is_empty (uuid h)); [discriminate | reflexivity]. }
  assert (E3 : e3 = mkE (Some c3) (Some (h_set_dig h (Some (doc_digest hash c3)))) (sigs e ++ [Sig k h]) (ctr e)).
  { unfold e3, e1, c3. rewrite Est. unfold Lifecycle.run. simpl. rewrite Ed. simpl. unfold calculate. simpl. rewrite Ck. simpl.
    rewrite Eh, NE. reflexivity. }
  apply (verify_digest_covered e3 ks k h c c3 (h_set_dig h (Some (doc_digest hash c3)))); try exact VV; try exact D2.
  - rewrite E3. simpl. apply in_or_app. right. left. reflexivity.
  - rewrite E3. reflexivity.
  - reflexivity.
Qed.

(* ---- the entry points agree ---- *)
Lemma verify_nojws_fails e ks : existsb is_nojws (sigs e) = true -> verify e ks <> OK.
Proof.
  intros X V. apply existsb_exists in X as [s [Hin Hs]]. apply verify_ok_iff in V as [_ V].
  specialize (V _ Hin). apply verify_signature_ok in V. destruct V as (k & h & E & _). subst. discriminate.
Qed.

Theorem entry_points_agree e k :
  cli_verify repaired e (Some k) = OK <-> validate repaired e = OK /\ verify e [k] = OK.
Proof.
  unfold Lifecycle.cli_verify, parse_env. simpl. destruct (existsb is_nojws (sigs e)) eqn:X.
  - split; [discriminate|]. intros [_ V]. exfalso. exact (verify_nojws_fails e [k] X V).
  - unfold cli_verify_parsed. destruct (validate repaired e) eqn:Va.
    + destruct (sigs e) as [|s0 l] eqn:Es.
      * split; [discriminate|]. intros [_ V]. unfold verify in V. rewrite Es in V. discriminate.
      * destruct (verify_payload k s0) eqn:P.
        -- simpl. tauto.
        -- split; [discriminate|]. intros [_ V]. exfalso. apply verify_ok_iff in V as [_ V].
           assert (Hin : In s0 (sigs e)) by (rewrite Es; left; reflexivity).
           specialize (V _ Hin). apply verify_signature_ok in V. destruct V as (k' & h' & E & [K|[K|[]]] & _); [discriminate|].
           subst. simpl in P. rewrite Z.eqb_refl in P. discriminate.
    + split; [discriminate | intros [H _]; discriminate].
    + split; [discriminate | intros [H _]; discriminate].
Qed.

(* cli_verify never reports success for content the key holder did not sign *)
Corollary cli_verify_sound e k :
  cli_verify repaired e (Some k) = OK ->
  validate repaired e = OK /\ sigs e <> [] /\
  exists hd, head e = Some hd /\ forall s, In s (sigs e) -> exists h, s = Sig k h /\ covers hd h.
Proof.
  intro C. apply entry_points_agree in C as [Va V]. split; [exact Va|].
  destruct (verify_sound e [k] V) as (NE & hd & Eh & H). split; [exact NE|]. exists hd. split; [exact Eh|].
  intros s Hin. destruct (H s Hin) as (k' & h & E & [K|[K|[]]] & C); [discriminate|]. subst. exists h. split; [reflexivity | exact C].
Qed.

End WithHash.

(* ---- refutation on the code as shipped (defect 9): the command-line path checks the key on
   sigs[0] and never compares the signed header ---- *)
Lemma entry_points_agree_shipped_refuted :
  exists ops, let e := run h0 shipped new_envelope ops in
    cli_verify h0 shipped e (Some 0) = OK /\ validate h0 shipped e = OK /\ verify e [0] = ERR EValidation /\
    ops = [Insert base0; Sign 0; EditDoc; Calculate].
Proof. eexists. cbv zeta. repeat split; try reflexivity; vm_compute; reflexivity. Qed.

(* non-vacuity *)
Example sign_then_verify_example :
  let e := run h0 repaired new_envelope [Insert base0; Sign 0] in
  verify e [0] = OK /\ verify e [1] = ERR EValidation /\ verify e [] = OK /\
  cli_verify h0 repaired e (Some 0) = OK.
Proof. vm_compute. repeat split. Qed.
Example additions_example :
  let e := run h0 repaired new_envelope [Insert base0; Sign 0] in
  let adds := [AddStamp (bs "p1") (bs "v1"); AddLink (bs "l1") (bs "a"); AddTag (bs "t"); AddMeta (bs "m") (bs "v")] in
  safe_adds h0 e adds /\ verify (run h0 repaired e adds) [0] = OK.
Proof. vm_compute. repeat split. Qed.
Example recalc_example :
  let e := run h0 repaired new_envelope [Insert base0; Sign 0; EditDoc; Calculate] in
  verify e [0] = ERR EValidation /\ cli_verify h0 repaired e (Some 0) = ERR EValidation.
Proof. vm_compute. split; reflexivity. Qed.
