(* Lemmas about Env/Header.v: what [contains] means member by member, reflexivity and
   monotonicity, AddStamp / AppendLink / meta updates. *)
From Coq Require Import ZArith List Bool Strings.Byte String Lia.
From Verif Require Import Base.Wire Env.Header.
Import ListNotations.
Open Scope Z_scope.

(* ---- byte strings ---- *)
Lemma byte_eqb_true a b : Byte.eqb a b = true <-> a = b.
Proof.
  split; [apply Byte.byte_dec_bl | intros ->; apply Byte.byte_dec_lb; reflexivity].
Qed.

Lemma seqb_eq a b : seqb a b = true <-> a = b.
Proof.
  unfold seqb. revert b. induction a as [|x a IH]; destruct b as [|y b]; simpl; split; intro H;
    try reflexivity; try discriminate.
  - apply andb_true_iff in H as [H1 H2]. apply byte_eqb_true in H1. apply IH in H2. congruence.
  - inversion H; subst. apply andb_true_iff. split; [apply byte_eqb_true; reflexivity | apply IH; reflexivity].
Qed.
Lemma seqb_refl a : seqb a a = true.
Proof. apply seqb_eq. reflexivity. Qed.
Lemma seqb_neq a b : seqb a b = false <-> a <> b.
Proof.
  split.
  - intros H E. apply seqb_eq in E. congruence.
  - intro N. destruct (seqb a b) eqn:E; [apply seqb_eq in E; contradiction | reflexivity].
Qed.
Lemma is_empty_true a : is_empty a = true <-> a = [].
Proof. destruct a; simpl; split; congruence. Qed.

Lemma stamp_eq_true a b : stamp_eq a b = true <-> prv a = prv b /\ sval a = sval b.
Proof. unfold stamp_eq. rewrite andb_true_iff, !seqb_eq. tauto. Qed.
Lemma link_eq_true a b : link_eq a b = true <-> lkey a = lkey b /\ lurl a = lurl b.
Proof. unfold link_eq. rewrite andb_true_iff, !seqb_eq. tauto. Qed.

(* ---- membership readings ---- *)
Lemma stamp_in_true hs s2 :
  stamp_in hs s2 = true <-> exists s, In (Some s) hs /\ prv s = prv s2 /\ sval s = sval s2.
Proof.
  unfold stamp_in. rewrite existsb_exists. split.
  - intros [[s|] [Hin H]]; [|discriminate]. exists s. split; [exact Hin | apply stamp_eq_true; exact H].
  - intros [s [Hin H]]. exists (Some s). split; [exact Hin | apply stamp_eq_true; exact H].
Qed.
Lemma link_in_true hl l2 :
  link_in hl l2 = true <-> exists l, In (Some l) hl /\ lkey l = lkey l2 /\ lurl l = lurl l2.
Proof.
  unfold link_in. rewrite existsb_exists. split.
  - intros [[l|] [Hin H]]; [|discriminate]. exists l. split; [exact Hin | apply link_eq_true; exact H].
  - intros [l [Hin H]]. exists (Some l). split; [exact Hin | apply link_eq_true; exact H].
Qed.
Lemma tag_in_true ht t2 : tag_in ht t2 = true <-> In t2 ht.
Proof.
  unfold tag_in. rewrite existsb_exists. split.
  - intros [t [Hin H]]. apply seqb_eq in H. subst. exact Hin.
  - intro Hin. exists t2. split; [exact Hin | apply seqb_refl].
Qed.

(* ---- the seven comparisons of Contains, one by one ---- *)
Definition covers_uuid (h h2 : header) : Prop := uuid h = uuid h2.
Definition covers_dig (h h2 : header) : Prop :=
  forall d2, dig h2 = Some d2 -> exists d, dig h = Some d /\ dig_string d = dig_string d2.
Definition covers_stamps (h h2 : header) : Prop :=
  forall s2, In (Some s2) (stamps h2) ->
    exists s, In (Some s) (stamps h) /\ prv s = prv s2 /\ sval s = sval s2.
Definition covers_links (h h2 : header) : Prop :=
  forall l2, In (Some l2) (links h2) ->
    exists l, In (Some l) (links h) /\ lkey l = lkey l2 /\ lurl l = lurl l2.
Definition covers_tags (h h2 : header) : Prop := forall t, In t (tags h2) -> In t (tags h).
Definition covers_meta (h h2 : header) : Prop :=
  forall k v, In (k, v) (meta h2) -> lookup k (meta h) = Some v.
Definition covers_notes (h h2 : header) : Prop := notes h2 = [] \/ notes h2 = notes h.

Lemma c_uuid_true h h2 : c_uuid h h2 = true <-> covers_uuid h h2.
Proof. unfold c_uuid, covers_uuid. apply seqb_eq. Qed.

Lemma c_dig_true h h2 : c_dig h h2 = true <-> covers_dig h h2.
Proof.
  unfold c_dig, covers_dig. destruct (dig h2) as [d2|]; destruct (dig h) as [d|]; split; intro H.
  - intros d2' E. inversion E; subst. exists d. split; [reflexivity | apply seqb_eq; exact H].
  - destruct (H d2 eq_refl) as [d' [E1 E2]]. inversion E1; subst. apply seqb_eq. exact E2.
  - discriminate.
  - destruct (H d2 eq_refl) as [d' [E1 _]]. discriminate.
  - intros d2' E. discriminate.
  - reflexivity.
  - intros d2' E. discriminate.
  - reflexivity.
Qed.

Lemma c_stamps_true h h2 : c_stamps h h2 = true <-> covers_stamps h h2.
Proof.
  unfold c_stamps, covers_stamps. rewrite forallb_forall. split.
  - intros H s2 Hin. apply stamp_in_true. exact (H (Some s2) Hin).
  - intros H [s2|] Hin; [apply stamp_in_true; apply H; exact Hin | reflexivity].
Qed.
Lemma c_links_true h h2 : c_links h h2 = true <-> covers_links h h2.
Proof.
  unfold c_links, covers_links. rewrite forallb_forall. split.
  - intros H l2 Hin. apply link_in_true. exact (H (Some l2) Hin).
  - intros H [l2|] Hin; [apply link_in_true; apply H; exact Hin | reflexivity].
Qed.
Lemma c_tags_true h h2 : c_tags h h2 = true <-> covers_tags h h2.
Proof.
  unfold c_tags, covers_tags. rewrite forallb_forall. split.
  - intros H t Hin. apply tag_in_true. apply H. exact Hin.
  - intros H t Hin. apply tag_in_true. apply H. exact Hin.
Qed.
Lemma c_meta_true h h2 : c_meta h h2 = true <-> covers_meta h h2.
Proof.
  unfold c_meta, covers_meta. rewrite forallb_forall. split.
  - intros H k v Hin. specialize (H (k, v) Hin). simpl in H.
    destruct (lookup k (meta h)) as [v'|]; [|discriminate]. apply seqb_eq in H. congruence.
  - intros H [k v] Hin. simpl. rewrite (H k v Hin). apply seqb_refl.
Qed.
Lemma c_notes_true h h2 : c_notes h h2 = true <-> covers_notes h h2.
Proof.
  unfold c_notes, covers_notes. rewrite orb_true_iff, is_empty_true, seqb_eq. tauto.
Qed.

Definition covers (h h2 : header) : Prop :=
  covers_uuid h h2 /\ covers_dig h h2 /\ covers_stamps h h2 /\ covers_links h h2 /\
  covers_tags h h2 /\ covers_meta h h2 /\ covers_notes h h2.

Lemma contains_iff h h2 : contains h h2 = true <-> covers h h2.
Proof.
  unfold contains, covers. rewrite !andb_true_iff.
  rewrite c_uuid_true, c_dig_true, c_stamps_true, c_links_true, c_tags_true, c_meta_true, c_notes_true.
  tauto.
Qed.

(* ---- reflexivity: a header contains itself when its meta keys are unique (a Go map) ---- *)
Definition wf_meta (h : header) : Prop := NoDup (map fst (meta h)).

Lemma lookup_in_nodup m k v : NoDup (map fst m) -> In (k, v) m -> lookup k m = Some v.
Proof.
  induction m as [|[k' v'] m IH]; simpl; intros ND Hin; [contradiction|].
  inversion ND as [|? ? Hnot ND']; subst. destruct Hin as [E|Hin].
  - inversion E; subst. rewrite seqb_refl. reflexivity.
  - destruct (seqb k' k) eqn:E.
    + apply seqb_eq in E. subst. exfalso. apply Hnot. apply in_map_iff. exists (k, v). split; [reflexivity | exact Hin].
    + apply IH; assumption.
Qed.

Lemma contains_refl h : wf_meta h -> contains h h = true.
Proof.
  intro W. apply contains_iff. unfold covers. repeat split.
  - intros d2 E. exists d2. split; [exact E | reflexivity].
  - intros s2 Hin. exists s2. repeat split. exact Hin.
  - intros l2 Hin. exists l2. repeat split. exact Hin.
  - intros t Hin. exact Hin.
  - intros k v Hin. apply lookup_in_nodup; assumption.
  - right. reflexivity.
Qed.

(* ---- monotonicity: what grows the header keeps containing what it contained ---- *)
Definition grows (h h' : header) : Prop :=
  uuid h' = uuid h /\ dig h' = dig h /\ notes h' = notes h /\
  (forall s, In (Some s) (stamps h) -> In (Some s) (stamps h')) /\
  (forall l, In (Some l) (links h) -> In (Some l) (links h')) /\
  (forall t, In t (tags h) -> In t (tags h')) /\
  (forall k v, lookup k (meta h) = Some v -> lookup k (meta h') = Some v).

Lemma grows_refl h : grows h h.
Proof. unfold grows. repeat split; auto. Qed.

Lemma contains_grows h h' h2 : grows h h' -> contains h h2 = true -> contains h' h2 = true.
Proof.
  intros (Gu & Gd & Gn & Gs & Gl & Gt & Gm) C. apply contains_iff in C. apply contains_iff.
  destruct C as (Cu & Cd & Cs & Cl & Ct & Cm & Cn). unfold covers. repeat split.
  - unfold covers_uuid in *. congruence.
  - unfold covers_dig in *. rewrite Gd. exact Cd.
  - intros s2 Hin. destruct (Cs s2 Hin) as [s [H1 H2]]. exists s. split; [apply Gs; exact H1 | exact H2].
  - intros l2 Hin. destruct (Cl l2 Hin) as [l [H1 H2]]. exists l. split; [apply Gl; exact H1 | exact H2].
  - intros t Hin. apply Gt. apply Ct. exact Hin.
  - intros k v Hin. apply Gm. apply Cm. exact Hin.
  - unfold covers_notes in *. rewrite Gn. exact Cn.
Qed.

(* ---- AddStamp / AppendLink: with a new provider / key the old entries stay ---- *)
Lemma add_stamp_fresh_keeps l s :
  existsb (fun x => match x with Some a => seqb (prv a) (prv s) | None => false end) l = false ->
  forall x, In (Some x) l -> In (Some x) (add_stamp l s).
Proof.
  induction l as [|[v|] l IH]; simpl; intros F x Hin.
  - contradiction.
  - apply orb_false_iff in F as [F1 F2]. rewrite F1.
    destruct Hin as [Hx|Hin]; [left; exact Hx | right; apply (IH F2 x Hin)].
  - destruct Hin as [Hx|Hin]; [discriminate | right; apply (IH F x Hin)].
Qed.
Lemma append_link_fresh_keeps l n :
  existsb (fun x => match x with Some a => seqb (lkey a) (lkey n) | None => false end) l = false ->
  forall x, In (Some x) l -> In (Some x) (append_link l n).
Proof.
  induction l as [|[v|] l IH]; simpl; intros F x Hin.
  - contradiction.
  - apply orb_false_iff in F as [F1 F2]. rewrite F1.
    destruct Hin as [Hx|Hin]; [left; exact Hx | right; apply (IH F2 x Hin)].
  - destruct Hin as [Hx|Hin]; [discriminate | right; apply (IH F x Hin)].
Qed.

Lemma lookup_set_meta_other m k v k' :
  k' <> k -> lookup k' (set_meta m k v) = lookup k' m.
Proof.
  intro N. induction m as [|[a b] m IH]; simpl.
  - destruct (seqb k k') eqn:E; [apply seqb_eq in E; congruence | reflexivity].
  - destruct (seqb a k) eqn:E; simpl.
    + apply seqb_eq in E. subst a. destruct (seqb k k') eqn:E2; [apply seqb_eq in E2; congruence | reflexivity].
    + destruct (seqb a k'); [reflexivity | exact IH].
Qed.
Lemma lookup_set_meta_same m k v : lookup k (set_meta m k v) = Some v.
Proof.
  induction m as [|[a b] m IH]; simpl.
  - rewrite seqb_refl. reflexivity.
  - destruct (seqb a k) eqn:E; simpl.
    + rewrite seqb_refl. reflexivity.
    + rewrite E. exact IH.
Qed.
Lemma set_meta_fresh_keeps m k v k' v' :
  lookup k m = None -> lookup k' m = Some v' -> lookup k' (set_meta m k v) = Some v'.
Proof.
  intros F L. destruct (seqb k' k) eqn:E.
  - apply seqb_eq in E. subst. congruence.
  - apply seqb_neq in E. rewrite lookup_set_meta_other; assumption.
Qed.

Lemma set_meta_keys_nodup m k v : NoDup (map fst m) -> NoDup (map fst (set_meta m k v)).
Proof.
  induction m as [|[a b] m IH]; simpl; intro ND.
  - constructor; [intros [] | constructor].
  - inversion ND as [|? ? Hnot ND']; subst. destruct (seqb a k) eqn:E; simpl.
    + apply seqb_eq in E. subst. constructor; assumption.
    + constructor; [|apply IH; exact ND'].
      intro Hin. apply Hnot. clear -Hin E. induction m as [|[c d] m IH]; simpl in *.
      * destruct Hin as [H|[]]. subst. rewrite seqb_refl in E. discriminate.
      * destruct (seqb c k) eqn:E2; simpl in Hin.
        -- apply seqb_eq in E2. subst c. destruct Hin as [H|H]; [subst; rewrite seqb_refl in E; discriminate | right; exact H].
        -- destruct Hin as [H|H]; [left; exact H | right; apply IH; exact H].
Qed.
Lemma rm_meta_keys_nodup m k : NoDup (map fst m) -> NoDup (map fst (rm_meta m k)).
Proof.
  unfold rm_meta. induction m as [|[a b] m IH]; simpl; intro ND; [constructor|].
  inversion ND as [|? ? Hnot ND']; subst. destruct (negb (seqb a k)); simpl.
  - constructor; [|apply IH; exact ND'].
    intro Hin. apply Hnot. apply in_map_iff in Hin as [[c d] [E Hin]]. apply filter_In in Hin as [Hin _].
    apply in_map_iff. exists (c, d). split; assumption.
  - apply IH; exact ND'.
Qed.

