(* Lemmas about Env/Header.v: what [contains] means member by member, reflexivity and
   monotonicity, agreement of the shipped and the repaired reading on nil-free headers. *)
From Coq Require Import ZArith List Bool Strings.Byte String Lia.
From Verif Require Import Base.Wire Env.Header.
Import ListNotations.
Open Scope Z_scope.

(* ---- byte strings ---- *)
Lemma byte_eqb_true a b : Byte.eqb a b = true <-> a = b.
Proof.
  split; [apply Byte.byte_dec_bl | intros ->; apply Byte.byte_dec_lb; reflexivity].
Qed.

Lemma seqb_eq a b : seqb a b = true <-> a = b.
Proof.
  unfold seqb. revert b. induction a as [|x a IH]; destruct b as [|y b]; simpl; split; intro H;
    try reflexivity; try discriminate.
  - apply andb_true_iff in H as [H1 H2]. apply byte_eqb_true in H1. apply IH in H2. congruence.
  - inversion H; subst. apply andb_true_iff. split; [apply byte_eqb_true; reflexivity | apply IH; reflexivity].
Qed.
Lemma seqb_refl a : seqb a a = true.
Proof. apply seqb_eq. reflexivity. Qed.
Lemma seqb_neq a b : seqb a b = false <-> a <> b.
Proof.
  split.
  - intros H E. apply seqb_eq in E. congruence.
  - intro N. destruct (seqb a b) eqn:E; [apply seqb_eq in E; contradiction | reflexivity].
Qed.
Lemma is_empty_true a : is_empty a = true <-> a = [].
Proof. destruct a; simpl; split; congruence. Qed.

Lemma stamp_eq_true a b : stamp_eq a b = true <-> prv a = prv b /\ sval a = sval b.
Proof. unfold stamp_eq. rewrite andb_true_iff, !seqb_eq. tauto. Qed.
Lemma link_eq_true a b : link_eq a b = true <-> lkey a = lkey b /\ lurl a = lurl b.
Proof. unfold link_eq. rewrite andb_true_iff, !seqb_eq. tauto. Qed.

(* ---- membership readings ---- *)
Lemma stamp_in_true hs s2 :
  stamp_in hs s2 = true <-> exists s, In (Some s) hs /\ prv s = prv s2 /\ sval s = sval s2.
Proof.
  unfold stamp_in. rewrite existsb_exists. split.
  - intros [[s|] [Hin H]]; [|discriminate]. exists s. split; [exact Hin | apply stamp_eq_true; exact H].
  - intros [s [Hin H]]. exists (Some s). split; [exact Hin | apply stamp_eq_true; exact H].
Qed.
Lemma link_in_true hl l2 :
  link_in hl l2 = true <-> exists l, In (Some l) hl /\ lkey l = lkey l2 /\ lurl l = lurl l2.
Proof.
  unfold link_in. rewrite existsb_exists. split.
  - intros [[l|] [Hin H]]; [|discriminate]. exists l. split; [exact Hin | apply link_eq_true; exact H].
  - intros [l [Hin H]]. exists (Some l). split; [exact Hin | apply link_eq_true; exact H].
Qed.
Lemma tag_in_true ht t2 : tag_in ht t2 = true <-> In t2 ht.
Proof.
  unfold tag_in. rewrite existsb_exists. split.
  - intros [t [Hin H]]. apply seqb_eq in H. subst. exact Hin.
  - intro Hin. exists t2. split; [exact Hin | apply seqb_refl].
Qed.

(* ---- the seven comparisons of Contains, one by one ---- *)
Definition covers_uuid (h h2 : header) : Prop := uuid h = uuid h2.
Definition covers_dig (h h2 : header) : Prop :=
  forall d2, dig h2 = Some d2 -> exists d, dig h = Some d /\ dig_string d = dig_string d2.
Definition covers_stamps (h h2 : header) : Prop :=
  forall s2, In (Some s2) (stamps h2) ->
    exists s, In (Some s) (stamps h) /\ prv s = prv s2 /\ sval s = sval s2.
Definition covers_links (h h2 : header) : Prop :=
  forall l2, In (Some l2) (links h2) ->
    exists l, In (Some l) (links h) /\ lkey l = lkey l2 /\ lurl l = lurl l2.
Definition covers_tags (h h2 : header) : Prop := forall t, In t (tags h2) -> In t (tags h).
Definition covers_meta (h h2 : header) : Prop :=
  forall k v, In (k, v) (meta h2) -> lookup k (meta h) = Some v.
Definition covers_notes (h h2 : header) : Prop := notes h2 = [] \/ notes h2 = notes h.

Lemma c_uuid_true h h2 : c_uuid h h2 = true <-> covers_uuid h h2.
Proof. unfold c_uuid, covers_uuid. apply seqb_eq. Qed.

Lemma c_dig_true h h2 : c_dig h h2 = true <-> covers_dig h h2.
Proof.
  unfold c_dig, covers_dig. destruct (dig h2) as [d2|]; destruct (dig h) as [d|]; split; intro H.
  - intros d2' E. inversion E; subst. exists d. split; [reflexivity | apply seqb_eq; exact H].
  - destruct (H d2 eq_refl) as [d' [E1 E2]]. inversion E1; subst. apply seqb_eq. exact E2.
  - discriminate.
  - destruct (H d2 eq_refl) as [d' [E1 _]]. discriminate.
  - intros d2' E. discriminate.
  - reflexivity.
  - intros d2' E. discriminate.
  - reflexivity.
Qed.

Lemma c_stamps_true h h2 : c_stamps h h2 = true <-> covers_stamps h h2.
Proof.
  unfold c_stamps, covers_stamps. rewrite forallb_forall. split.
  - intros H s2 Hin. apply stamp_in_true. exact (H (Some s2) Hin).
  - intros H [s2|] Hin; [apply stamp_in_true; apply H; exact Hin | reflexivity].
Qed.
Lemma c_links_true h h2 : c_links h h2 = true <-> covers_links h h2.
Proof.
  unfold c_links, covers_links. rewrite forallb_forall. split.
  - intros H l2 Hin. apply link_in_true. exact (H (Some l2) Hin).
  - intros H [l2|] Hin; [apply link_in_true; apply H; exact Hin | reflexivity].
Qed.
Lemma c_tags_true h h2 : c_tags h h2 = true <-> covers_tags h h2.
Proof.
  unfold c_tags, covers_tags. rewrite forallb_forall. split.
  - intros H t Hin. apply tag_in_true. apply H. exact Hin.
  - intros H t Hin. apply tag_in_true. apply H. exact Hin.
Qed.
Lemma c_meta_true h h2 : c_meta h h2 = true <-> covers_meta h h2.
Proof.
  unfold c_meta, covers_meta. rewrite forallb_forall. split.
  - intros H k v Hin. specialize (H (k, v) Hin). simpl in H.
    destruct (lookup k (meta h)) as [v'|]; [|discriminate]. apply seqb_eq in H. congruence.
  - intros H [k v] Hin. simpl. rewrite (H k v Hin). apply seqb_refl.
Qed.
Lemma c_notes_true h h2 : c_notes h h2 = true <-> covers_notes h h2.
Proof.
  unfold c_notes, covers_notes. rewrite orb_true_iff, is_empty_true, seqb_eq. tauto.
Qed.

Definition covers (h h2 : header) : Prop :=
  covers_uuid h h2 /\ covers_dig h h2 /\ covers_stamps h h2 /\ covers_links h h2 /\
  covers_tags h h2 /\ covers_meta h h2 /\ covers_notes h h2.

Lemma contains_iff h h2 : contains h h2 = true <-> covers h h2.
Proof.
  unfold contains, covers. rewrite !andb_true_iff.
  rewrite c_uuid_true, c_dig_true, c_stamps_true, c_links_true, c_tags_true, c_meta_true, c_notes_true.
  tauto.
Qed.

(* ---- reflexivity: a header contains itself when its meta keys are unique (a Go map) ---- *)
Definition wf_meta (h : header) : Prop := NoDup (map fst (meta h)).

Lemma lookup_in_nodup m k v : NoDup (map fst m) -> In (k, v) m -> lookup k m = Some v.
Proof.
  induction m as [|[k' v'] m IH]; simpl; intros ND Hin; [contradiction|].
  inversion ND as [|? ? Hnot ND']; subst. destruct Hin as [E|Hin].
  - inversion E; subst. rewrite seqb_refl. reflexivity.
  - destruct (seqb k' k) eqn:E.
    + apply seqb_eq in E. subst. exfalso. apply Hnot. apply in_map_iff. exists (k, v). split; [reflexivity | exact Hin].
    + apply IH; assumption.
Qed.

Lemma contains_refl h : wf_meta h -> contains h h = true.
Proof.
  intro W. apply contains_iff. unfold covers. repeat split.
  - intros d2 E. exists d2. split; [exact E | reflexivity].
  - intros s2 Hin. exists s2. repeat split. exact Hin.
  - intros l2 Hin. exists l2. repeat split. exact Hin.
  - intros t Hin. exact Hin.
  - intros k v Hin. apply lookup_in_nodup; assumption.
  - right. reflexivity.
Qed.

(* ---- monotonicity: what grows the header keeps containing what it contained ---- *)
Definition grows (h h' : header) : Prop :=
  uuid h' = uuid h /\ dig h' = dig h /\ notes h' = notes h /\
  (forall s, In (Some s) (stamps h) -> In (Some s) (stamps h')) /\
  (forall l, In (Some l) (links h) -> In (Some l) (links h')) /\
  (forall t, In t (tags h) -> In t (tags h')) /\
  (forall k v, lookup k (meta h) = Some v -> lookup k (meta h') = Some v).

Lemma grows_refl h : grows h h.
Proof. unfold grows. repeat split; auto. Qed.

Lemma contains_grows h h' h2 : grows h h' -> contains h h2 = true -> contains h' h2 = true.
Proof.
  intros (Gu & Gd & Gn & Gs & Gl & Gt & Gm) C. apply contains_iff in C. apply contains_iff.
  destruct C as (Cu & Cd & Cs & Cl & Ct & Cm & Cn). unfold covers. repeat split.
  - unfold covers_uuid in *. congruence.
  - unfold covers_dig in *. rewrite Gd. exact Cd.
  - intros s2 Hin. destruct (Cs s2 Hin) as [s [H1 H2]]. exists s. split; [apply Gs; exact H1 | exact H2].
  - intros l2 Hin. destruct (Cl l2 Hin) as [l [H1 H2]]. exists l. split; [apply Gl; exact H1 | exact H2].
  - intros t Hin. apply Gt. apply Ct. exact Hin.
  - intros k v Hin. apply Gm. apply Cm. exact Hin.
  - unfold covers_notes in *. rewrite Gn. exact Cn.
Qed.

(* ---- AddStamp / AppendLink / meta on nil-free lists ---- *)
Lemma add_stamp_fresh l s :
  existsb (fun x => match x with Some a => seqb (prv a) (prv s) | None => false end) l = false ->
  has_none l = false -> add_stamp l s = Ok (l ++ [Some s]).
Proof.
  induction l as [|[v|] l IH]; simpl; intros F N.
  - reflexivity.
  - apply orb_false_iff in F as [F1 F2]. rewrite F1. rewrite IH; [reflexivity | exact F2 | exact N].
  - discriminate.
Qed.
Lemma append_link_fresh l n :
  existsb (fun x => match x with Some a => seqb (lkey a) (lkey n) | None => false end) l = false ->
  has_none l = false -> append_link l n = Ok (l ++ [Some n]).
Proof.
  induction l as [|[v|] l IH]; simpl; intros F N.
  - reflexivity.
  - apply orb_false_iff in F as [F1 F2]. rewrite F1. rewrite IH; [reflexivity | exact F2 | exact N].
  - discriminate.
Qed.

(* whatever AddStamp does to a list in which the provider is new, the old entries stay *)
Lemma add_stamp_fresh_keeps l s l' :
  existsb (fun x => match x with Some a => seqb (prv a) (prv s) | None => false end) l = false ->
  add_stamp l s = Ok l' -> forall x, In (Some x) l -> In (Some x) l'.
Proof.
  revert l'. induction l as [|[v|] l IH]; simpl; intros l' F E x Hin.
  - contradiction.
  - apply orb_false_iff in F as [F1 F2]. rewrite F1 in E.
    destruct (add_stamp l s) as [r| |] eqn:A; try discriminate. inversion E; subst.
    destruct Hin as [Hx|Hin]; [left; exact Hx | right; apply (IH r F2 eq_refl x Hin)].
  - discriminate.
Qed.
Lemma append_link_fresh_keeps l n l' :
  existsb (fun x => match x with Some a => seqb (lkey a) (lkey n) | None => false end) l = false ->
  append_link l n = Ok l' -> forall x, In (Some x) l -> In (Some x) l'.
Proof.
  revert l'. induction l as [|[v|] l IH]; simpl; intros l' F E x Hin.
  - contradiction.
  - apply orb_false_iff in F as [F1 F2]. rewrite F1 in E.
    destruct (append_link l n) as [r| |] eqn:A; try discriminate. inversion E; subst.
    destruct Hin as [Hx|Hin]; [left; exact Hx | right; apply (IH r F2 eq_refl x Hin)].
  - discriminate.
Qed.

Lemma lookup_set_meta_other m k v k' :
  k' <> k -> lookup k' (set_meta m k v) = lookup k' m.
Proof.
  intro N. induction m as [|[a b] m IH]; simpl.
  - destruct (seqb k k') eqn:E; [apply seqb_eq in E; congruence | reflexivity].
  - destruct (seqb a k) eqn:E; simpl.
    + apply seqb_eq in E. subst a. destruct (seqb k k') eqn:E2; [apply seqb_eq in E2; congruence | reflexivity].
    + destruct (seqb a k'); [reflexivity | exact IH].
Qed.
Lemma lookup_set_meta_same m k v : lookup k (set_meta m k v) = Some v.
Proof.
  induction m as [|[a b] m IH]; simpl.
  - rewrite seqb_refl. reflexivity.
  - destruct (seqb a k) eqn:E; simpl.
    + rewrite seqb_refl. reflexivity.
    + rewrite E. exact IH.
Qed.
Lemma set_meta_fresh_keeps m k v k' v' :
  lookup k m = None -> lookup k' m = Some v' -> lookup k' (set_meta m k v) = Some v'.
Proof.
  intros F L. destruct (seqb k' k) eqn:E.
  - apply seqb_eq in E. subst. congruence.
  - apply seqb_neq in E. rewrite lookup_set_meta_other; assumption.
Qed.

Lemma set_meta_keys_nodup m k v : NoDup (map fst m) -> NoDup (map fst (set_meta m k v)).
Proof.
  induction m as [|[a b] m IH]; simpl; intro ND.
  - constructor; [intros [] | constructor].
  - inversion ND as [|? ? Hnot ND']; subst. destruct (seqb a k) eqn:E; simpl.
    + apply seqb_eq in E. subst. constructor; assumption.
    + constructor; [|apply IH; exact ND'].
      intro Hin. apply Hnot. clear -Hin E. induction m as [|[c d] m IH]; simpl in *.
      * destruct Hin as [H|[]]. subst. rewrite seqb_refl in E. discriminate.
      * destruct (seqb c k) eqn:E2; simpl in Hin.
        -- apply seqb_eq in E2. subst c. destruct Hin as [H|H]; [subst; rewrite seqb_refl in E; discriminate | right; exact H].
        -- destruct Hin as [H|H]; [left; exact H | right; apply IH; exact H].
Qed.
Lemma rm_meta_keys_nodup m k : NoDup (map fst m) -> NoDup (map fst (rm_meta m k)).
Proof.
  unfold rm_meta. induction m as [|[a b] m IH]; simpl; intro ND; [constructor|].
  inversion ND as [|? ? Hnot ND']; subst. destruct (negb (seqb a k)); simpl.
  - constructor; [|apply IH; exact ND'].
    intro Hin. apply Hnot. apply in_map_iff in Hin as [[c d] [E Hin]]. apply filter_In in Hin as [Hin _].
    apply in_map_iff. exists (c, d). split; assumption.
  - apply IH; exact ND'.
Qed.

(* ---- the shipped Contains agrees with the repaired one where no nil is met ---- *)
Lemma stamp_in_shipped_ok hs s2 :
  has_none hs = false -> stamp_in_shipped hs (Some s2) = Ok (stamp_in hs s2).
Proof.
  induction hs as [|[a|] hs IH]; simpl; intro N; [reflexivity | | discriminate].
  unfold stamp_in in *. simpl. destruct (stamp_eq a s2); [reflexivity | apply IH; exact N].
Qed.
Lemma c_stamps_shipped_ok hs h2s :
  has_none hs = false -> has_none h2s = false ->
  c_stamps_shipped hs h2s =
  Ok (forallb (fun s2 => match s2 with None => true | Some b => stamp_in hs b end) h2s).
Proof.
  intros N1. induction h2s as [|[b|] r IH]; simpl; intro N2; [reflexivity | | discriminate].
  rewrite stamp_in_shipped_ok by exact N1. destruct (stamp_in hs b); [apply IH; exact N2 | reflexivity].
Qed.
Lemma link_in_shipped_ok hl l2 :
  has_none hl = false -> link_in_shipped hl (Some l2) = Ok (link_in hl l2).
Proof.
  induction hl as [|[a|] hl IH]; simpl; intro N; [reflexivity | | discriminate].
  unfold link_in in *. simpl. destruct (link_eq a l2); [reflexivity | apply IH; exact N].
Qed.
Lemma c_links_shipped_ok hl h2l :
  has_none hl = false -> has_none h2l = false ->
  c_links_shipped hl h2l =
  Ok (forallb (fun l2 => match l2 with None => true | Some b => link_in hl b end) h2l).
Proof.
  intros N1. induction h2l as [|[b|] r IH]; simpl; intro N2; [reflexivity | | discriminate].
  rewrite link_in_shipped_ok by exact N1. destruct (link_in hl b); [apply IH; exact N2 | reflexivity].
Qed.

Definition nil_free (h : header) : Prop := has_none (stamps h) = false /\ has_none (links h) = false.

Lemma contains_shipped_ok h h2 :
  nil_free h -> nil_free h2 -> (dig h2 = None \/ dig h <> None) ->
  contains_shipped (Some h) h2 = Ok (contains h h2).
Proof.
  intros [N1 N2] [M1 M2] D. unfold contains_shipped, contains.
  destruct (c_uuid h h2); simpl; [|reflexivity].
  assert (Hd : match dig h2, dig h with Some _, None => False | _, _ => True end).
  { destruct (dig h2), (dig h); try exact I. destruct D as [D|D]; [discriminate | apply D; reflexivity]. }
  destruct (dig h2) as [d2|] eqn:E2; destruct (dig h) as [d|] eqn:E1; try contradiction;
    unfold c_dig; rewrite ?E1, ?E2; simpl.
  - destruct (seqb (dig_string d) (dig_string d2)); simpl; [|reflexivity].
    rewrite c_stamps_shipped_ok by assumption. fold (c_stamps h h2). destruct (c_stamps h h2); simpl; [|reflexivity].
    rewrite c_links_shipped_ok by assumption. fold (c_links h h2). destruct (c_links h h2); reflexivity.
  - rewrite c_stamps_shipped_ok by assumption. fold (c_stamps h h2). destruct (c_stamps h h2); simpl; [|reflexivity].
    rewrite c_links_shipped_ok by assumption. fold (c_links h h2). destruct (c_links h h2); reflexivity.
  - rewrite c_stamps_shipped_ok by assumption. fold (c_stamps h h2). destruct (c_stamps h h2); simpl; [|reflexivity].
    rewrite c_links_shipped_ok by assumption. fold (c_links h h2). destruct (c_links h h2); reflexivity.
Qed.

(* ---- duplicate detection on nil-free lists never panics ---- *)
Lemma stamp_in_set_nopanic v set :
  has_none set = false -> (v <> None \/ set = []) -> stamp_in_set v set <> Panic.
Proof.
  intros N H. induction set as [|[b|] t IH]; simpl in *; try discriminate.
  destruct v as [a|]; [|destruct H as [H|H]; [congruence | discriminate]].
  destruct (seqb (prv a) (prv b)); [discriminate|]. apply IH; [exact N | left; discriminate].
Qed.
Lemma detect_dup_stamps_nopanic set vs :
  has_none set = false -> has_none vs = false -> detect_dup_stamps set vs <> VPanic.
Proof.
  revert set. induction vs as [|[a|] r IH]; simpl; intros set N1 N2; try discriminate.
  assert (NP : stamp_in_set (Some a) set <> Panic) by (apply stamp_in_set_nopanic; [exact N1 | left; discriminate]).
  destruct (stamp_in_set (Some a) set) as [[|]| |]; try discriminate; try contradiction.
  all: apply IH; [|exact N2]; unfold has_none in *; rewrite existsb_app, N1; reflexivity.
Qed.
Lemma link_by_key_nopanic set k : has_none set = false -> link_by_key set k <> Panic.
Proof.
  induction set as [|[l|] t IH]; simpl; intro N; try discriminate.
  destruct (seqb (lkey l) k); [discriminate | apply IH; exact N].
Qed.
Lemma detect_dup_links_nopanic set vs :
  has_none set = false -> has_none vs = false -> detect_dup_links set vs <> VPanic.
Proof.
  revert set. induction vs as [|[a|] r IH]; simpl; intros set N1 N2; try discriminate.
  pose proof (link_by_key_nopanic set (lkey a) N1) as NP.
  destruct (link_by_key set (lkey a)) as [[|]| |]; try discriminate; try contradiction.
  all: apply IH; [|exact N2]; unfold has_none in *; rewrite existsb_app, N1; reflexivity.
Qed.

(* with the repair in place header validation cannot panic: nil entries are rejected first *)
Lemma validate_header_fixed_nopanic signed h : validate_header true signed h <> VPanic.
Proof.
  unfold validate_header, v_uuid, v_dig, v_stamps, v_links. simpl.
  assert (S : (if negb signed && negb match stamps h with [] => true | _ => false end then VErr
               else if has_none (stamps h) then VErr else detect_dup_stamps [] (stamps h)) <> VPanic).
  { destruct (negb signed && _); [discriminate|]. destruct (has_none (stamps h)) eqn:N; [discriminate|].
    apply detect_dup_stamps_nopanic; [reflexivity | exact N]. }
  assert (L : (if has_none (links h) then VErr else detect_dup_links [] (links h)) <> VPanic).
  { destruct (has_none (links h)) eqn:N; [discriminate|]. apply detect_dup_links_nopanic; [reflexivity | exact N]. }
  destruct (is_empty (uuid h)); destruct (dig h) as [d|]; try destruct (is_empty (alg d) || is_empty (dval d));
    simpl;
    match goal with
    | |- context [v3_and ?a ?b] => destruct a eqn:EA; destruct b eqn:EB; simpl; try discriminate; try contradiction
    end.
Qed.

(* on nil-free headers the repair does not change header validation *)
Lemma validate_header_fix_irrelevant signed h :
  nil_free h -> validate_header true signed h = validate_header false signed h.
Proof.
  intros [N1 N2]. unfold validate_header, v_stamps, v_links. rewrite N1, N2. reflexivity.
Qed.
