(* C13 - tax identity codes: shared executable definitions (no proofs in this file).

   Strings are `bytes` (list byte).  The model is faithful to the Go code on ASCII input (every
   byte < 128); bytes >= 128 are treated as separators.  (Go's strings.ToUpper maps the two
   non-ASCII runes U+0131 and U+017F to ASCII letters; such input is outside the modelled domain.)

   tax.NormalizeIdentity (tax/identity.go):
       code := strings.ToUpper(code)
       code  = regexp `[^A-Z0-9]+` .ReplaceAllString(code, "")
       code  = strings.TrimPrefix(code, country)
       for alt in altCodes: code = strings.TrimPrefix(code, alt)                              *)
From Coq Require Import String List ZArith Strings.Byte Bool.
From Verif Require Import Base.Wire.
Import ListNotations.
Open Scope Z_scope.

(* ---- character classes ---- *)
Definition is_upper (b : byte) : bool := (65 <=? bZ b) && (bZ b <=? 90).
Definition is_lower (b : byte) : bool := (97 <=? bZ b) && (bZ b <=? 122).
Definition up (b : byte) : byte := if is_lower b then byte_of_Z (bZ b - 32) else b.
Definition low (b : byte) : byte := if is_upper b then byte_of_Z (bZ b + 32) else b.
Definition is_alnum (b : byte) : bool := is_digit b || is_upper b.       (* [A-Z0-9] *)
Definition is_alnum_any (b : byte) : bool := is_alnum b || is_lower b.   (* [A-Za-z0-9] *)
Definition beq (b : byte) (z : Z) : bool := bZ b =? z.
Definition in_range (lo hi : Z) (b : byte) : bool := (lo <=? bZ b) && (bZ b <=? hi).
Definition one_of (s : bytes) (b : byte) : bool := existsb (Byte.eqb b) s.

(* ---- generic normalisation ---- *)
Definition to_upper (s : bytes) : bytes := map up s.
Definition to_lower (s : bytes) : bytes := map low s.
Definition strip_bad (s : bytes) : bytes := filter is_alnum s.
Definition clean (s : bytes) : bytes := strip_bad (to_upper s).

Fixpoint has_prefix (p s : bytes) : bool :=
  match p, s with
  | [], _ => true
  | x :: p', y :: s' => Byte.eqb x y && has_prefix p' s'
  | _ :: _, [] => false
  end.
Definition trim_prefix (p s : bytes) : bytes :=
  if has_prefix p s then skipn (length p) s else s.
Definition trim_all (ps : list bytes) (s : bytes) : bytes :=
  fold_left (fun c p => trim_prefix p c) ps s.

(* NormalizeIdentity(tID{Country: country, Code: code}, alts...) *)
Definition norm_generic (country : bytes) (alts : list bytes) (code : bytes) : bytes :=
  trim_all (country :: alts) (clean code).

Definition has_suffix (p s : bytes) : bool := has_prefix (rev p) (rev s).
Definition drop_last (n : nat) (s : bytes) : bytes := firstn (length s - n) s.

(* ---- digits ---- *)
Definition dv (b : byte) : Z := bZ b - 48.                    (* int(c - '0') *)
Definition digs (s : bytes) : list Z := map dv s.
Definition all_digits (s : bytes) : bool := forallb is_digit s.
(* strconv.Atoi of a string of digits *)
Definition num_of (s : bytes) : Z := fold_left (fun a b => a * 10 + dv b) s 0.
Definition digit_byte (d : Z) : byte := byte_of_Z (48 + d).

(* `^c1c2...cn$` for single-character classes *)
Fixpoint match_classes (cls : list (byte -> bool)) (s : bytes) : bool :=
  match cls, s with
  | [], [] => true
  | c :: cls', b :: s' => c b && match_classes cls' s'
  | _, _ => false
  end.
Definition rep {A} (n : nat) (x : A) : list A := repeat x n.
Definition digits_n (n : nat) (s : bytes) : bool := match_classes (rep n is_digit) s.

(* sum of w_i * d_i over the common prefix of the two lists *)
Fixpoint wsum (ws ds : list Z) : Z :=
  match ws, ds with
  | w :: ws', d :: ds' => w * d + wsum ws' ds'
  | _, _ => 0
  end.
(* sum of f_i(d_i) *)
Fixpoint fsum (fs : list (Z -> Z)) (ds : list Z) : Z :=
  match fs, ds with
  | f :: fs', d :: ds' => f d + fsum fs' ds'
  | _, _ => 0
  end.

Definition nthZ (i : nat) (l : list Z) : Z := nth i l 0.
Definition nthb (i : nat) (s : bytes) : byte := nth i s x00.
Definition sub (i j : nat) (s : bytes) : bytes := firstn (j - i) (skipn i s).   (* s[i:j] *)

(* replace the element at position i (no change when i is out of range) *)
Fixpoint set_nth {A} (i : nat) (x : A) (l : list A) : list A :=
  match l, i with
  | [], _ => []
  | _ :: r, O => x :: r
  | y :: r, S i' => y :: set_nth i' x r
  end.

(* regimes/common/luhn.go ComputeLuhnCheckDigit(number): from the right, positions 0,2,4,... are
   doubled (minus 9 when above 9); returns (10 - sum mod 10) mod 10 *)
Definition luhn_double (d : Z) : Z := let x := d * 2 in if 9 <? x then x - 9 else x.
Fixpoint luhn_sum_rev (pos_even : bool) (rds : list Z) : Z :=
  match rds with
  | [] => 0
  | d :: r => (if pos_even then luhn_double d else d) + luhn_sum_rev (negb pos_even) r
  end.
Definition luhn_check_digit (s : bytes) : Z :=
  (10 - (luhn_sum_rev true (rev (digs s))) mod 10) mod 10.
