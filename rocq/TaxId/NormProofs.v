(* C13 - normalisation at the level of the regimes (Identity.Normalize): which generic
   normalisation each regime runs, idempotence under the guard "no doubled country prefix" and
   its refutation without the guard, FR and CH specific steps, accepted codes are fixed points. *)
From Coq Require Import String List ZArith Strings.Byte Bool Lia ZifyBool.
From Verif Require Import Base.Wire TaxId.Common TaxId.Regimes TaxId.CommonProofs TaxId.CheckProofs TaxId.Spec
  TaxId.Mod11Proofs TaxId.PTProofs TaxId.ELProofs TaxId.LuhnProofs TaxId.Mod97Proofs TaxId.DEProofs TaxId.COProofs TaxId.ESProofs TaxId.NLProofs.
Import ListNotations.
Open Scope Z_scope.
Ltac Zify.zify_post_hook ::= Z.div_mod_to_equations.

(* regimes that run tax.NormalizeIdentity(id) and nothing else *)
Definition simple_regimes : list bytes :=
  map bs ["AE"; "AT"; "BE"; "BR"; "CA"; "CO"; "DE"; "ES"; "IT"; "NL"; "PL"; "PT"]%string.
(* regimes with alternative country codes: (country given, country after normalisation - whose
   prefix is trimmed first -, alternative prefixes) *)
Definition multi_regimes : list (bytes * (bytes * list bytes)) :=
  [(bs "GB", (bs "GB", [bs "XI"; bs "XU"])); (bs "XI", (bs "XI", [bs "XI"; bs "XU"]));
   (bs "XU", (bs "XU", [bs "XI"; bs "XU"])); (bs "EL", (bs "EL", [bs "GR"]));
   (bs "GR", (bs "EL", [bs "GR"])); (bs "IN", (bs "IN", [bs "IN"]))].

Lemma normalize_simple cc raw : In cc simple_regimes -> normalize cc raw = (cc, norm_generic cc [] raw).
Proof.
  intro H. cbn in H.
  repeat (destruct H as [<-|H]; [reflexivity|]). contradiction.
Qed.

Lemma normalize_multi cc cc' alts raw :
  In (cc, (cc', alts)) multi_regimes -> normalize cc raw = (cc', norm_generic cc' alts raw).
Proof.
  intro H. cbn in H.
  repeat (destruct H as [E|H]; [injection E as <- <- <-; reflexivity|]). contradiction.
Qed.

Lemma normalize_CH raw : normalize (bs "CH") raw = (bs "CH", ch_strip_suffix (norm_generic (bs "CH") [] raw)).
Proof. reflexivity. Qed.

Lemma normalize_FR raw :
  let s := norm_generic (bs "FR") [] raw in
  snd (normalize (bs "FR") raw) = s \/
  (List.length s = 9%nat /\ fr_valid_siren s = true /\ snd (normalize (bs "FR") raw) = two_digits (fr_key s) ++ s).
Proof.
  cbv zeta. change (normalize (bs "FR") raw) with
    (match raw with
     | [] => (bs "FR", [])
     | _ => let s := norm_generic (bs "FR") [] raw in
            if Nat.eqb (List.length s) 9 && fr_valid_siren s then (bs "FR", two_digits (fr_key s) ++ s) else (bs "FR", s)
     end).
  destruct raw as [|x raw]; [left; reflexivity|]. cbv zeta.
  destruct (Nat.eqb _ 9 && _) eqn:E; [right | left; reflexivity].
  apply andb_prop in E as [E1 E2]. apply Nat.eqb_eq in E1. auto.
Qed.

(* US: no normalisation at all (the code is returned as written) *)
Lemma normalize_US raw : normalize (bs "US") raw = (bs "US", raw).
Proof. reflexivity. Qed.

(* ---------------- idempotence ---------------- *)
Theorem normalize_simple_idempotent_iff cc raw :
  In cc simple_regimes ->
  (snd (normalize cc (snd (normalize cc raw))) = snd (normalize cc raw)
   <-> has_prefix (cc ++ cc) (clean raw) = false).
Proof.
  intro H. rewrite !(normalize_simple cc _ H). cbn [snd].
  apply norm_generic_single_idempotent_iff. intros ->. cbn in H. intuition discriminate.
Qed.

Theorem normalize_idempotent_refuted :
  exists cc raw, In cc simple_regimes /\
    snd (normalize cc (snd (normalize cc raw))) <> snd (normalize cc raw).
Proof.
  exists (bs "ES"), (bs "ESESB85905495"). split; [cbn; tauto|]. vm_compute. discriminate.
Qed.

Theorem normalize_multi_idempotent_iff cc cc' alts raw :
  In (cc, (cc', alts)) multi_regimes ->
  (snd (normalize cc (snd (normalize cc raw))) = snd (normalize cc raw)
   <-> stable (cc' :: alts) (snd (normalize cc raw))).
Proof.
  intros H. rewrite !(normalize_multi _ _ _ _ H). cbn [snd]. apply norm_generic_idempotent_iff.
Qed.

(* FR: the SIREN -> VAT number step does not disturb idempotence *)
Lemma two_digits_are_digits k : 0 <= k < 100 -> forallb is_digit (two_digits k) = true.
Proof.
  intro R. unfold two_digits. cbn [forallb].
  assert (D : forall d, 0 <= d <= 9 -> is_digit (digit_byte d) = true).
  { intros d Hd. pose proof (dv_digit_byte d Hd) as E. unfold dv in E. unfold is_digit. lia. }
  rewrite !D by lia. reflexivity.
Qed.

Lemma digits_stable p c : (exists l r, p = l :: r /\ is_digit l = false) -> forallb is_digit c = true -> has_prefix p c = false.
Proof.
  intros (l & r & -> & Hl) Hc. destruct c as [|x c]; [reflexivity|]. cbn [forallb] in Hc. apply andb_prop in Hc as [Hx _].
  cbn [has_prefix]. destruct (Byte.eqb l x) eqn:E; [|reflexivity]. apply byte_eqb_eq in E. congruence.
Qed.

Lemma forallb_digit_alnum c : forallb is_digit c = true -> forallb is_alnum c = true.
Proof. induction c as [|x c IH]; [reflexivity|]. cbn. intro H. apply andb_prop in H as [H1 H2]. rewrite (digit_alnum _ H1), IH; auto. Qed.

Lemma norm_generic_fixed cc alts c :
  forallb is_alnum c = true -> stable (cc :: alts) c -> norm_generic cc alts c = c.
Proof. intros A S. unfold norm_generic. rewrite (clean_fix _ A). apply trim_all_fix; exact S. Qed.

Lemma norm_generic_fixed_digits cc c :
  (exists l r, cc = l :: r /\ is_digit l = false) -> forallb is_digit c = true -> norm_generic cc [] c = c.
Proof.
  intros Hcc D. apply norm_generic_fixed; [apply forallb_digit_alnum; exact D|].
  constructor; [right; apply digits_stable; assumption | constructor].
Qed.

Theorem normalize_FR_idempotent raw :
  has_prefix (bs "FRFR") (clean raw) = false ->
  snd (normalize (bs "FR") (snd (normalize (bs "FR") raw))) = snd (normalize (bs "FR") raw).
Proof.
  intro G.
  assert (I : norm_generic (bs "FR") [] (norm_generic (bs "FR") [] raw) = norm_generic (bs "FR") [] raw).
  { apply (norm_generic_single_idempotent_iff (bs "FR") raw); [discriminate | exact G]. }
  destruct (normalize_FR raw) as [E|(L & V & E)]; cbv zeta in *.
  - (* not converted: the generic result is stable and would have been converted if it were a SIREN *)
    rewrite E. destruct (normalize_FR (norm_generic (bs "FR") [] raw)) as [E2|(L2 & V2 & E2)]; cbv zeta in *; rewrite I in *.
    + exact E2.
    + exfalso. clear E2. revert E. unfold normalize. change (is_cc (bs "FR") "CH") with false. change (is_cc (bs "FR") "FR") with true. cbv iota.
      destruct raw as [|x raw]; [discriminate L2|]. cbv zeta. apply Nat.eqb_eq in L2. rewrite L2, V2. cbn [andb snd].
      intro E. apply (f_equal (@List.length byte)) in E. rewrite app_length in E. cbn in E. lia.
  - (* converted to 11 digits: a second pass sees 11 digits, no prefix, no conversion *)
    rewrite E. set (s := norm_generic (bs "FR") [] raw) in *.
    assert (Ds : forallb is_digit s = true).
    { unfold fr_valid_siren, nonempty in V. destruct s; [discriminate|]. apply andb_prop in V as [V _].
      apply digits_n_all_digits in V. exact V. }
    assert (Dk : forallb is_digit (two_digits (fr_key s) ++ s) = true).
    { rewrite forallb_app, Ds, two_digits_are_digits; [reflexivity|]. rewrite fr_key_unfold.
      pose proof (Z.mod_pos_bound (num_of s * 100 + 12) 97 ltac:(lia)). lia. }
    assert (N : norm_generic (bs "FR") [] (two_digits (fr_key s) ++ s) = two_digits (fr_key s) ++ s).
    { apply norm_generic_fixed_digits; [|exact Dk]. exists "F"%byte, ["R"%byte]. split; reflexivity. }
    destruct (normalize_FR (two_digits (fr_key s) ++ s)) as [E2|(L2 & _ & _)]; cbv zeta in *; rewrite N in *.
    + exact E2.
    + rewrite app_length in L2. unfold two_digits in L2. cbn [List.length] in L2. lia.
Qed.

(* ---------------- digits are preserved ---------------- *)
Lemma letters_no_digits : Forall no_digits (map bs ["AE"; "AT"; "BE"; "BR"; "CA"; "CO"; "DE"; "ES"; "IT"; "NL"; "PL"; "PT"; "GB"; "XI"; "XU"; "EL"; "GR"; "IN"; "CH"; "FR"]%string).
Proof. repeat constructor. Qed.

Theorem normalize_simple_digits cc raw :
  In cc simple_regimes -> filter is_digit (snd (normalize cc raw)) = filter is_digit raw.
Proof.
  intro H. rewrite (normalize_simple cc _ H). cbn [snd]. apply norm_generic_digits.
  constructor; [|constructor]. cbn in H. repeat (destruct H as [<-|H]; [reflexivity|]). contradiction.
Qed.

Theorem normalize_multi_digits cc cc' alts raw :
  In (cc, (cc', alts)) multi_regimes -> filter is_digit (snd (normalize cc raw)) = filter is_digit raw.
Proof.
  intro H. rewrite (normalize_multi _ _ _ _ H). cbn [snd]. apply norm_generic_digits.
  cbn in H. repeat (destruct H as [E|H]; [injection E as <- <- <-; repeat constructor|]). contradiction.
Qed.

Lemma drop_last_digits n s : forallb (fun b => negb (is_digit b)) (skipn (List.length s - n) s) = true ->
  filter is_digit (drop_last n s) = filter is_digit s.
Proof.
  unfold drop_last. intro H. set (k := (List.length s - n)%nat) in *.
  assert (E : filter is_digit s = filter is_digit (firstn k s ++ skipn k s)) by (rewrite firstn_skipn; reflexivity).
  rewrite E, filter_app, (filter_digit_none (skipn k s)) by exact H. rewrite app_nil_r. reflexivity.
Qed.
Lemma has_suffix_split p s : has_suffix p s = true -> skipn (List.length s - List.length p) s = p.
Proof.
  unfold has_suffix. intro H. apply has_prefix_split in H.
  rewrite rev_length in H.
  assert (E : s = rev (skipn (List.length p) (rev s)) ++ p).
  { rewrite <- (rev_involutive s) at 1. rewrite H at 1. rewrite rev_app_distr, rev_involutive. reflexivity. }
  rewrite E at 2. rewrite skipn_app.
  assert (L : List.length (rev (skipn (List.length p) (rev s))) = (List.length s - List.length p)%nat)
    by (rewrite rev_length, skipn_length, rev_length; reflexivity).
  rewrite <- L at 1. rewrite skipn_all. rewrite L. rewrite Nat.sub_diag. reflexivity.
Qed.
Theorem normalize_CH_digits raw : filter is_digit (snd (normalize (bs "CH") raw)) = filter is_digit raw.
Proof.
  rewrite normalize_CH. cbn [snd].
  rewrite <- (norm_generic_digits (bs "CH") [] raw) by (repeat constructor).
  generalize (norm_generic (bs "CH") [] raw). intro s. unfold ch_strip_suffix.
  destruct (has_suffix (bs "MWST") s) eqn:E1.
  { apply drop_last_digits. apply has_suffix_split in E1. change (List.length (bs "MWST")) with 4%nat in E1. rewrite E1. reflexivity. }
  destruct (has_suffix (bs "TVA") s) eqn:E2.
  { apply drop_last_digits. apply has_suffix_split in E2. change (List.length (bs "TVA")) with 3%nat in E2. rewrite E2. reflexivity. }
  destruct (has_suffix (bs "IVA") s) eqn:E3; [|reflexivity].
  apply drop_last_digits. apply has_suffix_split in E3. change (List.length (bs "IVA")) with 3%nat in E3. rewrite E3. reflexivity.
Qed.

(* ---------------- accepted codes are fixed points: the guard is vacuous on them ---------------- *)
Lemma digits_n_forallb n c : digits_n n c = true -> forallb is_digit c = true.
Proof. apply digits_n_all_digits. Qed.

Theorem accepted_digit_codes_fixed cc c :
  In cc simple_regimes -> forallb is_digit c = true -> normalize cc c = (cc, c).
Proof.
  intros H D. rewrite (normalize_simple cc _ H). f_equal. apply norm_generic_fixed_digits; [|exact D].
  cbn in H. repeat (destruct H as [<-|H]; [eexists _, _; split; reflexivity|]). contradiction.
Qed.

Corollary accepted_PL_fixed c : valid_PL c = true -> normalize (bs "PL") c = (bs "PL", c).
Proof.
  intro V. destruct c as [|x c]; [reflexivity|]. destruct (pl_shape _ V ltac:(discriminate)) as [_ D].
  apply accepted_digit_codes_fixed; [cbn; tauto | apply (digits_n_forallb 10); exact D].
Qed.
Corollary accepted_PT_fixed c : valid_PT c = true -> normalize (bs "PT") c = (bs "PT", c).
Proof.
  intro V. apply valid_PT_arith in V. destruct V as [->|(D & _)]; [reflexivity|].
  apply accepted_digit_codes_fixed; [cbn; tauto | apply (digits_n_forallb 9); exact D].
Qed.
Corollary accepted_IT_fixed c : valid_IT c = true -> normalize (bs "IT") c = (bs "IT", c).
Proof.
  intro V. destruct c as [|x c]; [reflexivity|]. destruct (it_shape _ V ltac:(discriminate)) as [_ D].
  apply accepted_digit_codes_fixed; [cbn; tauto | exact D].
Qed.
Corollary accepted_DE_fixed c : valid_DE c = true -> normalize (bs "DE") c = (bs "DE", c).
Proof.
  intro V. destruct c as [|x c]; [reflexivity|]. pose proof (de_shape _ V ltac:(discriminate)) as D.
  apply accepted_digit_codes_fixed; [cbn; tauto | apply (digits_n_forallb 9); exact D].
Qed.

(* ES: the codes start with a letter, but never with "ES" (the second character is a digit) *)
Lemma es_second_is_digit c : valid_ES c = true -> c <> [] ->
  List.length c = 9%nat /\ forallb is_alnum c = true /\ is_digit (nthb 1 c) = true.
Proof.
  unfold valid_ES, nonempty. destruct c as [|x c]; [congruence|]. intros V _.
  assert (A1 : forall a, one_of es_org_types a = true -> is_alnum a = true) by (intro a; bytecases a).
  assert (A2 : forall a, one_of (bs "XYZ") a = true -> is_alnum a = true) by (intro a; bytecases a).
  assert (A3 : forall a, one_of (bs "KLM") a = true -> is_alnum a = true) by (intro a; bytecases a).
  assert (A4 : forall a, es_is_check_letter a = true -> is_alnum a = true) by (intro a; bytecases a).
  assert (A5 : forall a, es_is_org_check a = true -> is_alnum a = true) by (intro a; bytecases a).
  assert (A6 : forall a, is_digit a = true -> is_alnum a = true) by (apply digit_alnum).
  destruct (es_fmt_org (x :: c)) eqn:F1; [clear V; rename F1 into F|
  destruct (es_fmt_national (x :: c)) eqn:F2; [clear V; rename F2 into F|
  destruct (es_fmt_foreign (x :: c)) eqn:F3; [clear V; rename F3 into F|
  destruct (es_fmt_other (x :: c)) eqn:F4; [clear V; rename F4 into F|discriminate]]]];
  pose proof (match_classes_length _ _ F) as L; cbn in L; injection L as L; explode c L;
  unfold es_fmt_org, es_fmt_national, es_fmt_foreign, es_fmt_other in F; cbn [rep repeat app match_classes] in F; split_all F;
  (split; [reflexivity|]); (split; [|cbn [nthb nth]; assumption]);
  cbn [forallb]; repeat (apply andb_true_intro; split); auto.
Qed.

Theorem accepted_ES_fixed c : valid_ES c = true -> normalize (bs "ES") c = (bs "ES", c).
Proof.
  intro V. destruct c as [|x c]; [reflexivity|].
  destruct (es_second_is_digit _ V ltac:(discriminate)) as (L & A & D).
  rewrite normalize_simple by (cbn; tauto). f_equal.
  apply norm_generic_fixed; [exact A|]. constructor; [right|constructor].
  destruct c as [|y c]; [discriminate L|]. cbn [nthb nth] in D.
  change (bs "ES") with ["E"; "S"]%byte. cbn [has_prefix].
  destruct (Byte.eqb "S" y) eqn:E; [|rewrite andb_false_r; reflexivity].
  apply byte_eqb_eq in E. subst y. discriminate D.
Qed.
