(* C13 - regimes with a weighted sum modulo 11: PL, CH (every single-digit error detected),
   PT, CO, EL, BR (two remainders share one check digit: a characterised subset is detected). *)
From Coq Require Import String List ZArith Strings.Byte Bool Lia ZifyBool.
From Verif Require Import Base.Wire TaxId.Common TaxId.Regimes TaxId.CommonProofs TaxId.CheckProofs.
Import ListNotations.
Open Scope Z_scope.
Ltac Zify.zify_post_hook ::= Z.div_mod_to_equations.
(* conversion: unfold the model's definitions before integer arithmetic (keeps Qed fast) *)
Local Strategy 100 [Z.add Z.mul Z.sub Z.opp Z.modulo Z.div Z.eqb Z.ltb Z.leb Z.pow dv bZ].

(* ======================= PL ======================= *)
Definition F_PL : list (Z -> Z) := map Z.mul [6; 5; 7; 2; 3; 4; 5; 6; 7; -1].

Lemma pl_shape c : valid_PL c = true -> c <> [] -> List.length c = 10%nat /\ digits_n 10 c = true.
Proof.
  unfold valid_PL, nonempty, pl_format. destruct c; [congruence|]. intros H _.
  split_andb H. split; [apply digits_n_length|]; assumption.
Qed.

Lemma pl_lin c : List.length c = 10%nat -> valid_PL c = true -> (fsum F_PL (digs c) + 0) mod 11 = 0.
Proof.
  intros H V. explode c H. unfold valid_PL, nonempty, pl_check in V.
  split_andb V. cbn [digs map wsum pl_mults nthZ nth] in B.
  cbn [F_PL fsum digs map]. lia.
Qed.

Theorem pl_single_digit c i b :
  valid_PL c = true -> c <> [] -> (i < 10)%nat -> is_digit b = true -> b <> nthb i c ->
  valid_PL (set_nth i b c) = false.
Proof.
  intros V NE Hi Hb Hne. destruct (pl_shape c V NE) as [L D].
  apply (detect_single valid_PL F_PL (fun _ => 0) 11 10); auto; try lia; try reflexivity.
  - exact pl_lin.
  - do 10 (destruct i as [|i]; [solve_detect|]). lia.
  - apply (digits_n_nth 10); assumption.
Qed.

(* ======================= CH ======================= *)
(* "E" then 9 digits; position 0 (the letter) carries no weight *)
Definition F_CH : list (Z -> Z) := zerof :: map Z.mul [5; 4; 3; 2; 7; 6; 5; 4; 1].

Lemma ch_shape c : valid_CH c = true -> c <> [] ->
  List.length c = 10%nat /\ forall i, (1 <= i < 10)%nat -> is_digit (nthb i c) = true.
Proof.
  unfold valid_CH, nonempty. destruct c as [|b0 c]; [congruence|]. intros H _. split_andb H.
  split.
  - apply match_classes_length in H. rewrite H. reflexivity.
  - intros i Hi. pose proof (match_classes_nth _ _ i H) as P.
    do 10 (destruct i as [|i]; [try lia; apply P; cbn; lia|]). lia.
Qed.

Lemma ch_lin c : List.length c = 10%nat -> valid_CH c = true -> (fsum F_CH (digs c) + 0) mod 11 = 0.
Proof.
  intros H V. explode c H. unfold valid_CH, nonempty, ch_check in V. split_andb V.
  cbn [skipn digs map wsum ch_mults nthZ nth] in B. cbv zeta in B.
  cbn [F_CH fsum digs map]. unfold zerof.
  destruct (_ =? 10) eqn:E1 in B; [discriminate|].
  destruct (_ =? 11) eqn:E2 in B; lia.
Qed.

Theorem ch_single_digit c i b :
  valid_CH c = true -> c <> [] -> (1 <= i < 10)%nat -> is_digit b = true -> b <> nthb i c ->
  valid_CH (set_nth i b c) = false.
Proof.
  intros V NE Hi Hb Hne. destruct (ch_shape c V NE) as [L D].
  apply (detect_single valid_CH F_CH (fun _ => 0) 11 10); auto; try lia; try reflexivity.
  - exact ch_lin.
  - destruct i as [|i]; [lia|]. do 9 (destruct i as [|i]; [solve_detect|]). lia.
Qed.
