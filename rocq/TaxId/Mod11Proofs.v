(* C13 - regimes with a weighted sum modulo 11: PL, CH (every single-digit error detected),
   PT, CO, EL, BR (two remainders share one check digit: a characterised subset is detected). *)
From Coq Require Import String List ZArith Strings.Byte Bool Lia ZifyBool.
From Verif Require Import Base.Wire TaxId.Common TaxId.Regimes TaxId.CommonProofs TaxId.CheckProofs TaxId.Spec.
Import ListNotations.
Open Scope Z_scope.
Ltac Zify.zify_post_hook ::= Z.div_mod_to_equations.
(* conversion: unfold the model's definitions before integer arithmetic (keeps Qed fast) *)
Local Strategy 100 [Z.add Z.mul Z.sub Z.opp Z.modulo Z.div Z.eqb Z.ltb Z.leb Z.pow dv bZ].

(* ======================= PL ======================= *)
Definition F_PL : list (Z -> Z) := map Z.mul [6; 5; 7; 2; 3; 4; 5; 6; 7; -1].

Lemma pl_shape c : valid_PL c = true -> c <> [] -> List.length c = 10%nat /\ digits_n 10 c = true.
Proof.
  unfold valid_PL, nonempty, pl_format. destruct c; [congruence|]. intros H _.
  split_andb H. split; [apply digits_n_length|]; assumption.
Qed.

Lemma pl_lin c : List.length c = 10%nat -> valid_PL c = true -> (fsum F_PL (digs c) + 0) mod 11 = 0.
Proof.
  intros H V. explode c H. unfold valid_PL, nonempty, pl_check in V.
  split_andb V. cbn [digs map wsum pl_mults nthZ nth] in B.
  cbn [F_PL fsum digs map]. lia.
Qed.

Theorem pl_single_digit c i b :
  valid_PL c = true -> c <> [] -> (i < 10)%nat -> is_digit b = true -> b <> nthb i c ->
  valid_PL (set_nth i b c) = false.
Proof.
  intros V NE Hi Hb Hne. destruct (pl_shape c V NE) as [L D].
  apply (detect_single valid_PL F_PL (fun _ => 0) 11 10); auto; try lia; try reflexivity.
  - exact pl_lin.
  - do 10 (destruct i as [|i]; [solve_detect|]). lia.
  - apply (digits_n_nth 10); assumption.
Qed.

(* ======================= CH ======================= *)
(* "E" then 9 digits; position 0 (the letter) carries no weight *)
Definition F_CH : list (Z -> Z) := zerof :: map Z.mul [5; 4; 3; 2; 7; 6; 5; 4; 1].

Lemma ch_shape c : valid_CH c = true -> c <> [] ->
  List.length c = 10%nat /\ forall i, (1 <= i < 10)%nat -> is_digit (nthb i c) = true.
Proof.
  unfold valid_CH, nonempty. destruct c as [|b0 c]; [congruence|]. intros H _. split_andb H.
  split.
  - apply match_classes_length in H. rewrite H. reflexivity.
  - intros i Hi. pose proof (match_classes_nth _ _ i H) as P.
    do 10 (destruct i as [|i]; [try lia; apply P; cbn; lia|]). lia.
Qed.

Lemma ch_lin c : List.length c = 10%nat -> valid_CH c = true -> (fsum F_CH (digs c) + 0) mod 11 = 0.
Proof.
  intros H V. explode c H. unfold valid_CH, nonempty, ch_check in V. split_andb V.
  cbn [skipn digs map wsum ch_mults nthZ nth] in B. cbv zeta in B.
  cbn [F_CH fsum digs map]. unfold zerof.
  destruct (_ =? 10) eqn:E1 in B; [discriminate|].
  destruct (_ =? 11) eqn:E2 in B; lia.
Qed.

Theorem ch_single_digit c i b :
  valid_CH c = true -> c <> [] -> (1 <= i < 10)%nat -> is_digit b = true -> b <> nthb i c ->
  valid_CH (set_nth i b c) = false.
Proof.
  intros V NE Hi Hb Hne. destruct (ch_shape c V NE) as [L D].
  apply (detect_single valid_CH F_CH (fun _ => 0) 11 10); auto; try lia; try reflexivity.
  - exact ch_lin.
  - destruct i as [|i]; [lia|]. do 9 (destruct i as [|i]; [solve_detect|]). lia.
Qed.

(* ======================= declarative rules ======================= *)
Theorem valid_PL_iff_spec c : valid_PL c = true <-> c = [] \/ Spec_PL c.
Proof.
  destruct c as [|x c]; [split; auto|]. unfold valid_PL, nonempty, pl_format, pl_check, Spec_PL. split.
  - intro V. right. split_andb V. pose proof (digits_n_length _ _ V) as L. split; [exact L|].
    split; [intros i Hi; apply (digits_n_nth 10); [exact V | lia]|].
    pose proof (digits_n_bounds _ _ V) as Hd. explode c L. pose_upto Hd 10%nat.
    unfold dig, in_range in *. cbn [digs map wsum pl_mults nthZ nth nthb] in *. unfold dv in *.
    repeat split; lia.
  - intros [?|(L & Dg & N0 & N12 & A)]; [discriminate|]. explode c L.
    assert (D : digits_n 10 [x; b; b0; b1; b2; b3; b4; b5; b6; b7] = true).
    { unfold digits_n. cbn. pose_upto Dg 10%nat. unfold digit_at in *. cbn [nthb nth] in *. solve_digits. }
    rewrite D. pose proof (digits_n_bounds _ _ D) as Hd. pose_upto Hd 10%nat.
    unfold dig, in_range in *. cbn [digs map wsum pl_mults nthZ nth nthb andb] in *. unfold dv in *.
    repeat (apply andb_true_intro; split); lia.
Qed.

Theorem valid_CH_iff_spec c : valid_CH c = true <-> c = [] \/ Spec_CH c.
Proof.
  destruct c as [|x c]; [split; auto|]. unfold valid_CH, nonempty, ch_check, Spec_CH. split.
  - intro V. right. split_andb V. pose proof (match_classes_length _ _ V) as L. cbn [List.length rep repeat] in L.
    split; [exact L|]. cbn [List.length] in L. injection L as L. explode c L.
    cbn [rep repeat match_classes] in V. split_all V.
    split; [cbn [nthb nth]; apply dv_inj; unfold dv, beq in *; change (bZ "E") with 69; lia|].
    split.
    { intros i Hi. unfold digit_at. destruct i as [|i]; [lia|].
      do 9 (destruct i as [|i]; [cbn [nthb nth]; assumption|]). lia. }
    unfold dig. cbn [skipn digs map wsum ch_mults nthZ nth nthb] in *. cbv zeta in *.
    assert (R9 : 0 <= dv b7 <= 9) by (apply dv_digit; assumption).
    destruct (_ =? 10) eqn:E1 in B; [discriminate|]. destruct (_ =? 11) eqn:E2 in B; lia.
  - intros [?|(L & E & Dg & A)]; [discriminate|]. explode c L. cbn [nthb nth] in E. subst x.
    cbn [rep repeat match_classes]. change (beq "E" 69) with true.
    pose proof (Dg 1%nat ltac:(lia)); pose proof (Dg 2%nat ltac:(lia)); pose proof (Dg 3%nat ltac:(lia));
    pose proof (Dg 4%nat ltac:(lia)); pose proof (Dg 5%nat ltac:(lia)); pose proof (Dg 6%nat ltac:(lia));
    pose proof (Dg 7%nat ltac:(lia)); pose proof (Dg 8%nat ltac:(lia)); pose proof (Dg 9%nat ltac:(lia)).
    unfold digit_at in *. cbn [nthb nth] in *.
    pose proof (dv_digit _ H7) as R9.
    unfold dig in A. cbn [skipn digs map wsum ch_mults nthZ nth nthb] in *. cbv zeta in *.
    replace (true && (is_digit b && (is_digit b0 && (is_digit b1 && (is_digit b2 && (is_digit b3 && (is_digit b4 && (is_digit b5 && (is_digit b6 && (is_digit b7 && true)))))))))) with true
      by (symmetry; solve_digits).
    cbn [andb].
    destruct (_ =? 10) eqn:E1; [lia|]. destruct (_ =? 11) eqn:E2; lia.
Qed.
