(* C13 - equivalence of the validators with the declarative published rules (TaxId/Spec.v) for
   AT, DE, CO, BR, ES, IN, AE, MX and GB in all its forms
   (PL, CH: Mod11Proofs; PT: PTProofs; EL: ELProofs; NL: NLProofs; IT, FR, BE: SpecProofs). *)
From Coq Require Import String List ZArith Strings.Byte Bool Lia ZifyBool.
From Verif Require Import Base.Wire TaxId.Common TaxId.Regimes TaxId.CommonProofs TaxId.CheckProofs TaxId.Spec
  TaxId.COProofs TaxId.BRProofs TaxId.DEProofs TaxId.ESProofs TaxId.INProofs TaxId.Mod97Proofs TaxId.LuhnProofs
  TaxId.GBProofs TaxId.SpecProofs.
Import ListNotations.
Open Scope Z_scope.
Ltac Zify.zify_post_hook ::= Z.div_mod_to_equations.
Local Strategy 100 [Z.add Z.mul Z.sub Z.opp Z.modulo Z.div Z.eqb Z.ltb Z.leb Z.pow dv bZ].

(* from digits_between to one hypothesis per position (positions lo .. lo+n-1) *)
Ltac pose_between Dg lo n :=
  match n with
  | O => idtac
  | S ?k => let H := fresh "Dg" in
            pose proof (Dg (lo + k)%nat ltac:(lia)) as H; unfold digit_at in H; cbn [Nat.add nthb nth] in H;
            pose_between Dg lo k
  end.
Ltac pose_dv_bounds :=
  repeat match goal with
         | H : is_digit ?b = true |- _ =>
           lazymatch goal with
           | _ : 0 <= dv b <= 9 |- _ => fail
           | _ => pose proof (dv_digit _ H)
           end
         end.
(* digits_between on an explicit list: case analysis on the position *)
Ltac between_cases i n :=
  match n with
  | O => lia
  | S ?k => destruct i as [|i]; [first [lia | cbn [nthb nth]; assumption] | between_cases i k]
  end.
Ltac solve_between n :=
  let i := fresh "i" in let Hi := fresh "Hi" in
  intros i Hi; unfold digit_at; between_cases i n.

(* ======================= AT ======================= *)
Lemma at_term_1 d : 0 <= d <= 9 -> at_term 1 d = d.
Proof. unfold at_term. intro H. cbv zeta. destruct (9 <? d * 1) eqn:E; lia. Qed.
Lemma at_term_2 d : 0 <= d <= 9 -> at_term 2 d = digit_sum_of_double d.
Proof. unfold at_term, digit_sum_of_double. intro H. cbv zeta. destruct (9 <? d * 2) eqn:E; lia. Qed.
Lemma digit_sum_of_double_range d : 0 <= d <= 9 -> 0 <= digit_sum_of_double d <= 9.
Proof. unfold digit_sum_of_double. lia. Qed.

Lemma byte_of_beq b z : beq b z = true -> bZ b = z.
Proof. unfold beq. lia. Qed.
Lemma bZ_inj a b : bZ a = bZ b -> a = b.
Proof. intro H. apply dv_inj. unfold dv. lia. Qed.

Theorem valid_AT_iff_spec c : valid_AT c = true <-> c = [] \/ Spec_AT c.
Proof.
  destruct c as [|x c]; [split; auto|]. unfold valid_AT, nonempty, at_check, Spec_AT. split.
  - intro V. right. split_andb V. pose proof (match_classes_length _ _ V) as L. cbn [List.length rep repeat] in L.
    split; [exact L|]. cbn [List.length] in L. injection L as L. explode c L.
    cbn [rep repeat match_classes] in V. split_all V.
    split; [cbn [nthb nth]; apply bZ_inj; apply byte_of_beq in A; rewrite A; reflexivity|].
    split; [solve_between 9%nat|].
    pose_dv_bounds. unfold dig. cbn [skipn digs map at_sum at_mults nthZ nth nthb] in *. cbv zeta in B.
    rewrite !at_term_1, !at_term_2 in B by assumption.
    pose proof (digit_sum_of_double_range (dv b0) ltac:(assumption)).
    pose proof (digit_sum_of_double_range (dv b2) ltac:(assumption)).
    pose proof (digit_sum_of_double_range (dv b4) ltac:(assumption)).
    generalize dependent (digit_sum_of_double (dv b0)). generalize dependent (digit_sum_of_double (dv b2)).
    generalize dependent (digit_sum_of_double (dv b4)). intros.
    destruct (_ =? 10) eqn:E in B; lia.
  - intros [?|(L & E & Dg & A)]; [discriminate|]. explode c L. cbn [nthb nth] in E. subst x.
    cbn [rep repeat match_classes]. change (beq "U" 85) with true.
    pose_between Dg 1%nat 8%nat. pose_dv_bounds.
    unfold dig in A. cbn [skipn digs map at_sum at_mults nthZ nth nthb] in *. cbv zeta.
    rewrite !at_term_1, !at_term_2 by assumption.
    replace (true && (is_digit b && (is_digit b0 && (is_digit b1 && (is_digit b2 && (is_digit b3 && (is_digit b4 && (is_digit b5 && (is_digit b6 && true))))))))) with true
      by (symmetry; solve_digits).
    cbn [andb].
    pose proof (digit_sum_of_double_range (dv b0) ltac:(assumption)).
    pose proof (digit_sum_of_double_range (dv b2) ltac:(assumption)).
    pose proof (digit_sum_of_double_range (dv b4) ltac:(assumption)).
    generalize dependent (digit_sum_of_double (dv b0)). generalize dependent (digit_sum_of_double (dv b2)).
    generalize dependent (digit_sum_of_double (dv b4)). intros.
    destruct (_ =? 10) eqn:E; lia.
Qed.

(* ======================= DE ======================= *)
Lemma iso_next_iff p a p' : iso7064_11_10_next p a p' <-> p' = de_step p a.
Proof.
  unfold iso7064_11_10_next, de_step. cbv zeta. split.
  - intros (s & R & M & ->). destruct ((a + p) mod 10 =? 0) eqn:E; f_equal; lia.
  - intros ->. exists (if (a + p) mod 10 =? 0 then 10 else (a + p) mod 10).
    destruct ((a + p) mod 10 =? 0) eqn:E; repeat split; lia.
Qed.
Lemma iso_chain_iff ds p q : iso7064_11_10_chain p ds q <-> q = fold_left de_step ds p.
Proof.
  revert p; induction ds as [|a r IH]; intro p; cbn [iso7064_11_10_chain fold_left]; [tauto|]. split.
  - intros (p' & N & C). apply iso_next_iff in N. subst p'. apply IH. exact C.
  - intros ->. exists (de_step p a). split; [apply iso_next_iff; reflexivity | apply IH; reflexivity].
Qed.
Lemma de_cd_rule p d : prange p -> 0 <= d <= 9 -> (de_cd p = d <-> (p + d) mod 10 = 1).
Proof. unfold prange, de_cd. intros. destruct (11 - p =? 10) eqn:E; lia. Qed.

Theorem valid_DE_iff_spec c : valid_DE c = true <-> c = [] \/ Spec_DE c.
Proof.
  destruct c as [|x c]; [split; auto|]. unfold valid_DE, nonempty, Spec_DE. rewrite de_check_unfold. split.
  - intro V. right. split_andb V. pose proof (match_classes_length _ _ V) as L. cbn [List.length rep repeat] in L.
    split; [exact L|]. cbn [List.length] in L. injection L as L. explode c L.
    cbn [rep repeat match_classes] in V. split_all V.
    assert (Dx : is_digit x = true) by (revert A; unfold in_range, is_digit; lia).
    split; [solve_between 9%nat|].
    pose_dv_bounds. unfold dig. cbn [digs map firstn nthZ nth nthb] in *.
    split; [revert A; unfold in_range, dv; lia|].
    exists (fold_left de_step [dv x; dv b; dv b0; dv b1; dv b2; dv b3; dv b4; dv b5] 10).
    split; [apply iso_chain_iff; reflexivity|].
    apply de_cd_rule; [apply de_fold_range; [unfold prange; lia | unfold digit; fdig] | assumption | lia].
  - intros [?|(L & Dg & N0 & p & C & A)]; [discriminate|]. explode c L.
    pose_between Dg 0%nat 9%nat. pose_dv_bounds.
    unfold dig in *. cbn [digs map firstn nthZ nth nthb rep repeat match_classes] in *.
    apply iso_chain_iff in C. subst p.
    apply andb_true_intro; split.
    + assert (Rx : in_range 49 57 x = true) by (revert N0 Dg8; unfold in_range, is_digit, dv; lia).
      rewrite Rx. solve_digits.
    + apply Z.eqb_eq. apply de_cd_rule; [apply de_fold_range; [unfold prange; lia | unfold digit; fdig] | assumption | exact A].
Qed.

(* ======================= CO ======================= *)
Theorem valid_CO_iff_spec c : valid_CO c = true <-> c = [] \/ Spec_CO c.
Proof.
  rewrite valid_CO_arith. unfold Spec_CO, co_dv_rule, co_T, co_last. split.
  - intros [E|(L & D & A)]; [left; exact E|right].
    apply all_digits_digits_n in D. split; [apply digits_between_of_digits_n; exact D|].
    destruct L as [L|L]; [left|right]; (split; [exact L|]); rewrite L in *;
      pose proof (digits_n_bounds _ _ D) as Hd; explode c L; [pose_upto Hd 9%nat | pose_upto Hd 10%nat]; clear Hd D;
      unfold dig; cbn [co_W Nat.sub firstn co_mults rev app digs map wsum nthb nth List.length] in *; lia.
  - intros [E|(Dg & A)]; [left; exact E|right].
    assert (L : List.length c = 9%nat \/ List.length c = 10%nat) by (destruct A as [(L & _)|(L & _)]; auto).
    split; [exact L|].
    pose proof (digits_n_of_between _ _ eq_refl Dg) as D. split; [apply (digits_n_all_digits _ _ D)|].
    destruct A as [(L' & A)|(L' & A)]; rewrite L' in *;
      pose proof (digits_n_bounds _ _ D) as Hd; explode c L'; [pose_upto Hd 9%nat | pose_upto Hd 10%nat]; clear Hd D Dg L;
      unfold dig in A; cbn [co_W Nat.sub firstn co_mults rev app digs map wsum nthb nth List.length] in *; lia.
Qed.

(* ======================= BR ======================= *)
Theorem valid_BR_iff_spec c : valid_BR c = true <-> c = [] \/ Spec_BR c.
Proof.
  rewrite valid_BR_arith. unfold Spec_BR, br_dv_rule, br_folded, br_T1, br_T2. split.
  - intros [E|(D & A1 & A2)]; [left; exact E|right].
    pose proof (digits_n_length _ _ D) as L. split; [exact L|].
    split; [apply digits_between_of_digits_n; exact D|].
    pose proof (digits_n_bounds _ _ D) as Hd. explode c L. pose_upto Hd 14%nat. clear Hd D.
    unfold dig. cbn [br_W1 br_W2 digs map wsum nthb nth] in *. split; lia.
  - intros [E|(L & Dg & A1 & A2)]; [left; exact E|right].
    pose proof (digits_n_of_between _ _ L Dg) as D. split; [exact D|].
    pose proof (digits_n_bounds _ _ D) as Hd. explode c L. pose_upto Hd 14%nat. clear Hd D Dg.
    unfold dig in *. cbn [br_W1 br_W2 digs map wsum nthb nth] in *. split; lia.
Qed.
