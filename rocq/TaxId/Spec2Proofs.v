(* C13 - equivalence of the validators with the declarative published rules (TaxId/Spec.v) for
   AT, DE, CO, BR, ES, IN, AE, MX and GB in all its forms
   (PL, CH: Mod11Proofs; PT: PTProofs; EL: ELProofs; NL: NLProofs; IT, FR, BE: SpecProofs). *)
From Coq Require Import String List ZArith Strings.Byte Bool Lia ZifyBool.
From Verif Require Import Base.Wire TaxId.Common TaxId.Regimes TaxId.CommonProofs TaxId.CheckProofs TaxId.Spec
  TaxId.COProofs TaxId.BRProofs TaxId.DEProofs TaxId.ESProofs TaxId.INProofs TaxId.Mod97Proofs TaxId.LuhnProofs
  TaxId.GBProofs TaxId.SpecProofs.
Import ListNotations.
Open Scope Z_scope.
Ltac Zify.zify_post_hook ::= Z.div_mod_to_equations.
Local Strategy 100 [Z.add Z.mul Z.sub Z.opp Z.modulo Z.div Z.eqb Z.ltb Z.leb Z.pow dv bZ].

(* from digits_between to one hypothesis per position (positions lo .. lo+n-1) *)
Ltac pose_between Dg lo n :=
  match n with
  | O => idtac
  | S ?k => let H := fresh "Dg" in
            pose proof (Dg (lo + k)%nat ltac:(lia)) as H; unfold digit_at in H; cbn [Nat.add nthb nth] in H;
            pose_between Dg lo k
  end.
Ltac pose_dv_bounds :=
  repeat match goal with
         | H : is_digit ?b = true |- _ =>
           lazymatch goal with
           | _ : 0 <= dv b <= 9 |- _ => fail
           | _ => pose proof (dv_digit _ H)
           end
         end.
(* digits_between on an explicit list: case analysis on the position *)
Ltac between_cases i n :=
  match n with
  | O => lia
  | S ?k => destruct i as [|i]; [first [lia | cbn [nthb nth]; assumption] | between_cases i k]
  end.
Ltac solve_between n :=
  let i := fresh "i" in let Hi := fresh "Hi" in
  intros i Hi; unfold digit_at, upper_at; between_cases i n.

(* ======================= AT ======================= *)
Lemma at_term_1 d : 0 <= d <= 9 -> at_term 1 d = d.
Proof. unfold at_term. intro H. cbv zeta. destruct (9 <? d * 1) eqn:E; lia. Qed.
Lemma at_term_2 d : 0 <= d <= 9 -> at_term 2 d = digit_sum_of_double d.
Proof. unfold at_term, digit_sum_of_double. intro H. cbv zeta. destruct (9 <? d * 2) eqn:E; lia. Qed.
Lemma digit_sum_of_double_range d : 0 <= d <= 9 -> 0 <= digit_sum_of_double d <= 9.
Proof. unfold digit_sum_of_double. lia. Qed.

Lemma byte_of_beq b z : beq b z = true -> bZ b = z.
Proof. unfold beq. lia. Qed.
Lemma bZ_inj a b : bZ a = bZ b -> a = b.
Proof. intro H. apply dv_inj. unfold dv. lia. Qed.

Theorem valid_AT_iff_spec c : valid_AT c = true <-> c = [] \/ Spec_AT c.
Proof.
  destruct c as [|x c]; [split; auto|]. unfold valid_AT, nonempty, at_check, Spec_AT. split.
  - intro V. right. split_andb V. pose proof (match_classes_length _ _ V) as L. cbn [List.length rep repeat] in L.
    split; [exact L|]. cbn [List.length] in L. injection L as L. explode c L.
    cbn [rep repeat match_classes] in V. split_all V.
    split; [cbn [nthb nth]; apply bZ_inj; apply byte_of_beq in A; rewrite A; reflexivity|].
    split; [solve_between 9%nat|].
    pose_dv_bounds. unfold dig. cbn [skipn digs map at_sum at_mults nthZ nth nthb] in *. cbv zeta in B.
    rewrite !at_term_1, !at_term_2 in B by assumption.
    pose proof (digit_sum_of_double_range (dv b0) ltac:(assumption)).
    pose proof (digit_sum_of_double_range (dv b2) ltac:(assumption)).
    pose proof (digit_sum_of_double_range (dv b4) ltac:(assumption)).
    generalize dependent (digit_sum_of_double (dv b0)). generalize dependent (digit_sum_of_double (dv b2)).
    generalize dependent (digit_sum_of_double (dv b4)). intros.
    destruct (_ =? 10) eqn:E in B; lia.
  - intros [?|(L & E & Dg & A)]; [discriminate|]. explode c L. cbn [nthb nth] in E. subst x.
    cbn [rep repeat match_classes]. change (beq "U" 85) with true.
    pose_between Dg 1%nat 8%nat. pose_dv_bounds.
    unfold dig in A. cbn [skipn digs map at_sum at_mults nthZ nth nthb] in *. cbv zeta.
    rewrite !at_term_1, !at_term_2 by assumption.
    replace (true && (is_digit b && (is_digit b0 && (is_digit b1 && (is_digit b2 && (is_digit b3 && (is_digit b4 && (is_digit b5 && (is_digit b6 && true))))))))) with true
      by (symmetry; solve_digits).
    cbn [andb].
    pose proof (digit_sum_of_double_range (dv b0) ltac:(assumption)).
    pose proof (digit_sum_of_double_range (dv b2) ltac:(assumption)).
    pose proof (digit_sum_of_double_range (dv b4) ltac:(assumption)).
    generalize dependent (digit_sum_of_double (dv b0)). generalize dependent (digit_sum_of_double (dv b2)).
    generalize dependent (digit_sum_of_double (dv b4)). intros.
    destruct (_ =? 10) eqn:E; lia.
Qed.

(* ======================= DE ======================= *)
Lemma iso_next_iff p a p' : iso7064_11_10_next p a p' <-> p' = de_step p a.
Proof.
  unfold iso7064_11_10_next, de_step. cbv zeta. split.
  - intros (s & R & M & ->). destruct ((a + p) mod 10 =? 0) eqn:E; f_equal; lia.
  - intros ->. exists (if (a + p) mod 10 =? 0 then 10 else (a + p) mod 10).
    destruct ((a + p) mod 10 =? 0) eqn:E; repeat split; lia.
Qed.
Lemma iso_chain_iff ds p q : iso7064_11_10_chain p ds q <-> q = fold_left de_step ds p.
Proof.
  revert p; induction ds as [|a r IH]; intro p; cbn [iso7064_11_10_chain fold_left]; [tauto|]. split.
  - intros (p' & N & C). apply iso_next_iff in N. subst p'. apply IH. exact C.
  - intros ->. exists (de_step p a). split; [apply iso_next_iff; reflexivity | apply IH; reflexivity].
Qed.
Lemma de_cd_rule p d : prange p -> 0 <= d <= 9 -> (de_cd p = d <-> (p + d) mod 10 = 1).
Proof. unfold prange, de_cd. intros. destruct (11 - p =? 10) eqn:E; lia. Qed.

Theorem valid_DE_iff_spec c : valid_DE c = true <-> c = [] \/ Spec_DE c.
Proof.
  destruct c as [|x c]; [split; auto|]. unfold valid_DE, nonempty, Spec_DE. rewrite de_check_unfold. split.
  - intro V. right. split_andb V. pose proof (match_classes_length _ _ V) as L. cbn [List.length rep repeat] in L.
    split; [exact L|]. cbn [List.length] in L. injection L as L. explode c L.
    cbn [rep repeat match_classes] in V. split_all V.
    assert (Dx : is_digit x = true) by (revert A; unfold in_range, is_digit; lia).
    split; [solve_between 9%nat|].
    pose_dv_bounds. unfold dig. cbn [digs map firstn nthZ nth nthb] in *.
    split; [revert A; unfold in_range, dv; lia|].
    exists (fold_left de_step [dv x; dv b; dv b0; dv b1; dv b2; dv b3; dv b4; dv b5] 10).
    split; [apply iso_chain_iff; reflexivity|].
    apply de_cd_rule; [apply de_fold_range; [unfold prange; lia | unfold digit; fdig] | assumption | lia].
  - intros [?|(L & Dg & N0 & p & C & A)]; [discriminate|]. explode c L.
    pose_between Dg 0%nat 9%nat. pose_dv_bounds.
    unfold dig in *. cbn [digs map firstn nthZ nth nthb rep repeat match_classes] in *.
    apply iso_chain_iff in C. subst p.
    apply andb_true_intro; split.
    + assert (Rx : in_range 49 57 x = true) by (revert N0 Dg8; unfold in_range, is_digit, dv; lia).
      rewrite Rx. solve_digits.
    + apply Z.eqb_eq. apply de_cd_rule; [apply de_fold_range; [unfold prange; lia | unfold digit; fdig] | assumption | exact A].
Qed.

(* ======================= CO ======================= *)
Theorem valid_CO_iff_spec c : valid_CO c = true <-> c = [] \/ Spec_CO c.
Proof.
  rewrite valid_CO_arith. unfold Spec_CO, co_dv_rule, co_T, co_last. split.
  - intros [E|(L & D & A)]; [left; exact E|right].
    apply all_digits_digits_n in D. split; [apply digits_between_of_digits_n; exact D|].
    destruct L as [L|L]; [left|right]; (split; [exact L|]); rewrite L in *;
      pose proof (digits_n_bounds _ _ D) as Hd; explode c L; [pose_upto Hd 9%nat | pose_upto Hd 10%nat]; clear Hd D;
      unfold dig; cbn [co_W Nat.sub firstn co_mults rev app digs map wsum nthb nth List.length] in *; lia.
  - intros [E|(Dg & A)]; [left; exact E|right].
    assert (L : List.length c = 9%nat \/ List.length c = 10%nat) by (destruct A as [(L & _)|(L & _)]; auto).
    split; [exact L|].
    pose proof (digits_n_of_between _ _ eq_refl Dg) as D. split; [apply (digits_n_all_digits _ _ D)|].
    destruct A as [(L' & A)|(L' & A)]; rewrite L' in *;
      pose proof (digits_n_bounds _ _ D) as Hd; explode c L'; [pose_upto Hd 9%nat | pose_upto Hd 10%nat]; clear Hd D Dg L;
      unfold dig in A; cbn [co_W Nat.sub firstn co_mults rev app digs map wsum nthb nth List.length] in *; lia.
Qed.

(* ======================= BR ======================= *)
Theorem valid_BR_iff_spec c : valid_BR c = true <-> c = [] \/ Spec_BR c.
Proof.
  rewrite valid_BR_arith. unfold Spec_BR, br_dv_rule, br_folded, br_T1, br_T2. split.
  - intros [E|(D & A1 & A2)]; [left; exact E|right].
    pose proof (digits_n_length _ _ D) as L. split; [exact L|].
    split; [apply digits_between_of_digits_n; exact D|].
    pose proof (digits_n_bounds _ _ D) as Hd. explode c L. pose_upto Hd 14%nat. clear Hd D.
    unfold dig. cbn [br_W1 br_W2 digs map wsum nthb nth] in *. split; lia.
  - intros [E|(L & Dg & A1 & A2)]; [left; exact E|right].
    pose proof (digits_n_of_between _ _ L Dg) as D. split; [exact D|].
    pose proof (digits_n_bounds _ _ D) as Hd. explode c L. pose_upto Hd 14%nat. clear Hd D Dg.
    unfold dig in *. cbn [br_W1 br_W2 digs map wsum nthb nth] in *. split; lia.
Qed.

(* ======================= ES ======================= *)
Lemma one_of_In s b : one_of s b = true <-> In b s.
Proof.
  unfold one_of. rewrite existsb_exists. split.
  - intros (y & Hy & E). apply byte_eqb_eq in E. subst y. exact Hy.
  - intro H. exists b. split; [exact H | apply byte_eqb_refl].
Qed.
Lemma letter_at_In table r k : letter_at table r k -> In k (bs table).
Proof. unfold letter_at. apply nth_error_In. Qed.
Lemma nth_letter_at table r k :
  0 <= r < Z.of_nat (List.length (bs table)) -> (nthb (Z.to_nat r) (bs table) = k <-> letter_at table r k).
Proof.
  intro R. unfold letter_at, nthb. rewrite (nth_error_nth' (bs table) x00) by lia.
  split; [intros ->; reflexivity | intro H; injection H; auto].
Qed.
Lemma es_letter_ok_iff n k : es_letter_ok n k = true <-> letter_at es_dni_letters (n mod 23) k.
Proof.
  unfold es_letter_ok. rewrite byte_eqb_eq. change es_check_letters with (bs es_dni_letters).
  apply nth_letter_at. assert (E : List.length (bs es_dni_letters) = 23%nat) by reflexivity. rewrite E. lia.
Qed.

Lemma es_control_iff k D :
  0 <= D <= 9 -> es_is_org_check k = true ->
  ((D =? es_cdi k) = true <-> (is_digit k = true /\ dv k = D) \/ letter_at es_control_letters D k).
Proof.
  intros R H.
  assert (C : D = 0 \/ D = 1 \/ D = 2 \/ D = 3 \/ D = 4 \/ D = 5 \/ D = 6 \/ D = 7 \/ D = 8 \/ D = 9) by lia.
  clear R.
  destruct k; vm_compute in H; try discriminate H; clear H;
    repeat (destruct C as [C|C]; [subst D; vm_compute;
      (split; [intro H; try discriminate H; first [left; split; reflexivity | right; reflexivity]
              | intros [[_ H]|H]; first [reflexivity | discriminate H]]) |]);
    (subst D; vm_compute;
      (split; [intro H; try discriminate H; first [left; split; reflexivity | right; reflexivity]
              | intros [[_ H]|H]; first [reflexivity | discriminate H]])).
Qed.

Lemma es_control_value_range c : 0 <= es_control_value c <= 9.
Proof. unfold es_control_value. match goal with |- context [(10 - ?x mod 10) mod 10] => generalize x end. intro. lia. Qed.

Lemma es_verify_org_explicit t a1 a2 a3 a4 a5 a6 a7 k :
  es_verify_org (sub 1 8 [t; a1; a2; a3; a4; a5; a6; a7; k]) (nthb 8 [t; a1; a2; a3; a4; a5; a6; a7; k])
  = (es_control_value [t; a1; a2; a3; a4; a5; a6; a7; k] =? es_cdi k).
Proof.
  unfold es_verify_org, es_control_value, dig. fold (es_cdi (nthb 8 [t; a1; a2; a3; a4; a5; a6; a7; k])).
  cbn [sub skipn firstn Nat.sub digs map es_org_sum negb nthb nth]. cbv zeta. rewrite !luhn2_double.
  apply (f_equal (fun s => (10 - s mod 10) mod 10 =? es_cdi k)). ring.
Qed.

Lemma control_is_org_check D k :
  (is_digit k = true /\ dv k = D) \/ letter_at es_control_letters D k -> es_is_org_check k = true.
Proof.
  unfold es_is_org_check. intros [[H _]|H]; [rewrite H; reflexivity|].
  apply letter_at_In, one_of_In in H. change (bs es_control_letters) with es_org_check_letters in H.
  rewrite H. apply orb_true_r.
Qed.

Lemma zero_number_eqb a1 a2 a3 a4 a5 a6 a7 a8 :
  is_digit a1 = true -> is_digit a2 = true -> is_digit a3 = true -> is_digit a4 = true ->
  is_digit a5 = true -> is_digit a6 = true -> is_digit a7 = true -> is_digit a8 = true ->
  (eqb_bytes [a1; a2; a3; a4; a5; a6; a7; a8] (bs "00000000") = true <-> num_of [a1; a2; a3; a4; a5; a6; a7; a8] = 0).
Proof.
  intros. split.
  - intro E. apply eqb_bytes_eq in E. rewrite E. reflexivity.
  - intro E. pose_dv_bounds. horner_in E.
    assert (Z0 : forall a, dv a = 0 -> a = "0"%byte) by (intros a Ha; apply dv_inj; rewrite Ha; reflexivity).
    rewrite (Z0 a1), (Z0 a2), (Z0 a3), (Z0 a4), (Z0 a5), (Z0 a6), (Z0 a7), (Z0 a8) by lia. reflexivity.
Qed.

Lemma klm_excl t : one_of (bs "KLM") t = true ->
  one_of es_org_types t = false /\ is_digit t = false /\ one_of (bs "XYZ") t = false.
Proof. bytecases t. Qed.
Lemma xyz_excl t : one_of (bs "XYZ") t = true -> one_of es_org_types t = false /\ is_digit t = false.
Proof. bytecases t. Qed.
Lemma org_excl t : one_of es_org_types t = true ->
  is_digit t = false /\ one_of (bs "XYZ") t = false /\ one_of (bs "KLM") t = false.
Proof. bytecases t. Qed.
Lemma digit_excl t : is_digit t = true -> one_of (bs "XYZ") t = false /\ one_of (bs "KLM") t = false.
Proof. bytecases t. Qed.
Lemma xyz_klm t : one_of (bs "XYZ") t = true -> one_of (bs "KLM") t = false.
Proof. bytecases t. Qed.
Lemma first_letter_split t :
  In t (bs "ABCDEFGHJNPQRSUVWKLM") <-> one_of es_org_types t = true \/ one_of (bs "KLM") t = true.
Proof.
  rewrite !one_of_In. change (bs "ABCDEFGHJNPQRSUVWKLM") with (es_org_types ++ bs "KLM"). apply in_app_iff.
Qed.
Lemma es_nie_prefix_iff t v :
  es_nie_prefix t v <-> one_of (bs "XYZ") t = true /\ v = dv (digit_byte (es_ti t)).
Proof.
  unfold es_nie_prefix. split.
  - intros [[-> ->]|[[-> ->]|[-> ->]]]; split; reflexivity.
  - intros [H ->]. apply one_of_In in H. cbn in H.
    destruct H as [<-|[<-|[<-|[]]]]; [left | right; left | right; right]; split; reflexivity.
Qed.

Section ES_explicit.
  Variables t a1 a2 a3 a4 a5 a6 a7 k : byte.
  Let c : bytes := [t; a1; a2; a3; a4; a5; a6; a7; k].
  Let mid : bool := is_digit a1 && (is_digit a2 && (is_digit a3 && (is_digit a4 && (is_digit a5 && (is_digit a6 && is_digit a7))))).

  Lemma es_fmt_org_explicit : es_fmt_org c = one_of es_org_types t && (mid && es_is_org_check k).
  Proof. unfold es_fmt_org, c, mid. cbn [rep repeat app match_classes]. rewrite andb_true_r, <- !andb_assoc. reflexivity. Qed.
  Lemma es_fmt_other_explicit : es_fmt_other c = one_of (bs "KLM") t && (mid && es_is_org_check k).
  Proof. unfold es_fmt_other, c, mid. cbn [rep repeat app match_classes]. rewrite andb_true_r, <- !andb_assoc. reflexivity. Qed.
  Lemma es_fmt_foreign_explicit : es_fmt_foreign c = one_of (bs "XYZ") t && (mid && es_is_check_letter k).
  Proof. unfold es_fmt_foreign, c, mid. cbn [rep repeat app match_classes]. rewrite andb_true_r, <- !andb_assoc. reflexivity. Qed.
  Lemma es_fmt_national_explicit : es_fmt_national c = is_digit t && (mid && es_is_check_letter k).
  Proof. unfold es_fmt_national, c, mid. cbn [rep repeat app match_classes]. rewrite andb_true_r, <- !andb_assoc. reflexivity. Qed.

  Lemma mid_between : mid = true <-> digits_between c 1 8.
  Proof.
    unfold mid, c. split.
    - intro M. split_all M. solve_between 8%nat.
    - intro Dg. pose_between Dg 1%nat 7%nat. solve_digits.
  Qed.

  (* CIF and K L M: the control character *)
  Lemma es_org_explicit :
    mid = true ->
    (es_is_org_check k = true /\ es_verify_org (sub 1 8 c) (nthb 8 c) = true <->
     (digit_at c 8 /\ dig c 8 = es_control_value c) \/ letter_at es_control_letters (es_control_value c) (nthb 8 c)).
  Proof.
    intro M. unfold c. rewrite es_verify_org_explicit. unfold digit_at, dig. cbn [nthb nth]. fold c. split.
    - intros (K & V). apply es_control_iff in V; [exact V | apply es_control_value_range | exact K].
    - intro R. pose proof (control_is_org_check _ _ R) as K. split; [exact K|].
      apply es_control_iff; [apply es_control_value_range | exact K | exact R].
  Qed.

  Lemma es_national_explicit :
    is_digit t = true -> mid = true ->
    (es_is_check_letter k = true /\ es_verify_national c = true <->
     number c 0 8 <> 0 /\ letter_at es_dni_letters ((number c 0 8) mod 23) (nthb 8 c)).
  Proof.
    intros T M. unfold mid in M. split_all M. unfold es_verify_national, number. cbv zeta.
    change (sub 0 8 c) with [t; a1; a2; a3; a4; a5; a6; a7]. change (nthb 8 c) with k.
    pose proof (zero_number_eqb t a1 a2 a3 a4 a5 a6 a7 ltac:(assumption) ltac:(assumption) ltac:(assumption) ltac:(assumption)
                  ltac:(assumption) ltac:(assumption) ltac:(assumption) ltac:(assumption)) as Z0.
    generalize dependent (num_of [t; a1; a2; a3; a4; a5; a6; a7]). intros n Z0.
    destruct (eqb_bytes _ _) eqn:E.
    - split; [intros (_ & F); discriminate F | intros (NZ & _); exfalso; apply NZ, Z0; reflexivity].
    - rewrite es_letter_ok_iff. split.
      + intros (_ & V). split; [intro N0; apply Z0 in N0; discriminate N0 | exact V].
      + intros (_ & V). split; [|exact V]. apply letter_at_In, one_of_In in V. exact V.
  Qed.

  Lemma es_foreign_explicit :
    one_of (bs "XYZ") t = true -> mid = true ->
    (es_is_check_letter k = true /\ es_verify_foreign c = true <->
     exists v, es_nie_prefix (nthb 0 c) v /\ letter_at es_dni_letters ((v * 10 ^ 7 + number c 1 8) mod 23) (nthb 8 c)).
  Proof.
    intros T M. rewrite es_verify_foreign_unfold. unfold number.
    change (sub 1 8 c) with [a1; a2; a3; a4; a5; a6; a7]. change (nthb 8 c) with k. change (nthb 0 c) with t.
    rewrite es_letter_ok_iff.
    assert (E : num_of (digit_byte (es_ti t) :: [a1; a2; a3; a4; a5; a6; a7])
                = dv (digit_byte (es_ti t)) * 10 ^ 7 + num_of [a1; a2; a3; a4; a5; a6; a7]).
    { generalize (digit_byte (es_ti t)). intro d. horner. change (10 ^ 7) with 10000000. lia. }
    rewrite E. split.
    - intros (_ & V). exists (dv (digit_byte (es_ti t))). split; [apply es_nie_prefix_iff; split; [exact T | reflexivity] | exact V].
    - intros (v & P & V). apply es_nie_prefix_iff in P. destruct P as (_ & ->).
      split; [|exact V]. apply letter_at_In, one_of_In in V. exact V.
  Qed.

  Theorem valid_ES_explicit : valid_ES c = true <-> Spec_ES_either_form c.
  Proof.
    unfold Spec_ES_either_form, Spec_ES_with, Spec_ES_dni, Spec_ES_nie, Spec_ES_cif_with, es_any_form, first_is_one_of.
    change (nthb 0 c) with t. rewrite first_letter_split, <- !mid_between.
    assert (Valid : valid_ES c =
                    if es_fmt_org c then es_verify_org (sub 1 8 c) (nthb 8 c)
                    else if es_fmt_national c then es_verify_national c
                    else if es_fmt_foreign c then es_verify_foreign c
                    else if es_fmt_other c then es_verify_org (sub 1 8 c) (nthb 8 c) else false) by reflexivity.
    rewrite Valid. clear Valid.
    rewrite es_fmt_org_explicit, es_fmt_national_explicit, es_fmt_foreign_explicit, es_fmt_other_explicit.
    assert (Dg07 : digits_between c 0 8 <-> is_digit t = true /\ mid = true).
    { rewrite mid_between. split.
      - intro Dg. split; [apply (Dg 0%nat); lia | intros i Hi; apply Dg; lia].
      - intros (T & Dg) i Hi. destruct i as [|i]; [exact T | apply Dg; lia]. }
    rewrite Dg07.
    destruct mid eqn:M.
    2:{ rewrite !andb_false_r. cbn [andb]. split; [discriminate|].
        intros [(_ & (_ & F) & _)|[(_ & F & _)|(_ & _ & F & _)]]; discriminate F. }
    pose proof (es_org_explicit M) as ORG. cbn [andb].
    assert (NIE : forall v, es_nie_prefix t v -> one_of (bs "XYZ") t = true)
      by (intros v P; apply es_nie_prefix_iff in P; tauto).
    assert (CTL : (digit_at c 8 /\ dig c 8 = es_control_value c /\ True \/
                   letter_at es_control_letters (es_control_value c) (nthb 8 c) /\ True) <->
                  es_is_org_check k = true /\ es_verify_org (sub 1 8 c) (nthb 8 c) = true)
      by (rewrite ORG; tauto).
    rewrite CTL. clear CTL ORG.
    destruct (one_of es_org_types t) eqn:T1.
    { (* CIF *)
      destruct (org_excl t T1) as (E2 & E3 & E4). rewrite E2, E3, E4. cbn [andb].
      destruct (es_is_org_check k) eqn:K.
      - split.
        + intro V. right; right. repeat split; auto.
        + intros [(_ & (F & _) & _)|[(_ & _ & v & P & _)|(_ & _ & _ & _ & R)]];
            [discriminate F | apply NIE in P; congruence | exact R].
      - split; [discriminate|].
        intros [(_ & (F & _) & _)|[(_ & _ & v & P & _)|(_ & _ & _ & F & _)]];
          [discriminate F | apply NIE in P; congruence | discriminate F]. }
    destruct (is_digit t) eqn:T2.
    { (* DNI *)
      pose proof (es_national_explicit T2 M) as NAT.
      destruct (digit_excl t T2) as (E3 & E4). rewrite E3, E4. cbn [andb].
      destruct (es_is_check_letter k) eqn:K.
      - split.
        + intro V. left. split; [reflexivity|]. split; [split; reflexivity|]. apply NAT. split; [reflexivity | exact V].
        + intros [(_ & _ & R)|[(_ & _ & v & P & _)|(_ & [F|F] & _)]];
            [apply NAT in R; tauto | apply NIE in P; congruence | discriminate F | discriminate F].
      - split; [discriminate|].
        intros [(_ & _ & R)|[(_ & _ & v & P & _)|(_ & [F|F] & _)]];
          [apply NAT in R; destruct R as (R & _); discriminate R | apply NIE in P; congruence | discriminate F | discriminate F]. }
    cbn [andb].
    destruct (one_of (bs "XYZ") t) eqn:T3.
    { (* NIE *)
      pose proof (es_foreign_explicit T3 M) as FOR.
      rewrite (xyz_klm t T3). cbn [andb].
      destruct (es_is_check_letter k) eqn:K.
      - split.
        + intro V. right; left. split; [reflexivity|]. split; [reflexivity|]. apply FOR. split; [reflexivity | exact V].
        + intros [(_ & (F & _) & _)|[(_ & _ & R)|(_ & [F|F] & _)]];
            [discriminate F | apply FOR in R; tauto | discriminate F | discriminate F].
      - split; [discriminate|].
        intros [(_ & (F & _) & _)|[(_ & _ & R)|(_ & [F|F] & _)]];
          [discriminate F | apply FOR in R; destruct R as (R & _); discriminate R | discriminate F | discriminate F]. }
    cbn [andb].
    (* K L M *)
    destruct (one_of (bs "KLM") t) eqn:T4; cbn [andb].
    - destruct (es_is_org_check k) eqn:K.
      + split.
        * intro V. right; right. repeat split; auto.
        * intros [(_ & (F & _) & _)|[(_ & _ & v & P & _)|(_ & _ & _ & _ & R)]];
            [discriminate F | apply NIE in P; congruence | exact R].
      + split; [discriminate|].
        intros [(_ & (F & _) & _)|[(_ & _ & v & P & _)|(_ & _ & _ & F & _)]];
          [discriminate F | apply NIE in P; congruence | discriminate F].
    - split; [discriminate|].
      intros [(_ & (F & _) & _)|[(_ & _ & v & P & _)|(_ & [F|F] & _)]];
        [discriminate F | apply NIE in P; congruence | discriminate F | discriminate F].
  Qed.
End ES_explicit.

Lemma es_length c : valid_ES c = true -> c <> [] -> List.length c = 9%nat.
Proof.
  unfold valid_ES, nonempty. destruct c as [|x c]; [congruence|]. intros V _.
  destruct (es_fmt_org (x :: c)) eqn:F1; [apply match_classes_length in F1; exact F1|].
  destruct (es_fmt_national (x :: c)) eqn:F2; [apply match_classes_length in F2; exact F2|].
  destruct (es_fmt_foreign (x :: c)) eqn:F3; [apply match_classes_length in F3; exact F3|].
  destruct (es_fmt_other (x :: c)) eqn:F4; [apply match_classes_length in F4; exact F4|discriminate].
Qed.
Lemma spec_es_length allowed c : Spec_ES_with allowed c -> List.length c = 9%nat.
Proof. intros [(L & _)|[(L & _)|(L & _)]]; exact L. Qed.

(* the validator accepts exactly the published shapes and check characters, with either form of
   the CIF control character whatever the first letter *)
Theorem valid_ES_iff_either_form c : valid_ES c = true <-> c = [] \/ Spec_ES_either_form c.
Proof.
  destruct c as [|x c]; [split; auto|]. split.
  - intro V. right. pose proof (es_length _ V ltac:(discriminate)) as L.
    cbn [List.length] in L. injection L as L. explode c L. apply valid_ES_explicit. exact V.
  - intros [?|S]; [discriminate|]. pose proof (spec_es_length _ _ S) as L.
    cbn [List.length] in L. injection L as L. explode c L. apply valid_ES_explicit. exact S.
Qed.

Lemma Spec_ES_with_mono (p q : byte -> control_form -> Prop) c :
  (forall t f, p t f -> q t f) -> Spec_ES_with p c -> Spec_ES_with q c.
Proof.
  intros Hpq [S|[S|(L & T & Dg & R)]]; [left; exact S | right; left; exact S | right; right].
  split; [exact L|]. split; [exact T|]. split; [exact Dg|].
  destruct R as [(A & B & C)|(A & C)]; [left | right]; repeat split; auto.
Qed.

(* every code of the published rule is accepted ... *)
Theorem spec_ES_accepted c : c = [] \/ Spec_ES c -> valid_ES c = true.
Proof.
  intro H. apply valid_ES_iff_either_form. destruct H as [H|H]; [left; exact H | right].
  apply (Spec_ES_with_mono es_published_form es_any_form); [intros; exact I | exact H].
Qed.

(* ... but the validator also accepts the control character in the form the first letter excludes:
   Q2826000H (a public body: letter) is accepted as Q28260008, A58818501 (a company: digit) as A5881850A *)
Ltac concrete_between :=
  let i := fresh "i" in let Hi := fresh "Hi" in
  intros i Hi; unfold digit_at; do 16 (destruct i as [|i]; [first [lia | vm_compute; reflexivity]|]); lia.
Ltac not_spec_es :=
  unfold Spec_ES, Spec_ES_with, Spec_ES_dni, Spec_ES_nie, Spec_ES_cif_with, es_nie_prefix;
  intros [E|[(_ & Dg & _)|[(_ & _ & v & [(E & _)|[(E & _)|(E & _)]] & _)|(_ & _ & _ & [(D & _ & F)|(LA & F)])]]];
  [ discriminate E
  | specialize (Dg 0%nat ltac:(lia)); vm_compute in Dg; discriminate Dg
  | discriminate E | discriminate E | discriminate E
  | first [ vm_compute in D; discriminate D | unfold es_published_form in F; apply F; cbn; repeat first [left; reflexivity | right] ]
  | first [ vm_compute in LA; discriminate LA | unfold es_published_form in F; apply F; cbn; repeat first [left; reflexivity | right] ] ].

Theorem valid_ES_iff_spec_refuted :
  (exists c, valid_ES c = true /\ ~ (c = [] \/ Spec_ES c)) /\
  valid_ES (bs "Q28260008") = true /\ ~ Spec_ES (bs "Q28260008") /\ Spec_ES (bs "Q2826000H") /\
  valid_ES (bs "A5881850A") = true /\ ~ Spec_ES (bs "A5881850A") /\ Spec_ES (bs "A58818501").
Proof.
  assert (N1 : ~ (bs "Q28260008" = [] \/ Spec_ES (bs "Q28260008"))) by not_spec_es.
  assert (N2 : ~ (bs "A5881850A" = [] \/ Spec_ES (bs "A5881850A"))) by not_spec_es.
  assert (P : forall c, (c = [] \/ Spec_ES_either_form c) -> c <> [] -> Spec_ES_either_form c) by (intros c [E|S] NE; [contradiction | exact S]).
  split; [exists (bs "Q28260008"); split; [vm_compute; reflexivity | exact N1]|].
  split; [vm_compute; reflexivity|]. split; [tauto|].
  split.
  { right; right. split; [reflexivity|]. split; [cbn; tauto|]. split; [concrete_between|].
    right. split; [vm_compute; reflexivity|]. cbn. intros [E|[E|[E|[E|[]]]]]; discriminate E. }
  split; [vm_compute; reflexivity|]. split; [tauto|].
  right; right. split; [reflexivity|]. split; [cbn; tauto|]. split; [concrete_between|].
  left. split; [vm_compute; reflexivity|]. split; [vm_compute; reflexivity|].
  cbn. intros [E|[E|[E|[E|[E|[E|[E|[E|[E|[]]]]]]]]]]; discriminate E.
Qed.

(* ======================= IN ======================= *)
Lemma char36_value b : is_digit b = true \/ is_upper b = true -> char36 b (in_value b).
Proof.
  unfold char36, in_value. intros [H|H].
  - left. rewrite H. split; [reflexivity | reflexivity].
  - right. split; [exact H|]. destruct (is_digit b) eqn:D; [revert H D; unfold is_digit, is_upper; lia | lia].
Qed.
Lemma char36_fun b v : char36 b v -> v = in_value b /\ (is_digit b = true \/ is_upper b = true).
Proof.
  unfold char36, in_value. intros [(H & ->)|(H & ->)].
  - rewrite H. split; [reflexivity | left; reflexivity].
  - split; [|right; exact H]. destruct (is_digit b) eqn:D; [revert H D; unfold is_digit, is_upper; lia | lia].
Qed.
Lemma in_value_range b : is_digit b = true \/ is_upper b = true -> 0 <= in_value b < 36.
Proof. unfold in_value, is_digit, is_upper, dv. intros [H|H]; destruct ((48 <=? bZ b) && (bZ b <=? 57)) eqn:D; lia. Qed.
Lemma in_char_value b : is_digit b = true \/ is_upper b = true -> in_char (in_value b) = b.
Proof. intros [H|H]; revert H; bytecases b. Qed.

Lemma in_total c : List.length c = 15%nat -> valid_IN c = true -> in_T c mod 36 = 0.
Proof.
  intros L V. pose proof (in_lin c L V) as H. unfold K_IN in H.
  replace (fsum F_IN (digs c) + (in_T c - fsum F_IN (digs c))) with (in_T c) in H by ring. exact H.
Qed.

Section IN_explicit.
  Variables c0 c1 c2 c3 c4 c5 c6 c7 c8 c9 c10 c11 c12 c13 c14 : byte.
  Let c : bytes := [c0; c1; c2; c3; c4; c5; c6; c7; c8; c9; c10; c11; c12; c13; c14].
  Let v (i : nat) : Z := in_value (nthb i c).
  Let total : Z :=
    base36_fold (v 0%nat) + base36_fold (2 * v 1%nat) + base36_fold (v 2%nat) + base36_fold (2 * v 3%nat) +
    base36_fold (v 4%nat) + base36_fold (2 * v 5%nat) + base36_fold (v 6%nat) + base36_fold (2 * v 7%nat) +
    base36_fold (v 8%nat) + base36_fold (2 * v 9%nat) + base36_fold (v 10%nat) + base36_fold (2 * v 11%nat) +
    base36_fold (v 12%nat) + base36_fold (2 * v 13%nat) + v 14%nat.

  Lemma in_T_explicit : in_T c = total.
  Proof.
    unfold in_T, total, v, base36_fold, c. cbn [firstn in_sum negb nthb nth]. cbv zeta.
    rewrite !Z.mul_1_r. rewrite !(Z.mul_comm _ 2). ring.
  Qed.

  Lemma in_format_explicit :
    in_format c = true <-> in_shape c.
  Proof.
    unfold in_format, in_shape, c. cbn [rep repeat app match_classes]. split.
    - intro F. split_all F. split; [reflexivity|].
      split; [solve_between 2%nat|]. split; [solve_between 7%nat|]. split; [solve_between 11%nat|].
      split; [unfold upper_at; cbn [nthb nth]; assumption|].
      unfold digit_at, upper_at, dig. cbn [nthb nth].
      split.
      { match goal with H : in_range 49 57 c12 || is_upper c12 = true |- _ =>
          apply orb_prop in H; destruct H as [H|H];
          [left; revert H; unfold in_range, is_digit, dv; lia | right; exact H] end. }
      split; [apply bZ_inj; match goal with H : beq c13 90 = true |- _ => apply byte_of_beq in H; rewrite H end; reflexivity|].
      match goal with H : is_alnum c14 = true |- _ => unfold is_alnum in H; apply orb_prop in H; exact H end.
    - intros (_ & D01 & U26 & D710 & U11 & H12 & H13 & H14).
      pose_between D01 0%nat 2%nat. pose_between D710 7%nat 4%nat.
      pose proof (U26 2%nat ltac:(lia)) as U2; pose proof (U26 3%nat ltac:(lia)) as U3; pose proof (U26 4%nat ltac:(lia)) as U4;
      pose proof (U26 5%nat ltac:(lia)) as U5; pose proof (U26 6%nat ltac:(lia)) as U6.
      unfold upper_at, digit_at, dig in *. cbn [nthb nth] in *.
      assert (E12 : in_range 49 57 c12 || is_upper c12 = true).
      { destruct H12 as [(H & N)|H]; [|rewrite H; apply orb_true_r].
        apply orb_true_intro. left. revert H N. unfold in_range, is_digit, dv. lia. }
      assert (E14 : is_alnum c14 = true) by (unfold is_alnum; apply orb_true_intro; exact H14).
      subst c13. change (beq "Z" 90) with true.
      rewrite E12, E14, U2, U3, U4, U5, U6, U11. cbn [andb]. solve_digits.
  Qed.

  Lemma in_classes : in_shape c -> forall i, (i < 15)%nat -> is_digit (nthb i c) = true \/ is_upper (nthb i c) = true.
  Proof.
    intros (_ & D01 & U26 & D710 & U11 & H12 & H13 & H14) i Hi.
    assert (Cases : (i < 2 \/ 2 <= i < 7 \/ 7 <= i < 11 \/ i = 11 \/ i = 12 \/ i = 13 \/ i = 14)%nat) by lia.
    destruct Cases as [C|[C|[C|[->|[->|[->| ->]]]]]].
    - left. apply D01. lia.
    - right. apply U26. exact C.
    - left. apply D710. exact C.
    - right. exact U11.
    - destruct H12 as [(H & _)|H]; [left | right]; exact H.
    - right. rewrite H13. reflexivity.
    - exact H14.
  Qed.

  Theorem valid_IN_explicit : valid_IN c = true <-> Spec_IN c.
  Proof.
    unfold Spec_IN. rewrite <- in_format_explicit. split.
    - intro V. pose proof (in_total c eq_refl V) as T. rewrite in_T_explicit in T.
      assert (F : in_format c = true) by (unfold valid_IN, nonempty, c in V; apply andb_prop in V; tauto).
      split; [exact F|]. exists v. split; [|exact T].
      intros i Hi. apply char36_value. apply in_classes; [apply in_format_explicit; exact F | exact Hi].
    - intros (F & w & W & T).
      assert (E : forall i, (i < 15)%nat -> w i = v i) by (intros i Hi; apply (char36_fun _ _ (W i Hi))).
      rewrite !E in T by lia. fold total in T. rewrite <- in_T_explicit in T.
      pose proof (in_classes (proj1 in_format_explicit F) 14%nat ltac:(lia)) as K. change (nthb 14 c) with c14 in K.
      unfold valid_IN, nonempty. change (match c with [] => true | _ => in_format c && in_check c end) with (in_format c && in_check c).
      rewrite F. cbn [andb]. unfold in_check. change (List.length c) with 15%nat. cbn [Nat.eqb andb].
      apply byte_eqb_eq. unfold in_T in T. change (nthb 14 c) with c14 in *.
      pose proof (in_value_range _ K) as R.
      replace ((36 - in_sum false (firstn 14 c) mod 36) mod 36) with (in_value c14)
        by (generalize dependent (in_sum false (firstn 14 c)); intros; lia).
      apply in_char_value. exact K.
  Qed.
End IN_explicit.

Lemma in_length c : valid_IN c = true -> c <> [] -> List.length c = 15%nat.
Proof.
  unfold valid_IN, nonempty. destruct c; [congruence|]. intros V _. apply andb_prop in V as [V _].
  apply match_classes_length in V. exact V.
Qed.

Theorem valid_IN_iff_spec c : valid_IN c = true <-> c = [] \/ Spec_IN c.
Proof.
  destruct c as [|x c]; [split; auto|]. split.
  - intro V. right. pose proof (in_length _ V ltac:(discriminate)) as L.
    cbn [List.length] in L. injection L as L. explode c L. apply valid_IN_explicit. exact V.
  - intros [?|S]; [discriminate|]. pose proof (proj1 (proj1 S)) as L.
    cbn [List.length] in L. injection L as L. explode c L. apply valid_IN_explicit. exact S.
Qed.

(* ======================= AE ======================= *)
Theorem valid_AE_iff_spec c : valid_AE c = true <-> c = [] \/ Spec_AE c.
Proof.
  destruct c as [|x c]; [split; auto|]. unfold valid_AE, nonempty, Spec_AE. split.
  - intro V. right. split; [apply (digits_n_length _ _ V) | apply digits_between_of_digits_n; exact V].
  - intros [?|(L & Dg)]; [discriminate|]. apply digits_n_of_between; assumption.
Qed.

(* ======================= GB, all forms ======================= *)
Theorem gb_commercial_iff_spec_12 c :
  List.length c = 12%nat ->
  (digits_n 12 c = true /\ gb_commercial c = true <-> Spec_GB_commercial c).
Proof.
  intro L. unfold Spec_GB_commercial, Spec_GB_commercial_with. rewrite L. split.
  - intros (D & V). split; [right; reflexivity|]. split; [apply digits_between_of_digits_n; exact D|].
    rewrite gb_commercial_unfold in V. pose proof (digits_n_bounds _ _ D) as Hd. explode c L. pose_upto Hd 12%nat. clear Hd D.
    destruct (num_of _ =? 0) eqn:Z0; [discriminate|]. split; [lia|]. cbv zeta in V.
    rewrite gb_sub97_closed in V by (cbn [digs map wsum gb_mults nthb nth] in *; lia).
    unfold number, gb_old_range, gb_9755, gb_check_number, gb_weighted, dig.
    cbn [digs map wsum gb_mults nthb nth] in *.
    match goal with |- context [num_of (sub 0 7 ?l)] => generalize dependent (num_of (sub 0 7 l)) end. intros num V.
    match goal with |- context [num_of (sub 7 9 ?l)] => generalize dependent (num_of (sub 7 9 l)) end. intros last V.
    clear Z0. abstract_dv.
    destruct (_ && _ && _ && _) eqn:E in V; [left; lia|right].
    destruct (55 <=? _) eqn:E2 in V;
      match goal with |- context [if ?g then _ else _] => destruct g eqn:E3 end; lia.
  - intros (_ & Dg & NZ & A). pose proof (digits_n_of_between _ c L Dg) as D. split; [exact D|].
    rewrite gb_commercial_unfold. pose proof (digits_n_bounds _ _ D) as Hd. explode c L. pose_upto Hd 12%nat. clear Hd D Dg.
    destruct (num_of _ =? 0) eqn:Z0; [lia|]. cbv zeta.
    rewrite gb_sub97_closed by (cbn [digs map wsum gb_mults nthb nth] in *; lia).
    unfold number, gb_old_range, gb_9755, gb_check_number, gb_weighted, dig in A.
    cbn [digs map wsum gb_mults nthb nth] in *.
    match goal with |- context [num_of (sub 0 7 ?l)] => generalize dependent (num_of (sub 0 7 l)) end. intros num A.
    match goal with |- context [num_of (sub 7 9 ?l)] => generalize dependent (num_of (sub 7 9 l)) end. intros last A.
    clear Z0 NZ. abstract_dv.
    destruct (_ && _ && _ && _) eqn:E; [reflexivity|].
    destruct A as [A|A]; [lia|].
    match type of A with context [if ?g then _ else _] => destruct g eqn:E2 end;
      match goal with |- context [if ?g then _ else _] => destruct g eqn:E3 end; lia.
Qed.

Lemma digit_not_GH x : is_digit x = true -> Byte.eqb "G" x = false /\ Byte.eqb "H" x = false.
Proof. bytecases x. Qed.
Lemma digit_first_no_prefix x c : is_digit x = true ->
  has_prefix (bs "GD") (x :: c) = false /\ has_prefix (bs "HA") (x :: c) = false /\
  gb_fmt_gd (x :: c) = false /\ gb_fmt_ha (x :: c) = false.
Proof.
  intro D. destruct (digit_not_GH x D) as [N1 N2].
  assert (B1 : beq x 71 = false) by (revert D; unfold beq, is_digit; lia).
  assert (B2 : beq x 72 = false) by (revert D; unfold beq, is_digit; lia).
  change (bs "GD") with ["G"; "D"]%byte. change (bs "HA") with ["H"; "A"]%byte.
  unfold gb_fmt_gd, gb_fmt_ha. cbn [has_prefix match_classes]. rewrite N1, N2, B1, B2. repeat split; reflexivity.
Qed.

Lemma beq_eq b z : 0 <= z < 256 -> (beq b z = true <-> b = byte_of_Z z).
Proof.
  intro R. split.
  - intro H. apply bZ_inj. rewrite bZ_byte_of_Z by exact R. apply byte_of_beq. exact H.
  - intros ->. unfold beq. rewrite bZ_byte_of_Z by exact R. lia.
Qed.

(* the five-character forms *)
Lemma gb_special_iff a b d1 d2 d3 :
  let c := [a; b; d1; d2; d3] in
  valid_GB c = true <-> Spec_GB_special c.
Proof.
  cbv zeta. unfold valid_GB, nonempty, Spec_GB_special, digits_n, gb_fmt_gd, gb_fmt_ha, number.
  change (sub 2 5 [a; b; d1; d2; d3]) with [d1; d2; d3]. change (skipn 2 [a; b; d1; d2; d3]) with [d1; d2; d3].
  change (bs "GD") with ["G"; "D"]%byte. change (bs "HA") with ["H"; "A"]%byte.
  cbn [rep repeat match_classes has_prefix nthb nth List.length]. rewrite !andb_false_r, !andb_true_r. cbn [orb].
  assert (D3 : digits_between [a; b; d1; d2; d3] 2 5 <-> is_digit d1 && (is_digit d2 && is_digit d3) = true).
  { split.
    - intro Dg. pose_between Dg 2%nat 3%nat. solve_digits.
    - intro M. split_all M. solve_between 5%nat. }
  rewrite D3. generalize (num_of [d1; d2; d3]). intro n.
  assert (EG : Byte.eqb "G" a = beq a 71) by (destruct (Byte.eqb "G" a) eqn:E; [apply byte_eqb_eq in E; subst a; reflexivity | destruct (beq a 71) eqn:E2; [apply beq_eq in E2; [subst a; discriminate E | lia] | reflexivity]]).
  assert (ED : Byte.eqb "D" b = beq b 68) by (destruct (Byte.eqb "D" b) eqn:E; [apply byte_eqb_eq in E; subst b; reflexivity | destruct (beq b 68) eqn:E2; [apply beq_eq in E2; [subst b; discriminate E | lia] | reflexivity]]).
  assert (EH : Byte.eqb "H" a = beq a 72) by (destruct (Byte.eqb "H" a) eqn:E; [apply byte_eqb_eq in E; subst a; reflexivity | destruct (beq a 72) eqn:E2; [apply beq_eq in E2; [subst a; discriminate E | lia] | reflexivity]]).
  assert (EA : Byte.eqb "A" b = beq b 65) by (destruct (Byte.eqb "A" b) eqn:E; [apply byte_eqb_eq in E; subst b; reflexivity | destruct (beq b 65) eqn:E2; [apply beq_eq in E2; [subst b; discriminate E | lia] | reflexivity]]).
  rewrite EG, ED, EH, EA.
  assert (IG : a = "G"%byte <-> beq a 71 = true) by (rewrite beq_eq by lia; reflexivity).
  assert (ID : b = "D"%byte <-> beq b 68 = true) by (rewrite beq_eq by lia; reflexivity).
  assert (IH : a = "H"%byte <-> beq a 72 = true) by (rewrite beq_eq by lia; reflexivity).
  assert (IA : b = "A"%byte <-> beq b 65 = true) by (rewrite beq_eq by lia; reflexivity).
  rewrite IG, ID, IH, IA.
  assert (X : beq a 71 = true -> beq a 72 = false) by (unfold beq; lia).
  destruct (beq a 71) eqn:B1; destruct (beq b 68) eqn:B2; destruct (beq a 72) eqn:B3; destruct (beq b 65) eqn:B4;
    destruct (is_digit d1 && (is_digit d2 && is_digit d3)) eqn:M; cbn [andb orb negb];
    try (specialize (X eq_refl); discriminate X);
    (split; [ intro V; first [ discriminate V
                             | split; [reflexivity|]; split; [reflexivity|]; first [left; repeat split; lia | right; repeat split; lia] ]
            | intros (_ & F & [(F1 & F2 & F3)|(F1 & F2 & F3)]);
              first [discriminate F | discriminate F1 | discriminate F2 | lia ] ]).
Qed.

Theorem valid_GB_iff_spec c : valid_GB c = true <-> c = [] \/ Spec_GB c.
Proof.
  destruct c as [|x c]; [split; auto|]. unfold Spec_GB, Spec_GB_with. fold Spec_GB_commercial. split.
  - intro V. right.
    assert (F : digits_n 9 (x :: c) || digits_n 12 (x :: c) || gb_fmt_gd (x :: c) || gb_fmt_ha (x :: c) = true).
    { unfold valid_GB, nonempty in V. destruct (_ || _ || _ || _); [reflexivity | discriminate V]. }
    apply orb_prop in F. destruct F as [F|F]; [apply orb_prop in F; destruct F as [F|F]; [apply orb_prop in F; destruct F as [F|F]|]|].
    + left. pose proof (digits_n_length _ _ F) as L. rewrite (gb_valid_9 _ F) in V.
      apply (gb_commercial_iff_spec_9 _ L). split; assumption.
    + left. pose proof (digits_n_length _ _ F) as L.
      apply (gb_commercial_iff_spec_12 _ L). split; [exact F|].
      pose proof (digits_n_nth 12 _ 0%nat F ltac:(lia)) as D0. cbn [nthb nth] in D0.
      destruct (digit_first_no_prefix x c D0) as (P1 & P2 & P3 & P4).
      unfold valid_GB, nonempty in V. rewrite F, P1, P2, orb_true_r in V. exact V.
    + right. pose proof (match_classes_length _ _ F) as L. cbn [List.length rep repeat] in L.
      cbn [List.length] in L. injection L as L. explode c L. apply gb_special_iff. exact V.
    + right. pose proof (match_classes_length _ _ F) as L. cbn [List.length rep repeat] in L.
      cbn [List.length] in L. injection L as L. explode c L. apply gb_special_iff. exact V.
  - intros [?|[S|S]]; [discriminate| |].
    + pose proof S as (L & Dg & _).
      assert (D0 : is_digit x = true) by (apply (Dg 0%nat); destruct L as [L|L]; rewrite L; lia).
      destruct (digit_first_no_prefix x c D0) as (P1 & P2 & P3 & P4).
      destruct L as [L|L].
      * apply (gb_commercial_iff_spec_9 _ L) in S. destruct S as (D & S). rewrite (gb_valid_9 _ D). exact S.
      * apply (gb_commercial_iff_spec_12 _ L) in S. destruct S as (D & S).
        unfold valid_GB, nonempty. rewrite D, P1, P2, orb_true_r. exact S.
    + pose proof (proj1 S) as L. cbn [List.length] in L. injection L as L. explode c L. apply gb_special_iff. exact S.
Qed.

(* ======================= MX ======================= *)
Lemma mx_letters_sound n : forall s rest, mx_letters n s = Some rest -> exists p, s = p ++ rest /\ rfc_letters n p.
Proof.
  induction n as [|n IH]; intros s rest H; cbn [mx_letters] in H.
  - injection H as <-. exists []. split; [reflexivity | constructor].
  - destruct s as [|b r]; [discriminate|].
    destruct (is_upper b || beq b 38) eqn:A.
    + destruct (IH _ _ H) as (p & -> & R). exists (b :: p). split; [reflexivity|].
      apply rfc_ascii; [|exact R]. apply orb_prop in A. destruct A as [A|A]; [left; exact A | right].
      apply beq_eq in A; [exact A | lia].
    + destruct (beq b 195) eqn:B; [|discriminate]. destruct r as [|b2 r2]; [discriminate|].
      destruct (beq b2 145) eqn:B2; [|discriminate].
      destruct (IH _ _ H) as (p & -> & R). exists (b :: b2 :: p).
      apply beq_eq in B; [|lia]. apply beq_eq in B2; [|lia]. subst b b2. split; [reflexivity|].
      apply rfc_ntilde. exact R.
Qed.
Lemma mx_letters_complete n p rest : rfc_letters n p -> mx_letters n (p ++ rest) = Some rest.
Proof.
  induction 1 as [|n b r A R IH|n r R IH]; cbn [mx_letters app].
  - reflexivity.
  - assert (E : is_upper b || beq b 38 = true).
    { destruct A as [A| ->]; [rewrite A; reflexivity | reflexivity]. }
    rewrite E. exact IH.
  - change (is_upper (byte_of_Z 195) || beq (byte_of_Z 195) 38) with false.
    change (beq (byte_of_Z 195) 195) with true. change (beq (byte_of_Z 145) 145) with true. cbn iota. exact IH.
Qed.

Lemma mx_tail_iff r :
  match_classes (rep 6 is_digit ++ rep 3 is_alnum) r = true <->
  List.length r = 9%nat /\ digits_between r 0 6 /\ forall i, (6 <= i < 9)%nat -> is_alnum (nthb i r) = true.
Proof.
  split.
  - intro M. pose proof (match_classes_length _ _ M) as L. cbn [List.length rep repeat app] in L.
    split; [exact L|]. explode r L. cbn [rep repeat app match_classes] in M. split_all M.
    split; [solve_between 6%nat|]. intros i Hi. between_cases i 9%nat.
  - intros (L & Dg & Al). explode r L. pose_between Dg 0%nat 6%nat.
    pose proof (Al 6%nat ltac:(lia)) as Al6. pose proof (Al 7%nat ltac:(lia)) as Al7. pose proof (Al 8%nat ltac:(lia)) as Al8.
    cbn [nthb nth] in Al6, Al7, Al8. cbn [rep repeat app match_classes]. rewrite Al6, Al7, Al8. cbn [andb]. solve_digits.
Qed.

Lemma mx_shape_iff n c :
  mx_shape n c = true <->
  exists p r, c = p ++ r /\ rfc_letters n p /\ List.length r = 9%nat /\ digits_between r 0 6 /\
              forall i, (6 <= i < 9)%nat -> is_alnum (nthb i r) = true.
Proof.
  unfold mx_shape. split.
  - destruct (mx_letters n c) as [rest|] eqn:E; [|discriminate]. intro M.
    destruct (mx_letters_sound _ _ _ E) as (p & -> & R). exists p, rest. split; [reflexivity|]. split; [exact R|].
    apply mx_tail_iff. exact M.
  - intros (p & r & -> & R & T). rewrite (mx_letters_complete _ _ r R). apply mx_tail_iff. exact T.
Qed.

Theorem valid_MX_iff_spec c : valid_MX c = true <-> c = [] \/ Spec_MX c.
Proof.
  destruct c as [|x c]; [split; auto|]. unfold valid_MX, nonempty, Spec_MX. rewrite orb_true_iff, !mx_shape_iff. split.
  - intros [(p & r & E & R & T)|(p & r & E & R & T)]; right; exists p, r; tauto.
  - intros [?|(p & r & E & [R|R] & T)]; [discriminate | left | right]; exists p, r; tauto.
Qed.
