(* C13 - Luhn-type checks modulo 10: IT (Partita IVA), FR SIREN (used by the FR normaliser),
   AT (digit sums of the doubled digits, constant 4).  The doubling map is a permutation of the
   digits (CheckProofs.luhn_double_permutation), so every single-digit error is detected. *)
From Coq Require Import String List ZArith Strings.Byte Bool Lia ZifyBool.
From Verif Require Import Base.Wire TaxId.Common TaxId.Regimes TaxId.CommonProofs TaxId.CheckProofs TaxId.Spec.
Import ListNotations.
Open Scope Z_scope.
Ltac Zify.zify_post_hook ::= Z.div_mod_to_equations.
(* conversion: unfold the model's definitions before integer arithmetic (keeps Qed fast) *)
Local Strategy 100 [Z.add Z.mul Z.sub Z.opp Z.modulo Z.div Z.eqb Z.ltb Z.leb Z.pow dv bZ].

Definition L2 := luhn_double.

(* ======================= IT ======================= *)
Definition F_IT : list (Z -> Z) := [idf; L2; idf; L2; idf; L2; idf; L2; idf; L2; idf].

Lemma it_shape c : valid_IT c = true -> c <> [] -> List.length c = 11%nat /\ all_digits c = true.
Proof.
  unfold valid_IT, nonempty. destruct c; [congruence|]. intros H _. split_andb H.
  apply Nat.eqb_eq in B0. split; assumption.
Qed.

Lemma it_lin c : List.length c = 11%nat -> valid_IT c = true -> (fsum F_IT (digs c) + 0) mod 10 = 0.
Proof.
  intros H V. explode c H. unfold valid_IT, nonempty, luhn_check_digit in V. split_andb V.
  cbn [sub skipn firstn Nat.sub digs map rev app luhn_sum_rev negb nthb nth] in B.
  cbn [F_IT fsum digs map]. unfold idf, L2. clear V B0 H.
  lia.
Qed.

Theorem it_single_digit c i b :
  valid_IT c = true -> c <> [] -> (i < 11)%nat -> is_digit b = true -> b <> nthb i c ->
  valid_IT (set_nth i b c) = false.
Proof.
  intros V NE Hi Hb Hne. destruct (it_shape c V NE) as [L D].
  apply (detect_single valid_IT F_IT (fun _ => 0) 10 11); auto; try lia; try reflexivity.
  - exact it_lin.
  - do 11 (destruct i as [|i]; [solve_detect|]). lia.
  - apply all_digits_nth; [exact D | lia].
Qed.

(* ======================= FR SIREN ======================= *)
Definition F_SIREN : list (Z -> Z) := [idf; L2; idf; L2; idf; L2; idf; L2; idf].

Lemma siren_lin c : List.length c = 9%nat -> fr_valid_siren c = true -> (fsum F_SIREN (digs c) + 0) mod 10 = 0.
Proof.
  intros H V. explode c H. unfold fr_valid_siren, nonempty, luhn_check_digit in V. split_andb V.
  cbn [sub skipn firstn Nat.sub digs map rev app luhn_sum_rev negb nthb nth] in B.
  cbn [F_SIREN fsum digs map]. unfold idf, L2. clear V H.
  lia.
Qed.

Theorem siren_single_digit c i b :
  fr_valid_siren c = true -> c <> [] -> (i < 9)%nat -> is_digit b = true -> b <> nthb i c ->
  fr_valid_siren (set_nth i b c) = false.
Proof.
  intros V NE Hi Hb Hne.
  assert (D : digits_n 9 c = true).
  { unfold fr_valid_siren, nonempty in V. destruct c; [congruence|]. split_andb V. exact V. }
  apply (detect_single fr_valid_siren F_SIREN (fun _ => 0) 10 9); auto; try lia; try reflexivity.
  - exact siren_lin.
  - apply digits_n_length in D; exact D.
  - do 9 (destruct i as [|i]; [solve_detect|]). lia.
  - apply (digits_n_nth 9); assumption.
Qed.

(* ======================= AT ======================= *)
Definition F_AT : list (Z -> Z) :=
  [zerof; at_term 1; at_term 2; at_term 1; at_term 2; at_term 1; at_term 2; at_term 1; idf].

(* the AT digit-sum map of a doubled digit is the Luhn doubling map *)
Lemma at_term_2_luhn d : digit d -> at_term 2 d = luhn_double d.
Proof. unfold digit, at_term, luhn_double. intro H. destruct (9 <? d * 2) eqn:E; lia. Qed.

Lemma at_shape c : valid_AT c = true -> c <> [] ->
  List.length c = 9%nat /\ forall i, (1 <= i < 9)%nat -> is_digit (nthb i c) = true.
Proof.
  unfold valid_AT, nonempty. destruct c as [|b0 c]; [congruence|]. intros H _. split_andb H.
  split.
  - apply match_classes_length in H. rewrite H. reflexivity.
  - intros i Hi. pose proof (match_classes_nth _ _ i H) as P.
    do 9 (destruct i as [|i]; [try lia; apply P; cbn; lia|]). lia.
Qed.

Lemma at_lin c : List.length c = 9%nat -> valid_AT c = true -> (fsum F_AT (digs c) + 4) mod 10 = 0.
Proof.
  intros H V. explode c H. unfold valid_AT, nonempty, at_check in V. split_andb V.
  cbn [skipn digs map at_sum at_mults nthZ nth] in B. cbv zeta in B.
  cbn [F_AT fsum digs map]. unfold idf, zerof. clear V H.
  repeat match goal with |- context [at_term ?m (dv ?x)] =>
    let z := fresh "t" in let Ez := fresh "Ez" in remember (at_term m (dv x)) as z eqn:Ez; clear Ez end.
  destruct (_ =? 10) eqn:E in B; lia.
Qed.

Theorem at_single_digit c i b :
  valid_AT c = true -> c <> [] -> (1 <= i < 9)%nat -> is_digit b = true -> b <> nthb i c ->
  valid_AT (set_nth i b c) = false.
Proof.
  intros V NE Hi Hb Hne. destruct (at_shape c V NE) as [L D].
  apply (detect_single valid_AT F_AT (fun _ => 4) 10 9); auto; try lia; try reflexivity.
  - exact at_lin.
  - destruct i as [|i]; [lia|]. do 8 (destruct i as [|i]; [solve_detect|]). lia.
Qed.
