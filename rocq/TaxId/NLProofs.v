(* C13 - NL (btw-id): 9 digits, "B", 2 digits; accepted by the 11-test on the 9 digits or by the
   mod-97 test on NL + the 12 characters.  Equivalence with the declarative rule as implemented
   (which also accepts remainder 10 with check digit 0), the deviation from the published rule,
   and what single-digit errors each test detects. *)
From Coq Require Import String List ZArith Strings.Byte Bool Lia ZifyBool.
From Verif Require Import Base.Wire TaxId.Common TaxId.Regimes TaxId.CommonProofs TaxId.CheckProofs TaxId.Spec TaxId.COProofs TaxId.ESProofs TaxId.GBProofs.
Import ListNotations.
Open Scope Z_scope.
Ltac Zify.zify_post_hook ::= Z.div_mod_to_equations.
(* conversion: unfold the model's definitions before integer arithmetic (keeps Qed fast) *)
Local Strategy 100 [Z.add Z.mul Z.sub Z.opp Z.modulo Z.div Z.eqb Z.ltb Z.leb Z.pow dv bZ].

(* ---- the mod-97 number ---- *)
Definition nl_step (r : Z) (b : byte) : Z :=
  let c := nl_charval b in (if 9 <? c then r * 10 * 10 else r * 10) + c.
Lemma nl_concat_fold s : nl_concat s = fold_left nl_step s 0.
Proof. reflexivity. Qed.
Lemma nl_step_digit r b : is_digit b = true -> nl_step r b = r * 10 + dv b.
Proof.
  intro H. unfold nl_step, nl_charval. rewrite H. pose proof (dv_digit _ H) as R. unfold dv in *. cbv zeta.
  destruct (9 <? bZ b - 48) eqn:E; lia.
Qed.
Lemma nl_fold_digits s r : all_digits s = true ->
  fold_left nl_step s r = r * 10 ^ Z.of_nat (List.length s) + num_of s.
Proof.
  unfold num_of. revert r. induction s as [|b s IH]; intros r H.
  - cbn. lia.
  - cbn [all_digits forallb] in H. apply andb_prop in H as [H1 H2]. cbn [fold_left].
    rewrite nl_step_digit by exact H1. rewrite IH by exact H2.
    assert (G : forall a, fold_left (fun a b => a * 10 + dv b) s a = a * 10 ^ Z.of_nat (List.length s) + fold_left (fun a b => a * 10 + dv b) s 0).
    { clear. induction s as [|x s IHs]; intro a; [cbn; lia|]. cbn [fold_left List.length].
      rewrite IHs. rewrite (IHs (0 * 10 + dv x)). rewrite Nat2Z.inj_succ, Z.pow_succ_r by lia. lia. }
    rewrite (G (0 * 10 + dv b)). cbn [List.length]. rewrite Nat2Z.inj_succ, Z.pow_succ_r by lia. lia.
Qed.

Lemma nl_mod97_spec code check :
  all_digits code = true -> List.length code = 9%nat -> all_digits check = true -> List.length check = 2%nat ->
  nl_mod97 code check = ((((2321 * 10 ^ 9 + num_of code) * 100 + 11) * 100 + num_of check) mod 97 =? 1).
Proof.
  intros D1 L1 D2 L2. unfold nl_mod97. rewrite nl_concat_fold, !fold_left_app.
  change (fold_left nl_step (bs "NL") 0) with 2321.
  rewrite (nl_fold_digits code) by exact D1. rewrite L1.
  change (fold_left nl_step (bs "B") ?r) with (nl_step r "B"%byte).
  rewrite (nl_fold_digits check) by exact D2. rewrite L2.
  unfold nl_step. change (nl_charval "B") with 11. cbv zeta. change (9 <? 11) with true. cbv iota.
  f_equal. f_equal. change (Z.of_nat 9) with 9. change (Z.of_nat 2) with 2. lia.
Qed.

(* ---- validity as a proposition ---- *)
Definition nl_accepts (c : bytes) : Prop :=
  nl_shape c /\ (nl_eleven_test c \/ nl_97_test c).

Lemma all_digits_sub c lo hi :
  (forall i, (lo <= i < hi)%nat -> is_digit (nthb i c) = true) -> (hi <= List.length c)%nat -> all_digits (sub lo hi c) = true.
Proof.
  unfold sub, all_digits, nthb. revert c hi. induction lo as [|lo IH]; intros c hi H Hl.
  - rewrite Nat.sub_0_r. cbn [skipn]. revert c H Hl. induction hi as [|hi IHh]; intros c H Hl; [reflexivity|].
    destruct c as [|x c]; [cbn [List.length] in Hl; lia|]. cbn [firstn forallb]. pose proof (H 0%nat ltac:(lia)) as H0. cbn [nth] in H0. rewrite H0. cbn [andb].
    apply IHh; [|cbn [List.length] in Hl; lia]. intros i Hi. apply (H (S i)). lia.
  - destruct c as [|x c]; [cbn [skipn]; destruct (hi - S lo)%nat; reflexivity|]. destruct hi as [|hi]; [reflexivity|].
    cbn [skipn Nat.sub]. apply IH; [|cbn [List.length] in Hl; lia]. intros i Hi. apply (H (S i)). lia.
Qed.

Theorem valid_NL_iff c : valid_NL c = true <-> c = [] \/ nl_accepts c.
Proof.
  destruct c as [|x c]; [split; auto|]. unfold valid_NL, nonempty, nl_accepts, nl_shape. split.
  - intro V. right.
    destruct (Nat.eqb (List.length (x :: c)) 12) eqn:L; [|discriminate]. apply Nat.eqb_eq in L. cbn [negb] in V.
    destruct (beq (nthb 9 (x :: c)) 66) eqn:B9; [|discriminate]. cbn [negb] in V. cbv zeta in V.
    destruct (all_digits (sub 0 9 (x :: c))) eqn:D1; [|discriminate]. cbn [negb] in V.
    destruct (all_digits (sub 10 12 (x :: c))) eqn:D2; [|discriminate]. cbn [negb] in V.
    rewrite nl_mod97_spec in V; auto; try (explode c L; reflexivity).
    explode c L. unfold all_digits in D1, D2. cbn [sub skipn firstn Nat.sub forallb] in D1, D2. split_all D1. split_all D2.
    split.
    { split; [reflexivity|]. split; [|split].
      - intros i Hi. unfold digit_at. do 9 (destruct i as [|i]; [cbn [nthb nth]; assumption|]). lia.
      - unfold beq in B9. cbn [nthb nth] in *. apply dv_inj. unfold dv. change (bZ "B") with 66. lia.
      - intros i Hi. unfold digit_at. do 10 (destruct i as [|i]; [lia|]). do 2 (destruct i as [|i]; [cbn [nthb nth]; assumption|]). lia. }
    unfold nl_eleven_test, nl_97_test, nl_weighted, dig, number, nl_mod11 in *.
    change (sub 0 9 [x; b; b0; b1; b2; b3; b4; b5; b6; b7; b8; b9]) with [x; b; b0; b1; b2; b3; b4; b5; b6] in *.
    change (sub 10 12 [x; b; b0; b1; b2; b3; b4; b5; b6; b7; b8; b9]) with [b8; b9] in *.
    cbn [digs map wsum nl_mults nthb nth] in *. cbv zeta in V.
    generalize dependent (num_of [x; b; b0; b1; b2; b3; b4; b5; b6]). intros n9 V.
    generalize dependent (num_of [b8; b9]). intros n2 V.
    pose proof (dv_digit _ A7) as R8. abstract_dv.
    destruct (9 <? _) eqn:E in V; lia.
  - intros [?|((L & Dg1 & B9 & Dg2) & A)]; [discriminate|].
    rewrite L. cbn [Nat.eqb negb]. rewrite B9. change (beq "B" 66) with true. cbn [negb]. cbv zeta.
    assert (D1 : all_digits (sub 0 9 (x :: c)) = true) by (apply all_digits_sub; [exact Dg1 | lia]).
    assert (D2 : all_digits (sub 10 12 (x :: c)) = true) by (apply all_digits_sub; [exact Dg2 | lia]).
    rewrite D1, D2. cbn [negb].
    rewrite nl_mod97_spec; auto; try (explode c L; reflexivity).
    pose proof (dv_digit _ (Dg1 8%nat ltac:(lia))) as R8.
    explode c L.
    unfold nl_eleven_test, nl_97_test, nl_weighted, dig, number, nl_mod11 in *.
    change (sub 0 9 [x; b; b0; b1; b2; b3; b4; b5; b6; b7; b8; b9]) with [x; b; b0; b1; b2; b3; b4; b5; b6] in *.
    change (sub 10 12 [x; b; b0; b1; b2; b3; b4; b5; b6; b7; b8; b9]) with [b8; b9] in *.
    cbn [digs map wsum nl_mults nthb nth] in *. cbv zeta.
    generalize dependent (num_of [x; b; b0; b1; b2; b3; b4; b5; b6]). intros n9 A.
    generalize dependent (num_of [b8; b9]). intros n2 A.
    clear D1 D2 Dg1 Dg2 B9. abstract_dv.
    destruct (9 <? _) eqn:E; lia.
Qed.

(* accepted exactly when the published rule holds *)
Theorem valid_NL_iff_spec c : valid_NL c = true <-> c = [] \/ Spec_NL c.
Proof. rewrite valid_NL_iff. unfold nl_accepts, Spec_NL. tauto. Qed.

(* ---- single-digit errors ----
   Each test on its own detects every single-digit error in the digits it covers: the 11-test
   covers the 9 digits before "B" (weights 9..2 and -1, all coprime to 11) and ignores the two
   digits after "B"; the mod-97 test covers all 11 digits (powers of ten are coprime to 97).
   An accepted code with one digit changed is therefore accepted again only by switching from
   one test to the other. *)
Lemma shift_detect (N N' w d d' m r : Z) :
  9 < m -> Z.gcd w m = 1 -> digit d -> digit d' -> d <> d' ->
  N' - N = w * (d' - d) -> N mod m = r -> N' mod m = r -> False.
Proof.
  intros Hm Hg Hd Hd' Hne E H1 H2.
  apply (detects_mul w m Hm Hg d' d Hd' Hd); [congruence|].
  replace (w * d' - w * d) with (N' - N) by lia.
  rewrite Zminus_mod, H1, H2, Z.sub_diag. apply Z.mod_0_l. lia.
Qed.

Theorem nl_eleven_test_detects c i b :
  nl_shape c -> (i < 9)%nat -> is_digit b = true -> b <> nthb i c ->
  nl_eleven_test c -> ~ nl_eleven_test (set_nth i b c).
Proof.
  intros (L & Dg1 & _ & _) Hi Hb Hne A A'.
  pose proof (dv_digit _ Hb) as Rb.
  assert (Hne' : dv b <> dv (nthb i c)) by (intro E; apply Hne, dv_inj, E). clear Hne.
  assert (Hd : forall k, (k < 9)%nat -> 0 <= dv (nthb k c) <= 9) by (intros k Hk; apply dv_digit, Dg1; lia).
  explode c L. pose_upto Hd 9%nat. clear Hd Dg1.
  unfold nl_eleven_test, nl_weighted, dig in *.
  do 9 (destruct i as [|i]; [cbn [set_nth nthb nth] in *; abstract_dv; lia|]). lia.
Qed.

Theorem nl_eleven_test_ignores_suffix c i b :
  (10 <= i)%nat -> (nl_eleven_test (set_nth i b c) <-> nl_eleven_test c).
Proof.
  intro Hi. unfold nl_eleven_test, nl_weighted, dig. rewrite !nthb_set_nth_other by lia. reflexivity.
Qed.

Ltac nl97_case w :=
  match goal with
  | A : ?N mod 97 = 1, A' : ?N' mod 97 = 1, Hne : dv ?b <> dv ?o |- False =>
    apply (shift_detect N N' w (dv o) (dv b) 97 1); [lia | reflexivity | unfold digit; lia | unfold digit; lia | congruence | ring | exact A | exact A']
  end.

Theorem nl_97_test_detects c i b :
  nl_shape c -> (i < 12)%nat -> i <> 9%nat -> is_digit b = true -> b <> nthb i c ->
  nl_97_test c -> ~ nl_97_test (set_nth i b c).
Proof.
  intros (L & Dg1 & _ & Dg2) Hi Hi9 Hb Hne A A'.
  pose proof (dv_digit _ Hb) as Rb.
  assert (Hne' : dv b <> dv (nthb i c)) by (intro E; apply Hne, dv_inj, E). clear Hne.
  assert (Hd : forall k, (k < 12)%nat -> k <> 9%nat -> 0 <= dv (nthb k c) <= 9).
  { intros k Hk Hk9. apply dv_digit. destruct (Nat.lt_ge_cases k 9); [apply Dg1 | apply Dg2]; lia. }
  explode c L.
  pose proof (Hd 0%nat ltac:(lia) ltac:(lia)); pose proof (Hd 1%nat ltac:(lia) ltac:(lia)); pose proof (Hd 2%nat ltac:(lia) ltac:(lia));
  pose proof (Hd 3%nat ltac:(lia) ltac:(lia)); pose proof (Hd 4%nat ltac:(lia) ltac:(lia)); pose proof (Hd 5%nat ltac:(lia) ltac:(lia));
  pose proof (Hd 6%nat ltac:(lia) ltac:(lia)); pose proof (Hd 7%nat ltac:(lia) ltac:(lia)); pose proof (Hd 8%nat ltac:(lia) ltac:(lia));
  pose proof (Hd 10%nat ltac:(lia) ltac:(lia)); pose proof (Hd 11%nat ltac:(lia) ltac:(lia)).
  clear Hd Dg1 Dg2.
  unfold nl_97_test, number in *.
  destruct i as [|i]; [cbn [set_nth nthb nth sub skipn firstn Nat.sub] in *; horner_in A; horner_in A'; nl97_case 1000000000000|].
  destruct i as [|i]; [cbn [set_nth nthb nth sub skipn firstn Nat.sub] in *; horner_in A; horner_in A'; nl97_case 100000000000|].
  destruct i as [|i]; [cbn [set_nth nthb nth sub skipn firstn Nat.sub] in *; horner_in A; horner_in A'; nl97_case 10000000000|].
  destruct i as [|i]; [cbn [set_nth nthb nth sub skipn firstn Nat.sub] in *; horner_in A; horner_in A'; nl97_case 1000000000|].
  destruct i as [|i]; [cbn [set_nth nthb nth sub skipn firstn Nat.sub] in *; horner_in A; horner_in A'; nl97_case 100000000|].
  destruct i as [|i]; [cbn [set_nth nthb nth sub skipn firstn Nat.sub] in *; horner_in A; horner_in A'; nl97_case 10000000|].
  destruct i as [|i]; [cbn [set_nth nthb nth sub skipn firstn Nat.sub] in *; horner_in A; horner_in A'; nl97_case 1000000|].
  destruct i as [|i]; [cbn [set_nth nthb nth sub skipn firstn Nat.sub] in *; horner_in A; horner_in A'; nl97_case 100000|].
  destruct i as [|i]; [cbn [set_nth nthb nth sub skipn firstn Nat.sub] in *; horner_in A; horner_in A'; nl97_case 10000|].
  destruct i as [|i]; [lia|].
  destruct i as [|i]; [cbn [set_nth nthb nth sub skipn firstn Nat.sub] in *; horner_in A; horner_in A'; nl97_case 10|].
  destruct i as [|i]; [cbn [set_nth nthb nth sub skipn firstn Nat.sub] in *; horner_in A; horner_in A'; nl97_case 1|].
  lia.
Qed.

Lemma nl_shape_set_nth c i b :
  nl_shape c -> i <> 9%nat -> is_digit b = true -> nl_shape (set_nth i b c).
Proof.
  intros (L & Dg1 & B9 & Dg2) Hi Hb. unfold nl_shape. rewrite set_nth_length. split; [exact L|].
  split; [|split].
  - intros k Hk. unfold digit_at. destruct (Nat.eq_dec i k) as [->|N].
    + rewrite nthb_set_nth_same by lia. exact Hb.
    + rewrite nthb_set_nth_other by exact N. apply Dg1; exact Hk.
  - rewrite nthb_set_nth_other by exact Hi. exact B9.
  - intros k Hk. unfold digit_at. destruct (Nat.eq_dec i k) as [->|N].
    + rewrite nthb_set_nth_same by lia. exact Hb.
    + rewrite nthb_set_nth_other by exact N. apply Dg2; exact Hk.
Qed.

(* under the published rule an undetected error in the first nine digits switches tests *)
Theorem nl_spec_single_digit_switches c i b :
  Spec_NL c -> (i < 9)%nat -> is_digit b = true -> b <> nthb i c -> Spec_NL (set_nth i b c) ->
  (nl_eleven_test c /\ ~ nl_97_test c /\ nl_97_test (set_nth i b c) /\ ~ nl_eleven_test (set_nth i b c)) \/
  (nl_97_test c /\ ~ nl_eleven_test c /\ nl_eleven_test (set_nth i b c) /\ ~ nl_97_test (set_nth i b c)).
Proof.
  intros (S & A) Hi Hb Hne (S' & A').
  pose proof (nl_eleven_test_detects c i b S Hi Hb Hne) as D11.
  pose proof (nl_97_test_detects c i b S ltac:(lia) ltac:(lia) Hb Hne) as D97.
  tauto.
Qed.
