(* C13 - ES (NIF): DNI (8 digits + letter, number mod 23), NIE (X/Y/Z read as 0/1/2, mod 23),
   CIF and K/L/M codes (Luhn-type sum modulo 10 with a digit or letter check).  23 is prime and
   greater than 9; the doubling map is a permutation: every single-digit error is detected. *)
From Coq Require Import String List ZArith Strings.Byte Bool Lia ZifyBool.
From Verif Require Import Base.Wire TaxId.Common TaxId.Regimes TaxId.CommonProofs TaxId.CheckProofs TaxId.Spec TaxId.Mod97Proofs.
Import ListNotations.
Open Scope Z_scope.
Ltac Zify.zify_post_hook ::= Z.div_mod_to_equations.
(* conversion: unfold the model's definitions before integer arithmetic (keeps Qed fast) *)
Local Strategy 100 [Z.add Z.mul Z.sub Z.opp Z.modulo Z.div Z.eqb Z.ltb Z.leb Z.pow dv bZ].

(* ---- classes and digits ---- *)
Lemma org_type_not_digit a : one_of es_org_types a = true -> is_digit a = false.
Proof. bytecases a. Qed.
Lemma xyz_not_digit a : one_of (bs "XYZ") a = true -> is_digit a = false.
Proof. bytecases a. Qed.
Lemma klm_not_digit a : one_of (bs "KLM") a = true -> is_digit a = false.
Proof. bytecases a. Qed.
Lemma check_letter_not_digit a : es_is_check_letter a = true -> is_digit a = false.
Proof. bytecases a. Qed.
Lemma org_check_digit a : is_digit a = true -> es_is_org_check a = true.
Proof. bytecases a. Qed.

Definition digit_blind (p : byte -> bool) : Prop :=
  forall a b, is_digit a = true -> is_digit b = true -> p a = p b.
Lemma digit_blind_of_false p : (forall a, p a = true -> is_digit a = false) -> digit_blind p.
Proof.
  intros H a b Ha Hb. destruct (p a) eqn:E1, (p b) eqn:E2; try reflexivity.
  - apply H in E1. congruence.
  - apply H in E2. congruence.
Qed.
Lemma digit_blind_of_true p : (forall a, is_digit a = true -> p a = true) -> digit_blind p.
Proof. intros H a b Ha Hb. rewrite (H a Ha), (H b Hb). reflexivity. Qed.

Lemma match_classes_set_nth cls c i b :
  Forall digit_blind cls -> is_digit (nthb i c) = true -> is_digit b = true ->
  match_classes cls (set_nth i b c) = match_classes cls c.
Proof.
  unfold nthb. revert c i; induction cls as [|p cls IH]; intros c i HF Ho Hn.
  - destruct c, i; reflexivity.
  - inversion HF as [|? ? Hp HF']; subst. destruct c as [|x c]; [destruct i; reflexivity|].
    destruct i; cbn in *.
    + rewrite (Hp b x Hn Ho). reflexivity.
    + rewrite IH; auto.
Qed.

Lemma match_classes_set_nth_digits n c i b :
  is_digit (nthb i c) = true -> is_digit b = true ->
  match_classes (rep n is_digit) (set_nth i b c) = match_classes (rep n is_digit) c.
Proof.
  intros. apply match_classes_set_nth; auto. unfold rep. induction n; cbn; constructor; auto.
  apply digit_blind_of_true; auto.
Qed.

Lemma blind_digit : digit_blind is_digit.
Proof. apply digit_blind_of_true; auto. Qed.
Lemma blind_org_type : digit_blind (one_of es_org_types).
Proof. apply digit_blind_of_false, org_type_not_digit. Qed.
Lemma blind_xyz : digit_blind (one_of (bs "XYZ")).
Proof. apply digit_blind_of_false, xyz_not_digit. Qed.
Lemma blind_klm : digit_blind (one_of (bs "KLM")).
Proof. apply digit_blind_of_false, klm_not_digit. Qed.
Lemma blind_check_letter : digit_blind es_is_check_letter.
Proof. apply digit_blind_of_false, check_letter_not_digit. Qed.
Lemma blind_org_check : digit_blind es_is_org_check.
Proof. apply digit_blind_of_true, org_check_digit. Qed.

Ltac blind := repeat (constructor; [first [apply blind_digit | apply blind_org_type | apply blind_xyz | apply blind_klm | apply blind_check_letter | apply blind_org_check]|]); constructor.

Lemma es_formats_set_nth c i b :
  is_digit (nthb i c) = true -> is_digit b = true ->
  es_fmt_org (set_nth i b c) = es_fmt_org c /\ es_fmt_national (set_nth i b c) = es_fmt_national c /\
  es_fmt_foreign (set_nth i b c) = es_fmt_foreign c /\ es_fmt_other (set_nth i b c) = es_fmt_other c.
Proof.
  intros Ho Hn. unfold es_fmt_org, es_fmt_national, es_fmt_foreign, es_fmt_other.
  repeat split; apply match_classes_set_nth; auto; cbn [rep repeat app]; blind.
Qed.

(* ---- CIF / KLM: Luhn-type ---- *)
Definition es_cdi (b : byte) : Z := match index_of b es_org_check_letters with Some i => i | None => dv b end.
Lemma es_cdi_digit a : is_digit a = true -> es_cdi a = dv a.
Proof. bytecases a. Qed.
Definition es_vorg (c : bytes) : bool := es_verify_org (sub 1 8 c) (nthb 8 c).
Definition F_ES_org : list (Z -> Z) := [zerof; luhn_double; idf; luhn_double; idf; luhn_double; idf; luhn_double; idf].
Definition K_ES_org (c : bytes) : Z := es_cdi (nthb 8 c) - dv (nthb 8 c).

Lemma es_org_lin c : List.length c = 9%nat -> es_vorg c = true -> (fsum F_ES_org (digs c) + K_ES_org c) mod 10 = 0.
Proof.
  intros H V. explode c H. unfold es_vorg, es_verify_org in V. fold (es_cdi (nthb 8 [b; b0; b1; b2; b3; b4; b5; b6; b7])) in V.
  cbn [sub skipn firstn Nat.sub digs map es_org_sum negb nthb nth] in V. cbv zeta in V.
  unfold K_ES_org. cbn [F_ES_org fsum digs map nthb nth]. unfold idf, zerof. lia.
Qed.

Lemma nthb_set_nth_other i j b c : i <> j -> nthb j (set_nth i b c) = nthb j c.
Proof. unfold nthb. apply nth_set_nth_other. Qed.
Lemma nthb_set_nth_same i b c : (i < List.length c)%nat -> nthb i (set_nth i b c) = b.
Proof. unfold nthb. apply nth_set_nth_same. Qed.

Lemma es_org_single c i b :
  List.length c = 9%nat -> (1 <= i < 9)%nat -> es_vorg c = true ->
  is_digit (nthb i c) = true -> is_digit b = true -> b <> nthb i c -> es_vorg (set_nth i b c) = false.
Proof.
  intros L Hi V Ho Hn Hne.
  apply (detect_single es_vorg F_ES_org K_ES_org 10 9); auto; try lia; try reflexivity.
  - exact es_org_lin.
  - destruct i as [|i]; [lia|]. do 8 (destruct i as [|i]; [solve_detect|]). lia.
  - unfold K_ES_org. destruct (Nat.eq_dec i 8) as [->|N].
    + rewrite nthb_set_nth_same by lia. rewrite !es_cdi_digit by assumption. lia.
    + rewrite nthb_set_nth_other by exact N. reflexivity.
Qed.

(* ---- DNI / NIE: number modulo 23 ---- *)
Definition es_idx (b : byte) : Z := match index_of b es_check_letters with Some i => i | None => 0 end.

Lemma es_letter_idx n chk : es_letter_ok n chk = true -> es_idx chk = n mod 23.
Proof.
  unfold es_letter_ok. intro H. apply byte_eqb_eq in H.
  assert (R : 0 <= n mod 23 < 23) by (apply Z.mod_pos_bound; lia).
  remember (n mod 23) as k eqn:Ek. clear Ek n.
  assert (Ek : k = Z.of_nat (Z.to_nat k)) by lia.
  remember (Z.to_nat k) as j eqn:Ej. assert (Hj : (j < 23)%nat) by lia. clear Ej R.
  subst k chk. do 23 (destruct j as [|j]; [vm_compute; reflexivity|]). lia.
Qed.

Notation es_vnat := es_verify_national.
Definition F_ES_nat : list (Z -> Z) := map Z.mul [10000000; 1000000; 100000; 10000; 1000; 100; 10; 1] ++ [zerof].
Definition K_ES_nat (c : bytes) : Z := - es_idx (nthb 8 c).

Lemma if_false_elim' (a b : bool) : (if a then false else b) = true -> b = true.
Proof. destruct a; [discriminate | auto]. Qed.

Lemma es_nat_lin c : List.length c = 9%nat -> es_vnat c = true -> (fsum F_ES_nat (digs c) + K_ES_nat c) mod 23 = 0.
Proof.
  intros H V. explode c H. unfold es_verify_national in V. cbv zeta in V.
  apply if_false_elim' in V. apply es_letter_idx in V.
  cbn [sub skipn firstn Nat.sub nthb nth] in V. horner_in V.
  unfold K_ES_nat. cbn [F_ES_nat fsum digs map app nthb nth]. unfold zerof.
  rewrite V. clear V H. abstract_dv. lia.
Qed.

Lemma es_nat_single c i b :
  List.length c = 9%nat -> (i < 8)%nat -> es_vnat c = true ->
  is_digit (nthb i c) = true -> is_digit b = true -> b <> nthb i c -> es_vnat (set_nth i b c) = false.
Proof.
  intros L Hi V Ho Hn Hne.
  apply (detect_single es_vnat F_ES_nat K_ES_nat 23 9); auto; try lia; try reflexivity.
  - exact es_nat_lin.
  - do 8 (destruct i as [|i]; [solve_detect|]). lia.
  - unfold K_ES_nat. rewrite nthb_set_nth_other by lia. reflexivity.
Qed.

Notation es_vfor := es_verify_foreign.
Definition es_ti (b : byte) : Z := match index_of b (bs "XYZ") with Some i => i | None => -1 end.
Definition F_ES_for : list (Z -> Z) := zerof :: map Z.mul [1000000; 100000; 10000; 1000; 100; 10; 1] ++ [zerof].
Definition K_ES_for (c : bytes) : Z := dv (digit_byte (es_ti (nthb 0 c))) * 10000000 - es_idx (nthb 8 c).

Lemma es_verify_foreign_unfold c :
  es_verify_foreign c = es_letter_ok (num_of (digit_byte (es_ti (nthb 0 c)) :: sub 1 8 c)) (nthb 8 c).
Proof. reflexivity. Qed.

Lemma es_for_lin c : List.length c = 9%nat -> es_vfor c = true -> (fsum F_ES_for (digs c) + K_ES_for c) mod 23 = 0.
Proof.
  intros H V. explode c H. rewrite es_verify_foreign_unfold in V.
  apply es_letter_idx in V.
  change (sub 1 8 [b; b0; b1; b2; b3; b4; b5; b6; b7]) with [b0; b1; b2; b3; b4; b5; b6] in V.
  change (nthb 0 [b; b0; b1; b2; b3; b4; b5; b6; b7]) with b in V.
  change (nthb 8 [b; b0; b1; b2; b3; b4; b5; b6; b7]) with b7 in V.
  horner_in V.
  unfold K_ES_for.
  change (nthb 0 [b; b0; b1; b2; b3; b4; b5; b6; b7]) with b.
  change (nthb 8 [b; b0; b1; b2; b3; b4; b5; b6; b7]) with b7.
  cbn [F_ES_for fsum digs map app]. unfold zerof.
  rewrite V. clear V H. generalize (dv (digit_byte (es_ti b))). intro. abstract_dv. lia.
Qed.

Lemma es_for_single c i b :
  List.length c = 9%nat -> (1 <= i < 8)%nat -> es_vfor c = true ->
  is_digit (nthb i c) = true -> is_digit b = true -> b <> nthb i c -> es_vfor (set_nth i b c) = false.
Proof.
  intros L Hi V Ho Hn Hne.
  apply (detect_single es_vfor F_ES_for K_ES_for 23 9); auto; try lia; try reflexivity.
  - exact es_for_lin.
  - destruct i as [|i]; [lia|]. do 7 (destruct i as [|i]; [solve_detect|]). lia.
  - unfold K_ES_for. rewrite !nthb_set_nth_other by lia. reflexivity.
Qed.

(* ---- all shapes together ---- *)
Theorem es_single_digit c i b :
  valid_ES c = true -> c <> [] -> (i < 9)%nat ->
  is_digit (nthb i c) = true -> is_digit b = true -> b <> nthb i c ->
  valid_ES (set_nth i b c) = false.
Proof.
  intros V NE Hi Ho Hn Hne.
  destruct (es_formats_set_nth c i b Ho Hn) as (E1 & E2 & E3 & E4).
  unfold valid_ES, nonempty in *. destruct c as [|x c]; [congruence|].
  destruct (set_nth i b (x :: c)) as [|y c'] eqn:Ec'.
  { apply (f_equal (@List.length byte)) in Ec'. rewrite set_nth_length in Ec'. discriminate. }
  rewrite <- Ec' in *. clear Ec' y c'.
  rewrite E1, E2, E3, E4.
  destruct (es_fmt_org (x :: c)) eqn:F1.
  { pose proof (match_classes_length _ _ F1) as L. cbn in L.
    assert (i <> 0%nat).
    { intros ->. pose proof (match_classes_nth _ _ 0%nat F1 ltac:(cbn; lia)) as P. cbn [nth] in P.
      apply org_type_not_digit in P. congruence. }
    apply es_org_single; auto. lia. }
  destruct (es_fmt_national (x :: c)) eqn:F2.
  { pose proof (match_classes_length _ _ F2) as L. cbn in L.
    assert (i <> 8%nat).
    { intros ->. pose proof (match_classes_nth _ _ 8%nat F2 ltac:(cbn; lia)) as P. cbn [nth rep repeat app] in P.
      apply check_letter_not_digit in P. congruence. }
    apply es_nat_single; auto. lia. }
  destruct (es_fmt_foreign (x :: c)) eqn:F3.
  { pose proof (match_classes_length _ _ F3) as L. cbn in L.
    assert (i <> 0%nat).
    { intros ->. pose proof (match_classes_nth _ _ 0%nat F3 ltac:(cbn; lia)) as P. cbn [nth] in P.
      apply xyz_not_digit in P. congruence. }
    assert (i <> 8%nat).
    { intros ->. pose proof (match_classes_nth _ _ 8%nat F3 ltac:(cbn; lia)) as P. cbn [nth rep repeat app] in P.
      apply check_letter_not_digit in P. congruence. }
    apply es_for_single; auto. lia. }
  destruct (es_fmt_other (x :: c)) eqn:F4; [|reflexivity].
  pose proof (match_classes_length _ _ F4) as L. cbn in L.
  assert (i <> 0%nat).
  { intros ->. pose proof (match_classes_nth _ _ 0%nat F4 ltac:(cbn; lia)) as P. cbn [nth] in P.
    apply klm_not_digit in P. congruence. }
  apply es_org_single; auto. lia.
Qed.
