(* C13 - EL (Greek AFM): weights 2^8..2^1, check digit (sum mod 11) mod 10: remainders 0 and 10
   share the check digit 0.  Arithmetic characterisation, exact set of undetected single-digit
   errors, equivalence with the declarative rule. *)
From Coq Require Import String List ZArith Strings.Byte Bool Lia ZifyBool.
From Verif Require Import Base.Wire TaxId.Common TaxId.Regimes TaxId.CommonProofs TaxId.CheckProofs TaxId.Spec.
Import ListNotations.
Open Scope Z_scope.
Ltac Zify.zify_post_hook ::= Z.div_mod_to_equations.
(* conversion: unfold the model's definitions before integer arithmetic (keeps Qed fast) *)
Local Strategy 100 [Z.add Z.mul Z.sub Z.opp Z.modulo Z.div Z.eqb Z.ltb Z.leb Z.pow dv bZ].

Definition el_W : list Z := [256; 128; 64; 32; 16; 8; 4; 2; -1].
Definition el_T (c : bytes) : Z := wsum el_W (digs c).
Definition el_w (i : nat) : Z := nth i el_W 0.

Lemma valid_EL_arith c :
  valid_EL c = true <->
  c = [] \/ (digits_n 9 c = true /\ (el_T c mod 11 = 0 \/ (el_T c mod 11 = 10 /\ dv (nthb 8 c) = 0))).
Proof.
  destruct c as [|b0 c]; [split; auto|]. unfold valid_EL, nonempty, el_check, el_T, el_W. split.
  - intro V. right. split_andb V. split; [exact V|].
    pose proof (digits_n_length _ _ V) as L. pose proof (digits_n_bounds _ _ V 8%nat ltac:(lia)) as R.
    cbn [List.length] in L. injection L as L. explode c L.
    cbn [digs map wsum el_mults nthZ nth nthb] in *. lia.
  - intros [?|(D & A)]; [discriminate|]. rewrite D. cbn [andb].
    pose proof (digits_n_length _ _ D) as L. pose proof (digits_n_bounds _ _ D 8%nat ltac:(lia)) as R.
    cbn [List.length] in L. injection L as L. explode c L.
    cbn [digs map wsum el_mults nthZ nth nthb] in *. lia.
Qed.

Theorem el_single_digit_exact c i b :
  valid_EL c = true -> c <> [] -> (i < 9)%nat -> is_digit b = true -> b <> nthb i c ->
  (valid_EL (set_nth i b c) = true <->
   (i < 8)%nat /\ dv (nthb 8 c) = 0 /\
   ((el_T c mod 11 = 0 /\ (el_w i * (dv b - dv (nthb i c))) mod 11 = 10) \/
    (el_T c mod 11 = 10 /\ (el_w i * (dv b - dv (nthb i c))) mod 11 = 1))).
Proof.
  intros V NE Hi Hb Hne.
  apply valid_EL_arith in V. destruct V as [?|(D & A)]; [contradiction|].
  pose proof (digits_n_length _ _ D) as L. explode c L.
  pose proof (digits_n_bounds _ _ D) as Hd. pose_upto Hd 9%nat.
  pose proof (dv_digit _ Hb) as Rb.
  assert (Hne' : dv b <> dv (nthb i [b0; b1; b2; b3; b4; b5; b6; b7; b8])) by (intro E; apply Hne, dv_inj, E).
  clear Hd Hne NE.
  rewrite valid_EL_arith.
  unfold el_T, el_w, el_W in *. unfold digits_n in *.
  do 9 (destruct i as [|i]; [
    cbn [set_nth nthb nth digs map wsum rep repeat match_classes] in *;
    split; [ intros [?|(D' & A')]; [discriminate|]; lia
           | intros (? & ? & A'); right; split; [ split_all D; solve_digits | lia] ] |]).
  lia.
Qed.

Corollary el_single_digit_detected c i b :
  valid_EL c = true -> c <> [] -> (i < 9)%nat -> is_digit b = true -> b <> nthb i c ->
  (dv (nthb 8 c) <> 0 \/ i = 8%nat) -> valid_EL (set_nth i b c) = false.
Proof.
  intros V NE Hi Hb Hne G. destruct (valid_EL (set_nth i b c)) eqn:E; [|reflexivity].
  apply (el_single_digit_exact c i b V NE Hi Hb Hne) in E. lia.
Qed.

Theorem valid_EL_iff_spec c : valid_EL c = true <-> c = [] \/ Spec_EL c.
Proof.
  destruct c as [|b0 c]; [split; auto|]. unfold valid_EL, nonempty, el_check, Spec_EL. split.
  - intro V. right. split_andb V. pose proof (digits_n_length _ _ V) as L. split; [exact L|].
    split; [intros i Hi; apply (digits_n_nth 9); [exact V | lia]|].
    explode c L. unfold dig. cbn [digs map wsum el_mults nthZ nth nthb] in *. lia.
  - intros [?|(L & Dg & A)]; [discriminate|]. explode c L.
    assert (D : digits_n 9 [b0; b; b1; b2; b3; b4; b5; b6; b7] = true).
    { unfold digits_n. cbn. pose_upto Dg 9%nat. unfold digit_at in *. cbn [nthb nth] in *. solve_digits. }
    rewrite D. cbn [andb]. unfold dig in A. cbn [digs map wsum el_mults nthZ nth nthb] in *. lia.
Qed.
