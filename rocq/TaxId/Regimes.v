(* C13 - per-regime tax identity validators and normalisers, transcribed from
   /repo/regimes/<cc>/tax_identity.go (nl, pt: tax_code.go) following the Go control flow.
   No proofs in this file.

   valid_XX c  = (validateTaxCode(c) == nil) of regime XX: true on the empty code (the code is
   optional), otherwise national format and check digit.  The regime validators are only reached
   through tax.Identity.Validate, i.e. on codes matching `^[A-Z0-9]+$` of at most 32 bytes
   (except MX); `validate` below includes that generic step.

   float64 arithmetic in the AT, BE and CH validators only ever holds integers below 2^27,
   on which float64 +, *, math.Mod and math.Floor are exact; it is modelled in Z. *)
From Coq Require Import String List ZArith Strings.Byte Bool.
From Verif Require Import Base.Wire TaxId.Common.
Import ListNotations.
Open Scope Z_scope.

Definition nonempty (c : bytes) (k : bool) : bool := match c with [] => true | _ => k end.

(* ---------------- AE: ^\d{15}$ ---------------- *)
Definition valid_AE (c : bytes) : bool := nonempty c (digits_n 15 c).

(* ---------------- AT: ^U\d{8}$, commercialCheck ---------------- *)
Definition at_mults : list Z := [1; 2; 1; 2; 1; 2; 1].
Definition at_term (m d : Z) : Z := let x := d * m in if 9 <? x then x / 10 + x mod 10 else x.
Fixpoint at_sum (ms ds : list Z) : Z :=
  match ms, ds with
  | m :: ms', d :: ds' => at_term m d + at_sum ms' ds'
  | _, _ => 0
  end.
Definition at_check (ds : list Z) : bool :=     (* ds = the 8 digits after "U" *)
  let total := 10 - (at_sum at_mults ds + 4) mod 10 in
  let total := if total =? 10 then 0 else total in
  nthZ 7 ds =? total.
Definition valid_AT (c : bytes) : bool :=
  nonempty c (match_classes ((fun b => beq b 85) :: rep 8 is_digit) c && at_check (digs (skipn 1 c))).

(* ---------------- BE: ^[01]?\d{9}$, commercialCheck ---------------- *)
Definition be_format (c : bytes) : bool :=
  digits_n 9 c || (digits_n 10 c && (beq (nthb 0 c) 48 || beq (nthb 0 c) 49)).
Definition be_check (v : bytes) : bool :=       (* v: 10 digits *)
  if beq (nthb 0 v) 48 && beq (nthb 1 v) 48 then false     (* val[0] == '0' && val[1] == '0' *)
  else
    let num := num_of (sub 0 8 v) in
    let chk := 97 - num mod 97 in
    num_of (sub 8 10 v) =? chk.
Definition valid_BE (c : bytes) : bool :=
  nonempty c (be_format c &&
              be_check (if Nat.eqb (length c) 9 then byte_of_Z 48 :: c else c)).

(* ---------------- BR: CNPJ, 14 digits, two mod-11 check digits ---------------- *)
Definition br_w1 : list Z := [5; 4; 3; 2; 9; 8; 7; 6; 5; 4; 3; 2].
Definition br_w2 : list Z := [6; 5; 4; 3; 2; 9; 8; 7; 6; 5; 4; 3; 2].
Definition br_expected (ws ds : list Z) : Z :=
  let r := (wsum ws ds) mod 11 in if r <? 2 then 0 else 11 - r.
Definition br_verify (ws : list Z) (pos : nat) (ds : list Z) : bool :=
  nthZ pos ds =? br_expected ws ds.
Definition valid_BR (c : bytes) : bool :=
  nonempty c (Nat.eqb (length c) 14 && all_digits c &&
              br_verify br_w1 12 (digs c) && br_verify br_w2 13 (digs c)).

(* ---------------- CH: ^E\d{9}$, commercialCheck; suffix stripping on normalisation -------- *)
Definition ch_mults : list Z := [5; 4; 3; 2; 7; 6; 5; 4].
Definition ch_check (ds : list Z) : bool :=     (* ds = the 9 digits after "E" *)
  let total := 11 - (wsum ch_mults ds) mod 11 in
  if total =? 10 then false
  else let total := if total =? 11 then 0 else total in
       nthZ 8 ds =? total.
Definition valid_CH (c : bytes) : bool :=
  nonempty c (match_classes ((fun b => beq b 69) :: rep 9 is_digit) c && ch_check (digs (skipn 1 c))).
(* regexp `(MWST|TVA|IVA)$` replaced by "" *)
Definition ch_strip_suffix (s : bytes) : bytes :=
  if has_suffix (bs "MWST") s then drop_last 4 s
  else if has_suffix (bs "TVA") s then drop_last 3 s
  else if has_suffix (bs "IVA") s then drop_last 3 s
  else s.

(* ---------------- CO: NIT, 9-10 digits, prime weights from the right, mod 11 ---------------- *)
Definition co_mults : list Z := [3; 7; 13; 17; 19; 23; 29; 37; 41; 43; 47; 53; 59; 67; 71].
Definition co_check (body : list Z) (ck : Z) : bool :=
  let s := (wsum co_mults (rev body)) mod 11 in
  let s := if 2 <=? s then 11 - s else s in
  s =? ck.
Definition valid_CO (c : bytes) : bool :=
  nonempty c (all_digits c && (Nat.leb (length c) 10) && (Nat.leb 9 (length c)) &&
              co_check (digs (firstn (length c - 1) c)) (dv (nthb (length c - 1) c))).

(* ---------------- DE: ^[1-9]\d{8}$, ISO 7064 MOD 11,10 ---------------- *)
Definition de_step (p d : Z) : Z :=
  let s := (d + p) mod 10 in
  let s := if s =? 0 then 10 else s in
  (2 * s) mod 11.
Definition de_check (ds : list Z) : bool :=     (* 9 digits *)
  let p := fold_left de_step (firstn 8 ds) 10 in
  let cd := if 11 - p =? 10 then 0 else 11 - p in
  cd =? nthZ 8 ds.
Definition valid_DE (c : bytes) : bool :=
  nonempty c (match_classes (in_range 49 57 :: rep 8 is_digit) c && de_check (digs c)).

(* ---------------- ES: NIF (DNI, NIE, CIF, K/L/M) ---------------- *)
Definition es_check_letters : bytes := bs "TRWAGMYFPDXBNJZSQVHLCKE".
Definition es_org_types : bytes := bs "ABCDEFGHJNPQRSUVW".
Definition es_org_check_letters : bytes := bs "JABCDEFGHI".
Definition es_is_org_check (b : byte) : bool := is_digit b || one_of es_org_check_letters b.
Definition es_is_check_letter (b : byte) : bool := one_of es_check_letters b.

Fixpoint index_of (b : byte) (s : bytes) : option Z :=
  match s with
  | [] => None
  | x :: r => if Byte.eqb b x then Some 0
              else match index_of b r with Some i => Some (i + 1) | None => None end
  end.

Definition es_fmt_org (c : bytes) : bool :=
  match_classes (one_of es_org_types :: rep 7 is_digit ++ [es_is_org_check]) c.
Definition es_fmt_national (c : bytes) : bool :=
  match_classes (rep 8 is_digit ++ [es_is_check_letter]) c.
Definition es_fmt_foreign (c : bytes) : bool :=
  match_classes (one_of (bs "XYZ") :: rep 7 is_digit ++ [es_is_check_letter]) c.
Definition es_fmt_other (c : bytes) : bool :=
  match_classes (one_of (bs "KLM") :: rep 7 is_digit ++ [es_is_org_check]) c.

(* verifyOrgCodeMatches: number = 7 digits, chk = check character *)
Fixpoint es_org_sum (k_even : bool) (ds : list Z) : Z :=
  match ds with
  | [] => 0
  | d :: r => (if k_even then luhn_double d else d) + es_org_sum (negb k_even) r
  end.
Definition es_verify_org (number : bytes) (chk : byte) : bool :=
  let cdc := (10 - (es_org_sum true (digs number)) mod 10) mod 10 in
  let cdi := match index_of chk es_org_check_letters with Some i => i | None => dv chk end in
  cdc =? cdi.
Definition es_letter_ok (n : Z) (chk : byte) : bool :=
  Byte.eqb (nthb (Z.to_nat (n mod 23)) es_check_letters) chk.
Definition es_verify_national (c : bytes) : bool :=
  let number := sub 0 8 c in
  if eqb_bytes number (bs "00000000") then false
  else es_letter_ok (num_of number) (nthb 8 c).
Definition es_verify_foreign (c : bytes) : bool :=
  let ti := match index_of (nthb 0 c) (bs "XYZ") with Some i => i | None => -1 end in
  es_letter_ok (num_of (digit_byte ti :: sub 1 8 c)) (nthb 8 c).
Definition valid_ES (c : bytes) : bool :=
  nonempty c (
    if es_fmt_org c then es_verify_org (sub 1 8 c) (nthb 8 c)
    else if es_fmt_national c then es_verify_national c
    else if es_fmt_foreign c then es_verify_foreign c
    else if es_fmt_other c then es_verify_org (sub 1 8 c) (nthb 8 c)
    else false).

(* ---------------- FR: ^\d{11}$, key = (12 + 3 * (SIREN mod 97)) mod 97 computed as
   (SIREN*100 + 12) mod 97; normalisation turns a Luhn-valid 9-digit SIREN into key ++ SIREN *)
Definition fr_key (siren : bytes) : Z := (num_of siren * 100 + 12) mod 97.
Definition two_digits (k : Z) : bytes := [digit_byte (k / 10); digit_byte (k mod 10)].   (* %02d, 0<=k<100 *)
Definition valid_FR (c : bytes) : bool :=
  nonempty c (digits_n 11 c && eqb_bytes (two_digits (fr_key (skipn 2 c))) (firstn 2 c)).
Definition fr_valid_siren (c : bytes) : bool :=
  nonempty c (digits_n 9 c && (luhn_check_digit (sub 0 8 c) =? dv (nthb 8 c))).

(* ---------------- GB: ^\d{9}$ ^\d{12}$ ^GD\d{3}$ ^HA\d{3}$ ---------------- *)
Definition gb_mults : list Z := [8; 7; 6; 5; 4; 3; 2].
Definition gb_fmt_gd (c : bytes) : bool :=
  match_classes ((fun b => beq b 71) :: (fun b => beq b 68) :: rep 3 is_digit) c.
Definition gb_fmt_ha (c : bytes) : bool :=
  match_classes ((fun b => beq b 72) :: (fun b => beq b 65) :: rep 3 is_digit) c.
(* for checkDigit >= 0 { checkDigit -= 97 } ; the sum is at most 9*35 = 315 *)
Fixpoint gb_sub97 (fuel : nat) (cd : Z) : Z :=
  match fuel with
  | O => cd
  | S f => if 0 <=? cd then gb_sub97 f (cd - 97) else cd
  end.
Definition gb_commercial (c : bytes) : bool :=
  if num_of c =? 0 then false
  else
    let num := num_of (sub 0 7 c) in
    let sum := wsum gb_mults (digs c) in
    let cd := gb_sub97 8 sum in
    let cd := if cd <? 0 then 0 - cd else cd in
    let last := num_of (sub 7 9 c) in
    if (cd =? last) && (num <? 9990001) && ((num <? 100000) || (999999 <? num))
       && ((num <? 9490001) || (9700000 <? num)) then true
    else
      let cd := if 55 <=? cd then cd - 55 else cd + 42 in
      (cd =? last) && (1000000 <? num).
Definition valid_GB (c : bytes) : bool :=
  nonempty c (
    if digits_n 9 c || digits_n 12 c || gb_fmt_gd c || gb_fmt_ha c then
      if has_prefix (bs "GD") c then negb (499 <? num_of (skipn 2 c))
      else if has_prefix (bs "HA") c then negb (num_of (skipn 2 c) <? 500)
      else gb_commercial c
    else false).

(* ---------------- EL (GR): ^\d{9}$, weights 2^8..2^1, mod 11 mod 10 ---------------- *)
Definition el_mults : list Z := [256; 128; 64; 32; 16; 8; 4; 2].
Definition el_check (ds : list Z) : bool := ((wsum el_mults ds) mod 11) mod 10 =? nthZ 8 ds.
Definition valid_EL (c : bytes) : bool := nonempty c (digits_n 9 c && el_check (digs c)).

(* ---------------- IN: GSTIN, Luhn mod 36 ---------------- *)
Definition in_format (c : bytes) : bool :=
  match_classes (rep 2 is_digit ++ rep 5 is_upper ++ rep 4 is_digit ++
                 [is_upper; (fun b => in_range 49 57 b || is_upper b); (fun b => beq b 90); is_alnum]) c.
Definition in_value (b : byte) : Z := if is_digit b then dv b else bZ b - 65 + 10.
Definition in_char (v : Z) : byte := if (0 <=? v) && (v <=? 9) then byte_of_Z (48 + v) else byte_of_Z (65 + v - 10).
Fixpoint in_sum (odd : bool) (s : bytes) : Z :=
  match s with
  | [] => 0
  | b :: r => let p := in_value b * (if odd then 2 else 1) in
              p / 36 + p mod 36 + in_sum (negb odd) r
  end.
Definition in_check (c : bytes) : bool :=
  Nat.eqb (length c) 15 &&
  Byte.eqb (in_char ((36 - (in_sum false (firstn 14 c)) mod 36) mod 36)) (nthb 14 c).
Definition valid_IN (c : bytes) : bool := nonempty c (in_format c && in_check c).

(* ---------------- IT: Partita IVA, 11 digits, Luhn ---------------- *)
Definition valid_IT (c : bytes) : bool :=
  nonempty c (all_digits c && Nat.eqb (length c) 11 &&
              (luhn_check_digit (sub 0 10 c) =? dv (nthb 10 c))).

(* ---------------- NL: 9 digits "B" 2 digits; mod 11 or mod 97 ---------------- *)
(* mod11(num): weights 2..9 from the second-last digit leftwards; a remainder of 10 gives -1
   (no check digit: the 11-test fails) *)
Definition nl_mults : list Z := [9; 8; 7; 6; 5; 4; 3; 2].
Definition nl_mod11 (ds : list Z) : Z :=
  let s := (wsum nl_mults ds) mod 11 in if 9 <? s then -1 else s.
(* checkMod97("NL" + code + "B" + check): letters become two-digit numbers (c - 55) *)
Definition nl_charval (b : byte) : Z := if is_digit b then bZ b - 48 else bZ b - 55.
Definition nl_concat (s : bytes) : Z :=
  fold_left (fun r b => let c := nl_charval b in (if 9 <? c then r * 10 * 10 else r * 10) + c) s 0.
Definition nl_mod97 (code check : bytes) : bool :=
  (nl_concat (bs "NL" ++ code ++ bs "B" ++ check)) mod 97 =? 1.
Definition valid_NL (c : bytes) : bool :=
  nonempty c (
    if negb (Nat.eqb (length c) 12) then false
    else if negb (beq (nthb 9 c) 66) then false
    else
      let code := sub 0 9 c in let check := sub 10 12 c in
      if negb (all_digits code) then false
      else if negb (all_digits check) then false
      else
        let ck := dv (nthb 8 c) in
        let sum := nl_mod11 (digs code) in
        negb (negb (sum =? ck) && negb (nl_mod97 code check))).

(* ---------------- PL: NIP ^[1-9]((\d[1-9])|([1-9]\d))\d{7}$, mod 11 ---------------- *)
Definition pl_mults : list Z := [6; 5; 7; 2; 3; 4; 5; 6; 7].
Definition pl_format (c : bytes) : bool :=
  digits_n 10 c && in_range 49 57 (nthb 0 c) && (in_range 49 57 (nthb 2 c) || in_range 49 57 (nthb 1 c)).
Definition pl_check (ds : list Z) : bool := (wsum pl_mults ds) mod 11 =? nthZ 9 ds.
Definition valid_PL (c : bytes) : bool := nonempty c (pl_format c && pl_check (digs c)).

(* ---------------- PT: NIF, 9 digits, prefix table, mod 11 ---------------- *)
Definition pt_mults : list Z := [9; 8; 7; 6; 5; 4; 3; 2].
Definition pt_prefix1 (b : byte) : bool := one_of (bs "123568") b.
Definition pt_prefix2 (a b : byte) : bool :=
  existsb (fun p => eqb_bytes p [a; b])
    [bs "45"; bs "70"; bs "71"; bs "72"; bs "74"; bs "75"; bs "77"; bs "78"; bs "79"; bs "90"; bs "91"; bs "98"; bs "99"].
Definition pt_check (ds : list Z) : bool :=
  let rmd := (wsum pt_mults ds) mod 11 in
  let ckd := if (rmd =? 0) || (rmd =? 1) then 0 else 11 - rmd in
  nthZ 8 ds =? ckd.
Definition valid_PT (c : bytes) : bool :=
  nonempty c (all_digits c && Nat.eqb (length c) 9 &&
              (pt_prefix1 (nthb 0 c) || pt_prefix2 (nthb 0 c) (nthb 1 c)) && pt_check (digs c)).

(* ---------------- MX: RFC format only.  `Ñ` is the UTF-8 pair C3 91 (ñ = C3 B1). -------- *)
Definition xC3 : byte := byte_of_Z 195.
Definition x91 : byte := byte_of_Z 145.
Fixpoint mx_clean (s : bytes) : bytes :=       (* ToUpper, then strip `[^A-ZÑ&0-9]+` *)
  match s with
  | [] => []
  | b :: r =>
    if beq b 195 then
      match r with
      | b2 :: r2 => if beq b2 145 || beq b2 177 then xC3 :: x91 :: mx_clean r2 else mx_clean r
      | [] => []
      end
    else let u := up b in
         if is_alnum u || beq u 38 then u :: mx_clean r else mx_clean r
  end.
Fixpoint mx_letters (n : nat) (s : bytes) : option bytes :=   (* n characters of [A-ZÑ&] *)
  match n with
  | O => Some s
  | S n' =>
    match s with
    | b :: r =>
      if is_upper b || beq b 38 then mx_letters n' r
      else if beq b 195 then
        match r with
        | b2 :: r2 => if beq b2 145 then mx_letters n' r2 else None
        | [] => None
        end
      else None
    | [] => None
    end
  end.
Definition mx_shape (n : nat) (c : bytes) : bool :=
  match mx_letters n c with
  | Some rest => match_classes (rep 6 is_digit ++ rep 3 is_alnum) rest
  | None => false
  end.
Definition valid_MX (c : bytes) : bool := nonempty c (mx_shape 4 c || mx_shape 3 c).

(* ======================= dispatch by country ======================= *)
Definition is_cc (a : bytes) (s : string) : bool := eqb_bytes a (bs s).

(* Identity.Normalize: the regime's normaliser when the country has a regime, else the generic
   one.  Returns the new country and the new code. *)
Definition normalize (cc code : bytes) : bytes * bytes :=
  if is_cc cc "CH" then (cc, ch_strip_suffix (norm_generic cc [] code))
  else if is_cc cc "FR" then
    match code with
    | [] => (cc, [])
    | _ => let s := norm_generic cc [] code in
           if Nat.eqb (length s) 9 && fr_valid_siren s then (cc, two_digits (fr_key s) ++ s) else (cc, s)
    end
  else if is_cc cc "GB" || is_cc cc "XI" || is_cc cc "XU" then (cc, norm_generic cc [bs "XI"; bs "XU"] code)
  else if is_cc cc "EL" || is_cc cc "GR" then (bs "EL", norm_generic (bs "EL") [bs "GR"] code)
  else if is_cc cc "IN" then (bs "IN", norm_generic cc [bs "IN"] code)
  else if is_cc cc "MX" then (cc, mx_clean code)
  else if is_cc cc "US" then (cc, code)             (* regime without a normaliser *)
  else (cc, norm_generic cc [] code).

Definition regime_valid (cc c : bytes) : bool :=
  if is_cc cc "AE" then valid_AE c
  else if is_cc cc "AT" then valid_AT c
  else if is_cc cc "BE" then valid_BE c
  else if is_cc cc "BR" then valid_BR c
  else if is_cc cc "CH" then valid_CH c
  else if is_cc cc "CO" then valid_CO c
  else if is_cc cc "DE" then valid_DE c
  else if is_cc cc "ES" then valid_ES c
  else if is_cc cc "FR" then valid_FR c
  else if is_cc cc "GB" || is_cc cc "XI" || is_cc cc "XU" then valid_GB c
  else if is_cc cc "EL" || is_cc cc "GR" then valid_EL c
  else if is_cc cc "IN" then valid_IN c
  else if is_cc cc "IT" then valid_IT c
  else if is_cc cc "MX" then valid_MX c
  else if is_cc cc "NL" then valid_NL c
  else if is_cc cc "PL" then valid_PL c
  else if is_cc cc "PT" then valid_PT c
  else true.

(* Identity.Validate: country required; code `^[A-Z0-9]+$` and at most 32 bytes unless empty
   (skipped for MX); then the regime's validator *)
Definition generic_ok (cc c : bytes) : bool :=
  match c with
  | [] => true
  | _ => is_cc cc "MX" || (forallb is_alnum c && Nat.leb (length c) 32)
  end.
(* (the country itself must be a known tax country code: outside the model, the modelled domain
   is the countries dispatched above plus countries without a regime) *)
Definition validate (cc c : bytes) : bool :=
  match cc with
  | [] => false
  | _ => generic_ok cc c && regime_valid cc c
  end.

(* the observable of one case: normalise, validate, normalise again *)
Definition check (cc raw : bytes) : (bytes * bytes) * bool * bytes :=
  let '(cc1, c1) := normalize cc raw in
  let '(_, c2) := normalize cc1 c1 in
  ((cc1, c1), validate cc1 c1, c2).
