(* C13 - regimes with a modulo-97 key: BE (last two digits = 97 - first eight mod 97) and FR
   (two-digit key = (12 + 3 * (SIREN mod 97)) mod 97).  97 is prime and greater than 9, every
   decimal place value is coprime to it: every single-digit error is detected. *)
From Coq Require Import String List ZArith Strings.Byte Bool Lia ZifyBool.
From Verif Require Import Base.Wire TaxId.Common TaxId.Regimes TaxId.CommonProofs TaxId.CheckProofs TaxId.Spec.
Import ListNotations.
Open Scope Z_scope.
Ltac Zify.zify_post_hook ::= Z.div_mod_to_equations.
(* conversion: unfold the model's definitions before integer arithmetic (keeps Qed fast) *)
Local Strategy 100 [Z.add Z.mul Z.sub Z.opp Z.modulo Z.div Z.eqb Z.ltb Z.leb Z.pow dv bZ].

Lemma bZ_byte_of_Z z : 0 <= z < 256 -> bZ (byte_of_Z z) = z.
Proof.
  intro H. unfold byte_of_Z, bZ. rewrite Z.mod_small by lia.
  destruct (Byte.of_N (Z.to_N z)) eqn:E.
  - apply Byte.to_of_N in E. rewrite E. lia.
  - apply Byte.of_N_None_iff in E. lia.
Qed.
Lemma dv_digit_byte d : 0 <= d <= 9 -> dv (digit_byte d) = d.
Proof. intro H. unfold dv, digit_byte. rewrite bZ_byte_of_Z; lia. Qed.

(* ======================= BE ======================= *)
Definition F_BE10 : list (Z -> Z) := map Z.mul [10000000; 1000000; 100000; 10000; 1000; 100; 10; 1; 10; 1].
Definition F_BE9 : list (Z -> Z) := map Z.mul [1000000; 100000; 10000; 1000; 100; 10; 1; 10; 1].

Lemma if_false_elim (a b : bool) : (if a then false else b) = true -> a = false /\ b = true.
Proof. destruct a; [discriminate | auto]. Qed.

Lemma be_lin10 c : List.length c = 10%nat -> valid_BE c = true -> (fsum F_BE10 (digs c) + 0) mod 97 = 0.
Proof.
  intros H V. explode c H. unfold valid_BE, nonempty, be_check in V. split_andb V.
  cbn [List.length Nat.eqb nthb nth sub skipn firstn Nat.sub] in B.
  apply if_false_elim in B as [_ B]. horner_in B.
  cbn [F_BE10 fsum digs map]. clear V H. abstract_dv. lia.
Qed.
Lemma be_lin9 c : List.length c = 9%nat -> valid_BE c = true -> (fsum F_BE9 (digs c) + 0) mod 97 = 0.
Proof.
  intros H V. explode c H. unfold valid_BE, nonempty, be_check in V. split_andb V.
  cbn [List.length Nat.eqb nthb nth sub skipn firstn Nat.sub] in B.
  apply if_false_elim in B as [_ B]. horner_in B.
  change (dv (byte_of_Z 48)) with 0 in B.
  cbn [F_BE9 fsum digs map]. clear V H. abstract_dv. lia.
Qed.

Lemma be_shape c : valid_BE c = true -> c <> [] ->
  (List.length c = 9%nat \/ List.length c = 10%nat) /\ forall i, (i < List.length c)%nat -> is_digit (nthb i c) = true.
Proof.
  unfold valid_BE, nonempty, be_format. destruct c as [|b0 c]; [congruence|]. intros H _. split_andb H.
  apply orb_prop in H as [H|H].
  - pose proof (digits_n_length _ _ H) as L. split; [left; exact L|]. intros i Hi. apply (digits_n_nth 9); [exact H|lia].
  - split_andb H. pose proof (digits_n_length _ _ H) as L. split; [right; exact L|]. intros i Hi. apply (digits_n_nth 10); [exact H|lia].
Qed.

Theorem be_single_digit c i b :
  valid_BE c = true -> c <> [] -> (i < List.length c)%nat -> is_digit b = true -> b <> nthb i c ->
  valid_BE (set_nth i b c) = false.
Proof.
  intros V NE Hi Hb Hne. destruct (be_shape c V NE) as [[L|L] D].
  - apply (detect_single valid_BE F_BE9 (fun _ => 0) 97 9); auto; try lia; try reflexivity.
    + exact be_lin9.
    + rewrite L in Hi. do 9 (destruct i as [|i]; [solve_detect|]). lia.
  - apply (detect_single valid_BE F_BE10 (fun _ => 0) 97 10); auto; try lia; try reflexivity.
    + exact be_lin10.
    + rewrite L in Hi. do 10 (destruct i as [|i]; [solve_detect|]). lia.
Qed.

(* ======================= FR ======================= *)
Definition F_FR : list (Z -> Z) :=
  map Z.mul [-10; -1; 10000000000; 1000000000; 100000000; 10000000; 1000000; 100000; 10000; 1000; 100].

Lemma eqb_bytes_eq a b : eqb_bytes a b = true -> a = b.
Proof.
  revert b; induction a as [|x a IH]; intros b H; destruct b; cbn in H; try discriminate; [reflexivity|].
  apply andb_prop in H as [H1 H2]. apply byte_eqb_eq in H1. subst. f_equal. apply IH; exact H2.
Qed.

Lemma two_digits_eq k a b :
  0 <= k < 100 -> eqb_bytes (two_digits k) [a; b] = true -> dv a = k / 10 /\ dv b = k mod 10.
Proof.
  intros R H. unfold two_digits in H. cbn [eqb_bytes] in H.
  apply andb_prop in H as [H1 H2]. apply andb_prop in H2 as [H2 _].
  apply byte_eqb_eq in H1, H2. subst a b. rewrite !dv_digit_byte by lia. split; reflexivity.
Qed.

Lemma fr_key_unfold s : fr_key s = (num_of s * 100 + 12) mod 97.
Proof. reflexivity. Qed.

Lemma fr_lin c : List.length c = 11%nat -> valid_FR c = true -> (fsum F_FR (digs c) + 12) mod 97 = 0.
Proof.
  intros H V. explode c H. unfold valid_FR, nonempty in V. split_andb V.
  change (firstn 2 [b; b0; b1; b2; b3; b4; b5; b6; b7; b8; b9]) with [b; b0] in B.
  apply two_digits_eq in B; [|rewrite fr_key_unfold; generalize (num_of (skipn 2 [b; b0; b1; b2; b3; b4; b5; b6; b7; b8; b9])); intro; lia]. destruct B as [B0 B1].
  rewrite fr_key_unfold in B0, B1. cbn [skipn] in B0, B1. horner_in B0. horner_in B1.
  cbn [F_FR fsum digs map]. clear V H. abstract_dv. lia.
Qed.

Lemma fr_shape c : valid_FR c = true -> c <> [] -> digits_n 11 c = true.
Proof. unfold valid_FR, nonempty. destruct c; [congruence|]. intros H _. split_andb H. exact H. Qed.

Theorem fr_single_digit c i b :
  valid_FR c = true -> c <> [] -> (i < 11)%nat -> is_digit b = true -> b <> nthb i c ->
  valid_FR (set_nth i b c) = false.
Proof.
  intros V NE Hi Hb Hne. pose proof (fr_shape c V NE) as D.
  apply (detect_single valid_FR F_FR (fun _ => 12) 97 11); auto; try lia; try reflexivity.
  - exact fr_lin.
  - apply digits_n_length in D; exact D.
  - do 11 (destruct i as [|i]; [solve_detect|]). lia.
  - apply (digits_n_nth 11); assumption.
Qed.
