(* C13 - IN (GSTIN): Luhn modulo 36 over the alphabet 0-9A-Z.  A digit contributes v or 2v
   (2v <= 18 < 36), both injective modulo 36 on the digits: every substitution of a digit by
   another digit is detected. *)
From Coq Require Import String List ZArith Strings.Byte Bool Lia ZifyBool.
From Verif Require Import Base.Wire TaxId.Common TaxId.Regimes TaxId.CommonProofs TaxId.CheckProofs TaxId.Spec.
Import ListNotations.
Open Scope Z_scope.
Ltac Zify.zify_post_hook ::= Z.div_mod_to_equations.
Local Strategy 100 [Z.add Z.mul Z.sub Z.opp Z.modulo Z.div Z.eqb Z.ltb Z.leb Z.pow dv bZ].

Definition in_f (m : Z) (v : Z) : Z := (v * m) / 36 + (v * m) mod 36.
Definition F_IN : list (Z -> Z) :=
  [in_f 1; in_f 2; in_f 1; in_f 2; in_f 1; in_f 2; in_f 1; in_f 2; in_f 1; in_f 2; in_f 1; in_f 2; in_f 1; in_f 2; idf].
(* the true total: the Luhn sum of the first 14 characters plus the value of the check character *)
Definition in_T (c : bytes) : Z := in_sum false (firstn 14 c) + in_value (nthb 14 c).
Definition K_IN (c : bytes) : Z := in_T c - fsum F_IN (digs c).

Lemma in_value_digit b : is_digit b = true -> in_value b = dv b.
Proof. unfold in_value. intros ->. reflexivity. Qed.

Lemma in_value_char v : 0 <= v < 36 -> in_value (in_char v) = v.
Proof.
  intro R. assert (E : v = Z.of_nat (Z.to_nat v)) by lia. remember (Z.to_nat v) as n eqn:En.
  assert (Hn : (n < 36)%nat) by lia. clear En R. subst v.
  do 36 (destruct n as [|n]; [vm_compute; reflexivity|]). lia.
Qed.

Lemma in_lin c : List.length c = 15%nat -> valid_IN c = true -> (fsum F_IN (digs c) + K_IN c) mod 36 = 0.
Proof.
  intros L V. unfold K_IN. replace (fsum F_IN (digs c) + (in_T c - fsum F_IN (digs c))) with (in_T c) by ring.
  unfold valid_IN, nonempty in V. destruct c as [|x c]; [discriminate|]. split_andb V.
  unfold in_check in B. split_andb B. apply byte_eqb_eq in B0.
  unfold in_T. rewrite <- B0.
  generalize (in_sum false (firstn 14 (x :: c))). intro s.
  rewrite in_value_char by (apply Z.mod_pos_bound; lia). lia.
Qed.

Lemma in_K_invariant c i b :
  List.length c = 15%nat -> (i < 15)%nat -> is_digit (nthb i c) = true -> is_digit b = true ->
  K_IN (set_nth i b c) = K_IN c.
Proof.
  intros L Hi Ho Hn. unfold K_IN, in_T. explode c L.
  do 15 (destruct i as [|i]; [
    cbn [set_nth nthb nth firstn in_sum negb F_IN fsum digs map] in *;
    rewrite ?(in_value_digit _ Ho), ?(in_value_digit _ Hn); unfold in_f, idf; ring |]).
  lia.
Qed.

Lemma in_f_detects m : m = 1 \/ m = 2 -> detects (in_f m) 36.
Proof. intros [->| ->]; apply detects_b_sound; vm_compute; reflexivity. Qed.
Lemma idf_detects_36 : detects idf 36.
Proof. apply detects_b_sound; vm_compute; reflexivity. Qed.

Theorem in_single_digit c i b :
  valid_IN c = true -> c <> [] -> (i < 15)%nat ->
  is_digit (nthb i c) = true -> is_digit b = true -> b <> nthb i c ->
  valid_IN (set_nth i b c) = false.
Proof.
  intros V NE Hi Ho Hn Hne.
  assert (L : List.length c = 15%nat).
  { unfold valid_IN, nonempty in V. destruct c; [congruence|]. split_andb V. unfold in_check in B. split_andb B.
    apply Nat.eqb_eq in B. exact B. }
  apply (detect_single valid_IN F_IN K_IN 36 15); auto; try lia; try reflexivity.
  - exact in_lin.
  - do 14 (destruct i as [|i]; [apply in_f_detects; auto|]). destruct i as [|i]; [apply idf_detects_36 | lia].
  - apply in_K_invariant; auto.
Qed.
