(* C13 - generic theory of single-digit error detection by position-wise sums modulo m.

   A check of the form  (f_0(d_0) + f_1(d_1) + ... + K) mod m = 0  detects the substitution of
   digit d_i by another digit whenever f_i is injective modulo m on the digits 0..9.  For a
   weighted sum (f_i = multiplication by w_i) this holds when gcd(w_i, m) = 1 and m > 9
   (detects_mul); for Luhn-type schemes the doubling map d |-> 2d (-9 if > 9) is a permutation
   of the digits (luhn_double_permutation, detects_luhn). *)
From Coq Require Import String List ZArith Strings.Byte Bool Lia Znumtheory.
From Verif Require Import Base.Wire TaxId.Common TaxId.CommonProofs.
Import ListNotations.
Open Scope Z_scope.

Definition digit (d : Z) : Prop := 0 <= d <= 9.
Definition detects (f : Z -> Z) (m : Z) : Prop :=
  forall d d', digit d -> digit d' -> d <> d' -> (f d - f d') mod m <> 0.

(* the generic lemma: a weight coprime to the modulus detects every substitution of a digit *)
Lemma detects_mul w m : 9 < m -> Z.gcd w m = 1 -> detects (Z.mul w) m.
Proof.
  intros Hm Hg d d' Hd Hd' Hne H. unfold digit in *.
  apply Z.mod_divide in H; [|lia].
  replace (w * d - w * d') with (w * (d - d')) in H by ring.
  assert (R : rel_prime m w) by (apply Zgcd_1_rel_prime; rewrite Z.gcd_comm; exact Hg).
  apply (Gauss _ _ _ H) in R. destruct R as [k Hk].
  assert (k = 0) by nia. subst k. lia.
Qed.

Lemma detects_opp f m : detects f m -> detects (fun d => - f d) m.
Proof.
  intros H d d' Hd Hd' Hne E. apply (H d d' Hd Hd' Hne).
  destruct (Z.eq_dec m 0) as [->|NZ]; [rewrite Zmod_0_r in *; lia|].
  apply Z.mod_divide in E; [|exact NZ]. apply Z.mod_divide; [exact NZ|].
  destruct E as [k E]. exists (- k). lia.
Qed.

(* decision procedure for a concrete map: all 100 pairs of digits *)
Definition digits10 : list Z := [0; 1; 2; 3; 4; 5; 6; 7; 8; 9].
Definition detects_b (f : Z -> Z) (m : Z) : bool :=
  forallb (fun d => forallb (fun d' => (d =? d') || negb ((f d - f d') mod m =? 0)) digits10) digits10.
Lemma digit_in d : digit d -> In d digits10.
Proof. unfold digit, digits10. intro H. cbn. assert (d = 0 \/ d = 1 \/ d = 2 \/ d = 3 \/ d = 4 \/ d = 5 \/ d = 6 \/ d = 7 \/ d = 8 \/ d = 9) by lia. intuition. Qed.
Lemma detects_b_sound f m : detects_b f m = true -> detects f m.
Proof.
  unfold detects_b. intros H d d' Hd Hd' Hne E.
  rewrite forallb_forall in H. specialize (H d (digit_in d Hd)).
  rewrite forallb_forall in H. specialize (H d' (digit_in d' Hd')).
  apply orb_prop in H as [H|H]; [lia|]. rewrite E in H. discriminate.
Qed.

(* Luhn: doubling (minus 9 above 9) is a permutation of the digits ... *)
Lemma luhn_double_permutation :
  map luhn_double digits10 = [0; 2; 4; 6; 8; 1; 3; 5; 7; 9] /\
  (forall d d', digit d -> digit d' -> luhn_double d = luhn_double d' -> d = d') /\
  (forall d, digit d -> digit (luhn_double d)).
Proof.
  split; [reflexivity|]. unfold luhn_double, digit. split; intros.
  - destruct (9 <? d * 2) eqn:A, (9 <? d' * 2) eqn:B; lia.
  - destruct (9 <? d * 2) eqn:A; lia.
Qed.
(* ... hence injective modulo 10 on the digits *)
Lemma detects_luhn : detects luhn_double 10.
Proof.
  intros d d' Hd Hd' Hne E. destruct luhn_double_permutation as (_ & Inj & Rng).
  pose proof (Rng d Hd). pose proof (Rng d' Hd'). unfold digit in *.
  assert (luhn_double d = luhn_double d').
  { apply Z.mod_divide in E; [|lia]. destruct E as [k E]. assert (k = 0) by lia. lia. }
  apply Hne, Inj; auto.
Qed.
Lemma detects_id10 : detects (fun d => d) 10.
Proof. intros d d' Hd Hd' Hne E. unfold digit in *. apply Z.mod_divide in E; [|lia]. destruct E as [k E]. assert (k = 0) by lia. lia. Qed.

(* ---------------- sums and single replacements ---------------- *)
Definition idf : Z -> Z := fun d => d.
Definition zerof : Z -> Z := fun _ => 0.
Definition nthF (i : nat) (F : list (Z -> Z)) : Z -> Z := nth i F zerof.

Lemma fsum_set_nth F ds i d' :
  (i < List.length F)%nat -> (i < List.length ds)%nat ->
  fsum F (set_nth i d' ds) = fsum F ds + (nthF i F d' - nthF i F (nth i ds 0)).
Proof.
  unfold nthF. revert ds i; induction F as [|f F IH]; intros ds i HF Hd; [cbn in HF; lia|].
  destruct ds as [|d ds]; [cbn in Hd; lia|].
  destruct i as [|i]; cbn [set_nth fsum nth]; [ring|].
  cbn [List.length] in *. rewrite IH by lia. ring.
Qed.

Lemma wsum_fsum ws ds : wsum ws ds = fsum (map Z.mul ws) ds.
Proof. revert ds; induction ws as [|w ws IH]; intro ds; [reflexivity|]. destruct ds; cbn; [reflexivity|]. rewrite IH; reflexivity. Qed.

Lemma set_nth_length {A} i (x : A) l : List.length (set_nth i x l) = List.length l.
Proof. revert i; induction l as [|y l IH]; intro i; [destruct i; reflexivity|]. destruct i; cbn; [reflexivity|]. rewrite IH; reflexivity. Qed.
Lemma set_nth_map {A B} (g : A -> B) i x l : map g (set_nth i x l) = set_nth i (g x) (map g l).
Proof. revert i; induction l as [|y l IH]; intro i; [destruct i; reflexivity|]. destruct i; cbn; [reflexivity|]. rewrite IH; reflexivity. Qed.
Lemma nth_set_nth_same {A} i (x d : A) l : (i < List.length l)%nat -> nth i (set_nth i x l) d = x.
Proof. revert i; induction l as [|y l IH]; intros i H; [cbn in H; lia|]. destruct i; cbn; [reflexivity|]. apply IH. cbn in H; lia. Qed.
Lemma nth_set_nth_other {A} i j (x d : A) l : i <> j -> nth j (set_nth i x l) d = nth j l d.
Proof.
  revert i j; induction l as [|y l IH]; intros i j H; [destruct i; reflexivity|].
  destruct i, j; cbn; try reflexivity; [lia|]. apply IH. lia.
Qed.
Lemma digs_nth i c : (i < List.length c)%nat -> nth i (digs c) 0 = dv (nthb i c).
Proof.
  intro H. unfold digs, nthb. rewrite (nth_indep (map dv c) 0 (dv x00)) by (rewrite map_length; exact H).
  apply map_nth.
Qed.

(* ---------------- the generic detection theorem over codes ---------------- *)
Section Detect.
  Variable valid : bytes -> bool.
  Variable F : list (Z -> Z).
  Variable K : bytes -> Z.       (* contribution of the characters that are not digits under test *)
  Variable m : Z.
  Variable n : nat.
  Hypothesis mpos : 0 < m.
  Hypothesis Flen : List.length F = n.
  Hypothesis lin : forall c, List.length c = n -> valid c = true -> (fsum F (digs c) + K c) mod m = 0.

  Theorem detect_single c i b :
    List.length c = n -> (i < n)%nat -> detects (nthF i F) m -> K (set_nth i b c) = K c ->
    valid c = true -> is_digit (nthb i c) = true -> is_digit b = true -> b <> nthb i c ->
    valid (set_nth i b c) = false.
  Proof.
    intros Hc Hi Hdet HK Hv Hold Hnew Hne.
    destruct (valid (set_nth i b c)) eqn:Hv'; [exfalso | reflexivity].
    pose proof (lin c Hc Hv) as L1.
    assert (Hc' : List.length (set_nth i b c) = n) by (rewrite set_nth_length; exact Hc).
    pose proof (lin _ Hc' Hv') as L2. rewrite HK in L2.
    unfold digs in L2. rewrite set_nth_map in L2. fold (digs c) in L2.
    rewrite fsum_set_nth in L2 by (try rewrite Flen; unfold digs; try rewrite map_length; lia).
    rewrite digs_nth in L2 by lia.
    apply (Hdet (dv b) (dv (nthb i c))).
    - apply dv_digit; exact Hnew.
    - apply dv_digit; exact Hold.
    - intro E. apply Hne, dv_inj; exact E.
    - apply Z.mod_divide in L1; [|lia]. apply Z.mod_divide in L2; [|lia]. apply Z.mod_divide; [lia|].
      destruct L1 as [k1 L1], L2 as [k2 L2]. exists (k2 - k1). lia.
  Qed.
End Detect.

(* ---------------- shapes ---------------- *)
Lemma match_classes_length cls c : match_classes cls c = true -> List.length c = List.length cls.
Proof.
  revert c; induction cls as [|f cls IH]; intros c H; destruct c; cbn in *; try discriminate; [reflexivity|].
  apply andb_prop in H as [_ H]. f_equal. apply IH; exact H.
Qed.
Lemma match_classes_nth cls c i :
  match_classes cls c = true -> (i < List.length cls)%nat -> nth i cls (fun _ => false) (nthb i c) = true.
Proof.
  unfold nthb. revert c i; induction cls as [|f cls IH]; intros c i H Hi; [cbn in Hi; lia|].
  destruct c as [|b c]; [discriminate|]. cbn in H. apply andb_prop in H as [H1 H2].
  destruct i; cbn; [exact H1|]. apply IH; [exact H2 | cbn in Hi; lia].
Qed.
Lemma rep_length {A} n (x : A) : List.length (rep n x) = n.
Proof. apply repeat_length. Qed.
Lemma nth_rep {A} n (x d : A) i : (i < n)%nat -> nth i (rep n x) d = x.
Proof. unfold rep. revert i; induction n; intros i H; [lia|]. destruct i; cbn; [reflexivity|]. apply IHn; lia. Qed.
Lemma digits_n_length n c : digits_n n c = true -> List.length c = n.
Proof. intro H. apply match_classes_length in H. rewrite rep_length in H. exact H. Qed.
Lemma digits_n_nth n c i : digits_n n c = true -> (i < n)%nat -> is_digit (nthb i c) = true.
Proof. intros H Hi. pose proof (match_classes_nth _ _ i H) as P. rewrite rep_length in P. rewrite nth_rep in P by exact Hi. auto. Qed.
Lemma all_digits_nth c i : all_digits c = true -> (i < List.length c)%nat -> is_digit (nthb i c) = true.
Proof.
  unfold all_digits, nthb. revert i; induction c as [|b c IH]; intros i H Hi; [cbn in Hi; lia|].
  cbn in H. apply andb_prop in H as [H1 H2]. destruct i; cbn; [exact H1|]. apply IH; [exact H2 | cbn in Hi; lia].
Qed.

Lemma digits_n_bounds n c : digits_n n c = true -> forall k, (k < n)%nat -> 0 <= dv (nthb k c) <= 9.
Proof. intros D k Hk. apply dv_digit, (digits_n_nth n); assumption. Qed.

(* tactics used by the per-regime files *)
(* instantiates H : forall k, k < n -> P k for k = n-1 ... 0 *)
Ltac pose_upto H n :=
  match n with
  | O => idtac
  | S ?k => pose proof (H k ltac:(lia)); pose_upto H k
  end.
Ltac explode c H :=
  repeat (destruct c as [|?b c]; [discriminate H|]);
  destruct c; [|discriminate H].

(* splits H : a && b && ... = true syntactically (never unfolding definitions) *)
Ltac split_andb H :=
  repeat match type of H with
         | (_ && _ = true) => let H2 := fresh "B" in apply andb_true_iff in H; destruct H as [H H2]
         end.

(* the same, recursively on both sides *)
Ltac split_all H :=
  match type of H with
  | (_ && _ = true) => let H1 := fresh "A" in let H2 := fresh "A" in
      apply andb_true_iff in H; destruct H as [H1 H2]; split_all H1; split_all H2
  | _ => idtac
  end.
(* proves is_digit x && (is_digit y && ...) = true from hypotheses is_digit _ = true *)
Ltac solve_digits :=
  repeat match goal with H : is_digit _ = true |- _ => rewrite H; clear H end; reflexivity.

(* replaces every `dv b` by a fresh integer variable (keeps lia and the kernel away from bytes) *)
Ltac abstract_dv :=
  repeat match goal with
         | H : context [dv ?b] |- _ => let z := fresh "z" in let E := fresh "E" in remember (dv b) as z eqn:E; clear E
         | |- context [dv ?b] => let z := fresh "z" in let E := fresh "E" in remember (dv b) as z eqn:E; clear E
         end.

(* unfolds num_of on explicit lists into Horner form by rewriting with an equation proved by
   reflexivity in the direction the kernel checks quickly (cbn in H can take minutes at Qed) *)
Ltac horner_in H :=
  repeat match type of H with
         | context [num_of ?l] =>
           let r := eval cbn [num_of fold_left] in (num_of l) in
           let E := fresh "E" in
           assert (E : num_of l = r) by reflexivity; rewrite E in H; clear E
         end.
Ltac horner :=
  repeat match goal with
         | |- context [num_of ?l] =>
           let r := eval cbn [num_of fold_left] in (num_of l) in
           let E := fresh "E" in
           assert (E : num_of l = r) by reflexivity; rewrite E; clear E
         end.

Ltac solve_detect :=
  first [ apply detects_mul; [lia | reflexivity]
        | apply detects_luhn | apply detects_id10
        | apply detects_b_sound; vm_compute; reflexivity ].
