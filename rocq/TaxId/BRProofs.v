(* C13 - BR (CNPJ): 14 digits, two check digits, each 0 when the weighted remainder modulo 11
   is 0 or 1, else 11 - remainder.  Arithmetic characterisation and the exact set of undetected
   single-digit errors (both check digits 0 and both sums switching between remainders 0 and 1). *)
From Coq Require Import String List ZArith Strings.Byte Bool Lia ZifyBool.
From Verif Require Import Base.Wire TaxId.Common TaxId.Regimes TaxId.CommonProofs TaxId.CheckProofs TaxId.Spec TaxId.COProofs.
Import ListNotations.
Open Scope Z_scope.
Ltac Zify.zify_post_hook ::= Z.div_mod_to_equations.
(* conversion: unfold the model's definitions before integer arithmetic (keeps Qed fast) *)
Local Strategy 100 [Z.add Z.mul Z.sub Z.opp Z.modulo Z.div Z.eqb Z.ltb Z.leb Z.pow dv bZ].

Definition br_W1 : list Z := [5; 4; 3; 2; 9; 8; 7; 6; 5; 4; 3; 2; 1; 0].
Definition br_W2 : list Z := [6; 5; 4; 3; 2; 9; 8; 7; 6; 5; 4; 3; 2; 1].
Definition br_T1 (c : bytes) : Z := wsum br_W1 (digs c).
Definition br_T2 (c : bytes) : Z := wsum br_W2 (digs c).
Definition br_folded (t d : Z) : Prop := t mod 11 = 0 \/ (t mod 11 = 1 /\ d = 0).

Lemma valid_BR_arith c :
  valid_BR c = true <->
  c = [] \/ (digits_n 14 c = true /\ br_folded (br_T1 c) (dv (nthb 12 c)) /\ br_folded (br_T2 c) (dv (nthb 13 c))).
Proof.
  destruct c as [|b0 c]; [split; auto|]. unfold valid_BR, nonempty, br_verify, br_expected, br_T1, br_T2, br_folded. split.
  - intro V. right. split_andb V. apply Nat.eqb_eq in V.
    pose proof (all_digits_digits_n _ B1) as D. rewrite V in D. split; [exact D|].
    pose proof (digits_n_bounds _ _ D) as Hd.
    cbn [List.length] in V. injection V as L. explode c L. pose_upto Hd 14%nat. clear Hd D B1.
    cbn [br_w1 br_w2 br_W1 br_W2 digs map wsum nthZ nthb nth] in *. cbv zeta in *.
    destruct (_ <? 2) eqn:E1 in B0; destruct (_ <? 2) eqn:E2 in B; split; lia.
  - intros [?|(D & A1 & A2)]; [discriminate|].
    pose proof (digits_n_length _ _ D) as L. rewrite L. rewrite (digits_n_all_digits _ _ D). cbn [Nat.eqb andb].
    pose proof (digits_n_bounds _ _ D) as Hd.
    cbn [List.length] in L. injection L as L. explode c L. pose_upto Hd 14%nat. clear Hd D.
    cbn [br_w1 br_w2 br_W1 br_W2 digs map wsum nthZ nthb nth] in *. cbv zeta.
    apply andb_true_intro; split; [destruct (_ <? 2) eqn:E1 | destruct (_ <? 2) eqn:E2]; lia.
Qed.

Definition br_switch (t x : Z) : Prop := (t mod 11 = 0 /\ x mod 11 = 1) \/ (t mod 11 = 1 /\ x mod 11 = 10).

Theorem br_single_digit_exact c i b :
  valid_BR c = true -> c <> [] -> (i < 14)%nat -> is_digit b = true -> b <> nthb i c ->
  (valid_BR (set_nth i b c) = true <->
   (i < 12)%nat /\ dv (nthb 12 c) = 0 /\ dv (nthb 13 c) = 0 /\
   br_switch (br_T1 c) (nth i br_W1 0 * (dv b - dv (nthb i c))) /\
   br_switch (br_T2 c) (nth i br_W2 0 * (dv b - dv (nthb i c)))).
Proof.
  intros V NE Hi Hb Hne.
  apply valid_BR_arith in V. destruct V as [?|(D & A1 & A2)]; [contradiction|].
  rewrite valid_BR_arith. unfold br_T1, br_T2, br_folded, br_switch in *.
  pose proof (dv_digit _ Hb) as Rb.
  assert (Hne' : dv b <> dv (nthb i c)) by (intro E; apply Hne, dv_inj, E). clear Hne NE.
  pose proof (digits_n_length _ _ D) as L. pose proof (digits_n_bounds _ _ D) as Hd. explode c L.
  pose_upto Hd 14%nat. clear Hd. unfold digits_n in *.
  do 14 (destruct i as [|i]; [
    cbn [set_nth nthb nth digs map wsum rep repeat match_classes br_W1 br_W2] in *;
    split; [ intros [?|(D' & A1' & A2')]; [discriminate|]; lia
           | intros (? & ? & ? & A1' & A2'); right; split; [ split_all D; solve_digits | lia] ] |]).
  lia.
Qed.

Corollary br_single_digit_detected c i b :
  valid_BR c = true -> c <> [] -> (i < 14)%nat -> is_digit b = true -> b <> nthb i c ->
  (dv (nthb 12 c) <> 0 \/ dv (nthb 13 c) <> 0 \/ (12 <= i)%nat) -> valid_BR (set_nth i b c) = false.
Proof.
  intros V NE Hi Hb Hne G. destruct (valid_BR (set_nth i b c)) eqn:E; [|reflexivity].
  apply (br_single_digit_exact c i b V NE Hi Hb Hne) in E. lia.
Qed.

(* the exception is real: 00000047514000 and 20000047514000 are both accepted *)
Lemma br_undetected_witness :
  valid_BR (bs "00000047514000") = true /\ valid_BR (set_nth 0 "2"%byte (bs "00000047514000")) = true.
Proof. vm_compute. split; reflexivity. Qed.
