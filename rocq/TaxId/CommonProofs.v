(* C13 - lemmas about the generic normalisation (tax.NormalizeIdentity): idempotence and its exact
   guard, insensitivity to case / separators / one leading prefix, preservation of digits. *)
From Coq Require Import String List ZArith Strings.Byte Bool Lia.
From Verif Require Import Base.Wire TaxId.Common.
Import ListNotations.
Open Scope Z_scope.

(* ---------------- bytes (finite case analysis over the 256 values) ---------------- *)
Ltac bytecases b := destruct b; vm_compute; intros; try reflexivity; try discriminate; auto.

Lemma up_idem b : up (up b) = up b.
Proof. bytecases b. Qed.
Lemma up_low b : up (low b) = up b.
Proof. bytecases b. Qed.
Lemma alnum_up_fix b : is_alnum b = true -> up b = b.
Proof. bytecases b. Qed.
Lemma digit_up_fix b : is_digit b = true -> up b = b.
Proof. bytecases b. Qed.
Lemma digit_alnum b : is_digit b = true -> is_alnum b = true.
Proof. bytecases b. Qed.
Lemma digit_up b : is_digit (up b) = is_digit b.
Proof. bytecases b. Qed.
Lemma alnum_up_any b : is_alnum (up b) = is_alnum_any b.
Proof. bytecases b. Qed.
Lemma byte_eqb_eq (a b : byte) : Byte.eqb a b = true <-> a = b.
Proof. apply Byte.byte_dec_bl || (split; [apply Byte.byte_dec_bl | apply Byte.byte_dec_lb]). Qed.
Lemma byte_eqb_refl (a : byte) : Byte.eqb a a = true.
Proof. apply byte_eqb_eq; reflexivity. Qed.
Lemma dv_digit b : is_digit b = true -> 0 <= dv b <= 9.
Proof. unfold is_digit, dv. lia. Qed.
Lemma dv_inj a b : dv a = dv b -> a = b.
Proof.
  unfold dv, bZ. intro H. assert (E : Byte.to_N a = Byte.to_N b) by lia.
  pose proof (Byte.of_to_N a) as Ha. pose proof (Byte.of_to_N b) as Hb. rewrite E in Ha. congruence.
Qed.

(* ---------------- prefixes ---------------- *)
Lemma has_prefix_app p s : has_prefix p (p ++ s) = true.
Proof. induction p; cbn; [reflexivity|]. rewrite byte_eqb_refl. exact IHp. Qed.

Lemma has_prefix_split p s : has_prefix p s = true -> s = p ++ skipn (List.length p) s.
Proof.
  revert s; induction p as [|x p IH]; intros s H; cbn in *; [reflexivity|].
  destruct s as [|y s]; [discriminate|]. apply andb_prop in H as [H1 H2].
  apply byte_eqb_eq in H1; subst y. f_equal. apply IH; exact H2.
Qed.

Lemma trim_prefix_app p s : trim_prefix p (p ++ s) = s.
Proof.
  unfold trim_prefix. rewrite has_prefix_app. rewrite skipn_app, skipn_all, Nat.sub_diag. reflexivity.
Qed.

Lemma trim_prefix_none p s : has_prefix p s = false -> trim_prefix p s = s.
Proof. unfold trim_prefix; intros ->; reflexivity. Qed.

Lemma trim_prefix_len p s : (List.length (trim_prefix p s) <= List.length s)%nat.
Proof. unfold trim_prefix. destruct (has_prefix p s); [rewrite skipn_length|]; lia. Qed.

Lemma trim_prefix_fix p s : trim_prefix p s = s <-> (p = [] \/ has_prefix p s = false).
Proof.
  split.
  - intro H. destruct (has_prefix p s) eqn:E; [|right; reflexivity]. left.
    unfold trim_prefix in H; rewrite E in H.
    assert (L : List.length (skipn (List.length p) s) = List.length s) by (rewrite H; reflexivity).
    rewrite skipn_length in L. apply has_prefix_split in E.
    assert (List.length s = List.length p + List.length (skipn (List.length p) s))%nat
      by (rewrite E at 1; rewrite app_length; reflexivity).
    destruct p; [reflexivity|]. cbn [List.length] in *. lia.
  - intros [-> | H]; [reflexivity | apply trim_prefix_none; exact H].
Qed.

Lemma trim_all_len ps s : (List.length (trim_all ps s) <= List.length s)%nat.
Proof.
  unfold trim_all. revert s; induction ps as [|p ps IH]; intro s; cbn; [lia|].
  etransitivity; [apply IH | apply trim_prefix_len].
Qed.

Lemma trim_all_cons p ps s : trim_all (p :: ps) s = trim_all ps (trim_prefix p s).
Proof. reflexivity. Qed.

Definition stable (ps : list bytes) (s : bytes) : Prop :=
  Forall (fun p => p = [] \/ has_prefix p s = false) ps.

Lemma trim_prefix_same_len p s : List.length (trim_prefix p s) = List.length s -> trim_prefix p s = s.
Proof.
  intro L. unfold trim_prefix in *. destruct (has_prefix p s) eqn:E; [|reflexivity].
  rewrite skipn_length in L. apply has_prefix_split in E.
  assert (List.length s = List.length p + List.length (skipn (List.length p) s))%nat
    by (rewrite E at 1; rewrite app_length; reflexivity).
  rewrite skipn_length in H. destruct p; [reflexivity|].
  cbn [List.length] in *.
  destruct s; cbn [List.length] in *; lia.
Qed.

(* the trims change nothing exactly when none of the (non-empty) prefixes is present *)
Lemma trim_all_fix ps s : trim_all ps s = s <-> stable ps s.
Proof.
  revert s; induction ps as [|p ps IH]; intro s.
  - split; [constructor | reflexivity].
  - rewrite trim_all_cons. split.
    + intro H.
      assert (E : trim_prefix p s = s).
      { apply trim_prefix_same_len.
        pose proof (trim_all_len ps (trim_prefix p s)). pose proof (trim_prefix_len p s).
        rewrite H in H0. lia. }
      rewrite E in H. constructor; [apply trim_prefix_fix; exact E | apply IH; exact H].
    + intro H. inversion H as [|? ? H1 H2]; subst.
      apply trim_prefix_fix in H1. rewrite H1. apply IH; exact H2.
Qed.

Lemma trim_prefix_suffix p s : exists q, s = q ++ trim_prefix p s.
Proof.
  unfold trim_prefix. destruct (has_prefix p s) eqn:E.
  - exists p. apply has_prefix_split; exact E.
  - exists []. reflexivity.
Qed.
Lemma trim_all_suffix ps s : exists q, s = q ++ trim_all ps s.
Proof.
  revert s; induction ps as [|p ps IH]; intro s; [exists []; reflexivity|].
  rewrite trim_all_cons. destruct (trim_prefix_suffix p s) as [q1 E1].
  destruct (IH (trim_prefix p s)) as [q2 E2]. exists (q1 ++ q2).
  rewrite <- app_assoc, <- E2. exact E1.
Qed.

Lemma forallb_skipn {A} (f : A -> bool) n l : forallb f l = true -> forallb f (skipn n l) = true.
Proof.
  revert l; induction n; intros l H; [exact H|]. destruct l; [reflexivity|].
  cbn in *. apply andb_prop in H as [_ H]. apply IHn; exact H.
Qed.
Lemma forallb_trim_prefix f p s : forallb f s = true -> forallb f (trim_prefix p s) = true.
Proof. unfold trim_prefix. destruct (has_prefix p s); [apply forallb_skipn | auto]. Qed.
Lemma forallb_trim_all f ps s : forallb f s = true -> forallb f (trim_all ps s) = true.
Proof.
  revert s; induction ps as [|p ps IH]; intros s H; [exact H|].
  rewrite trim_all_cons. apply IH. apply forallb_trim_prefix; exact H.
Qed.

(* ---------------- clean = strip_bad . to_upper ---------------- *)
Lemma clean_app a b : clean (a ++ b) = clean a ++ clean b.
Proof. unfold clean, strip_bad, to_upper. rewrite map_app, filter_app. reflexivity. Qed.

Lemma clean_cons b s : clean (b :: s) = if is_alnum (up b) then up b :: clean s else clean s.
Proof. reflexivity. Qed.

Lemma clean_alnum s : forallb is_alnum (clean s) = true.
Proof.
  induction s as [|b s IH]; [reflexivity|]. rewrite clean_cons.
  destruct (is_alnum (up b)) eqn:E; [cbn; rewrite E; exact IH | exact IH].
Qed.

Lemma clean_fix s : forallb is_alnum s = true -> clean s = s.
Proof.
  induction s as [|b s IH]; [reflexivity|]. cbn [forallb]. intro H; apply andb_prop in H as [H1 H2].
  rewrite clean_cons, (alnum_up_fix _ H1), H1, (IH H2). reflexivity.
Qed.

Lemma clean_idem s : clean (clean s) = clean s.
Proof. apply clean_fix, clean_alnum. Qed.

Lemma clean_upper s : clean (to_upper s) = clean s.
Proof.
  induction s as [|b s IH]; [reflexivity|]. cbn [to_upper map]. fold (to_upper s).
  rewrite !clean_cons, up_idem, IH. reflexivity.
Qed.
Lemma clean_lower s : clean (to_lower s) = clean s.
Proof.
  induction s as [|b s IH]; [reflexivity|]. cbn [to_lower map]. fold (to_lower s).
  rewrite !clean_cons, up_low, IH. reflexivity.
Qed.

(* separators: anything that is not a letter or a digit *)
Definition separators (s : bytes) : Prop := forallb (fun b => negb (is_alnum_any b)) s = true.
Lemma clean_separators s : separators s -> clean s = [].
Proof.
  unfold separators. induction s as [|b s IH]; [reflexivity|]. cbn [forallb]. intro H.
  apply andb_prop in H as [H1 H2]. rewrite clean_cons, alnum_up_any.
  destruct (is_alnum_any b); [discriminate | apply IH; exact H2].
Qed.

Lemma clean_digits s : filter is_digit (clean s) = filter is_digit s.
Proof.
  induction s as [|b s IH]; [reflexivity|]. rewrite clean_cons. cbn [filter].
  destruct (is_digit b) eqn:D.
  - rewrite (digit_up_fix _ D), (digit_alnum _ D). cbn [filter]. rewrite D, IH. reflexivity.
  - destruct (is_alnum (up b)); [cbn [filter]; rewrite digit_up, D|]; exact IH.
Qed.

(* ---------------- norm_generic ---------------- *)
Lemma norm_generic_alnum cc alts s : forallb is_alnum (norm_generic cc alts s) = true.
Proof. unfold norm_generic. apply forallb_trim_all, clean_alnum. Qed.

(* exact guard of idempotence: a second pass changes nothing iff the result carries none of the
   country / alternative prefixes any more *)
Lemma norm_generic_idempotent_iff cc alts s :
  norm_generic cc alts (norm_generic cc alts s) = norm_generic cc alts s
  <-> stable (cc :: alts) (norm_generic cc alts s).
Proof.
  unfold norm_generic at 1. rewrite (clean_fix _ (norm_generic_alnum cc alts s)). apply trim_all_fix.
Qed.

(* single-prefix regimes: the guard on the input is "no doubled country prefix" *)
Lemma has_prefix_app_inv p q s : has_prefix (p ++ q) (p ++ s) = has_prefix q s.
Proof. induction p; cbn; [reflexivity|]. rewrite byte_eqb_refl. exact IHp. Qed.

Lemma norm_generic_single_idempotent_iff cc s :
  cc <> [] ->
  (norm_generic cc [] (norm_generic cc [] s) = norm_generic cc [] s
   <-> has_prefix (cc ++ cc) (clean s) = false).
Proof.
  intro NE. rewrite norm_generic_idempotent_iff. unfold norm_generic, stable.
  cbn [trim_all fold_left]. split.
  - intro H. inversion H as [|? ? [H1|H1] _]; subst; [contradiction|].
    destruct (has_prefix cc (clean s)) eqn:E.
    + apply has_prefix_split in E. rewrite E in H1 |- *. rewrite trim_prefix_app in H1.
      rewrite has_prefix_app_inv. exact H1.
    + destruct (has_prefix (cc ++ cc) (clean s)) eqn:E2; [|reflexivity].
      apply has_prefix_split in E2. rewrite E2, <- app_assoc, has_prefix_app in E. discriminate.
  - intro H. constructor; [|constructor]. right.
    destruct (has_prefix cc (clean s)) eqn:E.
    + apply has_prefix_split in E. rewrite E in H |- *. rewrite trim_prefix_app.
      rewrite has_prefix_app_inv in H. exact H.
    + rewrite trim_prefix_none; assumption.
Qed.

Lemma norm_generic_case cc alts s :
  norm_generic cc alts (to_lower s) = norm_generic cc alts s /\
  norm_generic cc alts (to_upper s) = norm_generic cc alts s.
Proof. unfold norm_generic. rewrite clean_lower, clean_upper. split; reflexivity. Qed.

Lemma norm_generic_separators cc alts a sep b :
  separators sep -> norm_generic cc alts (a ++ sep ++ b) = norm_generic cc alts (a ++ b).
Proof.
  intro H. unfold norm_generic. rewrite !clean_app, (clean_separators _ H). reflexivity.
Qed.

(* one leading country prefix, in any case and with separators around it (clean p = cc) *)
Lemma norm_generic_prefix cc alts p s :
  clean p = cc -> has_prefix cc (clean s) = false ->
  norm_generic cc alts (p ++ s) = norm_generic cc alts s.
Proof.
  intros Hp Hs. unfold norm_generic. rewrite !trim_all_cons, clean_app, Hp, trim_prefix_app.
  rewrite (trim_prefix_none _ _ Hs). reflexivity.
Qed.

(* the result is a suffix of the cleaned input: letters and digits are never reordered/altered *)
Lemma norm_generic_suffix cc alts s : exists q, clean s = q ++ norm_generic cc alts s.
Proof. apply trim_all_suffix. Qed.

Definition no_digits (p : bytes) : Prop := forallb (fun b => negb (is_digit b)) p = true.
Lemma filter_digit_none p : no_digits p -> filter is_digit p = [].
Proof.
  unfold no_digits. induction p as [|b p IH]; [reflexivity|]. cbn [forallb filter]. intro H.
  apply andb_prop in H as [H1 H2]. destruct (is_digit b); [discriminate | apply IH; exact H2].
Qed.
Lemma trim_prefix_digits p s : no_digits p -> filter is_digit (trim_prefix p s) = filter is_digit s.
Proof.
  intro H. unfold trim_prefix. destruct (has_prefix p s) eqn:E; [|reflexivity].
  apply has_prefix_split in E. rewrite E at 2. rewrite filter_app, (filter_digit_none _ H). reflexivity.
Qed.
Lemma trim_all_digits ps s : Forall no_digits ps -> filter is_digit (trim_all ps s) = filter is_digit s.
Proof.
  revert s; induction ps as [|p ps IH]; intros s H; [reflexivity|]. inversion H; subst.
  rewrite trim_all_cons, IH, trim_prefix_digits; auto.
Qed.
(* normalisation never changes the digits of a code (country codes are letters) *)
Lemma norm_generic_digits cc alts s :
  Forall no_digits (cc :: alts) -> filter is_digit (norm_generic cc alts s) = filter is_digit s.
Proof. intro H. unfold norm_generic. rewrite trim_all_digits, clean_digits; auto. Qed.
