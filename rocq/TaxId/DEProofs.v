(* C13 - DE (USt-IdNr): ISO 7064 MOD 11,10.  The running product p stays in 1..10; one step is
   injective in the digit (for a fixed p) and in p (for a fixed digit), so a changed digit gives
   a different final product and a different check digit: every single-digit error is detected. *)
From Coq Require Import String List ZArith Strings.Byte Bool Lia ZifyBool.
From Verif Require Import Base.Wire TaxId.Common TaxId.Regimes TaxId.CommonProofs TaxId.CheckProofs TaxId.Spec.
Import ListNotations.
Open Scope Z_scope.
Ltac Zify.zify_post_hook ::= Z.div_mod_to_equations.
Local Strategy 100 [Z.add Z.mul Z.sub Z.opp Z.modulo Z.div Z.eqb Z.ltb Z.leb Z.pow dv bZ].

Definition prange (p : Z) : Prop := 1 <= p <= 10.

Lemma de_step_range p d : prange p -> digit d -> prange (de_step p d).
Proof. unfold prange, digit, de_step. intros. cbv zeta. destruct (_ =? 0) eqn:E; lia. Qed.
Lemma de_step_inj_d p d d' : prange p -> digit d -> digit d' -> d <> d' -> de_step p d <> de_step p d'.
Proof.
  unfold prange, digit, de_step. intros. cbv zeta.
  destruct ((d + p) mod 10 =? 0) eqn:E1; destruct ((d' + p) mod 10 =? 0) eqn:E2; lia.
Qed.
Lemma de_step_inj_p p p' d : prange p -> prange p' -> digit d -> p <> p' -> de_step p d <> de_step p' d.
Proof.
  unfold prange, digit, de_step. intros. cbv zeta.
  destruct ((d + p) mod 10 =? 0) eqn:E1; destruct ((d + p') mod 10 =? 0) eqn:E2; lia.
Qed.

Lemma de_fold_range ds p : prange p -> Forall digit ds -> prange (fold_left de_step ds p).
Proof.
  revert p; induction ds as [|d ds IH]; intros p Hp Hd; [exact Hp|]. inversion Hd; subst.
  cbn [fold_left]. apply IH; [apply de_step_range|]; assumption.
Qed.
Lemma de_fold_inj ds p p' :
  prange p -> prange p' -> Forall digit ds -> p <> p' -> fold_left de_step ds p <> fold_left de_step ds p'.
Proof.
  revert p p'; induction ds as [|d ds IH]; intros p p' Hp Hp' Hd Hne; [exact Hne|]. inversion Hd; subst.
  cbn [fold_left]. apply IH; try apply de_step_range; auto. apply de_step_inj_p; assumption.
Qed.
Lemma de_fold_change l1 d d' l2 p :
  prange p -> Forall digit l1 -> digit d -> digit d' -> Forall digit l2 -> d <> d' ->
  fold_left de_step (l1 ++ d :: l2) p <> fold_left de_step (l1 ++ d' :: l2) p.
Proof.
  intros Hp H1 Hd Hd' H2 Hne. rewrite !fold_left_app. cbn [fold_left].
  pose proof (de_fold_range l1 p Hp H1) as Hq.
  apply de_fold_inj; try apply de_step_range; auto. apply de_step_inj_d; assumption.
Qed.

(* the check digit determines the final product *)
Definition de_cd (p : Z) : Z := if 11 - p =? 10 then 0 else 11 - p.
Lemma de_cd_inj p p' : prange p -> prange p' -> de_cd p = de_cd p' -> p = p'.
Proof. unfold prange, de_cd. intros. destruct (11 - p =? 10) eqn:E1; destruct (11 - p' =? 10) eqn:E2; lia. Qed.

Lemma de_shape c : valid_DE c = true -> c <> [] -> digits_n 9 c = true.
Proof.
  unfold valid_DE, nonempty. destruct c as [|x c]; [congruence|]. intros H _. split_andb H.
  pose proof (match_classes_length _ _ H) as L. cbn in L. injection L as L. explode c L.
  cbn [rep repeat match_classes] in H. split_all H. unfold digits_n. cbn [rep repeat match_classes].
  assert (is_digit x = true) by (revert A; unfold in_range, is_digit; lia). solve_digits.
Qed.

Lemma de_check_unfold ds : de_check ds = (de_cd (fold_left de_step (firstn 8 ds) 10) =? nthZ 8 ds).
Proof. reflexivity. Qed.

Ltac fdig := repeat (apply Forall_cons; [assumption|]); apply Forall_nil.

Theorem de_single_digit c i b :
  valid_DE c = true -> c <> [] -> (i < 9)%nat -> is_digit b = true -> b <> nthb i c ->
  valid_DE (set_nth i b c) = false.
Proof.
  intros V NE Hi Hb Hne.
  destruct (valid_DE (set_nth i b c)) eqn:V'; [exfalso|reflexivity].
  pose proof (de_shape c V NE) as D.
  assert (NE' : set_nth i b c <> []).
  { intro E. apply (f_equal (@List.length byte)) in E. rewrite set_nth_length in E. destruct c; [congruence|discriminate]. }
  pose proof (de_shape _ V' NE') as D'.
  unfold valid_DE, nonempty in V, V'.
  destruct c as [|x c]; [congruence|].
  destruct (set_nth i b (x :: c)) as [|y c'] eqn:Ec'; [congruence|]. rewrite <- Ec' in *. clear Ec' y c' NE'.
  apply andb_prop in V as [_ V]. apply andb_prop in V' as [_ V'].
  rewrite de_check_unfold in V, V'. apply Z.eqb_eq in V, V'.
  pose proof (dv_digit _ Hb) as Rb.
  assert (Hne' : dv b <> dv (nthb i (x :: c))) by (intro E; apply Hne, dv_inj, E). clear Hne NE.
  pose proof (digits_n_length _ _ D) as L. pose proof (digits_n_bounds _ _ D) as Hd. clear D D'.
  cbn [List.length] in L. injection L as L. explode c L. pose_upto Hd 9%nat. clear Hd.
  assert (P10 : prange 10) by (unfold prange; lia).
  cbn [nthb nth] in *. fold (digit (dv b)) in Rb.
  repeat match goal with H : 0 <= dv ?z <= 9 |- _ => fold (digit (dv z)) in H end.
  destruct i as [|i]; [|destruct i as [|i]; [|destruct i as [|i]; [|destruct i as [|i]; [|destruct i as [|i];
    [|destruct i as [|i]; [|destruct i as [|i]; [|destruct i as [|i]; [|destruct i as [|i]; [|lia]]]]]]]]];
    cbn [set_nth digs map firstn nthZ nth] in *.
  9: { (* the check digit itself *) lia. }
  all: rewrite <- V' in V; apply de_cd_inj in V;
    try (apply de_fold_range; [exact P10 | fdig]).
  - revert V. apply (de_fold_change [] (dv x) (dv b)); auto; fdig.
  - revert V. apply (de_fold_change [dv x] (dv b0) (dv b)); auto; fdig.
  - revert V. apply (de_fold_change [dv x; dv b0] (dv b1) (dv b)); auto; fdig.
  - revert V. apply (de_fold_change [dv x; dv b0; dv b1] (dv b2) (dv b)); auto; fdig.
  - revert V. apply (de_fold_change [dv x; dv b0; dv b1; dv b2] (dv b3) (dv b)); auto; fdig.
  - revert V. apply (de_fold_change [dv x; dv b0; dv b1; dv b2; dv b3] (dv b4) (dv b)); auto; fdig.
  - revert V. apply (de_fold_change [dv x; dv b0; dv b1; dv b2; dv b3; dv b4] (dv b5) (dv b)); auto; fdig.
  - revert V. apply (de_fold_change [dv x; dv b0; dv b1; dv b2; dv b3; dv b4; dv b5] (dv b6) (dv b)); auto; fdig.
Qed.
