(* C13 - CO (NIT): 9 or 10 digits, prime weights from the right, check digit = sum mod 11 when
   that is 0 or 1, else 11 - (sum mod 11): remainders 1 and 10 share the check digit 1.
   Arithmetic characterisation and the exact set of undetected single-digit errors. *)
From Coq Require Import String List ZArith Strings.Byte Bool Lia ZifyBool.
From Verif Require Import Base.Wire TaxId.Common TaxId.Regimes TaxId.CommonProofs TaxId.CheckProofs TaxId.Spec.
Import ListNotations.
Open Scope Z_scope.
Ltac Zify.zify_post_hook ::= Z.div_mod_to_equations.
(* conversion: unfold the model's definitions before integer arithmetic (keeps Qed fast) *)
Local Strategy 100 [Z.add Z.mul Z.sub Z.opp Z.modulo Z.div Z.eqb Z.ltb Z.leb Z.pow dv bZ].

(* weights by position from the left, the check digit has weight 1 *)
Definition co_W (len : nat) : list Z := rev (firstn (len - 1) co_mults) ++ [1].
Definition co_T (c : bytes) : Z := wsum (co_W (List.length c)) (digs c).
Definition co_w (c : bytes) (i : nat) : Z := nth i (co_W (List.length c)) 0.
Definition co_last (c : bytes) : nat := (List.length c - 1)%nat.

Lemma all_digits_digits_n c : all_digits c = true -> digits_n (List.length c) c = true.
Proof.
  unfold all_digits, digits_n, rep. induction c as [|b c IH]; [reflexivity|]. cbn. intro H.
  apply andb_prop in H as [H1 H2]. rewrite H1. apply IH; exact H2.
Qed.
Lemma digits_n_all_digits n c : digits_n n c = true -> all_digits c = true.
Proof.
  unfold all_digits, digits_n, rep. revert c; induction n; intros c H; destruct c; cbn in *; try discriminate; [reflexivity|].
  apply andb_prop in H as [H1 H2]. rewrite H1. apply IHn; exact H2.
Qed.

Lemma valid_CO_arith c :
  valid_CO c = true <->
  c = [] \/ ((List.length c = 9%nat \/ List.length c = 10%nat) /\ all_digits c = true /\
             (co_T c mod 11 = 0 \/ (co_T c mod 11 = 2 /\ dv (nthb (co_last c) c) = 1))).
Proof.
  destruct c as [|b0 c]; [split; auto|]. unfold valid_CO, nonempty, co_check, co_T, co_last. split.
  - intro V. right. split_andb V. apply Nat.leb_le in B0, B1.
    assert (L : List.length (b0 :: c) = 9%nat \/ List.length (b0 :: c) = 10%nat) by lia.
    split; [exact L|]. split; [exact V|]. apply all_digits_digits_n in V.
    destruct L as [L|L]; rewrite L in *; pose proof (digits_n_bounds _ _ V) as Hd;
      cbn [List.length] in L; injection L as L; explode c L;
      [pose_upto Hd 9%nat | pose_upto Hd 10%nat]; clear Hd V;
      cbn [co_W Nat.sub firstn co_mults rev app digs map wsum nthb nth List.length] in *; cbv zeta in B;
      destruct (2 <=? _) eqn:E in B; lia.
  - intros [?|(L & D & A)]; [discriminate|]. rewrite D. cbn [andb]. apply all_digits_digits_n in D.
    destruct L as [L|L]; rewrite L in *; pose proof (digits_n_bounds _ _ D) as Hd;
      cbn [List.length] in L; injection L as L; explode c L;
      [pose_upto Hd 9%nat | pose_upto Hd 10%nat]; clear Hd D;
      cbn [co_W Nat.sub firstn co_mults rev app digs map wsum nthb nth List.length Nat.leb andb] in *; cbv zeta;
      destruct (2 <=? _) eqn:E; lia.
Qed.

Tactic Notation "co_cases" integer(k) hyp(D) :=
  do k (match goal with i : nat |- _ => destruct i as [|i] end; [
    cbn [set_nth nthb nth digs map wsum rep repeat match_classes co_W Nat.sub firstn co_mults rev app List.length forallb] in *;
    split; [ intros [?|(_ & D' & A')]; [discriminate|]; lia
           | intros (? & ? & A'); right; split; [lia|]; split; [ split_all D; solve_digits | lia] ] |]).

Theorem co_single_digit_exact c i b :
  valid_CO c = true -> c <> [] -> (i < List.length c)%nat -> is_digit b = true -> b <> nthb i c ->
  (valid_CO (set_nth i b c) = true <->
   (i < co_last c)%nat /\ dv (nthb (co_last c) c) = 1 /\
   ((co_T c mod 11 = 0 /\ (co_w c i * (dv b - dv (nthb i c))) mod 11 = 2) \/
    (co_T c mod 11 = 2 /\ (co_w c i * (dv b - dv (nthb i c))) mod 11 = 9))).
Proof.
  intros V NE Hi Hb Hne.
  apply valid_CO_arith in V. destruct V as [?|(L & D & A)]; [contradiction|].
  rewrite valid_CO_arith. unfold co_T, co_w, co_last in *. rewrite set_nth_length.
  pose proof (dv_digit _ Hb) as Rb.
  assert (Hne' : dv b <> dv (nthb i c)) by (intro E; apply Hne, dv_inj, E). clear Hne NE.
  pose proof (all_digits_digits_n _ D) as Dn. unfold all_digits in *.
  destruct L as [L|L]; rewrite L in *; pose proof (digits_n_bounds _ _ Dn) as Hd; explode c L;
    [pose_upto Hd 9%nat | pose_upto Hd 10%nat]; clear Hd Dn.
  - co_cases 9 D. lia.
  - co_cases 10 D. lia.
Qed.

Corollary co_single_digit_detected c i b :
  valid_CO c = true -> c <> [] -> (i < List.length c)%nat -> is_digit b = true -> b <> nthb i c ->
  (dv (nthb (co_last c) c) <> 1 \/ i = co_last c) -> valid_CO (set_nth i b c) = false.
Proof.
  intros V NE Hi Hb Hne G. destruct (valid_CO (set_nth i b c)) eqn:E; [|reflexivity].
  apply (co_single_digit_exact c i b V NE Hi Hb Hne) in E. lia.
Qed.
