(* C13 - PT (NIF): arithmetic characterisation, the exact set of undetected single-digit errors
   (remainders 0 and 1 share the check digit 0), equivalence with the declarative rule. *)
From Coq Require Import String List ZArith Strings.Byte Bool Lia ZifyBool.
From Verif Require Import Base.Wire TaxId.Common TaxId.Regimes TaxId.CommonProofs TaxId.CheckProofs TaxId.Spec.
Import ListNotations.
Open Scope Z_scope.
Ltac Zify.zify_post_hook ::= Z.div_mod_to_equations.
(* conversion: unfold the model's definitions before integer arithmetic (keeps Qed fast) *)
Local Strategy 100 [Z.add Z.mul Z.sub Z.opp Z.modulo Z.div Z.eqb Z.ltb Z.leb Z.pow dv bZ].

Definition pt_T (c : bytes) : Z := wsum [9; 8; 7; 6; 5; 4; 3; 2; 1] (digs c).
Definition pt_prefix_ok (c : bytes) : bool := pt_prefix1 (nthb 0 c) || pt_prefix2 (nthb 0 c) (nthb 1 c).

Lemma valid_PT_arith c :
  valid_PT c = true <->
  c = [] \/ (digits_n 9 c = true /\ pt_prefix_ok c = true /\
             (pt_T c mod 11 = 0 \/ (pt_T c mod 11 = 1 /\ dv (nthb 8 c) = 0))).
Proof.
  destruct c as [|b0 c]; [split; auto|].
  split.
  - intro V. right. unfold valid_PT, nonempty in V. split_andb V.
    apply Nat.eqb_eq in B1.
    assert (D : digits_n 9 (b0 :: c) = true).
    { explode c B1. unfold all_digits in V. cbn [forallb] in V. unfold digits_n. cbn. exact V. }
    split; [exact D|]. split; [exact B0|].
    explode c B1. unfold pt_check in B. unfold pt_T.
    cbn [digs map wsum pt_mults nthZ nth nthb] in *.
    pose proof (dv_digit _ (digits_n_nth 9 _ 8 D ltac:(lia))) as R. cbn [nthb nth] in R.
    cbv zeta in B.
    destruct (_ || _) eqn:E in B; lia.
  - intros [?|(D & P & A)]; [discriminate|].
    pose proof (digits_n_length _ _ D) as L. cbn [List.length] in L. injection L as L.
    explode c L. unfold valid_PT, nonempty.
    pose proof (dv_digit _ (digits_n_nth 9 _ 8 D ltac:(lia))) as R. cbn [nthb nth] in R.
    unfold pt_T in A. unfold pt_check. cbn [digs map wsum pt_mults nthZ nth nthb List.length] in *.
    unfold pt_prefix_ok in P. cbn [nthb nth] in P. rewrite P.
    replace (all_digits _) with true by (symmetry; exact D).
    cbn [Nat.eqb andb]. cbv zeta.
    clear P. destruct ((_ mod 11 =? 0) || _) eqn:E; lia.
Qed.

Definition pt_w (i : nat) : Z := nth i [9; 8; 7; 6; 5; 4; 3; 2; 1] 0.

Theorem pt_single_digit_exact c i b :
  valid_PT c = true -> c <> [] -> (i < 9)%nat -> is_digit b = true -> b <> nthb i c ->
  (valid_PT (set_nth i b c) = true <->
   pt_prefix_ok (set_nth i b c) = true /\ (i < 8)%nat /\ dv (nthb 8 c) = 0 /\
   ((pt_T c mod 11 = 0 /\ (pt_w i * (dv b - dv (nthb i c))) mod 11 = 1) \/
    (pt_T c mod 11 = 1 /\ (pt_w i * (dv b - dv (nthb i c))) mod 11 = 10))).
Proof.
  intros V NE Hi Hb Hne.
  apply valid_PT_arith in V. destruct V as [?|(D & P & A)]; [contradiction|].
  pose proof (digits_n_length _ _ D) as L. explode c L.
  assert (Hd : forall k, (k < 9)%nat -> 0 <= dv (nthb k [b0; b1; b2; b3; b4; b5; b6; b7; b8]) <= 9)
    by (intros k Hk; apply dv_digit, (digits_n_nth 9); assumption).
  pose proof (Hd 0%nat ltac:(lia)); pose proof (Hd 1%nat ltac:(lia)); pose proof (Hd 2%nat ltac:(lia));
  pose proof (Hd 3%nat ltac:(lia)); pose proof (Hd 4%nat ltac:(lia)); pose proof (Hd 5%nat ltac:(lia));
  pose proof (Hd 6%nat ltac:(lia)); pose proof (Hd 7%nat ltac:(lia)); pose proof (Hd 8%nat ltac:(lia)).
  pose proof (dv_digit _ Hb) as Rb.
  assert (Hne' : dv b <> dv (nthb i [b0; b1; b2; b3; b4; b5; b6; b7; b8])) by (intro E; apply Hne, dv_inj, E).
  clear Hd Hne NE.
  rewrite valid_PT_arith.
  unfold pt_T, pt_w in *. unfold digits_n in *.
  do 9 (destruct i as [|i]; [
    cbn [set_nth nthb nth digs map wsum rep repeat match_classes] in *;
    split; [ intros [?|(D' & P' & A')]; [discriminate|]; split; [exact P'|]; lia
           | intros (P' & ? & ? & A'); right; split; [ split_all D; solve_digits | split; [exact P'|lia]] ] |]).
  lia.
Qed.

(* every error is detected when the check digit is not 0, and every error in the check digit *)
Corollary pt_single_digit_detected c i b :
  valid_PT c = true -> c <> [] -> (i < 9)%nat -> is_digit b = true -> b <> nthb i c ->
  (dv (nthb 8 c) <> 0 \/ i = 8%nat) -> valid_PT (set_nth i b c) = false.
Proof.
  intros V NE Hi Hb Hne G. destruct (valid_PT (set_nth i b c)) eqn:E; [|reflexivity].
  apply (pt_single_digit_exact c i b V NE Hi Hb Hne) in E. lia.
Qed.

(* the exception is real: 100000010 and 600000010 are both accepted *)
Lemma pt_undetected_witness :
  valid_PT (bs "100000010") = true /\ valid_PT (set_nth 0 "6"%byte (bs "100000010")) = true.
Proof. vm_compute. split; reflexivity. Qed.

(* ---- declarative rule ---- *)
Lemma byte_eqb_sym (a b : byte) : Byte.eqb a b = Byte.eqb b a.
Proof. destruct (Byte.eqb a b) eqn:E; symmetry; [apply byte_eqb_eq in E; subst; apply byte_eqb_refl|].
  destruct (Byte.eqb b a) eqn:E2; [|reflexivity]. apply byte_eqb_eq in E2; subst. rewrite byte_eqb_refl in E. discriminate. Qed.

Lemma starts_intro ps p c : In p ps -> has_prefix (bs p) c = true -> starts_with_one_of ps c.
Proof. intros; exists p; auto. Qed.
Ltac in_list := cbn; repeat first [left; reflexivity | right].

Local Opaque Byte.eqb.
Lemma pt_prefix_ok_spec b0 b1 r :
  pt_prefix_ok (b0 :: b1 :: r) = true <-> starts_with_one_of PT_prefixes (b0 :: b1 :: r).
Proof.
  unfold pt_prefix_ok. cbn [nthb nth]. split.
  - intro H. apply orb_prop in H as [H|H].
    + unfold pt_prefix1, one_of in H. apply existsb_exists in H as (x & Hin & Hx).
      apply byte_eqb_eq in Hx; subst x. cbn in Hin.
      repeat (destruct Hin as [<-|Hin];
              [match goal with |- starts_with_one_of _ (?a :: _) => apply (starts_intro _ (string_of_list_byte [a])) end;
               [in_list | cbn; rewrite ?byte_eqb_refl; reflexivity]|]).
      contradiction.
    + unfold pt_prefix2 in H. apply existsb_exists in H as (x & Hin & Hx). cbn in Hin.
      repeat (destruct Hin as [<-|Hin];
              [cbn in Hx; apply andb_prop in Hx as [X1 X2]; apply andb_prop in X2 as [X2 _];
               apply byte_eqb_eq in X1, X2; subst;
               match goal with |- starts_with_one_of _ (?a :: ?b :: _) => apply (starts_intro _ (string_of_list_byte [a; b])) end;
               [in_list | cbn; rewrite ?byte_eqb_refl; reflexivity]|]).
      contradiction.
  - intros (p & Hin & Hp). cbn in Hin.
    repeat (destruct Hin as [<-|Hin];
            [cbn in Hp; repeat (apply andb_prop in Hp as [?X Hp]);
             repeat match goal with X : Byte.eqb _ _ = true |- _ => apply byte_eqb_eq in X; subst end;
             vm_compute; reflexivity|]).
    contradiction.
Qed.

Local Transparent Byte.eqb.

Theorem valid_PT_iff_spec c : valid_PT c = true <-> c = [] \/ Spec_PT c.
Proof.
  rewrite valid_PT_arith. split; (intros [H|H]; [left; exact H | right]).
  - destruct H as (D & P & A). pose proof (digits_n_length _ _ D) as L. unfold Spec_PT.
    split; [exact L|]. split; [intros i Hi; apply (digits_n_nth 9); [exact D | lia]|].
    pose proof (dv_digit _ (digits_n_nth 9 _ 8 D ltac:(lia))) as R.
    explode c L. split; [apply pt_prefix_ok_spec; exact P|].
    unfold pt_T, dig in *. cbn [digs map wsum nthb nth] in *. cbv zeta. lia.
  - destruct H as (L & Dg & P & A). explode c L.
    assert (D : digits_n 9 [b; b0; b1; b2; b3; b4; b5; b6; b7] = true).
    { unfold digits_n. cbn.
      pose proof (Dg 0%nat ltac:(lia)); pose proof (Dg 1%nat ltac:(lia)); pose proof (Dg 2%nat ltac:(lia));
      pose proof (Dg 3%nat ltac:(lia)); pose proof (Dg 4%nat ltac:(lia)); pose proof (Dg 5%nat ltac:(lia));
      pose proof (Dg 6%nat ltac:(lia)); pose proof (Dg 7%nat ltac:(lia)); pose proof (Dg 8%nat ltac:(lia)).
      unfold digit_at in *. cbn [nthb nth] in *. solve_digits. }
    split; [exact D|]. split; [apply pt_prefix_ok_spec; exact P|].
    pose proof (dv_digit _ (digits_n_nth 9 _ 8 D ltac:(lia))) as R.
    unfold pt_T, dig in *. cbn [digs map wsum nthb nth] in *. cbv zeta in A. lia.
Qed.
