(* C13 - GB (VAT registration number): modulus 97 and modulus 9755 on the same weighted sum.
   A code passes when the total T = 8d1+7d2+6d3+5d4+4d5+3d6+2d7+10d8+d9 is 0 or 42 modulo 97.
   Every weight is coprime to 97, so a single-digit error always moves T; it stays undetected
   only when it moves T between the two accepted remainders, which happens only for the 2nd
   digit changed by 6 and the 3rd digit changed by 7.  Also: equivalence with the declarative
   published rule. *)
From Coq Require Import String List ZArith Strings.Byte Bool Lia ZifyBool.
From Verif Require Import Base.Wire TaxId.Common TaxId.Regimes TaxId.CommonProofs TaxId.CheckProofs TaxId.Spec TaxId.COProofs TaxId.Mod97Proofs TaxId.ESProofs.
Import ListNotations.
Open Scope Z_scope.
Ltac Zify.zify_post_hook ::= Z.div_mod_to_equations.
(* conversion: unfold the model's definitions before integer arithmetic (keeps Qed fast) *)
Local Strategy 100 [Z.add Z.mul Z.sub Z.opp Z.modulo Z.div Z.eqb Z.ltb Z.leb Z.pow dv bZ].

Lemma gb_sub97_closed s : 0 <= s <= 400 ->
  (let cd := gb_sub97 8 s in if cd <? 0 then 0 - cd else cd) = 97 - s mod 97.
Proof.
  intro R. cbn [gb_sub97]. cbv zeta.
  repeat match goal with |- context [if 0 <=? ?x then _ else _] => destruct (0 <=? x) eqn:? end;
    match goal with |- context [if ?x <? 0 then _ else _] => destruct (x <? 0) eqn:? end; lia.
Qed.

Definition gb_W : list Z := [8; 7; 6; 5; 4; 3; 2; 10; 1].
Definition gb_T (c : bytes) : Z := wsum gb_W (digs c).

Lemma gb_commercial_unfold c :
  gb_commercial c =
  (if num_of c =? 0 then false
   else
    let num := num_of (sub 0 7 c) in
    let sum := wsum gb_mults (digs c) in
    let cd := (let cd := gb_sub97 8 sum in if cd <? 0 then 0 - cd else cd) in
    let last := num_of (sub 7 9 c) in
    if (cd =? last) && (num <? 9990001) && ((num <? 100000) || (999999 <? num))
       && ((num <? 9490001) || (9700000 <? num)) then true
    else
      let cd := if 55 <=? cd then cd - 55 else cd + 42 in
      (cd =? last) && (1000000 <? num)).
Proof. reflexivity. Qed.

(* necessary condition: the total is 0 or 42 modulo 97 *)
Lemma gb_commercial_total c :
  digits_n 9 c = true -> gb_commercial c = true -> gb_T c mod 97 = 0 \/ gb_T c mod 97 = 42.
Proof.
  intros D V. rewrite gb_commercial_unfold in V.
  pose proof (digits_n_length _ _ D) as L. pose proof (digits_n_bounds _ _ D) as Hd. explode c L. pose_upto Hd 9%nat. clear Hd D.
  destruct (num_of _ =? 0); [discriminate|]. cbv zeta in V.
  rewrite gb_sub97_closed in V by (cbn [digs map wsum gb_mults nthb nth] in *; lia).
  change (sub 7 9 [b; b0; b1; b2; b3; b4; b5; b6; b7]) with [b6; b7] in V.
  generalize dependent (num_of (sub 0 7 [b; b0; b1; b2; b3; b4; b5; b6; b7])). intros num V.
  horner_in V. unfold gb_T, gb_W. cbn [digs map wsum gb_mults nthb nth] in *.
  abstract_dv.
  destruct (_ && _ && _ && _) eqn:E in V.
  - left. lia.
  - right. destruct (55 <=? _) eqn:E2 in V; lia.
Qed.

Lemma gb_valid_9 c : digits_n 9 c = true -> valid_GB c = gb_commercial c.
Proof.
  intro D. unfold valid_GB, nonempty. rewrite D. cbn [orb].
  pose proof (digits_n_length _ _ D) as L. explode c L.
  unfold digits_n in D. cbn [rep repeat match_classes] in D. split_all D.
  assert (N : forall x, is_digit x = true -> Byte.eqb "G" x = false /\ Byte.eqb "H" x = false) by (intro x; bytecases x).
  destruct (N b A) as [N1 N2].
  change (bs "GD") with ["G"; "D"]%byte. change (bs "HA") with ["H"; "A"]%byte.
  cbn [has_prefix]. rewrite N1, N2. reflexivity.
Qed.

Theorem gb_single_digit_necessary c i b :
  digits_n 9 c = true -> valid_GB c = true -> (i < 9)%nat -> is_digit b = true -> b <> nthb i c ->
  valid_GB (set_nth i b c) = true ->
  (i = 1%nat /\ Z.abs (dv b - dv (nthb i c)) = 6) \/ (i = 2%nat /\ Z.abs (dv b - dv (nthb i c)) = 7).
Proof.
  intros D V Hi Hb Hne V'.
  assert (D' : digits_n 9 (set_nth i b c) = true).
  { unfold digits_n. rewrite match_classes_set_nth_digits; auto. apply (digits_n_nth 9); assumption. }
  rewrite gb_valid_9 in V, V' by assumption.
  apply gb_commercial_total in V; [|assumption]. apply gb_commercial_total in V'; [|assumption].
  pose proof (dv_digit _ Hb) as Rb.
  assert (Hne' : dv b <> dv (nthb i c)) by (intro E; apply Hne, dv_inj, E). clear Hne D'.
  pose proof (digits_n_length _ _ D) as L. pose proof (digits_n_bounds _ _ D) as Hd. explode c L. pose_upto Hd 9%nat. clear Hd D.
  unfold gb_T, gb_W in *.
  do 9 (destruct i as [|i]; [cbn [set_nth nthb nth digs map wsum] in *; abstract_dv; lia|]). lia.
Qed.

Corollary gb_single_digit_detected c i b :
  digits_n 9 c = true -> valid_GB c = true -> (i < 9)%nat -> is_digit b = true -> b <> nthb i c ->
  ~ ((i = 1%nat /\ Z.abs (dv b - dv (nthb i c)) = 6) \/ (i = 2%nat /\ Z.abs (dv b - dv (nthb i c)) = 7)) ->
  valid_GB (set_nth i b c) = false.
Proof.
  intros D V Hi Hb Hne N. destruct (valid_GB (set_nth i b c)) eqn:E; [|reflexivity].
  exfalso. apply N. apply (gb_single_digit_necessary c i b); assumption.
Qed.

(* both exceptions occur: 360837741/367837741 (3rd digit +7) and 812865718/872865718 (2nd digit +6) *)
Lemma gb_undetected_witness :
  valid_GB (bs "360837741") = true /\ valid_GB (set_nth 2 "7"%byte (bs "360837741")) = true /\
  valid_GB (bs "812865718") = true /\ valid_GB (set_nth 1 "7"%byte (bs "812865718")) = true.
Proof. vm_compute. repeat split; reflexivity. Qed.

(* ---- declarative rule ---- *)
Lemma digits_between_of_digits_n n c : digits_n n c = true -> digits_between c 0 n.
Proof. intros D i Hi. apply (digits_n_nth n); [exact D | lia]. Qed.
Lemma digits_n_of_between9 c : List.length c = 9%nat -> digits_between c 0 9 -> digits_n 9 c = true.
Proof.
  intros L Dg. explode c L. unfold digits_n. cbn. pose_upto Dg 9%nat. unfold digit_at in *. cbn [nthb nth] in *. solve_digits.
Qed.

Theorem gb_commercial_iff_spec_9 c :
  List.length c = 9%nat ->
  (digits_n 9 c = true /\ gb_commercial c = true <-> Spec_GB_commercial c).
Proof.
  intro L. unfold Spec_GB_commercial, Spec_GB_commercial_with. rewrite L. split.
  - intros (D & V). split; [left; reflexivity|]. split; [apply digits_between_of_digits_n; exact D|].
    rewrite gb_commercial_unfold in V. pose proof (digits_n_bounds _ _ D) as Hd. explode c L. pose_upto Hd 9%nat. clear Hd D.
    destruct (num_of _ =? 0) eqn:Z0; [discriminate|]. split; [lia|]. cbv zeta in V.
    rewrite gb_sub97_closed in V by (cbn [digs map wsum gb_mults nthb nth] in *; lia).
    unfold number, gb_old_range, gb_9755, gb_check_number, gb_weighted, dig.
    cbn [digs map wsum gb_mults nthb nth] in *.
    generalize dependent (num_of (sub 0 7 [b; b0; b1; b2; b3; b4; b5; b6; b7])). intros num V.
    generalize dependent (num_of (sub 7 9 [b; b0; b1; b2; b3; b4; b5; b6; b7])). intros last V.
    clear Z0. abstract_dv.
    destruct (_ && _ && _ && _) eqn:E in V; [left; lia|right].
    destruct (55 <=? _) eqn:E2 in V;
      match goal with |- context [if ?g then _ else _] => destruct g eqn:E3 end; lia.
  - intros (_ & Dg & NZ & A). pose proof (digits_n_of_between9 c L Dg) as D. split; [exact D|].
    rewrite gb_commercial_unfold. pose proof (digits_n_bounds _ _ D) as Hd. explode c L. pose_upto Hd 9%nat. clear Hd D Dg.
    destruct (num_of _ =? 0) eqn:Z0; [lia|]. cbv zeta.
    rewrite gb_sub97_closed by (cbn [digs map wsum gb_mults nthb nth] in *; lia).
    unfold number, gb_old_range, gb_9755, gb_check_number, gb_weighted, dig in A.
    cbn [digs map wsum gb_mults nthb nth] in *.
    generalize dependent (num_of (sub 0 7 [b; b0; b1; b2; b3; b4; b5; b6; b7])). intros num A.
    generalize dependent (num_of (sub 7 9 [b; b0; b1; b2; b3; b4; b5; b6; b7])). intros last A.
    clear Z0 NZ. abstract_dv.
    destruct (_ && _ && _ && _) eqn:E; [reflexivity|].
    destruct A as [A|A]; [lia|].
    match type of A with context [if ?g then _ else _] => destruct g eqn:E2 end;
      match goal with |- context [if ?g then _ else _] => destruct g eqn:E3 end; lia.
Qed.

