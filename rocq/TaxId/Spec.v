(* C13 - declarative statements of the published national rules (definitions only, no proofs).
   `dig c i` is the value of the i-th character read as a decimal digit.  These are written by
   hand from the published descriptions (and the regime's own comments), independently of the
   control flow of the validators. *)
From Coq Require Import String List ZArith Strings.Byte Bool.
From Verif Require Import Base.Wire TaxId.Common.
Import ListNotations.
Open Scope Z_scope.

Definition dig (c : bytes) (i : nat) : Z := dv (nthb i c).
Definition digit_at (c : bytes) (i : nat) : Prop := is_digit (nthb i c) = true.
Definition digits_between (c : bytes) (lo hi : nat) : Prop :=     (* positions lo <= i < hi *)
  forall i, (lo <= i < hi)%nat -> digit_at c i.
Definition starts_with_one_of (ps : list string) (c : bytes) : Prop :=
  exists p, In p ps /\ has_prefix (bs p) c = true.

(* PL - NIP: 10 digits, first digit not 0, 2nd and 3rd not both 0; weights 6 5 7 2 3 4 5 6 7;
   the sum modulo 11 is the last digit (a remainder of 10 therefore never validates) *)
Definition Spec_PL (c : bytes) : Prop :=
  List.length c = 10%nat /\ digits_between c 0 10 /\
  dig c 0 <> 0 /\ (dig c 1 <> 0 \/ dig c 2 <> 0) /\
  (6 * dig c 0 + 5 * dig c 1 + 7 * dig c 2 + 2 * dig c 3 + 3 * dig c 4 + 4 * dig c 5 +
   5 * dig c 6 + 6 * dig c 7 + 7 * dig c 8) mod 11 = dig c 9.

(* CH - UID/MWST: "E" and 9 digits; weights 5 4 3 2 7 6 5 4; check digit = 11 - (sum mod 11),
   where 11 is written 0 and 10 means the number is not issued *)
Definition Spec_CH (c : bytes) : Prop :=
  List.length c = 10%nat /\ nthb 0 c = "E"%byte /\ digits_between c 1 10 /\
  let r := (5 * dig c 1 + 4 * dig c 2 + 3 * dig c 3 + 2 * dig c 4 + 7 * dig c 5 + 6 * dig c 6 +
            5 * dig c 7 + 4 * dig c 8) mod 11 in
  (r = 0 /\ dig c 9 = 0) \/ (2 <= r /\ dig c 9 = 11 - r).

(* PT - NIF: 9 digits, leading digits from the table of taxpayer classes; weights 9..2;
   check digit 0 when the remainder modulo 11 is 0 or 1, else 11 - remainder *)
Definition PT_prefixes : list string :=
  ["1"; "2"; "3"; "5"; "6"; "8"; "45"; "70"; "71"; "72"; "74"; "75"; "77"; "78"; "79"; "90"; "91"; "98"; "99"]%string.
Definition Spec_PT (c : bytes) : Prop :=
  List.length c = 9%nat /\ digits_between c 0 9 /\ starts_with_one_of PT_prefixes c /\
  let r := (9 * dig c 0 + 8 * dig c 1 + 7 * dig c 2 + 6 * dig c 3 + 5 * dig c 4 + 4 * dig c 5 +
            3 * dig c 6 + 2 * dig c 7) mod 11 in
  (r < 2 /\ dig c 8 = 0) \/ (2 <= r /\ dig c 8 = 11 - r).

(* EL - AFM: 9 digits; weights 2^8 .. 2^1; check digit = (sum mod 11) mod 10 *)
Definition Spec_EL (c : bytes) : Prop :=
  List.length c = 9%nat /\ digits_between c 0 9 /\
  ((256 * dig c 0 + 128 * dig c 1 + 64 * dig c 2 + 32 * dig c 3 + 16 * dig c 4 + 8 * dig c 5 +
    4 * dig c 6 + 2 * dig c 7) mod 11) mod 10 = dig c 8.

(* IT - Partita IVA: 11 digits, Luhn: digits in even positions (2nd, 4th, ...) are doubled and
   9 subtracted when above 9; the total including the last digit is a multiple of 10 *)
Definition luhn2 (d : Z) : Z := if 5 <=? d then 2 * d - 9 else 2 * d.
Definition Spec_IT (c : bytes) : Prop :=
  List.length c = 11%nat /\ digits_between c 0 11 /\
  (dig c 0 + luhn2 (dig c 1) + dig c 2 + luhn2 (dig c 3) + dig c 4 + luhn2 (dig c 5) + dig c 6 +
   luhn2 (dig c 7) + dig c 8 + luhn2 (dig c 9) + dig c 10) mod 10 = 0.

(* BE - enterprise number: 10 digits starting with 0 (or the same without the leading 0), the
   digit after it not 0; the last two digits are 97 - (first eight digits as a number mod 97) *)
Definition number (c : bytes) (lo hi : nat) : Z := num_of (sub lo hi c).
Definition Spec_BE10 (c : bytes) : Prop :=
  List.length c = 10%nat /\ digits_between c 0 10 /\ dig c 0 = 0 /\ dig c 1 <> 0 /\
  number c 8 10 = 97 - (number c 0 8) mod 97.
Definition Spec_BE (c : bytes) : Prop :=
  Spec_BE10 c \/ (List.length c = 9%nat /\ Spec_BE10 ("0"%byte :: c)).

(* FR - TVA intracommunautaire: 2-digit key and the 9-digit SIREN;
   key = (12 + 3 * (SIREN mod 97)) mod 97 *)
Definition Spec_FR (c : bytes) : Prop :=
  List.length c = 11%nat /\ digits_between c 0 11 /\
  number c 0 2 = (12 + 3 * ((number c 2 11) mod 97)) mod 97.

(* NL - btw-id: 9 digits, "B", 2 digits.  Accepted when the 9 digits pass the 11-test
   (9*d1 + 8*d2 + ... + 2*d8 leaves remainder d9 modulo 11 - a remainder of 10 has no digit,
   such numbers do not exist) or, for the identification numbers issued since 2020, when
   NL + the 12 characters read as an IBAN-like number (N=23, L=21, B=11) is 1 modulo 97 *)
Definition nl_shape (c : bytes) : Prop :=
  List.length c = 12%nat /\ digits_between c 0 9 /\ nthb 9 c = "B"%byte /\ digits_between c 10 12.
Definition nl_weighted (c : bytes) : Z :=
  9 * dig c 0 + 8 * dig c 1 + 7 * dig c 2 + 6 * dig c 3 + 5 * dig c 4 + 4 * dig c 5 + 3 * dig c 6 + 2 * dig c 7.
Definition nl_eleven_test (c : bytes) : Prop := (nl_weighted c) mod 11 = dig c 8.
Definition nl_97_test (c : bytes) : Prop :=
  (((2321 * 10 ^ 9 + number c 0 9) * 100 + 11) * 100 + number c 10 12) mod 97 = 1.
Definition Spec_NL (c : bytes) : Prop := nl_shape c /\ (nl_eleven_test c \/ nl_97_test c).
(* what the implementation accepts in addition: remainder 10 with check digit 0 *)
Definition nl_remainder_10_as_0 (c : bytes) : Prop := (nl_weighted c) mod 11 = 10 /\ dig c 8 = 0.

(* GB - VAT registration number: 9 digits (or 12, the last 3 a branch identifier);
   weights 8..2 on the first seven; subtract 97 from the sum until the result is negative: its
   absolute value (01..97) is the 2-digit check number (modulus 97); for numbers issued since
   2010 (modulus 9755) the check number is that value less 55, or plus 42 when it is below 55.
   GD000-GD499 government departments, HA500-HA999 health authorities. *)
Definition gb_weighted (c : bytes) : Z :=
  8 * dig c 0 + 7 * dig c 1 + 6 * dig c 2 + 5 * dig c 3 + 4 * dig c 4 + 3 * dig c 5 + 2 * dig c 6.
Definition gb_old_range (n : Z) : Prop := n < 9990001 /\ (n < 100000 \/ 999999 < n) /\ (n < 9490001 \/ 9700000 < n).
Definition gb_check_number (c : bytes) : Z := 97 - (gb_weighted c) mod 97.        (* 1..97 *)
Definition gb_9755 (cn : Z) : Z := if 55 <=? cn then cn - 55 else cn + 42.
Definition Spec_GB_commercial_with (check_number : bytes -> Z) (c : bytes) : Prop :=
  (List.length c = 9%nat \/ List.length c = 12%nat) /\ digits_between c 0 (List.length c) /\
  num_of c <> 0 /\
  ((number c 7 9 = check_number c /\ gb_old_range (number c 0 7)) \/
   (number c 7 9 = gb_9755 (check_number c) /\ 1000000 < number c 0 7)).
Definition Spec_GB_commercial : bytes -> Prop := Spec_GB_commercial_with gb_check_number.
(* what the implementation computes instead of gb_check_number: 0 when the sum is a multiple of 97 *)
Definition gb_check_number_impl (c : bytes) : Z := (97 - (gb_weighted c) mod 97) mod 97.
