(* C13 - declarative statements of the published national rules (definitions only, no proofs).
   `dig c i` is the value of the i-th character read as a decimal digit.  These are written by
   hand from the published descriptions (and the regime's own comments), independently of the
   control flow of the validators. *)
From Coq Require Import String List ZArith Strings.Byte Bool.
From Verif Require Import Base.Wire TaxId.Common.
Import ListNotations.
Open Scope Z_scope.

Definition dig (c : bytes) (i : nat) : Z := dv (nthb i c).
Definition digit_at (c : bytes) (i : nat) : Prop := is_digit (nthb i c) = true.
Definition digits_between (c : bytes) (lo hi : nat) : Prop :=     (* positions lo <= i < hi *)
  forall i, (lo <= i < hi)%nat -> digit_at c i.
Definition starts_with_one_of (ps : list string) (c : bytes) : Prop :=
  exists p, In p ps /\ has_prefix (bs p) c = true.

(* PL - NIP: 10 digits, first digit not 0, 2nd and 3rd not both 0; weights 6 5 7 2 3 4 5 6 7;
   the sum modulo 11 is the last digit (a remainder of 10 therefore never validates) *)
Definition Spec_PL (c : bytes) : Prop :=
  List.length c = 10%nat /\ digits_between c 0 10 /\
  dig c 0 <> 0 /\ (dig c 1 <> 0 \/ dig c 2 <> 0) /\
  (6 * dig c 0 + 5 * dig c 1 + 7 * dig c 2 + 2 * dig c 3 + 3 * dig c 4 + 4 * dig c 5 +
   5 * dig c 6 + 6 * dig c 7 + 7 * dig c 8) mod 11 = dig c 9.

(* CH - UID/MWST: "E" and 9 digits; weights 5 4 3 2 7 6 5 4; check digit = 11 - (sum mod 11),
   where 11 is written 0 and 10 means the number is not issued *)
Definition Spec_CH (c : bytes) : Prop :=
  List.length c = 10%nat /\ nthb 0 c = "E"%byte /\ digits_between c 1 10 /\
  let r := (5 * dig c 1 + 4 * dig c 2 + 3 * dig c 3 + 2 * dig c 4 + 7 * dig c 5 + 6 * dig c 6 +
            5 * dig c 7 + 4 * dig c 8) mod 11 in
  (r = 0 /\ dig c 9 = 0) \/ (2 <= r /\ dig c 9 = 11 - r).

(* PT - NIF: 9 digits, leading digits from the table of taxpayer classes; weights 9..2;
   check digit 0 when the remainder modulo 11 is 0 or 1, else 11 - remainder *)
Definition PT_prefixes : list string :=
  ["1"; "2"; "3"; "5"; "6"; "8"; "45"; "70"; "71"; "72"; "74"; "75"; "77"; "78"; "79"; "90"; "91"; "98"; "99"]%string.
Definition Spec_PT (c : bytes) : Prop :=
  List.length c = 9%nat /\ digits_between c 0 9 /\ starts_with_one_of PT_prefixes c /\
  let r := (9 * dig c 0 + 8 * dig c 1 + 7 * dig c 2 + 6 * dig c 3 + 5 * dig c 4 + 4 * dig c 5 +
            3 * dig c 6 + 2 * dig c 7) mod 11 in
  (r < 2 /\ dig c 8 = 0) \/ (2 <= r /\ dig c 8 = 11 - r).

(* EL - AFM: 9 digits; weights 2^8 .. 2^1; check digit = (sum mod 11) mod 10 *)
Definition Spec_EL (c : bytes) : Prop :=
  List.length c = 9%nat /\ digits_between c 0 9 /\
  ((256 * dig c 0 + 128 * dig c 1 + 64 * dig c 2 + 32 * dig c 3 + 16 * dig c 4 + 8 * dig c 5 +
    4 * dig c 6 + 2 * dig c 7) mod 11) mod 10 = dig c 8.

(* IT - Partita IVA: 11 digits, Luhn: digits in even positions (2nd, 4th, ...) are doubled and
   9 subtracted when above 9; the total including the last digit is a multiple of 10 *)
Definition luhn2 (d : Z) : Z := if 5 <=? d then 2 * d - 9 else 2 * d.
Definition Spec_IT (c : bytes) : Prop :=
  List.length c = 11%nat /\ digits_between c 0 11 /\
  (dig c 0 + luhn2 (dig c 1) + dig c 2 + luhn2 (dig c 3) + dig c 4 + luhn2 (dig c 5) + dig c 6 +
   luhn2 (dig c 7) + dig c 8 + luhn2 (dig c 9) + dig c 10) mod 10 = 0.

(* BE - enterprise number: 10 digits starting with 0 or (numbers issued since 2023) with 1, or a
   number starting with 0 written without that 0; a number starting with 0 does not continue with
   another 0; the last two digits are 97 - (first eight digits as a number mod 97) *)
Definition number (c : bytes) (lo hi : nat) : Z := num_of (sub lo hi c).
Definition Spec_BE10 (c : bytes) : Prop :=
  List.length c = 10%nat /\ digits_between c 0 10 /\
  ((dig c 0 = 0 /\ dig c 1 <> 0) \/ dig c 0 = 1) /\
  number c 8 10 = 97 - (number c 0 8) mod 97.
Definition Spec_BE (c : bytes) : Prop :=
  Spec_BE10 c \/ (List.length c = 9%nat /\ Spec_BE10 ("0"%byte :: c)).

(* FR - TVA intracommunautaire: 2-digit key and the 9-digit SIREN;
   key = (12 + 3 * (SIREN mod 97)) mod 97 *)
Definition Spec_FR (c : bytes) : Prop :=
  List.length c = 11%nat /\ digits_between c 0 11 /\
  number c 0 2 = (12 + 3 * ((number c 2 11) mod 97)) mod 97.

(* NL - btw-id: 9 digits, "B", 2 digits.  Accepted when the 9 digits pass the 11-test
   (9*d1 + 8*d2 + ... + 2*d8 leaves remainder d9 modulo 11 - a remainder of 10 has no digit,
   such numbers do not exist) or, for the identification numbers issued since 2020, when
   NL + the 12 characters read as an IBAN-like number (N=23, L=21, B=11) is 1 modulo 97 *)
Definition nl_shape (c : bytes) : Prop :=
  List.length c = 12%nat /\ digits_between c 0 9 /\ nthb 9 c = "B"%byte /\ digits_between c 10 12.
Definition nl_weighted (c : bytes) : Z :=
  9 * dig c 0 + 8 * dig c 1 + 7 * dig c 2 + 6 * dig c 3 + 5 * dig c 4 + 4 * dig c 5 + 3 * dig c 6 + 2 * dig c 7.
Definition nl_eleven_test (c : bytes) : Prop := (nl_weighted c) mod 11 = dig c 8.
Definition nl_97_test (c : bytes) : Prop :=
  (((2321 * 10 ^ 9 + number c 0 9) * 100 + 11) * 100 + number c 10 12) mod 97 = 1.
Definition Spec_NL (c : bytes) : Prop := nl_shape c /\ (nl_eleven_test c \/ nl_97_test c).
(* what the implementation accepts in addition: remainder 10 with check digit 0 *)
Definition nl_remainder_10_as_0 (c : bytes) : Prop := (nl_weighted c) mod 11 = 10 /\ dig c 8 = 0.

(* GB - VAT registration number: 9 digits (or 12, the last 3 a branch identifier);
   weights 8..2 on the first seven; subtract 97 from the sum until the result is negative: its
   absolute value (01..97) is the 2-digit check number (modulus 97); for numbers issued since
   2010 (modulus 9755) the check number is that value less 55, or plus 42 when it is below 55.
   GD000-GD499 government departments, HA500-HA999 health authorities. *)
Definition gb_weighted (c : bytes) : Z :=
  8 * dig c 0 + 7 * dig c 1 + 6 * dig c 2 + 5 * dig c 3 + 4 * dig c 4 + 3 * dig c 5 + 2 * dig c 6.
Definition gb_old_range (n : Z) : Prop := n < 9990001 /\ (n < 100000 \/ 999999 < n) /\ (n < 9490001 \/ 9700000 < n).
Definition gb_check_number (c : bytes) : Z := 97 - (gb_weighted c) mod 97.        (* 1..97 *)
Definition gb_9755 (cn : Z) : Z := if 55 <=? cn then cn - 55 else cn + 42.
Definition Spec_GB_commercial_with (check_number : bytes -> Z) (c : bytes) : Prop :=
  (List.length c = 9%nat \/ List.length c = 12%nat) /\ digits_between c 0 (List.length c) /\
  num_of c <> 0 /\
  ((number c 7 9 = check_number c /\ gb_old_range (number c 0 7)) \/
   (number c 7 9 = gb_9755 (check_number c) /\ 1000000 < number c 0 7)).
Definition Spec_GB_commercial : bytes -> Prop := Spec_GB_commercial_with gb_check_number.
(* what the implementation computes instead of gb_check_number: 0 when the sum is a multiple of 97 *)
Definition gb_check_number_impl (c : bytes) : Z := (97 - (gb_weighted c) mod 97) mod 97.

(* ================= AT, DE, CO, BR, ES, IN, AE, MX, GB (all forms) ================= *)

(* AT - UID-Nummer: "U" and 8 digits C1..C8.  The digits in even places (C2, C4, C6) are doubled
   and replaced by the sum of the digits of the product, S = C1 + q(C2) + C3 + q(C4) + C5 + q(C6) + C7;
   the check digit is C8 = (96 - S) mod 10 *)
Definition digit_sum_of_double (d : Z) : Z := d / 5 + (2 * d) mod 10.
Definition Spec_AT (c : bytes) : Prop :=
  List.length c = 9%nat /\ nthb 0 c = "U"%byte /\ digits_between c 1 9 /\
  dig c 8 = (96 - (dig c 1 + digit_sum_of_double (dig c 2) + dig c 3 + digit_sum_of_double (dig c 4) +
                   dig c 5 + digit_sum_of_double (dig c 6) + dig c 7)) mod 10.

(* DE - USt-IdNr.: 9 digits, the first not 0; ISO 7064 MOD 11,10 (hybrid system).  Starting from
   the product P = 10, every digit a takes P to P' = 2 * S mod 11, where S is (P + a) mod 10
   written in 1..10 (10 instead of 0).  After the first eight digits, the ninth is the check digit:
   (P + a9) mod 10 = 1 *)
Definition iso7064_11_10_next (p a p' : Z) : Prop :=
  exists s, 1 <= s <= 10 /\ (s - (p + a)) mod 10 = 0 /\ p' = (2 * s) mod 11.
Fixpoint iso7064_11_10_chain (p : Z) (ds : list Z) (q : Z) : Prop :=
  match ds with
  | [] => q = p
  | a :: r => exists p', iso7064_11_10_next p a p' /\ iso7064_11_10_chain p' r q
  end.
Definition Spec_DE (c : bytes) : Prop :=
  List.length c = 9%nat /\ digits_between c 0 9 /\ dig c 0 <> 0 /\
  exists p, iso7064_11_10_chain 10 [dig c 0; dig c 1; dig c 2; dig c 3; dig c 4; dig c 5; dig c 6; dig c 7] p /\
            (p + dig c 8) mod 10 = 1.

(* CO - NIT with its verification digit (DV) as the last digit: 9 or 10 digits in all.  The digits
   before the DV are weighted from the right by 3 7 13 17 19 23 29 37 41 ...; with r the sum
   modulo 11 the DV is r when r is 0 or 1, else 11 - r *)
Definition co_dv_rule (r dv_ : Z) : Prop := (r < 2 /\ dv_ = r) \/ (2 <= r /\ dv_ = 11 - r).
Definition Spec_CO (c : bytes) : Prop :=
  digits_between c 0 (List.length c) /\
  ((List.length c = 9%nat /\
    co_dv_rule ((37 * dig c 0 + 29 * dig c 1 + 23 * dig c 2 + 19 * dig c 3 + 17 * dig c 4 + 13 * dig c 5 +
                 7 * dig c 6 + 3 * dig c 7) mod 11) (dig c 8)) \/
   (List.length c = 10%nat /\
    co_dv_rule ((41 * dig c 0 + 37 * dig c 1 + 29 * dig c 2 + 23 * dig c 3 + 19 * dig c 4 + 17 * dig c 5 +
                 13 * dig c 6 + 7 * dig c 7 + 3 * dig c 8) mod 11) (dig c 9))).

(* BR - CNPJ: 14 digits, the last two are verification digits.  First: weights 5 4 3 2 9 8 7 6 5 4 3 2
   on the first twelve digits; second: weights 6 5 4 3 2 9 8 7 6 5 4 3 2 on the first thirteen
   (the first verification digit included); each is 0 when the sum modulo 11 is below 2, else
   11 minus that remainder *)
Definition br_dv_rule (r dv_ : Z) : Prop := (r < 2 /\ dv_ = 0) \/ (2 <= r /\ dv_ = 11 - r).
Definition Spec_BR (c : bytes) : Prop :=
  List.length c = 14%nat /\ digits_between c 0 14 /\
  br_dv_rule ((5 * dig c 0 + 4 * dig c 1 + 3 * dig c 2 + 2 * dig c 3 + 9 * dig c 4 + 8 * dig c 5 + 7 * dig c 6 +
               6 * dig c 7 + 5 * dig c 8 + 4 * dig c 9 + 3 * dig c 10 + 2 * dig c 11) mod 11) (dig c 12) /\
  br_dv_rule ((6 * dig c 0 + 5 * dig c 1 + 4 * dig c 2 + 3 * dig c 3 + 2 * dig c 4 + 9 * dig c 5 + 8 * dig c 6 +
               7 * dig c 7 + 6 * dig c 8 + 5 * dig c 9 + 4 * dig c 10 + 3 * dig c 11 + 2 * dig c 12) mod 11) (dig c 13).

(* ES - NIF, 9 characters, one of:
   DNI: 8 digits and a letter, the letter is the (number mod 23)-th of TRWAGMYFPDXBNJZSQVHLCKE
        (the number 00000000 is not issued: the regime's documented exception);
   NIE: X, Y or Z, 7 digits and a letter: the same with X, Y, Z read as the digit 0, 1, 2;
   CIF (legal entities, first letter one of ABCDEFGHJNPQRSUVW) and the K, L, M numbers: a letter,
        7 digits and a control character.  With C = the sum of the digits in even places plus, for
        the digits in odd places (1st, 3rd, 5th, 7th), the digit sum of their double, the control
        value is D = (10 - C mod 10) mod 10, written either as the digit D or as the D-th letter of
        JABCDEFGHI.  Which of the two forms is used depends on the first letter: a letter for
        K L M N P Q R S W, a digit for A B E H, either for the others. *)
Definition letter_at (table : string) (r : Z) (b : byte) : Prop := nth_error (bs table) (Z.to_nat r) = Some b.
Definition es_dni_letters : string := "TRWAGMYFPDXBNJZSQVHLCKE".
Definition es_control_letters : string := "JABCDEFGHI".
Definition first_is_one_of (s : string) (c : bytes) : Prop := In (nthb 0 c) (bs s).
Definition Spec_ES_dni (c : bytes) : Prop :=
  List.length c = 9%nat /\ digits_between c 0 8 /\ number c 0 8 <> 0 /\
  letter_at es_dni_letters ((number c 0 8) mod 23) (nthb 8 c).
Definition es_nie_prefix (b : byte) (v : Z) : Prop :=
  (b = "X"%byte /\ v = 0) \/ (b = "Y"%byte /\ v = 1) \/ (b = "Z"%byte /\ v = 2).
Definition Spec_ES_nie (c : bytes) : Prop :=
  List.length c = 9%nat /\ digits_between c 1 8 /\
  exists v, es_nie_prefix (nthb 0 c) v /\
            letter_at es_dni_letters ((v * 10 ^ 7 + number c 1 8) mod 23) (nthb 8 c).
Inductive control_form : Set := AsDigit | AsLetter.
Definition es_control_value (c : bytes) : Z :=
  (10 - (luhn2 (dig c 1) + dig c 2 + luhn2 (dig c 3) + dig c 4 + luhn2 (dig c 5) + dig c 6 + luhn2 (dig c 7)) mod 10) mod 10.
Definition Spec_ES_cif_with (allowed : byte -> control_form -> Prop) (c : bytes) : Prop :=
  List.length c = 9%nat /\ first_is_one_of "ABCDEFGHJNPQRSUVWKLM" c /\ digits_between c 1 8 /\
  ((digit_at c 8 /\ dig c 8 = es_control_value c /\ allowed (nthb 0 c) AsDigit) \/
   (letter_at es_control_letters (es_control_value c) (nthb 8 c) /\ allowed (nthb 0 c) AsLetter)).
Definition es_published_form (t : byte) (f : control_form) : Prop :=
  match f with
  | AsDigit => ~ In t (bs "KLMNPQRSW")
  | AsLetter => ~ In t (bs "ABEH")
  end.
Definition es_any_form (t : byte) (f : control_form) : Prop := True.
Definition Spec_ES_with (allowed : byte -> control_form -> Prop) (c : bytes) : Prop :=
  Spec_ES_dni c \/ Spec_ES_nie c \/ Spec_ES_cif_with allowed c.
Definition Spec_ES : bytes -> Prop := Spec_ES_with es_published_form.
(* what the implementation accepts: either form of the control character whatever the first letter *)
Definition Spec_ES_either_form : bytes -> Prop := Spec_ES_with es_any_form.

(* IN - GSTIN, 15 characters: 2 digits (state), the 10-character PAN (5 letters, 4 digits, a
   letter), an entity character 1-9 or A-Z, "Z", and a check character.  Characters count 0-9 for
   the digits and 10-35 for A-Z.  Luhn modulo 36: the characters in even places (2nd, 4th, ...)
   of the first 14 are doubled; every product p contributes p / 36 + p mod 36; the total plus
   the value of the check character is a multiple of 36 *)
Definition char36 (b : byte) (v : Z) : Prop :=
  (is_digit b = true /\ v = bZ b - 48) \/ (is_upper b = true /\ v = bZ b - 55).
Definition base36_fold (p : Z) : Z := p / 36 + p mod 36.
Definition upper_at (c : bytes) (i : nat) : Prop := is_upper (nthb i c) = true.
Definition in_shape (c : bytes) : Prop :=
  List.length c = 15%nat /\ digits_between c 0 2 /\ (forall i, (2 <= i < 7)%nat -> upper_at c i) /\
  digits_between c 7 11 /\ upper_at c 11 /\ ((digit_at c 12 /\ dig c 12 <> 0) \/ upper_at c 12) /\
  nthb 13 c = "Z"%byte /\ (digit_at c 14 \/ upper_at c 14).
Definition Spec_IN (c : bytes) : Prop :=
  in_shape c /\
  exists v : nat -> Z, (forall i, (i < 15)%nat -> char36 (nthb i c) (v i)) /\
    (base36_fold (v 0%nat) + base36_fold (2 * v 1%nat) + base36_fold (v 2%nat) + base36_fold (2 * v 3%nat) +
     base36_fold (v 4%nat) + base36_fold (2 * v 5%nat) + base36_fold (v 6%nat) + base36_fold (2 * v 7%nat) +
     base36_fold (v 8%nat) + base36_fold (2 * v 9%nat) + base36_fold (v 10%nat) + base36_fold (2 * v 11%nat) +
     base36_fold (v 12%nat) + base36_fold (2 * v 13%nat) + v 14%nat) mod 36 = 0.

(* AE - TRN: 15 digits (no check digit is published) *)
Definition Spec_AE (c : bytes) : Prop := List.length c = 15%nat /\ digits_between c 0 15.

(* MX - RFC: 4 letters (persons) or 3 letters (companies), where a letter is A-Z, & or the letter
   N-tilde (two bytes C3 91 in UTF-8), then 6 digits (a date) and 3 letters or digits (homoclave).
   No check on the date or on the check character is made. *)
Inductive rfc_letters : nat -> bytes -> Prop :=
| rfc_nil : rfc_letters 0 []
| rfc_ascii n b r : (is_upper b = true \/ b = "&"%byte) -> rfc_letters n r -> rfc_letters (S n) (b :: r)
| rfc_ntilde n r : rfc_letters n r -> rfc_letters (S n) (byte_of_Z 195 :: byte_of_Z 145 :: r).
Definition Spec_MX (c : bytes) : Prop :=
  exists p r, c = p ++ r /\ (rfc_letters 4 p \/ rfc_letters 3 p) /\
    List.length r = 9%nat /\ digits_between r 0 6 /\
    forall i, (6 <= i < 9)%nat -> is_alnum (nthb i r) = true.

(* GB, all forms: the 9- or 12-digit commercial number above, or GD and a number 000-499
   (government departments), or HA and a number 500-999 (health authorities) *)
Definition Spec_GB_special (c : bytes) : Prop :=
  List.length c = 5%nat /\ digits_between c 2 5 /\
  ((nthb 0 c = "G"%byte /\ nthb 1 c = "D"%byte /\ number c 2 5 <= 499) \/
   (nthb 0 c = "H"%byte /\ nthb 1 c = "A"%byte /\ 500 <= number c 2 5)).
Definition Spec_GB_with (check_number : bytes -> Z) (c : bytes) : Prop :=
  Spec_GB_commercial_with check_number c \/ Spec_GB_special c.
Definition Spec_GB : bytes -> Prop := Spec_GB_with gb_check_number.
