(* C13 - equivalence of the validators with the declarative published rules for IT, FR and BE
   (PL, CH: Mod11Proofs; PT: PTProofs; EL: ELProofs; NL: NLProofs; GB: GBProofs). *)
From Coq Require Import String List ZArith Strings.Byte Bool Lia ZifyBool.
From Verif Require Import Base.Wire TaxId.Common TaxId.Regimes TaxId.CommonProofs TaxId.CheckProofs TaxId.Spec
  TaxId.COProofs TaxId.Mod97Proofs TaxId.LuhnProofs TaxId.GBProofs.
Import ListNotations.
Open Scope Z_scope.
Ltac Zify.zify_post_hook ::= Z.div_mod_to_equations.
Local Strategy 100 [Z.add Z.mul Z.sub Z.opp Z.modulo Z.div Z.eqb Z.ltb Z.leb Z.pow dv bZ].

Lemma luhn2_double d : luhn2 d = luhn_double d.
Proof. unfold luhn2, luhn_double. destruct (5 <=? d) eqn:A; destruct (9 <? d * 2) eqn:B; lia. Qed.

Lemma digits_n_of_between n c : List.length c = n -> digits_between c 0 n -> digits_n n c = true.
Proof.
  intros L Dg. rewrite <- L. apply all_digits_digits_n.
  unfold all_digits. apply forallb_forall. intros x Hx. apply In_nth with (d := x00) in Hx. destruct Hx as (i & Hi & <-).
  apply Dg. lia.
Qed.

(* ---- IT ---- *)
Theorem valid_IT_iff_spec c : valid_IT c = true <-> c = [] \/ Spec_IT c.
Proof.
  destruct c as [|x c]; [split; auto|]. unfold valid_IT, nonempty, Spec_IT, luhn_check_digit. split.
  - intro V. right. split_andb V. apply Nat.eqb_eq in B0. split; [exact B0|].
    split; [intros i Hi; apply all_digits_nth; [exact V | lia]|].
    pose proof (all_digits_digits_n _ V) as D. rewrite B0 in D. pose proof (digits_n_bounds _ _ D 10%nat ltac:(lia)) as R.
    cbn [List.length] in B0. injection B0 as L. explode c L. unfold dig. rewrite !luhn2_double.
    cbn [sub skipn firstn Nat.sub digs map rev app luhn_sum_rev negb nthb nth] in *. lia.
  - intros [?|(L & Dg & A)]; [discriminate|].
    pose proof (digits_n_of_between _ _ L Dg) as D. rewrite (digits_n_all_digits _ _ D), L. cbn [Nat.eqb andb].
    pose proof (digits_n_bounds _ _ D 10%nat ltac:(lia)) as R.
    cbn [List.length] in L. injection L as L. explode c L. unfold dig in A. rewrite !luhn2_double in A.
    cbn [sub skipn firstn Nat.sub digs map rev app luhn_sum_rev negb nthb nth] in *. lia.
Qed.

(* ---- FR ---- *)
Lemma two_digits_eqb k a b :
  0 <= k < 100 -> is_digit a = true -> is_digit b = true ->
  (eqb_bytes (two_digits k) [a; b] = true <-> 10 * dv a + dv b = k).
Proof.
  intros R Ha Hb. split.
  - intro H. apply two_digits_eq in H; [|exact R]. lia.
  - intro H. pose proof (dv_digit _ Ha). pose proof (dv_digit _ Hb).
    assert (Ea : digit_byte (k / 10) = a) by (apply dv_inj; rewrite dv_digit_byte; lia).
    assert (Eb : digit_byte (k mod 10) = b) by (apply dv_inj; rewrite dv_digit_byte; lia).
    unfold two_digits. rewrite Ea, Eb. cbn [eqb_bytes]. rewrite !byte_eqb_refl. reflexivity.
Qed.

Theorem valid_FR_iff_spec c : valid_FR c = true <-> c = [] \/ Spec_FR c.
Proof.
  destruct c as [|x c]; [split; auto|]. unfold valid_FR, nonempty, Spec_FR. split.
  - intro V. right. split_andb V. pose proof (digits_n_length _ _ V) as L. split; [exact L|].
    split; [apply digits_between_of_digits_n; exact V|].
    pose proof (digits_n_nth 11 _ 0%nat V ltac:(lia)) as D0. pose proof (digits_n_nth 11 _ 1%nat V ltac:(lia)) as D1.
    cbn [List.length] in L. injection L as L. explode c L. cbn [nthb nth] in D0, D1.
    change (firstn 2 [x; b; b0; b1; b2; b3; b4; b5; b6; b7; b8]) with [x; b] in B.
    apply two_digits_eqb in B; auto; [|rewrite fr_key_unfold; generalize (num_of (skipn 2 [x; b; b0; b1; b2; b3; b4; b5; b6; b7; b8])); intro; lia].
    rewrite fr_key_unfold in B. unfold number.
    change (sub 0 2 [x; b; b0; b1; b2; b3; b4; b5; b6; b7; b8]) with [x; b].
    change (sub 2 11 [x; b; b0; b1; b2; b3; b4; b5; b6; b7; b8]) with (skipn 2 [x; b; b0; b1; b2; b3; b4; b5; b6; b7; b8]).
    generalize dependent (num_of (skipn 2 [x; b; b0; b1; b2; b3; b4; b5; b6; b7; b8])). intros n B.
    horner. lia.
  - intros [?|(L & Dg & A)]; [discriminate|].
    pose proof (digits_n_of_between _ _ L Dg) as D. rewrite D. cbn [andb].
    pose proof (digits_n_nth 11 _ 0%nat D ltac:(lia)) as D0. pose proof (digits_n_nth 11 _ 1%nat D ltac:(lia)) as D1.
    cbn [List.length] in L. injection L as L. explode c L. cbn [nthb nth] in D0, D1.
    change (firstn 2 [x; b; b0; b1; b2; b3; b4; b5; b6; b7; b8]) with [x; b].
    apply two_digits_eqb; auto; [rewrite fr_key_unfold; generalize (num_of (skipn 2 [x; b; b0; b1; b2; b3; b4; b5; b6; b7; b8])); intro; lia|].
    rewrite fr_key_unfold. unfold number in A.
    change (sub 0 2 [x; b; b0; b1; b2; b3; b4; b5; b6; b7; b8]) with [x; b] in A.
    change (sub 2 11 [x; b; b0; b1; b2; b3; b4; b5; b6; b7; b8]) with (skipn 2 [x; b; b0; b1; b2; b3; b4; b5; b6; b7; b8]) in A.
    generalize dependent (num_of (skipn 2 [x; b; b0; b1; b2; b3; b4; b5; b6; b7; b8])). intros n A.
    horner_in A. lia.
Qed.

(* ---- BE ---- *)
Lemma beq_dv b z : beq b (48 + z) = true <-> dv b = z.
Proof. unfold beq, dv. lia. Qed.

Lemma be_check_spec v :
  be_check v = true <-> ~ (dig v 0 = 0 /\ dig v 1 = 0) /\ number v 8 10 = 97 - (number v 0 8) mod 97.
Proof.
  unfold be_check, dig, number. generalize (num_of (sub 8 10 v)) (num_of (sub 0 8 v)). intros a b.
  pose proof (beq_dv (nthb 0 v) 0) as E0. pose proof (beq_dv (nthb 1 v) 0) as E1. change (48 + 0) with 48 in E0, E1.
  destruct (beq (nthb 0 v) 48) eqn:A0; destruct (beq (nthb 1 v) 48) eqn:A1; cbn [andb]; split; intro H;
    try discriminate; try lia.
Qed.

(* the first-digit clause of the rule, given what the format step established about the first byte *)
Lemma be_first_clause v :
  (dig v 0 = 0 \/ dig v 0 = 1) ->
  (~ (dig v 0 = 0 /\ dig v 1 = 0) <-> (dig v 0 = 0 /\ dig v 1 <> 0) \/ dig v 0 = 1).
Proof. intro H. lia. Qed.

Lemma digits_n_cons0 c : digits_n 9 c = true -> digits_n 10 ("0"%byte :: c) = true.
Proof. unfold digits_n. intro H. cbn [rep repeat match_classes]. change (is_digit "0") with true. exact H. Qed.

Lemma be_first_byte b : beq b 48 || beq b 49 = true <-> dv b = 0 \/ dv b = 1.
Proof. unfold beq, dv. lia. Qed.

Theorem valid_BE_iff_spec c : valid_BE c = true <-> c = [] \/ Spec_BE c.
Proof.
  destruct c as [|x c]; [split; auto|]. unfold valid_BE, nonempty, be_format, Spec_BE, Spec_BE10. split.
  - intro V. right. split_andb V. apply orb_prop in V as [D|D].
    + (* 9 digits *)
      pose proof (digits_n_length _ _ D) as L. rewrite L in B. cbn [Nat.eqb] in B.
      pose proof (digits_n_cons0 _ D) as D10. apply be_check_spec in B. destruct B as [B1 B2].
      right. split; [exact L|]. split; [change (S (List.length (x :: c)) = 10%nat); rewrite L; reflexivity|].
      split; [apply digits_between_of_digits_n; exact D10|].
      split; [apply be_first_clause; [left; reflexivity | exact B1] | exact B2].
    + split_andb D. pose proof (digits_n_length _ _ D) as L. rewrite L in B. cbn [Nat.eqb] in B.
      apply be_check_spec in B. destruct B as [B1 B2]. apply be_first_byte in B0. left. split; [exact L|].
      split; [apply digits_between_of_digits_n; exact D|].
      split; [apply be_first_clause; [exact B0 | exact B1] | exact B2].
  - intros [?|[(L & Dg & Z0 & A)|(L9 & L & Dg & Z0 & A)]]; [discriminate| |].
    + pose proof (digits_n_of_between _ _ L Dg) as D. rewrite D, L. cbn [Nat.eqb].
      assert (F : dig (x :: c) 0 = 0 \/ dig (x :: c) 0 = 1) by (destruct Z0 as [[? _]|?]; auto).
      assert (B0 : beq (nthb 0 (x :: c)) 48 || beq (nthb 0 (x :: c)) 49 = true) by (apply be_first_byte; exact F).
      rewrite B0. rewrite orb_true_r. cbn [andb]. apply be_check_spec.
      split; [apply (be_first_clause _ F); exact Z0 | exact A].
    + pose proof (digits_n_of_between _ _ L Dg) as D10.
      assert (D : digits_n 9 (x :: c) = true) by (unfold digits_n in *; cbn [rep repeat match_classes] in D10; apply andb_prop in D10 as [_ D10]; exact D10).
      rewrite D, L9. cbn [orb andb Nat.eqb]. apply be_check_spec.
      split; [apply be_first_clause; [left; reflexivity | exact Z0] | exact A].
Qed.

(* the repaired direction on its own: every ten-digit number starting with 1 that carries the
   right key is accepted (before the repair none was: the expression was ^0?\d{9}$) *)
Theorem valid_BE_leading_1 c :
  List.length c = 10%nat -> digits_between c 0 10 -> dig c 0 = 1 ->
  number c 8 10 = 97 - (number c 0 8) mod 97 -> valid_BE c = true.
Proof.
  intros L Dg F A. apply valid_BE_iff_spec. right. left. split; [exact L|]. split; [exact Dg|].
  split; [right; exact F | exact A].
Qed.

(* and a number starting with 2..9 is refused whatever its last digits *)
Theorem valid_BE_leading_digit c :
  valid_BE c = true -> List.length c = 10%nat -> dig c 0 = 0 \/ dig c 0 = 1.
Proof.
  intros V L. apply valid_BE_iff_spec in V. destruct V as [->|[(_ & _ & [[F _]|F] & _)|(L9 & _)]].
  - discriminate.
  - left; exact F.
  - right; exact F.
  - rewrite L in L9. discriminate.
Qed.

Lemma be_leading_1_witnesses :
  (List.length (bs "1000000021") = 10%nat /\ digits_between (bs "1000000021") 0 10 /\ dig (bs "1000000021") 0 = 1 /\
   number (bs "1000000021") 8 10 = 97 - (number (bs "1000000021") 0 8) mod 97) /\
  valid_BE (bs "1000000021") = true /\ valid_BE (bs "1000123448") = true /\ valid_BE (bs "1012345646") = true /\
  valid_BE (bs "1000123449") = false /\ valid_BE (bs "2000000042") = false /\ valid_BE (bs "0012345625") = false.
Proof.
  split; [|vm_compute; repeat split].
  split; [reflexivity|]. split; [apply digits_between_of_digits_n; vm_compute; reflexivity|].
  split; vm_compute; reflexivity.
Qed.
