(* C13 - equivalence of the validators with the declarative published rules for IT, FR and BE
   (PL, CH: Mod11Proofs; PT: PTProofs; EL: ELProofs; NL: NLProofs; GB: GBProofs). *)
From Coq Require Import String List ZArith Strings.Byte Bool Lia ZifyBool.
From Verif Require Import Base.Wire TaxId.Common TaxId.Regimes TaxId.CommonProofs TaxId.CheckProofs TaxId.Spec
  TaxId.COProofs TaxId.Mod97Proofs TaxId.LuhnProofs TaxId.GBProofs.
Import ListNotations.
Open Scope Z_scope.
Ltac Zify.zify_post_hook ::= Z.div_mod_to_equations.
Local Strategy 100 [Z.add Z.mul Z.sub Z.opp Z.modulo Z.div Z.eqb Z.ltb Z.leb Z.pow dv bZ].

Lemma luhn2_double d : luhn2 d = luhn_double d.
Proof. unfold luhn2, luhn_double. destruct (5 <=? d) eqn:A; destruct (9 <? d * 2) eqn:B; lia. Qed.

Lemma digits_n_of_between n c : List.length c = n -> digits_between c 0 n -> digits_n n c = true.
Proof.
  intros L Dg. rewrite <- L. apply all_digits_digits_n.
  unfold all_digits. apply forallb_forall. intros x Hx. apply In_nth with (d := x00) in Hx. destruct Hx as (i & Hi & <-).
  apply Dg. lia.
Qed.

(* ---- IT ---- *)
Theorem valid_IT_iff_spec c : valid_IT c = true <-> c = [] \/ Spec_IT c.
Proof.
  destruct c as [|x c]; [split; auto|]. unfold valid_IT, nonempty, Spec_IT, luhn_check_digit. split.
  - intro V. right. split_andb V. apply Nat.eqb_eq in B0. split; [exact B0|].
    split; [intros i Hi; apply all_digits_nth; [exact V | lia]|].
    pose proof (all_digits_digits_n _ V) as D. rewrite B0 in D. pose proof (digits_n_bounds _ _ D 10%nat ltac:(lia)) as R.
    cbn [List.length] in B0. injection B0 as L. explode c L. unfold dig. rewrite !luhn2_double.
    cbn [sub skipn firstn Nat.sub digs map rev app luhn_sum_rev negb nthb nth] in *. lia.
  - intros [?|(L & Dg & A)]; [discriminate|].
    pose proof (digits_n_of_between _ _ L Dg) as D. rewrite (digits_n_all_digits _ _ D), L. cbn [Nat.eqb andb].
    pose proof (digits_n_bounds _ _ D 10%nat ltac:(lia)) as R.
    cbn [List.length] in L. injection L as L. explode c L. unfold dig in A. rewrite !luhn2_double in A.
    cbn [sub skipn firstn Nat.sub digs map rev app luhn_sum_rev negb nthb nth] in *. lia.
Qed.

(* ---- FR ---- *)
Lemma two_digits_eqb k a b :
  0 <= k < 100 -> is_digit a = true -> is_digit b = true ->
  (eqb_bytes (two_digits k) [a; b] = true <-> 10 * dv a + dv b = k).
Proof.
  intros R Ha Hb. split.
  - intro H. apply two_digits_eq in H; [|exact R]. lia.
  - intro H. pose proof (dv_digit _ Ha). pose proof (dv_digit _ Hb).
    assert (Ea : digit_byte (k / 10) = a) by (apply dv_inj; rewrite dv_digit_byte; lia).
    assert (Eb : digit_byte (k mod 10) = b) by (apply dv_inj; rewrite dv_digit_byte; lia).
    unfold two_digits. rewrite Ea, Eb. cbn [eqb_bytes]. rewrite !byte_eqb_refl. reflexivity.
Qed.

Theorem valid_FR_iff_spec c : valid_FR c = true <-> c = [] \/ Spec_FR c.
Proof.
  destruct c as [|x c]; [split; auto|]. unfold valid_FR, nonempty, Spec_FR. split.
  - intro V. right. split_andb V. pose proof (digits_n_length _ _ V) as L. split; [exact L|].
    split; [apply digits_between_of_digits_n; exact V|].
    pose proof (digits_n_nth 11 _ 0%nat V ltac:(lia)) as D0. pose proof (digits_n_nth 11 _ 1%nat V ltac:(lia)) as D1.
    cbn [List.length] in L. injection L as L. explode c L. cbn [nthb nth] in D0, D1.
    change (firstn 2 [x; b; b0; b1; b2; b3; b4; b5; b6; b7; b8]) with [x; b] in B.
    apply two_digits_eqb in B; auto; [|rewrite fr_key_unfold; generalize (num_of (skipn 2 [x; b; b0; b1; b2; b3; b4; b5; b6; b7; b8])); intro; lia].
    rewrite fr_key_unfold in B. unfold number.
    change (sub 0 2 [x; b; b0; b1; b2; b3; b4; b5; b6; b7; b8]) with [x; b].
    change (sub 2 11 [x; b; b0; b1; b2; b3; b4; b5; b6; b7; b8]) with (skipn 2 [x; b; b0; b1; b2; b3; b4; b5; b6; b7; b8]).
    generalize dependent (num_of (skipn 2 [x; b; b0; b1; b2; b3; b4; b5; b6; b7; b8])). intros n B.
    horner. lia.
  - intros [?|(L & Dg & A)]; [discriminate|].
    pose proof (digits_n_of_between _ _ L Dg) as D. rewrite D. cbn [andb].
    pose proof (digits_n_nth 11 _ 0%nat D ltac:(lia)) as D0. pose proof (digits_n_nth 11 _ 1%nat D ltac:(lia)) as D1.
    cbn [List.length] in L. injection L as L. explode c L. cbn [nthb nth] in D0, D1.
    change (firstn 2 [x; b; b0; b1; b2; b3; b4; b5; b6; b7; b8]) with [x; b].
    apply two_digits_eqb; auto; [rewrite fr_key_unfold; generalize (num_of (skipn 2 [x; b; b0; b1; b2; b3; b4; b5; b6; b7; b8])); intro; lia|].
    rewrite fr_key_unfold. unfold number in A.
    change (sub 0 2 [x; b; b0; b1; b2; b3; b4; b5; b6; b7; b8]) with [x; b] in A.
    change (sub 2 11 [x; b; b0; b1; b2; b3; b4; b5; b6; b7; b8]) with (skipn 2 [x; b; b0; b1; b2; b3; b4; b5; b6; b7; b8]) in A.
    generalize dependent (num_of (skipn 2 [x; b; b0; b1; b2; b3; b4; b5; b6; b7; b8])). intros n A.
    horner_in A. lia.
Qed.

(* ---- BE ---- *)
Lemma be_check_spec v :
  digits_n 10 v = true ->
  (be_check v = true <-> dig v 1 <> 0 /\ number v 8 10 = 97 - (number v 0 8) mod 97).
Proof.
  intro D. unfold be_check, dig, number. generalize (num_of (sub 8 10 v)) (num_of (sub 0 8 v)). intros a b.
  destruct (dv (nthb 1 v) =? 0) eqn:E; split; intro H; try discriminate; try lia.
Qed.

Lemma digits_n_cons0 c : digits_n 9 c = true -> digits_n 10 ("0"%byte :: c) = true.
Proof. unfold digits_n. intro H. cbn [rep repeat match_classes]. change (is_digit "0") with true. exact H. Qed.

Lemma digit_zero_byte b : is_digit b = true -> (beq b 48 = true <-> dv b = 0).
Proof. unfold beq, dv. intro H. lia. Qed.

Theorem valid_BE_iff_spec c : valid_BE c = true <-> c = [] \/ Spec_BE c.
Proof.
  destruct c as [|x c]; [split; auto|]. unfold valid_BE, nonempty, be_format, Spec_BE, Spec_BE10. split.
  - intro V. right. split_andb V. apply orb_prop in V as [D|D].
    + (* 9 digits *)
      pose proof (digits_n_length _ _ D) as L. rewrite L in B. cbn [Nat.eqb] in B.
      pose proof (digits_n_cons0 _ D) as D10. apply (be_check_spec _ D10) in B.
      right. split; [exact L|]. split; [change (S (List.length (x :: c)) = 10%nat); rewrite L; reflexivity|].
      split; [apply digits_between_of_digits_n; exact D10|]. split; [reflexivity|]. exact B.
    + split_andb D. pose proof (digits_n_length _ _ D) as L. rewrite L in B. cbn [Nat.eqb] in B.
      apply (be_check_spec _ D) in B. left. split; [exact L|].
      split; [apply digits_between_of_digits_n; exact D|].
      split; [apply digit_zero_byte; [apply (digits_n_nth 10 _ 0%nat D); lia | exact B0]|]. exact B.
  - intros [?|[(L & Dg & Z0 & A)|(L9 & L & Dg & Z0 & A)]]; [discriminate| |].
    + pose proof (digits_n_of_between _ _ L Dg) as D. rewrite D, L. cbn [Nat.eqb].
      assert (B0 : beq (nthb 0 (x :: c)) 48 = true) by (apply digit_zero_byte; [apply (digits_n_nth 10 _ 0%nat D); lia | exact Z0]).
      rewrite B0. rewrite orb_true_r. cbn [andb]. apply (be_check_spec _ D). exact A.
    + pose proof (digits_n_of_between _ _ L Dg) as D10.
      assert (D : digits_n 9 (x :: c) = true) by (unfold digits_n in *; cbn [rep repeat match_classes] in D10; apply andb_prop in D10 as [_ D10]; exact D10).
      rewrite D, L9. cbn [orb andb Nat.eqb]. apply (be_check_spec _ D10). exact A.
Qed.
