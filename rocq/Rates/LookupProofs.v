(* Proofs about Rates/Lookup.v (C12). *)
From Coq Require Import List ZArith Bool Lia Sorting.Sorted Strings.Byte.
From Verif Require Import Base.Wire Defs.DefTypes Rates.Date Rates.DateProofs Rates.Lookup.
Import ListNotations.
Open Scope Z_scope.

(* ---------------------------------------------------------------------------------------- *)
(* byte strings                                                                              *)
(* ---------------------------------------------------------------------------------------- *)

Lemma eqb_bytes_eq a b : eqb_bytes a b = true <-> a = b.
Proof.
  revert b; induction a as [|x a IH]; intros [|y b]; cbn; split; intro H; try reflexivity; try discriminate.
  - apply andb_true_iff in H as [H1 H2]. apply Byte.byte_dec_bl in H1. apply IH in H2. subst; reflexivity.
  - injection H as -> ->. apply andb_true_iff; split; [apply Byte.byte_dec_lb; reflexivity | apply IH; reflexivity].
Qed.

Lemma eqb_bytes_refl a : eqb_bytes a a = true.
Proof. apply eqb_bytes_eq; reflexivity. Qed.

(* ---------------------------------------------------------------------------------------- *)
(* the order on start dates (None = always, i.e. minus infinity)                              *)
(* ---------------------------------------------------------------------------------------- *)

Definition sk_le (a b : option date) : Prop := sk_leb a b = true.
Definition sk_lt (a b : option date) : Prop := sk_ltb a b = true.

Lemma sk_le_refl a : sk_le a a.
Proof. destruct a; cbn; [apply date_le_refl|reflexivity]. Qed.

Lemma sk_le_trans a b c : sk_le a b -> sk_le b c -> sk_le a c.
Proof.
  unfold sk_le; destruct a, b, c; cbn; intros; try reflexivity; try discriminate.
  eapply date_le_trans; eassumption.
Qed.

Lemma sk_le_antisym a b : sk_le a b -> sk_le b a -> a = b.
Proof.
  unfold sk_le; destruct a, b; cbn; intros; try reflexivity; try discriminate.
  f_equal; apply date_le_antisym; assumption.
Qed.

Lemma sk_lt_le a b : sk_lt a b -> sk_le a b.
Proof.
  unfold sk_lt, sk_le; destruct a, b; cbn; intros; try reflexivity; try discriminate.
  apply date_before_le; assumption.
Qed.

Lemma sk_lt_irrefl a : ~ sk_lt a a.
Proof. unfold sk_lt; destruct a; cbn; [rewrite date_before_irrefl|]; discriminate. Qed.

(* "in force on d" is exactly "start date on or before d" *)
Lemma in_force_iff d v : in_force d v = true <-> sk_le (since_key v) (Some d).
Proof. unfold in_force, sk_le. destruct (since_key v); cbn; tauto. Qed.

Lemma in_force_shipped_iff d v : in_force_shipped d v = true <-> sk_lt (since_key v) (Some d).
Proof. unfold in_force_shipped, sk_lt. destruct (since_key v); cbn; tauto. Qed.

(* a value whose (valid) start date is d is in force on d *)
Lemma in_force_on_start d v : since_key v = Some d -> in_force d v = true.
Proof. intro H. apply in_force_iff. rewrite H. apply sk_le_refl. Qed.

(* ... but not under the comparison as shipped *)
Lemma in_force_shipped_on_start d v : since_key v = Some d -> in_force_shipped d v = false.
Proof. intro H. unfold in_force_shipped. rewrite H. apply date_before_irrefl. Qed.

(* ---------------------------------------------------------------------------------------- *)
(* RateDef.Value = first applicable value in force                                           *)
(* ---------------------------------------------------------------------------------------- *)

Definition descending_in (tags : list str) (ext : kvs) (vals : list ratevalue) : Prop :=
  StronglySorted (fun a b => sk_le (since_key b) (since_key a)) (filter (applies tags ext) vals).

Definition strictly_descending (vals : list ratevalue) : Prop :=
  StronglySorted (fun a b => sk_lt (since_key b) (since_key a)) vals.

Lemma value_with_first test d tags ext vals v :
  value_with test d tags ext vals = Some v ->
  exists l1 l2, vals = l1 ++ v :: l2 /\
    (forall u, In u l1 -> applies tags ext u && test d u = false) /\
    applies tags ext v = true /\ test d v = true.
Proof.
  induction vals as [|x r IH]; cbn; [discriminate|].
  destruct (applies tags ext x && test d x) eqn:E.
  - intro H; injection H as ->. exists [], r. apply andb_true_iff in E as [E1 E2].
    repeat split; auto. intros u [].
  - intro H. destruct (IH H) as (l1 & l2 & -> & Hn & Ha & Ht).
    exists (x :: l1), l2. repeat split; auto.
    intros u [<- | Hu]; auto.
Qed.

Lemma value_with_none test d tags ext vals :
  value_with test d tags ext vals = None <->
  (forall u, In u vals -> applies tags ext u && test d u = false).
Proof.
  induction vals as [|x r IH]; cbn.
  - split; [intros _ u []|reflexivity].
  - destruct (applies tags ext x && test d x) eqn:E.
    + split; [discriminate|]. intro H. rewrite (H x (or_introl eq_refl)) in E. discriminate.
    + rewrite IH. split.
      * intros H u [<- | Hu]; auto.
      * intros H u Hu; apply H; right; assumption.
Qed.

Lemma value_index_with_value test d tags ext vals i :
  option_map snd (value_index_with test d tags ext vals i) = value_with test d tags ext vals.
Proof.
  revert i; induction vals as [|x r IH]; intro i; cbn; [reflexivity|].
  destruct (applies tags ext x && test d x); [reflexivity|apply IH].
Qed.

Lemma filter_app_cons {A} (f : A -> bool) l1 x l2 :
  f x = true -> filter f (l1 ++ x :: l2) = filter f l1 ++ x :: filter f l2.
Proof. intro H. rewrite filter_app. cbn. rewrite H. reflexivity. Qed.

Lemma StronglySorted_app_cons {A} (R : A -> A -> Prop) l1 x l2 :
  StronglySorted R (l1 ++ x :: l2) -> Forall (R x) l2.
Proof.
  induction l1 as [|y l1 IH]; cbn; intro H; apply StronglySorted_inv in H as [H1 H2]; auto.
Qed.

(* The choice is the latest start on or before the date, provided the applicable values are listed
   in descending order of start date. *)
Lemma value_latest d tags ext vals v :
  descending_in tags ext vals ->
  value d tags ext vals = Some v ->
  In v vals /\ applies tags ext v = true /\ sk_le (since_key v) (Some d) /\
  (forall v', In v' vals -> applies tags ext v' = true -> sk_le (since_key v') (Some d) ->
              sk_le (since_key v') (since_key v)) /\
  (exists l1 l2, vals = l1 ++ v :: l2 /\
     forall u, In u l1 -> ~ (applies tags ext u = true /\ sk_le (since_key u) (Some d))).
Proof.
  intros Hs Hv. unfold value in Hv.
  destruct (value_with_first _ _ _ _ _ _ Hv) as (l1 & l2 & -> & Hn & Ha & Ht).
  split; [apply in_or_app; right; left; reflexivity|].
  split; [assumption|]. split; [apply in_force_iff; assumption|].
  split.
  - intros v' Hin Ha' Hf'. apply in_app_or in Hin as [Hin | [<- | Hin]].
    + specialize (Hn _ Hin). apply in_force_iff in Hf'. rewrite Ha', Hf' in Hn. discriminate.
    + apply sk_le_refl.
    + unfold descending_in in Hs. rewrite (filter_app_cons _ _ _ _ Ha) in Hs.
      apply StronglySorted_app_cons in Hs. rewrite Forall_forall in Hs.
      apply Hs. apply filter_In; split; assumption.
  - exists l1, l2; split; [reflexivity|]. intros u Hu [H1 H2]. specialize (Hn _ Hu).
    apply in_force_iff in H2. rewrite H1, H2 in Hn. discriminate.
Qed.

(* a value is in force on its own start date: the lookup on that date answers with that start date *)
Lemma value_on_start_date d tags ext vals v :
  descending_in tags ext vals ->
  In v vals -> applies tags ext v = true -> since_key v = Some d ->
  exists w, value d tags ext vals = Some w /\ since_key w = Some d.
Proof.
  intros Hs Hin Ha Hk.
  destruct (value d tags ext vals) as [w|] eqn:E.
  - exists w; split; [reflexivity|].
    destruct (value_latest _ _ _ _ _ Hs E) as (_ & _ & Hle & Hmax & _).
    assert (H : sk_le (since_key v) (since_key w)).
    { apply Hmax; auto. rewrite Hk; apply sk_le_refl. }
    rewrite Hk in H. apply sk_le_antisym; assumption.
  - exfalso. unfold value in E. rewrite value_with_none in E. specialize (E _ Hin).
    rewrite Ha, (in_force_on_start _ _ Hk) in E. discriminate.
Qed.

(* with strictly descending applicable values the answer on a start date is that very value *)
Lemma value_on_start_date_strict d tags ext vals v :
  strictly_descending (filter (applies tags ext) vals) ->
  In v vals -> applies tags ext v = true -> since_key v = Some d ->
  value d tags ext vals = Some v.
Proof.
  intros Hs Hin Ha Hk.
  destruct (value d tags ext vals) as [w|] eqn:E.
  - unfold value in E. destruct (value_with_first _ _ _ _ _ _ E) as (l1 & l2 & -> & Hn & Haw & Ht).
    apply in_app_or in Hin as [Hin | [<- | Hin]].
    + specialize (Hn _ Hin). rewrite Ha, (in_force_on_start _ _ Hk) in Hn. discriminate.
    + reflexivity.
    + exfalso. rewrite (filter_app_cons _ _ _ _ Haw) in Hs.
      apply StronglySorted_app_cons in Hs. rewrite Forall_forall in Hs.
      assert (H : sk_lt (since_key v) (since_key w)) by (apply Hs; apply filter_In; split; assumption).
      apply in_force_iff in Ht. rewrite Hk in H.
      apply sk_lt_le in H as H'. assert (Some d = since_key w) by (apply sk_le_antisym; assumption).
      rewrite <- H0 in H. exact (sk_lt_irrefl _ H).
  - exfalso. unfold value in E. rewrite value_with_none in E. specialize (E _ Hin).
    rewrite Ha, (in_force_on_start _ _ Hk) in E. discriminate.
Qed.

(* no answer exactly when no applicable value has started yet *)
Lemma value_none_iff d tags ext vals :
  value d tags ext vals = None <->
  (forall v, In v vals -> applies tags ext v = true -> ~ sk_le (since_key v) (Some d)).
Proof.
  unfold value. rewrite value_with_none. split.
  - intros H v Hin Ha Hf. apply in_force_iff in Hf. specialize (H _ Hin). rewrite Ha, Hf in H. discriminate.
  - intros H u Hin. destruct (applies tags ext u) eqn:Ea; [|reflexivity]. cbn.
    destruct (in_force d u) eqn:Ef; [|reflexivity]. exfalso. apply (H _ Hin Ea). apply in_force_iff; assumption.
Qed.

(* ---------------------------------------------------------------------------------------- *)
(* Combo.prepareRate                                                                          *)
(* ---------------------------------------------------------------------------------------- *)

Definition prepared_ext (rate : ratedef) (c : combo) : kvs :=
  if negb (cb_country_override c) && negb (match rt_ext rate with [] => true | _ => false end)
  then ext_merge (cb_ext c) (rt_ext rate) else cb_ext c.

Lemma prepare_no_rate_key test cat tags d c : cb_rate c = [] -> prepare_rate_with test cat tags d c = inr c.
Proof. unfold prepare_rate_with. intros ->. reflexivity. Qed.

Lemma prepare_unknown_rate test cat tags d c :
  cb_rate c <> [] -> rate_def cat (cb_rate c) = None -> prepare_rate_with test cat tags d c = inl ErrInvalidRate.
Proof. unfold prepare_rate_with. intros H1 H2. destruct (cb_rate c); [congruence|]. rewrite H2. reflexivity. Qed.

Lemma prepare_exempt test cat tags d c rate :
  cb_rate c <> [] -> rate_def cat (cb_rate c) = Some rate -> rt_exempt rate = true ->
  prepare_rate_with test cat tags d c =
    inr (mkCombo (cb_rate c) None None (prepared_ext rate c) (cb_country_override c)).
Proof.
  unfold prepare_rate_with, prepared_ext. intros H1 H2 H3. destruct (cb_rate c); [congruence|].
  rewrite H2, H3. reflexivity.
Qed.

Lemma prepare_no_values test cat tags d c rate :
  cb_rate c <> [] -> rate_def cat (cb_rate c) = Some rate -> rt_exempt rate = false -> rt_values rate = [] ->
  prepare_rate_with test cat tags d c =
    inr (mkCombo (cb_rate c) (cb_percent c) (cb_surcharge c) (prepared_ext rate c) (cb_country_override c)).
Proof.
  unfold prepare_rate_with, prepared_ext. intros H1 H2 H3 H4. destruct (cb_rate c); [congruence|].
  rewrite H2, H3, H4. reflexivity.
Qed.

Lemma prepare_values test cat tags d c rate :
  cb_rate c <> [] -> rate_def cat (cb_rate c) = Some rate -> rt_exempt rate = false -> rt_values rate <> [] ->
  prepare_rate_with test cat tags d c =
    match value_with test d tags (prepared_ext rate c) (rt_values rate) with
    | None => inl ErrInvalidDate
    | Some v => inr (mkCombo (cb_rate c) (Some (rv_percent v)) (rv_surcharge v) (prepared_ext rate c) (cb_country_override c))
    end.
Proof.
  unfold prepare_rate_with, prepared_ext. intros H1 H2 H3 H4. destruct (cb_rate c); [congruence|].
  rewrite H2, H3. destruct (rt_values rate); [congruence|]. reflexivity.
Qed.

(* ---------------------------------------------------------------------------------------- *)
(* soundness of the boolean checkers over a table                                            *)
(* ---------------------------------------------------------------------------------------- *)

Lemma all_pairs_sorted_filter {A} (chk : A -> A -> bool) (f : A -> bool) (R : A -> A -> Prop) l :
  (forall x y, chk x y = true -> f x = true -> f y = true -> R x y) ->
  all_pairs chk l = true -> StronglySorted R (filter f l).
Proof.
  intro HR. induction l as [|x r IH]; cbn; intro H; [constructor|].
  apply andb_true_iff in H as [H1 H2]. specialize (IH H2).
  destruct (f x) eqn:Ef; [|assumption].
  constructor; [assumption|]. apply Forall_forall. intros y Hy. apply filter_In in Hy as [Hy Hfy].
  rewrite forallb_forall in H1. apply HR; auto.
Qed.

Lemma all_pairs_sorted {A} (chk : A -> A -> bool) (R : A -> A -> Prop) l :
  (forall x y, chk x y = true -> R x y) -> all_pairs chk l = true -> StronglySorted R l.
Proof.
  intros HR H.
  assert (E : filter (fun _ : A => true) l = l) by (clear; induction l as [|x r IH]; cbn; [|rewrite IH]; reflexivity).
  rewrite <- E. apply (all_pairs_sorted_filter chk (fun _ => true) R); auto.
Qed.

Lemma ext_get_in k em v : ext_get k em = Some v -> In (k, v) em.
Proof.
  induction em as [|[k' v'] r IH]; cbn; [discriminate|].
  destruct (eqb_bytes k' k) eqn:E.
  - intro H; injection H as ->. apply eqb_bytes_eq in E as ->. left; reflexivity.
  - intro H; right; apply IH; assumption.
Qed.

Lemma ext_contains_get em other k v :
  ext_contains em other = true -> In (k, v) other -> ext_get k em = Some v.
Proof.
  unfold ext_contains. destruct em as [|p em']; [discriminate|].
  intros H Hin. rewrite forallb_forall in H. specialize (H _ Hin). cbn [fst snd] in H.
  destruct (ext_get k (p :: em')) as [v2|]; [|discriminate].
  apply eqb_bytes_eq in H as ->. reflexivity.
Qed.

Lemma applies_ext_get tags ext rv k v :
  applies tags ext rv = true -> In (k, v) (rv_ext rv) -> ext_get k ext = Some v.
Proof.
  unfold applies. intros H Hin. apply andb_true_iff in H as [_ H].
  destruct (rv_ext rv) as [|p r] eqn:E; [destruct Hin|].
  eapply ext_contains_get; eassumption.
Qed.

(* values whose filters demand different codes for one key never apply together *)
Lemma incompatible_not_both tags ext a b :
  incompatible a b = true -> applies tags ext a = true -> applies tags ext b = true -> False.
Proof.
  unfold incompatible. intros H Ha Hb. apply existsb_exists in H as [[k va] [Hin H]]. cbn [fst snd] in H.
  destruct (ext_get k (rv_ext b)) as [vb|] eqn:E; [|discriminate].
  apply ext_get_in in E.
  pose proof (applies_ext_get _ _ _ _ _ Ha Hin) as H1.
  pose proof (applies_ext_get _ _ _ _ _ Hb E) as H2.
  rewrite H1 in H2. injection H2 as <-. rewrite eqb_bytes_refl in H. discriminate.
Qed.

Lemma table_descending_sound vals :
  table_descending_any_context vals = true -> forall tags ext, descending_in tags ext vals.
Proof.
  intros H tags ext. unfold descending_in.
  eapply all_pairs_sorted_filter; [|exact H].
  intros x y Hc Hx Hy. cbn in Hc. apply orb_true_iff in Hc as [Hc | Hc]; [exact Hc|].
  exfalso; eapply incompatible_not_both; eassumption.
Qed.

Lemma table_unqualified_strict_sound vals :
  table_unqualified_strict vals = true -> strictly_descending (filter unqualified vals).
Proof.
  intro H. unfold strictly_descending. eapply all_pairs_sorted; [|exact H]. intros x y Hc; exact Hc.
Qed.

Lemma table_dates_valid_sound vals :
  table_dates_valid vals = true ->
  forall v s, In v vals -> rv_since v = Some s -> date_valid s = true.
Proof.
  unfold table_dates_valid. rewrite forallb_forall. intros H v s Hin Hs. specialize (H _ Hin).
  rewrite Hs in H. exact H.
Qed.

(* the unqualified values are exactly those that apply to a document without tags and extensions *)
Lemma unqualified_applies_nil rv : applies [] [] rv = unqualified rv.
Proof.
  assert (T : forall l, has_any_tag l [] = false) by (unfold has_any_tag; induction l as [|x r IH]; cbn [existsb orb]; [reflexivity|exact IH]).
  unfold applies, unqualified. destruct (rv_tags rv) as [|t ts], (rv_ext rv) as [|e es]; try reflexivity;
    rewrite ?T; reflexivity.
Qed.

Lemma in_all_tables regs nr c rt :
  In nr regs -> In c (rg_categories (snd nr)) -> In rt (cat_rates c) -> In (rt_values rt) (all_tables regs).
Proof.
  intros H1 H2 H3. unfold all_tables. apply in_flat_map. exists nr; split; [assumption|].
  apply in_flat_map. exists c; split; [assumption|]. apply in_map; assumption.
Qed.

Lemma all_tables_forall (P : list ratevalue -> bool) regs :
  forallb P (all_tables regs) = true ->
  forall f r c rt, In (f, r) regs -> In c (rg_categories r) -> In rt (cat_rates c) -> P (rt_values rt) = true.
Proof.
  intros H f r c rt H1 H2 H3. rewrite forallb_forall in H. apply H.
  apply (in_all_tables regs (f, r) c rt); assumption.
Qed.

(* ---------------------------------------------------------------------------------------- *)
(* defect #1: the comparison as shipped                                                      *)
(* ---------------------------------------------------------------------------------------- *)

(* ES VAT standard as shipped on the pinned tree *)
Definition es_vat_standard : list ratevalue :=
  [ mkValue (Some (mkDate 2012 9 1)) (mkPct 210 3) None [] [] false;
    mkValue (Some (mkDate 2010 7 1)) (mkPct 180 3) None [] [] false;
    mkValue (Some (mkDate 1995 1 1)) (mkPct 160 3) None [] [] false;
    mkValue (Some (mkDate 1993 1 1)) (mkPct 150 3) None [] [] false ].

Lemma shipped_comparison_refuted_witness :
  exists vals d v,
    descending_in [] [] vals /\ In v vals /\ applies [] [] v = true /\ since_key v = Some d /\
    value_shipped d [] [] vals <> Some v /\
    (exists w, value_shipped d [] [] vals = Some w /\ since_key w <> Some d /\ rv_percent w = mkPct 180 3) /\
    value_shipped (mkDate 1993 1 1) [] [] vals = None.
Proof.
  exists es_vat_standard, (mkDate 2012 9 1), (mkValue (Some (mkDate 2012 9 1)) (mkPct 210 3) None [] [] false).
  split; [apply table_descending_sound; vm_compute; reflexivity|].
  split; [left; reflexivity|].
  split; [reflexivity|]. split; [reflexivity|].
  split; [vm_compute; discriminate|].
  split; [|reflexivity].
  exists (mkValue (Some (mkDate 2010 7 1)) (mkPct 180 3) None [] [] false).
  split; [reflexivity|]. split; [vm_compute; discriminate|reflexivity].
Qed.

(* ---------------------------------------------------------------------------------------- *)
(* checkRateValuesOrder (the order test of RateDef validation)                               *)
(* ---------------------------------------------------------------------------------------- *)

Definition all_dated (vals : list ratevalue) : Prop :=
  forall v, In v vals -> unqualified v = true -> exists s, rv_since v = Some s /\ date_valid s = true.

Lemma sk_lt_trans a b c : sk_lt a b -> sk_lt b c -> sk_lt a c.
Proof.
  unfold sk_lt; destruct a, b, c; cbn; intros; try reflexivity; try discriminate.
  eapply date_before_trans; eassumption.
Qed.

Lemma check_order_sound_aux vals :
  forall prev, (prev = None \/ exists p, prev = Some p /\ date_valid p = true) ->
  check_order vals prev = Some true -> all_dated vals ->
  strictly_descending (filter unqualified vals) /\
  (forall p, prev = Some p -> Forall (fun v => sk_lt (since_key v) (Some p)) (filter unqualified vals)).
Proof.
  induction vals as [|v r IH]; intros prev Hprev Hc Hd.
  - split; [constructor|]. intros; constructor.
  - cbn [check_order] in Hc. cbn [filter].
    assert (Hd' : all_dated r) by (intros x Hx; apply Hd; right; assumption).
    destruct (unqualified v) eqn:Eu; cbn [negb] in Hc.
    + destruct (Hd v (or_introl eq_refl) Eu) as (s & Hs & Hv).
      assert (Hk : since_key v = Some s) by (unfold since_key; rewrite Hs, Hv; reflexivity).
      assert (Hrec : check_order r (Some s) = Some true /\
                     (forall p, prev = Some p -> date_before s p = true)).
      { destruct Hprev as [-> | (p & -> & Hp)].
        - rewrite Hs in Hc. split; [assumption|]. intros p Hp; discriminate.
        - rewrite Hp, Hs, Hv in Hc. cbn [andb] in Hc.
          destruct (date_before s p) eqn:Eb; cbn [negb] in Hc; [|discriminate].
          split; [assumption|]. intros p' Hp'; injection Hp' as <-; assumption. }
      destruct Hrec as [Hrec Hlt].
      destruct (IH (Some s) (or_intror (ex_intro _ s (conj eq_refl Hv))) Hrec Hd') as [Hs1 Hs2].
      specialize (Hs2 s eq_refl).
      split.
      * constructor; [assumption|]. rewrite Hk. exact Hs2.
      * intros p Hp. constructor.
        -- unfold sk_lt. rewrite Hk. cbn. apply Hlt; assumption.
        -- eapply Forall_impl; [|exact Hs2]. intros x Hx. eapply sk_lt_trans; [exact Hx|].
           unfold sk_lt; cbn. apply Hlt; assumption.
    + exact (IH prev Hprev Hc Hd').
Qed.

(* the validator accepts => the unqualified values are strictly descending, PROVIDED every
   unqualified value carries a valid date *)
Lemma check_order_sound vals :
  check_order vals None = Some true -> all_dated vals -> strictly_descending (filter unqualified vals).
Proof. intros Hc Hd. exact (proj1 (check_order_sound_aux vals None (or_introl eq_refl) Hc Hd)). Qed.

(* without that proviso the validator is not sound for the property's order: an undated value listed
   FIRST is accepted although it shadows every dated value after it; an undated value listed LAST
   (the only sensible place) makes the code dereference nil; an invalid date switches the test off *)
Lemma check_order_gaps :
  let dated y := mkValue (Some (mkDate y 1 1)) (mkPct 1 2) None [] [] false in
  let undated := mkValue None (mkPct 2 2) None [] [] false in
  let invalid := mkValue (Some (mkDate 2021 2 30)) (mkPct 3 2) None [] [] false in
  check_order [undated; dated 2020] None = Some true /\
  table_unqualified_strict [undated; dated 2020] = false /\
  value (mkDate 2021 1 1) [] [] [undated; dated 2020] = Some undated /\
  check_order [dated 2020; undated] None = None /\
  table_unqualified_strict [dated 2020; undated] = true /\
  check_order [dated 2020; invalid; dated 2022] None = Some true /\
  table_unqualified_strict [dated 2020; invalid; dated 2022] = false.
Proof. vm_compute. repeat split. Qed.

(* ---------------------------------------------------------------------------------------- *)
(* CategoryDef.RateDef: which rate a key resolves to (after the repair: exact key, else the  *)
(* FIRST `+` component)                                                                      *)
(* ---------------------------------------------------------------------------------------- *)

Lemma split_plus_2_aux_hd l : forall cur, hd [] (split_plus_2_aux l cur) = hd [] (split_plus_aux l cur).
Proof.
  induction l as [|b r IH]; intro cur; cbn [split_plus_2_aux split_plus_aux]; [reflexivity|].
  destruct (bZ b =? 43); [reflexivity|apply IH].
Qed.

Lemma split_plus_2_aux_nonempty l : forall cur, split_plus_2_aux l cur <> [].
Proof.
  induction l as [|b r IH]; intro cur; cbn [split_plus_2_aux]; [discriminate|].
  destruct (bZ b =? 43); [discriminate|apply IH].
Qed.

Lemma split_plus_aux_nonempty l : forall cur, split_plus_aux l cur <> [].
Proof.
  induction l as [|b r IH]; intro cur; cbn [split_plus_aux]; [discriminate|].
  destruct (bZ b =? 43); [discriminate|apply IH].
Qed.

(* Key.HasPrefix(ke) <=> the first component is ke *)
Lemma key_has_prefix_iff k ke : key_has_prefix k ke = true <-> first_part k = ke.
Proof.
  unfold key_has_prefix, first_part, split_plus, split_plus_2.
  rewrite <- (split_plus_2_aux_hd k []).
  pose proof (split_plus_2_aux_nonempty k []) as Hne.
  destruct (split_plus_2_aux k []) as [|p rest]; [congruence|]. cbn [hd]. apply eqb_bytes_eq.
Qed.

Lemma first_part_in_parts k : In (first_part k) (split_plus k).
Proof.
  unfold first_part, split_plus. pose proof (split_plus_aux_nonempty k []) as Hne.
  destruct (split_plus_aux k []); [congruence|left; reflexivity].
Qed.

(* the repaired test is stronger than the shipped one *)
Lemma key_has_prefix_has k ke : key_has_prefix k ke = true -> key_has k ke = true.
Proof.
  intro H. apply key_has_prefix_iff in H. unfold key_has. apply existsb_exists.
  exists (first_part k). split; [apply first_part_in_parts|apply eqb_bytes_eq; assumption].
Qed.

(* an answer is a rate of the category whose key is the given key or its first component *)
Lemma rate_def_some c key r :
  rate_def c key = Some r -> In r (cat_rates c) /\ (rt_key r = key \/ first_part key = rt_key r).
Proof.
  unfold rate_def, rate_def_with. destruct (find (fun r0 => eqb_bytes (rt_key r0) key) (cat_rates c)) as [r0|] eqn:E.
  - intro H; injection H as <-. apply find_some in E as [Hin He]. split; [assumption|left; apply eqb_bytes_eq; assumption].
  - intro H. apply find_some in H as [Hin He]. split; [assumption|right; apply key_has_prefix_iff; assumption].
Qed.

(* no answer exactly when no rate of the category has the key, or its first component, as its key *)
Lemma rate_def_none_iff c key :
  rate_def c key = None <->
  (forall r, In r (cat_rates c) -> rt_key r <> key /\ first_part key <> rt_key r).
Proof.
  unfold rate_def, rate_def_with. split.
  - destruct (find (fun r0 => eqb_bytes (rt_key r0) key) (cat_rates c)) as [r0|] eqn:E; [discriminate|].
    intros H r Hin. split.
    + intro Hk. pose proof (find_none _ _ E r Hin) as Hn. cbn in Hn. rewrite (proj2 (eqb_bytes_eq _ _) Hk) in Hn. discriminate.
    + intro Hk. pose proof (find_none _ _ H r Hin) as Hn. cbn in Hn. rewrite (proj2 (key_has_prefix_iff _ _) Hk) in Hn. discriminate.
  - intro H.
    destruct (find (fun r0 => eqb_bytes (rt_key r0) key) (cat_rates c)) as [r0|] eqn:E.
    + apply find_some in E as [Hin He]. apply eqb_bytes_eq in He. destruct (H r0 Hin) as [Hk _]. contradiction.
    + destruct (find (fun r0 => key_has_prefix key (rt_key r0)) (cat_rates c)) as [r1|] eqn:E1; [|reflexivity].
      apply find_some in E1 as [Hin He]. apply key_has_prefix_iff in He. destruct (H r1 Hin) as [_ Hk]. contradiction.
Qed.

(* a key with a defined first component always resolves (free suffixes: `exempt+reverse-charge`) *)
Lemma rate_def_extended_key c key r :
  In r (cat_rates c) -> first_part key = rt_key r -> exists r', rate_def c key = Some r'.
Proof.
  intros Hin Hk. destruct (rate_def c key) as [r'|] eqn:E; [exists r'; reflexivity|].
  destruct (proj1 (rate_def_none_iff c key) E r Hin) as [_ Hn]. contradiction.
Qed.

(* Combo.prepareRate refuses a key whose first component (and whole text) is not a rate of the category *)
Lemma prepare_undefined_first_part test cat tags d c :
  cb_rate c <> [] ->
  (forall r, In r (cat_rates cat) -> rt_key r <> cb_rate c /\ first_part (cb_rate c) <> rt_key r) ->
  prepare_rate_with test cat tags d c = inl ErrInvalidRate.
Proof. intros H1 H2. apply prepare_unknown_rate; [assumption|]. apply rate_def_none_iff; assumption. Qed.

(* the second loop as shipped before the repair (Key.Has: ANY component): `bogus+standard` resolved
   to the standard rate although neither `bogus` nor `bogus+standard` is a rate of the category *)
#[local] Open Scope bs_scope.

Definition es_vat_like : category :=
  mkCategory "VAT" false
    [ mkRate "standard" false es_vat_standard [];
      mkRate "exempt" true [] [];
      mkRate "standard+eqs" false es_vat_standard [] ] [] [] [].

Lemma rate_def_shipped_any_part_witness :
  exists cat key r,
    (forall r', In r' (cat_rates cat) -> rt_key r' <> key /\ first_part key <> rt_key r') /\
    rate_def_shipped cat key = Some r /\ rt_key r = "standard" /\ first_part key = "bogus" /\
    rate_def cat key = None.
Proof.
  exists es_vat_like, "bogus+standard", (mkRate "standard" false es_vat_standard []).
  split; [|vm_compute; repeat split].
  intros r' [H|[H|[H|[]]]]; subst r'; split; vm_compute; discriminate.
Qed.
