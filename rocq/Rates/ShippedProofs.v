(* C12, generated data: the boolean checkers of Rates/Lookup.v evaluated by vm_compute over every
   rate table the linked code registers (Gen/Regimes.v) and every table of the published files
   (Gen/Published.v), lifted to Prop by the soundness lemmas of Rates/LookupProofs.v.
   If someone reorders a table in the repository, THIS file stops compiling. *)
From Coq Require Import List ZArith Bool Sorting.Sorted.
From Verif Require Import Base.Wire Defs.DefTypes Rates.Date Rates.Lookup Rates.LookupProofs.
From Verif Require Import Gen.Regimes Gen.Published.
Import ListNotations.

Lemma in_code_unqualified_strict_check : forallb table_unqualified_strict (all_tables in_code_regimes) = true.
Proof. vm_compute. reflexivity. Qed.
Lemma in_code_descending_check : forallb table_descending_any_context (all_tables in_code_regimes) = true.
Proof. vm_compute. reflexivity. Qed.
Lemma in_code_dates_valid_check : forallb table_dates_valid (all_tables in_code_regimes) = true.
Proof. vm_compute. reflexivity. Qed.

Lemma published_unqualified_strict_check : forallb table_unqualified_strict (all_tables published_regimes) = true.
Proof. vm_compute. reflexivity. Qed.
Lemma published_descending_check : forallb table_descending_any_context (all_tables published_regimes) = true.
Proof. vm_compute. reflexivity. Qed.
Lemma published_dates_valid_check : forallb table_dates_valid (all_tables published_regimes) = true.
Proof. vm_compute. reflexivity. Qed.

Section Lifted.
  Variable regs : list (named regime).
  Hypothesis Hstrict : forallb table_unqualified_strict (all_tables regs) = true.
  Hypothesis Hdesc : forallb table_descending_any_context (all_tables regs) = true.
  Hypothesis Hvalid : forallb table_dates_valid (all_tables regs) = true.

  Lemma tables_unqualified_strict f r c rt :
    In (f, r) regs -> In c (rg_categories r) -> In rt (cat_rates c) ->
    strictly_descending (filter unqualified (rt_values rt)).
  Proof.
    intros H1 H2 H3. apply table_unqualified_strict_sound.
    exact (all_tables_forall _ _ Hstrict f r c rt H1 H2 H3).
  Qed.

  Lemma tables_descending f r c rt :
    In (f, r) regs -> In c (rg_categories r) -> In rt (cat_rates c) ->
    forall tags ext, descending_in tags ext (rt_values rt).
  Proof.
    intros H1 H2 H3. apply table_descending_sound.
    exact (all_tables_forall _ _ Hdesc f r c rt H1 H2 H3).
  Qed.

  Lemma tables_dates_valid f r c rt v s :
    In (f, r) regs -> In c (rg_categories r) -> In rt (cat_rates c) ->
    In v (rt_values rt) -> rv_since v = Some s -> date_valid s = true.
  Proof.
    intros H1 H2 H3. apply table_dates_valid_sound.
    exact (all_tables_forall _ _ Hvalid f r c rt H1 H2 H3).
  Qed.

  (* end to end: whatever the lookup answers on a shipped table is the latest start in force *)
  Lemma tables_lookup_latest f r c rt d tags ext v :
    In (f, r) regs -> In c (rg_categories r) -> In rt (cat_rates c) ->
    value d tags ext (rt_values rt) = Some v ->
    In v (rt_values rt) /\ applies tags ext v = true /\ sk_le (since_key v) (Some d) /\
    (forall v', In v' (rt_values rt) -> applies tags ext v' = true -> sk_le (since_key v') (Some d) ->
                sk_le (since_key v') (since_key v)).
  Proof.
    intros H1 H2 H3 Hv.
    destruct (value_latest d tags ext (rt_values rt) v (tables_descending f r c rt H1 H2 H3 tags ext) Hv)
      as (A & B & C & D & _).
    auto.
  Qed.
End Lifted.

(* number of tables and values the checks ran over (non-vacuity) *)
Lemma in_code_tables_nonempty :
  (60 <= Z.of_nat (length (all_tables in_code_regimes)))%Z /\
  (80 <= Z.of_nat (length (concat (all_tables in_code_regimes))))%Z.
Proof. vm_compute. split; discriminate. Qed.
