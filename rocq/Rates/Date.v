(* Civil dates as the library stores them (cal.Date = cloud.google.com/go/civil.Date: three
   integers), their order and validity.  Transcribed from civil.Date.Before / After / IsValid.
   Model file: no proofs here (Rates/DateProofs.v). *)
From Coq Require Import ZArith Bool.
From Verif Require Import Defs.DefTypes.
Open Scope Z_scope.

(* civil.Date.Before: lexicographic on (year, month, day) - defined on ANY triple *)
Definition date_before (a b : date) : bool :=
  if negb (d_year a =? d_year b) then d_year a <? d_year b
  else if negb (d_month a =? d_month b) then d_month a <? d_month b
  else d_day a <? d_day b.

Definition date_after (a b : date) : bool := date_before b a.

Definition date_eqb (a b : date) : bool :=
  (d_year a =? d_year b) && (d_month a =? d_month b) && (d_day a =? d_day b).

(* a <= b : "a on or before b" *)
Definition date_le (a b : date) : bool := negb (date_before b a).

Definition leap_year (y : Z) : bool :=
  (y mod 4 =? 0) && (negb (y mod 100 =? 0) || (y mod 400 =? 0)).

Definition days_in_month (y m : Z) : Z :=
  if m =? 2 then (if leap_year y then 29 else 28)
  else if (m =? 4) || (m =? 6) || (m =? 9) || (m =? 11) then 30
  else 31.

(* civil.Date.IsValid: DateOf(time.Date(y, m, d, 0,0,0,0, UTC)) == d, i.e. time.Date does not have to
   normalise anything (proleptic Gregorian calendar) *)
Definition date_valid (a : date) : bool :=
  (1 <=? d_month a) && (d_month a <=? 12) && (1 <=? d_day a) && (d_day a <=? days_in_month (d_year a) (d_month a)).
