(* C12 model: which value of a rate table applies on a date.
   Transcribed from tax/regime_def.go (RateDef.Value, RateValueDef.hasAnyTag, CategoryDef.RateDef,
   RegimeDef.CategoryDef), tax/extensions.go (Extensions.Contains), cbc/key.go (Key.Has, Key.HasPrefix)
   and tax/combo.go (Combo.calculateForRegime, Combo.prepareRate).

   [value] is the code AFTER the proposed repair of defect #1 (a value takes effect ON its start
   date: `!date.Before(since)`); [value_shipped] is the comparison as shipped
   (`since.Before(date)`), kept for the `_refuted` theorem and for replaying the defect.
   [rate_def] is CategoryDef.RateDef after the repair "a rate key is only resolved when its FIRST
   component is a rate of the category" (second loop: key.HasPrefix(r.Key)); [rate_def_shipped] is
   the second loop as shipped before it (key.Has(r.Key): any component), kept for the `_refuted` theorem.
   Model file: no proofs here (Rates/LookupProofs.v). *)
From Coq Require Import List ZArith Bool Strings.Byte.
From Verif Require Import Base.Wire Defs.DefTypes Rates.Date.
Import ListNotations.
Open Scope Z_scope.

(* ---- tags and extension filters ---- *)

(* RateValueDef.hasAnyTag *)
Definition has_any_tag (rvtags tags : list str) : bool :=
  existsb (fun t => existsb (eqb_bytes t) tags) rvtags.

(* map lookup em[k] on an association list *)
Fixpoint ext_get (k : str) (em : kvs) : option str :=
  match em with
  | [] => None
  | (k', v) :: r => if eqb_bytes k' k then Some v else ext_get k r
  end.

(* Extensions.Contains: em has every key of other with the same value; an empty em contains nothing *)
Definition ext_contains (em other : kvs) : bool :=
  match em with
  | [] => false
  | _ => forallb (fun kv => match ext_get (fst kv) em with
                            | Some v2 => eqb_bytes v2 (snd kv)
                            | None => false
                            end) other
  end.

(* the two `continue` guards of RateDef.Value *)
Definition applies (tags : list str) (ext : kvs) (rv : ratevalue) : bool :=
  (match rv_tags rv with [] => true | _ => has_any_tag (rv_tags rv) tags end) &&
  (match rv_ext rv with [] => true | _ => ext_contains ext (rv_ext rv) end).

(* ---- the date test ---- *)

(* start date of a value as the lookup sees it: None = "always" (Since nil or not a valid date) *)
Definition since_key (rv : ratevalue) : option date :=
  match rv_since rv with
  | Some s => if date_valid s then Some s else None
  | None => None
  end.

(* after the repair: in force from the start date itself *)
Definition in_force (d : date) (rv : ratevalue) : bool :=
  match since_key rv with
  | None => true
  | Some s => date_le s d
  end.

(* as shipped: rv.Since.Before(date) *)
Definition in_force_shipped (d : date) (rv : ratevalue) : bool :=
  match since_key rv with
  | None => true
  | Some s => date_before s d
  end.

(* RateDef.Value: first value in table order that applies and is in force *)
Fixpoint value_with (test : date -> ratevalue -> bool) (d : date) (tags : list str) (ext : kvs)
         (vals : list ratevalue) : option ratevalue :=
  match vals with
  | [] => None
  | rv :: r => if applies tags ext rv && test d rv then Some rv else value_with test d tags ext r
  end.

Definition value := value_with in_force.
Definition value_shipped := value_with in_force_shipped.

(* same, returning the position in the table as well (the harness compares positions) *)
Fixpoint value_index_with (test : date -> ratevalue -> bool) (d : date) (tags : list str) (ext : kvs)
         (vals : list ratevalue) (i : Z) : option (Z * ratevalue) :=
  match vals with
  | [] => None
  | rv :: r => if applies tags ext rv && test d rv then Some (i, rv)
               else value_index_with test d tags ext r (i + 1)
  end.

(* ---- keys, categories, rates ---- *)

(* strings.Split(k, "+") *)
Fixpoint split_plus_aux (l cur : bytes) : list bytes :=
  match l with
  | [] => [rev cur]
  | b :: r => if bZ b =? 43 then rev cur :: split_plus_aux r [] else split_plus_aux r (b :: cur)
  end.
Definition split_plus (k : bytes) : list bytes := split_plus_aux k [].

(* cbc.Key.Has: some `+`-separated part is ke *)
Definition key_has (k ke : str) : bool := existsb (fun part => eqb_bytes part ke) (split_plus k).

(* strings.SplitN(k, "+", 2): cut at the first `+` only *)
Fixpoint split_plus_2_aux (l cur : bytes) : list bytes :=
  match l with
  | [] => [rev cur]
  | b :: r => if bZ b =? 43 then [rev cur; r] else split_plus_2_aux r (b :: cur)
  end.
Definition split_plus_2 (k : bytes) : list bytes := split_plus_2_aux k [].

(* cbc.Key.HasPrefix: ks := strings.SplitN(k, "+", 2); ks[0] == ke *)
Definition key_has_prefix (k ke : str) : bool :=
  match split_plus_2 k with
  | p :: _ => eqb_bytes p ke
  | [] => false
  end.

(* the first `+`-separated component of a key (the whole key when it has no `+`) *)
Definition first_part (k : str) : str := hd [] (split_plus k).

(* RegimeDef.CategoryDef *)
Definition category_def (r : regime) (code : str) : option category :=
  find (fun c => eqb_bytes (cat_code c) code) (rg_categories r).

(* CategoryDef.RateDef: two loops over c.Rates - exact match first, then the first rate whose key
   matches by [has] (after the repair: key.HasPrefix(r.Key), the rate key is the FIRST component) *)
Definition rate_def_with (has : str -> str -> bool) (c : category) (key : str) : option ratedef :=
  match find (fun r => eqb_bytes (rt_key r) key) (cat_rates c) with
  | Some r => Some r
  | None => find (fun r => has key (rt_key r)) (cat_rates c)
  end.

Definition rate_def := rate_def_with key_has_prefix.
(* as shipped before the repair: key.Has(r.Key), ANY component; kept for the `_refuted` theorem *)
Definition rate_def_shipped := rate_def_with key_has.

(* RegimeDefCollection.For: by country code or alternative country code *)
Definition regime_for (regs : list (named regime)) (cc : str) : option regime :=
  match find (fun nr => eqb_bytes (rg_country (snd nr)) cc || existsb (eqb_bytes cc) (rg_alt_countries (snd nr))) regs with
  | Some nr => Some (snd nr)
  | None => None
  end.

(* ---- Combo.prepareRate ---- *)

Inductive tax_error := ErrInvalidCategory | ErrInvalidRate | ErrInvalidDate.

(* the combo members the preparation reads and writes *)
Record combo := mkCombo {
  cb_rate : str;                  (* "" = no rate key *)
  cb_percent : option pct;
  cb_surcharge : option pct;
  cb_ext : kvs;
  cb_country_override : bool      (* c.Country != "" after Combo.calculate's normalisation *)
}.

(* for k, v := range rate.Ext { c.Ext[k] = v } on sorted association lists *)
Fixpoint ext_set (k v : str) (em : kvs) : kvs :=
  match em with
  | [] => [(k, v)]
  | (k', v') :: r => if eqb_bytes k' k then (k, v) :: r else (k', v') :: ext_set k v r
  end.
Definition ext_merge (em other : kvs) : kvs := fold_left (fun acc kv => ext_set (fst kv) (snd kv) acc) other em.

Definition prepare_rate_with (test : date -> ratevalue -> bool) (cat : category) (tags : list str)
           (d : date) (c : combo) : tax_error + combo :=
  match cb_rate c with
  | [] => inr c
  | _ =>
    match rate_def cat (cb_rate c) with
    | None => inl ErrInvalidRate
    | Some rate =>
      let ext := if negb (cb_country_override c) && negb (match rt_ext rate with [] => true | _ => false end)
                 then ext_merge (cb_ext c) (rt_ext rate) else cb_ext c in
      if rt_exempt rate then inr (mkCombo (cb_rate c) None None ext (cb_country_override c))
      else match rt_values rate with
           | [] => inr (mkCombo (cb_rate c) (cb_percent c) (cb_surcharge c) ext (cb_country_override c))
           | _ =>
             match value_with test d tags ext (rt_values rate) with
             | None => inl ErrInvalidDate
             | Some v => inr (mkCombo (cb_rate c) (Some (rv_percent v)) (rv_surcharge v) ext (cb_country_override c))
             end
           end
    end
  end.

Definition prepare_rate := prepare_rate_with in_force.
Definition prepare_rate_shipped := prepare_rate_with in_force_shipped.

(* Combo.calculateForRegime *)
Definition calculate_for_regime_with (test : date -> ratevalue -> bool) (r : regime) (catcode : str)
           (tags : list str) (d : date) (c : combo) : tax_error + (bool * combo) :=
  match category_def r catcode with
  | None => inl ErrInvalidCategory
  | Some cat =>
    match prepare_rate_with test cat tags d c with
    | inl e => inl e
    | inr c' => inr (cat_retained cat, c')
    end
  end.

Definition calculate_for_regime := calculate_for_regime_with in_force.

(* ---- order of a table (used by the theorems and by the checkers over the shipped tables) ---- *)

(* start-date order with None = minus infinity *)
Definition sk_leb (a b : option date) : bool :=
  match a, b with
  | None, _ => true
  | Some _, None => false
  | Some x, Some y => date_le x y
  end.
Definition sk_ltb (a b : option date) : bool :=
  match a, b with
  | None, None => false
  | None, Some _ => true
  | Some _, None => false
  | Some x, Some y => date_before x y
  end.

Definition unqualified (rv : ratevalue) : bool :=
  match rv_tags rv, rv_ext rv with [], [] => true | _, _ => false end.

(* two values can never both apply to one document: their extension filters demand different codes
   for one key *)
Definition incompatible (a b : ratevalue) : bool :=
  existsb (fun kv => match ext_get (fst kv) (rv_ext b) with
                     | Some v => negb (eqb_bytes v (snd kv))
                     | None => false
                     end) (rv_ext a).

Fixpoint all_pairs {A} (chk : A -> A -> bool) (l : list A) : bool :=
  match l with
  | [] => true
  | x :: r => forallb (chk x) r && all_pairs chk r
  end.

(* checkRateValuesOrder (tax/regime_def.go), the order test RateDef validation runs; only unqualified
   values are looked at; None = the code dereferences a nil Since (v.Since.IsValid() after a dated entry) *)
Fixpoint check_order (vals : list ratevalue) (prev : option date) : option bool :=
  match vals with
  | [] => Some true
  | v :: r =>
    if negb (unqualified v) then check_order r prev
    else match prev with
         | Some p =>
           if date_valid p then
             match rv_since v with
             | None => None
             | Some s => if date_valid s && negb (date_before s p) then Some false else check_order r (rv_since v)
             end
           else check_order r (rv_since v)
         | None => check_order r (rv_since v)
         end
  end.

(* boolean checkers for one table *)
Definition table_unqualified_strict (vals : list ratevalue) : bool :=
  all_pairs (fun a b => sk_ltb (since_key b) (since_key a)) (filter unqualified vals).
Definition table_descending_any_context (vals : list ratevalue) : bool :=
  all_pairs (fun a b => sk_leb (since_key b) (since_key a) || incompatible a b) vals.
Definition table_dates_valid (vals : list ratevalue) : bool :=
  forallb (fun rv => match rv_since rv with Some s => date_valid s | None => true end) vals.

(* every table of every category of every regime *)
Definition all_tables (regs : list (named regime)) : list (list ratevalue) :=
  flat_map (fun nr => flat_map (fun c => map rt_values (cat_rates c)) (rg_categories (snd nr))) regs.
