(* Proofs about Rates/Date.v: date_before is the strict lexicographic order on triples (a strict
   total order on ALL triples, valid or not), date_le its reflexive closure. *)
From Coq Require Import ZArith Bool Lia.
From Verif Require Import Defs.DefTypes Rates.Date.
Open Scope Z_scope.

Definition date_lt (a b : date) : Prop :=
  d_year a < d_year b \/
  (d_year a = d_year b /\ (d_month a < d_month b \/ (d_month a = d_month b /\ d_day a < d_day b))).

Lemma date_before_iff a b : date_before a b = true <-> date_lt a b.
Proof.
  unfold date_before, date_lt.
  destruct (d_year a =? d_year b) eqn:Ey; cbn [negb].
  - apply Z.eqb_eq in Ey.
    destruct (d_month a =? d_month b) eqn:Em; cbn [negb].
    + apply Z.eqb_eq in Em. rewrite Z.ltb_lt. lia.
    + apply Z.eqb_neq in Em. rewrite Z.ltb_lt. lia.
  - apply Z.eqb_neq in Ey. rewrite Z.ltb_lt. lia.
Qed.

Lemma date_before_false_iff a b : date_before a b = false <-> ~ date_lt a b.
Proof.
  rewrite <- date_before_iff. destruct (date_before a b); split; intro H; try reflexivity; try discriminate.
  exfalso; apply H; reflexivity.
Qed.

Lemma date_eq_fields a b : d_year a = d_year b -> d_month a = d_month b -> d_day a = d_day b -> a = b.
Proof. destruct a, b; cbn; intros; subst; reflexivity. Qed.

Lemma date_before_irrefl a : date_before a a = false.
Proof. apply date_before_false_iff. unfold date_lt. lia. Qed.

Lemma date_before_trans a b c : date_before a b = true -> date_before b c = true -> date_before a c = true.
Proof. rewrite !date_before_iff. unfold date_lt. lia. Qed.

Lemma date_before_asym a b : date_before a b = true -> date_before b a = false.
Proof. rewrite date_before_iff, date_before_false_iff. unfold date_lt. lia. Qed.

(* trichotomy: neither before the other means equal *)
Lemma date_before_total a b : date_before a b = false -> date_before b a = false -> a = b.
Proof.
  rewrite !date_before_false_iff. unfold date_lt. intros H1 H2.
  apply date_eq_fields; lia.
Qed.

Lemma date_le_refl a : date_le a a = true.
Proof. unfold date_le. rewrite date_before_irrefl. reflexivity. Qed.

Lemma date_le_trans a b c : date_le a b = true -> date_le b c = true -> date_le a c = true.
Proof.
  unfold date_le. rewrite !negb_true_iff, !date_before_false_iff. unfold date_lt. lia.
Qed.

Lemma date_le_antisym a b : date_le a b = true -> date_le b a = true -> a = b.
Proof. unfold date_le. rewrite !negb_true_iff. intros; apply date_before_total; assumption. Qed.

Lemma date_le_total a b : date_le a b = true \/ date_le b a = true.
Proof.
  unfold date_le. destruct (date_before b a) eqn:E; [right|left; reflexivity].
  rewrite (date_before_asym _ _ E). reflexivity.
Qed.

Lemma date_le_iff a b : date_le a b = true <-> date_before a b = true \/ a = b.
Proof.
  unfold date_le. rewrite negb_true_iff. split.
  - intro H. destruct (date_before a b) eqn:E; [left; reflexivity|right; apply date_before_total; assumption].
  - intros [H | ->]; [apply date_before_asym; assumption | apply date_before_irrefl].
Qed.

Lemma date_before_le a b : date_before a b = true -> date_le a b = true.
Proof. intro; apply date_le_iff; left; assumption. Qed.

Lemma date_before_le_trans a b c : date_before a b = true -> date_le b c = true -> date_before a c = true.
Proof.
  unfold date_le. rewrite negb_true_iff, !date_before_iff, date_before_false_iff. unfold date_lt. lia.
Qed.

Lemma date_le_before_trans a b c : date_le a b = true -> date_before b c = true -> date_before a c = true.
Proof.
  unfold date_le. rewrite negb_true_iff, !date_before_iff, date_before_false_iff. unfold date_lt. lia.
Qed.

Lemma date_eqb_eq a b : date_eqb a b = true <-> a = b.
Proof.
  unfold date_eqb. rewrite !andb_true_iff, !Z.eqb_eq. split.
  - intros [[H1 H2] H3]; apply date_eq_fields; assumption.
  - intros ->; auto.
Qed.
