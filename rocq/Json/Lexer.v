(* What encoding/json's Decoder.Token (with UseNumber) delivers to c14n: the token state machine
   of stream.go (tokenTopValue ... tokenObjectComma, with its stack), scalar values scanned
   as scanner.go + decode.go do (one value, the byte after it is not consumed; literals,
   numbers kept as text, strings unquoted with Go's coercions: invalid UTF-8 bytes and unpaired
   \u surrogates become U+FFFD).  Executable stand-in for the external tokenizer, validated
   differentially against Go.  Model only. *)
From Coq Require Import String.
From Coq Require Import List ZArith Strings.Byte Bool.
From Verif Require Import Base.Wire Json.Utf8 Json.Json Json.Number.
Import ListNotations.
Open Scope Z_scope.

Inductive tstate :=
| TopValue | ArrayStart | ArrayValue | ArrayComma
| ObjectStart | ObjectKey | ObjectColon | ObjectValue | ObjectComma.

Definition tstate_eqb (a b : tstate) : bool :=
  match a, b with
  | TopValue, TopValue | ArrayStart, ArrayStart | ArrayValue, ArrayValue | ArrayComma, ArrayComma
  | ObjectStart, ObjectStart | ObjectKey, ObjectKey | ObjectColon, ObjectColon
  | ObjectValue, ObjectValue | ObjectComma, ObjectComma => true
  | _, _ => false
  end.

Record dec := mkDec { st : tstate; stk : list tstate; inp : bytes }.

Inductive tok := TDelim (open : bool) (curly : bool) | TString (s : bytes) | TNumber (lit : bytes) | TBool (b : bool) | TNull.
Inductive tokres := TkEOF | TkErr | Tk (t : tok) (d : dec).

Fixpoint skip_ws (l : bytes) : bytes :=
  match l with
  | b :: r => if is_space b then skip_ws r else l
  | [] => []
  end.

(* tokenValueAllowed / tokenValueEnd *)
Definition value_allowed (s : tstate) : bool :=
  match s with TopValue | ArrayStart | ArrayValue | ObjectValue => true | _ => false end.
Definition value_end (s : tstate) : tstate :=
  match s with ArrayStart | ArrayValue => ArrayComma | ObjectValue => ObjectComma | _ => s end.

(* ---- strings ---- *)
Definition hex4 (a b c d : byte) : option Z :=
  match hexval a, hexval b, hexval c, hexval d with
  | Some x, Some y, Some z, Some w => Some (((x * 16 + y) * 16 + z) * 16 + w)
  | _, _, _, _ => None
  end.

Definition c_bs := ch 92.   (* \ *)
Definition c_quote := ch 34.
Definition c_u := ch 117.

Definition fffd : bytes := [ch 239; ch 191; ch 189].

(* two-character escapes of JSON: the byte each one denotes *)
Definition simple_escape (b : byte) : option byte :=
  let z := bZ b in
  if z =? 34 then Some (ch 34) else if z =? 92 then Some (ch 92) else if z =? 47 then Some (ch 47)
  else if z =? 98 then Some (ch 8) else if z =? 102 then Some (ch 12) else if z =? 110 then Some (ch 10)
  else if z =? 114 then Some (ch 13) else if z =? 116 then Some (ch 9) else None.

(* scans the body of a string after the opening quote: (unquoted contents, rest after the
   closing quote); None = syntax error (control character, bad escape, missing closing quote) *)
Fixpoint scan_string (fuel : nat) (s : bytes) : option (bytes * bytes) :=
  match fuel with
  | O => None
  | S f =>
    match s with
    | [] => None
    | b :: r =>
      let z := bZ b in
      if z =? 34 then Some ([], r)
      else if z <? 32 then None
      else if z =? 92 then
        match r with
        | e :: r1 =>
          if Byte.eqb e c_u then
            match r1 with
            | h1 :: h2 :: h3 :: h4 :: r2 =>
              match hex4 h1 h2 h3 h4 with
              | None => None
              | Some cp =>
                if (55296 <=? cp) && (cp <? 57344) then
                  (* surrogate: a valid pair is combined, anything else is U+FFFD and the
                     following escape (if any) is scanned again on its own *)
                  let pair :=
                    match r2 with
                    | b1 :: b2 :: g1 :: g2 :: g3 :: g4 :: r3 =>
                      if Byte.eqb b1 c_bs && Byte.eqb b2 c_u then
                        match hex4 g1 g2 g3 g4 with
                        | Some lo => if (cp <? 56320) && (56320 <=? lo) && (lo <? 57344)
                                     then Some ((cp - 55296) * 1024 + (lo - 56320) + 65536, r3) else None
                        | None => None
                        end
                      else None
                    | _ => None
                    end in
                  match pair with
                  | Some (c, r3) => option_map (fun '(o, t) => (encode_rune c ++ o, t)) (scan_string f r3)
                  | None => option_map (fun '(o, t) => (fffd ++ o, t)) (scan_string f r2)
                  end
                else option_map (fun '(o, t) => (encode_rune cp ++ o, t)) (scan_string f r2)
              end
            | _ => None
            end
          else
            match simple_escape e with
            | Some c => option_map (fun '(o, t) => (c :: o, t)) (scan_string f r1)
            | None => None
            end
        | [] => None
        end
      else if z <? 128 then option_map (fun '(o, t) => (b :: o, t)) (scan_string f r)
      else
        let '(c, n) := decode_rune s in
        if (c =? rune_error) && Nat.eqb n 1
        then option_map (fun '(o, t) => (fffd ++ o, t)) (scan_string f r)
        else option_map (fun '(o, t) => (firstn n s ++ o, t)) (scan_string f (skipn n s))
    end
  end.

(* ---- numbers: the scanner's automaton: optional minus, then 0 or a nonzero digit followed by
   digits, then optionally a dot and one or more digits, then optionally e or E, an optional
   sign and one or more digits; longest match; (literal, rest); None = syntax error / unexpected EOF inside the literal ---- *)
Definition scan_number (s : bytes) : option (bytes * bytes) :=
  let '(sg, r0) := match s with
                   | b :: r => if Byte.eqb b c_minus then ([b], r) else ([], s)
                   | [] => ([], [])
                   end in
  match r0 with
  | [] => None
  | d0 :: r1 =>
    if negb (is_digit d0) then None
    else
      let '(ip, r2) := if Byte.eqb d0 c_0 then ([d0], r1) else let '(ds, t) := span_digits r1 in (d0 :: ds, t) in
      let frac :=
        match r2 with
        | b :: r3 => if Byte.eqb b c_dot then
                       let '(fs, t) := span_digits r3 in
                       match fs with [] => None | _ => Some (b :: fs, t) end
                     else Some ([], r2)
        | [] => Some ([], [])
        end in
      match frac with
      | None => None
      | Some (fp, r4) =>
        let expo :=
          match r4 with
          | b :: r5 =>
            if Byte.eqb b c_e || Byte.eqb b c_E then
              let '(sg2, r6) := match r5 with
                                | x :: r' => if Byte.eqb x c_minus || Byte.eqb x c_plus then ([x], r') else ([], r5)
                                | [] => ([], [])
                                end in
              let '(es, t) := span_digits r6 in
              match es with [] => None | _ => Some (b :: sg2 ++ es, t) end
            else Some ([], r4)
          | [] => Some ([], [])
          end in
        match expo with
        | None => None
        | Some (ep, r7) => Some (sg ++ ip ++ fp ++ ep, r7)
        end
      end
  end.

Fixpoint strip_prefix (p s : bytes) : option bytes :=
  match p, s with
  | [], _ => Some s
  | x :: p', y :: s' => if Byte.eqb x y then strip_prefix p' s' else None
  | _ :: _, [] => None
  end.

(* Decoder.Decode(&x) of one scalar value starting at c :: r (c is not one of [ ] { } : ,) *)
Definition scan_scalar (s : bytes) : option (tok * bytes) :=
  match s with
  | [] => None
  | c :: r =>
    let z := bZ c in
    if z =? 34 then option_map (fun '(o, t) => (TString o, t)) (scan_string (S (length r)) r)
    else if z =? 116 then option_map (fun t => (TBool true, t)) (strip_prefix (bs "true"%string) s)
    else if z =? 102 then option_map (fun t => (TBool false, t)) (strip_prefix (bs "false"%string) s)
    else if z =? 110 then option_map (fun t => (TNull, t)) (strip_prefix (bs "null"%string) s)
    else if (z =? 45) || is_digit c then option_map (fun '(l, t) => (TNumber l, t)) (scan_number s)
    else None
  end.

(* Token() without its `continue` cases: ':' and ',' are errors here *)
Definition token1 (d : dec) : tokres :=
  match skip_ws (inp d) with
  | [] => TkEOF
  | c :: r =>
    let z := bZ c in
    if z =? 91 then      (* [ *)
      if value_allowed (st d) then Tk (TDelim true false) (mkDec ArrayStart (st d :: stk d) r) else TkErr
    else if z =? 93 then (* ] *)
      match st d, stk d with
      | (ArrayStart | ArrayComma), p :: ps => Tk (TDelim false false) (mkDec (value_end p) ps r)
      | _, _ => TkErr
      end
    else if z =? 123 then (* { *)
      if value_allowed (st d) then Tk (TDelim true true) (mkDec ObjectStart (st d :: stk d) r) else TkErr
    else if z =? 125 then (* } *)
      match st d, stk d with
      | (ObjectStart | ObjectComma), p :: ps => Tk (TDelim false true) (mkDec (value_end p) ps r)
      | _, _ => TkErr
      end
    else if (z =? 58) || (z =? 44) then TkErr
    else if (z =? 34) && (tstate_eqb (st d) ObjectStart || tstate_eqb (st d) ObjectKey) then
      match scan_string (S (length r)) r with
      | Some (k, t) => Tk (TString k) (mkDec ObjectColon (stk d) t)
      | None => TkErr
      end
    else if value_allowed (st d) then
      match scan_scalar (c :: r) with
      | Some (t, rest) => Tk t (mkDec (value_end (st d)) (stk d) rest)
      | None => TkErr
      end
    else TkErr
  end.

(* Decoder.Token(): ':' after a key and ',' between elements are consumed silently (once) *)
Definition token (d : dec) : tokres :=
  match skip_ws (inp d) with
  | c :: r =>
    let z := bZ c in
    if z =? 58 then
      if tstate_eqb (st d) ObjectColon then token1 (mkDec ObjectValue (stk d) r) else TkErr
    else if z =? 44 then
      if tstate_eqb (st d) ArrayComma then token1 (mkDec ArrayValue (stk d) r)
      else if tstate_eqb (st d) ObjectComma then token1 (mkDec ObjectKey (stk d) r)
      else TkErr
    else token1 d
  | [] => TkEOF
  end.
