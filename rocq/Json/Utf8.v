(* UTF-8 as Go's unicode/utf8 does it: DecodeRune (with the (RuneError,1) result for every
   malformed, overlong, surrogate or out-of-range sequence) and EncodeRune. Model only. *)
From Coq Require Import List ZArith Strings.Byte Bool.
From Verif Require Import Base.Wire.
Import ListNotations.
Open Scope Z_scope.

Definition rune_error : Z := 65533. (* U+FFFD *)

Definition in_rng (lo hi : Z) (b : byte) : bool := (lo <=? bZ b) && (bZ b <=? hi).
Definition cont (b : byte) : bool := in_rng 128 191 b.

(* accept range of the second byte, by first byte (utf8.first / acceptRanges) *)
Definition second_ok (b0 b1 : byte) : bool :=
  let z := bZ b0 in
  if z =? 224 then in_rng 160 191 b1           (* E0 *)
  else if z =? 237 then in_rng 128 159 b1      (* ED: no surrogates *)
  else if z =? 240 then in_rng 144 191 b1      (* F0 *)
  else if z =? 244 then in_rng 128 143 b1      (* F4: <= U+10FFFF *)
  else cont b1.

(* utf8.DecodeRune: (rune, size); size 0 only for empty input *)
Definition decode_rune (s : bytes) : Z * nat :=
  match s with
  | [] => (rune_error, 0%nat)
  | b0 :: r =>
    let z := bZ b0 in
    if z <? 128 then (z, 1%nat)
    else if z <? 194 then (rune_error, 1%nat)                       (* 80..C1 *)
    else if z <? 224 then                                           (* C2..DF *)
      match r with
      | b1 :: _ => if cont b1 then ((z - 192) * 64 + (bZ b1 - 128), 2%nat) else (rune_error, 1%nat)
      | _ => (rune_error, 1%nat)
      end
    else if z <? 240 then                                           (* E0..EF *)
      match r with
      | b1 :: b2 :: _ =>
        if second_ok b0 b1 && cont b2
        then ((z - 224) * 4096 + (bZ b1 - 128) * 64 + (bZ b2 - 128), 3%nat)
        else (rune_error, 1%nat)
      | _ => (rune_error, 1%nat)
      end
    else if z <? 245 then                                           (* F0..F4 *)
      match r with
      | b1 :: b2 :: b3 :: _ =>
        if second_ok b0 b1 && cont b2 && cont b3
        then ((z - 240) * 262144 + (bZ b1 - 128) * 4096 + (bZ b2 - 128) * 64 + (bZ b3 - 128), 4%nat)
        else (rune_error, 1%nat)
      | _ => (rune_error, 1%nat)
      end
    else (rune_error, 1%nat)
  end.

(* utf8.EncodeRune / AppendRune: surrogates and out-of-range values become U+FFFD *)
Definition encode_rune (c : Z) : bytes :=
  if (c <? 0) || (1114111 <? c) || ((55296 <=? c) && (c <=? 57343))
  then [byte_of_Z 239; byte_of_Z 191; byte_of_Z 189]
  else if c <? 128 then [byte_of_Z c]
  else if c <? 2048 then [byte_of_Z (192 + c / 64); byte_of_Z (128 + c mod 64)]
  else if c <? 65536 then [byte_of_Z (224 + c / 4096); byte_of_Z (128 + (c / 64) mod 64); byte_of_Z (128 + c mod 64)]
  else [byte_of_Z (240 + c / 262144); byte_of_Z (128 + (c / 4096) mod 64);
        byte_of_Z (128 + (c / 64) mod 64); byte_of_Z (128 + c mod 64)].

Definition is_scalar (c : Z) : bool :=
  (0 <=? c) && (c <=? 1114111) && negb ((55296 <=? c) && (c <=? 57343)).

(* utf8.Valid, fuel = length *)
Fixpoint valid_utf8_f (fuel : nat) (s : bytes) : bool :=
  match s with
  | [] => true
  | _ =>
    match fuel with
    | O => false
    | S f =>
      let '(c, n) := decode_rune s in
      if (c =? rune_error) && Nat.eqb n 1 then false else valid_utf8_f f (skipn n s)
    end
  end.
Definition valid_utf8 (s : bytes) : bool := valid_utf8_f (length s) s.

(* byte-wise lexicographic order on strings: Go's `<` on strings *)
Fixpoint bytes_ltb (a b : bytes) : bool :=
  match a, b with
  | _, [] => false
  | [], _ :: _ => true
  | x :: a', y :: b' => if bZ x <? bZ y then true else if bZ y <? bZ x then false else bytes_ltb a' b'
  end.
