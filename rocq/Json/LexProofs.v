(* Lexical round trips: what MarshalJSON prints for integers and strings is read back by the
   scanner (scan_number / scan_string) as the same integer / string. *)
From Coq Require Import String.
From Coq Require Import List ZArith Strings.Byte Bool Lia.
From Verif Require Import Base.Wire Json.Utf8 Json.Json Json.Number Json.Lexer Json.C14n.
Import ListNotations.
Open Scope Z_scope.

(* ---- small facts about bytes ---- *)
Lemma bZ_range b : 0 <= bZ b < 256.
Proof. unfold bZ. destruct b; cbn; lia. Qed.

Lemma bZ_ch z : 0 <= z < 256 -> bZ (ch z) = z.
Proof.
  intros H. unfold ch, byte_of_Z, bZ. rewrite Z.mod_small by lia.
  destruct (Byte.of_N (Z.to_N z)) eqn:E.
  - apply Byte.to_of_N in E. rewrite E. lia.
  - apply Byte.of_N_None_iff in E. lia.
Qed.

Lemma byte_eqb_bZ a b : Byte.eqb a b = (bZ a =? bZ b).
Proof.
  destruct (Byte.eqb a b) eqn:E.
  - apply Byte.byte_dec_bl in E. subst. now rewrite Z.eqb_refl.
  - symmetry. apply Z.eqb_neq. intro H. unfold bZ in H. apply N2Z.inj in H.
    assert (Byte.of_N (Byte.to_N a) = Byte.of_N (Byte.to_N b)) by (now rewrite H).
    rewrite !Byte.of_to_N in H0. inversion H0; subst.
    rewrite (@Byte.byte_dec_lb b b eq_refl) in E. discriminate.
Qed.

Lemma is_digit_range b : is_digit b = true <-> 48 <= bZ b <= 57.
Proof. unfold is_digit. rewrite andb_true_iff, !Z.leb_le. tauto. Qed.

(* ---- decimal digits ---- *)
Lemma read_digits_snoc l c : read_digits (l ++ [c]) = read_digits l * 10 + (bZ c - 48).
Proof. unfold read_digits. now rewrite fold_left_app. Qed.

Lemma read_digits_single d : read_digits [d] = bZ d - 48.
Proof. unfold read_digits. cbn [fold_left]. lia. Qed.

Lemma all_digits_app a b : all_digits (a ++ b) = all_digits a && all_digits b.
Proof. unfold all_digits. apply forallb_app. Qed.

Lemma digit_ch n : 0 <= n < 10 -> is_digit (ch (48 + n)) = true /\ bZ (ch (48 + n)) - 48 = n.
Proof. intros H. rewrite is_digit_range, bZ_ch by lia. lia. Qed.

Lemma digits_f_S f n acc :
  digits_f (S f) n acc = if n <? 10 then ch (48 + n mod 10) :: acc else digits_f f (n / 10) (ch (48 + n mod 10) :: acc).
Proof. reflexivity. Qed.

(* the shape of digits_f's result: a leading digit d (nonzero unless n = 0), further digits r *)
Lemma digits_f_spec f : forall n acc, 0 <= n < 2 ^ Z.of_nat (S f) ->
  exists d r, digits_f (S f) n acc = d :: r ++ acc /\ is_digit d = true /\ all_digits r = true /\
              read_digits (d :: r) = n /\ (bZ d = 48 -> r = [] /\ n = 0).
Proof.
  assert (Base : forall (f0 : nat) n acc, 0 <= n < 10 ->
     exists d r, ch (48 + n mod 10) :: acc = d :: r ++ acc /\ is_digit d = true /\ all_digits r = true /\
              read_digits (d :: r) = n /\ (bZ d = 48 -> r = [] /\ n = 0)).
  { intros _ n acc Hn.
    destruct (digit_ch (n mod 10)) as [D1 D2]; [apply Z.mod_pos_bound; lia|].
    exists (ch (48 + n mod 10)), []. cbn [app].
    refine (conj eq_refl (conj D1 (conj eq_refl (conj _ _)))).
    - rewrite read_digits_single, D2. rewrite Z.mod_small; lia.
    - intro Hd. rewrite bZ_ch in Hd by (pose proof (Z.mod_pos_bound n 10); lia).
      rewrite Z.mod_small in Hd by lia. split; [auto|lia]. }
  induction f as [|f IH]; intros n acc Hn.
  - assert (n < 10) by (cbn in Hn; lia). rewrite digits_f_S.
    destruct (n <? 10) eqn:E; [|lia]. apply (Base 0%nat); lia.
  - rewrite digits_f_S. destruct (n <? 10) eqn:E.
    + apply Z.ltb_lt in E. apply (Base 0%nat); lia.
    + apply Z.ltb_ge in E.
      assert (Hq : 0 <= n / 10 < 2 ^ Z.of_nat (S f)).
      { split; [apply Z.div_pos; lia|]. apply Z.div_lt_upper_bound; [lia|].
        replace (Z.of_nat (S (S f))) with (Z.of_nat (S f) + 1) in Hn by lia.
        rewrite Z.pow_add_r in Hn by lia. lia. }
      destruct (IH (n / 10) (ch (48 + n mod 10) :: acc) Hq) as [d [r [E1 [E2 [E3 [E4 E5]]]]]].
      destruct (digit_ch (n mod 10)) as [D1 D2]; [apply Z.mod_pos_bound; lia|].
      exists d, (r ++ [ch (48 + n mod 10)]).
      refine (conj _ (conj E2 (conj _ (conj _ _)))).
      * rewrite E1. now rewrite <- app_assoc.
      * rewrite all_digits_app, E3. unfold all_digits. cbn [forallb andb]. now rewrite D1.
      * change (d :: r ++ [ch (48 + n mod 10)]) with ((d :: r) ++ [ch (48 + n mod 10)]).
        rewrite read_digits_snoc, E4, D2. pose proof (Z.div_mod n 10). lia.
      * intro Hd. destruct (E5 Hd) as [_ E0]. exfalso.
        pose proof (Z.div_mod n 10). pose proof (Z.mod_pos_bound n 10). lia.
Qed.

Lemma digits_spec n : 0 <= n ->
  exists d r, digits n = d :: r /\ is_digit d = true /\ all_digits r = true /\
              read_digits (d :: r) = n /\ (bZ d = 48 -> r = [] /\ n = 0).
Proof.
  intros Hn. unfold digits.
  assert (H : 0 <= n < 2 ^ Z.of_nat (S (Z.to_nat (Z.log2 n)))).
  { split; auto. rewrite Nat2Z.inj_succ, Z2Nat.id by apply Z.log2_nonneg.
    destruct (Z.eq_dec n 0) as [->|]; [cbn; lia|]. apply Z.log2_spec. lia. }
  destruct (digits_f_spec _ n [] H) as [d [r [E1 E2]]].
  exists d, r. rewrite E1, app_nil_r. auto.
Qed.

(* ---- scanning digits ---- *)
Definition nondigit_start (rest : bytes) : Prop :=
  match rest with [] => True | b :: _ => is_digit b = false end.

Lemma span_digits_app ds rest : all_digits ds = true -> nondigit_start rest ->
  span_digits (ds ++ rest) = (ds, rest).
Proof.
  induction ds as [|d ds IH]; cbn [app]; intros H1 H2.
  - destruct rest as [|b r]; auto. unfold nondigit_start in H2. cbn [span_digits]. now rewrite H2.
  - unfold all_digits in H1. cbn [forallb] in H1. rewrite andb_true_iff in H1. destruct H1 as [Hd H1].
    cbn [span_digits]. rewrite Hd, IH; auto.
Qed.

(* what may follow a value in canonical output: nothing, or , ] } *)
Definition term (rest : bytes) : Prop :=
  match rest with [] => True | b :: _ => bZ b = 44 \/ bZ b = 93 \/ bZ b = 125 end.

Lemma term_nondigit rest : term rest -> nondigit_start rest.
Proof.
  destruct rest as [|b r]; cbn; auto. intro H.
  destruct (is_digit b) eqn:E; auto. apply is_digit_range in E. lia.
Qed.

Lemma c_minus_Z : bZ c_minus = 45. Proof. reflexivity. Qed.
Lemma c_dot_Z : bZ c_dot = 46. Proof. reflexivity. Qed.
Lemma c_0_Z : bZ c_0 = 48. Proof. reflexivity. Qed.
Lemma c_e_Z : bZ c_e = 101. Proof. reflexivity. Qed.
Lemma c_E_Z : bZ c_E = 69. Proof. reflexivity. Qed.

(* scan_number reads back exactly the digits of a plain integer *)
Lemma scan_number_nat n rest : 0 <= n -> term rest ->
  scan_number (digits n ++ rest) = Some (digits n, rest).
Proof.
  intros Hn Ht. destruct (digits_spec n Hn) as [d [r [E1 [E2 [E3 [E4 E5]]]]]].
  rewrite E1. unfold scan_number. cbn [app].
  assert (Hd := proj1 (is_digit_range d) E2).
  rewrite byte_eqb_bZ, c_minus_Z. destruct (bZ d =? 45) eqn:E; [lia|]. clear E.
  rewrite E2. cbn [negb].
  rewrite byte_eqb_bZ, c_0_Z.
  assert (Hrest : match rest with
                  | [] => True
                  | b :: _ => Byte.eqb b c_dot = false /\ Byte.eqb b c_e = false /\ Byte.eqb b c_E = false
                  end).
  { destruct rest as [|b rr]; auto. cbn in Ht. rewrite !byte_eqb_bZ, c_dot_Z, c_e_Z, c_E_Z.
    repeat split; apply Z.eqb_neq; lia. }
  destruct (bZ d =? 48) eqn:E0.
  - apply Z.eqb_eq in E0. destruct (E5 E0) as [-> _]. cbn [app].
    destruct rest as [|b rr]; auto. destruct Hrest as [H1 [H2 H3]]. rewrite H1, H2, H3. reflexivity.
  - rewrite (span_digits_app r rest E3 (term_nondigit _ Ht)).
    destruct rest as [|b rr]; [now rewrite !app_nil_r|]. destruct Hrest as [H1 [H2 H3]]. rewrite H1, H2, H3.
    cbn. now rewrite !app_nil_r.
Qed.

Lemma scan_number_int z rest : term rest ->
  scan_number (format_int z ++ rest) = Some (format_int z, rest).
Proof.
  intros Ht. unfold format_int. destruct (z <? 0) eqn:E.
  - apply Z.ltb_lt in E.
    assert (Hn : 0 <= - z) by lia.
    pose proof (scan_number_nat (- z) rest Hn Ht) as HS.
    destruct (digits_spec (- z) Hn) as [d [r [E1 [E2 _]]]].
    assert (Hd := proj1 (is_digit_range d) E2).
    unfold scan_number in *. cbn [app]. rewrite (@Byte.byte_dec_lb c_minus c_minus eq_refl).
    rewrite E1 in *. cbn [app] in *.
    rewrite byte_eqb_bZ, c_minus_Z in HS. destruct (bZ d =? 45) eqn:E'; [lia|].
    destruct (negb (is_digit d)); [discriminate|].
    destruct (if Byte.eqb d c_0 then ([d], r ++ rest) else let '(ds, t) := span_digits (r ++ rest) in (d :: ds, t)) as [ip r2].
    destruct (match r2 with
              | [] => Some ([], [])
              | b :: r3 => if Byte.eqb b c_dot then let '(fs, t) := span_digits r3 in match fs with [] => None | _ :: _ => Some (b :: fs, t) end else Some ([], r2)
              end) as [[fp r4]|]; [|discriminate].
    destruct (match r4 with
              | [] => Some ([], [])
              | b :: r5 =>
                if Byte.eqb b c_e || Byte.eqb b c_E
                then let '(sg2, r6) := match r5 with
                                       | [] => ([], [])
                                       | x :: r' => if Byte.eqb x c_minus || Byte.eqb x c_plus then ([x], r') else ([], r5)
                                       end in
                     let '(es, t) := span_digits r6 in match es with [] => None | _ :: _ => Some (b :: sg2 ++ es, t) end
                else Some ([], r4)
              end) as [[ep r7]|]; [|discriminate].
    inversion HS; subst. cbn. reflexivity.
  - apply Z.ltb_ge in E. now apply scan_number_nat.
Qed.

Lemma parse_int64_format z : in_int64 z = true -> parse_int64 (format_int z) = Some z.
Proof.
  intros Hr. unfold format_int, parse_int64. destruct (z <? 0) eqn:E.
  - apply Z.ltb_lt in E. rewrite (@Byte.byte_dec_lb c_minus c_minus eq_refl).
    destruct (digits_spec (- z)) as [d [r [E1 [E2 [E3 [E4 _]]]]]]; [lia|].
    rewrite E1. unfold all_digits in *. cbn [forallb]. rewrite E2. cbn [andb]. rewrite E3.
    rewrite <- E1, E1, E4. replace (- - z) with z by lia. now rewrite Hr.
  - apply Z.ltb_ge in E.
    destruct (digits_spec z E) as [d [r [E1 [E2 [E3 [E4 _]]]]]].
    rewrite E1. assert (Hd := proj1 (is_digit_range d) E2).
    rewrite byte_eqb_bZ, c_minus_Z. destruct (bZ d =? 45) eqn:E'; [lia|].
    unfold all_digits in *. cbn [forallb]. rewrite E2. cbn [andb]. rewrite E3, E4. now rewrite Hr.
Qed.

Lemma format_int_start z : exists c r, format_int z = c :: r /\ (c = c_minus \/ is_digit c = true).
Proof.
  unfold format_int. destruct (z <? 0) eqn:E.
  - eexists _, _. split; [reflexivity|]. now left.
  - apply Z.ltb_ge in E. destruct (digits_spec z E) as [d [r [E1 [E2 _]]]].
    exists d, r. split; auto.
Qed.

(* ---- strings ---- *)
(* a successful DecodeRune only looks at the bytes it consumes *)
Lemma decode_prefix s cp n : decode_rune s = (cp, n) -> cp <> rune_error ->
  length (firstn n s) = n /\ (1 <= n)%nat /\ forall t, decode_rune (firstn n s ++ t) = (cp, n).
Proof.
  unfold decode_rune. intros H Hne.
  destruct s as [|b0 r]; [inversion H; congruence|]. cbv zeta in H.
  destruct (bZ b0 <? 128) eqn:E1.
  { inversion H; subst. cbn [firstn app length]. repeat split; auto. intros t. now rewrite E1. }
  destruct (bZ b0 <? 194) eqn:E2; [inversion H; congruence|].
  destruct (bZ b0 <? 224) eqn:E3.
  { destruct r as [|b1 r]; [inversion H; congruence|].
    destruct (cont b1) eqn:C1; inversion H; subst; [|congruence].
    cbn [firstn app length]. repeat split; auto. intros t. now rewrite E1, E2, E3, C1. }
  destruct (bZ b0 <? 240) eqn:E4.
  { destruct r as [|b1 [|b2 r]]; try (inversion H; congruence).
    destruct (second_ok b0 b1 && cont b2) eqn:C1; inversion H; subst; [|congruence].
    cbn [firstn app length]. repeat split; auto. intros t. now rewrite E1, E2, E3, E4, C1. }
  destruct (bZ b0 <? 245) eqn:E5; [|inversion H; congruence].
  destruct r as [|b1 [|b2 [|b3 r]]]; try (inversion H; congruence).
  destruct (second_ok b0 b1 && cont b2 && cont b3) eqn:C1; inversion H; subst; [|congruence].
  cbn [firstn app length]. repeat split; auto. intros t. now rewrite E1, E2, E3, E4, E5, C1.
Qed.

Lemma decode_first_ge128 b r cp n : decode_rune (b :: r) = (cp, n) -> (bZ b <? 128) = false ->
  cp <> rune_error -> exists r', firstn n (b :: r) = b :: r' .
Proof.
  intros H E Hne. destruct (decode_prefix _ _ _ H Hne) as [_ [Hn _]].
  destruct n as [|n]; [lia|]. cbn [firstn]. eauto.
Qed.

Lemma scan_string_S f s : scan_string (S f) s =
  match s with
  | [] => None
  | b :: r =>
    let z := bZ b in
    if z =? 34 then Some ([], r)
    else if z <? 32 then None
    else if z =? 92 then
      match r with
      | e :: r1 =>
        if Byte.eqb e c_u then
          match r1 with
          | h1 :: h2 :: h3 :: h4 :: r2 =>
            match hex4 h1 h2 h3 h4 with
            | None => None
            | Some cp =>
              if (55296 <=? cp) && (cp <? 57344) then
                let pair :=
                  match r2 with
                  | b1 :: b2 :: g1 :: g2 :: g3 :: g4 :: r3 =>
                    if Byte.eqb b1 c_bs && Byte.eqb b2 c_u then
                      match hex4 g1 g2 g3 g4 with
                      | Some lo => if (cp <? 56320) && (56320 <=? lo) && (lo <? 57344)
                                   then Some ((cp - 55296) * 1024 + (lo - 56320) + 65536, r3) else None
                      | None => None
                      end
                    else None
                  | _ => None
                  end in
                match pair with
                | Some (c, r3) => option_map (fun '(o, t) => (encode_rune c ++ o, t)) (scan_string f r3)
                | None => option_map (fun '(o, t) => (fffd ++ o, t)) (scan_string f r2)
                end
              else option_map (fun '(o, t) => (encode_rune cp ++ o, t)) (scan_string f r2)
            end
          | _ => None
          end
        else
          match simple_escape e with
          | Some c => option_map (fun '(o, t) => (c :: o, t)) (scan_string f r1)
          | None => None
          end
      | [] => None
      end
    else if z <? 128 then option_map (fun '(o, t) => (b :: o, t)) (scan_string f r)
    else
      let '(c, n) := decode_rune s in
      if (c =? rune_error) && Nat.eqb n 1
      then option_map (fun '(o, t) => (fffd ++ o, t)) (scan_string f r)
      else option_map (fun '(o, t) => (firstn n s ++ o, t)) (scan_string f (skipn n s))
  end.
Proof. destruct s; reflexivity. Qed.

(* what encodeString writes for one ASCII byte is read back as that byte, in one step *)
Lemma ascii_piece_scan b : (bZ b <? 128) = true -> forall f tail,
  scan_string (S f) ((if safe b then [b] else escape b) ++ tail)
  = option_map (fun '(o, t) => (b :: o, t)) (scan_string f tail).
Proof.
  intros H f tail.
  destruct b; try (vm_compute in H; discriminate H); reflexivity.
Qed.

Lemma enc_body_S f b r : enc_body (S f) (b :: r) =
  if bZ b <? 128 then option_map (fun o => (if safe b then [b] else escape b) ++ o) (enc_body f r)
  else let '(cp, n) := decode_rune (b :: r) in
       if cp =? rune_error then None
       else option_map (fun o => firstn n (b :: r) ++ o) (enc_body f (skipn n (b :: r))).
Proof. reflexivity. Qed.

Lemma piece_length b : (1 <= length (if safe b then [b] else escape b))%nat.
Proof. destruct (safe b); cbn; [lia|]. unfold escape. repeat match goal with |- context [if ?c then _ else _] => destruct c end; cbn; lia. Qed.

(* the body written by encodeString, followed by the closing quote, is read back as the string *)
Lemma scan_enc n : forall s o, enc_body n s = Some o -> forall rest fuel, (length o < fuel)%nat ->
  scan_string fuel (o ++ c_quote :: rest) = Some (s, rest).
Proof.
  induction n as [|n IH]; intros s o H rest fuel Hf.
  - destruct s; cbn in H; [|discriminate]. inversion H; subst. cbn [app].
    destruct fuel as [|f]; [cbn in Hf; lia|]. reflexivity.
  - destruct s as [|b r].
    + cbn in H. inversion H; subst. cbn [app]. destruct fuel as [|f]; [cbn in Hf; lia|]. reflexivity.
    + rewrite enc_body_S in H. destruct (bZ b <? 128) eqn:E.
      * destruct (enc_body n r) as [o'|] eqn:E'; [|discriminate]. cbn [option_map] in H. inversion H; subst.
        destruct fuel as [|f]; [lia|].
        rewrite <- app_assoc. rewrite (ascii_piece_scan b E).
        rewrite (IH r o' E' rest f); auto.
        rewrite app_length in Hf. pose proof (piece_length b). lia.
      * destruct (decode_rune (b :: r)) as [cp k] eqn:D.
        destruct (cp =? rune_error) eqn:Ecp; [discriminate|]. apply Z.eqb_neq in Ecp.
        destruct (enc_body n (skipn k (b :: r))) as [o'|] eqn:E'; [|discriminate]. cbn [option_map] in H. inversion H; subst.
        destruct (decode_prefix _ _ _ D Ecp) as [HL [Hk HD]].
        destruct (decode_first_ge128 _ _ _ _ D E Ecp) as [r' Hr'].
        destruct fuel as [|f]; [lia|].
        rewrite <- app_assoc. rewrite scan_string_S. rewrite Hr' at 1. cbn [app].
        assert (bZ b =? 34 = false) as -> by (apply Z.eqb_neq; apply Z.ltb_ge in E; lia).
        assert (bZ b <? 32 = false) as -> by (apply Z.ltb_ge; apply Z.ltb_ge in E; lia).
        assert (bZ b =? 92 = false) as -> by (apply Z.eqb_neq; apply Z.ltb_ge in E; lia).
        rewrite E. cbv zeta.
        rewrite HD.
        assert ((cp =? rune_error) = false) as -> by (now apply Z.eqb_neq). cbn [andb].
        rewrite firstn_app, HL, Nat.sub_diag, firstn_O, app_nil_r, firstn_firstn, Nat.min_id.
        rewrite skipn_app, HL, Nat.sub_diag. cbn [skipn].
        assert (skipn k (firstn k (b :: r)) = []) as ->.
        { rewrite <- HL at 1. apply skipn_all. }
        cbn [app]. rewrite (IH _ o' E' rest f);
          [cbn [option_map]; now rewrite firstn_skipn | rewrite app_length, HL in Hf; lia].
Qed.

Lemma encode_string_scan s o rest : encode_string s = Ok o ->
  exists body, o = c_quote :: body /\
    scan_string (S (length (body ++ rest))) (body ++ rest) = Some (s, rest).
Proof.
  unfold encode_string. destruct (enc_body (length s) s) as [o'|] eqn:E; [|discriminate].
  intro H. inversion H; subst. exists (o' ++ [c_quote]). split; auto.
  rewrite <- app_assoc. cbn [app]. eapply scan_enc; eauto. rewrite app_length. cbn. lia.
Qed.
