(* Value-level facts: byte order is a strict total order, Object.Sort (stable insertion) sorts,
   is a permutation, is the identity on sorted lists and does not depend on the order of members
   with different names; sortrec / strip / norm: idempotence, commutation, invariance. *)
From Coq Require Import List ZArith Strings.Byte Bool Lia Permutation Sorting.Sorted.
From Verif Require Import Base.Wire Json.Utf8 Json.Json.
Import ListNotations.
Open Scope Z_scope.

(* ---- induction over nested values ---- *)
Section JvInd.
  Variable P : jv -> Prop.
  Hypothesis HNil : P JNil.
  Hypothesis HNull : P JNull.
  Hypothesis HBool : forall b, P (JBool b).
  Hypothesis HInt : forall z, P (JInt z).
  Hypothesis HFloat : forall f, P (JFloat f).
  Hypothesis HStr : forall s, P (JStr s).
  Hypothesis HArr : forall l, Forall P l -> P (JArr l).
  Hypothesis HObj : forall m, Forall (fun kv => P (snd kv)) m -> P (JObj m).
  Fixpoint jv_ind2 (v : jv) : P v :=
    match v with
    | JNil => HNil | JNull => HNull | JBool b => HBool b | JInt z => HInt z
    | JFloat f => HFloat f | JStr s => HStr s
    | JArr l => HArr l ((fix go (l : list jv) : Forall P l :=
                           match l with [] => Forall_nil _ | x :: r => Forall_cons x (jv_ind2 x) (go r) end) l)
    | JObj m => HObj m ((fix go (m : list (bytes * jv)) : Forall (fun kv => P (snd kv)) m :=
                           match m with [] => Forall_nil _ | x :: r => Forall_cons x (jv_ind2 (snd x)) (go r) end) m)
    end.
End JvInd.

(* ---- bytes ---- *)
Lemma bZ_inj x y : bZ x = bZ y -> x = y.
Proof.
  unfold bZ. intro H. apply N2Z.inj in H.
  assert (Byte.of_N (Byte.to_N x) = Byte.of_N (Byte.to_N y)) by (now rewrite H).
  rewrite !Byte.of_to_N in H0. now inversion H0.
Qed.

Lemma bytes_ltb_irrefl a : bytes_ltb a a = false.
Proof. induction a; cbn; auto. rewrite Z.ltb_irrefl. auto. Qed.

Lemma bytes_ltb_trans a : forall b c, bytes_ltb a b = true -> bytes_ltb b c = true -> bytes_ltb a c = true.
Proof.
  induction a as [|x a IH]; intros [|y b] [|z c]; cbn; try discriminate; auto.
  destruct (bZ x <? bZ y) eqn:E1; destruct (bZ y <? bZ z) eqn:E2;
  destruct (bZ y <? bZ x) eqn:E3; destruct (bZ z <? bZ y) eqn:E4;
  destruct (bZ x <? bZ z) eqn:E5; destruct (bZ z <? bZ x) eqn:E6; try discriminate; auto; try lia.
  apply IH.
Qed.

Lemma bytes_ltb_asym a : forall b, bytes_ltb a b = true -> bytes_ltb b a = false.
Proof.
  induction a as [|x a IH]; intros [|y b]; cbn; try discriminate; auto.
  destruct (bZ x <? bZ y) eqn:E1; destruct (bZ y <? bZ x) eqn:E2; try discriminate; auto; try lia.
Qed.

Lemma bytes_ltb_total a : forall b, bytes_ltb a b = false -> bytes_ltb b a = false -> a = b.
Proof.
  induction a as [|x a IH]; intros [|y b]; cbn; try discriminate; auto.
  destruct (bZ x <? bZ y) eqn:E1; destruct (bZ y <? bZ x) eqn:E2; try discriminate.
  intros. f_equal; [apply bZ_inj; lia | auto].
Qed.

(* le followed by lt *)
Lemma bytes_le_lt_trans a b c : bytes_ltb b a = false -> bytes_ltb b c = true -> bytes_ltb a c = true.
Proof.
  intros H1 H2. destruct (bytes_ltb a c) eqn:E; auto.
  destruct (bytes_ltb c a) eqn:E2.
  - rewrite (bytes_ltb_trans _ _ _ H2 E2) in H1. discriminate.
  - apply bytes_ltb_total in E; auto. subst. now rewrite H2 in H1.
Qed.

Lemma bytes_le_trans a b c : bytes_ltb b a = false -> bytes_ltb c b = false -> bytes_ltb c a = false.
Proof.
  intros H1 H2. destruct (bytes_ltb c a) eqn:E; auto.
  rewrite (bytes_le_lt_trans _ _ _ H2 E) in H1. discriminate.
Qed.

Lemma eqb_bytes_eq a : forall b, eqb_bytes a b = true <-> a = b.
Proof.
  induction a as [|x a IH]; intros [|y b]; cbn; split; try discriminate; auto.
  - rewrite andb_true_iff. intros [H1 H2]. apply Byte.byte_dec_bl in H1. apply IH in H2. congruence.
  - intros H. inversion H; subst. rewrite andb_true_iff. split; [apply Byte.byte_dec_lb; auto | now apply IH].
Qed.

(* ---- Object.Sort ---- *)
Definition member := (bytes * jv)%type.
Definition kle (a b : member) : Prop := bytes_ltb (fst b) (fst a) = false.

Lemma insert_perm x l : Permutation (insert_member x l) (x :: l).
Proof.
  induction l as [|y l IH]; cbn; auto.
  destruct (bytes_ltb (fst y) (fst x)); auto.
  eapply perm_trans; [apply perm_skip, IH | apply perm_swap].
Qed.

Lemma sort_cons x l : sort_members (x :: l) = insert_member x (sort_members l).
Proof. reflexivity. Qed.

Lemma sort_perm l : Permutation (sort_members l) l.
Proof.
  induction l; [constructor|]. rewrite sort_cons. eapply perm_trans; [apply insert_perm | auto].
Qed.

Lemma insert_sorted x l : StronglySorted kle l -> StronglySorted kle (insert_member x l).
Proof.
  induction 1 as [|y l HS IH HF]; cbn.
  - constructor; constructor.
  - destruct (bytes_ltb (fst y) (fst x)) eqn:E.
    + constructor; auto.
      eapply Permutation_Forall; [symmetry; apply insert_perm|].
      constructor; auto. unfold kle. now apply bytes_ltb_asym.
    + constructor; [constructor; auto|].
      constructor; auto.
      eapply Forall_impl; [|exact HF]. intros z Hz. unfold kle in *.
      eapply bytes_le_trans; eauto.
Qed.

Lemma sort_sorted l : StronglySorted kle (sort_members l).
Proof. induction l; [constructor | rewrite sort_cons; now apply insert_sorted]. Qed.

Lemma sort_of_sorted l : StronglySorted kle l -> sort_members l = l.
Proof.
  induction 1 as [|x l HS IH HF]; auto. rewrite sort_cons, IH.
  destruct l as [|y l]; cbn; auto.
  inversion HF; subst. unfold kle in H1. now rewrite H1.
Qed.

Lemma sort_idem l : sort_members (sort_members l) = sort_members l.
Proof. apply sort_of_sorted, sort_sorted. Qed.

Lemma insert_comm x y l : fst x <> fst y ->
  insert_member x (insert_member y l) = insert_member y (insert_member x l).
Proof.
  intros Hne. induction l as [|z l IH]; cbn.
  - destruct (bytes_ltb (fst y) (fst x)) eqn:E1; destruct (bytes_ltb (fst x) (fst y)) eqn:E2; auto.
    + rewrite (bytes_ltb_asym _ _ E1) in E2. discriminate.
    + exfalso. apply Hne. now apply bytes_ltb_total.
  - destruct (bytes_ltb (fst z) (fst y)) eqn:Ezy; destruct (bytes_ltb (fst z) (fst x)) eqn:Ezx; cbn;
      rewrite ?Ezy, ?Ezx.
    + now rewrite IH.
    + now rewrite (bytes_le_lt_trans _ _ _ Ezx Ezy).
    + now rewrite (bytes_le_lt_trans _ _ _ Ezy Ezx).
    + destruct (bytes_ltb (fst y) (fst x)) eqn:E1; destruct (bytes_ltb (fst x) (fst y)) eqn:E2; cbn;
        rewrite ?Ezy, ?Ezx; auto.
      * rewrite (bytes_ltb_asym _ _ E1) in E2. discriminate.
      * exfalso. apply Hne. now apply bytes_ltb_total.
Qed.

(* the order of members with pairwise different names does not matter *)
Lemma sort_permutation_invariant l1 l2 :
  Permutation l1 l2 -> NoDup (map fst l1) -> sort_members l1 = sort_members l2.
Proof.
  induction 1 as [| x l l' HP IH | x y l | l l' l'' HP1 IH1 HP2 IH2]; intros ND; rewrite ?sort_cons; cbn [map] in *; auto.
  - inversion ND; subst. now rewrite IH.
  - inversion ND as [|? ? Hx ND']; subst. apply insert_comm.
    intro E. apply Hx. left. auto.
  - rewrite IH1; auto. apply IH2.
    eapply Permutation_NoDup; [apply Permutation_map; exact HP1 | auto].
Qed.

(* mapping the values leaves the sort alone *)
Lemma insert_map_val (f : jv -> jv) x l :
  map (fun kv => (fst kv, f (snd kv))) (insert_member x l)
  = insert_member (fst x, f (snd x)) (map (fun kv => (fst kv, f (snd kv))) l).
Proof.
  induction l as [|y l IH]; cbn; auto.
  destruct (bytes_ltb (fst y) (fst x)); cbn; auto. now rewrite IH.
Qed.

Lemma sort_map_val (f : jv -> jv) l :
  map (fun kv => (fst kv, f (snd kv))) (sort_members l)
  = sort_members (map (fun kv => (fst kv, f (snd kv))) l).
Proof. induction l; auto. cbn [map]. now rewrite !sort_cons, insert_map_val, IHl. Qed.

Lemma filter_insert (p : member -> bool) x l : StronglySorted kle l ->
  filter p (insert_member x l) = if p x then insert_member x (filter p l) else filter p l.
Proof.
  induction 1 as [|y l HS IH HF]; cbn.
  - destruct (p x); auto.
  - destruct (bytes_ltb (fst y) (fst x)) eqn:E; cbn.
    + rewrite IH. destruct (p y), (p x); cbn; rewrite ?E; auto.
    + destruct (p x) eqn:Px; auto.
      destruct (p y) eqn:Py; cbn; rewrite ?E; auto.
      (* y dropped: every later element is still not below x *)
      clear IH. induction l as [|z l IHl]; cbn; auto.
      inversion HF; subst. inversion HS; subst.
      destruct (p z) eqn:Pz; cbn.
      * assert (bytes_ltb (fst z) (fst x) = false) as ->; auto.
        unfold kle in *. eapply bytes_le_trans; eauto.
      * apply IHl; auto.
Qed.

Lemma filter_sort (p : member -> bool) l : filter p (sort_members l) = sort_members (filter p l).
Proof.
  induction l as [|x l IH]; auto. rewrite sort_cons.
  rewrite filter_insert by apply sort_sorted. rewrite IH. cbn [filter].
  destruct (p x); auto.
Qed.

(* ---- sortrec, strip, norm ---- *)
Lemma is_null_strip v : is_null (strip v) = is_null v.
Proof. destruct v; auto. Qed.
Lemma is_null_sortrec v : is_null (sortrec v) = is_null v.
Proof. destruct v; auto. Qed.

Definition onval (f : jv -> jv) (kv : member) : member := (fst kv, f (snd kv)).
Definition notnull (kv : member) : bool := negb (is_null (snd kv)).

Lemma sortrec_obj m : sortrec (JObj m) = JObj (sort_members (map (onval sortrec) m)).
Proof. reflexivity. Qed.
Lemma strip_obj m : strip (JObj m) = JObj (filter notnull (map (onval strip) m)).
Proof. reflexivity. Qed.

Lemma map_onval_ext (f g : jv -> jv) m :
  Forall (fun kv => f (snd kv) = g (snd kv)) m -> map (onval f) m = map (onval g) m.
Proof. induction 1; cbn; auto. unfold onval at 1 3. now rewrite H, IHForall. Qed.

Lemma map_ext_Forall {A B} (f g : A -> B) l : Forall (fun x => f x = g x) l -> map f l = map g l.
Proof. induction 1; cbn; congruence. Qed.

Lemma filter_notnull_map (f : jv -> jv) m : (forall v, is_null (f v) = is_null v) ->
  filter notnull (map (onval f) m) = map (onval f) (filter notnull m).
Proof.
  intros Hf. induction m as [|x m IH]; auto. cbn [map filter].
  assert (notnull (onval f x) = notnull x) as -> by (unfold notnull, onval; cbn; now rewrite Hf).
  destruct (notnull x); cbn [map]; now rewrite IH.
Qed.

Lemma strip_idem v : strip (strip v) = strip v.
Proof.
  induction v using jv_ind2; auto.
  - cbn. f_equal. rewrite map_map. apply map_ext_Forall. auto.
  - rewrite !strip_obj. f_equal.
    rewrite !(filter_notnull_map strip) by apply is_null_strip.
    rewrite map_map.
    assert (forall l, filter notnull (filter notnull l) = filter notnull l) as ->.
    { induction l; cbn; auto. destruct (notnull a) eqn:E; cbn; rewrite ?E; congruence. }
    apply map_ext_Forall. apply Forall_forall. intros y Hy. apply filter_In in Hy. destruct Hy as [Hy _].
    rewrite Forall_forall in H. specialize (H y Hy). unfold onval. cbn. now rewrite H.
Qed.

Lemma sortrec_idem v : sortrec (sortrec v) = sortrec v.
Proof.
  induction v using jv_ind2; auto.
  - cbn. f_equal. rewrite map_map. apply map_ext_Forall. auto.
  - rewrite !sortrec_obj. f_equal.
    change (map (onval sortrec)) with (map (fun kv : member => (fst kv, sortrec (snd kv)))).
    rewrite sort_map_val, sort_idem. f_equal.
    rewrite map_map. apply map_ext_Forall.
    eapply Forall_impl; [|exact H]. cbn. intros a Ha. now rewrite Ha.
Qed.

Lemma strip_sortrec_comm v : strip (sortrec v) = sortrec (strip v).
Proof.
  induction v using jv_ind2; auto.
  - cbn. f_equal. rewrite !map_map. apply map_ext_Forall. auto.
  - rewrite sortrec_obj, strip_obj, strip_obj, sortrec_obj. f_equal.
    change (map (onval strip)) with (map (fun kv : member => (fst kv, strip (snd kv)))).
    rewrite sort_map_val, filter_sort. f_equal.
    change (map (fun kv : member => (fst kv, strip (snd kv)))) with (map (onval strip)).
    rewrite <- (filter_notnull_map sortrec) by apply is_null_sortrec.
    f_equal. rewrite !map_map. apply map_ext_Forall.
    eapply Forall_impl; [|exact H]. cbn. intros a Ha. unfold onval. cbn. now rewrite Ha.
Qed.

Lemma sortrec_norm v : sortrec (norm v) = norm v.
Proof. unfold norm. now rewrite strip_sortrec_comm, sortrec_idem. Qed.

Lemma strip_norm v : strip (norm v) = norm v.
Proof. unfold norm. apply strip_idem. Qed.

Lemma norm_idem v : norm (norm v) = norm v.
Proof. unfold norm at 1. now rewrite sortrec_norm, strip_norm. Qed.

(* ---- unsign: dropping the sign of float zeros commutes with sorting and stripping ---- *)
Lemma unsign_zero_idem f : unsign_zero (unsign_zero f) = unsign_zero f.
Proof. destruct f as [n m e]. cbn. destruct (m =? 0) eqn:E; cbn; [reflexivity | now rewrite E]. Qed.

Lemma is_null_unsign v : is_null (unsign v) = is_null v.
Proof. destruct v; auto. Qed.

Lemma unsign_obj m : unsign (JObj m) = JObj (map (onval unsign) m).
Proof. reflexivity. Qed.

Lemma unsign_idem v : unsign (unsign v) = unsign v.
Proof.
  induction v using jv_ind2; auto.
  - cbn. now rewrite unsign_zero_idem.
  - cbn. f_equal. rewrite map_map. apply map_ext_Forall. auto.
  - rewrite !unsign_obj. f_equal. rewrite map_map. apply map_ext_Forall.
    eapply Forall_impl; [|exact H]. cbn. intros a Ha. unfold onval. cbn. now rewrite Ha.
Qed.

Lemma strip_unsign v : strip (unsign v) = unsign (strip v).
Proof.
  induction v using jv_ind2; auto.
  - cbn. f_equal. rewrite !map_map. apply map_ext_Forall. auto.
  - rewrite unsign_obj, !strip_obj, unsign_obj. f_equal.
    rewrite <- (filter_notnull_map unsign) by apply is_null_unsign.
    f_equal. rewrite !map_map. apply map_ext_Forall.
    eapply Forall_impl; [|exact H]. cbn. intros a Ha. unfold onval. cbn. now rewrite Ha.
Qed.

Lemma sortrec_unsign v : sortrec (unsign v) = unsign (sortrec v).
Proof.
  induction v using jv_ind2; auto.
  - cbn. f_equal. rewrite !map_map. apply map_ext_Forall. auto.
  - rewrite unsign_obj, !sortrec_obj, unsign_obj. f_equal.
    change (map (onval unsign)) with (map (fun kv : member => (fst kv, unsign (snd kv)))).
    rewrite sort_map_val. f_equal.
    rewrite !map_map. apply map_ext_Forall.
    eapply Forall_impl; [|exact H]. cbn. intros a Ha. unfold onval. cbn. now rewrite Ha.
Qed.

Lemma norm_unsign v : norm (unsign v) = unsign (norm v).
Proof. unfold norm. now rewrite sortrec_unsign, strip_unsign. Qed.

(* norm v1 = norm v2 is the finer relation *)
Lemma unsign_norm_of_norm v1 v2 : norm v1 = norm v2 -> unsign (norm v1) = unsign (norm v2).
Proof. now intros ->. Qed.

Lemma norm_sortrec v : norm (sortrec v) = norm v.
Proof. unfold norm. now rewrite sortrec_idem. Qed.

(* null members are dropped, other members kept, array elements kept *)
Lemma norm_drops_null_member k m : norm (JObj ((k, JNull) :: m)) = norm (JObj m).
Proof.
  unfold norm. rewrite !strip_sortrec_comm. cbn. reflexivity.
Qed.

Lemma norm_arr l : norm (JArr l) = JArr (map norm l).
Proof. unfold norm. cbn. now rewrite map_map. Qed.

Lemma norm_obj_no_null m : Forall (fun kv => is_null (snd kv) = false) (match norm (JObj m) with JObj m' => m' | _ => [] end).
Proof.
  unfold norm. rewrite sortrec_obj, strip_obj. apply Forall_forall. intros x Hx.
  apply filter_In in Hx. destruct Hx as [Hx Hn]. apply in_map_iff in Hx. destruct Hx as [y [<- _]].
  unfold notnull in Hn. cbn in *. now destruct (is_null (strip (snd y))).
Qed.

(* ---- same content up to member order ---- *)
Inductive same_content : jv -> jv -> Prop :=
| sc_atom v : same_content v v
| sc_arr l1 l2 : Forall2 same_content l1 l2 -> same_content (JArr l1) (JArr l2)
| sc_obj m1 m2 m2' :
    Forall2 (fun a b => fst a = fst b /\ same_content (snd a) (snd b)) m1 m2' ->
    Permutation m2' m2 -> same_content (JObj m1) (JObj m2).

Lemma nodup_keysb_NoDup l : nodup_keysb l = true -> NoDup l.
Proof.
  induction l as [|k l IH]; cbn; [constructor|].
  rewrite andb_true_iff, negb_true_iff. intros [H1 H2]. constructor; auto.
  intro Hin. assert (existsb (eqb_bytes k) l = true); [|congruence].
  apply existsb_exists. exists k. split; auto. now apply eqb_bytes_eq.
Qed.

Lemma sc_arr_helper l : forall l2,
  Forall (fun x => forall v2, same_content x v2 -> dupfree x = true -> sortrec x = sortrec v2) l ->
  Forall2 same_content l l2 -> forallb dupfree l = true -> map sortrec l = map sortrec l2.
Proof.
  induction l as [|x l IH]; intros l2 HF H2 HD; inversion H2; subst; auto.
  inversion HF; subst. cbn in HD. rewrite andb_true_iff in HD. destruct HD.
  cbn. f_equal; auto.
Qed.

Lemma sc_obj_helper m : forall m2,
  Forall (fun kv => forall v2, same_content (snd kv) v2 -> dupfree (snd kv) = true -> sortrec (snd kv) = sortrec v2) m ->
  Forall2 (fun a b : member => fst a = fst b /\ same_content (snd a) (snd b)) m m2 ->
  forallb (fun kv => dupfree (snd kv)) m = true ->
  map (onval sortrec) m = map (onval sortrec) m2 /\ map fst m2 = map fst m.
Proof.
  induction m as [|x m IH]; intros m2 HF H2 HD; inversion H2; subst; auto.
  inversion HF; subst. cbn in HD. rewrite andb_true_iff in HD. destruct HD as [HD1 HD2].
  destruct H1 as [Hk Hc]. destruct (IH _ H5 H4 HD2) as [E1 E2].
  cbn. split; [|congruence]. f_equal; auto. unfold onval. rewrite Hk. f_equal. auto.
Qed.

Lemma sortrec_same_content v1 : forall v2, same_content v1 v2 -> dupfree v1 = true -> sortrec v1 = sortrec v2.
Proof.
  induction v1 using jv_ind2; intros v2 HS HD; inversion HS; subst; auto.
  - cbn. f_equal. cbn in HD. eapply sc_arr_helper; eauto.
  - rewrite !sortrec_obj. f_equal.
    cbn in HD. rewrite andb_true_iff in HD. destruct HD as [HK HV].
    match goal with HF2 : Forall2 _ m ?m2' |- _ => destruct (sc_obj_helper m m2' H HF2 HV) as [E1 E2] end.
    rewrite E1. apply sort_permutation_invariant.
    + now apply Permutation_map.
    + rewrite map_map. cbn. change (map (fun x : member => fst x)) with (map (@fst bytes jv)).
      rewrite E2. now apply nodup_keysb_NoDup.
Qed.

Lemma norm_same_content v1 v2 : same_content v1 v2 -> dupfree v1 = true -> norm v1 = norm v2.
Proof. intros. unfold norm. f_equal. now apply sortrec_same_content. Qed.
