(* JSON value trees as c14n's object model sees them (c14n/models.go), results with an explicit
   Panic, member sort (Object.Sort), recursive sort / null-member stripping, norm. Model only. *)
From Coq Require Import List ZArith Strings.Byte Bool.
From Verif Require Import Base.Wire Json.Utf8.
Import ListNotations.
Open Scope Z_scope.

(* binary64 value of c14n.Float: (-1)^neg * man * 2^exp, canonical: man = 0 -> exp = 0;
   otherwise 2^52 <= man < 2^53 and -1074 <= exp <= 971, or man < 2^52 and exp = -1074 *)
Inductive f64 := F64 (neg : bool) (man exp : Z).

(* Go's `if f == 0 { f = 0 }`: both zeros compare equal to 0, the assignment stores +0 *)
Definition unsign_zero (f : f64) : f64 :=
  let '(F64 _ m _) := f in if m =? 0 then F64 false 0 0 else f.

(* JNil is Go's nil Canonicalable (what handleNextToken returns at EOF in the unfixed code) *)
Inductive jv :=
| JNil
| JNull
| JBool (b : bool)
| JInt (z : Z)             (* c14n.Integer, an int64 *)
| JFloat (f : f64)         (* c14n.Float *)
| JStr (s : bytes)         (* c14n.String: Go string = bytes *)
| JArr (l : list jv)       (* c14n.Array *)
| JObj (m : list (bytes * jv)). (* c14n.Object: []*Attribute *)

Inductive errkind := ESyntax | EIncomplete | ETrailing | EKey | EUtf8 | ERange | EFuel.
Inductive result (A : Type) := Ok (a : A) | Err (k : errkind) | Panic.
Arguments Ok {A} a.
Arguments Err {A} k.
Arguments Panic {A}.

Definition bind {A B} (r : result A) (f : A -> result B) : result B :=
  match r with Ok a => f a | Err k => Err k | Panic => Panic end.

(* Object.Sort: sort.SliceStable by Key with Go's byte-wise string `<`; any stable sort gives
   the same list, insertion from the right is one *)
Fixpoint insert_member (x : bytes * jv) (l : list (bytes * jv)) : list (bytes * jv) :=
  match l with
  | [] => [x]
  | y :: l' => if bytes_ltb (fst y) (fst x) then y :: insert_member x l' else x :: l
  end.
Definition sort_members (l : list (bytes * jv)) : list (bytes * jv) := fold_right insert_member [] l.

Definition is_null (v : jv) : bool := match v with JNull => true | _ => false end.

(* what UnmarshalJSON's tree looks like given the members in text order: every object sorted *)
Fixpoint sortrec (v : jv) : jv :=
  match v with
  | JArr l => JArr (map sortrec l)
  | JObj m => JObj (sort_members (map (fun kv => (fst kv, sortrec (snd kv))) m))
  | _ => v
  end.

(* what MarshalJSON keeps: members whose value is null are skipped (array elements are not) *)
Fixpoint strip (v : jv) : jv :=
  match v with
  | JArr l => JArr (map strip l)
  | JObj m => JObj (filter (fun kv => negb (is_null (snd kv))) (map (fun kv => (fst kv, strip (snd kv))) m))
  | _ => v
  end.

(* the numbers of a value with the sign of every float zero dropped (-0.0 and 0.0 are the same number) *)
Fixpoint unsign (v : jv) : jv :=
  match v with
  | JFloat f => JFloat (unsign_zero f)
  | JArr l => JArr (map unsign l)
  | JObj m => JObj (map (fun kv => (fst kv, unsign (snd kv))) m)
  | _ => v
  end.

(* the logical content: members sorted by key, null members dropped, recursively *)
Definition norm (v : jv) : jv := strip (sortrec v).

Definition keys (m : list (bytes * jv)) : list bytes := map fst m.

(* every object in the tree has pairwise different keys *)
Fixpoint nodup_keysb (l : list bytes) : bool :=
  match l with
  | [] => true
  | k :: r => negb (existsb (eqb_bytes k) r) && nodup_keysb r
  end.
Fixpoint dupfree (v : jv) : bool :=
  match v with
  | JArr l => forallb dupfree l
  | JObj m => nodup_keysb (map fst m) && forallb (fun kv => dupfree (snd kv)) m
  | _ => true
  end.
