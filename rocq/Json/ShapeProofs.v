(* Further shape facts: member names strictly increasing when the input has no duplicate names;
   encodeString accepts exactly the byte strings that are well-formed UTF-8 without U+FFFD. *)
From Coq Require Import String.
From Coq Require Import List ZArith Strings.Byte Bool Lia Permutation Sorting.Sorted.
From Verif Require Import Base.Wire Json.Utf8 Json.Json Json.Number Json.Lexer Json.C14n
  Json.JsonProofs Json.LexProofs Json.C14nProofs.
Import ListNotations.
Open Scope Z_scope.

(* ---- strict order ---- *)
Definition klt (a b : member) : Prop := bytes_ltb (fst a) (fst b) = true.

Fixpoint keys_strict (v : jv) : Prop :=
  match v with
  | JArr l => all_list keys_strict l
  | JObj m => StronglySorted klt m /\ all_list (fun kv => keys_strict (snd kv)) m
  | _ => True
  end.

Lemma sorted_nodup_strict l : StronglySorted kle l -> NoDup (map fst l) -> StronglySorted klt l.
Proof.
  induction 1 as [|x l HS IH HF]; intros ND; [constructor|].
  cbn in ND. inversion ND as [|? ? Hx ND']; subst. constructor; auto.
  rewrite Forall_forall in *. intros y Hy. specialize (HF y Hy). unfold kle, klt in *.
  destruct (bytes_ltb (fst x) (fst y)) eqn:E; auto.
  exfalso. apply Hx. apply in_map_iff. exists y. split; auto.
  symmetry. now apply bytes_ltb_total.
Qed.

Lemma nodup_map_fst_filter (p : member -> bool) l : NoDup (map fst l) -> NoDup (map fst (filter p l)).
Proof.
  induction l as [|x l IH]; cbn; intros ND; auto. inversion ND as [|? ? Hx ND']; subst.
  destruct (p x); cbn; auto. constructor; auto.
  intro Hin. apply Hx. apply in_map_iff in Hin. destruct Hin as [y [E Hy]]. apply filter_In in Hy.
  apply in_map_iff. exists y. tauto.
Qed.

Lemma map_fst_onval f (l : list member) : map fst (map (onval f) l) = map fst l.
Proof. rewrite map_map. reflexivity. Qed.

Lemma norm_obj m : norm (JObj m) = JObj (filter notnull (map (onval strip) (sort_members (map (onval sortrec) m)))).
Proof. unfold norm. now rewrite sortrec_obj, strip_obj. Qed.

Lemma keys_strict_norm v : dupfree v = true -> keys_strict (norm v).
Proof.
  induction v using jv_ind2; intros HD; try exact I.
  - rewrite norm_arr. cbn [keys_strict]. cbn in HD. rewrite forallb_forall in HD.
    apply all_list_Forall. rewrite Forall_forall in *. intros y Hy.
    apply in_map_iff in Hy. destruct Hy as [x [<- Hx]]. auto.
  - rewrite norm_obj. cbn [keys_strict]. cbn in HD. rewrite andb_true_iff in HD. destruct HD as [HK HV].
    rewrite forallb_forall in HV. split.
    + apply sorted_nodup_strict.
      * apply StronglySorted_filter. apply (StronglySorted_map_val strip). apply sort_sorted.
      * apply nodup_map_fst_filter. rewrite map_fst_onval.
        eapply Permutation_NoDup; [apply Permutation_map; symmetry; apply sort_perm|].
        rewrite map_fst_onval. now apply nodup_keysb_NoDup.
    + apply all_list_Forall. rewrite Forall_forall in *. intros y Hy.
      apply filter_In in Hy. destruct Hy as [Hy _].
      apply in_map_iff in Hy. destruct Hy as [z [<- Hz]].
      eapply Permutation_in in Hz; [|apply sort_perm].
      apply in_map_iff in Hz. destruct Hz as [x [<- Hx]]. cbn.
      change (strip (sortrec (snd x))) with (norm (snd x)). apply H; auto.
Qed.

(* ---- which strings encodeString accepts ---- *)
(* well-formed UTF-8 (Go's DecodeRune never answers RuneError): in particular no U+FFFD *)
Fixpoint clean_utf8_f (fuel : nat) (s : bytes) : bool :=
  match s with
  | [] => true
  | _ =>
    match fuel with
    | O => false
    | S f => let '(c, n) := decode_rune s in
             if c =? rune_error then false else clean_utf8_f f (skipn n s)
    end
  end.
Definition clean_utf8 (s : bytes) : bool := clean_utf8_f (length s) s.

Lemma clean_enc f : forall s, clean_utf8_f f s = true -> exists o, enc_body f s = Some o.
Proof.
  induction f as [|f IH]; intros s H.
  - destruct s; [eexists; reflexivity|discriminate].
  - destruct s as [|b r]; [eexists; reflexivity|].
    rewrite enc_body_S. cbn [clean_utf8_f] in H.
    destruct (decode_rune (b :: r)) as [cp n] eqn:D.
    destruct (cp =? rune_error) eqn:E; [discriminate|].
    destruct (bZ b <? 128) eqn:E1.
    + unfold decode_rune in D. rewrite E1 in D. inversion D; subst. cbn [skipn] in H.
      destruct (IH _ H) as [o Ho]. rewrite Ho. eexists; reflexivity.
    + destruct (IH _ H) as [o Ho]. rewrite Ho. eexists; reflexivity.
Qed.

Lemma clean_implies_valid f : forall s, clean_utf8_f f s = true -> valid_utf8_f f s = true.
Proof.
  induction f as [|f IH]; intros s H; destruct s as [|b r]; auto.
  cbn [clean_utf8_f valid_utf8_f] in *. destruct (decode_rune (b :: r)) as [cp n].
  destruct (cp =? rune_error); [discriminate|]. cbn [andb]. auto.
Qed.

Lemma encode_string_accepts s : clean_utf8 s = true -> exists o, encode_string s = Ok o.
Proof.
  unfold clean_utf8, encode_string. intro H. destruct (clean_enc _ _ H) as [o Ho]. rewrite Ho. eexists; reflexivity.
Qed.

(* ---- integers are printed plain: optional minus, digits, no leading zero, never "-0" ---- *)
Lemma format_int_shape z : exists sg d r,
  format_int z = sg ++ d :: r /\ ((sg = [] /\ 0 <= z) \/ (sg = [c_minus] /\ z < 0)) /\
  is_digit d = true /\ all_digits r = true /\ (bZ d = 48 -> r = [] /\ z = 0).
Proof.
  unfold format_int. destruct (z <? 0) eqn:E.
  - apply Z.ltb_lt in E. destruct (digits_spec (- z)) as [d [r [E1 [E2 [E3 [E4 E5]]]]]]; [lia|].
    exists [c_minus], d, r. rewrite E1. repeat split; auto; destruct (E5 H); auto; lia.
  - apply Z.ltb_ge in E. destruct (digits_spec z E) as [d [r [E1 [E2 [E3 [E4 E5]]]]]].
    exists [], d, r. rewrite E1. repeat split; auto; destruct (E5 H); auto.
Qed.

(* ---- the computable float premise implies the premise of the round-trip theorems ---- *)
Lemma span_digits_split l : forall ds r, span_digits l = (ds, r) -> l = ds ++ r /\ all_digits ds = true.
Proof.
  induction l as [|b l IH]; intros ds r H; cbn in H.
  - inversion H. auto.
  - destruct (is_digit b) eqn:E.
    + destruct (span_digits l) as [d t]. inversion H; subst. destruct (IH d r eq_refl) as [-> Hd].
      split; auto. unfold all_digits in *. cbn. now rewrite E, Hd.
    + inversion H; subst. auto.
Qed.

Lemma byte_eqb_eq a b : Byte.eqb a b = true -> a = b.
Proof. apply Byte.byte_dec_bl. Qed.

Lemma float_shapeb_sound txt : float_shapeb txt = true -> float_shape txt.
Proof.
  unfold float_shapeb, float_shape. intro H.
  assert (Hb : exists sg body, txt = sg ++ body /\ (sg = [] \/ sg = [c_minus]) /\
     match body with
     | d0 :: dot :: r =>
       is_digit d0 && Byte.eqb dot c_dot &&
       (let '(fs, r2) := span_digits r in
        negb (is_nil fs) &&
        match r2 with
        | e :: r3 => Byte.eqb e c_E &&
          (let es := match r3 with m :: r4 => if Byte.eqb m c_minus then r4 else r3 | [] => [] end in
           negb (is_nil es) && all_digits es)
        | [] => false
        end)
     | _ => false
     end = true).
  { destruct txt as [|b r]; [discriminate|]. destruct (Byte.eqb b c_minus) eqn:E.
    - apply byte_eqb_eq in E. subst. exists [c_minus], r. auto.
    - exists [], (b :: r). auto. }
  destruct Hb as [sg [body [-> [Hsg Hbody]]]].
  destruct body as [|d0 [|dot r]]; try discriminate.
  rewrite !andb_true_iff in Hbody. destruct Hbody as [[Hd0 Hdot] Hrest]. apply byte_eqb_eq in Hdot. subst.
  destruct (span_digits r) as [fs r2] eqn:ES. destruct (span_digits_split _ _ _ ES) as [-> Hfs].
  rewrite andb_true_iff in Hrest. destruct Hrest as [Hfs0 Hrest].
  destruct r2 as [|e r3]; [discriminate|]. rewrite andb_true_iff in Hrest. destruct Hrest as [He Hes].
  apply byte_eqb_eq in He. subst.
  assert (He2 : exists sg2 es, r3 = sg2 ++ es /\ (sg2 = [] \/ sg2 = [c_minus]) /\ negb (is_nil es) && all_digits es = true).
  { destruct r3 as [|m r4]; [discriminate|]. destruct (Byte.eqb m c_minus) eqn:E.
    - apply byte_eqb_eq in E. subst. exists [c_minus], r4. auto.
    - exists [], (m :: r4). auto. }
  destruct He2 as [sg2 [es [-> [Hsg2 Hes2]]]]. rewrite andb_true_iff in Hes2. destruct Hes2 as [Hes0 Hes1].
  exists sg, d0, fs, sg2, es. repeat split; auto.
  - destruct fs; [discriminate|]. discriminate.
  - destruct es; [discriminate|]. discriminate.
Qed.

Lemma f64_eqb_eq a b : f64_eqb a b = true -> a = b.
Proof.
  destruct a, b. cbn. rewrite !andb_true_iff. intros [[H1 H2] H3].
  apply Bool.eqb_prop in H1. apply Z.eqb_eq in H2, H3. congruence.
Qed.

Lemma float_okb_sound f : float_okb f = true -> float_ok f.
Proof.
  unfold float_okb, float_ok. rewrite andb_true_iff. intros [H1 H2]. split; [now apply float_shapeb_sound|].
  destruct (parse_float _) as [g|]; [|discriminate]. apply f64_eqb_eq in H2. congruence.
Qed.

Lemma float_exactb_sound f : float_exactb f = true -> float_exact f.
Proof.
  unfold float_exactb, float_exact. rewrite andb_true_iff. intros [H1 H2]. split; [now apply float_shapeb_sound|].
  destruct (parse_float _) as [g|]; [|discriminate]. apply f64_eqb_eq in H2. congruence.
Qed.

Lemma floats_okb_sound v : floats_okb v = true -> floats_ok v.
Proof.
  induction v using jv_ind2; cbn; auto.
  - apply float_okb_sound.
  - intros H1. rewrite forallb_forall in H1. apply all_list_Forall. rewrite Forall_forall in *. auto.
  - intros H1. rewrite forallb_forall in H1. apply all_list_Forall. rewrite Forall_forall in *. auto.
Qed.
