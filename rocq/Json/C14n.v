(* c14n.CanonicalJSON as the Go code does it (c14n/c14n.go, c14n/models.go):
     handleNextToken / handleObject / handleArray / handleAttribute over the token stream,
     tokenToValue, Object.Sort, the MarshalJSON methods, encodeString over the generated safeSet
     table, Float.MarshalJSON's post-processing of strconv.AppendFloat(f,'E',-1,64).

   The model is parametrised by `cfg`: six switches, one per repaired defect of the tree as it
   was first examined (DESIGN.md section 8 #4-#7, invalid UTF-8 hidden in the name of a null
   member, and the sign of a float zero).  `cfg_today` is the code as first examined (every switch
   off); `cfg_fixed` is the code after all repairs.  `canon` (the function the theorems of
   Props/C07.v speak about) is `canon_at cfg_fixed`; `canon_today` is `canon_at cfg_today` and
   `canon_signed_zero` (every repair but the last) are the subjects of the `_refuted` theorems.
   Model only. *)
From Coq Require Import String.
From Coq Require Import List ZArith Strings.Byte Bool.
From Verif Require Import Base.Wire Json.Utf8 Json.Json Json.Number Json.Lexer.
From Verif Require Gen.C14nTables.
Import ListNotations.
Open Scope Z_scope.

Record cfg := mkCfg {
  fix_comma : bool;     (* Object.MarshalJSON: comma only between members actually written *)
  fix_negfloat : bool;  (* Float.MarshalJSON: skip the sign when looking for the decimal point *)
  fix_eof : bool;       (* EOF inside a value is an error; nothing may follow the value *)
  fix_range : bool;     (* a number literal outside float64 is an error, not null *)
  fix_nullkey : bool;   (* Attribute.MarshalJSON encodes (validates) the name before skipping a null member *)
  fix_negzero : bool    (* Float.MarshalJSON: `if f == 0 { f = 0 }`, negative zero is written as zero *)
}.
Definition cfg_today : cfg := mkCfg false false false false false false.
Definition cfg_fixed : cfg := mkCfg true true true true true true.
(* the code after the five earlier repairs, before `if f == 0 { f = 0 }` was added *)
Definition cfg_signed_zero : cfg := mkCfg true true true true true false.

(* ---------------------------------------------------------------------------------------- *)
(* parsing: the token handlers                                                                *)
(* ---------------------------------------------------------------------------------------- *)
Section Handlers.
Variable c : cfg.
(* what happens to an object's members once all are read: Object.Sort in the Go code
   (sort_members); the identity gives the members in text order (used by `parse`) *)
Variable post : list (bytes * jv) -> list (bytes * jv).

(* tokenToValue *)
Definition token_to_value (t : tok) : result jv :=
  match t with
  | TString s => Ok (JStr s)
  | TNumber lit =>
    match parse_int64 lit with
    | Some z => Ok (JInt z)
    | None =>
      match parse_float lit with
      | Some f => Ok (JFloat f)
      | None => if fix_range c then Err ERange else Ok JNull
      end
    end
  | TBool b => Ok (JBool b)
  | TNull => Ok JNull
  | TDelim _ _ => Ok JNull
  end.

Definition of_nil (o : option jv) : jv := match o with Some v => v | None => JNil end.

(* None = Go's nil Canonicalable *)
Fixpoint handle_next (fuel : nat) (d : dec) : result (option jv * dec) :=
  match fuel with
  | O => Err EFuel
  | S f =>
    match token d with
    | TkEOF => if fix_eof c then Err EIncomplete else Ok (None, d)
    | TkErr => Err ESyntax
    | Tk (TDelim true true) d' => handle_object f d' []
    | Tk (TDelim true false) d' => handle_array f d' []
    | Tk (TDelim false _) d' => Ok (None, d')
    | Tk t d' => bind (token_to_value t) (fun v => Ok (Some v, d'))
    end
  end
(* handleObject with handleAttribute inlined; acc = attributes so far, reversed *)
with handle_object (fuel : nat) (d : dec) (acc : list (bytes * jv)) : result (option jv * dec) :=
  match fuel with
  | O => Err EFuel
  | S f =>
    match handle_next f d with
    | Ok (None, d1) => Ok (Some (JObj (post (rev acc))), d1)
    | Ok (Some (JStr k), d1) =>
      match handle_next f d1 with
      | Ok (vo, d2) => handle_object f d2 ((k, of_nil vo) :: acc)
      | Err e => Err e
      | Panic => Panic
      end
    | Ok (Some _, _) => Err EKey
    | Err e => Err e
    | Panic => Panic
    end
  end
with handle_array (fuel : nat) (d : dec) (acc : list jv) : result (option jv * dec) :=
  match fuel with
  | O => Err EFuel
  | S f =>
    match handle_next f d with
    | Ok (None, d1) => Ok (Some (JArr (rev acc)), d1)
    | Ok (Some v, d1) => handle_array f d1 (v :: acc)
    | Err e => Err e
    | Panic => Panic
    end
  end.

Definition fuel_for (t : bytes) : nat := 4 * length t + 8.

(* UnmarshalJSON *)
Definition unmarshal_with (t : bytes) : result jv :=
  match handle_next (fuel_for t) (mkDec TopValue [] t) with
  | Ok (vo, d) =>
    if fix_eof c then
      match token d with
      | TkEOF => Ok (of_nil vo)
      | _ => Err ETrailing
      end
    else Ok (of_nil vo)
  | Err e => Err e
  | Panic => Panic
  end.
End Handlers.

Definition unmarshal (c : cfg) : bytes -> result jv := unmarshal_with c sort_members.

(* ---------------------------------------------------------------------------------------- *)
(* printing: the MarshalJSON methods                                                          *)
(* ---------------------------------------------------------------------------------------- *)
Definition safe (b : byte) : bool := nth (Z.to_nat (bZ b)) Gen.C14nTables.safe_set false.

Definition hex_upper (z : Z) : byte := ch (if z <? 10 then 48 + z else 55 + z).

(* the escape encodeString writes for an ASCII byte that is not in safeSet *)
Definition escape (b : byte) : bytes :=
  let z := bZ b in
  if (z =? 92) || (z =? 34) then [c_bs; b]
  else if z =? 10 then [c_bs; ch 110]
  else if z =? 13 then [c_bs; ch 114]
  else if z =? 9 then [c_bs; ch 116]
  else if z =? 12 then [c_bs; ch 102]
  else if z =? 8 then [c_bs; ch 98]
  else [c_bs; c_u; c_0; c_0; hex_upper (z / 16); hex_upper (z mod 16)].

(* body of encodeString: None = json.UnsupportedValueError (a rune decodes to RuneError) *)
Fixpoint enc_body (fuel : nat) (s : bytes) : option bytes :=
  match s with
  | [] => Some []
  | b :: r =>
    match fuel with
    | O => None
    | S f =>
      if bZ b <? 128 then
        option_map (fun o => (if safe b then [b] else escape b) ++ o) (enc_body f r)
      else
        let '(cp, n) := decode_rune s in
        if cp =? rune_error then None
        else option_map (fun o => firstn n s ++ o) (enc_body f (skipn n s))
    end
  end.

Definition encode_string (s : bytes) : result bytes :=
  match enc_body (length s) s with
  | Some o => Ok (c_quote :: o ++ [c_quote])
  | None => Err EUtf8
  end.

(* the loop "Remove excess exponential 0s" of Float.MarshalJSON: returns (j, k) *)
Fixpoint exp_zero_loop (l : bytes) (i len j k : nat) : nat * nat :=
  match l with
  | [] => (j, k)
  | v :: r =>
    if Byte.eqb v c_minus || Byte.eqb v c_plus then exp_zero_loop r (S i) len 1%nat k
    else if Byte.eqb v c_0 && Nat.ltb (S i) len then exp_zero_loop r (S i) len j (S i)
    else (j, k)
  end.

Fixpoint split_at_E (l : bytes) : bytes * bytes :=   (* (up to and including 'E', after it) *)
  match l with
  | [] => ([], [])
  | b :: r => if Byte.eqb b c_E then ([b], r) else let '(a, t) := split_at_E r in (b :: a, t)
  end.

Section Marshal.
Variable c : cfg.

(* Float.MarshalJSON *)
Definition float_marshal (f : f64) : bytes :=
  let f := if fix_negzero c then unsign_zero f else f in
  let num := format_float_E f in
  let num1 :=
    if fix_negfloat c then
      let '(sg, body) := match num with
                         | b :: r => if Byte.eqb b c_minus then ([b], r) else ([], num)
                         | [] => ([], [])
                         end in
      match body with
      | a :: b :: r => if Byte.eqb b c_dot then num else sg ++ a :: c_dot :: c_0 :: b :: r
      | _ => num
      end
    else
      match num with
      | a :: b :: r => if Byte.eqb b c_dot then num else a :: c_dot :: c_0 :: b :: r
      | _ => num
      end in
  let '(mant, ex) := split_at_E num1 in
  let ex1 := match ex with
             | b :: r => if Byte.eqb b c_plus then r else ex
             | [] => []
             end in
  let '(j, k) := exp_zero_loop ex1 0 (length ex1) 0 0 in
  let ex2 := if Nat.eqb k 0 then ex1 else firstn j ex1 ++ skipn k ex1 in
  mant ++ ex2.

Definition comma : bytes := [ch 44].

Fixpoint marshal (v : jv) : result bytes :=
  match v with
  | JNil => Panic                       (* method call on a nil interface *)
  | JNull => Ok (bs "null"%string)
  | JBool true => Ok (bs "true"%string)
  | JBool false => Ok (bs "false"%string)
  | JInt z => Ok (format_int z)
  | JFloat f => Ok (float_marshal f)
  | JStr s => encode_string s
  | JArr l =>
    bind ((fix go (l : list jv) (first : bool) : result bytes :=
             match l with
             | [] => Ok []
             | x :: r => bind (marshal x) (fun a => bind (go r false) (fun b =>
                           Ok ((if first then [] else comma) ++ a ++ b)))
             end) l true)
         (fun body => Ok (ch 91 :: body ++ [ch 93]))
  | JObj m =>
    (* `first`: index 0 (the unfixed comma rule); `written`: a member was already written *)
    bind ((fix go (m : list (bytes * jv)) (first written : bool) : result bytes :=
             match m with
             | [] => Ok []
             | (k, x) :: r =>
               if is_null x && negb (fix_nullkey c) then go r false written  (* Attribute.MarshalJSON: nil, nil *)
               else
                 bind (encode_string k) (fun kb =>
                   if is_null x then go r false written
                   else bind (marshal x) (fun a =>
                     bind (go r false true) (fun b =>
                       Ok ((if (if fix_comma c then written else negb first) then comma else [])
                           ++ kb ++ ch 58 :: a ++ b))))
             end) m true false)
         (fun body => Ok (ch 123 :: body ++ [ch 125]))
  end.

(* CanonicalJSON *)
Definition canon_at (t : bytes) : result bytes := bind (unmarshal c t) marshal.
End Marshal.

Definition canon : bytes -> result bytes := canon_at cfg_fixed.
Definition canon_today : bytes -> result bytes := canon_at cfg_today.
Definition canon_signed_zero : bytes -> result bytes := canon_at cfg_signed_zero.

(* the reader used in the theorems: one complete JSON value, members in text order, nothing
   sorted or dropped (the fixed code's UnmarshalJSON without Object.Sort) *)
Definition parse : bytes -> result jv := unmarshal_with cfg_fixed (fun m => m).
(* printing of the fixed code *)
Definition print : jv -> result bytes := marshal cfg_fixed.

(* ---------------------------------------------------------------------------------------- *)
(* computable form of the float premise of the round-trip theorems (evaluated by the check     *)
(* on every generated input): the text has the shape -?d.d+E-?d+ and reads back as the float,  *)
(* a zero without its sign (float_okb); float_exactb: reads back as exactly the float          *)
(* ---------------------------------------------------------------------------------------- *)
Definition is_nil {A} (l : list A) : bool := match l with [] => true | _ => false end.

Definition float_shapeb (txt : bytes) : bool :=
  let body := match txt with b :: r => if Byte.eqb b c_minus then r else txt | [] => [] end in
  match body with
  | d0 :: dot :: r =>
    is_digit d0 && Byte.eqb dot c_dot &&
    (let '(fs, r2) := span_digits r in
     negb (is_nil fs) &&
     match r2 with
     | e :: r3 =>
       Byte.eqb e c_E &&
       (let es := match r3 with m :: r4 => if Byte.eqb m c_minus then r4 else r3 | [] => [] end in
        negb (is_nil es) && all_digits es)
     | [] => false
     end)
  | _ => false
  end.

Definition f64_eqb (a b : f64) : bool :=
  let '(F64 n1 m1 e1) := a in let '(F64 n2 m2 e2) := b in Bool.eqb n1 n2 && (m1 =? m2) && (e1 =? e2).

Definition float_okb (f : f64) : bool :=
  let txt := float_marshal cfg_fixed f in
  float_shapeb txt && match parse_float txt with Some g => f64_eqb g (unsign_zero f) | None => false end.

Definition float_exactb (f : f64) : bool :=
  let txt := float_marshal cfg_fixed f in
  float_shapeb txt && match parse_float txt with Some g => f64_eqb g f | None => false end.

Fixpoint floats_okb (v : jv) : bool :=
  match v with
  | JFloat f => float_okb f
  | JArr l => forallb floats_okb l
  | JObj m => forallb (fun kv => floats_okb (snd kv)) m
  | _ => true
  end.
