(* Numbers as c14n's tokenToValue / MarshalJSON treat them, in exact integer arithmetic:
     parse_int64   strconv.ParseInt(lit, 10, 64) on a JSON number literal
     format_int    strconv.FormatInt(i, 10)
     parse_float   strconv.ParseFloat(lit, 64): the binary64 nearest to the literal's exact value,
                   ties to even; None = out of range (Go: +-Inf with ErrRange)
     format_float_E  strconv.AppendFloat(f, 'E', -1, 64): shortest digits that round-trip,
                   closest to the exact value among those (ftoa.go roundShortest), %E layout
   These are executable stand-ins for strconv (external code), validated differentially against
   Go by tools/props/c07.py; no theorem about their numeric correctness is claimed.  Model only. *)
From Coq Require Import List ZArith Strings.Byte Bool.
From Verif Require Import Base.Wire Json.Json.
Import ListNotations.
Open Scope Z_scope.

Definition ch (z : Z) : byte := byte_of_Z z.
Definition c_minus := ch 45.
Definition c_plus := ch 43.
Definition c_dot := ch 46.
Definition c_E := ch 69.
Definition c_e := ch 101.
Definition c_0 := ch 48.

(* ---- decimal digits ---- *)
Fixpoint digits_f (fuel : nat) (n : Z) (acc : bytes) : bytes :=
  match fuel with
  | O => acc
  | S f => let acc' := ch (48 + n mod 10) :: acc in
           if n <? 10 then acc' else digits_f f (n / 10) acc'
  end.
(* decimal digits of n >= 0, no leading zeros ("0" for 0) *)
Definition digits (n : Z) : bytes := digits_f (S (Z.to_nat (Z.log2 n))) n [].

Definition read_digits (l : bytes) : Z := fold_left (fun a b => a * 10 + (bZ b - 48)) l 0.
Definition all_digits (l : bytes) : bool := forallb is_digit l.

Definition min_int64 : Z := - 9223372036854775808.
Definition max_int64 : Z := 9223372036854775807.
Definition in_int64 (z : Z) : bool := (min_int64 <=? z) && (z <=? max_int64).

(* strconv.FormatInt(i, 10) *)
Definition format_int (z : Z) : bytes :=
  if z <? 0 then c_minus :: digits (- z) else digits z.

(* strconv.ParseInt(lit, 10, 64) restricted to what a JSON number literal can be: succeeds
   exactly on -?digits within int64 (a fraction or exponent is a syntax error -> None) *)
Definition parse_int64 (lit : bytes) : option Z :=
  let '(neg, ds) := match lit with
                    | b :: r => if Byte.eqb b c_minus then (true, r) else (false, lit)
                    | [] => (false, [])
                    end in
  match ds with
  | [] => None
  | _ => if all_digits ds
         then let v := if neg then - read_digits ds else read_digits ds in
              if in_int64 v then Some v else None
         else None
  end.

(* ---- splitting a JSON number literal: sign, integer digits, fraction digits, exponent ---- *)
Fixpoint span_digits (l : bytes) : bytes * bytes :=
  match l with
  | b :: r => if is_digit b then let '(d, t) := span_digits r in (b :: d, t) else ([], l)
  | [] => ([], [])
  end.

Definition split_literal (lit : bytes) : bool * bytes * bytes * Z :=
  let '(neg, r0) := match lit with
                    | b :: r => if Byte.eqb b c_minus then (true, r) else (false, lit)
                    | [] => (false, [])
                    end in
  let '(ip, r1) := span_digits r0 in
  let '(fp, r2) := match r1 with
                   | b :: r => if Byte.eqb b c_dot then span_digits r else ([], r1)
                   | [] => ([], [])
                   end in
  let ex := match r2 with
            | b :: r => if Byte.eqb b c_e || Byte.eqb b c_E then
                          match r with
                          | s :: r' => if Byte.eqb s c_minus then - read_digits (fst (span_digits r'))
                                       else if Byte.eqb s c_plus then read_digits (fst (span_digits r'))
                                       else read_digits (fst (span_digits r))
                          | [] => 0
                          end
                        else 0
            | [] => 0
            end in
  (neg, ip, fp, ex).

(* ---- correctly rounded binary64 of a positive rational p/q (ties to even) ----
   Some (m, e): value m * 2^e in canonical form; (0,0) on underflow to zero; None = overflow *)
Definition two52 : Z := 4503599627370496.
Definition two53 : Z := 9007199254740992.

Definition scale2 (p q e : Z) : Z * Z := if 0 <=? e then (p, q * 2 ^ e) else (p * 2 ^ (- e), q).

Definition round_f64 (p q : Z) : option (Z * Z) :=
  let e0 := Z.log2 p - Z.log2 q - 52 in
  let '(a0, b0) := scale2 p q e0 in
  let e1 := if a0 <? two52 * b0 then e0 - 1 else e0 in
  let e := Z.max e1 (- 1074) in
  let '(a, b) := scale2 p q e in
  let m := a / b in
  let r := a mod b in
  let m1 := if 2 * r <? b then m else if b <? 2 * r then m + 1 else if Z.even m then m else m + 1 in
  let '(m2, e2) := if m1 =? two53 then (two52, e + 1) else (m1, e) in
  if m2 =? 0 then Some (0, 0) else if 971 <? e2 then None else Some (m2, e2).

(* strconv.ParseFloat(lit, 64) on a JSON number literal *)
Definition parse_float (lit : bytes) : option f64 :=
  let '(neg, ip, fp, ex) := split_literal lit in
  let d := read_digits (ip ++ fp) in
  if d =? 0 then Some (F64 neg 0 0)
  else
    let e10 := ex - Z.of_nat (length fp) in
    let nd := Z.of_nat (length (digits d)) in
    if 310 <? nd + e10 then None
    else if nd + e10 <? - 330 then Some (F64 neg 0 0)
    else
      let '(p, q) := if 0 <=? e10 then (d * 10 ^ e10, 1) else (d, 10 ^ (- e10)) in
      match round_f64 p q with
      | None => None
      | Some (m, e) => Some (F64 neg m e)
      end.

(* ---- shortest round-tripping decimal of m * 2^e (m > 0): (digits as integer R, P), value R * 10^P ----
   bounds are the midpoints to the neighbouring floats; they belong to the rounding interval
   exactly when m is even (ftoa.go roundShortest) *)
(* position P = plow + i; 10^P = B / A (A = 1 or B = 1); tlow = floor(x / 10^plow), so that
   floor(x / 10^P) = tlow / 10^i needs no further long division *)
Fixpoint shortest_loop (i : nat) (tlow plow nx nl nu dn : Z) (incl : bool) (A B : Z) : Z * Z :=
  let P := plow + Z.of_nat i in
  let bd := B * dn in
  let t := tlow / 10 ^ Z.of_nat i in
  let okdown := (nl * A <? t * bd) || (incl && (nl * A =? t * bd)) in
  let okup := ((t + 1) * bd <? nu * A) || (incl && ((t + 1) * bd =? nu * A)) in
  let rem2 := 2 * (nx * A - t * bd) in
  if okdown && okup then
    (if rem2 <? bd then t else if bd <? rem2 then t + 1 else if Z.even t then t else t + 1, P)
  else if okdown then (t, P)
  else if okup then (t + 1, P)
  else match i with
       | O => (0, 0)     (* not reached: 17 significant digits always round-trip *)
       | S i' => if 1 <? B then shortest_loop i' tlow plow nx nl nu dn incl A (B / 10)
                 else shortest_loop i' tlow plow nx nl nu dn incl (A * 10) B
       end.

Definition shortest_span : nat := 26.

Definition shortest (m e : Z) : Z * Z :=
  let nx := 4 * m in
  let nu := 4 * m + 2 in
  let nl := if (m =? two52) && (- 1074 <? e) then 4 * m - 1 else 4 * m - 2 in
  let s := e - 2 in
  let '(k, dn) := if 0 <=? s then (2 ^ s, 1) else (1, 2 ^ (- s)) in
  (* an upper bound of the decimal position of the first digit of the upper bound *)
  let p0 := ((Z.log2 (nu * k) - Z.log2 dn + 1) * 30103) / 100000 + 2 in
  let plow := p0 - Z.of_nat shortest_span in
  let tlow := if 0 <=? plow then (nx * k) / (10 ^ plow * dn) else (nx * k * 10 ^ (- plow)) / dn in
  let '(A, B) := if 0 <=? p0 then (1, 10 ^ p0) else (10 ^ (- p0), 1) in
  shortest_loop shortest_span tlow plow (nx * k) (nl * k) (nu * k) dn (Z.even m) A B.

(* strconv.AppendFloat(nil, f, 'E', -1, 64) for finite f *)
Definition format_float_E (f : f64) : bytes :=
  let '(F64 neg m e) := f in
  let sign := if neg then [c_minus] else [] in
  if m =? 0 then sign ++ [c_0; c_E; c_plus; c_0; c_0]
  else
    let '(R, P) := shortest m e in
    let ds := digits R in
    let x := P + Z.of_nat (length ds) - 1 in
    let mant := match ds with
                | [] => []
                | [d] => [d]
                | d :: r => d :: c_dot :: r
                end in
    let xs := digits (Z.abs x) in
    let xs2 := match xs with [_] => c_0 :: xs | _ => xs end in
    sign ++ mant ++ [c_E; if x <? 0 then c_minus else c_plus] ++ xs2.
