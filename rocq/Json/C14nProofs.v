(* Handler-level facts about the canonicaliser: Object.Sort commutes with reading (unmarshal =
   sortrec after parse), printing ignores null members, and the printed form of a readable value
   is parsed back to that value without its null members (round trip). *)
From Coq Require Import String.
From Coq Require Import List ZArith Strings.Byte Bool Lia Permutation Sorting.Sorted.
From Verif Require Import Base.Wire Json.Utf8 Json.Json Json.Number Json.Lexer Json.C14n
  Json.JsonProofs Json.LexProofs.
Import ListNotations.
Open Scope Z_scope.

Definition idm (m : list (bytes * jv)) := m.

(* ------------------------------------------------------------------------------------------ *)
(* unfolding                                                                                    *)
(* ------------------------------------------------------------------------------------------ *)
Lemma hn_S c post f d : handle_next c post (S f) d =
  match token d with
  | TkEOF => if fix_eof c then Err EIncomplete else Ok (None, d)
  | TkErr => Err ESyntax
  | Tk (TDelim true true) d' => handle_object c post f d' []
  | Tk (TDelim true false) d' => handle_array c post f d' []
  | Tk (TDelim false _) d' => Ok (None, d')
  | Tk t d' => bind (token_to_value c t) (fun v => Ok (Some v, d'))
  end.
Proof. reflexivity. Qed.

Lemma ho_S c post f d acc : handle_object c post (S f) d acc =
  match handle_next c post f d with
  | Ok (None, d1) => Ok (Some (JObj (post (rev acc))), d1)
  | Ok (Some (JStr k), d1) =>
    match handle_next c post f d1 with
    | Ok (vo, d2) => handle_object c post f d2 ((k, of_nil vo) :: acc)
    | Err e => Err e
    | Panic => Panic
    end
  | Ok (Some _, _) => Err EKey
  | Err e => Err e
  | Panic => Panic
  end.
Proof. reflexivity. Qed.

Lemma ha_S c post f d acc : handle_array c post (S f) d acc =
  match handle_next c post f d with
  | Ok (None, d1) => Ok (Some (JArr (rev acc)), d1)
  | Ok (Some v, d1) => handle_array c post f d1 (v :: acc)
  | Err e => Err e
  | Panic => Panic
  end.
Proof. reflexivity. Qed.

(* ------------------------------------------------------------------------------------------ *)
(* Object.Sort commutes with reading                                                           *)
(* ------------------------------------------------------------------------------------------ *)
Definition rmap (f : jv -> jv) (r : result (option jv * dec)) : result (option jv * dec) :=
  match r with Ok (vo, d) => Ok (option_map f vo, d) | Err e => Err e | Panic => Panic end.

Lemma sortrec_of_nil vo : sortrec (of_nil vo) = of_nil (option_map sortrec vo).
Proof. destruct vo; reflexivity. Qed.

Lemma sort_commutes c f :
  (forall d, handle_next c sort_members f d = rmap sortrec (handle_next c idm f d)) /\
  (forall d acc, handle_object c sort_members f d (map (onval sortrec) acc)
                 = rmap sortrec (handle_object c idm f d acc)) /\
  (forall d acc, handle_array c sort_members f d (map sortrec acc)
                 = rmap sortrec (handle_array c idm f d acc)).
Proof.
  induction f as [|f [IHn [IHo IHa]]]; [repeat split; reflexivity|].
  repeat split.
  - intro d. rewrite !hn_S. destruct (token d) as [| |t d']; auto.
    + destruct (fix_eof c); reflexivity.
    + destruct t as [[|] [|] | s | lit | b |]; auto; try apply (IHo d' []); try apply (IHa d' []).
      * cbn. destruct (parse_int64 lit); [reflexivity|]. destruct (parse_float lit); [reflexivity|].
        destruct (fix_range c); reflexivity.
  - intros d acc. rewrite !ho_S, IHn.
    destruct (handle_next c idm f d) as [[[v|] d1]|e|]; cbn [rmap option_map]; auto.
    + destruct v; cbn [sortrec]; auto.
      rewrite IHn. destruct (handle_next c idm f d1) as [[vo d2]|e|]; cbn [rmap]; auto.
      rewrite <- IHo. cbn [map]. unfold onval at 2. cbn [fst snd]. now rewrite sortrec_of_nil.
    + unfold idm. rewrite sortrec_obj, map_rev. reflexivity.
  - intros d acc. rewrite !ha_S, IHn.
    destruct (handle_next c idm f d) as [[[v|] d1]|e|]; cbn [rmap option_map]; auto.
    + rewrite <- IHa. reflexivity.
    + cbn [sortrec]. now rewrite map_rev.
Qed.

Lemma unmarshal_sortrec c t :
  unmarshal c t = match unmarshal_with c idm t with Ok v => Ok (sortrec v) | Err e => Err e | Panic => Panic end.
Proof.
  unfold unmarshal, unmarshal_with. rewrite (proj1 (sort_commutes c _)).
  destruct (handle_next c idm (fuel_for t) _) as [[vo d]|e|]; cbn [rmap]; auto.
  destruct (fix_eof c); [destruct (token d)|]; try reflexivity; now rewrite sortrec_of_nil.
Qed.

(* ------------------------------------------------------------------------------------------ *)
(* printing                                                                                     *)
(* ------------------------------------------------------------------------------------------ *)
Definition arr_body (mf : jv -> result bytes) : list jv -> bool -> result bytes :=
  fix go (l : list jv) (first : bool) : result bytes :=
  match l with
  | [] => Ok []
  | x :: r => bind (mf x) (fun a => bind (go r false) (fun b =>
                Ok ((if first then [] else comma) ++ a ++ b)))
  end.

Definition obj_body (c : cfg) (mf : jv -> result bytes) : list (bytes * jv) -> bool -> bool -> result bytes :=
  fix go (m : list (bytes * jv)) (first written : bool) : result bytes :=
  match m with
  | [] => Ok []
  | (k, x) :: r =>
    if is_null x && negb (fix_nullkey c) then go r false written
    else
      bind (encode_string k) (fun kb =>
        if is_null x then go r false written
        else bind (mf x) (fun a =>
          bind (go r false true) (fun b =>
            Ok ((if (if fix_comma c then written else negb first) then comma else [])
                ++ kb ++ ch 58 :: a ++ b))))
  end.

Lemma arr_body_cons mf x r first : arr_body mf (x :: r) first =
  bind (mf x) (fun a => bind (arr_body mf r false) (fun b => Ok ((if first then [] else comma) ++ a ++ b))).
Proof. reflexivity. Qed.

Lemma obj_body_cons c mf k x r first written : obj_body c mf ((k, x) :: r) first written =
    if is_null x && negb (fix_nullkey c) then obj_body c mf r false written
    else
      bind (encode_string k) (fun kb =>
        if is_null x then obj_body c mf r false written
        else bind (mf x) (fun a =>
          bind (obj_body c mf r false true) (fun b =>
            Ok ((if (if fix_comma c then written else negb first) then comma else [])
                ++ kb ++ ch 58 :: a ++ b)))).
Proof. reflexivity. Qed.

Lemma marshal_arr c l : marshal c (JArr l) =
  bind (arr_body (marshal c) l true) (fun body => Ok (ch 91 :: body ++ [ch 93])).
Proof. reflexivity. Qed.

Lemma marshal_obj c m : marshal c (JObj m) =
  bind (obj_body c (marshal c) m true false) (fun body => Ok (ch 123 :: body ++ [ch 125])).
Proof. reflexivity. Qed.

(* MarshalJSON never looks at null members (once their names have been accepted) *)
Lemma arr_body_strip c l : Forall (fun v => forall o, marshal c v = Ok o -> marshal c (strip v) = Ok o) l ->
  forall first o, arr_body (marshal c) l first = Ok o -> arr_body (marshal c) (map strip l) first = Ok o.
Proof.
  induction 1 as [|x l Hx HF IH]; intros first o H; auto. cbn [map]. rewrite arr_body_cons in *.
  destruct (marshal c x) as [a| |] eqn:E; try discriminate. cbn [bind] in *.
  rewrite (Hx _ eq_refl). cbn [bind].
  destruct (arr_body (marshal c) l false) as [b| |] eqn:E2; try discriminate.
  rewrite (IH _ _ E2). exact H.
Qed.

Lemma obj_body_first c mf m : fix_comma c = true ->
  forall f1 f2 w, obj_body c mf m f1 w = obj_body c mf m f2 w.
Proof. intros Hc f1 f2 w. destruct m as [|[k x] m]; [reflexivity|]. rewrite !obj_body_cons. now rewrite Hc. Qed.

Lemma obj_body_strip c m : fix_comma c = true ->
  Forall (fun kv => forall o, marshal c (snd kv) = Ok o -> marshal c (strip (snd kv)) = Ok o) m ->
  forall first written o, obj_body c (marshal c) m first written = Ok o ->
  obj_body c (marshal c) (filter notnull (map (onval strip) m)) first written = Ok o.
Proof.
  intros Hc. induction 1 as [|[k x] m Hx HF IH]; intros first written o H.
  - exact H.
  - rewrite obj_body_cons in H. cbn [map filter]. unfold notnull at 1, onval at 1. cbn [fst snd].
    rewrite is_null_strip.
    destruct (is_null x) eqn:En; cbn [negb andb] in *.
    + rewrite (obj_body_first c _ _ Hc first false).
      destruct (fix_nullkey c); cbn [negb] in H.
      * destruct (encode_string k); try discriminate. cbn [bind] in H. eapply IH; eauto.
      * eapply IH; eauto.
    + unfold onval at 1. cbn [fst snd]. rewrite obj_body_cons. rewrite is_null_strip, En. cbn [andb].
      destruct (encode_string k) as [kb| |]; try discriminate. cbn [bind] in *.
      cbn [snd] in Hx. destruct (marshal c x) as [a| |] eqn:E; try discriminate.
      rewrite (Hx _ eq_refl). cbn [bind] in *.
      destruct (obj_body c (marshal c) m false true) as [b| |] eqn:E2; try discriminate.
      now rewrite (IH _ _ _ E2).
Qed.

Lemma marshal_strip c : fix_comma c = true -> forall v o, marshal c v = Ok o -> marshal c (strip v) = Ok o.
Proof.
  intros Hc. induction v using jv_ind2; intros o Ho; auto.
  - rewrite marshal_arr in Ho. cbn [strip]. rewrite marshal_arr.
    destruct (arr_body (marshal c) l true) as [b| |] eqn:E; try discriminate.
    now rewrite (arr_body_strip c l H _ _ E).
  - rewrite marshal_obj in Ho. rewrite strip_obj, marshal_obj.
    destruct (obj_body c (marshal c) m true false) as [b| |] eqn:E; try discriminate.
    now rewrite (obj_body_strip c m Hc H _ _ _ E).
Qed.

(* ------------------------------------------------------------------------------------------ *)
(* the token machine on canonical text                                                          *)
(* ------------------------------------------------------------------------------------------ *)
(* first byte of a value's text: not white space, not ':' and not ',' *)
Definition vstart (c : byte) : Prop := is_space c = false /\ bZ c <> 58 /\ bZ c <> 44.

Lemma token_token1 s sk c r : vstart c -> token (mkDec s sk (c :: r)) = token1 (mkDec s sk (c :: r)).
Proof.
  intros [H1 [H2 H3]]. unfold token. cbn [inp skip_ws]. rewrite H1.
  apply Z.eqb_neq in H2, H3. now rewrite H2, H3.
Qed.

Lemma token_comma_arr sk r : token (mkDec ArrayComma sk (ch 44 :: r)) = token1 (mkDec ArrayValue sk r).
Proof. reflexivity. Qed.
Lemma token_comma_obj sk r : token (mkDec ObjectComma sk (ch 44 :: r)) = token1 (mkDec ObjectKey sk r).
Proof. reflexivity. Qed.
Lemma token_colon sk r : token (mkDec ObjectColon sk (ch 58 :: r)) = token1 (mkDec ObjectValue sk r).
Proof. reflexivity. Qed.

Lemma token1_open_arr s sk r : value_allowed s = true ->
  token1 (mkDec s sk (ch 91 :: r)) = Tk (TDelim true false) (mkDec ArrayStart (s :: sk) r).
Proof. intros H. unfold token1. cbn. now rewrite H. Qed.
Lemma token1_open_obj s sk r : value_allowed s = true ->
  token1 (mkDec s sk (ch 123 :: r)) = Tk (TDelim true true) (mkDec ObjectStart (s :: sk) r).
Proof. intros H. unfold token1. cbn. now rewrite H. Qed.

Lemma token_close_arr s p ps r : s = ArrayStart \/ s = ArrayComma ->
  token (mkDec s (p :: ps) (ch 93 :: r)) = Tk (TDelim false false) (mkDec (value_end p) ps r).
Proof. intros [-> | ->]; reflexivity. Qed.
Lemma token_close_obj s p ps r : s = ObjectStart \/ s = ObjectComma ->
  token (mkDec s (p :: ps) (ch 125 :: r)) = Tk (TDelim false true) (mkDec (value_end p) ps r).
Proof. intros [-> | ->]; reflexivity. Qed.

Lemma value_allowed_not_key s : value_allowed s = true ->
  tstate_eqb s ObjectStart || tstate_eqb s ObjectKey = false.
Proof. destruct s; cbn; auto; discriminate. Qed.

(* a string value *)
Lemma token1_string_value s sk body rest k : value_allowed s = true ->
  scan_string (S (length (body ++ rest))) (body ++ rest) = Some (k, rest) ->
  token1 (mkDec s sk (c_quote :: body ++ rest)) = Tk (TString k) (mkDec (value_end s) sk rest).
Proof.
  intros Hs Hk. unfold token1. cbn [inp skip_ws st stk]. change (is_space c_quote) with false. cbv iota.
  change (bZ c_quote) with 34. cbn [Z.eqb Pos.eqb orb andb].
  rewrite (value_allowed_not_key s Hs), Hs. unfold scan_scalar. change (bZ c_quote) with 34. cbn [Z.eqb Pos.eqb].
  rewrite Hk. reflexivity.
Qed.

(* a member name *)
Lemma token1_key s sk body rest k : s = ObjectStart \/ s = ObjectKey ->
  scan_string (S (length (body ++ rest))) (body ++ rest) = Some (k, rest) ->
  token1 (mkDec s sk (c_quote :: body ++ rest)) = Tk (TString k) (mkDec ObjectColon sk rest).
Proof.
  intros Hs Hk. unfold token1. cbn [inp skip_ws st stk]. change (is_space c_quote) with false. cbv iota.
  change (bZ c_quote) with 34. cbn [Z.eqb Pos.eqb orb andb].
  destruct Hs as [-> | ->]; cbn [tstate_eqb orb]; rewrite Hk; reflexivity.
Qed.

(* a number *)
Lemma token1_number s sk c r lit rest : value_allowed s = true ->
  c = c_minus \/ is_digit c = true ->
  scan_number (c :: r) = Some (lit, rest) ->
  token1 (mkDec s sk (c :: r)) = Tk (TNumber lit) (mkDec (value_end s) sk rest).
Proof.
  intros Hs Hc Hn.
  assert (Hz : bZ c = 45 \/ 48 <= bZ c <= 57).
  { destruct Hc as [-> | Hd]; [left; reflexivity | right; now apply is_digit_range]. }
  assert (Hsp : is_space c = false).
  { unfold is_space. repeat (apply orb_false_intro); apply Z.eqb_neq; lia. }
  unfold token1. cbn [inp skip_ws st stk]. rewrite Hsp.
  repeat match goal with |- context [bZ c =? ?k] =>
    let E := fresh in destruct (bZ c =? k) eqn:E; [apply Z.eqb_eq in E; try lia|clear E] end; cbn [orb andb].
  rewrite Hs. unfold scan_scalar. cbv zeta.
  repeat match goal with |- context [bZ c =? ?k] =>
    let E := fresh in destruct (bZ c =? k) eqn:E; [apply Z.eqb_eq in E; try lia|apply Z.eqb_neq in E] end; cbn [orb andb].
  all: try (rewrite Hn; reflexivity).
  all: assert (is_digit c = true) as -> by (apply is_digit_range; lia); cbn [orb]; rewrite Hn; reflexivity.
Qed.

Lemma vstart_number c : c = c_minus \/ is_digit c = true -> vstart c.
Proof.
  intros Hc.
  assert (Hz : bZ c = 45 \/ 48 <= bZ c <= 57).
  { destruct Hc as [-> | Hd]; [left; reflexivity | right; now apply is_digit_range]. }
  unfold vstart, is_space. repeat split; lia.
Qed.

(* ------------------------------------------------------------------------------------------ *)
(* readable values                                                                              *)
(* ------------------------------------------------------------------------------------------ *)
Section AllList.
  Context {A : Type} (P : A -> Prop).
  Fixpoint all_list (l : list A) : Prop :=
    match l with [] => True | x :: r => P x /\ all_list r end.
  Lemma all_list_Forall l : all_list l <-> Forall P l.
  Proof. induction l; cbn; split; intros; auto; [destruct H; constructor; tauto | inversion H; tauto]. Qed.
End AllList.

(* the text Float.MarshalJSON writes: -?d.d+E-?d+ *)
Definition float_shape (txt : bytes) : Prop :=
  exists sg d0 fs sg2 es,
    txt = sg ++ d0 :: c_dot :: fs ++ c_E :: sg2 ++ es /\
    (sg = [] \/ sg = [c_minus]) /\ is_digit d0 = true /\ all_digits fs = true /\ fs <> [] /\
    (sg2 = [] \/ sg2 = [c_minus]) /\ all_digits es = true /\ es <> [].

(* strconv is external code: that a float's canonical text is read back as the same float is a
   premise (validated differentially), not a theorem.  float_exact: read back as exactly f (false
   of negative zero since Float.MarshalJSON drops its sign); float_ok, below: read back as f with
   the sign of a zero dropped (the premise of the property theorems) *)
Definition float_exact (f : f64) : Prop :=
  float_shape (float_marshal cfg_fixed f) /\ parse_float (float_marshal cfg_fixed f) = Some f.

Fixpoint readable_exact (v : jv) : Prop :=
  match v with
  | JInt z => in_int64 z = true
  | JFloat f => float_exact f
  | JArr l => all_list readable_exact l
  | JObj m => all_list (fun kv => readable_exact (snd kv)) m
  | _ => True
  end.

Fixpoint float_free (v : jv) : bool :=
  match v with
  | JFloat _ => false
  | JArr l => forallb float_free l
  | JObj m => forallb (fun kv => float_free (snd kv)) m
  | _ => true
  end.

Fixpoint ints_ok (v : jv) : bool :=
  match v with
  | JInt z => in_int64 z
  | JArr l => forallb ints_ok l
  | JObj m => forallb (fun kv => ints_ok (snd kv)) m
  | _ => true
  end.

Lemma span_digits_all ds b rest : all_digits ds = true -> is_digit b = false ->
  span_digits (ds ++ b :: rest) = (ds, b :: rest).
Proof. intros. apply span_digits_app; auto. Qed.

Lemma all_digits_cons d ds : all_digits (d :: ds) = is_digit d && all_digits ds.
Proof. reflexivity. Qed.

Lemma float_shape_scan txt : float_shape txt ->
  (forall rest, term rest -> scan_number (txt ++ rest) = Some (txt, rest)) /\
  parse_int64 txt = None /\
  exists c r, txt = c :: r /\ (c = c_minus \/ is_digit c = true).
Proof.
  intros [sg [d0 [fs [sg2 [es [-> [Hsg [Hd0 [Hfs [Hfs0 [Hsg2 [Hes Hes0]]]]]]]]]]]].
  assert (Hd := proj1 (is_digit_range d0) Hd0).
  assert (Hdot : is_digit c_dot = false) by reflexivity.
  assert (HE : is_digit c_E = false) by reflexivity.
  assert (Hmin : is_digit c_minus = false) by reflexivity.
  assert (D0m : Byte.eqb d0 c_minus = false) by (rewrite byte_eqb_bZ, c_minus_Z; lia).
  split; [|split].
  - intros rest Ht.
    assert (Core : scan_number (d0 :: c_dot :: fs ++ c_E :: sg2 ++ es ++ rest) = Some (d0 :: c_dot :: fs ++ c_E :: sg2 ++ es, rest)).
    { unfold scan_number. rewrite D0m, Hd0. cbn [negb].
      assert (Hip : (if Byte.eqb d0 c_0 then ([d0], c_dot :: fs ++ c_E :: sg2 ++ es ++ rest)
                     else let '(ds, t) := span_digits (c_dot :: fs ++ c_E :: sg2 ++ es ++ rest) in (d0 :: ds, t))
                    = ([d0], c_dot :: fs ++ c_E :: sg2 ++ es ++ rest)).
      { destruct (Byte.eqb d0 c_0); auto. }
      rewrite Hip. rewrite (@Byte.byte_dec_lb c_dot c_dot eq_refl).
      rewrite (span_digits_all fs c_E (sg2 ++ es ++ rest) Hfs HE).
      destruct fs as [|f0 fs']; [congruence|].
      change (Byte.eqb c_E c_e) with false. rewrite (@Byte.byte_dec_lb c_E c_E eq_refl). cbn [orb].
      destruct Hsg2 as [-> | ->]; cbn [app].
      + destruct es as [|e0 es']; [congruence|]. cbn [app].
        rewrite all_digits_cons, andb_true_iff in Hes. destruct Hes as [He0 Hes].
        assert (He := proj1 (is_digit_range e0) He0).
        assert (Byte.eqb e0 c_minus || Byte.eqb e0 c_plus = false) as ->.
        { rewrite !byte_eqb_bZ, c_minus_Z. change (bZ c_plus) with 43. lia. }
        change (e0 :: es' ++ rest) with ((e0 :: es') ++ rest).
        rewrite (span_digits_app (e0 :: es') rest); [|rewrite all_digits_cons, He0, Hes; auto|now apply term_nondigit].
        cbn; rewrite <- ?app_assoc; reflexivity.
      + rewrite (@Byte.byte_dec_lb c_minus c_minus eq_refl). cbn [orb].
        rewrite (span_digits_app es rest Hes (term_nondigit _ Ht)).
        destruct es as [|e0 es']; [congruence|].
        cbn; rewrite <- ?app_assoc; reflexivity. }
    destruct Hsg as [-> | ->]; cbn [app]; rewrite <- ?app_assoc; cbn [app]; rewrite <- ?app_assoc.
    + apply Core.
    + pose proof Core as HC. unfold scan_number in *. rewrite (@Byte.byte_dec_lb c_minus c_minus eq_refl).
      rewrite D0m in HC.
      destruct (negb (is_digit d0)); [discriminate|].
      destruct (if Byte.eqb d0 c_0 then _ else _) as [ip r2].
      destruct (match r2 with [] => _ | b :: r3 => _ end) as [[fp r4]|]; [|discriminate].
      destruct (match r4 with [] => _ | b :: r5 => _ end) as [[ep r7]|]; [|discriminate].
      inversion HC; subst. reflexivity.
  - unfold parse_int64.
    assert (Hnd : forall tail, all_digits (d0 :: c_dot :: tail) = false).
    { intros. rewrite !all_digits_cons, Hdot. now rewrite andb_false_r. }
    destruct Hsg as [-> | ->]; cbn [app].
    + rewrite D0m. now rewrite Hnd.
    + rewrite (@Byte.byte_dec_lb c_minus c_minus eq_refl). now rewrite Hnd.
  - destruct Hsg as [-> | ->]; cbn [app]; eauto.
Qed.

(* fuel that reading back the printed form of v needs *)
Fixpoint need (v : jv) : nat :=
  match v with
  | JArr l => S (fold_right (fun x a => S (need x + a)) 2 l)
  | JObj m => S (fold_right (fun kv a => if is_null (snd kv) then a else S (need (snd kv) + a)) 2 m)
  | _ => 1
  end%nat.

Notation print_ := (marshal cfg_fixed).
Notation hn := (handle_next cfg_fixed idm).
Notation ha := (handle_array cfg_fixed idm).
Notation ho := (handle_object cfg_fixed idm).

Lemma need_pos v : (1 <= need v)%nat.
Proof. destruct v; cbn; lia. Qed.

Lemma hn_skip_sep fuel s s' sk sep c0 r0 : vstart c0 ->
  token (mkDec s sk (sep :: c0 :: r0)) = token1 (mkDec s' sk (c0 :: r0)) ->
  hn fuel (mkDec s sk (sep :: c0 :: r0)) = hn fuel (mkDec s' sk (c0 :: r0)).
Proof.
  intros Hv Ht. destruct fuel; [reflexivity|]. rewrite !hn_S, Ht, (token_token1 s' sk c0 r0 Hv).
  destruct (token1 _) as [| |[] ]; reflexivity.
Qed.

Lemma token1_null s sk rest : value_allowed s = true ->
  token1 (mkDec s sk (bs "null" ++ rest)) = Tk TNull (mkDec (value_end s) sk rest).
Proof. intros H. unfold token1. cbn. now rewrite H. Qed.
Lemma token1_true s sk rest : value_allowed s = true ->
  token1 (mkDec s sk (bs "true" ++ rest)) = Tk (TBool true) (mkDec (value_end s) sk rest).
Proof. intros H. unfold token1. cbn. now rewrite H. Qed.
Lemma token1_false s sk rest : value_allowed s = true ->
  token1 (mkDec s sk (bs "false" ++ rest)) = Tk (TBool false) (mkDec (value_end s) sk rest).
Proof. intros H. unfold token1. cbn. now rewrite H. Qed.

Lemma token_lit_null s sk rest : token (mkDec s sk (bs "null" ++ rest)) = token1 (mkDec s sk (bs "null" ++ rest)).
Proof. reflexivity. Qed.
Lemma token_lit_true s sk rest : token (mkDec s sk (bs "true" ++ rest)) = token1 (mkDec s sk (bs "true" ++ rest)).
Proof. reflexivity. Qed.
Lemma token_lit_false s sk rest : token (mkDec s sk (bs "false" ++ rest)) = token1 (mkDec s sk (bs "false" ++ rest)).
Proof. reflexivity. Qed.

Lemma vstart_quote : vstart c_quote. Proof. repeat split; cbn; lia. Qed.
Lemma vstart_lbracket : vstart (ch 91). Proof. repeat split; cbn; lia. Qed.
Lemma vstart_lbrace : vstart (ch 123). Proof. repeat split; cbn; lia. Qed.

(* the printed form of a readable_exact value starts with a byte that can only begin a value *)
Lemma print_vstart v o : print_ v = Ok o -> readable_exact v -> exists c r, o = c :: r /\ vstart c.
Proof.
  destruct v; intros H R.
  - discriminate.
  - inversion H. eexists _, _. split; [reflexivity|]. repeat split; cbn; lia.
  - destruct b; inversion H; eexists _, _; (split; [reflexivity|]); repeat split; cbn; lia.
  - cbn in H. inversion H; subst. destruct (format_int_start z) as [c [r [E Hc]]].
    exists c, r. split; auto. now apply vstart_number.
  - cbn in H. inversion H; subst. destruct R as [Hs _].
    destruct (float_shape_scan _ Hs) as [_ [_ [c [r [E Hc]]]]]. exists c, r. split; auto. now apply vstart_number.
  - cbn in H. unfold encode_string in H. destruct (enc_body _ _); inversion H.
    eexists _, _. split; [reflexivity|]. apply vstart_quote.
  - rewrite marshal_arr in H. destruct (arr_body _ _ _); inversion H.
    eexists _, _. split; [reflexivity|]. apply vstart_lbracket.
  - rewrite marshal_obj in H. destruct (obj_body _ _ _ _ _); inversion H.
    eexists _, _. split; [reflexivity|]. apply vstart_lbrace.
Qed.

(* ------------------------------------------------------------------------------------------ *)
(* round trip                                                                                   *)
(* ------------------------------------------------------------------------------------------ *)
Definition RT (v : jv) : Prop := forall o, print_ v = Ok o -> readable_exact v ->
  forall s sk rest fuel, value_allowed s = true -> term rest -> (need v <= fuel)%nat ->
  hn fuel (mkDec s sk (o ++ rest)) = Ok (Some (strip v), mkDec (value_end s) sk rest).

Lemma arr_body_term l b rest : arr_body print_ l false = Ok b -> term (b ++ ch 93 :: rest).
Proof.
  destruct l as [|x l]; cbn; intro H.
  - inversion H. cbn. auto.
  - destruct (print_ x); try discriminate. cbn [bind] in H.
    destruct (arr_body print_ l false); try discriminate. inversion H. cbn. auto.
Qed.

Lemma obj_body_term m : forall first b rest, obj_body cfg_fixed print_ m first true = Ok b -> term (b ++ ch 125 :: rest).
Proof.
  induction m as [|[k x] m IH]; intros first b rest H.
  - inversion H. cbn. auto.
  - rewrite obj_body_cons in H. cbn [fix_nullkey cfg_fixed negb andb] in H. rewrite andb_false_r in H.
    destruct (encode_string k); try discriminate. cbn [bind] in H.
    destruct (is_null x); [eapply IH; eauto|].
    destruct (print_ x); try discriminate. cbn [bind] in H.
    destruct (obj_body cfg_fixed print_ m false true); try discriminate. inversion H. cbn. auto.
Qed.

Lemma arr_loop l : Forall RT l -> all_list readable_exact l ->
  forall first body, arr_body print_ l first = Ok body ->
  forall s sk rest acc fuel, (fold_right (fun x a => S (need x + a)) 2 l <= fuel)%nat ->
  ha fuel (mkDec (if first then ArrayStart else ArrayComma) (s :: sk) (body ++ ch 93 :: rest)) acc
  = Ok (Some (JArr (rev acc ++ map strip l)), mkDec (value_end s) sk rest).
Proof.
  induction 1 as [|x l Hx HF IH]; intros HR first body Hb s sk rest acc fuel Hfuel.
  - inversion Hb; subst. cbn [app fold_right map] in *. rewrite app_nil_r.
    destruct fuel as [|[|f]]; try lia. rewrite ha_S, hn_S.
    rewrite token_close_arr by (destruct first; auto). reflexivity.
  - rewrite arr_body_cons in Hb. destruct HR as [Rx HR].
    destruct (print_ x) as [a| |] eqn:Ea; try discriminate. cbn [bind] in Hb.
    destruct (arr_body print_ l false) as [b| |] eqn:Eb; try discriminate. inversion Hb; subst. clear Hb.
    cbn [fold_right] in Hfuel. destruct fuel as [|f]; [lia|].
    pose proof (arr_body_term l b rest Eb) as Ht.
    destruct (print_vstart x a Ea Rx) as [c0 [r0 [-> Hv]]].
    rewrite ha_S.
    assert (Hn : hn f (mkDec (if first then ArrayStart else ArrayComma) (s :: sk)
                         (((if first then [] else comma) ++ (c0 :: r0) ++ b) ++ ch 93 :: rest))
                 = Ok (Some (strip x), mkDec ArrayComma (s :: sk) (b ++ ch 93 :: rest))).
    { assert (Hin : forall pre, (pre ++ (c0 :: r0) ++ b) ++ ch 93 :: rest = pre ++ c0 :: r0 ++ b ++ ch 93 :: rest).
      { intros pre. rewrite <- ?app_assoc. cbn [app]. rewrite <- ?app_assoc. reflexivity. }
      rewrite Hin. destruct first; unfold comma; cbn [app].
      - change (c0 :: r0 ++ b ++ ch 93 :: rest) with ((c0 :: r0) ++ b ++ ch 93 :: rest).
        apply (Hx _ Ea Rx ArrayStart); auto; lia.
      - rewrite (hn_skip_sep f ArrayComma ArrayValue (s :: sk) (ch 44) c0 _ Hv (token_comma_arr _ _)).
        change (c0 :: r0 ++ b ++ ch 93 :: rest) with ((c0 :: r0) ++ b ++ ch 93 :: rest).
        apply (Hx _ Ea Rx ArrayValue); auto; lia. }
    rewrite Hn. rewrite (IH HR false b Eb s sk rest (strip x :: acc) f) by lia.
    cbn [rev map]. now rewrite <- app_assoc.
Qed.

Lemma obj_loop m : Forall (fun kv => RT (snd kv)) m -> all_list (fun kv => readable_exact (snd kv)) m ->
  forall first written body, obj_body cfg_fixed print_ m first written = Ok body ->
  forall s sk rest acc fuel,
  (fold_right (fun kv a => if is_null (snd kv) then a else S (need (snd kv) + a)) 2 m <= fuel)%nat ->
  ho fuel (mkDec (if written then ObjectComma else ObjectStart) (s :: sk) (body ++ ch 125 :: rest)) acc
  = Ok (Some (JObj (rev acc ++ filter notnull (map (onval strip) m))), mkDec (value_end s) sk rest).
Proof.
  induction 1 as [|[k x] m Hx HF IH]; intros HR first written body Hb s sk rest acc fuel Hfuel.
  - inversion Hb; subst. cbn [app fold_right map filter] in *. rewrite app_nil_r.
    destruct fuel as [|[|f]]; try lia. rewrite ho_S, hn_S.
    rewrite token_close_obj by (destruct written; auto). reflexivity.
  - rewrite obj_body_cons in Hb. cbn [fix_nullkey fix_comma cfg_fixed negb] in Hb. rewrite andb_false_r in Hb.
    destruct HR as [Rx HR]. cbn [snd] in Rx, Hx.
    destruct (encode_string k) as [kb| |] eqn:Ek; try discriminate. cbn [bind] in Hb.
    cbn [fold_right snd] in Hfuel. cbn [map filter]. unfold notnull at 1, onval at 1. cbn [fst snd].
    rewrite is_null_strip.
    destruct (is_null x) eqn:En; cbn [negb].
    + eapply IH; eauto.
    + destruct (print_ x) as [a| |] eqn:Ea; try discriminate. cbn [bind] in Hb.
      destruct (obj_body cfg_fixed print_ m false true) as [b| |] eqn:Eb; try discriminate.
      inversion Hb; subst. clear Hb.
      destruct fuel as [|f]; [lia|].
      pose proof (obj_body_term m false b rest Eb) as Ht.
      destruct (print_vstart x a Ea Rx) as [c0 [r0 [-> Hv]]].
      destruct (encode_string_scan k kb (ch 58 :: (c0 :: r0) ++ b ++ ch 125 :: rest) Ek) as [kbody [-> Hscan]].
      pose proof (need_pos x) as Hnp.
      rewrite ho_S.
      (* the member name *)
      assert (Hkey : hn f (mkDec (if written then ObjectComma else ObjectStart) (s :: sk)
                         (((if written then comma else []) ++ (c_quote :: kbody) ++ ch 58 :: (c0 :: r0) ++ b) ++ ch 125 :: rest))
                 = Ok (Some (JStr k), mkDec ObjectColon (s :: sk) (ch 58 :: (c0 :: r0) ++ b ++ ch 125 :: rest))).
      { destruct f as [|f']; [lia|]. rewrite hn_S.
        assert (Hin : forall pre, (pre ++ (c_quote :: kbody) ++ ch 58 :: (c0 :: r0) ++ b) ++ ch 125 :: rest
                      = pre ++ c_quote :: kbody ++ ch 58 :: (c0 :: r0) ++ b ++ ch 125 :: rest).
        { intros pre. rewrite <- ?app_assoc. cbn [app]. rewrite <- ?app_assoc. reflexivity. }
        rewrite Hin. cbn [app] in Hscan. destruct written; unfold comma; cbn [app].
        - rewrite token_comma_obj, (token1_key ObjectKey (s :: sk) kbody _ k (or_intror eq_refl) Hscan). reflexivity.
        - rewrite (token_token1 _ _ _ _ vstart_quote), (token1_key ObjectStart (s :: sk) kbody _ k (or_introl eq_refl) Hscan). reflexivity. }
      rewrite Hkey. cbn [app].
      (* the value *)
      rewrite (hn_skip_sep f ObjectColon ObjectValue (s :: sk) (ch 58) c0 _ Hv (token_colon _ _)).
      change (c0 :: r0 ++ b ++ ch 125 :: rest) with ((c0 :: r0) ++ b ++ ch 125 :: rest).
      rewrite (Hx _ Ea Rx ObjectValue (s :: sk) (b ++ ch 125 :: rest) f eq_refl Ht) by lia.
      cbn [value_end of_nil].
      rewrite (IH HR false true b Eb s sk rest ((k, strip x) :: acc) f) by lia.
      cbn [rev]. now rewrite <- app_assoc.
Qed.

Lemma round_trip_value v : RT v.
Proof.
  induction v using jv_ind2; intros o Ho HR ts sk rest fuel Hs Ht Hf;
    (destruct fuel as [|fu]; [cbn [need] in Hf; lia|]).
  - discriminate.
  - inversion Ho; subst. rewrite hn_S, token_lit_null, token1_null; auto.
  - destruct b; inversion Ho; subst; rewrite hn_S;
      [rewrite token_lit_true, token1_true | rewrite token_lit_false, token1_false]; auto.
  - cbn in Ho. inversion Ho; subst. destruct (format_int_start z) as [c [r [E Hc]]].
    pose proof (scan_number_int z rest Ht) as Hscan. rewrite E in *. cbn [app] in *.
    rewrite hn_S, (token_token1 _ _ _ _ (vstart_number c Hc)), (token1_number ts sk c _ _ rest Hs Hc Hscan).
    cbn [token_to_value]. rewrite <- E, (parse_int64_format z HR). reflexivity.
  - cbn in Ho. inversion Ho; subst. destruct HR as [Hshape Hpf].
    destruct (float_shape_scan _ Hshape) as [Hscan [Hpi [c [r [E Hc]]]]].
    specialize (Hscan rest Ht). rewrite E in *. cbn [app] in *.
    rewrite hn_S, (token_token1 _ _ _ _ (vstart_number c Hc)), (token1_number ts sk c _ _ rest Hs Hc Hscan).
    cbn [token_to_value]. rewrite Hpi, Hpf. reflexivity.
  - cbn in Ho. destruct (encode_string_scan s o rest Ho) as [body [-> Hscan]].
    cbn [app]. rewrite hn_S, (token_token1 _ _ _ _ vstart_quote), (token1_string_value ts sk body rest s Hs Hscan).
    reflexivity.
  - rewrite marshal_arr in Ho. destruct (arr_body print_ l true) as [body| |] eqn:Eb; try discriminate.
    inversion Ho; subst. cbn [app]. rewrite <- app_assoc. cbn [app].
    rewrite hn_S, (token_token1 _ _ _ _ vstart_lbracket), (token1_open_arr ts sk _ Hs).
    cbn [need] in Hf. rewrite (arr_loop l H HR true body Eb ts sk rest [] fu) by lia. reflexivity.
  - rewrite marshal_obj in Ho. destruct (obj_body cfg_fixed print_ m true false) as [body| |] eqn:Eb; try discriminate.
    inversion Ho; subst. cbn [app]. rewrite <- app_assoc. cbn [app].
    rewrite hn_S, (token_token1 _ _ _ _ vstart_lbrace), (token1_open_obj ts sk _ Hs).
    cbn [need] in Hf. rewrite (obj_loop m H HR true false body Eb ts sk rest [] fu) by lia. reflexivity.
Qed.

(* ------------------------------------------------------------------------------------------ *)
(* fuel bound, top level                                                                        *)
(* ------------------------------------------------------------------------------------------ *)
Lemma need_bound v : forall o, print_ v = Ok o -> readable_exact v -> (need v <= 4 * length o)%nat.
Proof.
  induction v using jv_ind2; intros o Ho HR;
    try (destruct (print_vstart _ _ Ho HR) as [c0 [r0 [-> _]]]; cbn [need length]; lia).
  - (* arrays *)
    rewrite marshal_arr in Ho. destruct (arr_body print_ l true) as [body| |] eqn:Eb; try discriminate.
    inversion Ho; subst. cbn [need length]. rewrite app_length. cbn [length].
    assert (HB : forall first body, arr_body print_ l first = Ok body ->
              (fold_right (fun x a => S (need x + a)) 2 l <= 2 + 4 * length body + (if first then 1 else 0))%nat).
    { clear Eb Ho body. cbn [readable_exact] in HR. induction H as [|x l Hx HF IH]; intros first body Hb.
      - inversion Hb. cbn. lia.
      - rewrite arr_body_cons in Hb. destruct HR as [Rx HR].
        destruct (print_ x) as [a| |] eqn:Ea; try discriminate. cbn [bind] in Hb.
        destruct (arr_body print_ l false) as [b| |] eqn:Eb; try discriminate. inversion Hb; subst.
        cbn [fold_right]. specialize (Hx _ eq_refl Rx). specialize (IH HR false b Eb). cbv iota in IH.
        rewrite !app_length. destruct first; unfold comma; cbn [length]; lia. }
    specialize (HB true body Eb). cbv iota in HB. lia.
  - (* objects *)
    rewrite marshal_obj in Ho. destruct (obj_body cfg_fixed print_ m true false) as [body| |] eqn:Eb; try discriminate.
    inversion Ho; subst. cbn [need length]. rewrite app_length. cbn [length].
    assert (HB : forall first written body, obj_body cfg_fixed print_ m first written = Ok body ->
              (fold_right (fun kv a => if is_null (snd kv) then a else S (need (snd kv) + a)) 2 m <= 2 + 4 * length body)%nat).
    { clear Eb Ho body. cbn [readable_exact] in HR. induction H as [|[k x] m Hx HF IH]; intros first written body Hb.
      - inversion Hb. cbn. lia.
      - rewrite obj_body_cons in Hb. cbn [fix_nullkey fix_comma cfg_fixed negb] in Hb. rewrite andb_false_r in Hb.
        destruct HR as [Rx HR]. cbn [snd] in Rx, Hx.
        destruct (encode_string k) as [kb| |] eqn:Ek; try discriminate. cbn [bind] in Hb.
        cbn [fold_right snd].
        destruct (is_null x) eqn:En.
        + eapply IH; eauto.
        + destruct (print_ x) as [a| |] eqn:Ea; try discriminate. cbn [bind] in Hb.
          destruct (obj_body cfg_fixed print_ m false true) as [b| |] eqn:Eb; try discriminate. inversion Hb; subst.
          specialize (Hx _ eq_refl Rx). specialize (IH HR false true b Eb).
          rewrite !app_length. cbn [length]. rewrite !app_length. lia. }
    specialize (HB true false body Eb). lia.
Qed.

Lemma parse_print_exact v o : print_ v = Ok o -> readable_exact v -> parse o = Ok (strip v).
Proof.
  intros Ho HR. unfold parse, unmarshal_with.
  pose proof (round_trip_value v o Ho HR TopValue [] [] (fuel_for o) eq_refl I) as H.
  rewrite app_nil_r in H. fold idm. rewrite H.
  - reflexivity.
  - pose proof (need_bound v o Ho HR). unfold fuel_for. lia.
Qed.

(* ------------------------------------------------------------------------------------------ *)
(* the sign of zero: Float.MarshalJSON writes negative zero as zero                              *)
(* ------------------------------------------------------------------------------------------ *)
Lemma float_marshal_unsign f : float_marshal cfg_fixed (unsign_zero f) = float_marshal cfg_fixed f.
Proof. unfold float_marshal. cbn [fix_negzero cfg_fixed]. now rewrite unsign_zero_idem. Qed.

(* every zero, whatever its sign, has the one form 0.0E0 *)
Lemma float_marshal_zero n e : float_marshal cfg_fixed (F64 n 0 e) = bs "0.0E0".
Proof. vm_compute. reflexivity. Qed.

(* the premise of the property theorems: the text Float.MarshalJSON writes for f has the float
   shape and strconv.ParseFloat reads it back as f, a zero without its sign *)
Definition float_ok (f : f64) : Prop :=
  float_shape (float_marshal cfg_fixed f) /\ parse_float (float_marshal cfg_fixed f) = Some (unsign_zero f).

Fixpoint readable (v : jv) : Prop :=
  match v with
  | JInt z => in_int64 z = true
  | JFloat f => float_ok f
  | JArr l => all_list readable l
  | JObj m => all_list (fun kv => readable (snd kv)) m
  | _ => True
  end.

Lemma float_ok_exact f : float_ok f -> float_exact (unsign_zero f).
Proof. unfold float_ok, float_exact. now rewrite float_marshal_unsign. Qed.

Lemma readable_unsign v : readable v -> readable_exact (unsign v).
Proof.
  induction v using jv_ind2; cbn [unsign readable readable_exact]; auto.
  - apply float_ok_exact.
  - intros HR. apply all_list_Forall. apply all_list_Forall in HR.
    rewrite Forall_forall in *. intros y Hy. apply in_map_iff in Hy. destruct Hy as [x [<- Hx]]. auto.
  - intros HR. apply all_list_Forall. apply all_list_Forall in HR.
    rewrite Forall_forall in *. intros y Hy. apply in_map_iff in Hy. destruct Hy as [x [<- Hx]]. cbn. auto.
Qed.

Lemma arr_body_unsign l : Forall (fun v => print_ (unsign v) = print_ v) l ->
  forall first, arr_body print_ (map unsign l) first = arr_body print_ l first.
Proof.
  induction 1 as [|x l Hx HF IH]; intros first; auto. cbn [map]. rewrite !arr_body_cons, Hx.
  destruct (print_ x); cbn [bind]; auto. now rewrite IH.
Qed.

Lemma obj_body_unsign m : Forall (fun kv => print_ (unsign (snd kv)) = print_ (snd kv)) m ->
  forall first written,
  obj_body cfg_fixed print_ (map (onval unsign) m) first written = obj_body cfg_fixed print_ m first written.
Proof.
  induction 1 as [|[k x] m Hx HF IH]; intros first written; auto.
  cbn [map]. unfold onval at 1. cbn [fst snd] in *. rewrite !obj_body_cons, is_null_unsign, Hx.
  destruct (is_null x && negb (fix_nullkey cfg_fixed)); [apply IH|].
  destruct (encode_string k); cbn [bind]; auto.
  destruct (is_null x); [apply IH|].
  destruct (print_ x); cbn [bind]; auto. now rewrite IH.
Qed.

(* MarshalJSON never sees the sign of a zero *)
Lemma marshal_unsign v : print_ (unsign v) = print_ v.
Proof.
  induction v using jv_ind2; auto.
  - cbn. now rewrite float_marshal_unsign.
  - cbn [unsign]. rewrite !marshal_arr. now rewrite (arr_body_unsign l H).
  - rewrite unsign_obj, !marshal_obj. now rewrite (obj_body_unsign m H).
Qed.

Lemma parse_print v o : print_ v = Ok o -> readable v -> parse o = Ok (strip (unsign v)).
Proof.
  intros Ho HR. apply parse_print_exact; [now rewrite marshal_unsign | now apply readable_unsign].
Qed.

Lemma readable_float_free v : float_free v = true -> ints_ok v = true -> readable v.
Proof.
  induction v using jv_ind2; cbn; auto; try discriminate.
  - intros H1 H2. rewrite forallb_forall in H1, H2. apply all_list_Forall.
    rewrite Forall_forall in *. auto.
  - intros H1 H2. rewrite forallb_forall in H1, H2. apply all_list_Forall.
    rewrite Forall_forall in *. auto.
Qed.

(* ------------------------------------------------------------------------------------------ *)
(* what reading produces                                                                        *)
(* ------------------------------------------------------------------------------------------ *)
Lemma parse_int64_range lit z : parse_int64 lit = Some z -> in_int64 z = true.
Proof.
  unfold parse_int64.
  destruct (match lit with [] => (false, []) | b :: r => if Byte.eqb b c_minus then (true, r) else (false, lit) end) as [neg ds].
  destruct ds; [discriminate|]. destruct (all_digits (b :: ds)); [|discriminate].
  destruct (in_int64 _) eqn:E; [|discriminate]. intro H. inversion H; subst. exact E.
Qed.

Lemma forallb_rev {A} (p : A -> bool) l : forallb p (rev l) = forallb p l.
Proof.
  induction l; cbn; auto. rewrite forallb_app, IHl. cbn. rewrite andb_true_r. apply andb_comm.
Qed.

Lemma read_ints_ok c f :
  (forall d vo d', handle_next c idm f d = Ok (vo, d') -> ints_ok (of_nil vo) = true) /\
  (forall d acc vo d', handle_object c idm f d acc = Ok (vo, d') ->
     forallb (fun kv => ints_ok (snd kv)) acc = true -> ints_ok (of_nil vo) = true) /\
  (forall d acc vo d', handle_array c idm f d acc = Ok (vo, d') ->
     forallb ints_ok acc = true -> ints_ok (of_nil vo) = true).
Proof.
  induction f as [|f [IHn [IHo IHa]]]; [repeat split; intros; discriminate|].
  repeat split.
  - intros d vo d' H. rewrite hn_S in H. destruct (token d) as [| |t d1]; try discriminate.
    + destruct (fix_eof c); inversion H; reflexivity.
    + destruct t as [[|] [|] | s | lit | b |]; try (inversion H; reflexivity).
      * eapply IHo; eauto.
      * eapply IHa; eauto.
      * cbn in H. destruct (parse_int64 lit) eqn:E; [inversion H; subst; cbn; eapply parse_int64_range; eauto|].
        destruct (parse_float lit); [inversion H; reflexivity|].
        destruct (fix_range c); inversion H; reflexivity.
  - intros d acc vo d' H Hacc. rewrite ho_S in H.
    destruct (handle_next c idm f d) as [[[v|] d1]|e|] eqn:E1; try discriminate.
    + destruct v; try discriminate.
      destruct (handle_next c idm f d1) as [[vo2 d2]|e|] eqn:E2; try discriminate.
      eapply IHo; eauto. cbn [forallb snd]. rewrite Hacc, (IHn _ _ _ E2). reflexivity.
    + inversion H; subst. cbn. unfold idm. now rewrite forallb_rev.
  - intros d acc vo d' H Hacc. rewrite ha_S in H.
    destruct (handle_next c idm f d) as [[[v|] d1]|e|] eqn:E1; try discriminate.
    + eapply IHa; eauto. cbn [forallb]. rewrite Hacc. pose proof (IHn _ _ _ E1) as Hv. cbn in Hv. now rewrite Hv.
    + inversion H; subst. cbn. now rewrite forallb_rev.
Qed.

Lemma parse_with_ints_ok c t v : unmarshal_with c idm t = Ok v -> ints_ok v = true.
Proof.
  unfold unmarshal_with. destruct (handle_next c idm (fuel_for t) _) as [[vo d]|e|] eqn:E; try discriminate.
  pose proof (proj1 (read_ints_ok c _) _ _ _ E) as Hi.
  destruct (fix_eof c); [destruct (token d)|]; intro H; inversion H; subst; auto.
Qed.

(* only the float part of readability is a premise *)
Fixpoint floats_ok (v : jv) : Prop :=
  match v with
  | JFloat f => float_ok f
  | JArr l => all_list floats_ok l
  | JObj m => all_list (fun kv => floats_ok (snd kv)) m
  | _ => True
  end.

Lemma readable_split v : ints_ok v = true -> floats_ok v -> readable v.
Proof.
  induction v using jv_ind2; cbn; auto.
  - intros H1 H2. rewrite forallb_forall in H1. apply all_list_Forall. apply all_list_Forall in H2.
    rewrite Forall_forall in *. auto.
  - intros H1 H2. rewrite forallb_forall in H1. apply all_list_Forall. apply all_list_Forall in H2.
    rewrite Forall_forall in *. auto.
Qed.

Lemma floats_ok_float_free v : float_free v = true -> floats_ok v.
Proof.
  induction v using jv_ind2; cbn; auto; try discriminate.
  - intros H1. rewrite forallb_forall in H1. apply all_list_Forall. rewrite Forall_forall in *. auto.
  - intros H1. rewrite forallb_forall in H1. apply all_list_Forall. rewrite Forall_forall in *. auto.
Qed.

Lemma readable_sortrec v : readable v -> readable (sortrec v).
Proof.
  induction v using jv_ind2; auto.
  - cbn. intros HR. apply all_list_Forall. apply all_list_Forall in HR.
    rewrite Forall_forall in *. intros y Hy. apply in_map_iff in Hy. destruct Hy as [x [<- Hx]]. auto.
  - rewrite sortrec_obj. cbn [readable]. intros HR. apply all_list_Forall. apply all_list_Forall in HR.
    eapply Permutation_Forall; [symmetry; apply sort_perm|].
    rewrite Forall_forall in *. intros y Hy. apply in_map_iff in Hy. destruct Hy as [x [<- Hx]]. cbn. auto.
Qed.

Lemma readable_strip v : readable v -> readable (strip v).
Proof.
  induction v using jv_ind2; auto.
  - cbn. intros HR. apply all_list_Forall. apply all_list_Forall in HR.
    rewrite Forall_forall in *. intros y Hy. apply in_map_iff in Hy. destruct Hy as [x [<- Hx]]. auto.
  - rewrite strip_obj. cbn [readable]. intros HR. apply all_list_Forall. apply all_list_Forall in HR.
    rewrite Forall_forall in *. intros y Hy. apply filter_In in Hy. destruct Hy as [Hy _].
    apply in_map_iff in Hy. destruct Hy as [x [<- Hx]]. cbn. auto.
Qed.

Lemma readable_norm v : readable v -> readable (norm v).
Proof. intro H. unfold norm. now apply readable_strip, readable_sortrec. Qed.

(* ------------------------------------------------------------------------------------------ *)
(* the property-level statements (canon = the fixed code)                                       *)
(* ------------------------------------------------------------------------------------------ *)
Lemma canon_spec t : canon t = bind (parse t) (fun v => print (sortrec v)).
Proof.
  unfold canon, canon_at, parse, print. rewrite unmarshal_sortrec. fold idm.
  destruct (unmarshal_with cfg_fixed idm t); reflexivity.
Qed.

Lemma canon_prints_norm t v o : parse t = Ok v -> canon t = Ok o -> print (norm v) = Ok o.
Proof.
  intros Hp Hc. rewrite canon_spec, Hp in Hc. cbn [bind] in Hc.
  unfold norm, print in *. now apply marshal_strip.
Qed.

Lemma canon_accepts_only_parsed t o : canon t = Ok o -> exists v, parse t = Ok v /\ print (norm v) = Ok o.
Proof.
  intros Hc. pose proof Hc as Hc'. rewrite canon_spec in Hc'.
  destruct (parse t) as [v| |] eqn:E; try discriminate. exists v. split; auto.
  eapply canon_prints_norm; eauto.
Qed.

Lemma canon_invariant t1 t2 v1 v2 o1 o2 :
  parse t1 = Ok v1 -> parse t2 = Ok v2 -> norm v1 = norm v2 ->
  canon t1 = Ok o1 -> canon t2 = Ok o2 -> o1 = o2.
Proof.
  intros P1 P2 Hn C1 C2.
  pose proof (canon_prints_norm _ _ _ P1 C1) as H1. pose proof (canon_prints_norm _ _ _ P2 C2) as H2.
  rewrite Hn in H1. congruence.
Qed.

Lemma parse_ints_ok t v : parse t = Ok v -> ints_ok v = true.
Proof. apply parse_with_ints_ok. Qed.

(* the sign of a float zero is not content either: values equal up to it share a canonical form *)
Lemma canon_invariant_zero t1 t2 v1 v2 o1 o2 :
  parse t1 = Ok v1 -> parse t2 = Ok v2 -> unsign (norm v1) = unsign (norm v2) ->
  canon t1 = Ok o1 -> canon t2 = Ok o2 -> o1 = o2.
Proof.
  intros P1 P2 Hn C1 C2.
  pose proof (canon_prints_norm _ _ _ P1 C1) as H1. pose proof (canon_prints_norm _ _ _ P2 C2) as H2.
  unfold print in *. rewrite <- marshal_unsign in H1, H2. rewrite Hn in H1. congruence.
Qed.

Lemma canon_parses_back t v o : parse t = Ok v -> floats_ok v -> canon t = Ok o -> parse o = Ok (unsign (norm v)).
Proof.
  intros Hp Hf Hc. pose proof (canon_prints_norm _ _ _ Hp Hc) as Hn.
  assert (HR : readable (norm v)) by (apply readable_norm, readable_split; [eapply parse_ints_ok; eauto | auto]).
  rewrite (parse_print _ _ Hn HR). now rewrite strip_unsign, strip_norm.
Qed.

Lemma canon_idempotent t v o : parse t = Ok v -> floats_ok v -> canon t = Ok o -> canon o = Ok o.
Proof.
  intros Hp Hf Hc. rewrite canon_spec, (canon_parses_back _ _ _ Hp Hf Hc). cbn [bind].
  rewrite sortrec_unsign, sortrec_norm. unfold print. rewrite marshal_unsign.
  eapply canon_prints_norm; eauto.
Qed.

Lemma canon_injective t1 t2 v1 v2 o :
  parse t1 = Ok v1 -> parse t2 = Ok v2 -> floats_ok v1 -> floats_ok v2 ->
  canon t1 = Ok o -> canon t2 = Ok o -> unsign (norm v1) = unsign (norm v2).
Proof.
  intros P1 P2 F1 F2 C1 C2.
  pose proof (canon_parses_back _ _ _ P1 F1 C1) as H1. pose proof (canon_parses_back _ _ _ P2 F2 C2) as H2.
  congruence.
Qed.

(* two accepted texts have the same canonical form exactly when they have the same content *)
Lemma canon_same_form_iff t1 t2 v1 v2 o1 o2 :
  parse t1 = Ok v1 -> parse t2 = Ok v2 -> floats_ok v1 -> floats_ok v2 ->
  canon t1 = Ok o1 -> canon t2 = Ok o2 -> (o1 = o2 <-> unsign (norm v1) = unsign (norm v2)).
Proof.
  intros P1 P2 F1 F2 C1 C2. split.
  - intros <-. eapply canon_injective; eauto.
  - intro Hn. exact (canon_invariant_zero t1 t2 v1 v2 o1 o2 P1 P2 Hn C1 C2).
Qed.

(* a float-free value is its own unsigned form *)
Lemma unsign_float_free v : float_free v = true -> unsign v = v.
Proof.
  induction v using jv_ind2; cbn [float_free unsign]; auto; try discriminate.
  - intros HF. rewrite forallb_forall in HF. f_equal. rewrite <- (map_id l) at 2. apply map_ext_Forall.
    rewrite Forall_forall in *. auto.
  - intros HF. rewrite forallb_forall in HF. f_equal. rewrite <- (map_id m) at 2. apply map_ext_Forall.
    rewrite Forall_forall in *. intros [k x] Hx. cbn. f_equal. apply (H _ Hx). apply (HF _ Hx).
Qed.

Lemma float_free_norm v : float_free v = true -> float_free (norm v) = true.
Proof.
  unfold norm. intro HF.
  assert (S : float_free (sortrec v) = true).
  { revert HF. induction v using jv_ind2; auto.
    - cbn. rewrite !forallb_forall. intros HF y Hy. apply in_map_iff in Hy. destruct Hy as [x [<- Hx]].
      rewrite Forall_forall in H. auto.
    - rewrite sortrec_obj. cbn [float_free]. rewrite !forallb_forall. intros HF y Hy.
      apply (Permutation_in _ (sort_perm _)) in Hy. apply in_map_iff in Hy. destruct Hy as [x [<- Hx]].
      rewrite Forall_forall in H. cbn. auto. }
  revert S. generalize (sortrec v). clear. intro v. induction v using jv_ind2; auto.
  - cbn. rewrite !forallb_forall. intros HF y Hy. apply in_map_iff in Hy. destruct Hy as [x [<- Hx]].
    rewrite Forall_forall in H. auto.
  - rewrite strip_obj. cbn [float_free]. rewrite !forallb_forall. intros HF y Hy.
    apply filter_In in Hy. destruct Hy as [Hy _]. apply in_map_iff in Hy. destruct Hy as [x [<- Hx]].
    rewrite Forall_forall in H. cbn. auto.
Qed.

Lemma canon_parses_back_float_free t v o :
  parse t = Ok v -> float_free v = true -> canon t = Ok o -> parse o = Ok (norm v).
Proof.
  intros Hp Hf Hc. rewrite (canon_parses_back t v o Hp (floats_ok_float_free v Hf) Hc).
  now rewrite (unsign_float_free _ (float_free_norm v Hf)).
Qed.

Lemma canon_injective_float_free t1 t2 v1 v2 o :
  parse t1 = Ok v1 -> parse t2 = Ok v2 -> float_free v1 = true -> float_free v2 = true ->
  canon t1 = Ok o -> canon t2 = Ok o -> norm v1 = norm v2.
Proof.
  intros P1 P2 F1 F2 C1 C2.
  pose proof (canon_parses_back_float_free _ _ _ P1 F1 C1) as H1.
  pose proof (canon_parses_back_float_free _ _ _ P2 F2 C2) as H2. congruence.
Qed.

(* member order: same content up to the order of members with different names *)
Lemma canon_member_order t1 t2 v1 v2 o1 o2 :
  parse t1 = Ok v1 -> parse t2 = Ok v2 -> same_content v1 v2 -> dupfree v1 = true ->
  canon t1 = Ok o1 -> canon t2 = Ok o2 -> o1 = o2.
Proof.
  intros P1 P2 HS HD. eapply canon_invariant; eauto. now apply norm_same_content.
Qed.

(* ---- shape: members of every object of a normalised value are in byte order ---- *)
Fixpoint keys_sorted (v : jv) : Prop :=
  match v with
  | JArr l => all_list keys_sorted l
  | JObj m => StronglySorted (fun a b => bytes_ltb (fst b) (fst a) = false) m /\ all_list (fun kv => keys_sorted (snd kv)) m
  | _ => True
  end.

Lemma StronglySorted_filter {A} (R : A -> A -> Prop) p l : StronglySorted R l -> StronglySorted R (filter p l).
Proof.
  induction 1; cbn; [constructor|]. destruct (p a); auto. constructor; auto.
  rewrite Forall_forall in *. intros x Hx. apply filter_In in Hx. apply H0. tauto.
Qed.

Lemma StronglySorted_map_val (f : jv -> jv) l :
  StronglySorted kle l -> StronglySorted kle (map (onval f) l).
Proof.
  induction 1; cbn; constructor; auto.
  rewrite Forall_forall in *. intros x Hx. apply in_map_iff in Hx. destruct Hx as [y [<- Hy]].
  unfold kle, onval in *. cbn. now apply H0.
Qed.

Lemma keys_sorted_sortrec v : keys_sorted (sortrec v).
Proof.
  induction v using jv_ind2; cbn [sortrec keys_sorted]; auto.
  - apply all_list_Forall. rewrite Forall_forall in *. intros y Hy.
    apply in_map_iff in Hy. destruct Hy as [x [<- Hx]]. auto.
  - split; [apply sort_sorted|].
    apply all_list_Forall. eapply Permutation_Forall; [symmetry; apply sort_perm|].
    rewrite Forall_forall in *. intros y Hy. apply in_map_iff in Hy. destruct Hy as [x [<- Hx]]. cbn. auto.
Qed.

Lemma keys_sorted_strip v : keys_sorted v -> keys_sorted (strip v).
Proof.
  induction v using jv_ind2; auto.
  - cbn. intros HS. apply all_list_Forall. apply all_list_Forall in HS.
    rewrite Forall_forall in *. intros y Hy. apply in_map_iff in Hy. destruct Hy as [x [<- Hx]]. auto.
  - rewrite strip_obj. cbn [keys_sorted]. intros [HS HA]. split.
    + apply StronglySorted_filter. now apply (StronglySorted_map_val strip).
    + apply all_list_Forall. apply all_list_Forall in HA.
      rewrite Forall_forall in *. intros y Hy. apply filter_In in Hy. destruct Hy as [Hy _].
      apply in_map_iff in Hy. destruct Hy as [x [<- Hx]]. cbn. auto.
Qed.

Lemma keys_sorted_norm v : keys_sorted (norm v).
Proof. unfold norm. apply keys_sorted_strip, keys_sorted_sortrec. Qed.

(* no member of a normalised object is null *)
Fixpoint no_null_members (v : jv) : Prop :=
  match v with
  | JArr l => all_list no_null_members l
  | JObj m => all_list (fun kv => is_null (snd kv) = false /\ no_null_members (snd kv)) m
  | _ => True
  end.

Lemma no_null_members_strip v : no_null_members (strip v).
Proof.
  induction v using jv_ind2; cbn [strip no_null_members]; auto.
  - apply all_list_Forall. rewrite Forall_forall in *. intros y Hy.
    apply in_map_iff in Hy. destruct Hy as [x [<- Hx]]. auto.
  - apply all_list_Forall. rewrite Forall_forall in *. intros y Hy. apply filter_In in Hy. destruct Hy as [Hy Hn].
    apply in_map_iff in Hy. destruct Hy as [x [<- Hx]]. cbn in *. split; auto.
    now destruct (is_null (strip (snd x))).
Qed.

(* ---- escapes: what encodeString writes for an ASCII byte is the README's table ---- *)
Definition readme_piece (b : byte) : bytes :=
  let z := bZ b in
  if z =? 34 then [c_bs; ch 34] else if z =? 92 then [c_bs; c_bs]
  else if z =? 8 then [c_bs; ch 98] else if z =? 9 then [c_bs; ch 116] else if z =? 10 then [c_bs; ch 110]
  else if z =? 12 then [c_bs; ch 102] else if z =? 13 then [c_bs; ch 114]
  else if z <? 32 then [c_bs; c_u; c_0; c_0; hex_upper (z / 16); hex_upper (z mod 16)]
  else [b].

Lemma escapes_are_readme b : (bZ b <? 128) = true -> (if safe b then [b] else escape b) = readme_piece b.
Proof. intro H. destruct b; try (vm_compute in H; discriminate H); reflexivity. Qed.
