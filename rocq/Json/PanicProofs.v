(* The fixed code never panics: with EOF turned into an error, the token machine of
   encoding/json never lets handleNextToken return nil where a value is required, so no nil
   Canonicalable is ever stored or marshalled. *)
From Coq Require Import String.
From Coq Require Import List ZArith Strings.Byte Bool Lia Permutation.
From Verif Require Import Base.Wire Json.Utf8 Json.Json Json.Number Json.Lexer Json.C14n
  Json.JsonProofs Json.LexProofs Json.C14nProofs.
Import ListNotations.
Open Scope Z_scope.

Fixpoint nonil (v : jv) : bool :=
  match v with
  | JNil => false
  | JArr l => forallb nonil l
  | JObj m => forallb (fun kv => nonil (snd kv)) m
  | _ => true
  end.

(* ---- what one token does to the decoder state ---- *)
Definition T1 (s : tstate) (sk : list tstate) (t : tok) (s1 : tstate) (sk1 : list tstate) : Prop :=
  match t with
  | TDelim true curly => value_allowed s = true /\ s1 = (if curly then ObjectStart else ArrayStart) /\ sk1 = s :: sk
  | TDelim false curly =>
      (if curly then s = ObjectStart \/ s = ObjectComma else s = ArrayStart \/ s = ArrayComma) /\
      exists p, sk = p :: sk1 /\ s1 = value_end p
  | TString _ => ((s = ObjectStart \/ s = ObjectKey) /\ s1 = ObjectColon /\ sk1 = sk) \/
                 (value_allowed s = true /\ s1 = value_end s /\ sk1 = sk)
  | _ => value_allowed s = true /\ s1 = value_end s /\ sk1 = sk
  end.

Lemma scan_scalar_kind s t rest : scan_scalar s = Some (t, rest) -> match t with TDelim _ _ => False | _ => True end.
Proof.
  unfold scan_scalar. destruct s as [|c r]; [discriminate|]. cbv zeta.
  destruct (bZ c =? 34).
  { destruct (scan_string _ r) as [[o t0]|]; cbn; [|discriminate]. intro H. inversion H. exact I. }
  destruct (bZ c =? 116).
  { destruct (strip_prefix _ _); cbn; [|discriminate]. intro H. inversion H. exact I. }
  destruct (bZ c =? 102).
  { destruct (strip_prefix _ _); cbn; [|discriminate]. intro H. inversion H. exact I. }
  destruct (bZ c =? 110).
  { destruct (strip_prefix _ _); cbn; [|discriminate]. intro H. inversion H. exact I. }
  destruct ((bZ c =? 45) || is_digit c); [|discriminate].
  destruct (scan_number (c :: r)) as [[l t0]|]; cbn; [|discriminate]. intro H. inversion H. exact I.
Qed.

Lemma token1_inv d t d1 : token1 d = Tk t d1 -> T1 (st d) (stk d) t (st d1) (stk d1).
Proof.
  destruct d as [s sk i]. unfold token1. cbn [st stk inp].
  destruct (skip_ws i) as [|c r]; [discriminate|]. cbv zeta.
  destruct (bZ c =? 91).
  { destruct (value_allowed s) eqn:E; [|discriminate]. intro H. inversion H; subst. cbn. auto. }
  destruct (bZ c =? 93).
  { destruct s; try discriminate; destruct sk as [|p ps]; try discriminate; intro H; inversion H; subst; cbn; eauto. }
  destruct (bZ c =? 123).
  { destruct (value_allowed s) eqn:E; [|discriminate]. intro H. inversion H; subst. cbn. auto. }
  destruct (bZ c =? 125).
  { destruct s; try discriminate; destruct sk as [|p ps]; try discriminate; intro H; inversion H; subst; cbn; eauto. }
  destruct ((bZ c =? 58) || (bZ c =? 44)); [discriminate|].
  destruct ((bZ c =? 34) && (tstate_eqb s ObjectStart || tstate_eqb s ObjectKey)) eqn:EK.
  { destruct (scan_string _ r) as [[k t0]|]; [|discriminate]. intro H. inversion H; subst. cbn. left.
    rewrite andb_true_iff in EK. destruct EK as [_ EK]. destruct s; cbn in EK; try discriminate; auto. }
  destruct (value_allowed s) eqn:E; [|discriminate].
  destruct (scan_scalar (c :: r)) as [[t0 rest]|] eqn:ES; [|discriminate].
  intro H. inversion H; subst. pose proof (scan_scalar_kind _ _ _ ES) as HK.
  destruct t; cbn; auto; contradiction.
Qed.

(* the state in which the value token itself is read *)
Definition eff (s s' : tstate) : Prop :=
  s' = s \/ (s = ObjectColon /\ s' = ObjectValue) \/ (s = ArrayComma /\ s' = ArrayValue) \/ (s = ObjectComma /\ s' = ObjectKey).

Lemma token_inv d t d1 : token d = Tk t d1 -> exists s', eff (st d) s' /\ T1 s' (stk d) t (st d1) (stk d1).
Proof.
  destruct d as [s sk i]. unfold token. cbn [st stk inp].
  destruct (skip_ws i) as [|c r] eqn:EW; [discriminate|]. cbv zeta.
  destruct (bZ c =? 58).
  { destruct (tstate_eqb s ObjectColon) eqn:E; [|discriminate]. intro H. apply token1_inv in H. cbn [st stk] in H.
    exists ObjectValue. split; auto. right. left. destruct s; try discriminate; auto. }
  destruct (bZ c =? 44).
  { destruct (tstate_eqb s ArrayComma) eqn:E.
    - intro H. apply token1_inv in H. cbn [st stk] in H. exists ArrayValue. split; auto.
      right. right. left. destruct s; try discriminate; auto.
    - destruct (tstate_eqb s ObjectComma) eqn:E2; [|discriminate].
      intro H. apply token1_inv in H. cbn [st stk] in H. exists ObjectKey. split; auto.
      right. right. right. destruct s; try discriminate; auto. }
  intro H. apply token1_inv in H. cbn [st stk] in H. exists s. split; auto. now left.
Qed.

(* ---- the handlers ---- *)
Section Handlers.
Variable post : list (bytes * jv) -> list (bytes * jv).
Hypothesis post_nonil : forall l, forallb (fun kv => nonil (snd kv)) l = true -> forallb (fun kv => nonil (snd kv)) (post l) = true.

Notation hn := (handle_next cfg_fixed post).
Notation ha := (handle_array cfg_fixed post).
Notation ho := (handle_object cfg_fixed post).

Definition nonil_o (vo : option jv) : Prop := match vo with Some v => nonil v = true | None => True end.

Definition In_n (d : dec) (vo : option jv) (d' : dec) : Prop :=
  nonil_o vo /\
  match st d with
  | TopValue => vo <> None /\ st d' = TopValue /\ stk d' = stk d
  | ObjectColon => vo <> None /\ st d' = ObjectComma /\ stk d' = stk d
  | ArrayStart | ArrayComma =>
      (vo = None /\ exists p, stk d = p :: stk d' /\ st d' = value_end p) \/
      (vo <> None /\ st d' = ArrayComma /\ stk d' = stk d)
  | ObjectStart | ObjectComma =>
      (vo = None /\ exists p, stk d = p :: stk d' /\ st d' = value_end p) \/
      ((exists k, vo = Some (JStr k)) /\ st d' = ObjectColon /\ stk d' = stk d)
  | _ => True
  end.

Lemma handlers_inv f :
  (forall d vo d', hn f d = Ok (vo, d') -> In_n d vo d') /\
  (forall d acc vo d', ho f d acc = Ok (vo, d') -> st d = ObjectStart \/ st d = ObjectComma ->
     forall p sk, stk d = p :: sk -> forallb (fun kv => nonil (snd kv)) acc = true ->
     (exists v, vo = Some v /\ nonil v = true) /\ st d' = value_end p /\ stk d' = sk) /\
  (forall d acc vo d', ha f d acc = Ok (vo, d') -> st d = ArrayStart \/ st d = ArrayComma ->
     forall p sk, stk d = p :: sk -> forallb nonil acc = true ->
     (exists v, vo = Some v /\ nonil v = true) /\ st d' = value_end p /\ stk d' = sk).
Proof.
  induction f as [|f [IHn [IHo IHa]]]; [repeat split; intros; discriminate|].
  split; [|split].
  - intros d vo d' H. rewrite hn_S in H. cbn [fix_eof cfg_fixed] in H.
    destruct (token d) as [| |t d1] eqn:ET; try discriminate.
    destruct (token_inv _ _ _ ET) as [s' [He HT]].
    destruct t as [[|] curly | s | lit | b |].
    + (* opening delimiter *)
      cbn [T1] in HT. destruct HT as [Hva [Hs1 Hsk1]].
      assert (Hres : (exists v, vo = Some v /\ nonil v = true) /\ st d' = value_end s' /\ stk d' = stk d).
      { destruct curly; subst.
        - eapply (IHo d1 [] vo d'); eauto.
        - eapply (IHa d1 [] vo d'); eauto. }
      destruct Hres as [[v [-> Hv]] [Hst Hstk]]. split; [exact Hv|].
      destruct He as [-> | [[E1 ->] | [[E1 ->] | [E1 ->]]]]; try rewrite E1; try discriminate;
        destruct (st d); try discriminate; cbn in *; try (split; [congruence|auto]); try (right; split; [congruence|auto]); auto.
    + (* closing delimiter *)
      inversion H; subst. split; [exact I|]. cbn [T1] in HT. destruct HT as [Hs [p [Hsk Hs1]]].
      destruct He as [-> | [[E1 ->] | [[E1 ->] | [E1 ->]]]];
        destruct curly; destruct Hs as [Hs | Hs]; try discriminate; rewrite ?Hs, ?E1; cbn; try exact I; left; split; eauto.
    + (* string *)
      cbn in H. inversion H; subst. split; [reflexivity|]. cbn [T1] in HT.
      destruct HT as [[Hs [Hs1 Hsk1]] | [Hva [Hs1 Hsk1]]].
      * destruct He as [-> | [[E1 ->] | [[E1 ->] | [E1 ->]]]]; destruct Hs as [Hs | Hs]; try discriminate;
          rewrite ?Hs, ?E1; cbn; try exact I; right; split; eauto.
      * destruct He as [-> | [[E1 ->] | [[E1 ->] | [E1 ->]]]]; try rewrite E1; try discriminate;
          destruct (st d); try discriminate; cbn in *; try (split; [congruence|auto]); try (right; split; [congruence|auto]); auto.
    + (* number *)
      cbn in H. destruct (parse_int64 lit); [|destruct (parse_float lit); [|discriminate]];
      inversion H; subst; (split; [reflexivity|]); cbn [T1] in HT; destruct HT as [Hva [Hs1 Hsk1]];
      destruct He as [-> | [[E1 ->] | [[E1 ->] | [E1 ->]]]]; try rewrite E1; try discriminate;
        destruct (st d); try discriminate; cbn in *; try (split; [congruence|auto]); try (right; split; [congruence|auto]); auto.
    + cbn in H. inversion H; subst; (split; [reflexivity|]); cbn [T1] in HT; destruct HT as [Hva [Hs1 Hsk1]];
      destruct He as [-> | [[E1 ->] | [[E1 ->] | [E1 ->]]]]; try rewrite E1; try discriminate;
        destruct (st d); try discriminate; cbn in *; try (split; [congruence|auto]); try (right; split; [congruence|auto]); auto.
    + cbn in H. inversion H; subst; (split; [reflexivity|]); cbn [T1] in HT; destruct HT as [Hva [Hs1 Hsk1]];
      destruct He as [-> | [[E1 ->] | [[E1 ->] | [E1 ->]]]]; try rewrite E1; try discriminate;
        destruct (st d); try discriminate; cbn in *; try (split; [congruence|auto]); try (right; split; [congruence|auto]); auto.
  - intros d acc vo d' H Hst p sk Hsk Hacc. rewrite ho_S in H.
    destruct (hn f d) as [[[v|] d1]|e|] eqn:E1; try discriminate.
    + destruct (IHn _ _ _ E1) as [Hv HI].
      assert (HK : (exists k, v = JStr k) /\ st d1 = ObjectColon /\ stk d1 = stk d).
      { destruct Hst as [Hs | Hs]; rewrite Hs in HI; destruct HI as [[HN _] | [[k Hk] HR]]; try discriminate;
          inversion Hk; subst; eauto. }
      destruct HK as [[k ->] [Hs1 Hsk1]].
      destruct (hn f d1) as [[vo2 d2]|e|] eqn:E2; try discriminate.
      destruct (IHn _ _ _ E2) as [Hv2 HI2]. rewrite Hs1 in HI2. destruct HI2 as [Hne [Hs2 Hsk2]].
      destruct vo2 as [v2|]; [|congruence]. cbn [of_nil] in H.
      eapply (IHo d2 ((k, v2) :: acc) vo d' H); eauto.
      * rewrite Hsk2, Hsk1. exact Hsk.
      * cbn [forallb snd]. cbn in Hv2. now rewrite Hv2, Hacc.
    + inversion H; subst. destruct (IHn _ _ _ E1) as [_ HI].
      assert (HC : exists p', stk d = p' :: stk d' /\ st d' = value_end p').
      { destruct Hst as [Hs | Hs]; rewrite Hs in HI; destruct HI as [[_ HC] | [[k Hk] _]]; try discriminate; auto. }
      destruct HC as [p' [Hp Hs']]. rewrite Hsk in Hp. inversion Hp; subst.
      split; [|auto]. eexists. split; [reflexivity|]. cbn [nonil]. apply post_nonil. now rewrite forallb_rev.
  - intros d acc vo d' H Hst p sk Hsk Hacc. rewrite ha_S in H.
    destruct (hn f d) as [[[v|] d1]|e|] eqn:E1; try discriminate.
    + destruct (IHn _ _ _ E1) as [Hv HI].
      assert (HK : st d1 = ArrayComma /\ stk d1 = stk d).
      { destruct Hst as [Hs | Hs]; rewrite Hs in HI; destruct HI as [[HN _] | [_ HR]]; try discriminate; auto. }
      destruct HK as [Hs1 Hsk1].
      eapply (IHa d1 (v :: acc) vo d' H); eauto.
      * rewrite Hsk1. exact Hsk.
      * cbn [forallb]. cbn in Hv. now rewrite Hv, Hacc.
    + inversion H; subst. destruct (IHn _ _ _ E1) as [_ HI].
      assert (HC : exists p', stk d = p' :: stk d' /\ st d' = value_end p').
      { destruct Hst as [Hs | Hs]; rewrite Hs in HI; destruct HI as [[_ HC] | [HN _]]; try congruence; auto. }
      destruct HC as [p' [Hp Hs']]. rewrite Hsk in Hp. inversion Hp; subst.
      split; [|auto]. eexists. split; [reflexivity|]. cbn [nonil]. now rewrite forallb_rev.
Qed.

Lemma unmarshal_nonil t v : unmarshal_with cfg_fixed post t = Ok v -> nonil v = true.
Proof.
  unfold unmarshal_with. destruct (hn (fuel_for t) _) as [[vo d]|e|] eqn:E; try discriminate.
  destruct (proj1 (handlers_inv _) _ _ _ E) as [Hv HI]. cbn [st] in HI. destruct HI as [Hne _].
  cbn [fix_eof cfg_fixed]. destruct (token d); try discriminate. intro H. inversion H; subst.
  destruct vo; [exact Hv|congruence].
Qed.

Lemma unmarshal_no_panic t : unmarshal_with cfg_fixed post t <> Panic.
Proof.
  assert (HP : forall f, (forall d, hn f d <> Panic) /\ (forall d acc, ho f d acc <> Panic) /\ (forall d acc, ha f d acc <> Panic)).
  { induction f as [|f [IHn [IHo IHa]]]; [repeat split; intros; discriminate|].
    repeat split.
    - intro d. rewrite hn_S. destruct (token d) as [| |tk d1]; try discriminate.
      destruct tk as [[|] [|] | s | lit | b |]; try discriminate; auto.
      cbn. destruct (parse_int64 lit); [discriminate|]. destruct (parse_float lit); discriminate.
    - intros d acc. rewrite ho_S. pose proof (IHn d) as Hd.
      destruct (hn f d) as [[[v|] d1]|e|]; try discriminate; try congruence.
      destruct v; try discriminate. pose proof (IHn d1) as Hd1.
      destruct (hn f d1) as [[vo2 d2]|e|]; try discriminate; try congruence; auto.
    - intros d acc. rewrite ha_S. pose proof (IHn d) as Hd.
      destruct (hn f d) as [[[v|] d1]|e|]; try discriminate; try congruence; auto. }
  unfold unmarshal_with. specialize (proj1 (HP (fuel_for t)) (mkDec TopValue [] t)).
  destruct (hn (fuel_for t) _) as [[vo d]|e|]; try discriminate; try congruence.
  intros _. cbn [fix_eof cfg_fixed]. destruct (token d); discriminate.
Qed.
End Handlers.

(* ---- printing a value without nil never panics ---- *)
Lemma marshal_no_panic c v : nonil v = true -> marshal c v <> Panic.
Proof.
  induction v using jv_ind2; cbn [nonil]; intros HN; try discriminate.
  - cbn. destruct b; discriminate.
  - cbn. unfold encode_string. destruct (enc_body _ _); discriminate.
  - rewrite marshal_arr.
    assert (HB : forall first, arr_body (marshal c) l first <> Panic).
    { rewrite forallb_forall in HN. induction H as [|x l Hx HF IH]; intro first; [discriminate|].
      rewrite arr_body_cons. specialize (Hx (HN x (or_introl eq_refl))).
      destruct (marshal c x); try discriminate; try congruence. cbn [bind].
      specialize (IH (fun y Hy => HN y (or_intror Hy)) false).
      destruct (arr_body (marshal c) l false); try discriminate; congruence. }
    specialize (HB true). destruct (arr_body (marshal c) l true); try discriminate; congruence.
  - rewrite marshal_obj.
    assert (HB : forall first written, obj_body c (marshal c) m first written <> Panic).
    { rewrite forallb_forall in HN. induction H as [|[k x] m Hx HF IH]; intros first written; [discriminate|].
      rewrite obj_body_cons. specialize (Hx (HN (k, x) (or_introl eq_refl))). cbn [snd] in Hx.
      assert (IH' := IH (fun y Hy => HN y (or_intror Hy))).
      destruct (is_null x && negb (fix_nullkey c)); [apply IH'|].
      unfold encode_string. destruct (enc_body _ _); [|discriminate]. cbn [bind].
      destruct (is_null x); [apply IH'|].
      destruct (marshal c x); try discriminate; try congruence. cbn [bind].
      specialize (IH' false true). destruct (obj_body c (marshal c) m false true); try discriminate; congruence. }
    specialize (HB true false). destruct (obj_body c (marshal c) m true false); try discriminate; congruence.
Qed.

Lemma sort_members_nonil l : forallb (fun kv => nonil (snd kv)) l = true ->
  forallb (fun kv => nonil (snd kv)) (sort_members l) = true.
Proof.
  rewrite !forallb_forall. intros H x Hx. apply H. eapply Permutation_in; [apply sort_perm|exact Hx].
Qed.

Theorem canon_no_panic t : canon t <> Panic.
Proof.
  unfold canon, canon_at, unmarshal.
  pose proof (unmarshal_no_panic sort_members t) as H1.
  destruct (unmarshal_with cfg_fixed sort_members t) as [v| |] eqn:E; try discriminate; try congruence.
  cbn [bind]. apply marshal_no_panic. eapply unmarshal_nonil; eauto. apply sort_members_nonil.
Qed.
