(* C04 / C08 - the text readers of the uuid and date-time leaves (Marshal/Typed.v: parse_uuid, parse_datetime):
   which spellings are accepted, and that the written form is canonical and reads back to itself. *)
From Coq Require Import List ZArith Strings.Byte Bool Lia.
From Verif Require Import Base.Wire Json.Utf8 Json.Number Json.JsonProofs Json.LexProofs Num.Codec Num.CodecProofs Defs.DefTypes Rates.Date Rates.DateProofs
  Fix.DateText Fix.DateTextProofs Marshal.Typed.
Import ListNotations.
Open Scope list_scope.
Open Scope Z_scope.

(* a list of known length, element by element *)
Ltac explode l H :=
  match type of H with
  | length l = O => destruct l; [clear H | discriminate H]
  | length l = S _ => destruct l as [|? l]; [discriminate H | cbn [length] in H; apply eq_add_S in H; explode l H]
  end.

(* ------------------------------------------------------------------------------------------ *)
(* uuid                                                                                        *)
(* ------------------------------------------------------------------------------------------ *)
Definition hex_canon_check (b : byte) : bool :=
  match hex_lower_of b with
  | Some c => (match hex_lower_of c with Some c' => Byte.eqb c' c | None => false end) && is_hex_lower c
  | None => true
  end.
Lemma hex_canon_check_all b : hex_canon_check b = true.
Proof. destruct b; vm_compute; reflexivity. Qed.

Lemma hex_lower_of_canon b c : hex_lower_of b = Some c -> hex_lower_of c = Some c /\ is_hex_lower c = true.
Proof.
  intros H. pose proof (hex_canon_check_all b) as K. unfold hex_canon_check in K. rewrite H in K.
  apply andb_prop in K. destruct K as [K1 K2]. split; [|exact K2].
  destruct (hex_lower_of c) as [c'|]; [|discriminate]. apply byte_eqb_eq in K1. now subst.
Qed.

Lemma is_hex_some b : is_hex b = true -> hex_lower_of b = Some (lower_hex b).
Proof. unfold is_hex, lower_hex. destruct (hex_lower_of b); [reflexivity|discriminate]. Qed.

Lemma lower_hex_canon b : is_hex b = true ->
  is_hex (lower_hex b) = true /\ lower_hex (lower_hex b) = lower_hex b /\ is_hex_lower (lower_hex b) = true.
Proof.
  intros H. apply is_hex_some in H. destruct (hex_lower_of_canon _ _ H) as [H1 H2].
  unfold is_hex at 1, lower_hex at 2. rewrite H1. auto.
Qed.

Lemma is_hex_lower_hex b : is_hex_lower b = true -> is_hex b = true /\ lower_hex b = b.
Proof. intros H. unfold is_hex, lower_hex, hex_lower_of. rewrite H. auto. Qed.

Lemma dash_not_hex : is_hex c_dash = false.
Proof. reflexivity. Qed.

Lemma hex_run_spec n : forall s h rest, hex_run n s = Some (h, rest) ->
  exists g, length g = n /\ s = (g ++ rest)%list /\ forallb is_hex g = true /\ h = map lower_hex g.
Proof.
  induction n as [|n IH]; intros s h rest H; cbn [hex_run] in H.
  - inversion H; subst. exists []. auto.
  - destruct s as [|b r]; [discriminate|].
    destruct (hex_lower_of b) as [c|] eqn:Eb; [|discriminate].
    destruct (hex_run n r) as [[h' rest']|] eqn:Er; [|discriminate].
    inversion H; subst. destruct (IH _ _ _ Er) as (g & L & -> & F & ->).
    assert (Hb : is_hex b = true) by (unfold is_hex; now rewrite Eb).
    assert (Hc : lower_hex b = c) by (unfold lower_hex; now rewrite Eb).
    exists (b :: g). cbn [length forallb map app]. rewrite Hb, Hc.
    cbn [andb]. split; [now rewrite L|]. split; [reflexivity|]. split; [exact F|reflexivity].
Qed.

Lemma hex_run_app g rest : forallb is_hex g = true -> hex_run (length g) (g ++ rest) = Some (map lower_hex g, rest).
Proof.
  induction g as [|b g IH]; cbn [forallb length app hex_run map]; intros H; [reflexivity|].
  apply andb_prop in H. destruct H as [Hb Hg]. rewrite (is_hex_some _ Hb), (IH Hg). reflexivity.
Qed.

Lemma dash_then_spec n s h rest : dash_then n s = Some (h, rest) ->
  exists g, length g = n /\ s = (c_dash :: g ++ rest)%list /\ forallb is_hex g = true /\ h = c_dash :: map lower_hex g.
Proof.
  unfold dash_then. destruct s as [|b r]; [discriminate|].
  destruct (Byte.eqb b c_dash) eqn:Eb; [|discriminate]. apply byte_eqb_eq in Eb. subst b.
  destruct (hex_run n r) as [[h' rest']|] eqn:Er; [|discriminate]. intros H. inversion H; subst.
  destruct (hex_run_spec _ _ _ _ Er) as (g & L & -> & F & ->). exists g. auto.
Qed.

Lemma dash_then_app g rest : forallb is_hex g = true ->
  dash_then (length g) (c_dash :: g ++ rest) = Some (c_dash :: map lower_hex g, rest).
Proof. intros H. unfold dash_then. rewrite byte_eqb_refl, (hex_run_app _ _ H). reflexivity. Qed.

Lemma forallb_firstn {A} (f : A -> bool) n : forall l, forallb f l = true -> forallb f (firstn n l) = true.
Proof.
  induction n; intros l H; [reflexivity|]. destruct l as [|x l]; [reflexivity|].
  cbn [forallb firstn] in *. apply andb_prop in H. destruct H as [-> H]. now rewrite IHn.
Qed.

Lemma forallb_skipn {A} (f : A -> bool) n : forall l, forallb f l = true -> forallb f (skipn n l) = true.
Proof.
  induction n; intros l H; [exact H|]. destruct l as [|x l]; [reflexivity|].
  cbn [forallb skipn] in *. apply andb_prop in H. destruct H as [_ H]. now apply IHn.
Qed.

Lemma hyphenate_length h : length h = 32%nat -> length (hyphenate h) = 36%nat.
Proof. intros H. explode h H. reflexivity. Qed.

(* the 36 bytes at the head *)
Lemma uuid_body_spec s c : uuid_body s = Some c <->
  exists h rest, length h = 32%nat /\ forallb is_hex h = true /\ s = (hyphenate h ++ rest)%list /\ c = hyphenate (map lower_hex h).
Proof.
  split.
  - unfold uuid_body. intros H.
    destruct (hex_run 8 s) as [[g1 r1]|] eqn:E1; [|discriminate].
    destruct (dash_then 4 r1) as [[g2 r2]|] eqn:E2; [|discriminate].
    destruct (dash_then 4 r2) as [[g3 r3]|] eqn:E3; [|discriminate].
    destruct (dash_then 4 r3) as [[g4 r4]|] eqn:E4; [|discriminate].
    destruct (dash_then 12 r4) as [[g5 r5]|] eqn:E5; [|discriminate].
    inversion H; subst c; clear H.
    destruct (hex_run_spec _ _ _ _ E1) as (a1 & L1 & -> & F1 & ->).
    destruct (dash_then_spec _ _ _ _ E2) as (a2 & L2 & -> & F2 & ->).
    destruct (dash_then_spec _ _ _ _ E3) as (a3 & L3 & -> & F3 & ->).
    destruct (dash_then_spec _ _ _ _ E4) as (a4 & L4 & -> & F4 & ->).
    destruct (dash_then_spec _ _ _ _ E5) as (a5 & L5 & -> & F5 & ->).
    exists (a1 ++ a2 ++ a3 ++ a4 ++ a5)%list, r5.
    split; [rewrite !app_length; lia|].
    split; [rewrite !forallb_app, F1, F2, F3, F4, F5; reflexivity|].
    clear F1 F2 F3 F4 F5 E1 E2 E3 E4 E5.
    explode a1 L1. explode a2 L2. explode a3 L3. explode a4 L4. explode a5 L5.
    split; reflexivity.
  - intros (h & rest & L & F & -> & ->).
    assert (L1 : length (firstn 8 h) = 8%nat) by (rewrite firstn_length; lia).
    assert (L2 : length (firstn 4 (skipn 8 h)) = 4%nat) by (rewrite firstn_length, skipn_length; lia).
    assert (L3 : length (firstn 4 (skipn 12 h)) = 4%nat) by (rewrite firstn_length, skipn_length; lia).
    assert (L4 : length (firstn 4 (skipn 16 h)) = 4%nat) by (rewrite firstn_length, skipn_length; lia).
    assert (L5 : length (skipn 20 h) = 12%nat) by (rewrite skipn_length; lia).
    assert (F1 := forallb_firstn is_hex 8 _ F).
    assert (F2 := forallb_firstn is_hex 4 _ (forallb_skipn is_hex 8 _ F)).
    assert (F3 := forallb_firstn is_hex 4 _ (forallb_skipn is_hex 12 _ F)).
    assert (F4 := forallb_firstn is_hex 4 _ (forallb_skipn is_hex 16 _ F)).
    assert (F5 := forallb_skipn is_hex 20 _ F).
    unfold hyphenate. rewrite !firstn_map, !skipn_map, !firstn_map.
    repeat (rewrite <- app_assoc; cbn [app]).
    unfold uuid_body.
    rewrite <- L1 at 1. rewrite (hex_run_app _ _ F1).
    rewrite <- L2 at 1. rewrite (dash_then_app _ _ F2).
    rewrite <- L3 at 1. rewrite (dash_then_app _ _ F3).
    rewrite <- L4 at 1. rewrite (dash_then_app _ _ F4).
    rewrite <- L5 at 1. rewrite (dash_then_app _ _ F5).
    repeat (rewrite <- app_assoc; cbn [app]). reflexivity.
Qed.

Lemma length_zero_nil {A} (l : list A) : length l = O -> l = [].
Proof. destruct l; [reflexivity|discriminate]. Qed.

Lemma app_length_same {A} (l r : list A) n : length (l ++ r) = n -> length l = n -> r = [].
Proof. rewrite app_length. intros H L. apply length_zero_nil. lia. Qed.

(* the accepted spellings of a uuid, and what is kept *)
Definition uuid_spelling (s h : bytes) : Prop :=
  s = h \/ s = hyphenate h \/
  (exists p, length p = 9%nat /\ fold_eq p urn_prefix = true /\ s = p ++ hyphenate h) \/
  (exists a z, s = a :: hyphenate h ++ [z]).

Theorem parse_uuid_spec s c : parse_uuid s = Some c <->
  (s = [] /\ c = []) \/
  exists h, length h = 32%nat /\ forallb is_hex h = true /\ uuid_spelling s h /\ c = hyphenate (map lower_hex h).
Proof.
  unfold uuid_spelling. split.
  - unfold parse_uuid. destruct s as [|x s']; [intros H; inversion H; auto|]. cbn [is_nil].
    set (s := x :: s'). intros H. right.
    destruct (Nat.eqb (length s) 36) eqn:E36.
    { apply Nat.eqb_eq in E36. apply uuid_body_spec in H. destruct H as (h & rest & L & F & Es & ->).
      exists h. repeat split; auto. right; left.
      rewrite Es in E36. pose proof (app_length_same _ _ _ E36 (hyphenate_length _ L)). subst rest.
      now rewrite app_nil_r in Es. }
    destruct (Nat.eqb (length s) 45) eqn:E45.
    { apply Nat.eqb_eq in E45. destruct (fold_eq (firstn 9 s) urn_prefix) eqn:Ef; [|discriminate].
      apply uuid_body_spec in H. destruct H as (h & rest & L & F & Es & ->).
      exists h. repeat split; auto. right; right; left.
      exists (firstn 9 s). split; [rewrite firstn_length; lia|]. split; [exact Ef|].
      assert (Lr : length (skipn 9 s) = 36%nat) by (rewrite skipn_length; lia).
      rewrite Es in Lr. pose proof (app_length_same _ _ _ Lr (hyphenate_length _ L)). subst rest.
      rewrite app_nil_r in Es. rewrite <- Es. symmetry. apply firstn_skipn. }
    destruct (Nat.eqb (length s) 38) eqn:E38.
    { apply Nat.eqb_eq in E38. apply uuid_body_spec in H. destruct H as (h & rest & L & F & Es & ->).
      exists h. repeat split; auto. right; right; right.
      subst s. cbn [tl] in Es. cbn [length] in E38. apply eq_add_S in E38.
      rewrite Es, app_length, (hyphenate_length _ L) in E38.
      assert (Lr : length rest = 1%nat) by lia. explode rest Lr.
      exists x, b. now rewrite Es. }
    destruct (Nat.eqb (length s) 32) eqn:E32; [|discriminate].
    apply Nat.eqb_eq in E32.
    destruct (hex_run 32 s) as [[h' rest]|] eqn:Er; [|discriminate]. inversion H; subst c.
    destruct (hex_run_spec _ _ _ _ Er) as (g & L & Es & F & ->).
    exists g. repeat split; auto. left.
    rewrite Es in E32. pose proof (app_length_same _ _ _ E32 L). subst rest. now rewrite app_nil_r in Es.
  - intros [[-> ->]|(h & L & F & Hs & ->)]; [reflexivity|].
    assert (B : forall rest, uuid_body (hyphenate h ++ rest) = Some (hyphenate (map lower_hex h))).
    { intros rest. apply uuid_body_spec. exists h, rest. auto. }
    pose proof (hyphenate_length _ L) as LH.
    destruct Hs as [->|[->|[(p & Lp & Fp & ->)|(a & z & ->)]]].
    + unfold parse_uuid. rewrite L. destruct h as [|x h]; [discriminate L|]. cbn [is_nil Nat.eqb].
      pose proof (hex_run_app (x :: h) [] F) as R. rewrite app_nil_r, L in R. rewrite R. reflexivity.
    + pose proof (B []) as R. rewrite app_nil_r in R. unfold parse_uuid. rewrite LH.
      destruct (hyphenate h) as [|x r]; [discriminate LH|]. exact R.
    + unfold parse_uuid. rewrite app_length, LH, Lp.
      pose proof (B []) as R. rewrite app_nil_r in R.
      explode p Lp. cbn [is_nil app Nat.eqb Nat.add firstn skipn] in *. rewrite Fp. exact R.
    + unfold parse_uuid. cbn [is_nil length tl]. rewrite app_length, LH. cbn [length Nat.add Nat.eqb]. apply B.
Qed.

(* what is kept is the canonical form, and reads back to itself *)
Theorem parse_uuid_canonical s c : parse_uuid s = Some c -> canonical_uuid c = true /\ parse_uuid c = Some c.
Proof.
  intros H. apply parse_uuid_spec in H. destruct H as [[_ ->]|(h & L & F & _ & ->)]; [split; reflexivity|].
  assert (L' : length (map lower_hex h) = 32%nat) by now rewrite map_length.
  assert (F' : forallb is_hex (map lower_hex h) = true /\ map lower_hex (map lower_hex h) = map lower_hex h
               /\ forallb is_hex_lower (map lower_hex h) = true).
  { clear L L'. induction h as [|b h IH]; [auto|]. cbn [forallb map] in *. apply andb_prop in F. destruct F as [Fb F].
    destruct (lower_hex_canon _ Fb) as (A1 & A2 & A3). destruct (IH F) as (B1 & B2 & B3).
    rewrite A1, A2, A3, B1, B2, B3. auto. }
  destruct F' as (F1 & F2 & F3). split.
  - set (l := map lower_hex h) in *. clearbody l. clear F1 F2 F L h. explode l L'.
    cbn [forallb] in F3. repeat (apply andb_prop in F3; let X := fresh "X" in destruct F3 as [X F3]).
    unfold canonical_uuid. cbn [is_nil orb hyphenate firstn skipn app uuid_shape Nat.eqb orb].
    rewrite !byte_eqb_refl.
    repeat match goal with X : is_hex_lower _ = true |- _ => rewrite X; clear X end. reflexivity.
  - apply parse_uuid_spec. right. exists (map lower_hex h).
    split; [exact L'|]. split; [exact F1|]. split; [right; left; reflexivity|]. now rewrite F2.
Qed.

(* upper case digits are accepted and lowered; the canonical form is the only spelling kept as given *)
Lemma parse_uuid_fixed_canonical s : parse_uuid s = Some s <-> canonical_uuid s = true.
Proof.
  split; [intros H; now apply parse_uuid_canonical in H|].
  unfold canonical_uuid. destruct s as [|x s']; [reflexivity|]. cbn [is_nil orb]. set (s := x :: s'). clearbody s.
  intros H. apply parse_uuid_spec. right.
  assert (L : length s = 36%nat).
  { assert (G : forall s p, uuid_shape p s = true -> (p + length s = 36)%nat).
    { clear. induction s as [|b r IH]; cbn [uuid_shape length]; intros p H.
      - apply Nat.eqb_eq in H. lia.
      - apply andb_prop in H. destruct H as [_ H]. apply IH in H. lia. }
    apply (G s O H). }
  explode s L. cbn [uuid_shape Nat.eqb orb] in H.
  repeat (apply andb_prop in H; let X := fresh "X" in destruct H as [X H]).
  repeat match goal with X : Byte.eqb _ c_dash = true |- _ => apply byte_eqb_eq in X; subst end.
  eexists [_;_;_;_;_;_;_;_;_;_;_;_;_;_;_;_;_;_;_;_;_;_;_;_;_;_;_;_;_;_;_;_].
  split; [reflexivity|].
  repeat match goal with X : is_hex_lower _ = true |- _ => apply is_hex_lower_hex in X; destruct X as [? ?] end.
  split; [|split; [right; left; reflexivity|]].
  - cbn [forallb]. repeat match goal with X : is_hex _ = true |- _ => rewrite X; clear X end. reflexivity.
  - cbn [map]. repeat match goal with X : lower_hex _ = _ |- _ => rewrite X; clear X end. reflexivity.
Qed.

(* ------------------------------------------------------------------------------------------ *)
(* date-time                                                                                   *)
(* ------------------------------------------------------------------------------------------ *)
Ltac Zify.zify_post_hook ::= Z.div_mod_to_equations.

Lemma pad2_digits n : 0 <= n < 100 ->
  exists a b, pad2 n = [a; b] /\ is_digit a = true /\ is_digit b = true /\ dv a * 10 + dv b = n.
Proof.
  intros H. unfold pad2. assert (n <? 100 = true) as -> by lia.
  destruct (dv_ch (n / 10)) as [A1 A2]; [lia|]. destruct (dv_ch (n mod 10)) as [B1 B2]; [lia|].
  eexists _, _. split; [reflexivity|]. rewrite A1, A2, B1, B2. repeat split; lia.
Qed.

Lemma two_digits_some a b : is_digit a = true -> is_digit b = true -> two_digits a b = Some (dv a * 10 + dv b).
Proof. intros A B. unfold two_digits. now rewrite A, B. Qed.

Lemma two_digits_pad2 a b n : two_digits a b = Some n ->
  0 <= n < 100 /\ pad2 n = [a; b] /\ is_digit a = true /\ is_digit b = true /\ n = dv a * 10 + dv b.
Proof.
  unfold two_digits. destruct (is_digit a) eqn:A; [|discriminate]. destruct (is_digit b) eqn:B; [|discriminate].
  cbn [andb]. intros H. inversion H; subst n; clear H.
  destruct (ch_dv a A) as [Ea Ra]. destruct (ch_dv b B) as [Eb Rb].
  split; [lia|]. split; [|auto].
  unfold pad2. assert (dv a * 10 + dv b <? 100 = true) as -> by lia.
  replace ((dv a * 10 + dv b) / 10) with (dv a) by lia. replace ((dv a * 10 + dv b) mod 10) with (dv b) by lia.
  now rewrite Ea, Eb.
Qed.

Lemma colon_not_digit : is_digit x3a = false.
Proof. reflexivity. Qed.

(* a text put together from a real date and a real time of day is canonical and reads back to itself *)
Lemma datetime_built y1 y2 y3 y4 d1 m1 m2 d2 a1 a2 d h n sec :
  parse_date [y1; y2; y3; y4; d1; m1; m2; d2; a1; a2] = Some d -> date_valid d = true ->
  0 <= h < 24 -> 0 <= n < 60 -> 0 <= sec < 60 ->
  let c := [y1; y2; y3; y4; d1; m1; m2; d2; a1; a2] ++ x54 :: pad2 h ++ x3a :: pad2 n ++ x3a :: pad2 sec in
  canonical_datetime c = true /\ parse_datetime c = Some c.
Proof.
  intros P V Hh Hn Hs.
  destruct (pad2_digits h) as (h1 & h2 & Ph & Dh1 & Dh2 & Eh); [lia|].
  destruct (pad2_digits n) as (n1 & n2 & Pn & Dn1 & Dn2 & En); [lia|].
  destruct (pad2_digits sec) as (s1 & s2 & Ps & Ds1 & Ds2 & Es); [lia|].
  rewrite Ph, Pn, Ps. cbn [app]. cbv zeta.
  assert (Lh : (h <? 24) = true) by lia. assert (Ln : (n <? 60) = true) by lia. assert (Ls : (sec <? 60) = true) by lia.
  destruct (print_parse_date _ _ P) as [Q _].
  split.
  - unfold canonical_datetime. apply orb_true_iff. right.
    rewrite P, (two_digits_some _ _ Dh1 Dh2), (two_digits_some _ _ Dn1 Dn2), (two_digits_some _ _ Ds1 Ds2).
    rewrite Eh, En, Es, V, Lh, Ln, Ls. reflexivity.
  - unfold parse_datetime.
    match goal with |- (if ?c then _ else _) = _ => destruct c end; [reflexivity|].
    rewrite P, V. cbn [andb orb Byte.eqb]. change (Byte.eqb x54 x54) with true. cbn [orb].
    unfold parse_clock. rewrite Dh1, Dh2. unfold clock_rest.
    rewrite (two_digits_some _ _ Dn1 Dn2), (two_digits_some _ _ Ds1 Ds2), Eh, En, Es, Lh, Ln, Ls.
    change (Byte.eqb x3a x3a) with true. cbn [andb frac_zero].
    rewrite Ph, Pn, Ps, Q. cbn [app]. reflexivity.
Qed.

Lemma clock_rest_spec h r k : clock_rest h r = Some k <->
  exists n sec f, 0 <= n < 60 /\ 0 <= sec < 60 /\ h < 24 /\ frac_zero f = true /\
    r = x3a :: pad2 n ++ x3a :: pad2 sec ++ f /\ k = pad2 h ++ x3a :: pad2 n ++ x3a :: pad2 sec.
Proof.
  split.
  - unfold clock_rest. destruct r as [|c1 [|n1 [|n2 [|c2 [|s1 [|s2 f]]]]]]; try discriminate.
    destruct (two_digits n1 n2) as [n|] eqn:En; [|discriminate].
    destruct (two_digits s1 s2) as [sec|] eqn:Es; [|discriminate].
    destruct (Byte.eqb c1 x3a && Byte.eqb c2 x3a && (h <? 24) && (n <? 60) && (sec <? 60) && frac_zero f) eqn:C; [|discriminate].
    intros H. inversion H; subst k; clear H.
    repeat (apply andb_prop in C; let X := fresh "X" in destruct C as [C X]).
    apply byte_eqb_eq in C, X3. subst c1 c2.
    destruct (two_digits_pad2 _ _ _ En) as (Rn & Pn & _). destruct (two_digits_pad2 _ _ _ Es) as (Rs & Ps & _).
    exists n, sec, f. rewrite Pn, Ps. cbn [app]. repeat split; auto; lia.
  - intros (n & sec & f & Hn & Hs & Hh & F & -> & ->).
    destruct (pad2_digits n) as (n1 & n2 & Pn & Dn1 & Dn2 & En); [lia|].
    destruct (pad2_digits sec) as (s1 & s2 & Ps & Ds1 & Ds2 & Es); [lia|].
    rewrite Pn, Ps. cbn [app]. unfold clock_rest.
    rewrite (two_digits_some _ _ Dn1 Dn2), (two_digits_some _ _ Ds1 Ds2), En, Es, F.
    change (Byte.eqb x3a x3a) with true.
    assert ((h <? 24) = true) as -> by lia. assert ((n <? 60) = true) as -> by lia. assert ((sec <? 60) = true) as -> by lia.
    cbn [andb]. rewrite Pn, Ps. reflexivity.
Qed.

Lemma parse_clock_spec r k : parse_clock r = Some k <->
  exists h hh n sec f, 0 <= h < 24 /\ 0 <= n < 60 /\ 0 <= sec < 60 /\
    (hh = pad2 h \/ (h < 10 /\ hh = [ch (48 + h)])) /\ frac_zero f = true /\
    r = hh ++ x3a :: pad2 n ++ x3a :: pad2 sec ++ f /\ k = pad2 h ++ x3a :: pad2 n ++ x3a :: pad2 sec.
Proof.
  split.
  - unfold parse_clock. destruct r as [|h1 [|h2 r2]]; try discriminate.
    destruct (is_digit h1) eqn:D1; [|discriminate]. destruct (ch_dv _ D1) as [E1 R1].
    destruct (is_digit h2) eqn:D2.
    + destruct (ch_dv _ D2) as [E2 R2]. intros H. apply clock_rest_spec in H.
      destruct H as (n & sec & f & Hn & Hs & Hh & F & -> & ->).
      exists (dv h1 * 10 + dv h2), [h1; h2], n, sec, f.
      destruct (two_digits_pad2 h1 h2 _ (two_digits_some _ _ D1 D2)) as (_ & P & _).
      repeat split; auto; lia.
    + intros H. apply clock_rest_spec in H. destruct H as (n & sec & f & Hn & Hs & Hh & F & Er & ->).
      exists (dv h1), [h1], n, sec, f. rewrite Er, E1. repeat split; auto; try lia. right. split; [lia|reflexivity].
  - intros (h & hh & n & sec & f & Hh & Hn & Hs & Hhh & F & -> & ->).
    assert (C : clock_rest h (x3a :: pad2 n ++ x3a :: pad2 sec ++ f) = Some (pad2 h ++ x3a :: pad2 n ++ x3a :: pad2 sec)).
    { apply clock_rest_spec. exists n, sec, f. repeat split; auto; lia. }
    destruct Hhh as [->|[H10 ->]].
    + destruct (pad2_digits h) as (h1 & h2 & Ph & D1 & D2 & Eh); [lia|].
      rewrite Ph in *. cbn [app]. unfold parse_clock. rewrite D1, D2, Eh. exact C.
    + destruct (dv_ch h) as [D E]; [lia|]. cbn [app]. unfold parse_clock. rewrite D, colon_not_digit, E. exact C.
Qed.

(* the accepted spellings of a date-time, and the text that is written for each *)
Theorem parse_datetime_spec s c : parse_datetime s = Some c <->
  (s = text_zero_datetime /\ c = text_zero_datetime) \/
  exists d t h hh n sec f,
    date_valid d = true /\ 0 <= d_year d <= 9999 /\ 0 <= h < 24 /\ 0 <= n < 60 /\ 0 <= sec < 60 /\
    (t = x54 \/ t = x74) /\ (hh = pad2 h \/ (h < 10 /\ hh = [ch (48 + h)])) /\ frac_zero f = true /\
    s = print_date d ++ t :: hh ++ x3a :: pad2 n ++ x3a :: pad2 sec ++ f /\
    c = print_date d ++ x54 :: pad2 h ++ x3a :: pad2 n ++ x3a :: pad2 sec.
Proof.
  split.
  - unfold parse_datetime. destruct (eqb_bytes s text_zero_datetime) eqn:Z.
    { apply eqb_bytes_eq in Z. intros H. inversion H; subst. auto. }
    destruct s as [|y1 [|y2 [|y3 [|y4 [|d1 [|m1 [|m2 [|d2 [|a1 [|a2 [|t r]]]]]]]]]]]; try discriminate.
    destruct (parse_date [y1; y2; y3; y4; d1; m1; m2; d2; a1; a2]) as [d|] eqn:P; [|discriminate].
    destruct (date_valid d && (Byte.eqb t x54 || Byte.eqb t x74)) eqn:C; [|discriminate].
    destruct (parse_clock r) as [k|] eqn:K; [|discriminate]. intros H. inversion H; subst c; clear H. right.
    apply andb_prop in C. destruct C as [V T].
    destruct (print_parse_date _ _ P) as [Q S].
    apply parse_clock_spec in K. destruct K as (h & hh & n & sec & f & Hh & Hn & Hs & Hhh & F & -> & ->).
    exists d, t, h, hh, n, sec, f. rewrite Q. cbn [app].
    assert (Y : 0 <= d_year d <= 9999).
    { unfold date_storable in S. apply orb_prop in S. destruct S as [S|S].
      - apply date_eqb_eq in S. subst d. discriminate V.
      - apply andb_prop in S. destruct S as [S _]. apply andb_prop in S. lia. }
    repeat split; auto; try lia.
    apply orb_prop in T. destruct T as [T|T]; apply byte_eqb_eq in T; auto.
  - intros [[-> ->]|(d & t & h & hh & n & sec & f & V & Y & Hh & Hn & Hs & Ht & Hhh & F & -> & ->)]; [reflexivity|].
    assert (S : date_storable d = true).
    { unfold date_storable. rewrite V. apply orb_true_iff. right. apply andb_true_intro. split; [|reflexivity].
      apply andb_true_intro. split; lia. }
    pose proof (parse_print_date d S) as P.
    assert (K : parse_clock (hh ++ x3a :: pad2 n ++ x3a :: pad2 sec ++ f) = Some (pad2 h ++ x3a :: pad2 n ++ x3a :: pad2 sec)).
    { apply parse_clock_spec. exists h, hh, n, sec, f. repeat split; auto; lia. }
    assert (X : exists y1 y2 y3 y4 d1 m1 m2 d2 a1 a2, print_date d = [y1; y2; y3; y4; d1; m1; m2; d2; a1; a2]).
    { unfold parse_date in P. destruct (print_date d) as [|y1 [|y2 [|y3 [|y4 [|d1 [|m1 [|m2 [|d2 [|a1 [|a2 [|x r]]]]]]]]]]]; try discriminate.
      repeat eexists. }
    destruct X as (y1 & y2 & y3 & y4 & d1 & m1 & m2 & d2 & a1 & a2 & Q). rewrite Q in *. cbn [app].
    unfold parse_datetime.
    match goal with |- (if ?c then _ else _) = _ => destruct c eqn:Z end.
    { (* a spelling of a real date is not the zero text *)
      apply eqb_bytes_eq in Z. exfalso. unfold text_zero_datetime in Z. cbn in Z.
      inversion Z; subst. rewrite <- Q in P. clear - P V Q.
      assert (E : parse_date (print_date d) = Some zero_date) by (rewrite Q; reflexivity).
      rewrite P in E. inversion E. subst d. discriminate V. }
    rewrite P, V, K, Q. destruct Ht as [->| ->]; reflexivity.
Qed.

(* what is written is the canonical form, and reads back to itself *)
Theorem parse_datetime_canonical s c : parse_datetime s = Some c -> canonical_datetime c = true /\ parse_datetime c = Some c.
Proof.
  intros H. apply parse_datetime_spec in H.
  destruct H as [[_ ->]|(d & t & h & hh & n & sec & f & V & Y & Hh & Hn & Hs & _ & _ & _ & _ & ->)]; [split; reflexivity|].
  assert (S : date_storable d = true).
  { unfold date_storable. rewrite V. apply orb_true_iff. right. apply andb_true_intro. split; [|reflexivity].
    apply andb_true_intro. split; lia. }
  pose proof (parse_print_date d S) as P.
  assert (X : exists y1 y2 y3 y4 d1 m1 m2 d2 a1 a2, print_date d = [y1; y2; y3; y4; d1; m1; m2; d2; a1; a2]).
  { unfold parse_date in P. destruct (print_date d) as [|y1 [|y2 [|y3 [|y4 [|d1 [|m1 [|m2 [|d2 [|a1 [|a2 [|x r]]]]]]]]]]]; try discriminate.
    repeat eexists. }
  destruct X as (y1 & y2 & y3 & y4 & d1 & m1 & m2 & d2 & a1 & a2 & Q). rewrite Q in *.
  apply (datetime_built _ _ _ _ _ _ _ _ _ _ d h n sec P V Hh Hn Hs).
Qed.

(* ------------------------------------------------------------------------------------------ *)
(* floats: one optional minus only                                                             *)
(* ------------------------------------------------------------------------------------------ *)
Lemma canonical_float_one_minus :
  canonical_float [x2d; x2d; x31] = false /\ canonical_float [x2d; x2d; x31; x2e; x35] = false /\
  canonical_float [x2d; x31] = true /\ canonical_float [x2d; x31; x2e; x35] = true /\ canonical_float [x30] = true.
Proof. vm_compute. auto. Qed.

(* ------------------------------------------------------------------------------------------ *)
(* nothing is outside the modelled domain at these two leaves                                  *)
(* ------------------------------------------------------------------------------------------ *)
Lemma uuid_datetime_leaves_total j : reenc_leaf LUUID j <> Dom /\ reenc_leaf LDateTime j <> Dom.
Proof.
  split; destruct j; cbn [reenc_leaf]; try discriminate.
  - destruct (parse_uuid s); discriminate.
  - destruct (parse_datetime s); discriminate.
Qed.

(* the 38-byte form: the two outer bytes are not looked at *)
Lemma parse_uuid_outer_bytes a z h : length h = 32%nat -> forallb is_hex h = true ->
  parse_uuid (a :: hyphenate h ++ [z]) = Some (hyphenate (map lower_hex h)).
Proof.
  intros L F. apply parse_uuid_spec. right. exists h. repeat split; auto.
  right; right; right. exists a, z. reflexivity.
Qed.
