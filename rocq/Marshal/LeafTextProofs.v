(* C04 / C08 - the text readers of the uuid and date-time leaves (Marshal/Typed.v: parse_uuid, parse_datetime):
   which spellings are accepted, and that the written form is canonical and reads back to itself. *)
From Coq Require Import List ZArith Strings.Byte Bool Lia.
From Verif Require Import Base.Wire Json.Utf8 Json.JsonProofs Json.LexProofs Num.Codec Num.CodecProofs Defs.DefTypes Rates.Date
  Fix.DateText Fix.DateTextProofs Marshal.Typed.
Import ListNotations.
Open Scope list_scope.
Open Scope Z_scope.

(* a list of known length, element by element *)
Ltac explode l H :=
  match type of H with
  | length l = O => destruct l; [clear H | discriminate H]
  | length l = S _ => destruct l as [|? l]; [discriminate H | cbn [length] in H; apply eq_add_S in H; explode l H]
  end.

(* ------------------------------------------------------------------------------------------ *)
(* uuid                                                                                        *)
(* ------------------------------------------------------------------------------------------ *)
Definition hex_canon_check (b : byte) : bool :=
  match hex_lower_of b with
  | Some c => (match hex_lower_of c with Some c' => Byte.eqb c' c | None => false end) && is_hex_lower c
  | None => true
  end.
Lemma hex_canon_check_all b : hex_canon_check b = true.
Proof. destruct b; vm_compute; reflexivity. Qed.

Lemma hex_lower_of_canon b c : hex_lower_of b = Some c -> hex_lower_of c = Some c /\ is_hex_lower c = true.
Proof.
  intros H. pose proof (hex_canon_check_all b) as K. unfold hex_canon_check in K. rewrite H in K.
  apply andb_prop in K. destruct K as [K1 K2]. split; [|exact K2].
  destruct (hex_lower_of c) as [c'|]; [|discriminate]. apply byte_eqb_eq in K1. now subst.
Qed.

Lemma is_hex_some b : is_hex b = true -> hex_lower_of b = Some (lower_hex b).
Proof. unfold is_hex, lower_hex. destruct (hex_lower_of b); [reflexivity|discriminate]. Qed.

Lemma lower_hex_canon b : is_hex b = true ->
  is_hex (lower_hex b) = true /\ lower_hex (lower_hex b) = lower_hex b /\ is_hex_lower (lower_hex b) = true.
Proof.
  intros H. apply is_hex_some in H. destruct (hex_lower_of_canon _ _ H) as [H1 H2].
  unfold is_hex at 1, lower_hex at 2. rewrite H1. auto.
Qed.

Lemma is_hex_lower_hex b : is_hex_lower b = true -> is_hex b = true /\ lower_hex b = b.
Proof. intros H. unfold is_hex, lower_hex, hex_lower_of. rewrite H. auto. Qed.

Lemma dash_not_hex : is_hex c_dash = false.
Proof. reflexivity. Qed.

Lemma hex_run_spec n : forall s h rest, hex_run n s = Some (h, rest) ->
  exists g, length g = n /\ s = (g ++ rest)%list /\ forallb is_hex g = true /\ h = map lower_hex g.
Proof.
  induction n as [|n IH]; intros s h rest H; cbn [hex_run] in H.
  - inversion H; subst. exists []. auto.
  - destruct s as [|b r]; [discriminate|].
    destruct (hex_lower_of b) as [c|] eqn:Eb; [|discriminate].
    destruct (hex_run n r) as [[h' rest']|] eqn:Er; [|discriminate].
    inversion H; subst. destruct (IH _ _ _ Er) as (g & L & -> & F & ->).
    assert (Hb : is_hex b = true) by (unfold is_hex; now rewrite Eb).
    assert (Hc : lower_hex b = c) by (unfold lower_hex; now rewrite Eb).
    exists (b :: g). cbn [length forallb map app]. rewrite Hb, Hc.
    cbn [andb]. split; [now rewrite L|]. split; [reflexivity|]. split; [exact F|reflexivity].
Qed.

Lemma hex_run_app g rest : forallb is_hex g = true -> hex_run (length g) (g ++ rest) = Some (map lower_hex g, rest).
Proof.
  induction g as [|b g IH]; cbn [forallb length app hex_run map]; intros H; [reflexivity|].
  apply andb_prop in H. destruct H as [Hb Hg]. rewrite (is_hex_some _ Hb), (IH Hg). reflexivity.
Qed.

Lemma dash_then_spec n s h rest : dash_then n s = Some (h, rest) ->
  exists g, length g = n /\ s = (c_dash :: g ++ rest)%list /\ forallb is_hex g = true /\ h = c_dash :: map lower_hex g.
Proof.
  unfold dash_then. destruct s as [|b r]; [discriminate|].
  destruct (Byte.eqb b c_dash) eqn:Eb; [|discriminate]. apply byte_eqb_eq in Eb. subst b.
  destruct (hex_run n r) as [[h' rest']|] eqn:Er; [|discriminate]. intros H. inversion H; subst.
  destruct (hex_run_spec _ _ _ _ Er) as (g & L & -> & F & ->). exists g. auto.
Qed.

Lemma dash_then_app g rest : forallb is_hex g = true ->
  dash_then (length g) (c_dash :: g ++ rest) = Some (c_dash :: map lower_hex g, rest).
Proof. intros H. unfold dash_then. rewrite byte_eqb_refl, (hex_run_app _ _ H). reflexivity. Qed.

Lemma forallb_firstn {A} (f : A -> bool) n : forall l, forallb f l = true -> forallb f (firstn n l) = true.
Proof.
  induction n; intros l H; [reflexivity|]. destruct l as [|x l]; [reflexivity|].
  cbn [forallb firstn] in *. apply andb_prop in H. destruct H as [-> H]. now rewrite IHn.
Qed.

Lemma forallb_skipn {A} (f : A -> bool) n : forall l, forallb f l = true -> forallb f (skipn n l) = true.
Proof.
  induction n; intros l H; [exact H|]. destruct l as [|x l]; [reflexivity|].
  cbn [forallb skipn] in *. apply andb_prop in H. destruct H as [_ H]. now apply IHn.
Qed.

Lemma hyphenate_length h : length h = 32%nat -> length (hyphenate h) = 36%nat.
Proof. intros H. explode h H. reflexivity. Qed.

(* the 36 bytes at the head *)
Lemma uuid_body_spec s c : uuid_body s = Some c <->
  exists h rest, length h = 32%nat /\ forallb is_hex h = true /\ s = (hyphenate h ++ rest)%list /\ c = hyphenate (map lower_hex h).
Proof.
  split.
  - unfold uuid_body. intros H.
    destruct (hex_run 8 s) as [[g1 r1]|] eqn:E1; [|discriminate].
    destruct (dash_then 4 r1) as [[g2 r2]|] eqn:E2; [|discriminate].
    destruct (dash_then 4 r2) as [[g3 r3]|] eqn:E3; [|discriminate].
    destruct (dash_then 4 r3) as [[g4 r4]|] eqn:E4; [|discriminate].
    destruct (dash_then 12 r4) as [[g5 r5]|] eqn:E5; [|discriminate].
    inversion H; subst c; clear H.
    destruct (hex_run_spec _ _ _ _ E1) as (a1 & L1 & -> & F1 & ->).
    destruct (dash_then_spec _ _ _ _ E2) as (a2 & L2 & -> & F2 & ->).
    destruct (dash_then_spec _ _ _ _ E3) as (a3 & L3 & -> & F3 & ->).
    destruct (dash_then_spec _ _ _ _ E4) as (a4 & L4 & -> & F4 & ->).
    destruct (dash_then_spec _ _ _ _ E5) as (a5 & L5 & -> & F5 & ->).
    exists (a1 ++ a2 ++ a3 ++ a4 ++ a5)%list, r5.
    split; [rewrite !app_length; lia|].
    split; [rewrite !forallb_app, F1, F2, F3, F4, F5; reflexivity|].
    clear F1 F2 F3 F4 F5 E1 E2 E3 E4 E5.
    explode a1 L1. explode a2 L2. explode a3 L3. explode a4 L4. explode a5 L5.
    split; reflexivity.
  - intros (h & rest & L & F & -> & ->).
    assert (L1 : length (firstn 8 h) = 8%nat) by (rewrite firstn_length; lia).
    assert (L2 : length (firstn 4 (skipn 8 h)) = 4%nat) by (rewrite firstn_length, skipn_length; lia).
    assert (L3 : length (firstn 4 (skipn 12 h)) = 4%nat) by (rewrite firstn_length, skipn_length; lia).
    assert (L4 : length (firstn 4 (skipn 16 h)) = 4%nat) by (rewrite firstn_length, skipn_length; lia).
    assert (L5 : length (skipn 20 h) = 12%nat) by (rewrite skipn_length; lia).
    assert (F1 := forallb_firstn is_hex 8 _ F).
    assert (F2 := forallb_firstn is_hex 4 _ (forallb_skipn is_hex 8 _ F)).
    assert (F3 := forallb_firstn is_hex 4 _ (forallb_skipn is_hex 12 _ F)).
    assert (F4 := forallb_firstn is_hex 4 _ (forallb_skipn is_hex 16 _ F)).
    assert (F5 := forallb_skipn is_hex 20 _ F).
    unfold hyphenate. rewrite !firstn_map, !skipn_map, !firstn_map.
    repeat (rewrite <- app_assoc; cbn [app]).
    unfold uuid_body.
    rewrite <- L1 at 1. rewrite (hex_run_app _ _ F1).
    rewrite <- L2 at 1. rewrite (dash_then_app _ _ F2).
    rewrite <- L3 at 1. rewrite (dash_then_app _ _ F3).
    rewrite <- L4 at 1. rewrite (dash_then_app _ _ F4).
    rewrite <- L5 at 1. rewrite (dash_then_app _ _ F5).
    repeat (rewrite <- app_assoc; cbn [app]). reflexivity.
Qed.

Lemma length_zero_nil {A} (l : list A) : length l = O -> l = [].
Proof. destruct l; [reflexivity|discriminate]. Qed.

Lemma app_length_same {A} (l r : list A) n : length (l ++ r) = n -> length l = n -> r = [].
Proof. rewrite app_length. intros H L. apply length_zero_nil. lia. Qed.

(* the accepted spellings of a uuid, and what is kept *)
Definition uuid_spelling (s h : bytes) : Prop :=
  s = h \/ s = hyphenate h \/
  (exists p, length p = 9%nat /\ fold_eq p urn_prefix = true /\ s = p ++ hyphenate h) \/
  (exists a z, s = a :: hyphenate h ++ [z]).

Theorem parse_uuid_spec s c : parse_uuid s = Some c <->
  (s = [] /\ c = []) \/
  exists h, length h = 32%nat /\ forallb is_hex h = true /\ uuid_spelling s h /\ c = hyphenate (map lower_hex h).
Proof.
  unfold uuid_spelling. split.
  - unfold parse_uuid. destruct s as [|x s']; [intros H; inversion H; auto|]. cbn [is_nil].
    set (s := x :: s'). intros H. right.
    destruct (Nat.eqb (length s) 36) eqn:E36.
    { apply Nat.eqb_eq in E36. apply uuid_body_spec in H. destruct H as (h & rest & L & F & Es & ->).
      exists h. repeat split; auto. right; left.
      rewrite Es in E36. pose proof (app_length_same _ _ _ E36 (hyphenate_length _ L)). subst rest.
      now rewrite app_nil_r in Es. }
    destruct (Nat.eqb (length s) 45) eqn:E45.
    { apply Nat.eqb_eq in E45. destruct (fold_eq (firstn 9 s) urn_prefix) eqn:Ef; [|discriminate].
      apply uuid_body_spec in H. destruct H as (h & rest & L & F & Es & ->).
      exists h. repeat split; auto. right; right; left.
      exists (firstn 9 s). split; [rewrite firstn_length; lia|]. split; [exact Ef|].
      assert (Lr : length (skipn 9 s) = 36%nat) by (rewrite skipn_length; lia).
      rewrite Es in Lr. pose proof (app_length_same _ _ _ Lr (hyphenate_length _ L)). subst rest.
      rewrite app_nil_r in Es. rewrite <- Es. symmetry. apply firstn_skipn. }
    destruct (Nat.eqb (length s) 38) eqn:E38.
    { apply Nat.eqb_eq in E38. apply uuid_body_spec in H. destruct H as (h & rest & L & F & Es & ->).
      exists h. repeat split; auto. right; right; right.
      subst s. cbn [tl] in Es. cbn [length] in E38. apply eq_add_S in E38.
      rewrite Es, app_length, (hyphenate_length _ L) in E38.
      assert (Lr : length rest = 1%nat) by lia. explode rest Lr.
      exists x, b. now rewrite Es. }
    destruct (Nat.eqb (length s) 32) eqn:E32; [|discriminate].
    apply Nat.eqb_eq in E32.
    destruct (hex_run 32 s) as [[h' rest]|] eqn:Er; [|discriminate]. inversion H; subst c.
    destruct (hex_run_spec _ _ _ _ Er) as (g & L & Es & F & ->).
    exists g. repeat split; auto. left.
    rewrite Es in E32. pose proof (app_length_same _ _ _ E32 L). subst rest. now rewrite app_nil_r in Es.
  - intros [[-> ->]|(h & L & F & Hs & ->)]; [reflexivity|].
    assert (B : forall rest, uuid_body (hyphenate h ++ rest) = Some (hyphenate (map lower_hex h))).
    { intros rest. apply uuid_body_spec. exists h, rest. auto. }
    pose proof (hyphenate_length _ L) as LH.
    destruct Hs as [->|[->|[(p & Lp & Fp & ->)|(a & z & ->)]]].
    + unfold parse_uuid. rewrite L. destruct h as [|x h]; [discriminate L|]. cbn [is_nil Nat.eqb].
      pose proof (hex_run_app (x :: h) [] F) as R. rewrite app_nil_r, L in R. rewrite R. reflexivity.
    + pose proof (B []) as R. rewrite app_nil_r in R. unfold parse_uuid. rewrite LH.
      destruct (hyphenate h) as [|x r]; [discriminate LH|]. exact R.
    + unfold parse_uuid. rewrite app_length, LH, Lp.
      pose proof (B []) as R. rewrite app_nil_r in R.
      explode p Lp. cbn [is_nil app Nat.eqb Nat.add firstn skipn] in *. rewrite Fp. exact R.
    + unfold parse_uuid. cbn [is_nil length tl]. rewrite app_length, LH. cbn [length Nat.add Nat.eqb]. apply B.
Qed.

(* what is kept is the canonical form, and reads back to itself *)
Theorem parse_uuid_canonical s c : parse_uuid s = Some c -> canonical_uuid c = true /\ parse_uuid c = Some c.
Proof.
  intros H. apply parse_uuid_spec in H. destruct H as [[_ ->]|(h & L & F & _ & ->)]; [split; reflexivity|].
  assert (L' : length (map lower_hex h) = 32%nat) by now rewrite map_length.
  assert (F' : forallb is_hex (map lower_hex h) = true /\ map lower_hex (map lower_hex h) = map lower_hex h
               /\ forallb is_hex_lower (map lower_hex h) = true).
  { clear L L'. induction h as [|b h IH]; [auto|]. cbn [forallb map] in *. apply andb_prop in F. destruct F as [Fb F].
    destruct (lower_hex_canon _ Fb) as (A1 & A2 & A3). destruct (IH F) as (B1 & B2 & B3).
    rewrite A1, A2, A3, B1, B2, B3. auto. }
  destruct F' as (F1 & F2 & F3). split.
  - set (l := map lower_hex h) in *. clearbody l. clear F1 F2 F L h. explode l L'.
    cbn [forallb] in F3. repeat (apply andb_prop in F3; let X := fresh "X" in destruct F3 as [X F3]).
    unfold canonical_uuid. cbn [is_nil orb hyphenate firstn skipn app uuid_shape Nat.eqb orb].
    rewrite !byte_eqb_refl.
    repeat match goal with X : is_hex_lower _ = true |- _ => rewrite X; clear X end. reflexivity.
  - apply parse_uuid_spec. right. exists (map lower_hex h).
    split; [exact L'|]. split; [exact F1|]. split; [right; left; reflexivity|]. now rewrite F2.
Qed.

(* upper case digits are accepted and lowered; the canonical form is the only spelling kept as given *)
Lemma parse_uuid_fixed_canonical s : parse_uuid s = Some s <-> canonical_uuid s = true.
Proof.
  split; [intros H; now apply parse_uuid_canonical in H|].
  unfold canonical_uuid. destruct s as [|x s']; [reflexivity|]. cbn [is_nil orb]. set (s := x :: s'). clearbody s.
  intros H. apply parse_uuid_spec. right.
  assert (L : length s = 36%nat).
  { assert (G : forall s p, uuid_shape p s = true -> (p + length s = 36)%nat).
    { clear. induction s as [|b r IH]; cbn [uuid_shape length]; intros p H.
      - apply Nat.eqb_eq in H. lia.
      - apply andb_prop in H. destruct H as [_ H]. apply IH in H. lia. }
    apply (G s O H). }
  explode s L. cbn [uuid_shape Nat.eqb orb] in H.
  repeat (apply andb_prop in H; let X := fresh "X" in destruct H as [X H]).
  repeat match goal with X : Byte.eqb _ c_dash = true |- _ => apply byte_eqb_eq in X; subst end.
  eexists [_;_;_;_;_;_;_;_;_;_;_;_;_;_;_;_;_;_;_;_;_;_;_;_;_;_;_;_;_;_;_;_].
  split; [reflexivity|].
  repeat match goal with X : is_hex_lower _ = true |- _ => apply is_hex_lower_hex in X; destruct X as [? ?] end.
  split; [|split; [right; left; reflexivity|]].
  - cbn [forallb]. repeat match goal with X : is_hex _ = true |- _ => rewrite X; clear X end. reflexivity.
  - cbn [map]. repeat match goal with X : lower_hex _ = _ |- _ => rewrite X; clear X end. reflexivity.
Qed.
