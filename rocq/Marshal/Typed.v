(* C04 / C08 - how encoding/json reads a JSON text into the repository's Go types and writes it back.

   `reenc env fuel t j` is the JSON tree that json.Marshal writes for the Go value json.Unmarshal built
   from the JSON tree j at the Go type described by t ("read, then write").  The type descriptors
   (Gen/GoTypes.v) are REGENERATED from the Go types linked into the harness by reflection on every run
   (json tags, omitempty, embedded structs, custom (un)marshalers), so the model follows the code.

   What is modelled, statement by statement, from encoding/json (decode.go object/array/literalStore,
   encode.go structEncoder/isEmptyValue/mapEncoder) and from the repository's own codecs:
     - a struct reads its members BY NAME, ignores unknown members, and writes its fields in declaration
       order, dropping `omitempty` fields whose value is empty (false, 0, "", nil, length 0);
     - a member that is absent leaves the field at its zero value;
     - a map is written with its keys sorted byte-wise; later duplicates of a key replace earlier ones;
     - a slice or pointer reads null as nil and is written back as null;
     - schema.Object reads `$schema`, reads the whole object at the registered type and writes `$schema` first;
     - num.Amount / num.Percentage accept a string or a bare number and write their canonical text (C06's model);
     - cal.Date accepts what civil.ParseDate accepts (Fix/DateText.v);
     - the legacy migrations of pay.Advance (desc), pay.Online (name, addr), tax.Combo (tags) and
       bill.Invoice ($regime from the supplier's tax country).
   Outside the modelled domain the result is `Dom` (the correspondence check counts and skips those):
   member names that only match a field case-insensitively, duplicate members of a struct, null where Go
   keeps a zero value of a type with its own codec, signatures / floats / byte slices that are not in the
   canonical spelling the library itself writes, legacy `tags` of bill.Tax.
   uuid.UUID and cal.DateTime are read exactly (parse_uuid, parse_datetime): every spelling the forgiving Go
   readers accept gives the canonical text, every other one is refused.
   Model only: no proofs in this file. *)
From Coq Require Import String.
From Coq Require Import List ZArith Strings.Byte Bool.
From Verif Require Import Base.Wire Json.Utf8 Num.Amount Num.Codec Defs.DefTypes Rates.Date Fix.DateText.
Import ListNotations.
Open Scope string_scope.
Open Scope Z_scope.

Inductive tv :=
| TNull
| TBool (b : bool)
| TNum (raw : bytes)          (* the number's text as written *)
| TStr (s : bytes)            (* decoded string *)
| TArr (l : list tv)
| TObj (m : list (bytes * tv)).

Inductive leaf :=
| LStr | LBool | LInt (signed : bool) (bits : Z) | LFloat
| LAmount | LPercentage | LDate | LDateTime | LUUID | LSig | LBytes
| LOpaque (n : bytes).

Inductive hook := HNone | HInvoice | HTax | HAdvance | HOnline | HCombo.

Inductive ty :=
| TyLeaf (l : leaf)
| TyPtr (t : ty)
| TySlice (t : ty)
| TyMap (t : ty)
| TyStruct (h : hook) (fs : list field)
| TyRef (n : bytes)          (* a named struct type of the environment *)
| TyAny
| TyObject                   (* schema.Object *)
with field := mkF (fname : bytes) (fomit : bool) (fty : ty).

Definition f_name (f : field) := match f with mkF n _ _ => n end.
Definition f_omit (f : field) := match f with mkF _ o _ => o end.
Definition f_ty (f : field) := match f with mkF _ _ t => t end.

Inductive res (A : Type) := Ok (a : A) | Bad | Dom.
Arguments Ok {A} a.
Arguments Bad {A}.
Arguments Dom {A}.

Definition rbind {A B} (r : res A) (f : A -> res B) : res B :=
  match r with Ok a => f a | Bad => Bad | Dom => Dom end.

Record env := mkEnv {
  e_types : list (bytes * ty);          (* named struct types *)
  e_schemas : list (bytes * ty);        (* schema id -> registered type *)
  e_regime : bytes -> option bytes      (* tax country code -> code of the regime registered for it *)
}.

Fixpoint assoc {A} (k : bytes) (l : list (bytes * A)) : option A :=
  match l with
  | [] => None
  | (k', v) :: r => if eqb_bytes k k' then Some v else assoc k r
  end.

(* ---- names ---- *)
Definition is_ascii (s : bytes) : bool := forallb (fun b => bZ b <? 128) s.
Definition upper (b : byte) : byte :=
  let z := bZ b in if (97 <=? z) && (z <=? 122) then byte_of_Z (z - 32) else b.
Definition fold_eq (a b : bytes) : bool := eqb_bytes (map upper a) (map upper b).

(* the names a struct listens to: its fields and the legacy members of its hook *)
Definition hook_names (h : hook) : list bytes :=
  match h with
  | HAdvance => [bs "desc"]
  | HOnline => [bs "name"; bs "addr"]
  | HCombo => [bs "tags"]
  | HTax => [bs "tags"]
  | _ => []
  end.

(* every member name is ASCII, no two member names are equal up to case, and a name that matches a
   listened name up to case is that name exactly *)
Fixpoint names_distinct_fold (l : list bytes) : bool :=
  match l with
  | [] => true
  | k :: r => negb (existsb (fold_eq k) r) && names_distinct_fold r
  end.
Definition names_exact (listened members : list bytes) : bool :=
  forallb (fun m => forallb (fun n => implb (fold_eq m n) (eqb_bytes m n)) listened) members.
Definition members_in_domain (listened : list bytes) (m : list (bytes * tv)) : bool :=
  let ks := map fst m in
  forallb is_ascii ks && names_distinct_fold ks && names_exact listened ks.

(* ---- maps: later duplicates win, keys sorted byte-wise ---- *)
Fixpoint dedup_last {A} (m : list (bytes * A)) : list (bytes * A) :=
  match m with
  | [] => []
  | (k, v) :: r => if existsb (fun kv => eqb_bytes k (fst kv)) r then dedup_last r else (k, v) :: dedup_last r
  end.
Fixpoint insert_kv {A} (x : bytes * A) (l : list (bytes * A)) : list (bytes * A) :=
  match l with
  | [] => [x]
  | y :: l' => if bytes_ltb (fst y) (fst x) then y :: insert_kv x l' else x :: l
  end.
Definition sort_kv {A} (l : list (bytes * A)) : list (bytes * A) := fold_right insert_kv [] l.

(* ---- leaves ---- *)
Definition num_zero : tv := TNum [b_zero].

(* an integer literal of JSON (optional minus, then 0 or a digit string without leading zero); strconv.ParseInt or ParseUint on it *)
Definition json_int_text (s : bytes) : bool :=
  let t := trim_minus s in
  match t with
  | [] => false
  | d :: r => all_digits t && (is_nil r || negb (Byte.eqb d b_zero))
  end.
Definition reenc_int (signed : bool) (bits : Z) (s : bytes) : res tv :=
  if negb (json_int_text s) then Bad
  else
    let neg := has_minus s in
    let u := value_of_digits (trim_minus s) in
    let z := if neg then - u else u in
    if signed then
      (if (- 2 ^ (bits - 1) <=? z) && (z <? 2 ^ (bits - 1)) then Ok (TNum (print_int z)) else Bad)
    else
      (if neg then (if u =? 0 then Dom else Bad)
       else if z <? 2 ^ bits then Ok (TNum (print_int z)) else Bad).

(* ---- uuid.UUID: UnmarshalText -> uuid.Parse (repo) -> github.com/google/uuid Parse; written as the string it holds ---- *)
(* the form the library writes: lower-case hexadecimal digits in groups of 8-4-4-4-12 *)
Definition is_hex_lower (b : byte) : bool := is_digit b || ((97 <=? bZ b) && (bZ b <=? 102)).
Fixpoint uuid_shape (pos : nat) (s : bytes) : bool :=
  match s with
  | [] => Nat.eqb pos 36
  | b :: r =>
    (if Nat.eqb pos 8 || Nat.eqb pos 13 || Nat.eqb pos 18 || Nat.eqb pos 23 then Byte.eqb b c_dash else is_hex_lower b)
    && uuid_shape (S pos) r
  end.
Definition canonical_uuid (s : bytes) : bool := is_nil s || uuid_shape 0 s.

(* xvalues of google/uuid (a hexadecimal digit in either case), composed with encodeHex (lower case) *)
Definition hex_lower_of (b : byte) : option byte :=
  let z := bZ b in
  if is_hex_lower b then Some b
  else if (65 <=? z) && (z <=? 70) then Some (byte_of_Z (z + 32))
  else None.
Definition is_hex (b : byte) : bool := match hex_lower_of b with Some _ => true | None => false end.
Definition lower_hex (b : byte) : byte := match hex_lower_of b with Some c => c | None => b end.

(* n hexadecimal digits (written back in lower case) and what follows them *)
Fixpoint hex_run (n : nat) (s : bytes) : option (bytes * bytes) :=
  match n with
  | O => Some ([], s)
  | S n' =>
    match s with
    | [] => None
    | b :: r =>
      match hex_lower_of b, hex_run n' r with
      | Some c, Some (h, rest) => Some (c :: h, rest)
      | _, _ => None
      end
    end
  end.
Definition dash_then (n : nat) (s : bytes) : option (bytes * bytes) :=
  match s with
  | b :: r => if Byte.eqb b c_dash then
                match hex_run n r with Some (h, rest) => Some (c_dash :: h, rest) | None => None end
              else None
  | [] => None
  end.
(* xxxxxxxx-xxxx-xxxx-xxxx-xxxxxxxxxxxx at the head of s: bytes 8, 13, 18, 23 are hyphens, the sixteen pairs
   are hexadecimal; whatever follows the 36 bytes is not looked at *)
Definition uuid_body (s : bytes) : option bytes :=
  match hex_run 8 s with
  | Some (g1, r1) =>
    match dash_then 4 r1 with
    | Some (g2, r2) =>
      match dash_then 4 r2 with
      | Some (g3, r3) =>
        match dash_then 4 r3 with
        | Some (g4, r4) =>
          match dash_then 12 r4 with
          | Some (g5, _) => Some (g1 ++ g2 ++ g3 ++ g4 ++ g5)%list
          | None => None
          end
        | None => None
        end
      | None => None
      end
    | None => None
    end
  | None => None
  end.
(* the 8-4-4-4-12 grouping of 32 digits *)
Definition hyphenate (h : bytes) : bytes :=
  (firstn 8 h ++ c_dash :: firstn 4 (skipn 8 h) ++ c_dash :: firstn 4 (skipn 12 h) ++ c_dash :: firstn 4 (skipn 16 h)
   ++ c_dash :: skipn 20 h)%list.
Definition urn_prefix : bytes := bs "urn:uuid:".
(* the text the field holds after reading s (None: an error).  By length: "" stays ""; 36 = the standard
   form; 45 = a prefix equal to "urn:uuid:" up to ASCII case (strings.EqualFold: no letter of the prefix has
   a non-ASCII case variant) and the standard form; 38 = ANY byte, the standard form, ANY byte ("{...}", but
   the braces are not checked); 32 = bare digits; every other length is refused *)
Definition parse_uuid (s : bytes) : option bytes :=
  let n := length s in
  if is_nil s then Some []
  else if Nat.eqb n 36 then uuid_body s
  else if Nat.eqb n 45 then (if fold_eq (firstn 9 s) urn_prefix then uuid_body (skipn 9 s) else None)
  else if Nat.eqb n 38 then uuid_body (tl s)
  else if Nat.eqb n 32 then
    match hex_run 32 s with Some (h, _) => Some (hyphenate h) | None => None end
  else None.

(* ---- cal.DateTime: UnmarshalJSON (cal/date_time.go) over civil.ParseDateTime = time.Parse with the layout
   "2006-01-02T15:04:05.999999999", then the same with a lower-case t; written by civil.DateTime.String ---- *)
Definition text_zero_datetime : bytes := bs "0000-00-00T00:00:00".
Definition two_digits (a b : byte) : option Z :=
  if is_digit a && is_digit b then Some (dv a * 10 + dv b) else None.
(* the form the library writes: the zero text, or YYYY-MM-DDTHH:MM:SS with a real calendar date (year 0 is a
   leap year) and a real time of day *)
Definition canonical_datetime (s : bytes) : bool :=
  eqb_bytes s text_zero_datetime ||
  match s with
  | [y1; y2; y3; y4; d1; m1; m2; d2; a1; a2; t; h1; h2; c1; n1; n2; c2; s1; s2] =>
    Byte.eqb t x54 && Byte.eqb c1 x3a && Byte.eqb c2 x3a &&
    match parse_date [y1; y2; y3; y4; d1; m1; m2; d2; a1; a2], two_digits h1 h2, two_digits n1 n2, two_digits s1 s2 with
    | Some d, Some h, Some n, Some sec => date_valid d && (h <? 24) && (n <? 60) && (sec <? 60)
    | _, _, _, _ => false
    end
  | _ => false
  end.

(* what may follow the seconds (layout element .999999999): nothing, or '.' or ',' and one or more digits up to
   the end of the text.  time.Parse keeps the first nine digits; the repository refuses a fraction that is not
   zero (and so accepts ".000", ",0" and ".0000000009") *)
Definition frac_sep (b : byte) : bool := Byte.eqb b x2e || Byte.eqb b x2c.
Definition frac_zero (f : bytes) : bool :=
  match f with
  | [] => true
  | p :: d :: r => frac_sep p && all_digits (d :: r) && forallb (fun b => Byte.eqb b b_zero) (firstn 9 (d :: r))
  | _ => false
  end.
(* ":MM:SS" and the fraction, after an hour h: minute and second have exactly two digits *)
Definition clock_rest (h : Z) (r : bytes) : option bytes :=
  match r with
  | c1 :: n1 :: n2 :: c2 :: s1 :: s2 :: f =>
    match two_digits n1 n2, two_digits s1 s2 with
    | Some n, Some sec =>
      if Byte.eqb c1 x3a && Byte.eqb c2 x3a && (h <? 24) && (n <? 60) && (sec <? 60) && frac_zero f
      then Some (pad2 h ++ x3a :: pad2 n ++ x3a :: pad2 sec)%list else None
    | _, _ => None
    end
  | _ => None
  end.
(* the hour (layout element 15) is read by getnum(value, fixed = false): two digits, or ONE digit when the
   byte behind it is not a digit *)
Definition parse_clock (r : bytes) : option bytes :=
  match r with
  | h1 :: h2 :: r2 =>
    if is_digit h1 then
      (if is_digit h2 then clock_rest (dv h1 * 10 + dv h2) r2 else clock_rest (dv h1) (h2 :: r2))
    else None
  | _ => None
  end.
(* the text written for the value read from s (None: an error) *)
Definition parse_datetime (s : bytes) : option bytes :=
  if eqb_bytes s text_zero_datetime then Some s
  else
    match s with
    | y1 :: y2 :: y3 :: y4 :: d1 :: m1 :: m2 :: d2 :: a1 :: a2 :: t :: r =>
      match parse_date [y1; y2; y3; y4; d1; m1; m2; d2; a1; a2] with
      | Some d =>
        if date_valid d && (Byte.eqb t x54 || Byte.eqb t x74) then
          match parse_clock r with
          | Some c => Some (print_date d ++ x54 :: c)%list
          | None => None
          end
        else None
      | None => None
      end
    | _ => None
    end.

(* a compact JWS: three non-empty runs of base64url characters separated by two dots *)
Definition is_b64url (b : byte) : bool :=
  let z := bZ b in
  is_digit b || ((65 <=? z) && (z <=? 90)) || ((97 <=? z) && (z <=? 122)) || (z =? 45) || (z =? 95).
Definition canonical_sig (s : bytes) : bool :=
  match split_dot s with
  | [a; b; c] => negb (is_nil a) && negb (is_nil b) && negb (is_nil c)
                 && forallb is_b64url a && forallb is_b64url b && forallb is_b64url c
  | _ => false
  end.

(* an unsigned integer literal of JSON: 0, or a digit string without leading zero (no sign) *)
Definition json_uint_text (t : bytes) : bool :=
  match t with
  | [] => false
  | d :: r => all_digits t && (is_nil r || negb (Byte.eqb d b_zero))
  end.
(* a float the library writes back as given: ONE optional minus, an integer part without leading zero, at
   most six decimals without trailing zero, at most fifteen significant digits, not "-0" *)
Definition canonical_float (s : bytes) : bool :=
  let t := trim_minus s in
  match split_dot t with
  | [i] => json_uint_text i && (Nat.leb (length i) 15) && negb (has_minus s && (value_of_digits i =? 0))
  | [i; f] =>
    json_uint_text i && all_digits f && negb (is_nil f) && Nat.leb (length f) 6 &&
    Nat.leb (length i + length f) 15 &&
    negb (Byte.eqb (last f b_zero) b_zero)
  | _ => false
  end.

(* standard base64 as encoding/base64.StdEncoding writes it: whole quanta, padding only at the end, the
   unused bits of the last quantum zero (the reader is lenient about those, the writer is not) *)
Definition b64_val (b : byte) : option Z :=
  let z := bZ b in
  if (65 <=? z) && (z <=? 90) then Some (z - 65)
  else if (97 <=? z) && (z <=? 122) then Some (z - 71)
  else if is_digit b then Some (z + 4)
  else if z =? 43 then Some 62
  else if z =? 47 then Some 63
  else None.
Definition is_b64 (b : byte) : bool := match b64_val b with Some _ => true | None => false end.
Definition b64_low_zero (b : byte) (m : Z) : bool :=
  match b64_val b with Some v => v mod m =? 0 | None => false end.
Fixpoint b64_canon (fuel : nat) (s : bytes) : bool :=
  match fuel with
  | O => false
  | S f =>
    match s with
    | [] => true
    | [a; b; c; d] =>
      is_b64 a && is_b64 b &&
      (if Byte.eqb c x3d then Byte.eqb d x3d && b64_low_zero b 16
       else is_b64 c && (if Byte.eqb d x3d then b64_low_zero c 4 else is_b64 d))
    | a :: b :: c :: d :: r => is_b64 a && is_b64 b && is_b64 c && is_b64 d && b64_canon f r
    | _ => false
    end
  end.
Definition canonical_b64 (s : bytes) : bool := b64_canon (S (length s)) s.

Definition text_zero_pct : bytes := [b_zero; b_pct].
Definition text_zero_date : bytes := print_date zero_date.

Definition reenc_leaf (l : leaf) (j : tv) : res tv :=
  match l, j with
  | LStr, TStr s => Ok (TStr s)
  | LStr, TNull => Ok (TStr [])
  | LStr, _ => Bad
  | LBool, TBool b => Ok (TBool b)
  | LBool, TNull => Ok (TBool false)
  | LBool, _ => Bad
  | LInt sg bits, TNum s => reenc_int sg bits s
  | LInt _ _, TNull => Ok num_zero
  | LInt _ _, _ => Bad
  | LFloat, TNum s => if canonical_float s then Ok (TNum s) else Dom
  | LFloat, TNull => Dom
  | LFloat, _ => Bad
  | LAmount, TStr s | LAmount, TNum s =>
    match parse_amount_fixed s with
    | Some a => if amount_string_fixed_panics a then Dom else Ok (TStr (print_amount_fixed a))
    | None => if eqb_bytes s text_null then Dom else Bad
    end
  | LAmount, TNull => Ok (TStr [b_zero])
  | LAmount, _ => Bad
  | LPercentage, TStr s | LPercentage, TNum s =>
    (* percentage texts travel through a float in one branch of the reader (C06): only the texts the
       printer itself produces are in the domain *)
    match parse_pct_fixed s with
    | Some p => if eqb_bytes (print_pct_fixed p) s then Ok (TStr s) else Dom
    | None => Dom
    end
  | LPercentage, TNull => Ok (TStr text_zero_pct)
  | LPercentage, _ => Bad
  | LDate, TStr s =>
    match parse_date s with
    | Some d => Ok (TStr (print_date d))
    | None => Bad
    end
  | LDate, TNull => Bad
  | LDate, _ => Bad
  | LDateTime, TStr s => match parse_datetime s with Some c => Ok (TStr c) | None => Bad end
  | LDateTime, _ => Bad          (* null too: the reader is handed the text null, reads "" from it and refuses that *)
  | LUUID, TStr s => match parse_uuid s with Some c => Ok (TStr c) | None => Bad end
  | LUUID, TNull => Ok (TStr [])
  | LUUID, _ => Bad
  | LSig, TStr s => if canonical_sig s then Ok (TStr s) else Dom
  | LSig, _ => Dom
  | LBytes, TNull => Ok TNull
  | LBytes, TStr s => if canonical_b64 s then Ok (TStr s) else Dom
  | LBytes, TArr _ => Dom        (* an array of small numbers is read as bytes too *)
  | LBytes, _ => Bad
  | LOpaque _, _ => Dom
  end.

(* what an absent member (the zero value of the field) is written as *)
Definition zero_leaf (l : leaf) : res tv :=
  match l with
  | LStr | LUUID => Ok (TStr [])
  | LBool => Ok (TBool false)
  | LInt _ _ | LFloat => Ok num_zero
  | LAmount => Ok (TStr [b_zero])
  | LPercentage => Ok (TStr text_zero_pct)
  | LDate => Ok (TStr text_zero_date)
  | LDateTime => Ok (TStr text_zero_datetime)
  | LBytes => Ok TNull
  | LSig | LOpaque _ => Dom
  end.

(* isEmptyValue on the value a leaf of this type was written from *)
Definition leaf_empty (l : leaf) (v : tv) : bool :=
  match l, v with
  | (LStr | LUUID), TStr [] => true
  | LBool, TBool false => true
  | (LInt _ _ | LFloat), TNum s => eqb_bytes s [b_zero]
  | LBytes, (TNull | TStr []) => true
  | _, _ => false
  end.

Definition is_tnull (v : tv) : bool := match v with TNull => true | _ => false end.

(* isEmptyValue, read off the written tree: the reflect.Kind decides *)
Definition enc_empty (t : ty) (v : tv) : bool :=
  match t with
  | TyLeaf l => leaf_empty l v
  | TyPtr _ | TyAny => is_tnull v
  | TySlice _ => match v with TNull | TArr [] => true | _ => false end
  | TyMap _ => match v with TNull | TObj [] => true | _ => false end
  | TyStruct _ _ | TyRef _ | TyObject => false
  end.

(* internal.NullArrayElement: a null directly inside an array, anywhere in the tree *)
Fixpoint has_null_element (fuel : nat) (v : tv) : bool :=
  match fuel with
  | O => true
  | S f =>
    match v with
    | TArr l => existsb is_tnull l || existsb (has_null_element f) l
    | TObj m => existsb (fun kv => has_null_element f (snd kv)) m
    | _ => false
    end
  end.
Fixpoint depth (v : tv) : nat :=
  match v with
  | TArr l => S (fold_right (fun x n => Nat.max (depth x) n) O l)
  | TObj m => S (fold_right (fun kv n => Nat.max (depth (snd kv)) n) O m)
  | _ => 1%nat
  end.

(* ---- the legacy migrations (the UnmarshalJSON methods of the hook structs) ---- *)
Fixpoint set_field (n : bytes) (v : tv) (l : list (field * tv)) : list (field * tv) :=
  match l with
  | [] => []
  | (f, x) :: r => if eqb_bytes (f_name f) n then (f, v) :: r else (f, x) :: set_field n v r
  end.
Fixpoint get_field (n : bytes) (l : list (field * tv)) : option tv :=
  match l with
  | [] => None
  | (f, x) :: r => if eqb_bytes (f_name f) n then Some x else get_field n r
  end.

(* a legacy string member: non-empty text replaces the target field *)
Definition move_string (legacy target : bytes) (m : list (bytes * tv)) (fv : list (field * tv))
  : res (list (field * tv)) :=
  match assoc legacy m with
  | None | Some TNull => Ok fv
  | Some (TStr []) => Ok fv
  | Some (TStr s) => Ok (set_field target (TStr s) fv)
  | Some _ => Bad
  end.

Definition all_strings (l : list tv) : bool := forallb (fun v => match v with TStr _ => true | _ => false end) l.

(* supplier.tax_id.country of an invoice, read off the written fields *)
Definition member (k : bytes) (v : tv) : option tv :=
  match v with TObj m => assoc k m | _ => None end.
Definition supplier_country (fv : list (field * tv)) : bytes :=
  match get_field (bs "supplier") fv with
  | Some s => match member (bs "tax_id") s with
              | Some t => match member (bs "country") t with Some (TStr c) => c | _ => [] end
              | None => []
              end
  | None => []
  end.

Definition apply_hook (E : env) (h : hook) (m : list (bytes * tv)) (fv : list (field * tv))
  : res (list (field * tv)) :=
  match h with
  | HNone => Ok fv
  | HAdvance => move_string (bs "desc") (bs "description") m fv
  | HOnline => rbind (move_string (bs "name") (bs "label") m fv) (move_string (bs "addr") (bs "url") m)
  | HCombo =>
    match assoc (bs "tags") m with
    | None | Some TNull | Some (TArr []) => Ok fv
    | Some (TArr (TStr k :: r)) =>
      if negb (all_strings r) then Bad
      else match get_field (bs "rate") fv with
           | Some (TStr []) => Ok (set_field (bs "rate") (TStr k) fv)
           | _ => Ok fv
           end
    | Some _ => Bad
    end
  | HTax =>
    match assoc (bs "tags") m with
    | None | Some TNull | Some (TArr []) => Ok fv
    | Some _ => Dom
    end
  | HInvoice =>
    match get_field (bs "$regime") fv with
    | Some (TStr []) =>
      match e_regime E (supplier_country fv) with
      | Some c => Ok (set_field (bs "$regime") (TStr c) fv)
      | None => Ok fv
      end
    | _ => Ok fv
    end
  end.

(* ---- the recursion ---- *)
Fixpoint rmap {A B} (f : A -> res B) (l : list A) : res (list B) :=
  match l with
  | [] => Ok []
  | x :: r => rbind (f x) (fun y => rbind (rmap f r) (fun ys => Ok (y :: ys)))
  end.

Definition emit (fv : list (field * tv)) : list (bytes * tv) :=
  map (fun p => (f_name (fst p), snd p))
      (filter (fun p => negb (f_omit (fst p) && enc_empty (f_ty (fst p)) (snd p))) fv).

Definition schema_key : bytes := bs "$schema".

Section Reenc.
  Variable E : env.

  (* the written form of the zero value *)
  Fixpoint zero_enc (fuel : nat) (t : ty) : res tv :=
    match fuel with
    | O => Dom
    | S f =>
      match t with
      | TyLeaf l => zero_leaf l
      | TyPtr _ | TySlice _ | TyMap _ | TyAny => Ok TNull
      | TyStruct HNone fs =>
        rbind (rmap (fun fd => rbind (zero_enc f (f_ty fd)) (fun v => Ok (fd, v))) fs)
              (fun fv => Ok (TObj (emit fv)))
      | TyStruct _ _ => Dom
      | TyRef n => match assoc n (e_types E) with Some t' => zero_enc f t' | None => Dom end
      | TyObject => Dom
      end
    end.

  (* a payload type schema.Object can carry in this model: a named struct that does not itself listen
     to the member `$schema` (the envelope does, and is outside the domain as a payload) *)
  Definition payload_ok (t : ty) : bool :=
    match t with
    | TyRef n =>
      match assoc n (e_types E) with
      | Some (TyStruct h fs) => negb (existsb (fold_eq schema_key) (map f_name fs ++ hook_names h))
      | _ => false
      end
    | _ => false
    end.

  Fixpoint reenc (fuel : nat) (t : ty) (j : tv) : res tv :=
    match fuel with
    | O => Dom
    | S f =>
      match t with
      | TyLeaf l => reenc_leaf l j
      | TyPtr t' => match j with TNull => Ok TNull | _ => reenc f t' j end
      | TySlice t' =>
        match j with
        | TNull => Ok TNull
        | TArr l => rbind (rmap (reenc f t') l) (fun l' => Ok (TArr l'))
        | _ => Bad
        end
      | TyMap t' =>
        match j with
        | TNull => Ok TNull
        | TObj m =>
          rbind (rmap (fun kv => rbind (reenc f t' (snd kv)) (fun v => Ok (fst kv, v))) (dedup_last m))
                (fun m' => Ok (TObj (sort_kv m')))
        | _ => Bad
        end
      | TyStruct h fs =>
        match j with
        | TNull => match h with HNone => zero_enc f t | _ => Dom end
        | TObj m =>
          if negb (members_in_domain (map f_name fs ++ hook_names h) m) then Dom
          else
            rbind (rmap (fun fd =>
                           match assoc (f_name fd) m with
                           | Some x => rbind (reenc f (f_ty fd) x) (fun v => Ok (fd, v))
                           | None => rbind (zero_enc f (f_ty fd)) (fun v => Ok (fd, v))
                           end) fs)
                  (fun fv => rbind (apply_hook E h m fv) (fun fv' => Ok (TObj (emit fv'))))
        | _ => Bad
        end
      | TyRef n => match assoc n (e_types E) with Some t' => reenc f t' j | None => Dom end
      | TyAny => Dom
      | TyObject =>
        match j with
        | TObj m =>
          if negb (members_in_domain [schema_key] m) then Dom
          else match assoc schema_key m with
               | Some (TStr []) | None | Some TNull => Dom
               | Some (TStr id) =>
                 match assoc id (e_schemas E) with
                 | None => Bad
                 | Some TyObject => Bad
                 | Some t' =>
                   if negb (payload_ok t') then Dom
                   else if has_null_element (depth j) j then Bad
                   else rbind (reenc f t' j)
                              (fun v => match v with
                                        | TObj [] => Dom
                                        | TObj ms => Ok (TObj ((schema_key, TStr id) :: ms))
                                        | _ => Dom
                                        end)
                 end
               | Some _ => Bad
               end
        | TNull => Dom
        | _ => Bad
        end
      end
    end.
End Reenc.
