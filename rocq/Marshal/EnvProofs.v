(* C04 / C08 - the typed-marshalling theorems (Marshal/TypedProofs.v) for the GENERATED environment
   (Marshal/Env.v over Gen/GoTypes.v and Gen/Regimes.v).  `go_env_wf` is a data theorem: it is re-checked
   against the regenerated Go types on every run. *)
From Coq Require Import String.
From Coq Require Import List ZArith Strings.Byte Bool Lia Permutation Sorting.Sorted.
From Verif Require Import Base.Wire Json.Utf8 Marshal.Typed Marshal.Wf Marshal.TypedLeafProofs Marshal.TypedProofs
  Marshal.FuelProofs Gen.GoTypes Marshal.Env.
Import ListNotations.

Lemma go_env_wf : env_wfb go_env = true.
Proof. vm_compute. reflexivity. Qed.

(* a document read at a registered schema type *)
Lemma go_schema_read_back fuel id t j j' : assoc id go_schemas = Some t ->
  reenc go_env fuel t j = Ok j' -> reenc go_env fuel t j' = Ok j'.
Proof.
  intros A. apply (reenc_idempotent go_env go_env_wf).
  apply (env_wfb_schemas go_env id t go_env_wf A).
Qed.

(* a document read at a named Go type *)
Lemma go_type_read_back fuel n j j' :
  reenc go_env fuel (TyRef n) j = Ok j' -> reenc go_env fuel (TyRef n) j' = Ok j'.
Proof. apply (reenc_idempotent go_env go_env_wf). reflexivity. Qed.

(* with the fuel the runner computes from the tree: the written tree is read back with the fuel of the
   tree it was written from, and with its own whenever it is not shallower *)
Lemma reenc_schema_read_back id j j' : reenc_schema id j = Ok j' ->
  (depth j <= depth j')%nat -> reenc_schema id j' = Ok j'.
Proof.
  unfold reenc_schema. destruct (assoc id go_schemas) as [t|] eqn:A; [|discriminate].
  intros H L. apply (go_schema_read_back _ _ _ _ _ A) in H.
  eapply reenc_mono; [exact H|]. unfold fuel_for. lia.
Qed.

Lemma reenc_type_read_back n j j' : reenc_type n j = Ok j' ->
  (depth j <= depth j')%nat -> reenc_type n j' = Ok j'.
Proof.
  unfold reenc_type. intros H L. apply go_type_read_back in H.
  eapply reenc_mono; [exact H|]. unfold fuel_for. lia.
Qed.

(* ---- the fuel the runner computes from the tree is enough ---- *)
(* cost tables of the generated types, by iteration from zero (Marshal/Wf.v: zcost, rcost) *)
Definition zt_step (zt : list (bytes * nat)) : list (bytes * nat) :=
  map (fun kt : bytes * ty => (fst kt, zcost zt (snd kt))) go_types.
Definition go_zt : list (bytes * nat) := Nat.iter 30 zt_step [].
Definition rt_step (st : list (bytes * nat) * nat) : list (bytes * nat) * nat :=
  (map (fun kt : bytes * ty => (fst kt, rcost go_zt (fst st) (snd st) (snd kt))) go_types,
   fold_right Nat.max O
     (map (fun kt : bytes * ty => if is_object_ty (snd kt) then O else rcost go_zt (fst st) (snd st) (snd kt)) go_schemas)).
Definition go_rt : list (bytes * nat) * nat := Nat.iter 40 rt_step ([], O).

(* data theorems: the tables are a solution, and every cost is below the constant of fuel_for *)
Lemma go_cost_ok : cost_okb go_env go_zt (fst go_rt) (snd go_rt) = true.
Proof. vm_compute. reflexivity. Qed.

Lemma go_cost_bound :
  forallb (fun kt => Nat.leb (rcost go_zt (fst go_rt) (snd go_rt) (snd kt)) 40) go_schemas
  && forallb (fun kn => Nat.leb (snd kn) 39) (fst go_rt) = true.
Proof. vm_compute. reflexivity. Qed.

Lemma lookup_nat_le b tab n : forallb (fun kn : bytes * nat => Nat.leb (snd kn) b) tab = true -> (lookup_nat n tab <= b)%nat.
Proof.
  intros H. unfold lookup_nat. destruct (assoc n tab) as [k|] eqn:A; [|lia].
  apply assoc_In in A. rewrite forallb_forall in H. specialize (H _ A). now apply Nat.leb_le in H.
Qed.

Lemma reenc_schema_read_back_full id j j' : reenc_schema id j = Ok j' -> reenc_schema id j' = Ok j'.
Proof.
  unfold reenc_schema. destruct (assoc id go_schemas) as [t|] eqn:A; [|discriminate].
  intros H. apply (go_schema_read_back _ _ _ _ _ A) in H.
  apply (rsuff go_env go_zt (fst go_rt) (snd go_rt) go_cost_ok _ _ _ _ _ H).
  pose proof go_cost_bound as B. apply andb_true_iff in B. destruct B as [B _].
  rewrite forallb_forall in B. specialize (B _ (assoc_In _ _ _ A)). cbn [snd] in B.
  apply Nat.leb_le in B. unfold fuel_for. lia.
Qed.

Lemma reenc_type_read_back_full n j j' : reenc_type n j = Ok j' -> reenc_type n j' = Ok j'.
Proof.
  unfold reenc_type. intros H. apply go_type_read_back in H.
  apply (rsuff go_env go_zt (fst go_rt) (snd go_rt) go_cost_ok _ _ _ _ _ H).
  pose proof go_cost_bound as B. apply andb_true_iff in B. destruct B as [_ B].
  pose proof (lookup_nat_le 39 (fst go_rt) n B). cbn [rcost]. unfold fuel_for. lia.
Qed.

(* the fuel computed from the tree gives the result any larger fuel gives *)
Lemma reenc_schema_fuel_enough id t j f r : assoc id go_schemas = Some t ->
  reenc go_env f t j = Ok r -> reenc_schema id j = Ok r.
Proof.
  intros A H. unfold reenc_schema. rewrite A.
  apply (rsuff go_env go_zt (fst go_rt) (snd go_rt) go_cost_ok _ _ _ _ _ H).
  pose proof go_cost_bound as B. apply andb_true_iff in B. destruct B as [B _].
  rewrite forallb_forall in B. specialize (B _ (assoc_In _ _ _ A)). cbn [snd] in B.
  apply Nat.leb_le in B. unfold fuel_for. lia.
Qed.
