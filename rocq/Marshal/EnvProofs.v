(* C04 / C08 - the typed-marshalling theorems (Marshal/TypedProofs.v) for the GENERATED environment
   (Marshal/Env.v over Gen/GoTypes.v and Gen/Regimes.v).  `go_env_wf` is a data theorem: it is re-checked
   against the regenerated Go types on every run. *)
From Coq Require Import String.
From Coq Require Import List ZArith Strings.Byte Bool Lia Permutation Sorting.Sorted.
From Verif Require Import Base.Wire Json.Utf8 Marshal.Typed Marshal.Wf Marshal.TypedLeafProofs Marshal.TypedProofs
  Gen.GoTypes Marshal.Env.
Import ListNotations.

Lemma go_env_wf : env_wfb go_env = true.
Proof. vm_compute. reflexivity. Qed.

(* a document read at a registered schema type *)
Lemma go_schema_read_back fuel id t j j' : assoc id go_schemas = Some t ->
  reenc go_env fuel t j = Ok j' -> reenc go_env fuel t j' = Ok j'.
Proof.
  intros A. apply (reenc_idempotent go_env go_env_wf).
  apply (env_wfb_schemas go_env id t go_env_wf A).
Qed.

(* a document read at a named Go type *)
Lemma go_type_read_back fuel n j j' :
  reenc go_env fuel (TyRef n) j = Ok j' -> reenc go_env fuel (TyRef n) j' = Ok j'.
Proof. apply (reenc_idempotent go_env go_env_wf). reflexivity. Qed.

(* with the fuel the runner computes from the tree: the written tree is read back with the fuel of the
   tree it was written from, and with its own whenever it is not shallower *)
Lemma reenc_schema_read_back id j j' : reenc_schema id j = Ok j' ->
  (depth j <= depth j')%nat -> reenc_schema id j' = Ok j'.
Proof.
  unfold reenc_schema. destruct (assoc id go_schemas) as [t|] eqn:A; [|discriminate].
  intros H L. apply (go_schema_read_back _ _ _ _ _ A) in H.
  eapply reenc_mono; [exact H|]. unfold fuel_for. lia.
Qed.

Lemma reenc_type_read_back n j j' : reenc_type n j = Ok j' ->
  (depth j <= depth j')%nat -> reenc_type n j' = Ok j'.
Proof.
  unfold reenc_type. intros H L. apply go_type_read_back in H.
  eapply reenc_mono; [exact H|]. unfold fuel_for. lia.
Qed.
