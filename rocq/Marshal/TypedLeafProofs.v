(* C04 / C08 - first part of the proofs about the typed-marshalling model (Marshal/Typed.v): result
   plumbing, "more fuel never changes a result", and the leaves: every leaf text the model writes is read
   back and written identically.  The theorems proper are in Marshal/TypedProofs.v. *)
From Coq Require Import String.
From Coq Require Import List ZArith Strings.Byte Bool Lia Permutation Sorting.Sorted.
From Verif Require Import Base.Wire Json.Utf8 Json.JsonProofs Num.Amount Num.Codec Num.CodecProofs Defs.DefTypes Rates.Date
  Fix.DateText Fix.DateTextProofs Marshal.Typed Marshal.Wf Marshal.LeafTextProofs.
Import ListNotations.
Open Scope Z_scope.

(* ------------------------------------------------------------------------------------------ *)
(* basics                                                                                      *)
(* ------------------------------------------------------------------------------------------ *)
Lemma eqb_bytes_refl a : eqb_bytes a a = true.
Proof. now apply eqb_bytes_eq. Qed.

Lemma eqb_bytes_neq a b : a <> b -> eqb_bytes a b = false.
Proof. intros H. destruct (eqb_bytes a b) eqn:E; auto. apply eqb_bytes_eq in E. contradiction. Qed.

Lemma eqb_bytes_false a b : eqb_bytes a b = false -> a <> b.
Proof. intros H ->. rewrite eqb_bytes_refl in H. discriminate. Qed.

Lemma fold_eq_refl a : fold_eq a a = true.
Proof. apply eqb_bytes_refl. Qed.

Lemma fold_eq_sym a b : fold_eq a b = fold_eq b a.
Proof.
  unfold fold_eq. destruct (eqb_bytes (map upper a) (map upper b)) eqn:E.
  - apply eqb_bytes_eq in E. rewrite E. symmetry. apply eqb_bytes_refl.
  - symmetry. apply eqb_bytes_neq. intros H. rewrite H, eqb_bytes_refl in E. discriminate.
Qed.

Lemma fold_eq_false_neq a b : fold_eq a b = false -> a <> b.
Proof. intros H ->. rewrite fold_eq_refl in H. discriminate. Qed.

Lemma rbind_ok {A B} (r : res A) (f : A -> res B) b :
  rbind r f = Ok b -> exists a, r = Ok a /\ f a = Ok b.
Proof. destruct r; cbn; try discriminate. eauto. Qed.

Lemma rmap_ok {A B} (f : A -> res B) l : forall l', rmap f l = Ok l' -> Forall2 (fun x y => f x = Ok y) l l'.
Proof.
  induction l as [|x l IH]; cbn; intros l' H.
  - inversion H. constructor.
  - apply rbind_ok in H. destruct H as (y & Hy & H). apply rbind_ok in H. destruct H as (ys & Hys & H).
    inversion H; subst. constructor; auto.
Qed.

Lemma rmap_of_Forall2 {A B} (f : A -> res B) l l' : Forall2 (fun x y => f x = Ok y) l l' -> rmap f l = Ok l'.
Proof. induction 1; cbn; auto. rewrite H, IHForall2. reflexivity. Qed.

Lemma rmap_ext {A B} (f g : A -> res B) l : (forall x, In x l -> f x = g x) -> rmap f l = rmap g l.
Proof.
  induction l as [|x l IH]; cbn; intros H; auto.
  rewrite (H x) by auto. rewrite IH by auto. reflexivity.
Qed.

Lemma rmap_id {A} (f : A -> res A) l : (forall x, In x l -> f x = Ok x) -> rmap f l = Ok l.
Proof.
  induction l as [|x l IH]; cbn; intros H; auto.
  rewrite (H x) by auto. rewrite IH by auto. reflexivity.
Qed.

Lemma Forall_exists_Forall2 {A B} (Q : A -> B -> Prop) l :
  Forall (fun x => exists y, Q x y) l -> exists l', Forall2 Q l l'.
Proof.
  induction 1 as [|x l (y & Hy) _ (l' & IH)]; [exists []; constructor|].
  exists (y :: l'). constructor; auto.
Qed.

Lemma Forall2_In_l {A B} (Q : A -> B -> Prop) l l' x : Forall2 Q l l' -> In x l -> exists y, In y l' /\ Q x y.
Proof.
  induction 1; cbn; intros Hin; [contradiction|]. destruct Hin as [->|Hin]; eauto.
  destruct (IHForall2 Hin) as (y' & ? & ?); eauto.
Qed.

Lemma Forall2_In_r {A B} (Q : A -> B -> Prop) l l' y : Forall2 Q l l' -> In y l' -> exists x, In x l /\ Q x y.
Proof.
  induction 1; cbn; intros Hin; [contradiction|]. destruct Hin as [->|Hin]; eauto.
  destruct (IHForall2 Hin) as (x' & ? & ?); eauto.
Qed.

(* ------------------------------------------------------------------------------------------ *)
(* more fuel never changes a result                                                            *)
(* ------------------------------------------------------------------------------------------ *)
Lemma rmap_mono {A B} (f g : A -> res B) l l' :
  (forall x y, In x l -> f x = Ok y -> g x = Ok y) -> rmap f l = Ok l' -> rmap g l = Ok l'.
Proof.
  intros H R. apply rmap_ok in R. apply rmap_of_Forall2.
  revert H. induction R; intros Hx; constructor; auto.
  - apply Hx; cbn; auto.
  - apply IHR. intros; apply Hx; cbn; auto.
Qed.

Section Mono.
  Variable E : env.

  (* one step of the two recursions *)
  Lemma zero_enc_eq f t : zero_enc E (S f) t =
    match t with
    | TyLeaf l => zero_leaf l
    | TyPtr _ | TySlice _ | TyMap _ | TyAny => Ok TNull
    | TyStruct HNone fs =>
      rbind (rmap (fun fd => rbind (zero_enc E f (f_ty fd)) (fun v => Ok (fd, v))) fs)
            (fun fv => Ok (TObj (emit fv)))
    | TyStruct _ _ => Dom
    | TyRef n => match assoc n (e_types E) with Some t' => zero_enc E f t' | None => Dom end
    | TyObject => Dom
    end.
  Proof. reflexivity. Qed.

  Definition object_step (f : nat) (j : tv) (m : list (bytes * tv)) : res tv :=
    if negb (members_in_domain [schema_key] m) then Dom
    else match assoc schema_key m with
         | Some (TStr []) | None | Some TNull => Dom
         | Some (TStr id) =>
           match assoc id (e_schemas E) with
           | None => Bad
           | Some TyObject => Bad
           | Some t' =>
             if negb (payload_ok E t') then Dom
             else if has_null_element (depth j) j then Bad
             else rbind (reenc E f t' j)
                        (fun v => match v with
                                  | TObj [] => Dom
                                  | TObj ms => Ok (TObj ((schema_key, TStr id) :: ms))
                                  | _ => Dom
                                  end)
           end
         | Some _ => Bad
         end.

  Definition struct_step (f : nat) (h : hook) (fs : list field) (m : list (bytes * tv)) : res tv :=
    if negb (members_in_domain (map f_name fs ++ hook_names h) m) then Dom
    else
      rbind (rmap (fun fd =>
                     match assoc (f_name fd) m with
                     | Some x => rbind (reenc E f (f_ty fd) x) (fun v => Ok (fd, v))
                     | None => rbind (zero_enc E f (f_ty fd)) (fun v => Ok (fd, v))
                     end) fs)
            (fun fv => rbind (apply_hook E h m fv) (fun fv' => Ok (TObj (emit fv')))).

  Lemma reenc_eq f t j : reenc E (S f) t j =
    match t with
    | TyLeaf l => reenc_leaf l j
    | TyPtr t' => match j with TNull => Ok TNull | _ => reenc E f t' j end
    | TySlice t' =>
      match j with
      | TNull => Ok TNull
      | TArr l => rbind (rmap (reenc E f t') l) (fun l' => Ok (TArr l'))
      | _ => Bad
      end
    | TyMap t' =>
      match j with
      | TNull => Ok TNull
      | TObj m =>
        rbind (rmap (fun kv => rbind (reenc E f t' (snd kv)) (fun v => Ok (fst kv, v))) (dedup_last m))
              (fun m' => Ok (TObj (sort_kv m')))
      | _ => Bad
      end
    | TyStruct h fs =>
      match j with
      | TNull => match h with HNone => zero_enc E f t | _ => Dom end
      | TObj m => struct_step f h fs m
      | _ => Bad
      end
    | TyRef n => match assoc n (e_types E) with Some t' => reenc E f t' j | None => Dom end
    | TyAny => Dom
    | TyObject =>
      match j with
      | TObj m => object_step f j m
      | TNull => Dom
      | _ => Bad
      end
    end.
  Proof. destruct t; reflexivity. Qed.

  Lemma zero_enc_S f : forall t z, zero_enc E f t = Ok z -> zero_enc E (S f) t = Ok z.
  Proof.
    induction f as [|f IH]; intros t z H; [discriminate|].
    rewrite zero_enc_eq in H. rewrite zero_enc_eq.
    destruct t as [l|t'|t'|t'|h fs|n| |]; try exact H.
    - (* struct *)
      destruct h; try exact H.
      apply rbind_ok in H. destruct H as (fv & Hfv & H).
      erewrite rmap_mono; [exact H| |exact Hfv].
      intros fd y _ Hy. apply rbind_ok in Hy. destruct Hy as (v & Hv & Hy).
      rewrite (IH _ _ Hv). exact Hy.
    - (* ref *)
      destruct (assoc n (e_types E)); [|discriminate]. now apply IH.
  Qed.

  Lemma reenc_S f : forall t j r, reenc E f t j = Ok r -> reenc E (S f) t j = Ok r.
  Proof.
    induction f as [|f IH]; intros t j r H; [discriminate|].
    rewrite reenc_eq in H. rewrite reenc_eq.
    destruct t as [l|t'|t'|t'|h fs|n| |].
    - exact H.
    - destruct j; auto.
    - destruct j; auto.
      apply rbind_ok in H. destruct H as (l' & Hl & H).
      erewrite rmap_mono; [exact H| |exact Hl]. intros; now apply IH.
    - destruct j; auto.
      apply rbind_ok in H. destruct H as (l' & Hl & H).
      erewrite rmap_mono; [exact H| |exact Hl].
      intros kv y _ Hy. apply rbind_ok in Hy. destruct Hy as (v & Hv & Hy). rewrite (IH _ _ _ Hv). exact Hy.
    - destruct j; auto.
      + destruct h; auto. now apply zero_enc_S.
      + unfold struct_step in *.
        destruct (negb (members_in_domain (map f_name fs ++ hook_names h) m)); [discriminate|].
        apply rbind_ok in H. destruct H as (fv & Hfv & H).
        erewrite rmap_mono; [exact H| |exact Hfv].
        intros fd y _ Hy. cbv beta in *. destruct (assoc (f_name fd) m).
        * apply rbind_ok in Hy. destruct Hy as (v & Hv & Hy). rewrite (IH _ _ _ Hv). exact Hy.
        * apply rbind_ok in Hy. destruct Hy as (v & Hv & Hy). rewrite (zero_enc_S _ _ _ Hv). exact Hy.
    - destruct (assoc n (e_types E)); [|discriminate]. now apply IH.
    - exact H.
    - destruct j; auto. unfold object_step in *.
      destruct (negb (members_in_domain [schema_key] m)); auto.
      destruct (assoc schema_key m) as [[| | |s| |]|]; auto.
      destruct s as [|c s]; auto.
      destruct (assoc (c :: s) (e_schemas E)) as [t'|]; auto.
      assert (G : forall t'', (if negb (payload_ok E t'') then Dom
                 else if has_null_element (depth (TObj m)) (TObj m) then Bad
                 else rbind (reenc E f t'' (TObj m))
                   (fun v => match v with
                             | TObj [] => Dom
                             | TObj ms => Ok (TObj ((schema_key, TStr (c :: s)) :: ms))
                             | _ => Dom
                             end)) = Ok r ->
               (if negb (payload_ok E t'') then Dom
                 else if has_null_element (depth (TObj m)) (TObj m) then Bad
                 else rbind (reenc E (S f) t'' (TObj m))
                   (fun v => match v with
                             | TObj [] => Dom
                             | TObj ms => Ok (TObj ((schema_key, TStr (c :: s)) :: ms))
                             | _ => Dom
                             end)) = Ok r).
      { intros t'' G. destruct (negb (payload_ok E t'')); auto.
        destruct (has_null_element (depth (TObj m)) (TObj m)); auto.
        apply rbind_ok in G. destruct G as (v & Hv & G). rewrite (IH _ _ _ Hv). exact G. }
      destruct t'; auto.
  Qed.

  Lemma reenc_mono f f' t j r : reenc E f t j = Ok r -> (f <= f')%nat -> reenc E f' t j = Ok r.
  Proof. intros H L. induction L; auto. now apply reenc_S. Qed.

  Lemma zero_enc_mono f f' t z : zero_enc E f t = Ok z -> (f <= f')%nat -> zero_enc E f' t = Ok z.
  Proof. intros H L. induction L; auto. now apply zero_enc_S. Qed.
End Mono.

(* ------------------------------------------------------------------------------------------ *)
(* leaves                                                                                      *)
(* ------------------------------------------------------------------------------------------ *)
Lemma digit_byte_nonzero d : 1 <= d <= 9 -> digit_byte d <> b_zero.
Proof.
  intros H E. assert (D : dval (digit_byte d) = d) by (apply dval_digit_byte; lia).
  rewrite E in D. vm_compute in D. lia.
Qed.

Lemma digits_aux_lead fuel : forall z, 0 < z < 2 ^ Z.of_nat fuel ->
  exists d r, digits_aux fuel z [] = d :: r /\ d <> b_zero.
Proof.
  induction fuel; intros z Hz.
  - cbn in Hz. lia.
  - rewrite Nat2Z.inj_succ, Z.pow_succ_r in Hz by lia.
    cbn [digits_aux]. destruct (z <? 10) eqn:E.
    + eexists _, _. split; [reflexivity|]. apply digit_byte_nonzero. lia.
    + rewrite digits_aux_acc. destruct (IHfuel (z / 10)) as (d & r & -> & Hd); [lia|].
      eexists _, _. split; [reflexivity|exact Hd].
Qed.

Lemma digits_of_lead z : 0 < z -> exists d r, digits_of z = d :: r /\ d <> b_zero.
Proof. intros H. apply digits_aux_lead. pose proof (digits_of_fuel z). lia. Qed.

Lemma byte_eqb_neq a b : a <> b -> Byte.eqb a b = false.
Proof. intros H. destruct (Byte.eqb a b) eqn:E; auto. apply byte_eqb_eq in E. contradiction. Qed.

(* the text of a non-negative integer *)
Lemma digits_of_text z : 0 <= z ->
  json_int_text (digits_of z) = true /\ has_minus (digits_of z) = false /\ trim_minus (digits_of z) = digits_of z.
Proof.
  intros Hz. pose proof (digits_of_digits z Hz) as D.
  assert (Hm : has_minus (digits_of z) = false /\ trim_minus (digits_of z) = digits_of z).
  { destruct (digits_of z) as [|d r] eqn:Ed; [auto|].
    cbn [all_digits forallb] in D. apply andb_true_iff in D. destruct D as [D _].
    destruct (is_digit_not_special d D) as (M & _). cbn [has_minus trim_minus]. rewrite M. auto. }
  destruct Hm as [Hm Ht]. split; [|auto].
  unfold json_int_text. rewrite Ht.
  destruct (Z.eq_dec z 0) as [->|Hn]; [reflexivity|].
  destruct (digits_of_lead z) as (d & r & Ed & Hd); [lia|].
  rewrite Ed in *. rewrite D. rewrite (byte_eqb_neq _ _ Hd). cbn. now rewrite orb_true_r.
Qed.

Lemma print_int_text z :
  json_int_text (print_int z) = true /\ has_minus (print_int z) = (z <? 0) /\
  value_of_digits (trim_minus (print_int z)) = Z.abs z.
Proof.
  unfold print_int. destruct (z <? 0) eqn:E.
  - destruct (digits_of_text (- z)) as (J & M & T); [lia|].
    assert (Hj : json_int_text (b_minus :: digits_of (- z)) = json_int_text (digits_of (- z))).
    { unfold json_int_text at 1. change (trim_minus (b_minus :: digits_of (- z))) with (digits_of (- z)).
      unfold json_int_text. rewrite T. reflexivity. }
    rewrite Hj. split; [auto|]. split; [reflexivity|].
    change (trim_minus (b_minus :: digits_of (- z))) with (digits_of (- z)).
    rewrite digits_of_value; lia.
  - destruct (digits_of_text z) as (J & M & T); [lia|].
    split; [auto|]. split; [auto|]. rewrite T, digits_of_value; lia.
Qed.

Lemma reenc_int_print (sg : bool) bits z :
  1 <= bits ->
  (if sg then - 2 ^ (bits - 1) <= z < 2 ^ (bits - 1) else 0 <= z < 2 ^ bits) ->
  reenc_int sg bits (print_int z) = Ok (TNum (print_int z)).
Proof.
  intros Hb Hr. unfold reenc_int. destruct (print_int_text z) as (J & M & V).
  rewrite J, M, V. cbn [negb].
  destruct sg.
  - destruct (z <? 0) eqn:E.
    + replace (- Z.abs z) with z by lia.
      destruct ((- 2 ^ (bits - 1) <=? z) && (z <? 2 ^ (bits - 1))) eqn:R; auto.
      apply andb_false_iff in R. destruct R; lia.
    + replace (Z.abs z) with z by lia.
      destruct ((- 2 ^ (bits - 1) <=? z) && (z <? 2 ^ (bits - 1))) eqn:R; auto.
      apply andb_false_iff in R. destruct R; lia.
  - destruct (z <? 0) eqn:E; [lia|].
    replace (Z.abs z) with z by lia. destruct (z <? 2 ^ bits) eqn:R; auto. lia.
Qed.

Lemma reenc_int_idem sg bits s j' : 1 <= bits ->
  reenc_int sg bits s = Ok j' -> reenc_leaf (LInt sg bits) j' = Ok j'.
Proof.
  intros Hb H. unfold reenc_int in H.
  destruct (json_int_text s) eqn:J; [|discriminate]. cbn [negb] in H.
  set (u := value_of_digits (trim_minus s)) in *.
  destruct sg.
  - destruct ((- 2 ^ (bits - 1) <=? (if has_minus s then - u else u)) &&
              ((if has_minus s then - u else u) <? 2 ^ (bits - 1))) eqn:R; [|discriminate].
    inversion H; subst j'. cbn [reenc_leaf]. apply reenc_int_print; auto.
    apply andb_true_iff in R. lia.
  - destruct (has_minus s) eqn:M.
    + destruct (u =? 0); discriminate.
    + destruct (u <? 2 ^ bits) eqn:R; [|discriminate].
      inversion H; subst j'. cbn [reenc_leaf]. apply reenc_int_print; auto.
      assert (0 <= u).
      { unfold u. unfold json_int_text in J.
        destruct (trim_minus s) as [|d r] eqn:T; [discriminate|].
        destruct (all_digits (d :: r)) eqn:A; [|discriminate].
        pose proof (vod_bounds _ A). lia. }
      lia.
Qed.

Lemma parse_fixed_ok s a : parse_amount_fixed s = Some a -> amount_ok a = true.
Proof.
  intros H. apply parse_fixed_iff in H. destruct H as (_ & F & ->). exact F.
Qed.

Lemma zero_leaf_texts :
  reenc_leaf LAmount (TStr [b_zero]) = Ok (TStr [b_zero]) /\
  reenc_leaf LPercentage (TStr text_zero_pct) = Ok (TStr text_zero_pct) /\
  reenc_leaf LDate (TStr text_zero_date) = Ok (TStr text_zero_date) /\
  canonical_float [b_zero] = true.
Proof. vm_compute. auto. Qed.

Lemma reenc_leaf_idem l j j' : leaf_wfb l = true -> reenc_leaf l j = Ok j' -> reenc_leaf l j' = Ok j'.
Proof.
  intros W H. destruct zero_leaf_texts as (ZA & ZP & ZD & ZF).
  destruct l.
  - (* LStr *) destruct j; try discriminate; inversion H; reflexivity.
  - (* LBool *) destruct j; try discriminate; inversion H; reflexivity.
  - (* LInt *) cbn [leaf_wfb] in W. apply Z.leb_le in W.
    destruct j; try discriminate.
    + inversion H. cbn [reenc_leaf]. change num_zero with (TNum (print_int 0)).
      cbn [reenc_leaf]. apply reenc_int_print; auto.
      assert (0 < 2 ^ (bits - 1)) by (apply Z.pow_pos_nonneg; lia).
      assert (0 < 2 ^ bits) by (apply Z.pow_pos_nonneg; lia).
      destruct signed; lia.
    + cbn [reenc_leaf] in H. eapply reenc_int_idem; eauto.
  - (* LFloat *) destruct j; try discriminate. cbn [reenc_leaf] in H.
    destruct (canonical_float raw) eqn:C; [|discriminate]. inversion H; subst. cbn [reenc_leaf]. now rewrite C.
  - (* LAmount *)
    assert (G : forall s, match parse_amount_fixed s with
                          | Some a => if amount_string_fixed_panics a then Dom else Ok (TStr (print_amount_fixed a))
                          | None => if eqb_bytes s text_null then Dom else Bad
                          end = Ok j' -> reenc_leaf LAmount j' = Ok j').
    { intros s G. destruct (parse_amount_fixed s) as [a|] eqn:P; [|destruct (eqb_bytes s text_null); discriminate].
      destruct (amount_string_fixed_panics a) eqn:Pa; [discriminate|]. inversion G; subst j'.
      cbn [reenc_leaf]. rewrite (parse_print_fixed a (parse_fixed_ok _ _ P)), Pa. reflexivity. }
    destruct j; try discriminate; try (eapply G; exact H).
    inversion H; subst. exact ZA.
  - (* LPercentage *)
    assert (G : forall s, match parse_pct_fixed s with
                          | Some p => if eqb_bytes (print_pct_fixed p) s then Ok (TStr s) else Dom
                          | None => Dom
                          end = Ok j' -> reenc_leaf LPercentage j' = Ok j').
    { intros s G. destruct (parse_pct_fixed s) as [p|] eqn:P; [|discriminate].
      destruct (eqb_bytes (print_pct_fixed p) s) eqn:Q; [|discriminate]. inversion G; subst j'.
      cbn [reenc_leaf]. rewrite P, Q. reflexivity. }
    destruct j; try discriminate; try (eapply G; exact H).
    inversion H; subst. exact ZP.
  - (* LDate *) destruct j; try discriminate. cbn [reenc_leaf] in H.
    destruct (parse_date s) as [d|] eqn:P; [|discriminate]. inversion H; subst j'.
    destruct (print_parse_date _ _ P) as [Q _]. rewrite Q. cbn [reenc_leaf]. rewrite P, Q. reflexivity.
  - (* LDateTime *) destruct j; try discriminate. cbn [reenc_leaf] in H.
    destruct (parse_datetime s) as [c|] eqn:P; [|discriminate]. inversion H; subst. cbn [reenc_leaf].
    destruct (parse_datetime_canonical _ _ P) as [_ ->]. reflexivity.
  - (* LUUID *) destruct j; try discriminate.
    + inversion H. reflexivity.
    + cbn [reenc_leaf] in H.
      destruct (parse_uuid s) as [c|] eqn:P; [|discriminate]. inversion H; subst. cbn [reenc_leaf].
      destruct (parse_uuid_canonical _ _ P) as [_ ->]. reflexivity.
  - (* LSig *) destruct j; try discriminate. cbn [reenc_leaf] in H.
    destruct (canonical_sig s) eqn:C; [|discriminate]. inversion H; subst. cbn [reenc_leaf]. now rewrite C.
  - (* LBytes *) destruct j; try discriminate.
    + inversion H. reflexivity.
    + cbn [reenc_leaf] in H.
      destruct (canonical_b64 s) eqn:C; [|discriminate]. inversion H; subst. cbn [reenc_leaf]. now rewrite C.
  - discriminate.
Qed.

Lemma zero_leaf_idem l z : leaf_wfb l = true -> zero_leaf l = Ok z -> reenc_leaf l z = Ok z.
Proof.
  intros W H. destruct zero_leaf_texts as (ZA & ZP & ZD & ZF).
  destruct l; try discriminate; inversion H; subst z; auto.
  all: try (apply (reenc_leaf_idem (LInt signed bits) TNull); auto; fail).
  all: try (cbn [reenc_leaf]; unfold num_zero; cbn [reenc_leaf]; now rewrite ZF).
Qed.
