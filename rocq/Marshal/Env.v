(* The environment of the typed-marshalling model instantiated with the REGENERATED tables:
   Gen/GoTypes.v (Go types by reflection) and Gen/Regimes.v (regimes as registered). Model only. *)
From Coq Require Import String.
From Coq Require Import List ZArith Strings.Byte Bool.
From Verif Require Import Base.Wire Defs.DefTypes Marshal.Typed Gen.GoTypes Gen.Regimes.
Import ListNotations.

(* tax.Regimes().For(code): the regime whose country, or one of whose alternative codes, is the code *)
Definition regime_for (c : bytes) : option bytes :=
  match find (fun nr => let r := snd nr in
                        eqb_bytes (rg_country r) c || existsb (fun a => eqb_bytes a c) (rg_alt_countries r))
             in_code_regimes with
  | Some nr => Some (rg_country (snd nr))
  | None => None
  end.

Definition go_env : env := mkEnv go_types go_schemas regime_for.

(* deep enough for every registered type: the recursion is cut by the tree's own depth *)
Definition fuel_for (j : tv) : nat := (6 * depth j + 40)%nat.

Definition reenc_schema (id : bytes) (j : tv) : res tv :=
  match assoc id go_schemas with
  | Some t => reenc go_env (fuel_for j) t j
  | None => Bad
  end.
Definition reenc_type (n : bytes) (j : tv) : res tv := reenc go_env (fuel_for j) (TyRef n) j.
