(* C04 / C08 - the fuel of the typed-marshalling model (Marshal/Typed.v): six units per level of the tree
   read plus the cost of the type (rcost, Marshal/Wf.v, over tables checked by cost_okb) is enough: with
   that much fuel the model gives the result any larger fuel gives. *)
From Coq Require Import String.
From Coq Require Import List ZArith Strings.Byte Bool Lia.
From Verif Require Import Base.Wire Marshal.Typed Marshal.Wf Marshal.TypedLeafProofs Marshal.TypedProofs.
Import ListNotations.

Section Fuel.
  Variable E : env.
  Variables zt rt : list (bytes * nat).
  Variable oc : nat.
  Hypothesis OK : cost_okb E zt rt oc = true.

  Lemma ok_types n t : assoc n (e_types E) = Some t ->
    (zcost zt t <= lookup_nat n zt)%nat /\ (rcost zt rt oc t <= lookup_nat n rt)%nat.
  Proof.
    intros A. apply assoc_In in A. unfold cost_okb in OK. apply andb_true_iff in OK. destruct OK as [H _].
    rewrite forallb_forall in H. specialize (H _ A). cbn [fst snd] in H.
    apply andb_true_iff in H. destruct H as [H1 H2]. apply Nat.leb_le in H1, H2. auto.
  Qed.

  Lemma ok_schemas id t : assoc id (e_schemas E) = Some t -> t = TyObject \/ (rcost zt rt oc t <= oc)%nat.
  Proof.
    intros A. apply assoc_In in A. unfold cost_okb in OK. apply andb_true_iff in OK. destruct OK as [_ H].
    rewrite forallb_forall in H. specialize (H _ A). cbn [fst snd] in H.
    apply orb_true_iff in H. destruct H as [H|H].
    - left. destruct t; try discriminate. reflexivity.
    - right. now apply Nat.leb_le.
  Qed.

  Lemma zcost_pos t : (1 <= zcost zt t)%nat.
  Proof. destruct t; cbn [zcost]; lia. Qed.

  Lemma rcost_pos t : (1 <= rcost zt rt oc t)%nat.
  Proof. destruct t; cbn [rcost]; lia. Qed.

  Lemma zcost_field h fs fd : In fd fs -> (S (zcost zt (f_ty fd)) <= zcost zt (TyStruct h fs))%nat.
  Proof.
    intros H. cbn [zcost]. apply le_n_S. induction fs as [|a fs IH]; [contradiction|].
    destruct H as [->|H].
    - destruct fd; cbn [f_ty]. lia.
    - specialize (IH H). lia.
  Qed.

  Lemma rcost_field h fs fd : In fd fs ->
    (S (Nat.max (rcost zt rt oc (f_ty fd) - 6) (zcost zt (f_ty fd))) <= rcost zt rt oc (TyStruct h fs))%nat.
  Proof.
    intros H. cbn [rcost]. apply le_n_S. etransitivity; [|apply Nat.le_max_r].
    induction fs as [|a fs IH]; [contradiction|].
    destruct H as [->|H].
    - destruct fd; cbn [f_ty]. lia.
    - specialize (IH H). lia.
  Qed.

  Lemma rcost_struct_zero h fs : (S (zcost zt (TyStruct h fs)) <= rcost zt rt oc (TyStruct h fs))%nat.
  Proof. cbn [rcost]. apply le_n_S. apply Nat.le_max_l. Qed.

  Lemma zsuff F : forall t z f, zero_enc E F t = Ok z -> (zcost zt t <= f)%nat -> zero_enc E f t = Ok z.
  Proof.
    induction F as [|F IH]; intros t z f H L; [discriminate|].
    destruct f as [|f]; [pose proof (zcost_pos t); lia|].
    rewrite zero_enc_eq in H. rewrite zero_enc_eq.
    destruct t as [l|t'|t'|t'|h fs|n| |]; try exact H.
    - destruct h; try exact H.
      apply rbind_ok in H. destruct H as (fv & Hfv & H).
      erewrite rmap_mono; [exact H| |exact Hfv].
      intros fd y Hin Hy. apply rbind_ok in Hy. destruct Hy as (v & Hv & Hy).
      rewrite (IH _ _ f Hv); [exact Hy|]. pose proof (zcost_field HNone fs fd Hin). lia.
    - destruct (assoc n (e_types E)) as [t'|] eqn:A; [|discriminate].
      apply IH; auto. destruct (ok_types _ _ A). cbn [zcost] in L. lia.
  Qed.

  Lemma rsuff F : forall t j r f, reenc E F t j = Ok r ->
    (6 * depth j + rcost zt rt oc t <= f)%nat -> reenc E f t j = Ok r.
  Proof.
    induction F as [|F IH]; intros t j r f H L; [discriminate|].
    destruct f as [|f]; [pose proof (rcost_pos t); lia|].
    rewrite reenc_eq in H. rewrite reenc_eq.
    destruct t as [l|t'|t'|t'|h fs|n| |].
    - exact H.
    - cbn [rcost] in L. destruct j; auto; apply IH; auto; lia.
    - cbn [rcost] in L. destruct j; auto.
      apply rbind_ok in H. destruct H as (l' & Hl & H).
      erewrite rmap_mono; [exact H| |exact Hl]. intros x y Hin Hy. apply IH; auto.
      pose proof (depth_arr_le x l Hin). cbn [depth] in L. lia.
    - cbn [rcost] in L. destruct j; auto.
      apply rbind_ok in H. destruct H as (l' & Hl & H).
      erewrite rmap_mono; [exact H| |exact Hl].
      intros kv y Hin Hy. apply rbind_ok in Hy. destruct Hy as (v & Hv & Hy).
      rewrite (IH _ _ _ f Hv); [exact Hy|].
      pose proof (depth_obj_le kv m (dedup_last_In _ _ Hin)). cbn [depth] in L. lia.
    - destruct j; auto.
      + destruct h; auto. apply (zsuff _ _ _ _ H). pose proof (rcost_struct_zero HNone fs). lia.
      + unfold struct_step in *.
        destruct (negb (members_in_domain (map f_name fs ++ hook_names h) m)); [discriminate|].
        apply rbind_ok in H. destruct H as (fv & Hfv & H).
        erewrite rmap_mono; [exact H| |exact Hfv].
        intros fd y Hin Hy. cbv beta in *. pose proof (rcost_field h fs fd Hin) as Lf.
        destruct (assoc (f_name fd) m) as [x|] eqn:A.
        * apply rbind_ok in Hy. destruct Hy as (v & Hv & Hy). rewrite (IH _ _ _ f Hv); [exact Hy|].
          apply assoc_In in A. pose proof (depth_obj_le _ _ A). cbn [snd depth] in *. lia.
        * apply rbind_ok in Hy. destruct Hy as (v & Hv & Hy). rewrite (zsuff _ _ _ f Hv); [exact Hy|]. lia.
    - destruct (assoc n (e_types E)) as [t'|] eqn:A; [|discriminate].
      apply IH; auto. destruct (ok_types _ _ A). cbn [rcost] in L. lia.
    - exact H.
    - destruct j; auto. unfold object_step in *.
      destruct (negb (members_in_domain [schema_key] m)); auto.
      destruct (assoc schema_key m) as [[| | |s| |]|]; auto.
      destruct s as [|c s]; auto.
      destruct (assoc (c :: s) (e_schemas E)) as [t'|] eqn:As; auto.
      destruct (ok_schemas _ _ As) as [->|Le]; [exact H|].
      assert (G : (if negb (payload_ok E t') then Dom
                 else if has_null_element (depth (TObj m)) (TObj m) then Bad
                 else rbind (reenc E F t' (TObj m))
                   (fun v => match v with
                             | TObj [] => Dom
                             | TObj ms => Ok (TObj ((schema_key, TStr (c :: s)) :: ms))
                             | _ => Dom
                             end)) = Ok r ->
               (if negb (payload_ok E t') then Dom
                 else if has_null_element (depth (TObj m)) (TObj m) then Bad
                 else rbind (reenc E f t' (TObj m))
                   (fun v => match v with
                             | TObj [] => Dom
                             | TObj ms => Ok (TObj ((schema_key, TStr (c :: s)) :: ms))
                             | _ => Dom
                             end)) = Ok r).
      { intros G. destruct (negb (payload_ok E t')); auto.
        destruct (has_null_element (depth (TObj m)) (TObj m)); auto.
        apply rbind_ok in G. destruct G as (v & Hv & G). rewrite (IH _ _ _ f Hv); [exact G|].
        cbn [rcost] in L. lia. }
      destruct t'; auto.
  Qed.
End Fuel.
