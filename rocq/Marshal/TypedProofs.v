(* C04 / C08 - proofs about the typed-marshalling model (Marshal/Typed.v): what was written is read back
   and written identically (reenc_idempotent), unknown members are ignored, the member order of an
   object read at a struct type is irrelevant, written members follow the declaration order and written
   map keys are strictly sorted.  Hypotheses: the environment and the type are well formed
   (Marshal/Wf.v; a data theorem for the generated environment in Marshal/EnvProofs.v). *)
From Coq Require Import String.
From Coq Require Import List ZArith Strings.Byte Bool Lia Permutation Sorting.Sorted.
From Verif Require Import Base.Wire Json.Utf8 Json.JsonProofs Num.Amount Num.Codec Defs.DefTypes
  Marshal.Typed Marshal.Wf Marshal.TypedLeafProofs.
Import ListNotations.
Open Scope Z_scope.

(* ------------------------------------------------------------------------------------------ *)
(* sub-lists and names                                                                         *)
(* ------------------------------------------------------------------------------------------ *)
Lemma sublist_refl {A} (l : list A) : sublist l l.
Proof. induction l; [apply sub_nil | apply sub_keep; auto]. Qed.

Lemma sublist_In {A} (l l' : list A) x : sublist l l' -> In x l -> In x l'.
Proof. induction 1; cbn; intros; auto. destruct H0; auto. Qed.

Lemma sublist_map {A B} (f : A -> B) l l' : sublist l l' -> sublist (map f l) (map f l').
Proof. induction 1; cbn; [apply sub_nil | apply sub_skip; auto | apply sub_keep; auto]. Qed.

Lemma sublist_filter {A} (P : A -> bool) l : sublist (filter P l) l.
Proof. induction l; cbn; [apply sub_nil|]. destruct (P a); [apply sub_keep | apply sub_skip]; auto. Qed.

Lemma sublist_app {A} (a a' b b' : list A) : sublist a a' -> sublist b b' -> sublist (a ++ b) (a' ++ b').
Proof. induction 1; cbn; intros; auto; [apply sub_skip | apply sub_keep]; auto. Qed.

Lemma sublist_nil {A} (l : list A) : sublist [] l.
Proof. induction l; [apply sub_nil | apply sub_skip; auto]. Qed.

Lemma sublist_forallb {A} (P : A -> bool) l l' : sublist l l' -> forallb P l' = true -> forallb P l = true.
Proof.
  induction 1; cbn; auto; rewrite !andb_true_iff; intros [? ?]; auto.
Qed.

Lemma sublist_existsb {A} (P : A -> bool) l l' : sublist l l' -> existsb P l = true -> existsb P l' = true.
Proof.
  induction 1; cbn; auto; rewrite !orb_true_iff; intros; auto. destruct H0; auto.
Qed.

Lemma sublist_ndf l l' : sublist l l' -> names_distinct_fold l' = true -> names_distinct_fold l = true.
Proof.
  induction 1; cbn; auto; rewrite !andb_true_iff; intros [N D]; auto.
  split; auto. destruct (existsb (fold_eq x) l) eqn:Ex; auto.
  rewrite (sublist_existsb _ _ _ H Ex) in N. discriminate.
Qed.

Lemma ndf_spec l : names_distinct_fold l = true ->
  forall a b, In a l -> In b l -> fold_eq a b = true -> a = b.
Proof.
  induction l as [|k r IH]; cbn; [contradiction|].
  rewrite andb_true_iff, negb_true_iff. intros [N D] a b Ha Hb F.
  assert (X : forall c, In c r -> fold_eq k c = false).
  { intros c Hc. destruct (fold_eq k c) eqn:Ec; auto.
    assert (existsb (fold_eq k) r = true) by (apply existsb_exists; eauto). congruence. }
  destruct Ha as [->|Ha], Hb as [->|Hb]; auto.
  - rewrite (X _ Hb) in F. discriminate.
  - rewrite fold_eq_sym, (X _ Ha) in F. discriminate.
Qed.

Lemma ndf_NoDup l : names_distinct_fold l = true -> NoDup l.
Proof.
  induction l as [|k r IH]; cbn; [constructor|].
  rewrite andb_true_iff, negb_true_iff. intros [N D]. constructor; auto.
  intros Hin. assert (existsb (fold_eq k) r = true).
  { apply existsb_exists. exists k. split; auto. apply fold_eq_refl. }
  congruence.
Qed.

Lemma existsb_perm {A} (P : A -> bool) l l' : Permutation l l' -> existsb P l = existsb P l'.
Proof.
  induction 1; cbn; auto.
  - now rewrite IHPermutation.
  - destruct (P x), (P y); reflexivity.
  - congruence.
Qed.

Lemma forallb_perm {A} (P : A -> bool) l l' : Permutation l l' -> forallb P l = forallb P l'.
Proof.
  induction 1; cbn; auto.
  - now rewrite IHPermutation.
  - destruct (P x), (P y); reflexivity.
  - congruence.
Qed.

Lemma ndf_perm l l' : Permutation l l' -> names_distinct_fold l = names_distinct_fold l'.
Proof.
  induction 1; cbn; auto.
  - rewrite IHPermutation, (existsb_perm _ _ _ H). reflexivity.
  - rewrite (fold_eq_sym y x).
    destruct (fold_eq x y), (existsb (fold_eq x) l), (existsb (fold_eq y) l); reflexivity.
  - congruence.
Qed.

Lemma names_exact_spec L ks : names_exact L ks = true <->
  (forall m n, In m ks -> In n L -> fold_eq m n = true -> m = n).
Proof.
  unfold names_exact. rewrite forallb_forall. split.
  - intros H m n Hm Hn F. specialize (H m Hm). rewrite forallb_forall in H. specialize (H n Hn).
    rewrite F in H. cbn in H. now apply eqb_bytes_eq.
  - intros H m Hm. apply forallb_forall. intros n Hn.
    destruct (fold_eq m n) eqn:F; cbn; auto. apply eqb_bytes_eq. auto.
Qed.

Lemma mid_spec L m : members_in_domain L m = true <->
  forallb is_ascii (map fst m) = true /\ names_distinct_fold (map fst m) = true /\ names_exact L (map fst m) = true.
Proof. unfold members_in_domain. rewrite !andb_true_iff. tauto. Qed.

Lemma mid_sublist L m m' : sublist (map fst m) (map fst m') -> members_in_domain L m' = true -> members_in_domain L m = true.
Proof.
  intros S. rewrite !mid_spec. intros (A & D & X). repeat split.
  - eapply sublist_forallb; eauto.
  - eapply sublist_ndf; eauto.
  - unfold names_exact in *. eapply sublist_forallb; eauto.
Qed.

Lemma mid_perm L m m' : Permutation m m' -> members_in_domain L m = members_in_domain L m'.
Proof.
  intros P. assert (Q : Permutation (map fst m) (map fst m')) by now apply Permutation_map.
  unfold members_in_domain, names_exact.
  rewrite (forallb_perm _ _ _ Q), (ndf_perm _ _ Q).
  f_equal. apply forallb_perm, Q.
Qed.

Lemma NoDup_app_disj {A} (l r : list A) x : NoDup (l ++ r) -> In x l -> In x r -> False.
Proof.
  induction l as [|a l IH]; cbn; [contradiction|]. intros N Hl Hr. inversion N; subst.
  destruct Hl as [->|Hl]; [apply H1, in_or_app; auto | eauto].
Qed.

(* ---- association lists ---- *)
Lemma assoc_none {A} k (l : list (bytes * A)) : ~ In k (map fst l) -> assoc k l = None.
Proof.
  induction l as [|[k' v] l IH]; cbn; auto. intros H.
  rewrite eqb_bytes_neq by (intros ->; auto). auto.
Qed.

Lemma assoc_In {A} k (l : list (bytes * A)) v : assoc k l = Some v -> In (k, v) l.
Proof.
  induction l as [|[k' v'] l IH]; cbn; [discriminate|].
  destruct (eqb_bytes k k') eqn:Ek.
  - apply eqb_bytes_eq in Ek. intros H. inversion H; subst. auto.
  - auto.
Qed.

Lemma assoc_app {A} k (a b : list (bytes * A)) :
  assoc k (a ++ b) = match assoc k a with Some v => Some v | None => assoc k b end.
Proof. induction a as [|[k' v] a IH]; cbn; auto. destruct (eqb_bytes k k'); auto. Qed.

Lemma assoc_perm {A} k (l l' : list (bytes * A)) : Permutation l l' -> NoDup (map fst l) -> assoc k l = assoc k l'.
Proof.
  induction 1; cbn; intros N; auto.
  - destruct x as [k' v]. inversion N; subst. rewrite IHPermutation; auto.
  - destruct x as [k1 v1], y as [k2 v2]. cbn in N.
    destruct (eqb_bytes k k2) eqn:E2, (eqb_bytes k k1) eqn:E1; auto.
    apply eqb_bytes_eq in E1, E2. subst. inversion N; subst. exfalso. apply H1. cbn. auto.
  - rewrite IHPermutation1 by auto. apply IHPermutation2.
    eapply Permutation_NoDup; [apply Permutation_map; exact H | exact N].
Qed.

(* ------------------------------------------------------------------------------------------ *)
(* well-formed types                                                                           *)
(* ------------------------------------------------------------------------------------------ *)
Lemma ty_wfb_struct h fs : ty_wfb (TyStruct h fs) = true ->
  struct_wfb h fs = true /\ forall fd, In fd fs -> ty_wfb (f_ty fd) = true.
Proof.
  cbn [ty_wfb]. rewrite andb_true_iff. intros [S G]. split; auto. clear S.
  induction fs as [|fd fs IH]; [contradiction|].
  apply andb_true_iff in G. destruct G as [G1 G2].
  intros fd' [->|Hin]; [destruct fd'; exact G1 | apply IH; auto].
Qed.

Lemma struct_wfb_spec h fs : struct_wfb h fs = true ->
  forallb is_ascii (map f_name fs) = true /\
  names_distinct_fold (map f_name fs ++ hook_names h) = true /\
  (forall n fd, In n (hook_targets h) -> In fd fs -> f_name fd = n -> f_ty fd = TyLeaf LStr).
Proof.
  unfold struct_wfb. rewrite !andb_true_iff. intros [[[A D] T] _]. repeat split; auto.
  intros n fd Hn Hfd Hname. rewrite forallb_forall in T. specialize (T n Hn).
  unfold target_ok in T. rewrite forallb_forall in T. specialize (T fd Hfd).
  rewrite Hname, eqb_bytes_refl in T. cbn in T.
  destruct (f_ty fd) as [[]| | | | | | |]; try discriminate. reflexivity.
Qed.

Lemma struct_wfb_any h fs fd : struct_wfb h fs = true -> In fd fs -> f_ty fd = TyAny -> f_omit fd = true.
Proof.
  unfold struct_wfb. rewrite !andb_true_iff. intros [_ H] Hin T. rewrite forallb_forall in H.
  specialize (H fd Hin). rewrite T in H. exact H.
Qed.

Lemma env_wfb_types E n t : env_wfb E = true -> assoc n (e_types E) = Some t ->
  ty_wfb t = true /\ is_any_ty t = false.
Proof.
  unfold env_wfb. rewrite andb_true_iff. intros [H _] A. apply assoc_In in A.
  rewrite forallb_forall in H. specialize (H (n, t) A). cbn [snd] in H.
  apply andb_true_iff in H. destruct H as [H1 H2]. apply negb_true_iff in H2. auto.
Qed.

Lemma env_wfb_schemas E n t : env_wfb E = true -> assoc n (e_schemas E) = Some t -> ty_wfb t = true.
Proof.
  unfold env_wfb. rewrite andb_true_iff. intros [_ H] A. apply assoc_In in A.
  rewrite forallb_forall in H. apply (H (n, t) A).
Qed.

(* ------------------------------------------------------------------------------------------ *)
(* emitted members                                                                             *)
(* ------------------------------------------------------------------------------------------ *)
Definition emitted (p : field * tv) : bool := negb (f_omit (fst p) && enc_empty (f_ty (fst p)) (snd p)).

Lemma emit_cons p fv : emit (p :: fv) = if emitted p then (f_name (fst p), snd p) :: emit fv else emit fv.
Proof. unfold emit, emitted. cbn [filter]. destruct (negb _); reflexivity. Qed.

Lemma emit_keys_sublist fv : sublist (map fst (emit fv)) (map f_name (map fst fv)).
Proof.
  induction fv as [|p fv IH]; [apply sub_nil|]. rewrite emit_cons. cbn [map].
  destruct (emitted p); [apply sub_keep | apply sub_skip]; auto.
Qed.

Lemma assoc_emit fv : NoDup (map f_name (map fst fv)) -> forall fd v, In (fd, v) fv ->
  assoc (f_name fd) (emit fv) = if emitted (fd, v) then Some v else None.
Proof.
  induction fv as [|[fd0 v0] fv IH]; [contradiction|]. cbn [map fst]. intros N fd v Hin.
  inversion N as [|? ? Hn N']; subst. rewrite emit_cons. cbn [fst snd].
  destruct Hin as [Heq|Hin].
  - inversion Heq; subst. destruct (emitted (fd, v)); cbn [assoc].
    + now rewrite eqb_bytes_refl.
    + apply assoc_none. intros H. apply Hn. eapply sublist_In; [apply emit_keys_sublist | exact H].
  - assert (Hne : f_name fd <> f_name fd0).
    { intros Heq. apply Hn. rewrite <- Heq. apply in_map. apply (in_map fst) in Hin. exact Hin. }
    destruct (emitted (fd0, v0)); cbn [assoc]; [rewrite (eqb_bytes_neq _ _ Hne)|]; auto.
Qed.

(* ---- two field lists that are written the same way ---- *)
Definition rel1 (p q : field * tv) : Prop :=
  fst p = fst q /\
  (snd p = snd q \/
   (f_omit (fst p) = true /\ enc_empty (f_ty (fst p)) (snd p) = true /\ enc_empty (f_ty (fst p)) (snd q) = true)).
Definition R := Forall2 rel1.

Lemma rel1_refl p : rel1 p p.
Proof. split; auto. Qed.

Lemma R_refl l : R l l.
Proof. induction l; constructor; auto using rel1_refl. Qed.

Lemma rel1_emitted p q : rel1 p q -> emitted p = emitted q /\ (emitted p = true -> p = q).
Proof.
  destruct p as [f v], q as [g w]. intros [H1 H2]. cbn [fst snd] in *. subst g.
  destruct H2 as [->|(O & A & B)]; [auto|].
  unfold emitted. cbn [fst snd]. rewrite O, A, B. split; [reflexivity | discriminate].
Qed.

Lemma R_emit a b : R a b -> emit a = emit b.
Proof.
  induction 1 as [|p q a b H _ IH]; auto. rewrite !emit_cons, IH.
  destruct (rel1_emitted _ _ H) as [E1 E2]. rewrite <- E1.
  destruct (emitted p); auto. rewrite (E2 eq_refl). reflexivity.
Qed.

Lemma R_fst a b : R a b -> map fst a = map fst b.
Proof. induction 1 as [|p q a b [H _] _ IH]; cbn; congruence. Qed.

Lemma R_set n v a b : R a b -> R (set_field n v a) (set_field n v b).
Proof.
  induction 1 as [|[f x] [g y] a b H HR IH]; [constructor|]. cbn [set_field].
  pose proof H as [H1 _]. cbn [fst] in H1. subst g.
  destruct (eqb_bytes (f_name f) n); constructor; auto. apply rel1_refl.
Qed.

Lemma R_get n a b : R a b ->
  (get_field n a = None /\ get_field n b = None) \/
  (exists fd v w, get_field n a = Some v /\ get_field n b = Some w /\ In (fd, v) a /\ f_name fd = n /\ rel1 (fd, v) (fd, w)).
Proof.
  induction 1 as [|[f x] [g y] a b H HR IH]; [left; auto|]. cbn [get_field].
  pose proof H as [H1 _]. cbn [fst] in H1. subst g.
  destruct (eqb_bytes (f_name f) n) eqn:En.
  - right. apply eqb_bytes_eq in En. exists f, x, y. cbn [In]. auto 7.
  - destruct IH as [IH|(fd & v & w & A & B & C & D & F)]; [left; auto|].
    right. exists fd, v, w. cbn [In]. auto 7.
Qed.

Lemma set_field_fst n v l : map fst (set_field n v l) = map fst l.
Proof.
  induction l as [|[f x] l IH]; auto. cbn [set_field]. destruct (eqb_bytes (f_name f) n); cbn; congruence.
Qed.

Lemma get_set_same n v l x : get_field n l = Some x -> get_field n (set_field n v l) = Some v.
Proof.
  induction l as [|[f y] l IH]; [discriminate|]. cbn [get_field set_field].
  destruct (eqb_bytes (f_name f) n) eqn:En; cbn [get_field]; rewrite En; auto.
Qed.

Lemma get_set_other n n' v l : n <> n' -> get_field n' (set_field n v l) = get_field n' l.
Proof.
  intros Hne. induction l as [|[f y] l IH]; auto. cbn [get_field set_field].
  destruct (eqb_bytes (f_name f) n) eqn:En; cbn [get_field]; auto.
  - apply eqb_bytes_eq in En. rewrite eqb_bytes_neq by congruence. reflexivity.
  - rewrite IH. reflexivity.
Qed.

Lemma set_get_id n v l : get_field n l = Some v -> set_field n v l = l.
Proof.
  induction l as [|[f y] l IH]; auto. cbn [get_field set_field].
  destruct (eqb_bytes (f_name f) n) eqn:En.
  - intros H. inversion H. reflexivity.
  - intros H. rewrite IH; auto.
Qed.

Lemma get_field_In n l v : get_field n l = Some v -> exists fd, In (fd, v) l /\ f_name fd = n.
Proof.
  induction l as [|[f y] l IH]; [discriminate|]. cbn [get_field].
  destruct (eqb_bytes (f_name f) n) eqn:En.
  - intros H. inversion H; subst. apply eqb_bytes_eq in En. exists f. cbn. auto.
  - intros H. destruct (IH H) as (fd & ? & ?). exists fd. cbn. auto.
Qed.

(* an empty value has no members *)
Lemma empty_no_member t v k : enc_empty t v = true -> member k v = None.
Proof.
  destruct v; auto. destruct t as [l| | | | | | |]; cbn; try discriminate.
  - destruct l; discriminate.
  - destruct m; [reflexivity | discriminate].
Qed.

(* ------------------------------------------------------------------------------------------ *)
(* reading a written struct back                                                               *)
(* ------------------------------------------------------------------------------------------ *)
Lemma Forall2_map_l {A B C} (g : A -> B) (Q : B -> C -> Prop) l l' :
  Forall2 (fun x y => Q (g x) y) l l' -> Forall2 Q (map g l) l'.
Proof. induction 1; cbn; constructor; auto. Qed.

Lemma Forall2_impl {A B} (P Q : A -> B -> Prop) l l' :
  (forall x y, P x y -> Q x y) -> Forall2 P l l' -> Forall2 Q l l'.
Proof. intros H. induction 1; constructor; auto. Qed.

(* an empty value: the zero value of its type is written, and is empty too *)
Lemma empty_zero E f t v : enc_empty t v = true ->
  exists z, zero_enc E (S f) t = Ok z /\ enc_empty t z = true.
Proof.
  intros H. rewrite zero_enc_eq.
  destruct t as [l| | | | | | |]; cbn [enc_empty] in H; try discriminate; try (exists TNull; split; reflexivity).
  destruct l; try (destruct v; discriminate); cbn [zero_leaf]; eexists; split; reflexivity.
Qed.

Section Struct.
  Variable E : env.

  (* a field value that is read back as written *)
  Definition Good (f : nat) (p : field * tv) : Prop :=
    (emitted p = true -> reenc E f (f_ty (fst p)) (snd p) = Ok (snd p)) /\
    (emitted p = false -> exists z, zero_enc E f (f_ty (fst p)) = Ok z /\ enc_empty (f_ty (fst p)) z = true).

  Lemma Good_fuel f p : Good f p -> exists f', f = S f'.
  Proof.
    intros [G1 G2]. destruct f; [|eauto]. destruct (emitted p).
    - specialize (G1 eq_refl). discriminate.
    - destruct (G2 eq_refl) as (z & Hz & _). discriminate.
  Qed.

  Lemma Good_str f fd s : f_ty fd = TyLeaf LStr -> Good (S f) (fd, TStr s).
  Proof.
    intros T. split; cbn [fst snd]; rewrite T; intros _.
    - reflexivity.
    - exists (TStr []). split; reflexivity.
  Qed.

  Definition second_read (f : nat) (m : list (bytes * tv)) (fd : field) : res (field * tv) :=
    match assoc (f_name fd) m with
    | Some x => rbind (reenc E f (f_ty fd) x) (fun v => Ok (fd, v))
    | None => rbind (zero_enc E f (f_ty fd)) (fun v => Ok (fd, v))
    end.

  Lemma second_pass f fv : NoDup (map f_name (map fst fv)) -> Forall (Good f) fv ->
    exists fv2, rmap (second_read f (emit fv)) (map fst fv) = Ok fv2 /\ R fv fv2.
  Proof.
    intros N G.
    assert (X : Forall (fun p => exists q, second_read f (emit fv) (fst p) = Ok q /\ rel1 p q) fv).
    { apply Forall_forall. intros [fd v] Hin. rewrite Forall_forall in G. destruct (G _ Hin) as [G1 G2].
      unfold second_read. cbn [fst snd] in *. rewrite (assoc_emit fv N fd v Hin).
      destruct (emitted (fd, v)) eqn:Em.
      - rewrite (G1 eq_refl). cbn. exists (fd, v). split; auto using rel1_refl.
      - destruct (G2 eq_refl) as (z & Hz & Ez). rewrite Hz. cbn. exists (fd, z). split; auto.
        split; auto. right. cbn [fst snd]. unfold emitted in Em. cbn [fst snd] in Em.
        apply negb_false_iff, andb_true_iff in Em. tauto. }
    apply Forall_exists_Forall2 in X. destruct X as (fv2 & X). exists fv2. split.
    - apply rmap_of_Forall2. apply Forall2_map_l. eapply Forall2_impl; [|exact X]. cbv beta. tauto.
    - eapply Forall2_impl; [|exact X]. cbv beta. tauto.
  Qed.

  (* ---- hooks ---- *)
  Lemma set_good f fs n s fv : map fst fv = fs ->
    (forall fd, In fd fs -> f_name fd = n -> f_ty fd = TyLeaf LStr) ->
    Forall (Good f) fv -> Forall (Good f) (set_field n (TStr s) fv).
  Proof.
    intros <-. induction fv as [|[fd x] fv IH]; intros T G; [constructor|].
    inversion G as [|? ? G1 G2]; subst. cbn [set_field].
    destruct (eqb_bytes (f_name fd) n) eqn:En.
    - constructor; auto. destruct (Good_fuel _ _ G1) as (f' & ->).
      apply Good_str. apply T; [cbn; auto | now apply eqb_bytes_eq].
    - constructor; auto. apply IH; auto. intros; apply T; cbn; auto.
  Qed.

  Lemma move_string_good f fs legacy target m fv fv' : map fst fv = fs ->
    (forall fd, In fd fs -> f_name fd = target -> f_ty fd = TyLeaf LStr) ->
    move_string legacy target m fv = Ok fv' -> Forall (Good f) fv ->
    Forall (Good f) fv' /\ map fst fv' = fs.
  Proof.
    intros Hfs T H G. unfold move_string in H.
    destruct (assoc legacy m) as [[| | |s| |]|]; try discriminate; try (inversion H; subst; auto; fail).
    destruct s; inversion H; subst; auto. split; [eapply set_good; eauto | apply set_field_fst].
  Qed.

  Lemma hook_good f h fs m fv fv' : struct_wfb h fs = true -> map fst fv = fs ->
    apply_hook E h m fv = Ok fv' -> Forall (Good f) fv -> Forall (Good f) fv' /\ map fst fv' = fs.
  Proof.
    intros W Hfs H G. destruct (struct_wfb_spec _ _ W) as (_ & _ & T).
    destruct h; cbn [apply_hook] in H.
    - inversion H; subst; auto.
    - (* HInvoice *)
      assert (T' : forall fd, In fd fs -> f_name fd = bs "$regime" -> f_ty fd = TyLeaf LStr)
        by (intros; eapply T; eauto; cbn; auto).
      destruct (get_field (bs "$regime") fv) as [[| | |s| |]|]; try (inversion H; subst; auto; fail).
      destruct s; [|inversion H; subst; auto].
      destruct (e_regime E (supplier_country fv)); inversion H; subst; auto.
      split; [eapply set_good; eauto | apply set_field_fst].
    - (* HTax *)
      destruct (assoc (bs "tags") m) as [[| | | |l|]|]; try discriminate; try (inversion H; subst; auto; fail).
      destruct l; [inversion H; subst; auto | discriminate].
    - (* HAdvance *)
      eapply move_string_good; eauto. intros; eapply T; eauto; cbn; auto.
    - (* HOnline *)
      apply rbind_ok in H. destruct H as (fv1 & H1 & H2).
      destruct (move_string_good f fs _ _ _ _ _ Hfs (fun fd Hi Hn => T _ fd (or_introl eq_refl) Hi Hn) H1 G) as [G1 F1].
      eapply move_string_good; eauto. intros; eapply T; eauto; cbn; auto.
    - (* HCombo *)
      assert (T' : forall fd, In fd fs -> f_name fd = bs "rate" -> f_ty fd = TyLeaf LStr)
        by (intros; eapply T; eauto; cbn; auto).
      destruct (assoc (bs "tags") m) as [[| | | |l|]|]; try discriminate; try (inversion H; subst; auto; fail).
      destruct l as [|[| | |k| |] r]; try discriminate; try (inversion H; subst; auto; fail).
      destruct (negb (all_strings r)); [discriminate|].
      destruct (get_field (bs "rate") fv) as [[| | |s| |]|]; try (inversion H; subst; auto; fail).
      destruct s; inversion H; subst; auto.
      split; [eapply set_good; eauto | apply set_field_fst].
  Qed.

  (* ---- the hooks on the second reading ---- *)
  Lemma legacy_absent h fs fv k : struct_wfb h fs = true -> map fst fv = fs -> In k (hook_names h) ->
    assoc k (emit fv) = None.
  Proof.
    intros W Hfs Hk. destruct (struct_wfb_spec _ _ W) as (_ & D & _).
    apply assoc_none. intros Hin.
    apply (sublist_In _ _ _ (emit_keys_sublist fv)) in Hin. rewrite Hfs in Hin.
    eapply NoDup_app_disj; [apply ndf_NoDup; exact D | exact Hin | exact Hk].
  Qed.

  Lemma sc_set v fv : supplier_country (set_field (bs "$regime") v fv) = supplier_country fv.
  Proof. unfold supplier_country. rewrite get_set_other; [reflexivity | discriminate]. Qed.

  Lemma sc_R a b : R a b -> supplier_country a = supplier_country b.
  Proof.
    intros HR. unfold supplier_country.
    destruct (R_get (bs "supplier") a b HR) as [[-> ->]|(fd & v & w & -> & -> & _ & _ & [_ H])]; auto.
    cbn [fst snd] in H. destruct H as [->|(_ & A & B)]; auto.
    rewrite (empty_no_member _ _ _ A), (empty_no_member _ _ _ B). reflexivity.
  Qed.

  Definition invoice_settled (fv : list (field * tv)) : Prop :=
    match get_field (bs "$regime") fv with
    | Some (TStr []) => e_regime E (supplier_country fv) = None \/ e_regime E (supplier_country fv) = Some []
    | _ => True
    end.

  Lemma invoice_fix m fv fv' : apply_hook E HInvoice m fv = Ok fv' -> invoice_settled fv'.
  Proof.
    cbn [apply_hook]. unfold invoice_settled.
    destruct (get_field (bs "$regime") fv) as [x|] eqn:G.
    2:{ intros H; inversion H; subst. now rewrite G. }
    assert (Other : x <> TStr [] -> Ok fv = Ok fv' ->
                    match get_field (bs "$regime") fv' with
                    | Some (TStr []) => e_regime E (supplier_country fv') = None \/ e_regime E (supplier_country fv') = Some []
                    | _ => True end).
    { intros Hx H; inversion H; subst. rewrite G. destruct x as [| | |[|]| |]; auto. congruence. }
    destruct x as [| | |s| |]; try (apply Other; discriminate).
    destruct s as [|c s]; [|apply Other; discriminate].
    destruct (e_regime E (supplier_country fv)) as [c|] eqn:Er.
    - intros H; inversion H; subst. rewrite (get_set_same _ _ _ _ G), sc_set.
      destruct c; auto.
    - intros H; inversion H; subst. rewrite G. auto.
  Qed.

  Lemma invoice_second fs m fv fv2 : map fst fv = fs ->
    (forall fd, In fd fs -> f_name fd = bs "$regime" -> f_ty fd = TyLeaf LStr) ->
    invoice_settled fv -> R fv fv2 -> apply_hook E HInvoice m fv2 = Ok fv2.
  Proof.
    intros Hfs T S HR. cbn [apply_hook]. unfold invoice_settled in S.
    rewrite <- (sc_R _ _ HR).
    destruct (R_get (bs "$regime") fv fv2 HR) as [[A B]|(fd & v & w & A & B & Hin & Hn & [_ H])].
    - rewrite B. reflexivity.
    - rewrite B. rewrite A in S. cbn [fst snd] in H.
      assert (Tfd : f_ty fd = TyLeaf LStr).
      { apply T; auto. rewrite <- Hfs. apply (in_map fst) in Hin. exact Hin. }
      assert (Hvw : v = w).
      { destruct H as [?|(_ & X & Y)]; auto. rewrite Tfd in X, Y. cbn in X, Y.
        destruct v as [| | |[|]| |]; try discriminate. destruct w as [| | |[|]| |]; try discriminate. reflexivity. }
      subst w. destruct v as [| | |s| |]; auto. destruct s; auto.
      destruct S as [->| ->]; auto. rewrite (set_get_id _ _ _ B). reflexivity.
  Qed.

  Lemma hook_second h fs m fv fv' fv2 : struct_wfb h fs = true -> map fst fv' = fs ->
    apply_hook E h m fv = Ok fv' -> R fv' fv2 ->
    apply_hook E h (emit fv') fv2 = Ok fv2.
  Proof.
    intros W Hfs H HR. pose proof (legacy_absent h fs fv' ) as L.
    destruct h; cbn [apply_hook].
    - reflexivity.
    - apply (invoice_second fs (emit fv') fv' fv2 Hfs); auto.
      + destruct (struct_wfb_spec _ _ W) as (_ & _ & T). intros fd Hi Hn. apply (T _ fd (or_introl eq_refl) Hi Hn).
      + apply (invoice_fix m fv fv' H).
    - rewrite L; auto. cbn; auto.
    - unfold move_string. rewrite L; auto. cbn; auto.
    - unfold move_string. rewrite L; auto; [|cbn; auto]. cbn [rbind]. rewrite L; auto. cbn; auto.
    - rewrite L; auto. cbn; auto.
  Qed.

  (* the struct step on its own output *)
  Lemma struct_reread f h fs fv : struct_wfb h fs = true -> map fst fv = fs ->
    Forall (Good f) fv ->
    (forall fv2, R fv fv2 -> apply_hook E h (emit fv) fv2 = Ok fv2) ->
    struct_step E f h fs (emit fv) = Ok (TObj (emit fv)).
  Proof.
    intros W Hfs G Hk. destruct (struct_wfb_spec _ _ W) as (A & D & _).
    unfold struct_step.
    assert (Dn : names_distinct_fold (map f_name fs) = true).
    { eapply sublist_ndf; [|exact D]. rewrite <- (app_nil_r (map f_name fs)) at 1.
      apply sublist_app; [apply sublist_refl | apply sublist_nil]. }
    assert (Sub : sublist (map fst (emit fv)) (map f_name fs)).
    { rewrite <- Hfs. apply emit_keys_sublist. }
    assert (M : members_in_domain (map f_name fs ++ hook_names h) (emit fv) = true).
    { apply mid_spec. repeat split.
      - eapply sublist_forallb; eauto.
      - eapply sublist_ndf; eauto.
      - apply names_exact_spec. intros a b Ha Hb F. eapply (ndf_spec _ D); auto.
        apply in_or_app. left. eapply sublist_In; eauto. }
    rewrite M. cbn [negb].
    destruct (second_pass f fv) as (fv2 & R2 & HR); auto.
    { rewrite Hfs. now apply ndf_NoDup. }
    rewrite Hfs in R2. unfold second_read in R2. rewrite R2. cbn [rbind].
    rewrite (Hk _ HR). cbn [rbind]. rewrite (R_emit _ _ HR). reflexivity.
  Qed.
End Struct.

(* ------------------------------------------------------------------------------------------ *)
(* maps: later duplicates win, keys sorted                                                     *)
(* ------------------------------------------------------------------------------------------ *)
Section KV.
  Context {A : Type}.
  Definition kvle (a b : bytes * A) : Prop := bytes_ltb (fst b) (fst a) = false.

  Lemma insert_kv_perm (x : bytes * A) l : Permutation (insert_kv x l) (x :: l).
  Proof.
    induction l as [|y l IH]; cbn; auto.
    destruct (bytes_ltb (fst y) (fst x)); auto.
    eapply perm_trans; [apply perm_skip, IH | apply perm_swap].
  Qed.

  Lemma sort_kv_cons (x : bytes * A) l : sort_kv (x :: l) = insert_kv x (sort_kv l).
  Proof. reflexivity. Qed.

  Lemma sort_kv_perm (l : list (bytes * A)) : Permutation (sort_kv l) l.
  Proof.
    induction l; [constructor|]. rewrite sort_kv_cons. eapply perm_trans; [apply insert_kv_perm | auto].
  Qed.

  Lemma insert_kv_sorted (x : bytes * A) l : StronglySorted kvle l -> StronglySorted kvle (insert_kv x l).
  Proof.
    induction 1 as [|y l HS IH HF]; cbn.
    - constructor; constructor.
    - destruct (bytes_ltb (fst y) (fst x)) eqn:E.
      + constructor; auto.
        eapply Permutation_Forall; [symmetry; apply insert_kv_perm|].
        constructor; auto. unfold kvle. now apply bytes_ltb_asym.
      + constructor; [constructor; auto|].
        constructor; auto.
        eapply Forall_impl; [|exact HF]. intros z Hz. unfold kvle in *.
        eapply bytes_le_trans; eauto.
  Qed.

  Lemma sort_kv_sorted (l : list (bytes * A)) : StronglySorted kvle (sort_kv l).
  Proof. induction l; [constructor | rewrite sort_kv_cons; now apply insert_kv_sorted]. Qed.

  Lemma sort_kv_of_sorted (l : list (bytes * A)) : StronglySorted kvle l -> sort_kv l = l.
  Proof.
    induction 1 as [|x l HS IH HF]; auto. rewrite sort_kv_cons, IH.
    destruct l as [|y l]; cbn; auto.
    inversion HF; subst. unfold kvle in H1. now rewrite H1.
  Qed.

  Lemma existsb_key k (r : list (bytes * A)) :
    existsb (fun kv => eqb_bytes k (fst kv)) r = true <-> In k (map fst r).
  Proof.
    rewrite existsb_exists, in_map_iff. split.
    - intros (kv & Hin & Ek). apply eqb_bytes_eq in Ek. eauto.
    - intros (kv & Ek & Hin). exists kv. split; auto. apply eqb_bytes_eq. auto.
  Qed.

  Lemma dedup_last_In (m : list (bytes * A)) kv : In kv (dedup_last m) -> In kv m.
  Proof.
    induction m as [|[k v] m IH]; cbn; auto.
    destruct (existsb _ m); cbn; intros; tauto.
  Qed.

  Lemma dedup_last_NoDup (m : list (bytes * A)) : NoDup (map fst (dedup_last m)).
  Proof.
    induction m as [|[k v] m IH]; cbn; [constructor|].
    destruct (existsb (fun kv => eqb_bytes k (fst kv)) m) eqn:Ex; auto.
    cbn. constructor; auto. intros Hin. apply in_map_iff in Hin. destruct Hin as (kv & Ek & Hin).
    apply dedup_last_In in Hin.
    assert (existsb (fun kv => eqb_bytes k (fst kv)) m = true).
    { apply existsb_key. apply in_map_iff. eauto. }
    congruence.
  Qed.

  Lemma dedup_last_id (m : list (bytes * A)) : NoDup (map fst m) -> dedup_last m = m.
  Proof.
    induction m as [|[k v] m IH]; cbn; auto. intros N. inversion N; subst.
    destruct (existsb (fun kv => eqb_bytes k (fst kv)) m) eqn:Ex.
    - apply existsb_key in Ex. contradiction.
    - now rewrite IH.
  Qed.

  Lemma sorted_strict (l : list (bytes * A)) : StronglySorted kvle l -> NoDup (map fst l) ->
    StronglySorted (fun a b => bytes_ltb a b = true) (map fst l).
  Proof.
    induction 1 as [|x l HS IH HF]; cbn; intros N; [constructor|].
    inversion N; subst. constructor; auto.
    apply Forall_forall. intros k Hk. apply in_map_iff in Hk. destruct Hk as (kv & <- & Hin).
    rewrite Forall_forall in HF. specialize (HF kv Hin). unfold kvle in HF.
    destruct (bytes_ltb (fst x) (fst kv)) eqn:L; auto.
    exfalso. apply H1. rewrite (bytes_ltb_total _ _ L HF). now apply in_map.
  Qed.
End KV.

(* ------------------------------------------------------------------------------------------ *)
(* a struct reads its members by name                                                          *)
(* ------------------------------------------------------------------------------------------ *)
Lemma rbind_ext {A B} (r : res A) (f g : A -> res B) : (forall a, f a = g a) -> rbind r f = rbind r g.
Proof. intros H. destruct r; cbn; auto. Qed.

Section ByName.
  Variable E : env.

  Lemma apply_hook_ext h m m' fv : (forall k, In k (hook_names h) -> assoc k m = assoc k m') ->
    apply_hook E h m fv = apply_hook E h m' fv.
  Proof.
    intros H. destruct h; cbn [apply_hook]; auto.
    - rewrite (H (bs "tags")) by (cbn; auto). reflexivity.
    - unfold move_string. rewrite (H (bs "desc")) by (cbn; auto). reflexivity.
    - unfold move_string. rewrite (H (bs "name")), (H (bs "addr")) by (cbn; auto). reflexivity.
    - rewrite (H (bs "tags")) by (cbn; auto). reflexivity.
  Qed.

  Lemma struct_step_ext f h fs m m' :
    members_in_domain (map f_name fs ++ hook_names h) m = members_in_domain (map f_name fs ++ hook_names h) m' ->
    (members_in_domain (map f_name fs ++ hook_names h) m = true ->
     forall k, In k (map f_name fs ++ hook_names h) -> assoc k m = assoc k m') ->
    struct_step E f h fs m = struct_step E f h fs m'.
  Proof.
    intros H1 H2. unfold struct_step. rewrite <- H1.
    destruct (members_in_domain (map f_name fs ++ hook_names h) m) eqn:M; [|reflexivity]. cbn [negb].
    specialize (H2 eq_refl).
    erewrite rmap_ext.
    - apply rbind_ext. intros fv. rewrite (apply_hook_ext h m m'); auto.
      intros k Hk. apply H2, in_or_app. auto.
    - intros fd Hin. cbv beta. rewrite (H2 (f_name fd)); auto. apply in_or_app. left. now apply in_map.
  Qed.

  Lemma reenc_struct_ext fuel h fs m m' :
    members_in_domain (map f_name fs ++ hook_names h) m = members_in_domain (map f_name fs ++ hook_names h) m' ->
    (members_in_domain (map f_name fs ++ hook_names h) m = true ->
     forall k, In k (map f_name fs ++ hook_names h) -> assoc k m = assoc k m') ->
    reenc E fuel (TyStruct h fs) (TObj m) = reenc E fuel (TyStruct h fs) (TObj m').
  Proof. intros. destruct fuel; auto. rewrite !reenc_eq. now apply struct_step_ext. Qed.

  (* T2: members whose names are not (up to case) names the struct listens to are ignored *)
  Theorem ignores_unknown_members fuel h fs m1 x m2 :
    (forall kv n, In kv x -> In n (map f_name fs ++ hook_names h) -> fold_eq (fst kv) n = false) ->
    members_in_domain (map f_name fs ++ hook_names h) (m1 ++ x ++ m2) = true ->
    reenc E fuel (TyStruct h fs) (TObj (m1 ++ x ++ m2)) = reenc E fuel (TyStruct h fs) (TObj (m1 ++ m2)).
  Proof.
    intros U M. apply reenc_struct_ext.
    - rewrite M. symmetry. eapply mid_sublist; [|exact M].
      rewrite !map_app. apply sublist_app; [apply sublist_refl|].
      rewrite <- (app_nil_l (map fst m2)) at 1. apply sublist_app; [apply sublist_nil | apply sublist_refl].
    - intros _ k Hk. rewrite !assoc_app.
      destruct (assoc k m1); auto.
      rewrite assoc_none; auto. intros Hin. apply in_map_iff in Hin. destruct Hin as (kv & <- & Hin).
      specialize (U kv (fst kv) Hin Hk). rewrite fold_eq_refl in U. discriminate.
  Qed.

  (* T3: the order of the members is irrelevant *)
  Theorem struct_member_order_irrelevant fuel h fs m m2 : Permutation m m2 ->
    reenc E fuel (TyStruct h fs) (TObj m2) = reenc E fuel (TyStruct h fs) (TObj m).
  Proof.
    intros P. symmetry. apply reenc_struct_ext.
    - now apply mid_perm.
    - intros M k _. apply assoc_perm; auto. apply mid_spec in M. destruct M as (_ & D & _).
      now apply ndf_NoDup.
  Qed.

  (* the fields of the result of the hooks are the fields they were given *)
  Lemma hook_fst h m fv fv' : apply_hook E h m fv = Ok fv' -> map fst fv' = map fst fv.
  Proof.
    assert (MS : forall l t m fv fv', move_string l t m fv = Ok fv' -> map fst fv' = map fst fv).
    { intros l t m0 fv0 fv0' H. unfold move_string in H.
      destruct (assoc l m0) as [[| | |s| |]|]; try discriminate; try (inversion H; subst; auto; fail).
      destruct s; inversion H; subst; auto using set_field_fst. }
    intros H. destruct h; cbn [apply_hook] in H.
    - inversion H; auto.
    - destruct (get_field (bs "$regime") fv) as [[| | |s| |]|]; try (inversion H; subst; auto; fail).
      destruct s; [|inversion H; subst; auto].
      destruct (e_regime E (supplier_country fv)); inversion H; subst; auto using set_field_fst.
    - destruct (assoc (bs "tags") m) as [[| | | |l|]|]; try discriminate; try (inversion H; subst; auto; fail).
      destruct l; [inversion H; subst; auto | discriminate].
    - eauto.
    - apply rbind_ok in H. destruct H as (fv1 & H1 & H2). rewrite (MS _ _ _ _ _ H2). eauto.
    - destruct (assoc (bs "tags") m) as [[| | | |l|]|]; try discriminate; try (inversion H; subst; auto; fail).
      destruct l as [|[| | |k| |] r]; try discriminate; try (inversion H; subst; auto; fail).
      destruct (negb (all_strings r)); [discriminate|].
      destruct (get_field (bs "rate") fv) as [[| | |s| |]|]; try (inversion H; subst; auto; fail).
      destruct s; inversion H; subst; auto using set_field_fst.
  Qed.

  Lemma rmap_tag_fst {X} (g : field -> res X) fs fv :
    rmap (fun fd => rbind (g fd) (fun v => Ok (fd, v))) fs = Ok fv -> map fst fv = fs.
  Proof.
    intros H. apply rmap_ok in H. induction H; cbn; auto.
    apply rbind_ok in H. destruct H as (v & _ & Hv). inversion Hv; subst. cbn. congruence.
  Qed.

  Lemma zero_struct_shape f fs z : zero_enc E f (TyStruct HNone fs) = Ok z ->
    exists fv, map fst fv = fs /\ z = TObj (emit fv) /\
      exists f', f = S f' /\ Forall (fun p => zero_enc E f' (f_ty (fst p)) = Ok (snd p)) fv.
  Proof.
    destruct f as [|f']; [discriminate|]. rewrite zero_enc_eq. intros H.
    apply rbind_ok in H. destruct H as (fv & Hfv & H). inversion H; subst.
    exists fv. split; [apply (rmap_tag_fst (fun fd => zero_enc E f' (f_ty fd)) _ _ Hfv)|]. split; auto. exists f'. split; auto.
    apply rmap_ok in Hfv. clear H. induction Hfv; constructor; auto.
    apply rbind_ok in H. destruct H as (v & Hv & Hy). inversion Hy; subst. exact Hv.
  Qed.

  Lemma struct_first_fst f m fs fv :
    rmap (fun fd => match assoc (f_name fd) m with
                    | Some x => rbind (reenc E f (f_ty fd) x) (fun v => Ok (fd, v))
                    | None => rbind (zero_enc E f (f_ty fd)) (fun v => Ok (fd, v))
                    end) fs = Ok fv -> map fst fv = fs.
  Proof.
    intros H. apply rmap_ok in H. induction H; cbn; auto.
    assert (fst y = x).
    { destruct (assoc (f_name x) m); apply rbind_ok in H; destruct H as (v & _ & Hv); inversion Hv; reflexivity. }
    congruence.
  Qed.

  (* T4: the written members are a sub-list, in order, of the declared fields *)
  Theorem written_members_in_declaration_order fuel h fs j m :
    reenc E fuel (TyStruct h fs) j = Ok (TObj m) -> sublist (map fst m) (map f_name fs).
  Proof.
    destruct fuel as [|f]; [discriminate|]. rewrite reenc_eq.
    destruct j; try discriminate.
    - destruct h; try discriminate. intros H.
      destruct (zero_struct_shape _ _ _ H) as (fv & Hfs & Hz & _). inversion Hz; subst.
      apply emit_keys_sublist.
    - unfold struct_step.
      destruct (negb (members_in_domain (map f_name fs ++ hook_names h) m0)); [discriminate|].
      intros H. apply rbind_ok in H. destruct H as (fv & Hfv & H).
      apply rbind_ok in H. destruct H as (fv' & Hh & H). inversion H; subst.
      apply struct_first_fst in Hfv. rewrite <- Hfv, <- (hook_fst _ _ _ _ Hh).
      apply emit_keys_sublist.
  Qed.
End ByName.

(* ------------------------------------------------------------------------------------------ *)
(* null array elements                                                                         *)
(* ------------------------------------------------------------------------------------------ *)
Definition NN (v : tv) : Prop := has_null_element (depth v) v = false.

Lemma existsb_false {A} (P : A -> bool) l : existsb P l = false <-> (forall x, In x l -> P x = false).
Proof.
  induction l as [|a l IH]; cbn; [tauto|]. rewrite orb_false_iff, IH. split.
  - intros [H1 H2] x [->|Hx]; auto.
  - intros H. split; auto.
Qed.

Lemma hn_mono n : forall v n', has_null_element n v = false -> (n <= n')%nat -> has_null_element n' v = false.
Proof.
  induction n as [|n IH]; intros v n' H L; [discriminate|].
  destruct n' as [|n']; [lia|]. cbn [has_null_element] in *.
  destruct v; auto.
  - apply orb_false_iff in H. destruct H as [H1 H2]. rewrite H1. cbn.
    rewrite existsb_false in *. intros x Hx. apply IH; [auto | lia].
  - rewrite existsb_false in *. intros x Hx. apply IH; [auto | lia].
Qed.

Lemma depth_arr_le x l : In x l -> (depth x <= fold_right (fun x n => Nat.max (depth x) n) O l)%nat.
Proof. induction l; cbn; [contradiction|]. intros [->|H]; [lia|]. specialize (IHl H). lia. Qed.

Lemma depth_obj_le (kv : bytes * tv) m : In kv m ->
  (depth (snd kv) <= fold_right (fun kv n => Nat.max (depth (snd kv)) n) O m)%nat.
Proof. induction m; cbn; [contradiction|]. intros [->|H]; [lia|]. specialize (IHm H). lia. Qed.

Lemma hn_complete n : forall v, has_null_element n v = false -> NN v.
Proof.
  induction n as [|n IH]; intros v H; [discriminate|]. unfold NN.
  destruct v; try reflexivity; cbn [has_null_element depth] in *.
  - apply orb_false_iff in H. destruct H as [H1 H2]. rewrite H1. cbn.
    rewrite existsb_false in *. intros x Hx. eapply hn_mono; [apply IH; auto | now apply depth_arr_le].
  - rewrite existsb_false in *. intros x Hx. eapply hn_mono; [apply IH; auto | now apply depth_obj_le].
Qed.

Lemma NN_arr l : NN (TArr l) <-> existsb is_tnull l = false /\ forall x, In x l -> NN x.
Proof.
  unfold NN at 1. cbn [depth has_null_element]. rewrite orb_false_iff, !existsb_false. split.
  - intros [H1 H2]. split; auto. intros x Hx. eapply hn_complete; eauto.
  - intros [H1 H2]. split; auto. intros x Hx. eapply hn_mono; [apply H2; auto | now apply depth_arr_le].
Qed.

Lemma NN_obj m : NN (TObj m) <-> forall kv, In kv m -> NN (snd kv).
Proof.
  unfold NN at 1. cbn [depth has_null_element]. rewrite existsb_false. split.
  - intros H kv Hx. eapply hn_complete; eauto.
  - intros H kv Hx. eapply hn_mono; [apply H; auto | now apply depth_obj_le].
Qed.

Definition flat (v : tv) : Prop := match v with TArr _ | TObj _ => False | _ => True end.
Lemma flat_NN v : flat v -> NN v.
Proof. destruct v; cbn; try contradiction; reflexivity. Qed.

Ltac split_result H :=
  repeat (match type of H with
          | (if ?c then _ else _) = _ => destruct c
          | match ?x with Some _ => _ | None => _ end = _ => destruct x
          end); try discriminate H.

Lemma reenc_leaf_flat l j j' : reenc_leaf l j = Ok j' -> flat j' /\ (j' = TNull -> j = TNull).
Proof.
  intros H. destruct l; destruct j; cbn [reenc_leaf] in H; try discriminate H;
    try unfold reenc_int in H; split_result H; inversion H; subst; cbn; auto; split; auto; discriminate.
Qed.

Lemma emit_In fv kv : In kv (emit fv) -> exists p, In p fv /\ kv = (f_name (fst p), snd p).
Proof.
  unfold emit. rewrite in_map_iff. intros (p & <- & Hin). apply filter_In in Hin. exists p. tauto.
Qed.

Lemma NN_emit fv : Forall (fun p => NN (snd p)) fv -> NN (TObj (emit fv)).
Proof.
  intros H. apply NN_obj. intros kv Hin. apply emit_In in Hin. destruct Hin as (p & Hp & ->).
  rewrite Forall_forall in H. apply (H p Hp).
Qed.

Lemma set_NN n s fv : Forall (fun p => NN (snd p)) fv -> Forall (fun p => NN (snd p)) (set_field n (TStr s) fv).
Proof.
  induction 1 as [|[f x] fv H HF IH]; [constructor|]. cbn [set_field].
  destruct (eqb_bytes (f_name f) n); constructor; auto. reflexivity.
Qed.

Section Nulls.
  Variable E : env.

  Lemma hook_NN h m fv fv' : apply_hook E h m fv = Ok fv' ->
    Forall (fun p => NN (snd p)) fv -> Forall (fun p => NN (snd p)) fv'.
  Proof.
    assert (MS : forall l t m fv fv', move_string l t m fv = Ok fv' ->
                 Forall (fun p => NN (snd p)) fv -> Forall (fun p => NN (snd p)) fv').
    { intros l t m0 fv0 fv0' H. unfold move_string in H.
      destruct (assoc l m0) as [[| | |s| |]|]; try discriminate; try (inversion H; subst; auto; fail).
      destruct s; inversion H; subst; auto using set_NN. }
    intros H. destruct h; cbn [apply_hook] in H.
    - inversion H; subst; auto.
    - destruct (get_field (bs "$regime") fv) as [[| | |s| |]|]; try (inversion H; subst; auto; fail).
      destruct s; [|inversion H; subst; auto].
      destruct (e_regime E (supplier_country fv)); inversion H; subst; auto using set_NN.
    - destruct (assoc (bs "tags") m) as [[| | | |l|]|]; try discriminate; try (inversion H; subst; auto; fail).
      destruct l; [inversion H; subst; auto | discriminate].
    - eauto.
    - apply rbind_ok in H. destruct H as (fv1 & H1 & H2). eauto.
    - destruct (assoc (bs "tags") m) as [[| | | |l|]|]; try discriminate; try (inversion H; subst; auto; fail).
      destruct l as [|[| | |k| |] r]; try discriminate; try (inversion H; subst; auto; fail).
      destruct (negb (all_strings r)); [discriminate|].
      destruct (get_field (bs "rate") fv) as [[| | |s| |]|]; try (inversion H; subst; auto; fail).
      destruct s; inversion H; subst; auto using set_NN.
  Qed.

  Lemma zero_NN f : forall t z, zero_enc E f t = Ok z -> NN z.
  Proof.
    induction f as [|f IH]; intros t z H; [discriminate|]. rewrite zero_enc_eq in H.
    destruct t as [l| | | |h fs|n| |]; try (inversion H; reflexivity); try discriminate.
    - destruct l; inversion H; reflexivity.
    - destruct h; try discriminate. apply rbind_ok in H. destruct H as (fv & Hfv & H). inversion H; subst.
      apply NN_emit. apply rmap_ok in Hfv. clear H. induction Hfv; constructor; auto.
      apply rbind_ok in H. destruct H as (v & Hv & Hy). inversion Hy; subst. cbn. eapply IH; eauto.
    - destruct (assoc n (e_types E)); [|discriminate]. eapply IH; eauto.
  Qed.

  Lemma reenc_null f : forall t j, reenc E f t j = Ok TNull -> j = TNull.
  Proof.
    induction f as [|f IH]; intros t j H; [discriminate|]. rewrite reenc_eq in H.
    destruct t as [l|t'|t'|t'|h fs|n| |].
    - apply reenc_leaf_flat in H. destruct H as [_ H]. auto.
    - destruct j; eauto.
    - destruct j; try discriminate; auto. apply rbind_ok in H. destruct H as (? & _ & H). discriminate.
    - destruct j; try discriminate; auto. apply rbind_ok in H. destruct H as (? & _ & H). discriminate.
    - destruct j; try discriminate; auto. unfold struct_step in H.
      destruct (negb _); [discriminate|]. apply rbind_ok in H. destruct H as (? & _ & H).
      apply rbind_ok in H. destruct H as (? & _ & H). discriminate.
    - destruct (assoc n (e_types E)); [|discriminate]. eauto.
    - discriminate.
    - destruct j; try discriminate; auto. unfold object_step in H.
      destruct (negb _); [discriminate|].
      destruct (assoc schema_key m) as [[| | |s| |]|]; try discriminate.
      destruct s; [discriminate|].
      destruct (assoc (b :: s) (e_schemas E)) as [t'|]; [|discriminate].
      assert (G : (if negb (payload_ok E t') then Dom
                   else if has_null_element (depth (TObj m)) (TObj m) then Bad
                   else rbind (reenc E f t' (TObj m))
                     (fun v => match v with
                               | TObj [] => Dom
                               | TObj ms => Ok (TObj ((schema_key, TStr (b :: s)) :: ms))
                               | _ => Dom
                               end)) = Ok TNull -> False).
      { destruct (negb (payload_ok E t')); [discriminate|].
        destruct (has_null_element _ _); [discriminate|]. intros G.
        apply rbind_ok in G. destruct G as (v & _ & G). destruct v as [| | | | |[|]]; discriminate. }
      destruct t'; try (exfalso; exact (G H)). discriminate.
  Qed.

  (* N: null array elements of the output come from null array elements of the input *)
  Lemma reenc_NN f : forall t j j', reenc E f t j = Ok j' -> NN j -> NN j'.
  Proof.
    induction f as [|f IH]; intros t j j' H Hj; [discriminate|]. rewrite reenc_eq in H.
    destruct t as [l|t'|t'|t'|h fs|n| |].
    - apply reenc_leaf_flat in H. apply flat_NN. tauto.
    - destruct j; try (eapply IH; eauto; fail). inversion H. reflexivity.
    - destruct j; try discriminate; [inversion H; reflexivity|].
      apply rbind_ok in H. destruct H as (l' & Hl & H). inversion H; subst. apply rmap_ok in Hl.
      apply NN_arr in Hj. destruct Hj as [Hn Hx]. apply NN_arr. split.
      + apply existsb_false. intros y Hy. destruct (Forall2_In_r _ _ _ _ Hl Hy) as (x & Hxin & Hr).
        destruct y; auto. apply reenc_null in Hr. subst x.
        rewrite existsb_false in Hn. apply (Hn _ Hxin).
      + intros y Hy. destruct (Forall2_In_r _ _ _ _ Hl Hy) as (x & Hxin & Hr). eapply IH; eauto.
    - destruct j; try discriminate; [inversion H; reflexivity|].
      apply rbind_ok in H. destruct H as (m' & Hm & H). inversion H; subst. apply rmap_ok in Hm.
      rewrite NN_obj in Hj. apply NN_obj. intros kv Hkv.
      apply (Permutation_in _ (sort_kv_perm m')) in Hkv.
      destruct (Forall2_In_r _ _ _ _ Hm Hkv) as (kv0 & Hin0 & Hr).
      apply rbind_ok in Hr. destruct Hr as (v & Hv & Hr). inversion Hr; subst. cbn [snd].
      eapply IH; eauto. apply Hj. now apply dedup_last_In.
    - destruct j; try discriminate.
      + destruct h; try discriminate. eapply zero_NN; eauto.
      + unfold struct_step in H. destruct (negb _); [discriminate|].
        apply rbind_ok in H. destruct H as (fv & Hfv & H).
        apply rbind_ok in H. destruct H as (fv' & Hh & H). inversion H; subst.
        apply NN_emit. eapply hook_NN; eauto.
        rewrite NN_obj in Hj. apply rmap_ok in Hfv. clear H Hh.
        induction Hfv as [|fd p fs0 fv0 Hp _ IHf]; constructor; auto.
        destruct (assoc (f_name fd) m) as [x|] eqn:A.
        * apply rbind_ok in Hp. destruct Hp as (v & Hv & Hp). inversion Hp; subst. cbn [snd].
          eapply IH; eauto. apply assoc_In in A. apply (Hj _ A).
        * apply rbind_ok in Hp. destruct Hp as (v & Hv & Hp). inversion Hp; subst. cbn [snd].
          eapply zero_NN; eauto.
    - destruct (assoc n (e_types E)); [|discriminate]. eauto.
    - discriminate.
    - destruct j; try discriminate. unfold object_step in H.
      destruct (negb _); [discriminate|].
      destruct (assoc schema_key m) as [[| | |s| |]|]; try discriminate.
      destruct s; [discriminate|].
      destruct (assoc (b :: s) (e_schemas E)) as [t'|]; [|discriminate].
      assert (G : (if negb (payload_ok E t') then Dom
                   else if has_null_element (depth (TObj m)) (TObj m) then Bad
                   else rbind (reenc E f t' (TObj m))
                     (fun v => match v with
                               | TObj [] => Dom
                               | TObj ms => Ok (TObj ((schema_key, TStr (b :: s)) :: ms))
                               | _ => Dom
                               end)) = Ok j' -> NN j').
      { destruct (negb (payload_ok E t')); [discriminate|].
        destruct (has_null_element _ _); [discriminate|]. intros G.
        apply rbind_ok in G. destruct G as (v & Hv & G).
        destruct v as [| | | | |[|kv ms]]; try discriminate. inversion G; subst.
        apply IH in Hv; auto. rewrite NN_obj in Hv. apply NN_obj.
        intros kv' [<-|Hin]; [reflexivity | auto]. }
      destruct t'; try (exact (G H)). discriminate.
  Qed.
End Nulls.

(* ------------------------------------------------------------------------------------------ *)
(* T1: what was written is read back and written identically                                   *)
(* ------------------------------------------------------------------------------------------ *)
Lemma schema_key_ascii : is_ascii schema_key = true.
Proof. reflexivity. Qed.

Section Idem.
  Variable E : env.
  Hypothesis WE : env_wfb E = true.

  Section Step.
    Variable f : nat.
    Hypothesis IHZ : forall t z, ty_wfb t = true -> is_any_ty t = false -> zero_enc E f t = Ok z -> reenc E f t z = Ok z.
    Hypothesis IHR : forall t j j', ty_wfb t = true -> reenc E f t j = Ok j' -> reenc E f t j' = Ok j'.

    Lemma Good_of_zero h fs fd v : struct_wfb h fs = true -> In fd fs -> ty_wfb (f_ty fd) = true ->
      zero_enc E f (f_ty fd) = Ok v -> Good E f (fd, v).
    Proof.
      intros W Hin Wt H. split; cbn [fst snd]; intros Em.
      - destruct (is_any_ty (f_ty fd)) eqn:An; [|auto].
        exfalso. destruct (f_ty fd) eqn:T; try discriminate.
        pose proof (struct_wfb_any _ _ _ W Hin T) as O.
        destruct f; [discriminate|]. rewrite zero_enc_eq in H. inversion H; subst v.
        unfold emitted in Em. cbn [fst snd] in Em. rewrite O, T in Em. discriminate.
      - exists v. split; auto. unfold emitted in Em. cbn [fst snd] in Em.
        apply negb_false_iff, andb_true_iff in Em. tauto.
    Qed.

    Lemma Good_of_reenc fd x v : ty_wfb (f_ty fd) = true -> reenc E f (f_ty fd) x = Ok v -> Good E f (fd, v).
    Proof.
      intros Wt H. split; cbn [fst snd]; intros Em; [eauto|].
      unfold emitted in Em. cbn [fst snd] in Em. apply negb_false_iff, andb_true_iff in Em.
      destruct f; [discriminate|]. eapply empty_zero. apply Em.
    Qed.

    Lemma first_pass_good h fs m fv : ty_wfb (TyStruct h fs) = true ->
      rmap (fun fd => match assoc (f_name fd) m with
                      | Some x => rbind (reenc E f (f_ty fd) x) (fun v => Ok (fd, v))
                      | None => rbind (zero_enc E f (f_ty fd)) (fun v => Ok (fd, v))
                      end) fs = Ok fv -> Forall (Good E f) fv.
    Proof.
      intros W H. apply ty_wfb_struct in W. destruct W as [W Wf].
      apply rmap_ok in H. apply Forall_forall. intros p Hp.
      destruct (Forall2_In_r _ _ _ _ H Hp) as (fd & Hfd & Hr). cbv beta in Hr.
      destruct (assoc (f_name fd) m).
      - apply rbind_ok in Hr. destruct Hr as (v & Hv & Hr). inversion Hr; subst.
        eapply Good_of_reenc; eauto.
      - apply rbind_ok in Hr. destruct Hr as (v & Hv & Hr). inversion Hr; subst.
        eapply Good_of_zero; eauto.
    Qed.

    Lemma zero_pass_good fs fv : ty_wfb (TyStruct HNone fs) = true ->
      rmap (fun fd => rbind (zero_enc E f (f_ty fd)) (fun v => Ok (fd, v))) fs = Ok fv -> Forall (Good E f) fv.
    Proof.
      intros W H. apply (first_pass_good HNone fs [] fv W). exact H.
    Qed.

    (* the struct step, read back *)
    Lemma struct_idem h fs m j' : ty_wfb (TyStruct h fs) = true ->
      struct_step E f h fs m = Ok j' -> exists ms, j' = TObj ms /\ struct_step E f h fs ms = Ok (TObj ms).
    Proof.
      intros W H. pose proof (ty_wfb_struct _ _ W) as [Ws _]. unfold struct_step in H.
      destruct (negb (members_in_domain (map f_name fs ++ hook_names h) m)); [discriminate|].
      apply rbind_ok in H. destruct H as (fv & Hfv & H).
      apply rbind_ok in H. destruct H as (fv' & Hh & H). inversion H; subst j'. clear H.
      pose proof (first_pass_good _ _ _ _ W Hfv) as G.
      pose proof (struct_first_fst _ _ _ _ _ Hfv) as Hfs.
      destruct (hook_good E f h fs m fv fv' Ws Hfs Hh G) as [G' Hfs'].
      exists (emit fv'). split; auto.
      apply struct_reread; auto.
      intros fv2 HR. eapply hook_second; eauto.
    Qed.

    Lemma zero_struct_idem fs z : ty_wfb (TyStruct HNone fs) = true ->
      zero_enc E (S f) (TyStruct HNone fs) = Ok z ->
      exists ms, z = TObj ms /\ struct_step E f HNone fs ms = Ok (TObj ms).
    Proof.
      intros W H. pose proof (ty_wfb_struct _ _ W) as [Ws _]. rewrite zero_enc_eq in H.
      apply rbind_ok in H. destruct H as (fv & Hfv & H). inversion H; subst z. clear H.
      exists (emit fv). split; auto. apply struct_reread; auto.
      - apply (rmap_tag_fst (fun fd => zero_enc E f (f_ty fd)) _ _ Hfv).
      - apply (zero_pass_good fs fv W Hfv).
    Qed.
  End Step.

  Theorem idem_both f :
    (forall t z, ty_wfb t = true -> is_any_ty t = false -> zero_enc E f t = Ok z -> reenc E f t z = Ok z) /\
    (forall t j j', ty_wfb t = true -> reenc E f t j = Ok j' -> reenc E f t j' = Ok j').
  Proof.
    induction f as [|f [IHZ IHR]]; [split; intros; discriminate|].
    assert (Z : forall t z, ty_wfb t = true -> is_any_ty t = false -> zero_enc E (S f) t = Ok z -> reenc E (S f) t z = Ok z).
    { intros t z W An H. rewrite reenc_eq.
      destruct t as [l|t'|t'|t'|h fs|n| |].
      - rewrite zero_enc_eq in H. now apply zero_leaf_idem.
      - rewrite zero_enc_eq in H. inversion H; reflexivity.
      - rewrite zero_enc_eq in H. inversion H; reflexivity.
      - rewrite zero_enc_eq in H. inversion H; reflexivity.
      - destruct h; try (rewrite zero_enc_eq in H; discriminate).
        destruct (zero_struct_idem f IHZ IHR fs z W H) as (ms & -> & Hs). exact Hs.
      - rewrite zero_enc_eq in H. destruct (assoc n (e_types E)) as [t'|] eqn:A; [|discriminate].
        destruct (env_wfb_types _ _ _ WE A). auto.
      - discriminate.
      - rewrite zero_enc_eq in H. discriminate. }
    split; [exact Z|].
    intros t j j' W H. rewrite reenc_eq in H. rewrite reenc_eq.
    destruct t as [l|t'|t'|t'|h fs|n| |].
    - eapply reenc_leaf_idem; eauto.
    - (* pointer *)
      cbn [ty_wfb] in W.
      assert (G : reenc E f t' j = Ok j' -> match j' with TNull => Ok TNull | _ => reenc E f t' j' end = Ok j').
      { intros G. apply IHR in G; auto. destruct j'; auto. }
      destruct j; auto. inversion H; reflexivity.
    - (* slice *)
      cbn [ty_wfb] in W. destruct j; try discriminate; [inversion H; reflexivity|].
      apply rbind_ok in H. destruct H as (l' & Hl & H). inversion H; subst j'. apply rmap_ok in Hl.
      rewrite rmap_id; [reflexivity|]. intros y Hy.
      destruct (Forall2_In_r _ _ _ _ Hl Hy) as (x & _ & Hr). eauto.
    - (* map *)
      cbn [ty_wfb] in W. destruct j; try discriminate; [inversion H; reflexivity|].
      apply rbind_ok in H. destruct H as (m' & Hm & H). inversion H; subst j'. apply rmap_ok in Hm.
      assert (Keys : map fst m' = map fst (dedup_last m)).
      { clear H. induction Hm; cbn; auto.
        apply rbind_ok in H. destruct H as (v & _ & Hv). inversion Hv; subst. cbn. congruence. }
      assert (ND : NoDup (map fst (sort_kv m'))).
      { eapply Permutation_NoDup; [apply Permutation_map; symmetry; apply sort_kv_perm|].
        rewrite Keys. apply dedup_last_NoDup. }
      rewrite (dedup_last_id _ ND).
      rewrite rmap_id.
      + cbn [rbind]. rewrite (sort_kv_of_sorted _ (sort_kv_sorted m')). reflexivity.
      + intros [k v] Hkv. cbn [fst snd].
        apply (Permutation_in _ (sort_kv_perm m')) in Hkv.
        destruct (Forall2_In_r _ _ _ _ Hm Hkv) as (kv0 & _ & Hr).
        apply rbind_ok in Hr. destruct Hr as (v0 & Hv0 & Hr). inversion Hr; subst.
        rewrite (IHR _ _ _ W Hv0). reflexivity.
    - (* struct *)
      destruct j; try discriminate.
      + destruct h; try discriminate.
        assert (An : is_any_ty (TyStruct HNone fs) = false) by reflexivity.
        pose proof (IHZ _ _ W An H) as R1. apply reenc_S in R1. rewrite reenc_eq in R1. exact R1.
      + destruct (struct_idem f IHZ IHR h fs m j' W H) as (ms & -> & Hs). exact Hs.
    - (* named type *)
      destruct (assoc n (e_types E)) as [t'|] eqn:A; [|discriminate].
      destruct (env_wfb_types _ _ _ WE A). eauto.
    - discriminate.
    - (* schema.Object *)
      destruct j; try discriminate. unfold object_step in H.
      destruct (members_in_domain [schema_key] m) eqn:M0; [|discriminate]. cbn [negb] in H.
      destruct (assoc schema_key m) as [[| | |id| |]|] eqn:A0; try discriminate.
      destruct id as [|c id]; [discriminate|].
      destruct (assoc (c :: id) (e_schemas E)) as [t'|] eqn:As; [|discriminate].
      destruct t' as [| | | | |n| |]; try discriminate.
      destruct (payload_ok E (TyRef n)) eqn:P; [|discriminate]. cbn [negb] in H.
      destruct (has_null_element (depth (TObj m)) (TObj m)) eqn:HN; [discriminate|].
      apply rbind_ok in H. destruct H as (v & Hv & H).
      destruct v as [| | | | |[|kv ms]]; try discriminate. inversion H; subst j'. clear H.
      remember (kv :: ms) as ms' eqn:Ems.
      (* the payload type *)
      unfold payload_ok in P. destruct (assoc n (e_types E)) as [ts|] eqn:An; [|discriminate].
      destruct ts as [| | | |h fs| | |]; try discriminate. apply negb_true_iff in P.
      destruct (env_wfb_types _ _ _ WE An) as [Wts _].
      pose proof (ty_wfb_struct _ _ Wts) as [Ws _].
      destruct (struct_wfb_spec _ _ Ws) as (Asc & D & _).
      assert (Psk : forall k, In k (map f_name fs ++ hook_names h) -> fold_eq schema_key k = false).
      { rewrite existsb_false in P. exact P. }
      destruct f as [|f1]; [discriminate|].
      pose proof Hv as Hv1. rewrite reenc_eq, An in Hv1.
      pose proof (written_members_in_declaration_order E _ _ _ _ _ Hv1) as Sub.
      assert (InL : forall k, In k (map fst ms') -> In k (map f_name fs ++ hook_names h)).
      { intros k Hk. apply in_or_app. left. eapply sublist_In; eauto. }
      assert (Dn : names_distinct_fold (map f_name fs) = true).
      { eapply sublist_ndf; [|exact D]. rewrite <- (app_nil_r (map f_name fs)) at 1.
        apply sublist_app; [apply sublist_refl | apply sublist_nil]. }
      assert (Dk : names_distinct_fold (schema_key :: map fst ms') = true).
      { cbn [names_distinct_fold]. apply andb_true_iff. split.
        - apply negb_true_iff, existsb_false. intros k Hk. auto.
        - eapply sublist_ndf; eauto. }
      assert (Ak : forallb is_ascii (schema_key :: map fst ms') = true).
      { cbn [forallb]. rewrite schema_key_ascii. cbn. eapply sublist_forallb; eauto. }
      (* the written object is in both domains *)
      assert (M1 : members_in_domain [schema_key] ((schema_key, TStr (c :: id)) :: ms') = true).
      { apply mid_spec. cbn [map fst]. repeat split; auto.
        apply names_exact_spec. intros a b [<-|Ha] [<-|[]]; auto.
        intros F. rewrite fold_eq_sym, (Psk a (InL _ Ha)) in F. discriminate. }
      assert (M2 : members_in_domain (map f_name fs ++ hook_names h) ((schema_key, TStr (c :: id)) :: ms') = true).
      { apply mid_spec. cbn [map fst]. repeat split; auto.
        apply names_exact_spec. intros a b [<-|Ha] Hb F.
        - rewrite (Psk b Hb) in F. discriminate.
        - eapply (ndf_spec _ D); auto. }
      (* no null array elements *)
      assert (N1 : has_null_element (depth (TObj ((schema_key, TStr (c :: id)) :: ms')))
                                    (TObj ((schema_key, TStr (c :: id)) :: ms')) = false).
      { change (NN (TObj ((schema_key, TStr (c :: id)) :: ms'))).
        pose proof (reenc_NN E _ _ _ _ Hv HN) as N0. rewrite NN_obj in N0. apply NN_obj.
        intros kv' [<-|Hin]; [reflexivity | auto]. }
      (* the payload, read back *)
      assert (W1 : ty_wfb (TyRef n) = true) by reflexivity.
      pose proof (IHR _ _ _ W1 Hv) as R1.
      assert (R2 : reenc E (S f1) (TyRef n) (TObj ((schema_key, TStr (c :: id)) :: ms')) = Ok (TObj ms')).
      { rewrite reenc_eq, An. rewrite reenc_eq, An in R1. rewrite <- R1.
        apply (ignores_unknown_members E f1 h fs [] [(schema_key, TStr (c :: id))] ms').
        - intros kv0 k [<-|[]] Hk. cbn [fst]. auto.
        - exact M2. }
      unfold object_step. rewrite M1. cbn [negb assoc].
      change (eqb_bytes schema_key schema_key) with true. cbv iota.
      rewrite As. unfold payload_ok. rewrite An, P. cbn [negb].
      rewrite N1, R2. subst ms'. reflexivity.
  Qed.

  Theorem reenc_idempotent fuel t j j' : ty_wfb t = true ->
    reenc E fuel t j = Ok j' -> reenc E fuel t j' = Ok j'.
  Proof. intros W. apply (proj2 (idem_both fuel)); auto. Qed.

  Theorem zero_enc_read_back fuel t z : ty_wfb t = true -> is_any_ty t = false ->
    zero_enc E fuel t = Ok z -> reenc E fuel t z = Ok z.
  Proof. apply (proj1 (idem_both fuel)). Qed.
End Idem.

(* ------------------------------------------------------------------------------------------ *)
(* T4 (maps): the written keys are strictly increasing                                         *)
(* ------------------------------------------------------------------------------------------ *)
Theorem written_map_keys_sorted E fuel t j m :
  reenc E fuel (TyMap t) j = Ok (TObj m) ->
  StronglySorted (fun a b => bytes_ltb a b = true) (map fst m).
Proof.
  destruct fuel as [|f]; [discriminate|]. rewrite reenc_eq.
  destruct j; try discriminate. intros H.
  apply rbind_ok in H. destruct H as (m' & Hm & H). inversion H; subst m. apply rmap_ok in Hm.
  assert (Keys : map fst m' = map fst (dedup_last m0)).
  { clear H. induction Hm; cbn; auto.
    apply rbind_ok in H. destruct H as (v & _ & Hv). inversion Hv; subst. cbn. congruence. }
  apply sorted_strict; [apply sort_kv_sorted|].
  eapply Permutation_NoDup; [apply Permutation_map; symmetry; apply sort_kv_perm|].
  rewrite Keys. apply dedup_last_NoDup.
Qed.
