(* C04 / C08 - proofs about the typed-marshalling model (Marshal/Typed.v): what was written is read back
   and written identically (reenc_idempotent), unknown members are ignored, the member order of an
   object read at a struct type is irrelevant, written members follow the declaration order and written
   map keys are strictly sorted.  Hypotheses: the environment and the type are well formed
   (Marshal/Wf.v; a data theorem for the generated environment in Marshal/EnvProofs.v). *)
From Coq Require Import String.
From Coq Require Import List ZArith Strings.Byte Bool Lia Permutation Sorting.Sorted.
From Verif Require Import Base.Wire Json.Utf8 Json.JsonProofs Num.Amount Num.Codec Defs.DefTypes
  Marshal.Typed Marshal.Wf Marshal.TypedLeafProofs.
Import ListNotations.
Open Scope Z_scope.

(* ------------------------------------------------------------------------------------------ *)
(* sub-lists and names                                                                         *)
(* ------------------------------------------------------------------------------------------ *)
Lemma sublist_refl {A} (l : list A) : sublist l l.
Proof. induction l; [apply sub_nil | apply sub_keep; auto]. Qed.

Lemma sublist_In {A} (l l' : list A) x : sublist l l' -> In x l -> In x l'.
Proof. induction 1; cbn; intros; auto. destruct H0; auto. Qed.

Lemma sublist_map {A B} (f : A -> B) l l' : sublist l l' -> sublist (map f l) (map f l').
Proof. induction 1; cbn; [apply sub_nil | apply sub_skip; auto | apply sub_keep; auto]. Qed.

Lemma sublist_filter {A} (P : A -> bool) l : sublist (filter P l) l.
Proof. induction l; cbn; [apply sub_nil|]. destruct (P a); [apply sub_keep | apply sub_skip]; auto. Qed.

Lemma sublist_app {A} (a a' b b' : list A) : sublist a a' -> sublist b b' -> sublist (a ++ b) (a' ++ b').
Proof. induction 1; cbn; intros; auto; [apply sub_skip | apply sub_keep]; auto. Qed.

Lemma sublist_nil {A} (l : list A) : sublist [] l.
Proof. induction l; [apply sub_nil | apply sub_skip; auto]. Qed.

Lemma sublist_forallb {A} (P : A -> bool) l l' : sublist l l' -> forallb P l' = true -> forallb P l = true.
Proof.
  induction 1; cbn; auto; rewrite !andb_true_iff; intros [? ?]; auto.
Qed.

Lemma sublist_existsb {A} (P : A -> bool) l l' : sublist l l' -> existsb P l = true -> existsb P l' = true.
Proof.
  induction 1; cbn; auto; rewrite !orb_true_iff; intros; auto. destruct H0; auto.
Qed.

Lemma sublist_ndf l l' : sublist l l' -> names_distinct_fold l' = true -> names_distinct_fold l = true.
Proof.
  induction 1; cbn; auto; rewrite !andb_true_iff; intros [N D]; auto.
  split; auto. destruct (existsb (fold_eq x) l) eqn:Ex; auto.
  rewrite (sublist_existsb _ _ _ H Ex) in N. discriminate.
Qed.

Lemma ndf_spec l : names_distinct_fold l = true ->
  forall a b, In a l -> In b l -> fold_eq a b = true -> a = b.
Proof.
  induction l as [|k r IH]; cbn; [contradiction|].
  rewrite andb_true_iff, negb_true_iff. intros [N D] a b Ha Hb F.
  assert (X : forall c, In c r -> fold_eq k c = false).
  { intros c Hc. destruct (fold_eq k c) eqn:Ec; auto.
    assert (existsb (fold_eq k) r = true) by (apply existsb_exists; eauto). congruence. }
  destruct Ha as [->|Ha], Hb as [->|Hb]; auto.
  - rewrite (X _ Hb) in F. discriminate.
  - rewrite fold_eq_sym, (X _ Ha) in F. discriminate.
Qed.

Lemma ndf_NoDup l : names_distinct_fold l = true -> NoDup l.
Proof.
  induction l as [|k r IH]; cbn; [constructor|].
  rewrite andb_true_iff, negb_true_iff. intros [N D]. constructor; auto.
  intros Hin. assert (existsb (fold_eq k) r = true).
  { apply existsb_exists. exists k. split; auto. apply fold_eq_refl. }
  congruence.
Qed.

Lemma existsb_perm {A} (P : A -> bool) l l' : Permutation l l' -> existsb P l = existsb P l'.
Proof.
  induction 1; cbn; auto.
  - now rewrite IHPermutation.
  - destruct (P x), (P y); reflexivity.
  - congruence.
Qed.

Lemma forallb_perm {A} (P : A -> bool) l l' : Permutation l l' -> forallb P l = forallb P l'.
Proof.
  induction 1; cbn; auto.
  - now rewrite IHPermutation.
  - destruct (P x), (P y); reflexivity.
  - congruence.
Qed.

Lemma ndf_perm l l' : Permutation l l' -> names_distinct_fold l = names_distinct_fold l'.
Proof.
  induction 1; cbn; auto.
  - rewrite IHPermutation, (existsb_perm _ _ _ H). reflexivity.
  - rewrite (fold_eq_sym y x).
    destruct (fold_eq x y), (existsb (fold_eq x) l), (existsb (fold_eq y) l); reflexivity.
  - congruence.
Qed.

Lemma names_exact_spec L ks : names_exact L ks = true <->
  (forall m n, In m ks -> In n L -> fold_eq m n = true -> m = n).
Proof.
  unfold names_exact. rewrite forallb_forall. split.
  - intros H m n Hm Hn F. specialize (H m Hm). rewrite forallb_forall in H. specialize (H n Hn).
    rewrite F in H. cbn in H. now apply eqb_bytes_eq.
  - intros H m Hm. apply forallb_forall. intros n Hn.
    destruct (fold_eq m n) eqn:F; cbn; auto. apply eqb_bytes_eq. auto.
Qed.

Lemma mid_spec L m : members_in_domain L m = true <->
  forallb is_ascii (map fst m) = true /\ names_distinct_fold (map fst m) = true /\ names_exact L (map fst m) = true.
Proof. unfold members_in_domain. rewrite !andb_true_iff. tauto. Qed.

Lemma mid_sublist L m m' : sublist (map fst m) (map fst m') -> members_in_domain L m' = true -> members_in_domain L m = true.
Proof.
  intros S. rewrite !mid_spec. intros (A & D & X). repeat split.
  - eapply sublist_forallb; eauto.
  - eapply sublist_ndf; eauto.
  - unfold names_exact in *. eapply sublist_forallb; eauto.
Qed.

Lemma mid_perm L m m' : Permutation m m' -> members_in_domain L m = members_in_domain L m'.
Proof.
  intros P. assert (Q : Permutation (map fst m) (map fst m')) by now apply Permutation_map.
  unfold members_in_domain, names_exact.
  rewrite (forallb_perm _ _ _ Q), (ndf_perm _ _ Q).
  f_equal. apply forallb_perm, Q.
Qed.

Lemma NoDup_app_disj {A} (l r : list A) x : NoDup (l ++ r) -> In x l -> In x r -> False.
Proof.
  induction l as [|a l IH]; cbn; [contradiction|]. intros N Hl Hr. inversion N; subst.
  destruct Hl as [->|Hl]; [apply H1, in_or_app; auto | eauto].
Qed.

(* ---- association lists ---- *)
Lemma assoc_none {A} k (l : list (bytes * A)) : ~ In k (map fst l) -> assoc k l = None.
Proof.
  induction l as [|[k' v] l IH]; cbn; auto. intros H.
  rewrite eqb_bytes_neq by (intros ->; auto). auto.
Qed.

Lemma assoc_In {A} k (l : list (bytes * A)) v : assoc k l = Some v -> In (k, v) l.
Proof.
  induction l as [|[k' v'] l IH]; cbn; [discriminate|].
  destruct (eqb_bytes k k') eqn:Ek.
  - apply eqb_bytes_eq in Ek. intros H. inversion H; subst. auto.
  - auto.
Qed.

Lemma assoc_app {A} k (a b : list (bytes * A)) :
  assoc k (a ++ b) = match assoc k a with Some v => Some v | None => assoc k b end.
Proof. induction a as [|[k' v] a IH]; cbn; auto. destruct (eqb_bytes k k'); auto. Qed.

Lemma assoc_perm {A} k (l l' : list (bytes * A)) : Permutation l l' -> NoDup (map fst l) -> assoc k l = assoc k l'.
Proof.
  induction 1; cbn; intros N; auto.
  - destruct x as [k' v]. inversion N; subst. rewrite IHPermutation; auto.
  - destruct x as [k1 v1], y as [k2 v2]. cbn in N.
    destruct (eqb_bytes k k2) eqn:E2, (eqb_bytes k k1) eqn:E1; auto.
    apply eqb_bytes_eq in E1, E2. subst. inversion N; subst. exfalso. apply H1. cbn. auto.
  - rewrite IHPermutation1 by auto. apply IHPermutation2.
    eapply Permutation_NoDup; [apply Permutation_map; exact H | exact N].
Qed.

(* ------------------------------------------------------------------------------------------ *)
(* well-formed types                                                                           *)
(* ------------------------------------------------------------------------------------------ *)
Lemma ty_wfb_struct h fs : ty_wfb (TyStruct h fs) = true ->
  struct_wfb h fs = true /\ forall fd, In fd fs -> ty_wfb (f_ty fd) = true.
Proof.
  cbn [ty_wfb]. rewrite andb_true_iff. intros [S G]. split; auto. clear S.
  induction fs as [|fd fs IH]; [contradiction|].
  apply andb_true_iff in G. destruct G as [G1 G2].
  intros fd' [->|Hin]; [destruct fd'; exact G1 | apply IH; auto].
Qed.

Lemma struct_wfb_spec h fs : struct_wfb h fs = true ->
  forallb is_ascii (map f_name fs) = true /\
  names_distinct_fold (map f_name fs ++ hook_names h) = true /\
  (forall n fd, In n (hook_targets h) -> In fd fs -> f_name fd = n -> f_ty fd = TyLeaf LStr).
Proof.
  unfold struct_wfb. rewrite !andb_true_iff. intros [[A D] T]. repeat split; auto.
  intros n fd Hn Hfd Hname. rewrite forallb_forall in T. specialize (T n Hn).
  unfold target_ok in T. rewrite forallb_forall in T. specialize (T fd Hfd).
  rewrite Hname, eqb_bytes_refl in T. cbn in T.
  destruct (f_ty fd) as [[]| | | | | | |]; try discriminate. reflexivity.
Qed.

Lemma env_wfb_types E n t : env_wfb E = true -> assoc n (e_types E) = Some t -> ty_wfb t = true.
Proof.
  unfold env_wfb. rewrite andb_true_iff. intros [H _] A. apply assoc_In in A.
  rewrite forallb_forall in H. apply (H (n, t) A).
Qed.

Lemma env_wfb_schemas E n t : env_wfb E = true -> assoc n (e_schemas E) = Some t -> ty_wfb t = true.
Proof.
  unfold env_wfb. rewrite andb_true_iff. intros [_ H] A. apply assoc_In in A.
  rewrite forallb_forall in H. apply (H (n, t) A).
Qed.

(* ------------------------------------------------------------------------------------------ *)
(* emitted members                                                                             *)
(* ------------------------------------------------------------------------------------------ *)
Definition emitted (p : field * tv) : bool := negb (f_omit (fst p) && enc_empty (f_ty (fst p)) (snd p)).

Lemma emit_cons p fv : emit (p :: fv) = if emitted p then (f_name (fst p), snd p) :: emit fv else emit fv.
Proof. unfold emit, emitted. cbn [filter]. destruct (negb _); reflexivity. Qed.

Lemma emit_keys_sublist fv : sublist (map fst (emit fv)) (map f_name (map fst fv)).
Proof.
  induction fv as [|p fv IH]; [apply sub_nil|]. rewrite emit_cons. cbn [map].
  destruct (emitted p); [apply sub_keep | apply sub_skip]; auto.
Qed.

Lemma assoc_emit fv : NoDup (map f_name (map fst fv)) -> forall fd v, In (fd, v) fv ->
  assoc (f_name fd) (emit fv) = if emitted (fd, v) then Some v else None.
Proof.
  induction fv as [|[fd0 v0] fv IH]; [contradiction|]. cbn [map fst]. intros N fd v Hin.
  inversion N as [|? ? Hn N']; subst. rewrite emit_cons. cbn [fst snd].
  destruct Hin as [Heq|Hin].
  - inversion Heq; subst. destruct (emitted (fd, v)); cbn [assoc].
    + now rewrite eqb_bytes_refl.
    + apply assoc_none. intros H. apply Hn. eapply sublist_In; [apply emit_keys_sublist | exact H].
  - assert (Hne : f_name fd <> f_name fd0).
    { intros Heq. apply Hn. rewrite <- Heq. apply in_map. apply (in_map fst) in Hin. exact Hin. }
    destruct (emitted (fd0, v0)); cbn [assoc]; [rewrite (eqb_bytes_neq _ _ Hne)|]; auto.
Qed.

(* ---- two field lists that are written the same way ---- *)
Definition rel1 (p q : field * tv) : Prop :=
  fst p = fst q /\
  (snd p = snd q \/
   (f_omit (fst p) = true /\ enc_empty (f_ty (fst p)) (snd p) = true /\ enc_empty (f_ty (fst p)) (snd q) = true)).
Definition R := Forall2 rel1.

Lemma rel1_refl p : rel1 p p.
Proof. split; auto. Qed.

Lemma R_refl l : R l l.
Proof. induction l; constructor; auto using rel1_refl. Qed.

Lemma rel1_emitted p q : rel1 p q -> emitted p = emitted q /\ (emitted p = true -> p = q).
Proof.
  destruct p as [f v], q as [g w]. intros [H1 H2]. cbn [fst snd] in *. subst g.
  destruct H2 as [->|(O & A & B)]; [auto|].
  unfold emitted. cbn [fst snd]. rewrite O, A, B. split; [reflexivity | discriminate].
Qed.

Lemma R_emit a b : R a b -> emit a = emit b.
Proof.
  induction 1 as [|p q a b H _ IH]; auto. rewrite !emit_cons, IH.
  destruct (rel1_emitted _ _ H) as [E1 E2]. rewrite <- E1.
  destruct (emitted p); auto. rewrite (E2 eq_refl). reflexivity.
Qed.

Lemma R_fst a b : R a b -> map fst a = map fst b.
Proof. induction 1 as [|p q a b [H _] _ IH]; cbn; congruence. Qed.

Lemma R_set n v a b : R a b -> R (set_field n v a) (set_field n v b).
Proof.
  induction 1 as [|[f x] [g y] a b H HR IH]; [constructor|]. cbn [set_field].
  pose proof H as [H1 _]. cbn [fst] in H1. subst g.
  destruct (eqb_bytes (f_name f) n); constructor; auto. apply rel1_refl.
Qed.

Lemma R_get n a b : R a b ->
  (get_field n a = None /\ get_field n b = None) \/
  (exists fd v w, get_field n a = Some v /\ get_field n b = Some w /\ In (fd, v) a /\ f_name fd = n /\ rel1 (fd, v) (fd, w)).
Proof.
  induction 1 as [|[f x] [g y] a b H HR IH]; [left; auto|]. cbn [get_field].
  pose proof H as [H1 _]. cbn [fst] in H1. subst g.
  destruct (eqb_bytes (f_name f) n) eqn:En.
  - right. apply eqb_bytes_eq in En. exists f, x, y. cbn [In]. auto 7.
  - destruct IH as [IH|(fd & v & w & A & B & C & D & F)]; [left; auto|].
    right. exists fd, v, w. cbn [In]. auto 7.
Qed.

Lemma set_field_fst n v l : map fst (set_field n v l) = map fst l.
Proof.
  induction l as [|[f x] l IH]; auto. cbn [set_field]. destruct (eqb_bytes (f_name f) n); cbn; congruence.
Qed.

Lemma get_set_same n v l x : get_field n l = Some x -> get_field n (set_field n v l) = Some v.
Proof.
  induction l as [|[f y] l IH]; [discriminate|]. cbn [get_field set_field].
  destruct (eqb_bytes (f_name f) n) eqn:En; cbn [get_field]; rewrite En; auto.
Qed.

Lemma get_set_other n n' v l : n <> n' -> get_field n' (set_field n v l) = get_field n' l.
Proof.
  intros Hne. induction l as [|[f y] l IH]; auto. cbn [get_field set_field].
  destruct (eqb_bytes (f_name f) n) eqn:En; cbn [get_field]; auto.
  - apply eqb_bytes_eq in En. rewrite eqb_bytes_neq by congruence. reflexivity.
  - rewrite IH. reflexivity.
Qed.

Lemma set_get_id n v l : get_field n l = Some v -> set_field n v l = l.
Proof.
  induction l as [|[f y] l IH]; auto. cbn [get_field set_field].
  destruct (eqb_bytes (f_name f) n) eqn:En.
  - intros H. inversion H. reflexivity.
  - intros H. rewrite IH; auto.
Qed.

Lemma get_field_In n l v : get_field n l = Some v -> exists fd, In (fd, v) l /\ f_name fd = n.
Proof.
  induction l as [|[f y] l IH]; [discriminate|]. cbn [get_field].
  destruct (eqb_bytes (f_name f) n) eqn:En.
  - intros H. inversion H; subst. apply eqb_bytes_eq in En. exists f. cbn. auto.
  - intros H. destruct (IH H) as (fd & ? & ?). exists fd. cbn. auto.
Qed.

(* an empty value has no members *)
Lemma empty_no_member t v k : enc_empty t v = true -> member k v = None.
Proof.
  destruct v; auto. destruct t as [l| | | | | | |]; cbn; try discriminate.
  - destruct l; discriminate.
  - destruct m; [reflexivity | discriminate].
Qed.

(* ------------------------------------------------------------------------------------------ *)
(* reading a written struct back                                                               *)
(* ------------------------------------------------------------------------------------------ *)
Lemma Forall2_map_l {A B C} (g : A -> B) (Q : B -> C -> Prop) l l' :
  Forall2 (fun x y => Q (g x) y) l l' -> Forall2 Q (map g l) l'.
Proof. induction 1; cbn; constructor; auto. Qed.

Lemma Forall2_impl {A B} (P Q : A -> B -> Prop) l l' :
  (forall x y, P x y -> Q x y) -> Forall2 P l l' -> Forall2 Q l l'.
Proof. intros H. induction 1; constructor; auto. Qed.

(* an empty value: the zero value of its type is written, and is empty too *)
Lemma empty_zero E f t v : enc_empty t v = true ->
  exists z, zero_enc E (S f) t = Ok z /\ enc_empty t z = true.
Proof.
  intros H. rewrite zero_enc_eq.
  destruct t as [l| | | | | | |]; cbn [enc_empty] in H; try discriminate; try (exists TNull; split; reflexivity).
  destruct l; try (destruct v; discriminate); cbn [zero_leaf]; eexists; split; reflexivity.
Qed.

Section Struct.
  Variable E : env.

  (* a field value that is read back as written *)
  Definition Good (f : nat) (p : field * tv) : Prop :=
    (emitted p = true -> reenc E f (f_ty (fst p)) (snd p) = Ok (snd p)) /\
    (emitted p = false -> exists z, zero_enc E f (f_ty (fst p)) = Ok z /\ enc_empty (f_ty (fst p)) z = true).

  Lemma Good_fuel f p : Good f p -> exists f', f = S f'.
  Proof.
    intros [G1 G2]. destruct f; [|eauto]. destruct (emitted p).
    - specialize (G1 eq_refl). discriminate.
    - destruct (G2 eq_refl) as (z & Hz & _). discriminate.
  Qed.

  Lemma Good_str f fd s : f_ty fd = TyLeaf LStr -> Good (S f) (fd, TStr s).
  Proof.
    intros T. split; cbn [fst snd]; rewrite T; intros _.
    - reflexivity.
    - exists (TStr []). split; reflexivity.
  Qed.

  Definition second_read (f : nat) (m : list (bytes * tv)) (fd : field) : res (field * tv) :=
    match assoc (f_name fd) m with
    | Some x => rbind (reenc E f (f_ty fd) x) (fun v => Ok (fd, v))
    | None => rbind (zero_enc E f (f_ty fd)) (fun v => Ok (fd, v))
    end.

  Lemma second_pass f fv : NoDup (map f_name (map fst fv)) -> Forall (Good f) fv ->
    exists fv2, rmap (second_read f (emit fv)) (map fst fv) = Ok fv2 /\ R fv fv2.
  Proof.
    intros N G.
    assert (X : Forall (fun p => exists q, second_read f (emit fv) (fst p) = Ok q /\ rel1 p q) fv).
    { apply Forall_forall. intros [fd v] Hin. rewrite Forall_forall in G. destruct (G _ Hin) as [G1 G2].
      unfold second_read. cbn [fst snd] in *. rewrite (assoc_emit fv N fd v Hin).
      destruct (emitted (fd, v)) eqn:Em.
      - rewrite (G1 eq_refl). cbn. exists (fd, v). split; auto using rel1_refl.
      - destruct (G2 eq_refl) as (z & Hz & Ez). rewrite Hz. cbn. exists (fd, z). split; auto.
        split; auto. right. cbn [fst snd]. unfold emitted in Em. cbn [fst snd] in Em.
        apply negb_false_iff, andb_true_iff in Em. tauto. }
    apply Forall_exists_Forall2 in X. destruct X as (fv2 & X). exists fv2. split.
    - apply rmap_of_Forall2. apply Forall2_map_l. eapply Forall2_impl; [|exact X]. cbv beta. tauto.
    - eapply Forall2_impl; [|exact X]. cbv beta. tauto.
  Qed.

  (* ---- hooks ---- *)
  Lemma set_good f fs n s fv : map fst fv = fs ->
    (forall fd, In fd fs -> f_name fd = n -> f_ty fd = TyLeaf LStr) ->
    Forall (Good f) fv -> Forall (Good f) (set_field n (TStr s) fv).
  Proof.
    intros <-. induction fv as [|[fd x] fv IH]; intros T G; [constructor|].
    inversion G as [|? ? G1 G2]; subst. cbn [set_field].
    destruct (eqb_bytes (f_name fd) n) eqn:En.
    - constructor; auto. destruct (Good_fuel _ _ G1) as (f' & ->).
      apply Good_str. apply T; [cbn; auto | now apply eqb_bytes_eq].
    - constructor; auto. apply IH; auto. intros; apply T; cbn; auto.
  Qed.

  Lemma move_string_good f fs legacy target m fv fv' : map fst fv = fs ->
    (forall fd, In fd fs -> f_name fd = target -> f_ty fd = TyLeaf LStr) ->
    move_string legacy target m fv = Ok fv' -> Forall (Good f) fv ->
    Forall (Good f) fv' /\ map fst fv' = fs.
  Proof.
    intros Hfs T H G. unfold move_string in H.
    destruct (assoc legacy m) as [[| | |s| |]|]; try discriminate; try (inversion H; subst; auto; fail).
    destruct s; inversion H; subst; auto. split; [eapply set_good; eauto | apply set_field_fst].
  Qed.

  Lemma hook_good f h fs m fv fv' : struct_wfb h fs = true -> map fst fv = fs ->
    apply_hook E h m fv = Ok fv' -> Forall (Good f) fv -> Forall (Good f) fv' /\ map fst fv' = fs.
  Proof.
    intros W Hfs H G. destruct (struct_wfb_spec _ _ W) as (_ & _ & T).
    destruct h; cbn [apply_hook] in H.
    - inversion H; subst; auto.
    - (* HInvoice *)
      assert (T' : forall fd, In fd fs -> f_name fd = bs "$regime" -> f_ty fd = TyLeaf LStr)
        by (intros; eapply T; eauto; cbn; auto).
      destruct (get_field (bs "$regime") fv) as [[| | |s| |]|]; try (inversion H; subst; auto; fail).
      destruct s; [|inversion H; subst; auto].
      destruct (e_regime E (supplier_country fv)); inversion H; subst; auto.
      split; [eapply set_good; eauto | apply set_field_fst].
    - (* HTax *)
      destruct (assoc (bs "tags") m) as [[| | | |l|]|]; try discriminate; try (inversion H; subst; auto; fail).
      destruct l; [inversion H; subst; auto | discriminate].
    - (* HAdvance *)
      eapply move_string_good; eauto. intros; eapply T; eauto; cbn; auto.
    - (* HOnline *)
      apply rbind_ok in H. destruct H as (fv1 & H1 & H2).
      destruct (move_string_good f fs _ _ _ _ _ Hfs (fun fd Hi Hn => T _ fd (or_introl eq_refl) Hi Hn) H1 G) as [G1 F1].
      eapply move_string_good; eauto. intros; eapply T; eauto; cbn; auto.
    - (* HCombo *)
      assert (T' : forall fd, In fd fs -> f_name fd = bs "rate" -> f_ty fd = TyLeaf LStr)
        by (intros; eapply T; eauto; cbn; auto).
      destruct (assoc (bs "tags") m) as [[| | | |l|]|]; try discriminate; try (inversion H; subst; auto; fail).
      destruct l as [|[| | |k| |] r]; try discriminate; try (inversion H; subst; auto; fail).
      destruct (negb (all_strings r)); [discriminate|].
      destruct (get_field (bs "rate") fv) as [[| | |s| |]|]; try (inversion H; subst; auto; fail).
      destruct s; inversion H; subst; auto.
      split; [eapply set_good; eauto | apply set_field_fst].
  Qed.
End Struct.
