(* C04 / C08 - well-formedness of the type descriptors of the typed-marshalling model (Marshal/Typed.v):
   the facts about the REGENERATED Go types (Gen/GoTypes.v) the read-back theorems rest on, as computable
   booleans.  `env_wfb go_env = true` is a data theorem (Marshal/EnvProofs.v) re-checked against the
   regenerated tables on every run.  Model only: no proofs in this file. *)
From Coq Require Import String.
From Coq Require Import List ZArith Strings.Byte Bool.
From Verif Require Import Base.Wire Marshal.Typed.
Import ListNotations.
Open Scope Z_scope.

(* an integer kind has at least one bit *)
Definition leaf_wfb (l : leaf) : bool :=
  match l with LInt _ bits => 1 <=? bits | _ => true end.

(* the fields a hook (legacy migration) writes to *)
Definition hook_targets (h : hook) : list bytes :=
  match h with
  | HAdvance => [bs "description"]
  | HOnline => [bs "label"; bs "url"]
  | HCombo => [bs "rate"]
  | HInvoice => [bs "$regime"]
  | HNone | HTax => []
  end.

Definition is_str_ty (t : ty) : bool := match t with TyLeaf LStr => true | _ => false end.

(* a field of that name, if there is one, is a plain string *)
Definition target_ok (fs : list field) (n : bytes) : bool :=
  forallb (fun fd => implb (eqb_bytes (f_name fd) n) (is_str_ty (f_ty fd))) fs.

Definition is_any_ty (t : ty) : bool := match t with TyAny => true | _ => false end.

(* the member names of a struct are ASCII; no two names it listens to (fields and the legacy members of
   its hook) are equal up to ASCII case; the fields its hook writes to are strings; a field of interface
   type (which the model does not read: Dom) is `omitempty`, so that its zero value is never written *)
Definition struct_wfb (h : hook) (fs : list field) : bool :=
  forallb is_ascii (map f_name fs)
  && names_distinct_fold (map f_name fs ++ hook_names h)
  && forallb (target_ok fs) (hook_targets h)
  && forallb (fun fd => implb (is_any_ty (f_ty fd)) (f_omit fd)) fs.

Fixpoint ty_wfb (t : ty) : bool :=
  match t with
  | TyLeaf l => leaf_wfb l
  | TyPtr t' | TySlice t' | TyMap t' => ty_wfb t'
  | TyStruct h fs =>
    struct_wfb h fs &&
    (fix go (l : list field) : bool :=
       match l with
       | [] => true
       | fd :: r => (match fd with mkF _ _ t' => ty_wfb t' end) && go r
       end) fs
  | TyRef _ | TyAny | TyObject => true
  end.

(* every named type and every registered schema type is well formed; no named type is an interface *)
Definition env_wfb (E : env) : bool :=
  forallb (fun kt => ty_wfb (snd kt) && negb (is_any_ty (snd kt))) (e_types E)
  && forallb (fun kt => ty_wfb (snd kt)) (e_schemas E).

(* l is a sub-list of l', in order *)
Inductive sublist {A} : list A -> list A -> Prop :=
| sub_nil : sublist [] []
| sub_skip x l l' : sublist l l' -> sublist l (x :: l')
| sub_keep x l l' : sublist l l' -> sublist (x :: l) (x :: l').

(* ---- how much fuel a reading needs (Marshal/FuelProofs.v: that much fuel gives the result any larger
   fuel gives).  zt / rt: for each named type, the fuel zero_enc / reenc (beyond six units per level of
   the tree read) needs below a reference to it; oc: the same for the payload of schema.Object.  The
   tables for the generated environment are computed by iteration in Marshal/EnvProofs.v and checked by
   cost_okb. ---- *)
Definition lookup_nat (n : bytes) (tab : list (bytes * nat)) : nat :=
  match assoc n tab with Some k => k | None => O end.

Fixpoint zcost (zt : list (bytes * nat)) (t : ty) : nat :=
  match t with
  | TyStruct _ fs =>
    S ((fix go (l : list field) : nat :=
          match l with
          | [] => O
          | fd :: r => Nat.max (match fd with mkF _ _ t' => zcost zt t' end) (go r)
          end) fs)
  | TyRef n => S (lookup_nat n zt)
  | _ => 1%nat
  end.

Fixpoint rcost (zt rt : list (bytes * nat)) (oc : nat) (t : ty) : nat :=
  match t with
  | TyLeaf _ | TyAny => 1%nat
  | TyPtr t' => S (rcost zt rt oc t')
  | TySlice t' | TyMap t' => S (rcost zt rt oc t' - 6)
  | TyStruct _ fs =>
    S (Nat.max (zcost zt t)
         ((fix go (l : list field) : nat :=
             match l with
             | [] => O
             | fd :: r => Nat.max (match fd with mkF _ _ t' => Nat.max (rcost zt rt oc t' - 6) (zcost zt t') end) (go r)
             end) fs))
  | TyRef n => S (lookup_nat n rt)
  | TyObject => S oc
  end.

Definition is_object_ty (t : ty) : bool := match t with TyObject => true | _ => false end.

(* (schema.Object registered as the payload of schema.Object is an error of the reader, not a recursion) *)
Definition cost_okb (E : env) (zt rt : list (bytes * nat)) (oc : nat) : bool :=
  forallb (fun kt => Nat.leb (zcost zt (snd kt)) (lookup_nat (fst kt) zt)
                     && Nat.leb (rcost zt rt oc (snd kt)) (lookup_nat (fst kt) rt)) (e_types E)
  && forallb (fun kt => is_object_ty (snd kt) || Nat.leb (rcost zt rt oc (snd kt)) oc) (e_schemas E).
