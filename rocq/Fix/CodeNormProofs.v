(* C04 - proofs about the code normalisers (Fix/CodeNorm.v): the classes are those of the Go patterns,
   the normalisers are idempotent on ALL byte strings, their output is clean, valid codes are fixed. *)
From Coq Require Import String.
From Coq Require Import List ZArith NArith Strings.Byte Bool Lia.
From Verif Require Import Base.Wire Schema.Regex Schema.RegexProofs Fix.CodeNorm.
From Verif Require Gen.CodePatterns.
Import ListNotations.
Local Open Scope nat_scope.
Local Arguments is_alnum : simpl never.
Local Arguments is_sep : simpl never.
Local Arguments is_allowed : simpl never.
Local Arguments is_upper_digit : simpl never.
Local Arguments is_digit_c : simpl never.

(* ---- the model's classes are the classes of the patterns in cbc/code.go ---- *)
Lemma code_separator_pinned :
  Gen.CodePatterns.code_separator =
  mkPattern Gen.CodePatterns.code_separator_src false false (RCat (RSet false sep_ranges) (rplus (rnegclass alnum_ranges))).
Proof. reflexivity. Qed.
Lemma code_invalid_chars_pinned :
  Gen.CodePatterns.code_invalid_chars = mkPattern Gen.CodePatterns.code_invalid_chars_src false false (rnegclass allowed_ranges).
Proof. reflexivity. Qed.
Lemma code_non_alphanumerical_pinned :
  Gen.CodePatterns.code_non_alphanumerical = mkPattern Gen.CodePatterns.code_non_alphanumerical_src false false (rnegclass upper_digit_ranges).
Proof. reflexivity. Qed.
Lemma code_non_numerical_pinned :
  Gen.CodePatterns.code_non_numerical = mkPattern Gen.CodePatterns.code_non_numerical_src false false (rnegclass digit_ranges).
Proof. reflexivity. Qed.
Definition code_body : regex :=
  RCat (rplus (RSet false alnum_ranges)) (RStar (RCat (ropt (RSet false sep_ranges)) (rplus (RSet false alnum_ranges)))).
Lemma code_pattern_pinned :
  Gen.CodePatterns.code_pattern = mkPattern Gen.CodePatterns.code_pattern_src true true code_body /\
  Gen.CodePatterns.code_min_length = 1%Z /\ Gen.CodePatterns.code_max_length = 32%Z.
Proof. repeat split; reflexivity. Qed.
Lemma pattern_texts_pinned :
  Gen.CodePatterns.code_pattern_src = bs "^[A-Za-z0-9]+([\.\-\/ _\:]?[A-Za-z0-9]+)*$" /\
  Gen.CodePatterns.code_separator_src = bs "([\.\-\/ _\:])[^A-Za-z0-9]+" /\
  Gen.CodePatterns.code_invalid_chars_src = bs "[^A-Za-z0-9\.\-\/ _\:]" /\
  Gen.CodePatterns.code_non_alphanumerical_src = bs "[^A-Z\d]" /\
  Gen.CodePatterns.code_non_numerical_src = bs "[^\d]" /\
  Gen.CodePatterns.key_pattern_src = bs "^(?:[a-z]|[a-z0-9][a-z0-9-+]*[a-z0-9])$".
Proof. repeat split; reflexivity. Qed.

(* ---- classes ---- *)
Lemma alnum_not_sep c : is_alnum c = true -> is_sep c = false.
Proof. destruct c; intro H; try reflexivity; vm_compute in H; discriminate. Qed.
Lemma alnum_allowed c : is_alnum c = true -> is_allowed c = true.
Proof. destruct c; intro H; try reflexivity; vm_compute in H; discriminate. Qed.
Lemma sep_allowed c : is_sep c = true -> is_allowed c = true.
Proof. destruct c; intro H; try reflexivity; vm_compute in H; discriminate. Qed.
Lemma allowed_cases c : is_allowed c = true -> is_alnum c = true \/ is_sep c = true.
Proof. destruct c; intro H; try (left; reflexivity); try (right; reflexivity); vm_compute in H; discriminate. Qed.
Lemma alnum_not_space c : is_alnum c = true -> (bN c =? 32)%N = false.
Proof. destruct c; intro H; try reflexivity; vm_compute in H; discriminate. Qed.

(* an allowed byte other than the space starts no white-space code point, from either side *)
Lemma space_prefix_allowed c r : is_allowed c = true -> (bN c =? 32)%N = false -> space_prefix (c :: r) = 0.
Proof.
  destruct c; intros H H2; try (vm_compute in H; discriminate); try (vm_compute in H2; discriminate);
  destruct r as [|d [|e r]]; reflexivity.
Qed.
Lemma space_suffix_allowed c r : is_allowed c = true -> (bN c =? 32)%N = false -> space_suffix_rev (c :: r) = 0.
Proof.
  destruct c; intros H H2; try (vm_compute in H; discriminate); try (vm_compute in H2; discriminate);
  destruct r as [|d [|e r]]; cbn; try reflexivity;
  repeat match goal with |- context [(?a && false)%bool] => rewrite (andb_false_r a) end; reflexivity.
Qed.
Lemma space_prefix_space c r : (bN c =? 32)%N = true -> space_prefix (c :: r) = 1.
Proof. intro H. apply N.eqb_eq in H. unfold space_prefix. rewrite H. reflexivity. Qed.
Lemma space_suffix_space c r : (bN c =? 32)%N = true -> space_suffix_rev (c :: r) = 1.
Proof. intro H. apply N.eqb_eq in H. unfold space_suffix_rev. rewrite H. reflexivity. Qed.

(* ---- strip_while ---- *)
Lemma strip_while_zero f fuel s : f s = 0 -> strip_while f fuel s = s.
Proof. destruct fuel; cbn; intro H; [reflexivity|now rewrite H]. Qed.

Lemma skipn_add {A} m : forall k (s : list A), skipn k (skipn m s) = skipn (k + m) s.
Proof.
  induction m as [|m IH]; intros k s; [now rewrite Nat.add_0_r|].
  rewrite Nat.add_succ_r. destruct s as [|x s]; [now rewrite !skipn_nil|]. cbn [skipn]. apply IH.
Qed.

Lemma strip_while_skipn f fuel : forall s, exists k, strip_while f fuel s = skipn k s.
Proof.
  induction fuel as [|n IH]; intro s; cbn [strip_while].
  - exists 0. reflexivity.
  - destruct (f s) as [|m] eqn:E.
    + exists 0. reflexivity.
    + destruct (IH (skipn (S m) s)) as [k Hk]. exists (k + S m). rewrite Hk. apply skipn_add.
Qed.

Lemma strip_while_done f (Hnil : f [] = 0) fuel : forall s, length s <= fuel -> f (strip_while f fuel s) = 0.
Proof.
  induction fuel as [|n IH]; intros s Hl; cbn [strip_while].
  - destruct s; [assumption|cbn in Hl; lia].
  - destruct (f s) as [|m] eqn:E; [assumption|].
    apply IH. rewrite skipn_length. lia.
Qed.

Lemma trim_left_id s : space_prefix s = 0 -> trim_left s = s.
Proof. apply strip_while_zero. Qed.
Lemma trim_right_id s : space_suffix_rev (rev s) = 0 -> trim_right s = s.
Proof. intro H. unfold trim_right. rewrite strip_while_zero by assumption. apply rev_involutive. Qed.

Lemma trim_left_skipn s : exists k, trim_left s = skipn k s.
Proof. apply strip_while_skipn. Qed.
Lemma trim_right_firstn s : exists k, trim_right s = firstn k s.
Proof.
  unfold trim_right. destruct (strip_while_skipn space_suffix_rev (length s) (rev s)) as [k Hk].
  rewrite Hk. exists (length s - k). rewrite skipn_rev, rev_involutive. reflexivity.
Qed.

Lemma forallb_skipn {A} (p : A -> bool) k : forall l, forallb p l = true -> forallb p (skipn k l) = true.
Proof. induction k; intros [|x l] H; cbn; auto. cbn in H. apply andb_prop in H. apply IHk. tauto. Qed.
Lemma forallb_firstn {A} (p : A -> bool) k : forall l, forallb p l = true -> forallb p (firstn k l) = true.
Proof. induction k; intros [|x l] H; cbn; auto. cbn in H. apply andb_prop in H. rewrite (proj1 H). cbn. apply IHk. tauto. Qed.

Lemma forallb_trim_space p s : forallb p s = true -> forallb p (trim_space s) = true.
Proof.
  intro H. unfold trim_space. destruct (trim_right_firstn (trim_left s)) as [k ->].
  apply forallb_firstn. destruct (trim_left_skipn s) as [j ->]. now apply forallb_skipn.
Qed.

(* ---- seps_followed ---- *)
Lemma seps_followed_tail c r : seps_followed (c :: r) = true -> seps_followed r = true.
Proof. cbn. intro H. apply andb_prop in H. tauto. Qed.
Lemma seps_followed_skipn k : forall s, seps_followed s = true -> seps_followed (skipn k s) = true.
Proof. induction k; intros [|c r] H; cbn; auto. apply IHk. eapply seps_followed_tail; eauto. Qed.
Lemma seps_followed_firstn k : forall s, seps_followed s = true -> seps_followed (firstn k s) = true.
Proof.
  induction k; intros [|c r] H; cbn [firstn]; auto.
  cbn in H. apply andb_prop in H. destruct H as [H1 H2].
  cbn [seps_followed]. rewrite (IHk r H2), andb_true_r.
  destruct (is_sep c); auto. destruct k; [reflexivity|]. destruct r; [reflexivity|]. exact H1.
Qed.

Lemma collapse_true_head s : match collapse true s with [] => True | h :: _ => is_alnum h = true end.
Proof.
  induction s as [|c r IH]; cbn; [exact I|].
  destruct (is_alnum c) eqn:E; [exact E|exact IH].
Qed.

Lemma collapse_seps_followed s : forall sk, seps_followed (collapse sk s) = true.
Proof.
  induction s as [|c r IH]; intro sk; cbn [collapse]; [reflexivity|].
  destruct (is_alnum c) eqn:Ea.
  - cbn [seps_followed]. rewrite (alnum_not_sep c Ea), IH. reflexivity.
  - destruct sk; [apply IH|].
    destruct (is_sep c) eqn:Es.
    + cbn [seps_followed]. rewrite Es, IH, andb_true_r.
      destruct r as [|d r']; [reflexivity|].
      destruct (is_alnum d) eqn:Ed; cbn [negb].
      * cbn [collapse]. rewrite Ed. exact Ed.
      * pose proof (collapse_true_head (d :: r')) as Hh. destruct (collapse true (d :: r')); auto.
    + cbn [seps_followed]. rewrite Es, IH. reflexivity.
Qed.

Lemma collapse_id s : seps_followed s = true -> collapse false s = s.
Proof.
  induction s as [|c r IH]; intro H; cbn [collapse]; [reflexivity|].
  pose proof (seps_followed_tail _ _ H) as Ht.
  destruct (is_alnum c) eqn:Ea; [now rewrite IH|].
  destruct (is_sep c) eqn:Es; [|now rewrite IH].
  cbn in H. rewrite Es in H. apply andb_prop in H. destruct H as [H _].
  destruct r as [|d r']; [reflexivity|]. rewrite H. cbn [negb]. now rewrite IH.
Qed.

Lemma filter_id {A} (p : A -> bool) l : forallb p l = true -> filter p l = l.
Proof. induction l; cbn; intro H; auto. apply andb_prop in H. destruct H as [-> H]. now rewrite IHl. Qed.
Lemma forallb_filter_self {A} (p : A -> bool) l : forallb p (filter p l) = true.
Proof. induction l; cbn; auto. destruct (p a) eqn:E; cbn; auto. now rewrite E. Qed.

Lemma filter_seps_followed s : seps_followed s = true -> seps_followed (filter is_allowed s) = true.
Proof.
  induction s as [|c r IH]; intro H; cbn [filter]; [reflexivity|].
  pose proof (seps_followed_tail _ _ H) as Ht.
  destruct (is_allowed c) eqn:Ec; [|now apply IH].
  cbn [seps_followed]. rewrite (IH Ht), andb_true_r.
  destruct (is_sep c) eqn:Es; [|reflexivity].
  cbn in H. rewrite Es in H. apply andb_prop in H. destruct H as [H _].
  destruct r as [|d r']; [reflexivity|]. cbn [filter]. now rewrite (alnum_allowed d H).
Qed.

(* ---- the ends after trimming ---- *)
Lemma hd_not_space_of_prefix s : forallb is_allowed s = true -> space_prefix s = 0 -> not_space (hd_error s) = true.
Proof.
  destruct s as [|c r]; intros H H0; [reflexivity|]. cbn.
  destruct (bN c =? 32)%N eqn:E; [|reflexivity]. now rewrite (space_prefix_space c r E) in H0.
Qed.
Lemma hd_not_space_of_suffix s : forallb is_allowed s = true -> space_suffix_rev s = 0 -> not_space (hd_error s) = true.
Proof.
  destruct s as [|c r]; intros H H0; [reflexivity|]. cbn.
  destruct (bN c =? 32)%N eqn:E; [|reflexivity]. now rewrite (space_suffix_space c r E) in H0.
Qed.

Lemma hd_firstn {A} k (l : list A) : hd_error (firstn k l) = match k with 0 => None | S _ => hd_error l end.
Proof. destruct k, l; reflexivity. Qed.

Lemma trim_space_ends s : forallb is_allowed s = true ->
  not_space (hd_error (trim_space s)) = true /\ not_space (hd_error (rev (trim_space s))) = true.
Proof.
  intro H. unfold trim_space.
  assert (Hl : forallb is_allowed (trim_left s) = true).
  { destruct (trim_left_skipn s) as [j ->]. now apply forallb_skipn. }
  assert (H1 : not_space (hd_error (trim_left s)) = true).
  { apply hd_not_space_of_prefix; auto. unfold trim_left. apply strip_while_done; [reflexivity|lia]. }
  split.
  - destruct (trim_right_firstn (trim_left s)) as [k ->]. rewrite hd_firstn. destruct k; [reflexivity|exact H1].
  - unfold trim_right. rewrite rev_involutive.
    apply hd_not_space_of_suffix.
    + destruct (strip_while_skipn space_suffix_rev (length (trim_left s)) (rev (trim_left s))) as [k ->].
      apply forallb_skipn. rewrite forallb_forall in *. intros x Hx. apply Hl. now apply in_rev.
    + apply strip_while_done; [reflexivity|rewrite rev_length; lia].
Qed.

Lemma seps_followed_trim_space s : seps_followed s = true -> seps_followed (trim_space s) = true.
Proof.
  intro H. unfold trim_space. destruct (trim_right_firstn (trim_left s)) as [k ->].
  apply seps_followed_firstn. destruct (trim_left_skipn s) as [j ->]. now apply seps_followed_skipn.
Qed.

(* ---- the two halves of idempotence ---- *)
Lemma trim_space_id s : forallb is_allowed s = true -> not_space (hd_error s) = true -> not_space (hd_error (rev s)) = true ->
  trim_space s = s.
Proof.
  intros Ha Hh Hl. unfold trim_space.
  assert (E1 : trim_left s = s).
  { apply trim_left_id. destruct s as [|c r]; [reflexivity|]. cbn in Ha, Hh. apply andb_prop in Ha.
    apply space_prefix_allowed; [tauto|]. now apply negb_true_iff in Hh. }
  rewrite E1. apply trim_right_id.
  destruct (rev s) as [|c r] eqn:Er; [reflexivity|].
  assert (Hc : is_allowed c = true).
  { rewrite forallb_forall in Ha. apply Ha. apply in_rev. rewrite Er. now left. }
  cbn in Hl. apply space_suffix_allowed; [exact Hc|]. now apply negb_true_iff in Hl.
Qed.

Theorem normalize_code_fixes_normal s : norm_ok s = true -> normalize_code s = s.
Proof.
  unfold norm_ok. intro H. apply andb_prop in H. destruct H as [H Hl]. apply andb_prop in H. destruct H as [H Hh].
  apply andb_prop in H. destruct H as [Ha Hs].
  unfold normalize_code. rewrite (trim_space_id s Ha Hh Hl), (collapse_id s Hs), (filter_id _ _ Ha).
  apply trim_space_id; assumption.
Qed.

Theorem normalize_code_output_normal s : norm_ok (normalize_code s) = true.
Proof.
  unfold normalize_code, norm_ok.
  set (v := filter is_allowed (collapse false (trim_space s))).
  assert (Ha : forallb is_allowed v = true) by apply forallb_filter_self.
  assert (Hs : seps_followed v = true) by (apply filter_seps_followed, collapse_seps_followed).
  destruct (trim_space_ends v Ha) as [H1 H2].
  now rewrite (forallb_trim_space _ _ Ha), (seps_followed_trim_space _ Hs), H1, H2.
Qed.

Theorem normalize_code_idem s : normalize_code (normalize_code s) = normalize_code s.
Proof. apply normalize_code_fixes_normal, normalize_code_output_normal. Qed.

(* spelled out *)
Theorem normalize_code_output_clean s :
  let o := normalize_code s in
  Forall (fun c => is_allowed c = true) o /\
  (forall a c b, o = a ++ c :: b -> is_sep c = true -> b = [] \/ exists d b', b = d :: b' /\ is_alnum d = true) /\
  (forall c r, o = c :: r -> bN c <> 32%N) /\ (forall a c, o = a ++ [c] -> bN c <> 32%N).
Proof.
  cbv zeta. pose proof (normalize_code_output_normal s) as H. unfold norm_ok in H.
  apply andb_prop in H. destruct H as [H Hl]. apply andb_prop in H. destruct H as [H Hh].
  apply andb_prop in H. destruct H as [Ha Hs].
  set (o := normalize_code s) in *. clearbody o. repeat split.
  - apply Forall_forall. now apply forallb_forall.
  - intros a c b -> Hc. pose proof (seps_followed_skipn (length a) _ Hs) as Hk.
    rewrite skipn_app, skipn_all, Nat.sub_diag in Hk. cbn in Hk. rewrite Hc in Hk.
    apply andb_prop in Hk. destruct Hk as [Hk _]. destruct b as [|d b']; [now left|right]. eauto.
  - intros c r -> E. cbn in Hh. rewrite E in Hh. discriminate.
  - intros a c -> E. rewrite rev_app_distr in Hl. cbn in Hl. rewrite E in Hl. discriminate.
Qed.

(* ---- valid codes ---- *)
Lemma lang_rplus_set rs s : lang (rplus (RSet false rs)) s ->
  exists c r, s = c :: r /\ forallb (fun b => in_ranges (bN b) rs) (c :: r) = true.
Proof.
  intro H. apply lang_rplus in H. destruct H as [k H]. revert s H.
  induction k as [|k IH]; intros s H; cbn [rpow] in H; apply lang_cat in H; destruct H as [s1 [s2 [-> [H1 H2]]]];
  apply lang_set in H1; destruct H1 as [c [-> Hc]]; unfold set_mem in Hc; rewrite xorb_false_l in Hc.
  - apply lang_eps in H2. subst. exists c, []. cbn. now rewrite Hc.
  - destruct (IH _ H2) as [d [r [-> Hr]]]. exists c, (d :: r). split; [reflexivity|].
    cbn [forallb app]. cbn [forallb] in Hr. now rewrite Hc, Hr.
Qed.

Definition tail_good (t : bytes) : Prop :=
  forallb is_allowed t = true /\ seps_followed t = true /\
  (t = [] \/ exists t' c, t = t' ++ [c] /\ is_alnum c = true) /\
  (t = [] \/ exists c r, t = c :: r /\ (is_alnum c = true \/ (is_sep c = true /\ exists d r', r = d :: r' /\ is_alnum d = true))).

Lemma forallb_alnum_allowed a : forallb is_alnum a = true -> forallb is_allowed a = true.
Proof. rewrite !forallb_forall. intros H x Hx. apply alnum_allowed. auto. Qed.

Lemma seps_followed_alnums a t : forallb is_alnum a = true -> seps_followed (a ++ t) = seps_followed t.
Proof.
  induction a as [|c a IH]; intro H; [reflexivity|]. cbn in H. apply andb_prop in H. destruct H as [Hc H].
  cbn [app seps_followed]. rewrite (alnum_not_sep c Hc), IH by assumption. reflexivity.
Qed.

Lemma last_split_nonempty (c : byte) (r : bytes) : exists t' x, c :: r = t' ++ [x].
Proof.
  revert c. induction r as [|d r IH]; intro c.
  - exists [], c. reflexivity.
  - destruct (IH d) as [t' [x E]]. exists (c :: t'), x. cbn. now rewrite E.
Qed.

Lemma alnums_last c r : forallb is_alnum (c :: r) = true -> exists t' x, c :: r = t' ++ [x] /\ is_alnum x = true.
Proof.
  intro H. destruct (last_split_nonempty c r) as [t' [x E]]. exists t', x. split; [exact E|].
  rewrite forallb_forall in H. apply H. rewrite E. apply in_or_app. right. now left.
Qed.

Lemma star_blocks_good k : forall t,
  lang (rpow (RCat (ropt (RSet false sep_ranges)) (rplus (RSet false alnum_ranges))) k) t -> tail_good t.
Proof.
  induction k as [|k IH]; intros t H; cbn [rpow] in H.
  - apply lang_eps in H. subst. repeat split; auto.
  - apply lang_cat in H. destruct H as [blk [t2 [-> [Hb H2]]]]. specialize (IH _ H2).
    destruct IH as [Ha2 [Hs2 [Hl2 Hh2]]].
    apply lang_cat in Hb. destruct Hb as [o [a [-> [Ho Hal]]]].
    apply lang_rplus_set in Hal. destruct Hal as [c [r [-> Hcr]]]. fold (is_alnum) in Hcr.
    change (forallb is_alnum (c :: r) = true) in Hcr.
    assert (Hlast : exists t' x, (c :: r) ++ t2 = t' ++ [x] /\ is_alnum x = true).
    { destruct Hl2 as [->|[t' [x [-> Hx]]]].
      - rewrite app_nil_r. now apply alnums_last.
      - exists ((c :: r) ++ t'), x. split; [now rewrite app_assoc|exact Hx]. }
    assert (Hc : is_alnum c = true) by (cbn in Hcr; apply andb_prop in Hcr; tauto).
    apply lang_ropt in Ho. destruct Ho as [->|Ho].
    + cbn [app]. repeat split.
      * change (forallb is_allowed ((c :: r) ++ t2) = true). rewrite forallb_app, (forallb_alnum_allowed _ Hcr), Ha2. reflexivity.
      * change (seps_followed ((c :: r) ++ t2) = true). now rewrite seps_followed_alnums.
      * right. exact Hlast.
      * right. exists c, (r ++ t2). split; [reflexivity|now left].
    + apply lang_set in Ho. destruct Ho as [sp [-> Hsp]]. unfold set_mem in Hsp. rewrite xorb_false_l in Hsp.
      change (is_sep sp = true) in Hsp. cbn [app]. repeat split.
      * cbn [forallb]. rewrite (sep_allowed sp Hsp). cbn [andb].
        change (forallb is_allowed ((c :: r) ++ t2) = true). rewrite forallb_app, (forallb_alnum_allowed _ Hcr), Ha2. reflexivity.
      * cbn [seps_followed]. rewrite Hsp, Hc. cbn [andb].
        change (seps_followed ((c :: r) ++ t2) = true). now rewrite seps_followed_alnums.
      * right. destruct Hlast as [t' [x [E Hx]]]. exists (sp :: t'), x. split; [|exact Hx].
        change (sp :: ((c :: r) ++ t2) = sp :: (t' ++ [x])). now rewrite E.
      * right. exists sp, (c :: r ++ t2). split; [reflexivity|right]. split; [exact Hsp|]. eauto.
Qed.

Lemma code_body_normal s : lang code_body s -> norm_ok s = true.
Proof.
  unfold code_body. intro H. apply lang_cat in H. destruct H as [a [t [-> [Ha Ht]]]].
  apply lang_rplus_set in Ha. destruct Ha as [c [r [-> Hcr]]]. change (forallb is_alnum (c :: r) = true) in Hcr.
  apply lang_star_pow in Ht. destruct Ht as [k Ht]. apply star_blocks_good in Ht.
  destruct Ht as [Ha2 [Hs2 [Hl2 _]]].
  assert (Hc : is_alnum c = true) by (cbn in Hcr; apply andb_prop in Hcr; tauto).
  unfold norm_ok. rewrite forallb_app, (forallb_alnum_allowed _ Hcr), Ha2, seps_followed_alnums, Hs2 by assumption.
  cbn [andb app hd_error not_space]. rewrite (alnum_not_space c Hc). cbn [negb andb].
  assert (Hlast : exists t' x, (c :: r) ++ t = t' ++ [x] /\ is_alnum x = true).
  { destruct Hl2 as [->|[t' [x [-> Hx]]]].
    - rewrite app_nil_r. now apply alnums_last.
    - exists ((c :: r) ++ t'), x. split; [now rewrite app_assoc|exact Hx]. }
  destruct Hlast as [t' [x [E Hx]]]. change (c :: r ++ t) with ((c :: r) ++ t). rewrite E, rev_app_distr. cbn.
  now rewrite (alnum_not_space x Hx).
Qed.

Theorem valid_code_normal s : code_valid s = true -> norm_ok s = true.
Proof.
  unfold code_valid. intro H. apply andb_prop in H. destruct H as [_ H].
  apply pattern_matches_correct in H. destruct H as [pre [mid [post [E [Hl [Hp Hq]]]]]].
  destruct code_pattern_pinned as [Ep _]. rewrite Ep in Hl, Hp, Hq. cbn in Hl, Hp, Hq.
  rewrite (Hp eq_refl), (Hq eq_refl), app_nil_r in E. cbn in E. subst. now apply code_body_normal.
Qed.

Theorem normalize_code_fixes_valid s : code_valid s = true -> normalize_code s = s.
Proof. intro H. apply normalize_code_fixes_normal, valid_code_normal, H. Qed.

(* ---- the derived normalisers ---- *)
Lemma upper_digit_alnum c : is_upper_digit c = true -> is_alnum c = true.
Proof. destruct c; intro H; try reflexivity; vm_compute in H; discriminate. Qed.
Lemma upper_digit_fixed c : is_upper_digit c = true -> ascii_upper c = c.
Proof. destruct c; intro H; try reflexivity; vm_compute in H; discriminate. Qed.
Lemma digit_upper_digit c : is_digit_c c = true -> is_upper_digit c = true.
Proof. destruct c; intro H; try reflexivity; vm_compute in H; discriminate. Qed.

Lemma alnums_normal s : forallb is_alnum s = true -> norm_ok s = true.
Proof.
  intro H. unfold norm_ok. rewrite (forallb_alnum_allowed _ H).
  replace (seps_followed s) with (seps_followed (s ++ [])) by now rewrite app_nil_r.
  rewrite seps_followed_alnums by assumption. cbn [seps_followed andb].
  destruct s as [|c r]; [reflexivity|].
  destruct (alnums_last c r H) as [t' [x [E Hx]]]. rewrite E at 2. rewrite rev_app_distr. cbn.
  cbn in H. apply andb_prop in H. now rewrite (alnum_not_space c (proj1 H)), (alnum_not_space x Hx).
Qed.

Theorem normalize_alnum_output s : forallb is_upper_digit (normalize_alnum_code s) = true.
Proof. apply forallb_filter_self. Qed.
Theorem normalize_num_output s : forallb is_digit_c (normalize_num_code s) = true.
Proof. apply forallb_filter_self. Qed.

Lemma normalize_alnum_fixes s : forallb is_upper_digit s = true -> normalize_alnum_code s = s.
Proof.
  intro H. unfold normalize_alnum_code.
  assert (Ha : forallb is_alnum s = true).
  { rewrite forallb_forall in *. intros x Hx. apply upper_digit_alnum. auto. }
  rewrite (normalize_code_fixes_normal s (alnums_normal s Ha)).
  assert (E : map ascii_upper s = s).
  { rewrite <- (map_id s) at 2. apply map_ext_in. intros x Hx. apply upper_digit_fixed. rewrite forallb_forall in H. auto. }
  rewrite E. now apply filter_id.
Qed.

Theorem normalize_alnum_idem s : normalize_alnum_code (normalize_alnum_code s) = normalize_alnum_code s.
Proof. apply normalize_alnum_fixes, normalize_alnum_output. Qed.

Theorem normalize_num_idem s : normalize_num_code (normalize_num_code s) = normalize_num_code s.
Proof.
  pose proof (normalize_num_output s) as H. set (o := normalize_num_code s) in *. clearbody o.
  unfold normalize_num_code.
  assert (Ha : forallb is_alnum o = true).
  { rewrite forallb_forall in *. intros x Hx. apply upper_digit_alnum, digit_upper_digit. auto. }
  rewrite (normalize_code_fixes_normal o (alnums_normal o Ha)). now apply filter_id.
Qed.

(* a non-empty run of alphanumericals is in the language of the Code pattern *)
Lemma lang_star_set rs s : forallb (fun b => in_ranges (bN b) rs) s = true -> lang (RStar (RSet false rs)) s.
Proof.
  induction s as [|c r IH]; intro H; [constructor|]. cbn in H. apply andb_prop in H. destruct H as [Hc H].
  change (c :: r) with ([c] ++ r). constructor; [|now apply IH]. constructor. unfold set_mem. now rewrite xorb_false_l.
Qed.

Theorem alnums_match_code_pattern s : s <> [] -> forallb is_alnum s = true ->
  pattern_matches Gen.CodePatterns.code_pattern s = true.
Proof.
  intros Hne H. apply pattern_matches_correct. exists [], s, []. rewrite app_nil_r. split; [reflexivity|].
  destruct code_pattern_pinned as [Ep _]. rewrite Ep. cbn [p_body p_start p_end]. split; [|split; reflexivity].
  unfold code_body. rewrite <- (app_nil_r s). constructor; [|constructor].
  destruct s as [|c r]; [congruence|]. cbn in H. apply andb_prop in H. destruct H as [Hc H].
  unfold rplus. change (c :: r) with ([c] ++ r). constructor.
  - constructor. unfold set_mem. rewrite xorb_false_l. exact Hc.
  - now apply lang_star_set.
Qed.

Theorem normalize_alnum_valid_or_empty s :
  normalize_alnum_code s = [] \/ pattern_matches Gen.CodePatterns.code_pattern (normalize_alnum_code s) = true.
Proof.
  pose proof (normalize_alnum_output s) as H. destruct (normalize_alnum_code s) as [|c r] eqn:E; [now left|right].
  apply alnums_match_code_pattern; [discriminate|].
  rewrite forallb_forall in *. intros x Hx. apply upper_digit_alnum. auto.
Qed.

(* ---- what NormalizeCode does NOT give: a valid code ---- *)
Theorem normalize_code_valid_refuted :
  exists s, normalize_code s = s /\ s <> [] /\ code_valid s = false.
Proof. exists (bs "A-"). repeat split; try reflexivity. discriminate. Qed.
Theorem normalize_code_valid_refuted_more :
  normalize_code (bs "#-A") = bs "-A" /\ code_valid (bs "-A") = false /\
  normalize_code (bs " . ") = bs "." /\ code_valid (bs ".") = false /\
  normalize_code (bs "A-B C_D E/F G.H I:J K-L M-N O-P Q") = bs "A-B C_D E/F G.H I:J K-L M-N O-P Q" /\
  code_valid (bs "A-B C_D E/F G.H I:J K-L M-N O-P Q") = false.
Proof. repeat split; vm_compute; reflexivity. Qed.
