(* C04 - proofs about the map marshalling model (Fix/MapJson.v): the text json.Marshal writes for a map
   does not depend on the order in which the entries are listed (Go's map iteration order), because the
   keys are sorted first; the listing in key order is a rearrangement of the entries and is itself
   independent of the order. *)
From Coq Require Import List ZArith Strings.Byte Bool Permutation Sorting.Sorted Lia.
From Verif Require Import Base.Wire Json.Utf8 Json.Json Json.JsonProofs Json.Number Json.Lexer Json.LexProofs Fix.MapJson.
Import ListNotations.

Lemma as_members_keys m : map fst (as_members m) = map fst m.
Proof. unfold as_members. rewrite map_map. reflexivity. Qed.

Lemma sort_order_independent m1 m2 : Permutation m1 m2 -> NoDup (map fst m1) ->
  sort_members (as_members m1) = sort_members (as_members m2).
Proof.
  intros HP ND. apply sort_permutation_invariant.
  - unfold as_members. now apply Permutation_map.
  - now rewrite as_members_keys.
Qed.

Theorem marshal_map_perm m1 m2 : Permutation m1 m2 -> NoDup (map fst m1) -> marshal_map m1 = marshal_map m2.
Proof. intros HP ND. unfold marshal_map. now rewrite (sort_order_independent m1 m2 HP ND). Qed.

Theorem sorted_entries_perm_invariant m1 m2 : Permutation m1 m2 -> NoDup (map fst m1) -> sorted_entries m1 = sorted_entries m2.
Proof. intros HP ND. unfold sorted_entries. now rewrite (sort_order_independent m1 m2 HP ND). Qed.

Lemma of_member_as kv : of_member (fst kv, JStr (snd kv)) = kv.
Proof. destruct kv; reflexivity. Qed.

Theorem sorted_entries_perm m : Permutation (sorted_entries m) m.
Proof.
  unfold sorted_entries. eapply perm_trans; [apply Permutation_map, sort_perm|].
  unfold as_members. rewrite map_map. erewrite map_ext; [rewrite map_id; apply Permutation_refl|].
  intro kv. apply of_member_as.
Qed.

(* the keys of the written object are in strictly ascending byte order *)
Theorem sorted_entries_sorted m : StronglySorted (fun a b => bytes_ltb (fst b) (fst a) = false) (sorted_entries m).
Proof.
  unfold sorted_entries. pose proof (sort_sorted (as_members m)) as H.
  induction H as [|x l HS IH HF]; cbn; constructor; auto.
  apply Forall_map. eapply Forall_impl; [|exact HF]. intros y Hy. exact Hy.
Qed.

(* ---- reading back what was written ---- *)
Lemma gj_piece_scan b : (bZ b <? 128)%Z = true -> forall f tail,
  scan_string (S f) ((if html_safe b then [b] else gj_escape b) ++ tail)
  = option_map (fun '(o, t) => (b :: o, t)) (scan_string f tail).
Proof.
  intros H f tail.
  destruct b; try (vm_compute in H; discriminate H); reflexivity.
Qed.

Lemma gj_piece_length b : (1 <= length (if html_safe b then [b] else gj_escape b))%nat.
Proof.
  destruct (html_safe b); cbn; [lia|]. unfold gj_escape.
  repeat match goal with |- context [if ?c then _ else _] => destruct c end; cbn; lia.
Qed.

Lemma gj_body_S f b r : gj_body (S f) (b :: r) =
  if (bZ b <? 128)%Z then (if html_safe b then [b] else gj_escape b) ++ gj_body f r
  else let '(cp, n) := decode_rune (b :: r) in
       if ((cp =? rune_error)%Z && Nat.eqb n 1)%bool then gj_fffd ++ gj_body f r
       else if ((cp =? 8232) || (cp =? 8233))%Z%bool
         then [c_bs; c_u; ch 50; ch 48; ch 50; hex_lower (cp mod 16)] ++ gj_body f (skipn n (b :: r))
       else firstn n (b :: r) ++ gj_body f (skipn n (b :: r)).
Proof. reflexivity. Qed.

Lemma text_plain_S f b r : text_plain_f (S f) (b :: r) =
  let '(cp, n) := decode_rune (b :: r) in
  if ((cp =? rune_error) || (cp =? 8232) || (cp =? 8233))%Z%bool then false else text_plain_f f (skipn n (b :: r)).
Proof. reflexivity. Qed.

Lemma decode_ascii b r : (bZ b <? 128)%Z = true -> decode_rune (b :: r) = (bZ b, 1%nat).
Proof. intro H. unfold decode_rune. now rewrite H. Qed.

Lemma gj_scan n : forall s, text_plain_f n s = true -> forall rest fuel, (length (gj_body n s) < fuel)%nat ->
  scan_string fuel (gj_body n s ++ c_quote :: rest) = Some (s, rest).
Proof.
  induction n as [|n IH]; intros s H rest fuel Hf.
  - destruct s; [|discriminate]. cbn [gj_body app]. destruct fuel as [|f]; [cbn in Hf; lia|]. reflexivity.
  - destruct s as [|b r].
    + cbn [gj_body app]. destruct fuel as [|f]; [cbn in Hf; lia|]. reflexivity.
    + rewrite text_plain_S in H. rewrite gj_body_S in *. destruct (bZ b <? 128)%Z eqn:E.
      * rewrite (decode_ascii b r E) in H.
        destruct ((bZ b =? rune_error) || (bZ b =? 8232) || (bZ b =? 8233))%Z%bool; [discriminate|]. cbn [skipn] in H.
        destruct fuel as [|f]; [lia|].
        rewrite <- app_assoc. rewrite (gj_piece_scan b E).
        rewrite (IH r H rest f); [reflexivity|].
        rewrite app_length in Hf. pose proof (gj_piece_length b). lia.
      * destruct (decode_rune (b :: r)) as [cp k] eqn:D.
        destruct (cp =? rune_error)%Z eqn:Ecp; [discriminate|]. cbn [orb andb] in *.
        destruct ((cp =? 8232) || (cp =? 8233))%Z%bool eqn:Esp; [discriminate|].
        apply Z.eqb_neq in Ecp.
        destruct (decode_prefix _ _ _ D Ecp) as [HL [Hk HD]].
        destruct (decode_first_ge128 _ _ _ _ D E Ecp) as [r' Hr'].
        destruct fuel as [|f]; [lia|].
        rewrite <- app_assoc. rewrite scan_string_S. rewrite Hr' at 1. cbn [app].
        assert ((bZ b =? 34)%Z = false) as -> by (apply Z.eqb_neq; apply Z.ltb_ge in E; lia).
        assert ((bZ b <? 32)%Z = false) as -> by (apply Z.ltb_ge; apply Z.ltb_ge in E; lia).
        assert ((bZ b =? 92)%Z = false) as -> by (apply Z.eqb_neq; apply Z.ltb_ge in E; lia).
        rewrite E. cbv zeta.
        rewrite HD.
        assert ((cp =? rune_error)%Z = false) as -> by (now apply Z.eqb_neq). cbn [andb].
        rewrite firstn_app, HL, Nat.sub_diag, firstn_O, app_nil_r, firstn_firstn, Nat.min_id.
        rewrite skipn_app, HL, Nat.sub_diag. cbn [skipn].
        assert (skipn k (firstn k (b :: r)) = []) as ->.
        { rewrite <- HL at 1. apply skipn_all. }
        cbn [app]. rewrite (IH _ H rest f);
          [cbn [option_map]; now rewrite firstn_skipn | rewrite app_length, HL in Hf; lia].
Qed.

Lemma skip_ws_nonspace b r : is_space b = false -> skip_ws (b :: r) = b :: r.
Proof. intro H. cbn. now rewrite H. Qed.

Lemma read_string_gj s rest : text_plain s = true -> read_string (gj_string s ++ rest) = Some (s, rest).
Proof.
  intro H. unfold read_string, gj_string. cbn [app]. rewrite skip_ws_nonspace by reflexivity.
  change (Byte.eqb c_quote c_quote) with true. cbv iota.
  rewrite <- app_assoc. cbn [app]. apply gj_scan; [exact H|]. rewrite app_length. cbn. lia.
Qed.

Definition member_ok (kv : bytes * jv) : Prop :=
  exists v, snd kv = JStr v /\ text_plain (fst kv) = true /\ text_plain v = true.

Lemma parse_members_step k v rest acc f : text_plain k = true -> text_plain v = true ->
  parse_members (S f) (gj_string k ++ c_colon :: gj_string v ++ rest) acc =
  match skip_ws rest with
  | d :: r4 =>
    if Byte.eqb d c_comma then parse_members f r4 ((k, v) :: acc)
    else if Byte.eqb d (ch 125) then match skip_ws r4 with [] => Some (rev ((k, v) :: acc)) | _ => None end
    else None
  | [] => None
  end.
Proof.
  intros Hk Hv. cbn [parse_members]. rewrite (read_string_gj k _ Hk).
  rewrite skip_ws_nonspace by reflexivity. change (Byte.eqb c_colon c_colon) with true. cbv iota.
  rewrite (read_string_gj v _ Hv). reflexivity.
Qed.

Lemma parse_members_join l : forall acc fuel, l <> [] -> Forall member_ok l -> (length l <= fuel)%nat ->
  parse_members fuel (join_members l ++ [ch 125]) acc = Some (rev acc ++ map of_member l).
Proof.
  induction l as [|x l IH]; intros acc fuel Hne Hok Hf; [congruence|].
  inversion Hok as [|? ? Hx Hl]; subst. destruct x as [k xv]. destruct Hx as [v [Ev [Hk Hv]]]. cbn in Ev, Hk. subst xv.
  destruct fuel as [|f]; [cbn in Hf; lia|].
  destruct l as [|y l'].
  - cbn [join_members member_text fst snd]. rewrite <- app_assoc. cbn [app].
    rewrite (parse_members_step k v [ch 125] acc f Hk Hv). reflexivity.
  - change (join_members ((k, JStr v) :: y :: l')) with (member_text (k, JStr v) ++ c_comma :: join_members (y :: l')).
    cbn [member_text fst snd]. rewrite <- app_assoc. cbn [app]. rewrite <- app_assoc. cbn [app].
    change (gj_string k ++ c_colon :: gj_string v ++ c_comma :: join_members (y :: l') ++ [ch 125])
      with (gj_string k ++ c_colon :: gj_string v ++ (c_comma :: join_members (y :: l') ++ [ch 125])).
    rewrite (parse_members_step k v _ acc f Hk Hv).
    rewrite skip_ws_nonspace by reflexivity. change (Byte.eqb c_comma c_comma) with true. cbv iota.
    rewrite IH; [|discriminate|exact Hl|cbn in *; lia].
    cbn [rev map]. now rewrite <- app_assoc.
Qed.

Lemma join_length l : Forall member_ok l -> (length l <= length (join_members l))%nat.
Proof.
  induction l as [|x l IH]; intro H; [cbn; lia|]. inversion H as [|? ? Hx Hl]; subst.
  destruct x as [k xv]. destruct Hx as [v [Ev _]]. cbn in Ev. subst xv. specialize (IH Hl).
  destruct l as [|y l']; [cbn; lia|].
  change (join_members ((k, JStr v) :: y :: l')) with (member_text (k, JStr v) ++ c_comma :: join_members (y :: l')).
  rewrite app_length. cbn [length] in *. lia.
Qed.

Theorem parse_marshal_map m :
  Forall (fun kv => text_plain (fst kv) = true /\ text_plain (snd kv) = true) m ->
  parse_map (marshal_map m) = Some (sorted_entries m).
Proof.
  intro H. unfold marshal_map, sorted_entries.
  assert (Hok : Forall member_ok (sort_members (as_members m))).
  { eapply Permutation_Forall; [symmetry; apply sort_perm|]. unfold as_members. apply Forall_map.
    eapply Forall_impl; [|exact H]. intros [k v] [H1 H2]. exists v. auto. }
  set (L := sort_members (as_members m)) in *. clearbody L.
  unfold parse_map. rewrite skip_ws_nonspace by reflexivity. change (Byte.eqb (ch 123) (ch 123)) with true. cbv iota.
  destruct L as [|x L'].
  - reflexivity.
  - inversion Hok as [|? ? Hx _]; subst. destruct x as [k xv]. destruct Hx as [v [Ev _]]. cbn in Ev. subst xv.
    assert (Es : exists t, join_members ((k, JStr v) :: L') ++ [ch 125] = c_quote :: t).
    { destruct L'; cbn; eauto. }
    destruct Es as [t Et]. rewrite Et. rewrite skip_ws_nonspace by reflexivity.
    change (Byte.eqb c_quote (ch 125)) with false. cbv iota. rewrite <- Et.
    rewrite parse_members_join; [reflexivity|discriminate|exact Hok|].
    pose proof (join_length _ Hok) as Hj. cbn [length]. rewrite app_length. cbn [length] in *. lia.
Qed.
