(* C04 - proofs about the map marshalling model (Fix/MapJson.v): the text json.Marshal writes for a map
   does not depend on the order in which the entries are listed (Go's map iteration order), because the
   keys are sorted first; the listing in key order is a rearrangement of the entries and is itself
   independent of the order. *)
From Coq Require Import List ZArith Strings.Byte Bool Permutation Sorting.Sorted.
From Verif Require Import Base.Wire Json.Utf8 Json.Json Json.JsonProofs Fix.MapJson.
Import ListNotations.

Lemma as_members_keys m : map fst (as_members m) = map fst m.
Proof. unfold as_members. rewrite map_map. reflexivity. Qed.

Lemma sort_order_independent m1 m2 : Permutation m1 m2 -> NoDup (map fst m1) ->
  sort_members (as_members m1) = sort_members (as_members m2).
Proof.
  intros HP ND. apply sort_permutation_invariant.
  - unfold as_members. now apply Permutation_map.
  - now rewrite as_members_keys.
Qed.

Theorem marshal_map_perm m1 m2 : Permutation m1 m2 -> NoDup (map fst m1) -> marshal_map m1 = marshal_map m2.
Proof. intros HP ND. unfold marshal_map. now rewrite (sort_order_independent m1 m2 HP ND). Qed.

Theorem sorted_entries_perm_invariant m1 m2 : Permutation m1 m2 -> NoDup (map fst m1) -> sorted_entries m1 = sorted_entries m2.
Proof. intros HP ND. unfold sorted_entries. now rewrite (sort_order_independent m1 m2 HP ND). Qed.

Lemma of_member_as kv : of_member (fst kv, JStr (snd kv)) = kv.
Proof. destruct kv; reflexivity. Qed.

Theorem sorted_entries_perm m : Permutation (sorted_entries m) m.
Proof.
  unfold sorted_entries. eapply perm_trans; [apply Permutation_map, sort_perm|].
  unfold as_members. rewrite map_map. erewrite map_ext; [rewrite map_id; apply Permutation_refl|].
  intro kv. apply of_member_as.
Qed.

(* the keys of the written object are in strictly ascending byte order *)
Theorem sorted_entries_sorted m : StronglySorted (fun a b => bytes_ltb (fst b) (fst a) = false) (sorted_entries m).
Proof.
  unfold sorted_entries. pose proof (sort_sorted (as_members m)) as H.
  induction H as [|x l HS IH HF]; cbn; constructor; auto.
  apply Forall_map. eapply Forall_impl; [|exact HF]. intros y Hy. exact Hy.
Qed.
