(* C04 - the text codec of cal.Date (cal/date.go over cloud.google.com/go/civil).

   Writing: civil.Date.MarshalText = String() = fmt.Sprintf("%04d-%02d-%02d", Year, Month, Day).
   Reading (cal.Date.UnmarshalJSON on the unquoted string): "0000-00-00" is the zero date; otherwise
   civil.ParseDate = time.Parse("2006-01-02", s): exactly four digits, '-', exactly two digits,
   '-', exactly two digits, nothing behind; month 1..12, day 1..days of that month (proleptic
   Gregorian, year 0 is a leap year), else an error.  Model file: no proofs. *)
From Coq Require Import List ZArith Strings.Byte Bool.
From Verif Require Import Base.Wire Defs.DefTypes Rates.Date Json.Number.
Import ListNotations.
Open Scope Z_scope.

Definition c_dash : byte := ch 45.

(* %02d / %04d of a non-negative number *)
Definition pad2 (n : Z) : bytes :=
  if n <? 100 then [ch (48 + n / 10); ch (48 + n mod 10)] else nat_dec_bytes n.
Definition pad4 (n : Z) : bytes :=
  if n <? 10000 then [ch (48 + n / 1000); ch (48 + (n / 100) mod 10); ch (48 + (n / 10) mod 10); ch (48 + n mod 10)]
  else nat_dec_bytes n.

(* dates the codec is used on: no negative field *)
Definition date_nonneg (d : date) : bool := (0 <=? d_year d) && (0 <=? d_month d) && (0 <=? d_day d).

Definition print_date (d : date) : bytes :=
  pad4 (d_year d) ++ c_dash :: pad2 (d_month d) ++ c_dash :: pad2 (d_day d).

Definition dv (b : byte) : Z := bZ b - 48.

Definition zero_date : date := mkDate 0 0 0.

Definition parse_date (s : bytes) : option date :=
  match s with
  | [y1; y2; y3; y4; s1; m1; m2; s2; d1; d2] =>
    if is_digit y1 && is_digit y2 && is_digit y3 && is_digit y4 && Byte.eqb s1 c_dash
       && is_digit m1 && is_digit m2 && Byte.eqb s2 c_dash && is_digit d1 && is_digit d2 then
      let d := mkDate (((dv y1 * 10 + dv y2) * 10 + dv y3) * 10 + dv y4) (dv m1 * 10 + dv m2) (dv d1 * 10 + dv d2) in
      if date_eqb d zero_date then Some d
      else if date_valid d then Some d else None
    else None
  | _ => None
  end.

(* what a stored date is after reading: valid with a four-digit year, or the zero date *)
Definition date_storable (d : date) : bool :=
  date_eqb d zero_date || ((0 <=? d_year d) && (d_year d <=? 9999) && date_valid d).
