(* C04 - proofs about the scenario-note step (Fix/ScenarioNotes.v): when it is a fixpoint, that it is
   not one as shipped, that it always is one from the second calculation on, that it is one for every
   scenario set once ScenarioSet.Notes() lists the notes with the codes SummaryFor gives them, and that
   the other notes of a document keep their order. *)
From Coq Require Import String.
From Coq Require Import List Bool Lia.
From Verif Require Import Base.Wire Json.JsonProofs Fix.ScenarioNotes.
Import ListNotations.

Definition triple (n : note) : bytes * bytes * bytes := (n_key n, n_code n, n_src n).
Definition striple (sn : snote) : bytes * bytes * bytes := (sn_key sn, sn_code sn, sn_src sn).

Lemma triple_from sn : triple (from_scenario sn) = striple sn.
Proof. reflexivity. Qed.

Lemma same_as_iff a b : same_as a b = true <-> triple a = triple b.
Proof.
  unfold same_as, triple. rewrite !andb_true_iff, !eqb_bytes_eq. split.
  - intros [[-> ->] ->]. reflexivity.
  - intro H. inversion H. auto.
Qed.
Lemma sn_same_iff a b : sn_same a b = true <-> striple a = striple b.
Proof.
  unfold sn_same, striple. rewrite !andb_true_iff, !eqb_bytes_eq. split.
  - intros [[-> ->] ->]. reflexivity.
  - intro H. inversion H. auto.
Qed.
Lemma same_as_refl a : same_as a a = true.
Proof. now apply same_as_iff. Qed.

Lemma is_scenario_note_iff sns n : is_scenario_note sns n = true <-> In (triple n) (map striple sns).
Proof.
  unfold is_scenario_note. rewrite existsb_exists, in_map_iff. split.
  - intros [sn [Hin H]]. apply same_as_iff in H. exists sn. now rewrite <- H.
  - intros [sn [H Hin]]. exists sn. split; auto. apply same_as_iff. now rewrite triple_from.
Qed.
Lemma is_scenario_note_triple sns a b : triple a = triple b -> is_scenario_note sns a = is_scenario_note sns b.
Proof.
  intro H. apply eq_true_iff_eq. now rewrite !is_scenario_note_iff, H.
Qed.

(* ---- removePreviousScenarioNotes is a filter ---- *)
Lemma remove_previous_filter sns notes : remove_previous sns notes = filter (keep_note sns) notes.
Proof.
  unfold remove_previous. destruct sns as [|sn sns].
  - induction notes as [|[n|] r IH]; cbn; auto; now rewrite <- IH.
  - destruct notes; reflexivity.
Qed.

Lemma filter_idem {A} (p : A -> bool) l : filter p (filter p l) = filter p l.
Proof. induction l; cbn; auto. destruct (p a) eqn:E; cbn; [rewrite E|]; now rewrite ?IHl. Qed.

(* ---- the summary has pairwise different key/code/source ---- *)
Lemma add_note_triples acc n :
  map striple (add_note acc n) = if existsb (fun x => sn_same x n) acc then map striple acc else map striple acc ++ [striple n].
Proof.
  induction acc as [|x r IH]; cbn; [reflexivity|].
  destruct (sn_same x n) eqn:E; cbn.
  - apply sn_same_iff in E. now rewrite E.
  - rewrite IH. destruct (existsb (fun x0 => sn_same x0 n) r); reflexivity.
Qed.

Lemma NoDup_snoc {A} (l : list A) x : NoDup l -> ~ In x l -> NoDup (l ++ [x]).
Proof.
  induction l as [|y l IH]; intros H Hx; cbn; [constructor; [intros []|constructor]|].
  inversion H; subst. constructor.
  - intro Hin. apply in_app_or in Hin. destruct Hin as [?|[->|[]]]; [contradiction|]. apply Hx. now left.
  - apply IH; auto. intro. apply Hx. now right.
Qed.

Lemma add_note_nodup acc n : NoDup (map striple acc) -> NoDup (map striple (add_note acc n)).
Proof.
  intro H. rewrite add_note_triples. destruct (existsb (fun x => sn_same x n) acc) eqn:E; [exact H|].
  apply NoDup_snoc; [exact H|].
  intro Hin. apply in_map_iff in Hin. destruct Hin as [x [Hx Hin]].
  assert (existsb (fun x0 => sn_same x0 n) acc = true); [|congruence].
  apply existsb_exists. exists x. split; auto. now apply sn_same_iff.
Qed.

Definition summary_step (acc : list snote) (s : scenario) : list snote :=
  if sc_match s then match sc_note s with Some n => add_note acc (with_code (sc_extcode s) n) | None => acc end else acc.

Lemma summary_nodup_from ss : forall acc, NoDup (map striple acc) -> NoDup (map striple (fold_left summary_step ss acc)).
Proof.
  induction ss as [|s ss IH]; intros acc H; cbn; [exact H|].
  apply IH. unfold summary_step. destruct (sc_match s); [|exact H]. destruct (sc_note s); [|exact H]. now apply add_note_nodup.
Qed.
Lemma summary_nodup ss : NoDup (map striple (summary_notes ss)).
Proof. apply (summary_nodup_from ss []). constructor. Qed.

Lemma add_note_in acc n x : In x (add_note acc n) -> In x acc \/ x = n.
Proof.
  induction acc as [|y r IH]; cbn; [intros [<-|[]]; now right|].
  destruct (sn_same y n); cbn; intros [<-|H]; auto. destruct (IH H); auto.
Qed.

Lemma summary_in_from ss : forall acc x, In x (fold_left summary_step ss acc) ->
  In x acc \/ exists s n, In s ss /\ sc_note s = Some n /\ x = with_code (sc_extcode s) n.
Proof.
  induction ss as [|s ss IH]; intros acc x H; cbn in H; [now left|].
  destruct (IH _ _ H) as [Hin|[s' [n [Hs [Hn ->]]]]].
  - unfold summary_step in Hin. destruct (sc_match s); [|now left]. destruct (sc_note s) as [n|] eqn:En; [|now left].
    destruct (add_note_in _ _ _ Hin) as [? | ->]; [now left|right]. exists s, n. cbn. auto.
  - right. exists s', n. cbn. auto.
Qed.
Lemma summary_in ss x : In x (summary_notes ss) ->
  exists s n, In s ss /\ sc_note s = Some n /\ x = with_code (sc_extcode s) n.
Proof. intro H. destruct (summary_in_from ss [] x H) as [[]|H']; exact H'. Qed.

(* ---- prepareScenarios' loop: the notes that are missing are appended, in summary order ---- *)
Definition some_from (sn : snote) : option note := Some (from_scenario sn).
Definition missing (S : list snote) (N : list (option note)) : list snote :=
  filter (fun sn => negb (has_same N (from_scenario sn))) S.

Lemma has_same_app N M n : has_same (N ++ M) n = has_same N n || has_same M n.
Proof. unfold has_same. apply existsb_app. Qed.

Lemma fold_append_missing S : NoDup (map striple S) -> forall N,
  fold_left append_missing S N = N ++ map some_from (missing S N).
Proof.
  induction S as [|sn S IH]; intros Hnd N; cbn [fold_left missing filter map]; [now rewrite app_nil_r|].
  inversion Hnd as [|? ? Hnotin Hnd']; subst. unfold append_missing at 2.
  destruct (has_same N (from_scenario sn)) eqn:E; cbn [negb].
  - apply IH. exact Hnd'.
  - rewrite (IH Hnd'). rewrite <- app_assoc. cbn [app map]. f_equal. f_equal. f_equal.
    unfold missing. apply filter_ext_in. intros sn' Hin'. f_equal.
    rewrite has_same_app. cbn. rewrite orb_false_r.
    destruct (same_as (from_scenario sn') (from_scenario sn)) eqn:Es; [|now rewrite orb_false_r].
    apply same_as_iff in Es. rewrite !triple_from in Es. exfalso. apply Hnotin. rewrite <- Es. now apply in_map.
Qed.

Lemma keep_some_from sns sn : keep_note sns (some_from sn) = negb (is_scenario_note sns (from_scenario sn)).
Proof. reflexivity. Qed.

Lemma filter_keep_map sns l :
  filter (keep_note sns) (map some_from l) = map some_from (filter (fun sn => negb (is_scenario_note sns (from_scenario sn))) l).
Proof. induction l as [|sn l IH]; cbn; auto. destruct (is_scenario_note sns (from_scenario sn)); cbn; now rewrite IH. Qed.

Lemma has_same_in N sn : In (some_from sn) N -> has_same N (from_scenario sn) = true.
Proof. intro H. unfold has_same. apply existsb_exists. exists (some_from sn). split; auto. apply same_as_refl. Qed.

(* ---- from the second calculation on, always ---- *)
Section AnyNotesOf.
  Variable notes_of : list scenario -> list snote.
  Variable ss : list scenario.
  Let sns := notes_of ss.
  Let S := summary_notes ss.
  Let prep := prepare_with notes_of ss.
  Let nr := fun sn => negb (is_scenario_note sns (from_scenario sn)).

  Lemma prep_eq N : prep N = filter (keep_note sns) N ++ map some_from (missing S (filter (keep_note sns) N)).
  Proof. unfold prep, prepare_with. rewrite remove_previous_filter. apply fold_append_missing, summary_nodup. Qed.

  Lemma kept_prep N : filter (keep_note sns) (prep N)
    = filter (keep_note sns) N ++ map some_from (filter nr (missing S (filter (keep_note sns) N))).
  Proof. rewrite prep_eq, filter_app, filter_idem, filter_keep_map. reflexivity. Qed.

  Lemma kept_prep_prep N : filter (keep_note sns) (prep (prep N)) = filter (keep_note sns) (prep N).
  Proof.
    rewrite (kept_prep (prep N)). set (M2 := filter (keep_note sns) (prep N)).
    assert (E : filter nr (missing S M2) = []); [|now rewrite E, app_nil_r].
    assert (H : forall sn, In sn (missing S M2) -> nr sn = false).
    { intros sn Hin. unfold missing in Hin. apply filter_In in Hin. destruct Hin as [HinS Hm].
      apply negb_true_iff in Hm. destruct (nr sn) eqn:Enr; [|reflexivity]. exfalso.
      unfold M2 in Hm. rewrite kept_prep, has_same_app in Hm. apply orb_false_iff in Hm. destruct Hm as [Hm1 Hm2].
      assert (Hin2 : In (some_from sn) (map some_from (filter nr (missing S (filter (keep_note sns) N))))).
      { apply in_map. apply filter_In. split; [|exact Enr]. unfold missing. apply filter_In. split; [exact HinS|].
        now rewrite Hm1. }
      rewrite (has_same_in _ _ Hin2) in Hm2. discriminate. }
    destruct (filter nr (missing S M2)) as [|x l] eqn:Ef; [reflexivity|].
    assert (Hx : In x (filter nr (missing S M2))) by (rewrite Ef; now left).
    apply filter_In in Hx. destruct Hx as [Hx1 Hx2]. rewrite (H x Hx1) in Hx2. discriminate.
  Qed.

  Lemma prep_of_kept N : prep N = fold_left append_missing S (filter (keep_note sns) N).
  Proof. unfold prep, prepare_with. now rewrite remove_previous_filter. Qed.

  Theorem prepare_stable_from_second N : prep (prep (prep N)) = prep (prep N).
  Proof. rewrite (prep_of_kept (prep (prep N))), kept_prep_prep, <- prep_of_kept. reflexivity. Qed.

  (* every note a scenario adds is one that removePreviousScenarioNotes recognises: one calculation suffices *)
  Hypothesis recognised : Forall (fun sn => is_scenario_note sns (from_scenario sn) = true) S.

  Theorem prepare_fixpoint_if_recognised N : prep (prep N) = prep N.
  Proof.
    rewrite (prep_of_kept (prep N)), kept_prep.
    assert (E : filter nr (missing S (filter (keep_note sns) N)) = []).
    { destruct (filter nr (missing S (filter (keep_note sns) N))) as [|x l] eqn:Ef; [reflexivity|].
      assert (Hx : In x (filter nr (missing S (filter (keep_note sns) N)))) by (rewrite Ef; now left).
      apply filter_In in Hx. destruct Hx as [Hx1 Hx2]. unfold missing in Hx1. apply filter_In in Hx1.
      rewrite Forall_forall in recognised. unfold nr in Hx2. rewrite (recognised x (proj1 Hx1)) in Hx2. discriminate. }
    rewrite E, app_nil_r, <- prep_of_kept. reflexivity.
  Qed.
End AnyNotesOf.

(* ---- as shipped ---- *)
Theorem shipped_refuted : exists ss notes, prepare_notes ss (prepare_notes ss notes) <> prepare_notes ss notes.
Proof. exists wit_scenarios, []. vm_compute. discriminate. Qed.

Theorem shipped_stable_from_second ss notes :
  prepare_notes ss (prepare_notes ss (prepare_notes ss notes)) = prepare_notes ss (prepare_notes ss notes).
Proof. apply prepare_stable_from_second. Qed.

Definition codes_agree (ss : list scenario) : Prop :=
  forall s n, In s ss -> sc_note s = Some n -> sc_extcode s = sn_code n.

Lemma with_own_code n : with_code (sn_code n) n = n.
Proof. destruct n; reflexivity. Qed.

Lemma in_all_snotes ss s n : In s ss -> sc_note s = Some n -> In n (all_snotes ss).
Proof. intros Hs Hn. unfold all_snotes. apply in_flat_map. exists s. split; auto. rewrite Hn. now left. Qed.
Lemma in_all_snotes_fixed ss s n : In s ss -> sc_note s = Some n -> In (with_code (sc_extcode s) n) (all_snotes_fixed ss).
Proof. intros Hs Hn. unfold all_snotes_fixed. apply in_flat_map. exists s. split; auto. rewrite Hn. now left. Qed.

Lemma recognised_self sns sn : In sn sns -> is_scenario_note sns (from_scenario sn) = true.
Proof. intro H. apply is_scenario_note_iff. rewrite triple_from. now apply in_map. Qed.

Theorem shipped_fixpoint_when_codes_agree ss notes : codes_agree ss ->
  prepare_notes ss (prepare_notes ss notes) = prepare_notes ss notes.
Proof.
  intro Hc. apply prepare_fixpoint_if_recognised. apply Forall_forall. intros x Hx.
  destruct (summary_in _ _ Hx) as [s [n [Hs [Hn ->]]]]. rewrite (Hc s n Hs Hn), with_own_code.
  apply recognised_self. eapply in_all_snotes; eauto.
Qed.

(* ---- repaired ---- *)
Theorem fixed_fixpoint ss notes : prepare_notes_fixed ss (prepare_notes_fixed ss notes) = prepare_notes_fixed ss notes.
Proof.
  apply prepare_fixpoint_if_recognised. apply Forall_forall. intros x Hx.
  destruct (summary_in _ _ Hx) as [s [n [Hs [Hn ->]]]]. apply recognised_self. eapply in_all_snotes_fixed; eauto.
Qed.

Lemma flat_map_ext_in1 {A B} (f g : A -> list B) l : (forall x, In x l -> f x = g x) -> flat_map f l = flat_map g l.
Proof.
  induction l as [|x l IH]; intro H; cbn; [reflexivity|]. rewrite (H x (or_introl eq_refl)), IH; auto.
  intros y Hy. apply H. now right.
Qed.

Theorem fixed_agrees_when_codes_agree ss notes : codes_agree ss -> prepare_notes_fixed ss notes = prepare_notes ss notes.
Proof.
  intro Hc. unfold prepare_notes_fixed, prepare_notes, prepare_with. f_equal. f_equal.
  unfold all_snotes_fixed, all_snotes. apply flat_map_ext_in1. intros s Hs.
  destruct (sc_note s) as [n|] eqn:En; [|reflexivity]. now rewrite (Hc s n Hs En), with_own_code.
Qed.

(* ---- the other notes ---- *)
Theorem other_notes_kept notes_of ss notes :
  exists added, prepare_with notes_of ss notes = filter (keep_note (notes_of ss)) notes ++ added /\
    forall x, In x added -> exists sn, In sn (summary_notes ss) /\ x = Some (from_scenario sn).
Proof.
  exists (map some_from (missing (summary_notes ss) (filter (keep_note (notes_of ss)) notes))). split.
  - apply prep_eq.
  - intros x Hx. apply in_map_iff in Hx. destruct Hx as [sn [<- Hin]]. exists sn. split; [|reflexivity].
    unfold missing in Hin. apply filter_In in Hin. tauto.
Qed.

(* what the comparison by key, code and source only (Note.SameAs) means for a note of the user's *)
Theorem user_note_with_scenario_key_replaced :
  prepare_notes [mkSc true [] (Some (mkSN (bs "legal") [] (bs "reverse-charge") (bs "Reverse Charge") []))] [Some wit_user_note]
  = [Some (mkNote (bs "legal") [] (bs "reverse-charge") (bs "Reverse Charge") [] [])] /\
  prepare_notes [mkSc false [] (Some (mkSN (bs "legal") [] (bs "reverse-charge") (bs "Reverse Charge") []))] [Some wit_user_note] = [].
Proof. split; reflexivity. Qed.

(* a note added under an ExtCode stays when its scenario no longer applies (as shipped), and goes (repaired) *)
Theorem stale_note_witness :
  prepare_notes wit_scenarios_m02 (prepare_notes wit_scenarios_m01 [])
  = [Some (mkNote (bs "legal") (bs "M01") (bs "pt-saft-exemption") (bs "Artigo 16") [] []);
     Some (mkNote (bs "legal") (bs "M02") (bs "pt-saft-exemption") (bs "Artigo 6") [] [])] /\
  prepare_notes_fixed wit_scenarios_m02 (prepare_notes_fixed wit_scenarios_m01 [])
  = [Some (mkNote (bs "legal") (bs "M02") (bs "pt-saft-exemption") (bs "Artigo 6") [] [])].
Proof. split; reflexivity. Qed.
